(* ConvergeRecv.v - C08: receiving from a script that delivers a known byte string, in any chunking.
   [delivers es B tail]: the receive script [es] is data events whose concatenation is B, followed by [tail].
   tr_recv / tr_recv_all / rtr_receive_pdu on such a script return exactly the next bytes / the next PDU, at once
   (no virtual time passes), whatever the chunking. *)
From RtrV Require Import Base.CSem Gen.Generated Rtr.RtrModel Rtr.RelFrame Rtr.ExpiryTac Rtr.CacheSpec.
Local Open Scope Z_scope.

Definition delivers (es : list ev) (B : list byte) (tail : list ev) : Prop :=
  exists chunks, es = map EvData chunks ++ tail /\ concat chunks = B.

(* everything but the receive script and the trace is untouched *)
Definition rest_same (w w' : world) : Prop :=
  sk w' = sk w /\ pfx w' = pfx w /\ keys w' = keys w /\ opens w' = opens w /\ sends w' = sends w /\ now w' = now w.
Lemma rest_same_refl w : rest_same w w. Proof. unfold rest_same; auto 10. Qed.
Lemma rest_same_trans a b c : rest_same a b -> rest_same b c -> rest_same a c.
Proof. unfold rest_same. intros (A1 & A2 & A3 & A4 & A5 & A6) (B1 & B2 & B3 & B4 & B5 & B6). repeat split; congruence. Qed.

Lemma firstn_app_le {A} (l1 l2 : list A) k : (k <= List.length l1)%nat -> firstn k (l1 ++ l2) = firstn k l1.
Proof. intros H. rewrite firstn_app. replace (k - List.length l1)%nat with O by lia. cbn. apply app_nil_r. Qed.
Lemma skipn_app_le {A} (l1 l2 : list A) k : (k <= List.length l1)%nat -> skipn k (l1 ++ l2) = skipn k l1 ++ l2.
Proof. intros H. rewrite skipn_app. replace (k - List.length l1)%nat with O by lia. reflexivity. Qed.
Lemma firstn_split {A} (l : list A) k n : (k <= n)%nat -> firstn k l ++ firstn (n - k) (skipn k l) = firstn n l.
Proof.
  revert l n. induction k as [|k IH]; intros l n H; [cbn; now rewrite Nat.sub_0_r|].
  destruct l as [|x l]; [now rewrite !firstn_nil|]. destruct n as [|n]; [lia|].
  cbn [firstn skipn Nat.sub app]. f_equal. apply IH. lia.
Qed.
Lemma skipn_skipn' {A} (l : list A) k n : (k <= n)%nat -> skipn (n - k) (skipn k l) = skipn n l.
Proof.
  revert l n. induction k as [|k IH]; intros l n H; [cbn; now rewrite Nat.sub_0_r|].
  destruct l as [|x l]; [now rewrite !skipn_nil|]. destruct n as [|n]; [lia|]. cbn [skipn Nat.sub]. apply IH. lia.
Qed.

Lemma tr_recv_evs_data chunks : forall tail len timeout left t, 0 < len -> concat chunks <> [] ->
  exists k es' tr, (0 < k)%nat /\ Z.of_nat k <= len /\ (k <= List.length (concat chunks))%nat /\
    tr_recv_evs (map EvData chunks ++ tail) len timeout left t = (Some (inr (firstn k (concat chunks))), es', t, tr) /\
    delivers es' (skipn k (concat chunks)) tail.
Proof.
  induction chunks as [|c cs IH]; intros tail len timeout left t Hlen Hne; [contradiction|].
  cbn [map app concat tr_recv_evs]. destruct c as [|x c'].
  - cbn [app] in *. apply IH; assumption.
  - set (b := x :: c'). set (n := Z.min len (zlen b)).
    assert (Hk : (0 < Z.to_nat n <= List.length b)%nat) by (unfold n, zlen, b; cbn [List.length]; lia).
    exists (Z.to_nat n). eexists. eexists.
    split; [lia|]. split; [unfold n; lia|]. split; [rewrite app_length; lia|].
    split; [rewrite firstn_app_le by lia; reflexivity|].
    rewrite skipn_app_le by lia.
    destruct (skipn (Z.to_nat n) b) as [|y l] eqn:E.
    + exists cs. split; reflexivity.
    + exists ((y :: l) :: cs). split; reflexivity.
Qed.

Lemma tr_recv_data len timeout w B tail : 0 < len -> B <> [] -> delivers (evs w) B tail ->
  exists k w', (0 < k)%nat /\ Z.of_nat k <= len /\ (k <= List.length B)%nat /\
    tr_recv len timeout w = Ok (inr (firstn k B)) w' /\ delivers (evs w') (skipn k B) tail /\ rest_same w w'.
Proof.
  intros Hlen Hne (chunks & He & Hc). subst B.
  destruct (tr_recv_evs_data chunks tail len timeout (Z.max 0 timeout) (now w) Hlen Hne) as (k & es' & tr & H1 & H2 & H3 & H4 & H5).
  exists k. unfold tr_recv. rewrite He, H4. eexists. repeat split; try eassumption; reflexivity.
Qed.

Lemma zlen_app {A} (a b : list A) : zlen (a ++ b) = zlen a + zlen b.
Proof. unfold zlen. rewrite app_length. lia. Qed.
Lemma zlen_firstn {A} (l : list A) k : (k <= List.length l)%nat -> zlen (firstn k l) = Z.of_nat k.
Proof. intros H. unfold zlen. rewrite firstn_length. lia. Qed.

Lemma tr_recv_all_loop_data fuel : forall len e acc w B tail,
  (Z.to_nat (len - zlen acc) <= fuel)%nat -> zlen acc <= len -> len - zlen acc <= zlen B -> delivers (evs w) B tail ->
  exists w', tr_recv_all_loop fuel len e acc w = Ok (inr (acc ++ firstn (Z.to_nat (len - zlen acc)) B)) w' /\
             delivers (evs w') (skipn (Z.to_nat (len - zlen acc)) B) tail /\ rest_same w w'.
Proof.
  induction fuel as [|f IH]; intros len e acc w B tail Hf Ha Hb Hd.
  - cbn [tr_recv_all_loop]. replace (Z.to_nat (len - zlen acc)) with O by lia. cbn [firstn skipn]. rewrite app_nil_r.
    exists w. split; [reflexivity|]. split; [exact Hd|apply rest_same_refl].
  - cbn [tr_recv_all_loop]. destruct (zlen acc >=? len) eqn:Eg.
    + rewrite Z.geb_leb in Eg. apply Z.leb_le in Eg. replace (Z.to_nat (len - zlen acc)) with O by lia.
      cbn [firstn skipn]. rewrite app_nil_r. exists w. split; [reflexivity|]. split; [exact Hd|apply rest_same_refl].
    + rewrite Z.geb_leb in Eg. apply Z.leb_gt in Eg.
      assert (Hne : B <> []) by (intros ->; unfold zlen in *; cbn [List.length] in *; lia).
      destruct (tr_recv_data (len - zlen acc) (e - now w) w B tail ltac:(lia) Hne Hd) as (k & w1 & K1 & K2 & K3 & Er & Hd1 & Hs1).
      unfold bind at 1, get_now. unfold bind. rewrite Er.
      assert (Hz : zlen (acc ++ firstn k B) = zlen acc + Z.of_nat k) by (rewrite zlen_app, zlen_firstn by exact K3; reflexivity).
      destruct (IH len e (acc ++ firstn k B) w1 (skipn k B) tail) as (w2 & E2 & Hd2 & Hs2).
      * rewrite Hz. lia.
      * rewrite Hz. lia.
      * rewrite Hz. unfold zlen in *. rewrite skipn_length. lia.
      * exact Hd1.
      * exists w2. rewrite Hz in E2, Hd2.
        replace (Z.to_nat (len - (zlen acc + Z.of_nat k))) with (Z.to_nat (len - zlen acc) - k)%nat in E2, Hd2 by lia.
        rewrite <- app_assoc, firstn_split in E2 by lia. rewrite skipn_skipn' in Hd2 by lia.
        split; [exact E2|]. split; [exact Hd2|eapply rest_same_trans; eauto].
Qed.

Lemma tr_recv_all_data len timeout w B tail : 0 <= len <= zlen B -> delivers (evs w) B tail ->
  exists w', tr_recv_all len timeout w = Ok (inr (firstn (Z.to_nat len) B)) w' /\
             delivers (evs w') (skipn (Z.to_nat len) B) tail /\ rest_same w w'.
Proof.
  intros Hl Hd. unfold tr_recv_all, bind, get_now.
  assert (Z0' : zlen (@nil byte) = 0) by reflexivity.
  assert (H1 : (Z.to_nat (len - zlen (@nil byte)) <= Z.to_nat len)%nat) by (rewrite Z0'; lia).
  assert (H2 : zlen (@nil byte) <= len) by (rewrite Z0'; lia).
  assert (H3 : len - zlen (@nil byte) <= zlen B) by (rewrite Z0'; lia).
  destruct (tr_recv_all_loop_data (Z.to_nat len) len (now w + timeout) [] w B tail H1 H2 H3 Hd) as (w' & E & Hd' & Hs).
  exists w'. rewrite Z0', Z.sub_0_r in E, Hd'. cbn [app] in E. auto.
Qed.

(* ---------- rtr_receive_pdu on a script that starts with a well-formed PDU of the client's version ---------- *)
Lemma nthb_firstn l k i : (i < k)%nat -> nthb (firstn k l) i = nthb l i.
Proof.
  unfold nthb. revert l i. induction k as [|k IH]; intros l i H; [lia|].
  destruct l as [|x l]; [destruct i; reflexivity|]. destruct i as [|i]; [reflexivity|]. cbn [firstn nth]. apply IH. lia.
Qed.
Lemma nthb_app_l (l1 l2 : list byte) i : (i < List.length l1)%nat -> nthb (l1 ++ l2) i = nthb l1 i.
Proof. intros H. unfold nthb. apply app_nth1. exact H. Qed.
Lemma get32_firstn l k off : (off + 3 < k)%nat -> get32 (firstn k l) off = get32 l off.
Proof. intros H. unfold get32. rewrite !nthb_firstn by lia. reflexivity. Qed.
Lemma get32_app_l (l1 l2 : list byte) off : (off + 3 < List.length l1)%nat -> get32 (l1 ++ l2) off = get32 l1 off.
Proof. intros H. unfold get32. rewrite !nthb_app_l by lia. reflexivity. Qed.

(* the socket after the first PDU of a connection has been seen *)
Definition seen (s : sock) : sock := upd_hasrecv s true.

Lemma receive_pdu_data timeout w p B tail :
  pdu_ok (version (sk w)) p -> (version (sk w) = 0 \/ version (sk w) = 1) ->
  st (sk w) <> c_RTR_SHUTDOWN -> delivers (evs w) (p ++ B) tail ->
  exists w', receive_pdu timeout w = Ok (inr p) w' /\ delivers (evs w') B tail /\
             sk w' = (if has_recv (sk w) then sk w else seen (sk w)) /\
             pfx w' = pfx w /\ keys w' = keys w /\ opens w' = opens w /\ sends w' = sends w /\ now w' = now w.
Proof.
  intros (Hv & Hlen & Hz & Hcs & Hty) Hver Hst Hd.
  assert (Hl8 : (8 <= List.length p)%nat) by (unfold zlen in Hz; lia).
  unfold receive_pdu. rewrite (bind_eq get_sk _ w (sk w) w eq_refl).
  destruct (st (sk w) =? c_RTR_SHUTDOWN) eqn:Es; [apply Z.eqb_eq in Es; contradiction|].
  destruct (tr_recv_all_data 8 timeout w (p ++ B) tail) as (w1 & E1 & Hd1 & Hs1);
    [rewrite zlen_app; unfold zlen in *; lia|exact Hd|].
  rewrite (bind_eq _ _ _ _ _ E1). change (Z.to_nat 8) with 8%nat in *.
  rewrite firstn_app_le in * by exact Hl8. rewrite skipn_app_le in Hd1 by exact Hl8.
  set (h := firstn 8 p) in *.
  assert (Hg : get32 h 4 = get32 p 4) by (apply get32_firstn; lia).
  assert (Hh0 : nthb h 0 = nthb p 0) by (apply nthb_firstn; lia).
  assert (Hh1 : nthb h 1 = nthb p 1) by (apply nthb_firstn; lia).
  cbv zeta. rewrite Hg.
  assert (F1 : get32 p 4 <? 8 = false) by (apply Z.ltb_ge; lia). rewrite F1.
  assert (F2 : get32 p 4 >? c_RTR_MAX_PDU_LEN = false) by (rewrite Z.gtb_ltb; apply Z.ltb_ge; lia). rewrite F2.
  destruct Hs1 as (S1 & S2 & S3 & S4 & S5 & S6).
  (* first PDU of the connection: no downgrade, the versions are equal *)
  assert (Hnd : (version (sk w1) =? 1) && (nthb h 0 =? 0) && negb (nthb h 1 =? c_ERROR) = false).
  { rewrite S1, Hh0, Hv. destruct Hver as [-> | ->]; reflexivity. }
  set (w2 := with_sk w1 (if has_recv (sk w1) then sk w1 else seen (sk w1))).
  assert (E2 : (mdo s <- get_sk; if has_recv s then ret tt
                else let s1 := if (version s =? 1) && (nthb h 0 =? 0) && negb (nthb h 1 =? c_ERROR) then upd_version s 0 else s in
                     set_sk (upd_hasrecv s1 true)) w1 = Ok tt w2).
  { unfold bind, get_sk. subst w2. destruct (has_recv (sk w1)) eqn:Eh.
    - unfold ret, with_sk. destruct w1; reflexivity.
    - cbv zeta. rewrite Hnd. reflexivity. }
  rewrite (bind_eq _ _ _ _ _ E2).
  rewrite (bind_eq get_sk _ w2 (sk w2) w2 eq_refl).
  assert (Hv2 : version (sk w2) = version (sk w)).
  { subst w2. cbn [sk with_sk]. rewrite S1. destruct (has_recv (sk w)); reflexivity. }
  assert (Hst2 : st (sk w2) = st (sk w)).
  { subst w2. cbn [sk with_sk]. rewrite S1. destruct (has_recv (sk w)); reflexivity. }
  assert (F3 : negb (nthb h 0 =? version (sk w2)) && negb (nthb h 1 =? c_ERROR) = false).
  { rewrite Hh0, Hv, Hv2, Z.eqb_refl. reflexivity. }
  rewrite F3.
  assert (Hd2 : delivers (evs w2) (skipn 8 p ++ B) tail) by (subst w2; exact Hd1).
  destruct (get32 p 4 - 8 >? 0) eqn:Eb.
  - rewrite Z.gtb_ltb in Eb. apply Z.ltb_lt in Eb.
    assert (Hbl : zlen (skipn 8 p) = get32 p 4 - 8) by (unfold zlen in *; rewrite skipn_length; lia).
    destruct (tr_recv_all_data (get32 p 4 - 8) c_RTR_RECV_TIMEOUT w2 (skipn 8 p ++ B) tail) as (w3 & E3 & Hd3 & Hs3);
      [rewrite zlen_app; unfold zlen in *; lia|exact Hd2|].
    assert (Ein : (mdo s2 <- get_sk; if st s2 =? c_RTR_SHUTDOWN then ret (inl (-1)) else tr_recv_all (get32 p 4 - 8) c_RTR_RECV_TIMEOUT) w2
                  = Ok (inr (firstn (Z.to_nat (get32 p 4 - 8)) (skipn 8 p ++ B))) w3).
    { unfold bind at 1, get_sk. rewrite Hst2, Es. exact E3. }
    rewrite (bind_eq _ _ _ _ _ Ein).
    assert (Hn : Z.to_nat (get32 p 4 - 8) = List.length (skipn 8 p)) by (unfold zlen in Hbl; lia).
    rewrite Hn in *. rewrite firstn_app_le, firstn_all in * by lia. rewrite skipn_app_le, skipn_all in Hd3 by lia.
    subst h. rewrite firstn_skipn, Hcs. unfold ret. exists w3.
    destruct Hs3 as (T1 & T2 & T3 & T4 & T5 & T6). subst w2. cbn [sk pfx keys opens sends now with_sk] in *.
    split; [reflexivity|]. split; [exact Hd3|]. rewrite T1, S1. repeat split; congruence.
  - rewrite Z.gtb_ltb in Eb. apply Z.ltb_ge in Eb.
    assert (Hp8 : List.length p = 8%nat) by (unfold zlen in Hz; lia).
    rewrite (bind_eq (ret (inr [])) _ w2 (inr []) w2 eq_refl).
    assert (Hhp : h = p) by (subst h; rewrite <- Hp8; apply firstn_all).
    rewrite app_nil_r, Hhp, Hcs. unfold ret. exists w2.
    assert (Hsk : skipn 8 p = []) by (rewrite <- Hp8; apply skipn_all).
    rewrite Hsk in Hd2. subst w2. cbn [sk pfx keys opens sends now with_sk] in *.
    split; [reflexivity|]. split; [exact Hd2|]. rewrite S1. repeat split; congruence.
Qed.
