(* Proofs for C20 over the generated name tables and conversion functions.
   The scripts do not mention the number of enumerators: adding an enumerator
   together with its name keeps them valid; forgetting the name, or dropping
   the bound check, breaks them. *)
From RtrV Require Import Base.CSem Gen.Generated.
Local Open Scope Z_scope.

Lemma wrapu32_cases v : - 2 ^ 31 <= v < 2 ^ 32 ->
  (0 <= v /\ wrapu 32 v = v) \/ (v < 0 /\ wrapu 32 v = v + 2 ^ 32).
Proof.
  intros H. unfold wrapu.
  destruct (Z_lt_le_dec v 0) as [Hn|Hp].
  - right. split; [exact Hn|].
    symmetry. apply (Z.mod_unique v (2 ^ 32) (-1) (v + 2 ^ 32)); lia.
  - left. split; [exact Hp|]. apply Z.mod_small. lia.
Qed.

Lemma wrapu64_small v : 0 <= v < 2 ^ 64 -> wrapu 64 v = v.
Proof. intros. unfold wrapu. apply Z.mod_small. lia. Qed.

Lemma tbl_get_in_range {A} (l : list A) v :
  0 <= v < Z.of_nat (List.length l) -> exists x, tbl_get l v = Some x.
Proof.
  intros H. destruct (tbl_get l v) eqn:E; [eauto|].
  apply tbl_get_None in E. lia.
Qed.

(* a finite check over positions 0..n-1, lifted to every integer in that range *)
Lemma range_covered (l : list Z) (n : nat) :
  forallb (fun i => existsb (Z.eqb (Z.of_nat i)) l) (seq 0 n) = true ->
  forall v, 0 <= v < Z.of_nat n -> In v l.
Proof.
  intros H v Hv. rewrite forallb_forall in H.
  specialize (H (Z.to_nat v)). rewrite Z2Nat.id in H by lia.
  assert (Hin : In (Z.to_nat v) (seq 0 n)) by (apply in_seq; lia).
  apply H in Hin. apply existsb_exists in Hin as (x & Hx & Heq).
  apply Z.eqb_eq in Heq. subst. exact Hx.
Qed.

(* The shape both functions have after translation: a bound test in front of the table read. *)
Definition bounded_read (tbl : list (option string)) (bound v : Z) : option (option string) :=
  guard (negb (8 =? 0)) (if wrapu 64 (wrapu 32 v) >=? bound then Some None else tbl_get tbl v).

Lemma bounded_read_null tbl bound enumvals :
  bound = Z.of_nat (List.length tbl) -> bound < 2 ^ 31 ->
  forallb (fun i => existsb (Z.eqb (Z.of_nat i)) enumvals) (seq 0 (List.length tbl)) = true ->
  forall v, - 2 ^ 31 <= v < 2 ^ 32 -> ~ In v enumvals -> bounded_read tbl bound v = Some None.
Proof.
  intros Hb Hsmall Hcov v Hr Hn. unfold bounded_read. change (negb (8 =? 0)) with true. cbv [guard].
  destruct (wrapu32_cases v Hr) as [[Hp Hw]|[Hp Hw]]; rewrite Hw, wrapu64_small by lia.
  - destruct (v >=? bound) eqn:E; [reflexivity|]. exfalso. apply Hn.
    rewrite Z.geb_leb in E. apply Z.leb_gt in E.
    apply (range_covered _ _ Hcov). lia.
  - destruct (v + 2 ^ 32 >=? bound) eqn:E; [reflexivity|].
    rewrite Z.geb_leb in E. apply Z.leb_gt in E.
    lia.
Qed.

Lemma bounded_read_safe tbl bound :
  bound = Z.of_nat (List.length tbl) -> bound < 2 ^ 31 ->
  forall v, - 2 ^ 31 <= v < 2 ^ 32 -> bounded_read tbl bound v <> None.
Proof.
  intros Hb Hsmall v Hr. unfold bounded_read. change (negb (8 =? 0)) with true. cbv [guard].
  destruct (wrapu32_cases v Hr) as [[Hp Hw]|[Hp Hw]]; rewrite Hw, wrapu64_small by lia.
  - destruct (v >=? bound) eqn:E; [discriminate|].
    rewrite Z.geb_leb in E. apply Z.leb_gt in E.
    destruct (tbl_get_in_range tbl v) as [x Hx]; [lia|]. rewrite Hx. discriminate.
  - destruct (v + 2 ^ 32 >=? bound) eqn:E; [discriminate|].
    rewrite Z.geb_leb in E. apply Z.leb_gt in E. lia.
Qed.

(* --- instances: the translated functions are bounded reads of their tables --- *)
Lemma state_is_bounded v :
  rtr_state_to_str_gen v = bounded_read socket_str_states (Z.of_nat (List.length socket_str_states)) v.
Proof. reflexivity. Qed.
Lemma status_is_bounded v :
  rtr_mgr_status_to_str_gen v = bounded_read mgr_str_status (Z.of_nat (List.length mgr_str_status)) v.
Proof. reflexivity. Qed.

Lemma state_names :
  Forall (fun '(name, v) => rtr_state_to_str_gen v = Some (Some name)) enum_rtr_socket_state.
Proof. repeat (apply Forall_cons; [vm_compute; reflexivity|]). apply Forall_nil. Qed.

Lemma status_names :
  Forall (fun '(name, v) => rtr_mgr_status_to_str_gen v = Some (Some name)) enum_rtr_mgr_status.
Proof. repeat (apply Forall_cons; [vm_compute; reflexivity|]). apply Forall_nil. Qed.

Lemma state_null : forall v : Z,
  - 2 ^ 31 <= v < 2 ^ 32 -> ~ In v (map snd enum_rtr_socket_state) ->
  rtr_state_to_str_gen v = Some None.
Proof.
  intros v Hr Hn. rewrite state_is_bounded.
  apply (bounded_read_null _ _ (map snd enum_rtr_socket_state)); auto; vm_compute; reflexivity.
Qed.

Lemma status_null : forall v : Z,
  - 2 ^ 31 <= v < 2 ^ 32 -> ~ In v (map snd enum_rtr_mgr_status) ->
  rtr_mgr_status_to_str_gen v = Some None.
Proof.
  intros v Hr Hn. rewrite status_is_bounded.
  apply (bounded_read_null _ _ (map snd enum_rtr_mgr_status)); auto; vm_compute; reflexivity.
Qed.

Lemma never_oob : forall v : Z, - 2 ^ 31 <= v < 2 ^ 32 ->
  rtr_state_to_str_gen v <> None /\ rtr_mgr_status_to_str_gen v <> None.
Proof.
  intros v Hr. rewrite state_is_bounded, status_is_bounded.
  split; apply bounded_read_safe; auto; vm_compute; reflexivity.
Qed.

(* non-vacuity: the enumerations are not empty and there are values outside them *)
Example c20_nonvacuous :
  rtr_state_to_str_gen 10 = Some (Some "RTR_CLOSED"%string) /\ rtr_state_to_str_gen 11 = Some None /\
  rtr_state_to_str_gen (-1) = Some None /\ rtr_mgr_status_to_str_gen 4 = Some None.
Proof. vm_compute. repeat split. Qed.
