(* VersionProofs.v - C13: the negotiated version only ever decreases, whatever the environment does;
   and the local facts about when it changes. *)
From RtrV Require Import Base.CSem Gen.Generated Rtr.RtrModel Rtr.RelFrame.
Local Open Scope Z_scope.

Definition V (w w' : world) : Prop :=
  version (sk w') <= version (sk w) /\ (0 <= version (sk w) -> 0 <= version (sk w')).

Lemma V_refl w : V w w. Proof. unfold V; lia. Qed.
Lemma V_trans a b c : V a b -> V b c -> V a c. Proof. unfold V; lia. Qed.

Notation relV := (rel V).
Ltac vfin := unfold V; cbn [sk version upd_st upd_version upd_session upd_req upd_serial upd_last upd_ivs upd_hasrecv upd_resetting]; try lia.

Ltac vbind := apply (rel_bind V V_trans).
Ltac vprim := unfold rel; unfold_prims; vfin.

(* generic driver: peel binds whose first component is a primitive or has a lemma in the context/hints *)
Ltac vstep :=
  match goal with
  | |- relV (ret _) _ => apply (rel_ret V V_refl)
  | |- relV (bind get_sk _) ?w => vbind; [vprim | let H := fresh "Heq" in intros ? ? H; unfold_prims_in H; injection H as <- <-]
  | |- relV (bind get_now _) ?w => vbind; [vprim | let H := fresh "Heq" in intros ? ? H; unfold_prims_in H; injection H as <- <-]
  | |- relV (bind get_w _) ?w => vbind; [vprim | let H := fresh "Heq" in intros ? ? H; unfold_prims_in H; injection H as <- <-]
  | |- relV (bind _ _) ?w => vbind; [ | intros ? ? ?Heq]
  | |- relV (if ?c then _ else _) _ => destruct c eqn:?
  | |- relV (match ?x with _ => _ end) _ => destruct x eqn:?
  | |- relV ((fun _ => _) _) _ => cbv beta
  | |- relV (let _ := _ in _) _ => cbv zeta
  end.

(* lemma dispatch by syntactic head: [apply] on a non-matching goal would unfold the whole model *)
Ltac vlem := fail.

Lemma change_state_V ns w : relV (change_state ns) w.
Proof. unfold change_state. repeat vstep; try vprim. Qed.
Ltac vlem1 := match goal with |- relV (change_state _) _ => apply change_state_V end.
Ltac vlem ::= first [ vlem1 ].

Lemma tr_recv_V len t w : relV (tr_recv len t) w.
Proof.
  unfold rel, tr_recv. destruct (tr_recv_evs _ _ _ _ _) as [[[[[c|b]|] es] t'] tr]; try destruct (c =? -99); vfin.
Qed.
Ltac vlem2 := match goal with |- relV (tr_recv _ _) _ => apply tr_recv_V end.
Ltac vlem ::= first [ vlem1 | vlem2 ].

Lemma tr_recv_all_loop_V fuel : forall len e acc w, relV (tr_recv_all_loop fuel len e acc) w.
Proof.
  induction fuel as [|f IH]; intros; cbn [tr_recv_all_loop]; [apply (rel_ret V V_refl)|].
  repeat vstep; try vlem; try (match goal with |- relV (tr_recv_all_loop _ _ _ _) _ => apply IH | |- relV (tr_send_all_loop _ _ _) _ => apply IH | |- relV (store_loop _ _ _ _) _ => apply IH | |- relV (sync_first _) _ => apply IH end).
Qed.
Ltac vlem3 := match goal with |- relV (tr_recv_all_loop _ _ _ _) _ => apply tr_recv_all_loop_V end.
Ltac vlem ::= first [ vlem1 | vlem2 | vlem3 ].

Lemma tr_recv_all_V len t w : relV (tr_recv_all len t) w.
Proof. unfold tr_recv_all. repeat vstep. apply tr_recv_all_loop_V. Qed.
Ltac vlem4 := match goal with |- relV (tr_recv_all _ _) _ => apply tr_recv_all_V end.
Ltac vlem ::= first [ vlem1 | vlem2 | vlem3 | vlem4 ].

Lemma tr_send_V b w : relV (tr_send b) w.
Proof. unfold rel, tr_send. destruct (sends w); destruct (_ <? 0); vfin. Qed.
Ltac vlem5 := match goal with |- relV (tr_send _) _ => apply tr_send_V end.
Ltac vlem ::= first [ vlem1 | vlem2 | vlem3 | vlem4 | vlem5 ].

Lemma tr_send_all_loop_V fuel : forall b tot w, relV (tr_send_all_loop fuel b tot) w.
Proof.
  induction fuel as [|f IH]; intros; cbn [tr_send_all_loop]; [apply (rel_ret V V_refl)|].
  repeat vstep; try vlem; try (match goal with |- relV (tr_recv_all_loop _ _ _ _) _ => apply IH | |- relV (tr_send_all_loop _ _ _) _ => apply IH | |- relV (store_loop _ _ _ _) _ => apply IH | |- relV (sync_first _) _ => apply IH end).
Qed.
Ltac vlem6 := match goal with |- relV (tr_send_all_loop _ _ _) _ => apply tr_send_all_loop_V end.
Ltac vlem ::= first [ vlem1 | vlem2 | vlem3 | vlem4 | vlem5 | vlem6 ].

Lemma send_pdu_V b w : relV (send_pdu b) w.
Proof. unfold send_pdu, tr_send_all. repeat vstep; try vlem. Qed.
Ltac vlem7 := match goal with |- relV (send_pdu _) _ => apply send_pdu_V end.
Ltac vlem ::= first [ vlem1 | vlem2 | vlem3 | vlem4 | vlem5 | vlem6 | vlem7 ].

Lemma send_error_pdu_V enc c t w : relV (send_error_pdu enc c t) w.
Proof. unfold send_error_pdu. repeat vstep; try vlem. Qed.
Ltac vlem8 := match goal with |- relV (send_error_pdu _ _ _) _ => apply send_error_pdu_V end.
Ltac vlem ::= first [ vlem1 | vlem2 | vlem3 | vlem4 | vlem5 | vlem6 | vlem7 | vlem8 ].

Lemma send_error_from_host_V enc c t w : relV (send_error_from_host enc c t) w.
Proof. unfold send_error_from_host. repeat vstep; try vlem. Qed.
Ltac vlem9 := match goal with |- relV (send_error_from_host _ _ _) _ => apply send_error_from_host_V end.
Ltac vlem ::= first [ vlem1 | vlem2 | vlem3 | vlem4 | vlem5 | vlem6 | vlem7 | vlem8 | vlem9 ].

Lemma send_serial_query_V w : relV send_serial_query w.
Proof. unfold send_serial_query. repeat vstep; try vlem. Qed.
Ltac vlem10 := match goal with |- relV (send_serial_query) _ => apply send_serial_query_V end.
Ltac vlem ::= first [ vlem1 | vlem2 | vlem3 | vlem4 | vlem5 | vlem6 | vlem7 | vlem8 | vlem9 | vlem10 ].

Lemma send_reset_query_V w : relV send_reset_query w.
Proof. unfold send_reset_query. repeat vstep; try vlem. Qed.
Ltac vlem11 := match goal with |- relV (send_reset_query) _ => apply send_reset_query_V end.
Ltac vlem ::= first [ vlem1 | vlem2 | vlem3 | vlem4 | vlem5 | vlem6 | vlem7 | vlem8 | vlem9 | vlem10 | vlem11 ].

Lemma recv_err_V c w : relV (recv_err c) w.
Proof. unfold recv_err. repeat vstep; try vlem. Qed.
Ltac vlem12 := match goal with |- relV (recv_err _) _ => apply recv_err_V end.
Ltac vlem ::= first [ vlem1 | vlem2 | vlem3 | vlem4 | vlem5 | vlem6 | vlem7 | vlem8 | vlem9 | vlem10 | vlem11 | vlem12 ].

Lemma tr_open_V w : relV tr_open w.
Proof. unfold rel, tr_open. destruct (opens w); vfin. Qed.
Ltac vlem13 := match goal with |- relV (tr_open) _ => apply tr_open_V end.
Ltac vlem ::= first [ vlem1 | vlem2 | vlem3 | vlem4 | vlem5 | vlem6 | vlem7 | vlem8 | vlem9 | vlem10 | vlem11 | vlem12 | vlem13 ].

Lemma receive_pdu_V t w : relV (receive_pdu t) w.
Proof.
  unfold receive_pdu.
  repeat vstep; try vlem.
  all: try (vprim; fail).
  (* the live downgrade: version 1 -> 0 only *)
  all: try (unfold rel; unfold_prims;
            repeat match goal with |- context [if ?c then _ else _] => destruct c eqn:? end; vfin;
            repeat match goal with H : _ && _ = true |- _ => apply andb_true_iff in H as [? ?] end;
            repeat match goal with H : (_ =? _) = true |- _ => apply Z.eqb_eq in H end; lia).
Qed.
Ltac vlem14 := match goal with |- relV (receive_pdu _) _ => apply receive_pdu_V end.
Ltac vlem ::= first [ vlem1 | vlem2 | vlem3 | vlem4 | vlem5 | vlem6 | vlem7 | vlem8 | vlem9 | vlem10 | vlem11 | vlem12 | vlem13 | vlem14 ].

Lemma handle_error_pdu_V p w : relV (handle_error_pdu p) w.
Proof.
  unfold handle_error_pdu. repeat vstep; try vlem.
  unfold rel; unfold_prims; vfin.
  repeat match goal with H : _ && _ = true |- _ => apply andb_true_iff in H as [? ?] end.
  repeat match goal with H : (_ <? _) = true |- _ => apply Z.ltb_lt in H end.
  repeat match goal with H : (_ >=? _) = true |- _ => rewrite Z.geb_leb in H; apply Z.leb_le in H end.
  change c_RTR_PROTOCOL_MIN_SUPPORTED_VERSION with 0 in *. lia.
Qed.
Ltac vlem15 := match goal with |- relV (handle_error_pdu _) _ => apply handle_error_pdu_V end.
Ltac vlem ::= first [ vlem1 | vlem2 | vlem3 | vlem4 | vlem5 | vlem6 | vlem7 | vlem8 | vlem9 | vlem10 | vlem11 | vlem12 | vlem13 | vlem14 | vlem15 ].

Lemma report_update_failure_V p c k w : relV (report_update_failure p c k) w.
Proof. unfold report_update_failure. repeat vstep; try vlem. Qed.
Ltac vlem16 := match goal with |- relV (report_update_failure _ _ _) _ => apply report_update_failure_V end.
Ltac vlem ::= first [ vlem1 | vlem2 | vlem3 | vlem4 | vlem5 | vlem6 | vlem7 | vlem8 | vlem9 | vlem10 | vlem11 | vlem12 | vlem13 | vlem14 | vlem15 | vlem16 ].

Lemma src_remove_all_V w : relV src_remove_all w.
Proof. unfold src_remove_all. repeat vstep; try vprim. Qed.
Ltac vlem17 := match goal with |- relV (src_remove_all) _ => apply src_remove_all_V end.
Ltac vlem ::= first [ vlem1 | vlem2 | vlem3 | vlem4 | vlem5 | vlem6 | vlem7 | vlem8 | vlem9 | vlem10 | vlem11 | vlem12 | vlem13 | vlem14 | vlem15 | vlem16 | vlem17 ].

Lemma purge_after_failed_undo_V w : relV purge_after_failed_undo w.
Proof. unfold purge_after_failed_undo. repeat vstep; try vlem; try vprim. Qed.
Ltac vlem18 := match goal with |- relV (purge_after_failed_undo) _ => apply purge_after_failed_undo_V end.
Ltac vlem ::= first [ vlem1 | vlem2 | vlem3 | vlem4 | vlem5 | vlem6 | vlem7 | vlem8 | vlem9 | vlem10 | vlem11 | vlem12 | vlem13 | vlem14 | vlem15 | vlem16 | vlem17 | vlem18 ].

Lemma apply_eod_intervals_version s p : version (apply_eod_intervals s p) = version s.
Proof. unfold apply_eod_intervals. destruct (_ && _); reflexivity. Qed.

Lemma process_eod_V p v4 v6 ks w : relV (process_eod p v4 v6 ks) w.
Proof.
  unfold process_eod.
  repeat vstep; try vlem; try (vprim; fail).
  all: try (unfold rel; unfold_prims; vfin; rewrite ?apply_eod_intervals_version; lia).
Qed.
Ltac vlem19 := match goal with |- relV (process_eod _ _ _ _) _ => apply process_eod_V end.
Ltac vlem ::= first [ vlem1 | vlem2 | vlem3 | vlem4 | vlem5 | vlem6 | vlem7 | vlem8 | vlem9 | vlem10 | vlem11 | vlem12 | vlem13 | vlem14 | vlem15 | vlem16 | vlem17 | vlem18 | vlem19 ].

Lemma store_loop_V fuel : forall v4 v6 ks w, relV (store_loop fuel v4 v6 ks) w.
Proof.
  induction fuel as [|f IH]; intros; cbn [store_loop]; [apply (rel_ret V V_refl)|].
  repeat vstep; try vlem; try (match goal with |- relV (tr_recv_all_loop _ _ _ _) _ => apply IH | |- relV (tr_send_all_loop _ _ _) _ => apply IH | |- relV (store_loop _ _ _ _) _ => apply IH | |- relV (sync_first _) _ => apply IH end); try vlem.
Qed.
Ltac vlem20 := match goal with |- relV (store_loop _ _ _ _) _ => apply store_loop_V end.
Ltac vlem ::= first [ vlem1 | vlem2 | vlem3 | vlem4 | vlem5 | vlem6 | vlem7 | vlem8 | vlem9 | vlem10 | vlem11 | vlem12 | vlem13 | vlem14 | vlem15 | vlem16 | vlem17 | vlem18 | vlem19 | vlem20 ].

Lemma receive_and_store_V fuel w : relV (receive_and_store fuel) w.
Proof. unfold receive_and_store. repeat vstep; try vlem; try (vprim; destruct (resetting _); vfin). Qed.
Ltac vlem21 := match goal with |- relV (receive_and_store _) _ => apply receive_and_store_V end.
Ltac vlem ::= first [ vlem1 | vlem2 | vlem3 | vlem4 | vlem5 | vlem6 | vlem7 | vlem8 | vlem9 | vlem10 | vlem11 | vlem12 | vlem13 | vlem14 | vlem15 | vlem16 | vlem17 | vlem18 | vlem19 | vlem20 | vlem21 ].

Lemma sync_first_V fuel : forall w, relV (sync_first fuel) w.
Proof.
  induction fuel as [|f IH]; intros; cbn [sync_first]; [apply (rel_ret V V_refl)|].
  repeat vstep; try vlem; try (match goal with |- relV (tr_recv_all_loop _ _ _ _) _ => apply IH | |- relV (tr_send_all_loop _ _ _) _ => apply IH | |- relV (store_loop _ _ _ _) _ => apply IH | |- relV (sync_first _) _ => apply IH end).
  unfold rel; unfold_prims; vfin.
  repeat match goal with H : _ && _ = true |- _ => apply andb_true_iff in H as [? ?] end.
  match goal with H : (_ >? _) = true |- _ => rewrite Z.gtb_ltb in H; apply Z.ltb_lt in H end.
  change c_RTR_PROTOCOL_MIN_SUPPORTED_VERSION with 0 in *. lia.
Qed.
Ltac vlem22 := match goal with |- relV (sync_first _) _ => apply sync_first_V end.
Ltac vlem ::= first [ vlem1 | vlem2 | vlem3 | vlem4 | vlem5 | vlem6 | vlem7 | vlem8 | vlem9 | vlem10 | vlem11 | vlem12 | vlem13 | vlem14 | vlem15 | vlem16 | vlem17 | vlem18 | vlem19 | vlem20 | vlem21 | vlem22 ].

Lemma rtr_sync_V fuel w : relV (rtr_sync fuel) w.
Proof.
  unfold rtr_sync.
  repeat vstep; try vlem; try (vprim; fail).
  all: try (unfold rel; unfold_prims; destruct (negb _); vfin).
Qed.
Ltac vlem23 := match goal with |- relV (rtr_sync _) _ => apply rtr_sync_V end.
Ltac vlem ::= first [ vlem1 | vlem2 | vlem3 | vlem4 | vlem5 | vlem6 | vlem7 | vlem8 | vlem9 | vlem10 | vlem11 | vlem12 | vlem13 | vlem14 | vlem15 | vlem16 | vlem17 | vlem18 | vlem19 | vlem20 | vlem21 | vlem22 | vlem23 ].

Lemma wait_for_sync_V w : relV wait_for_sync w.
Proof. unfold wait_for_sync. repeat vstep; try vlem. Qed.
Ltac vlem24 := match goal with |- relV (wait_for_sync) _ => apply wait_for_sync_V end.
Ltac vlem ::= first [ vlem1 | vlem2 | vlem3 | vlem4 | vlem5 | vlem6 | vlem7 | vlem8 | vlem9 | vlem10 | vlem11 | vlem12 | vlem13 | vlem14 | vlem15 | vlem16 | vlem17 | vlem18 | vlem19 | vlem20 | vlem21 | vlem22 | vlem23 | vlem24 ].

Lemma purge_outdated_V w : relV purge_outdated w.
Proof. unfold purge_outdated. repeat vstep; try vlem; try vprim. Qed.
Ltac vlem25 := match goal with |- relV (purge_outdated) _ => apply purge_outdated_V end.
Ltac vlem ::= first [ vlem1 | vlem2 | vlem3 | vlem4 | vlem5 | vlem6 | vlem7 | vlem8 | vlem9 | vlem10 | vlem11 | vlem12 | vlem13 | vlem14 | vlem15 | vlem16 | vlem17 | vlem18 | vlem19 | vlem20 | vlem21 | vlem22 | vlem23 | vlem24 | vlem25 ].

Lemma fsm_step_V fuel w : relV (fsm_step fuel) w.
Proof.
  unfold fsm_step.
  repeat vstep; try vlem; try (vprim; fail).
Qed.
Ltac vlem26 := match goal with |- relV (fsm_step _) _ => apply fsm_step_V end.
Ltac vlem ::= first [ vlem1 | vlem2 | vlem3 | vlem4 | vlem5 | vlem6 | vlem7 | vlem8 | vlem9 | vlem10 | vlem11 | vlem12 | vlem13 | vlem14 | vlem15 | vlem16 | vlem17 | vlem18 | vlem19 | vlem20 | vlem21 | vlem22 | vlem23 | vlem24 | vlem25 | vlem26 ].

Lemma rtr_stop_V w : relV rtr_stop w.
Proof. unfold rtr_stop. repeat vstep; try vlem; try (vprim; fail). Qed.
Ltac vlem27 := match goal with |- relV (rtr_stop) _ => apply rtr_stop_V end.
Ltac vlem ::= first [ vlem1 | vlem2 | vlem3 | vlem4 | vlem5 | vlem6 | vlem7 | vlem8 | vlem9 | vlem10 | vlem11 | vlem12 | vlem13 | vlem14 | vlem15 | vlem16 | vlem17 | vlem18 | vlem19 | vlem20 | vlem21 | vlem22 | vlem23 | vlem24 | vlem25 | vlem26 | vlem27 ].

Lemma dump_V tag w : relV (dump tag) w.
Proof. unfold rel, dump. unfold_prims. vfin. Qed.
Ltac vlem28 := match goal with |- relV (dump _) _ => apply dump_V end.
Ltac vlem ::= first [ vlem1 | vlem2 | vlem3 | vlem4 | vlem5 | vlem6 | vlem7 | vlem8 | vlem9 | vlem10 | vlem11 | vlem12 | vlem13 | vlem14 | vlem15 | vlem16 | vlem17 | vlem18 | vlem19 | vlem20 | vlem21 | vlem22 | vlem23 | vlem24 | vlem25 | vlem26 | vlem27 | vlem28 ].

Theorem run_fsm_V n fuel : forall w, V w (run_fsm n fuel w).
Proof.
  induction n as [|n IH]; intros w; cbn [run_fsm]; [apply V_refl|].
  pose proof (fsm_step_V fuel w) as H. unfold rel in H.
  destruct (fsm_step fuel w) as [[] w'|[why|] w'].
  - eapply V_trans; [exact H|apply IH].
  - exact H.
  - assert (Hs : relV (mdo _ <- rtr_stop; mdo _ <- dump 1; modify_sk (fun s => upd_st s c_RTR_CONNECTING)) w').
    { repeat vstep; try vlem; try (vprim; fail). }
    unfold rel in Hs.
    destruct ((mdo _ <- rtr_stop; mdo _ <- dump 1; modify_sk (fun s => upd_st s c_RTR_CONNECTING)) w') as [[] w2|e w2].
    + eapply V_trans; [exact H|]. eapply V_trans; [exact Hs|apply IH].
    + eapply V_trans; eauto.
Qed.
