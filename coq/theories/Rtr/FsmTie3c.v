(* FsmTie3c.v - rtr_receive_pdu, translated, against the model's receive_pdu: the paths behind the payload read.
   Continues Rtr/FsmTie3b.v.  STATUS (partial):
   (a) PROVED
     check_size_gen_local   rtr_pdu_check_size_gen mem (Some 0) <> None -> rtr_pdu_check_size_gen (mem ++ j) (Some 0) = the same:
                            the translated size check never looks behind the bytes it needs (symbolic walk over every
                            guard / load of the translated function);
     check_size_padded      Forall byte_ok p -> 8 <= zlen p -> zlen p = get32 p 4 -> nthb p 1 <> c_ROUTER_KEY ->
                            rtr_pdu_check_size_gen (header_host p ++ junk) (Some 0) = Some (b2z (check_size p))
                            (the Router Key case - header_host differs from to_host on bytes 2-3 there - is NOT done);
     header_to_network      Forall byte_ok p -> 8 <= zlen p -> rtr_pdu_header_to_network_byte_order_gen (header_host p) (Some 0) = Some p
                            (both directions of the conversion are the same byte swap; header_host is an involution);
     NOT DONE: FooterTie.footer_translated lifted to the padded buffer.
   (b) PROVED for the header-only PDU (get32 h 4 = 8, no payload read), not a Router Key:
     recv_size_rejected_header_only   check_size h = false: Corrupt Data report echoing the header as received,
                            RTR_ERROR_FATAL, result / socket (= after_first) / trace = model; extra hypotheses
                            Forall byte_ok m (the buffer holds bytes) and c_RTR_MAX_PDU_LEN <= zlen m.
     NOT DONE: the same with a payload (needs st_list mem k bs = firstn k mem ++ bs ++ skipn (k + length bs) mem for
     the bytes tr_recv_all wrote at offset 8; then check_size_padded / header_to_network apply as here).
   (c), (d), (e) NOT DONE: the success path, the combined receive_pdu_tie, the composition with stage 2. *)
From Coq Require Import ZifyBool.
From RtrV Require Import Base.CSem Base.Mem Base.MemW Base.Eff Base.EffMem Gen.Generated Gen.GeneratedMem Gen.GeneratedMemW
  Gen.GeneratedFsm3 Rtr.RtrModel Rtr.RelFrame Rtr.ExpiryTac Rtr.SyncSets Rtr.ExpiryFrames Rtr.ConvergeStutter
  Rtr.ExpiryProofs Rtr.CheckSizeTie Rtr.FooterTie Rtr.FsmTie Rtr.FsmTie2 Rtr.FsmTie3 Rtr.FsmTie3b.
Require RtrV.Rtr.RecvBase RtrV.Rtr.RecvProofs.
Local Open Scope string_scope.
Local Open Scope Z_scope.

(* ====================================================================================================== *)
(* 1. the translated size check looks at the PDU only: bytes behind it do not matter                        *)
(* ====================================================================================================== *)
Lemma mbyte_app mem j i : 0 <= i < zlen mem -> mbyte (mem ++ j) i = mbyte mem i.
Proof. unfold mbyte, zlen. intros H. apply app_nth1. lia. Qed.
Lemma le_load_app mem j : forall k o, 0 <= o -> o + Z.of_nat k <= zlen mem -> le_load (mem ++ j) o k = le_load mem o k.
Proof.
  induction k as [|k IH]; intros o Ho Hl; [reflexivity|]. cbn [le_load].
  rewrite mbyte_app by lia. rewrite IH by lia. reflexivity.
Qed.
Lemma ld_ok_app mem j p n : ld_ok mem p n = true -> ld_ok (mem ++ j) p n = true.
Proof. unfold ld_ok. destruct p as [o|]; [|discriminate]. rewrite app_length. lia. Qed.
Lemma ldu_app mem j p n : ld_ok mem p n = true -> 0 <= n -> ldu (mem ++ j) p n = ldu mem p n.
Proof.
  unfold ld_ok, ldu. destruct p as [o|]; [|discriminate]. intros H Hn. apply le_load_app; unfold zlen; lia.
Qed.

Ltac loc_step mem j :=
  match goal with
  | |- guard (implb ?c _) _ <> None -> _ =>
    match c with context [?a =? ?b] => destruct (a =? b) end;
    cbn [implb negb andb orb guard]; rewrite ?Bool.implb_true_r; cbn [guard]
  | |- context [ld_ok (mem ++ j)%list ?p ?n] =>
    let Hc := fresh "Hc" in
    destruct (ld_ok mem p n) eqn:Hc;
    [ rewrite (ld_ok_app mem j p n Hc); rewrite ?(ldu_app mem j p n Hc) by lia; cbn [guard obind]
    | cbn [guard obind]; intros Hn; exfalso; apply Hn; reflexivity ]
  | |- (if ?c then _ else _) <> None -> _ => destruct c
  | |- (match ?o with Some _ => _ | None => None end) <> None -> _ => destruct o
  | |- _ <> None -> ?x = ?x => intros _; reflexivity
  end.

Lemma check_size_gen_local mem j :
  rtr_pdu_check_size_gen mem (Some 0) <> None ->
  rtr_pdu_check_size_gen (mem ++ j) (Some 0) = rtr_pdu_check_size_gen mem (Some 0).
Proof.
  unfold rtr_pdu_check_size_gen, rtr_get_pdu_type_gen, lds. cbn [ptr_add]. cbv zeta.
  repeat loc_step mem j.
Qed.

Lemma check_size_padded p junk :
  Forall byte_ok p -> 8 <= zlen p -> zlen p = get32 p 4 -> nthb p 1 <> c_ROUTER_KEY ->
  rtr_pdu_check_size_gen (header_host p ++ junk) (Some 0) = Some (b2z (check_size p)).
Proof.
  intros Hb H8 Hl Hk. rewrite header_host_to_host by exact Hk.
  rewrite check_size_gen_local; rewrite (check_size_translated p Hb H8 Hl); [reflexivity|discriminate].
Qed.

(* ====================================================================================================== *)
(* 2. rtr_pdu_header_to_network_byte_order puts the header back as it was received                          *)
(* ====================================================================================================== *)
Lemma convert_header_net_host mem p :
  rtr_pdu_convert_header_byte_order_gen mem p (wrapu 32 0) = rtr_pdu_convert_header_byte_order_gen mem p c_TO_HOST_HOST_BYTE_ORDER.
Proof. reflexivity. Qed.

Lemma header_host_invol p : header_host (header_host p) = p.
Proof.
  unfold header_host. destruct p as [|x0 p]; [reflexivity|]. destruct p as [|x1 p]; [reflexivity|].
  do 6 (destruct p as [|? p]; [reflexivity|]). destruct (x1 =? c_ROUTER_KEY) eqn:E; rewrite E; reflexivity.
Qed.
Lemma header_host_length p : List.length (header_host p) = List.length p.
Proof.
  unfold header_host. do 8 (destruct p as [|? p]; [reflexivity|]). destruct (_ =? _); reflexivity.
Qed.
Lemma header_host_bytes p : Forall byte_ok p -> Forall byte_ok (header_host p).
Proof.
  unfold header_host. intros H. do 8 (destruct p as [|? p]; [exact H|]). 
  do 8 (apply Forall_cons_iff in H; destruct H as [? H]).
  destruct (_ =? _); repeat (apply Forall_cons; [assumption|]); exact H.
Qed.

Lemma header_to_network p : Forall byte_ok p -> 8 <= zlen p ->
  rtr_pdu_header_to_network_byte_order_gen (header_host p) (Some 0) = Some p.
Proof.
  intros Hb H8. unfold rtr_pdu_header_to_network_byte_order_gen. rewrite convert_header_net_host.
  rewrite header_translated; [|apply header_host_bytes, Hb|unfold zlen in *; rewrite header_host_length; exact H8].
  rewrite header_host_invol. reflexivity.
Qed.

(* ====================================================================================================== *)
(* 3. the buffer with the converted header copied back                                                      *)
(* ====================================================================================================== *)
Lemma header_host_app p r : (8 <= List.length p)%nat -> header_host (p ++ r) = (header_host p ++ r)%list.
Proof.
  intros H. do 8 (destruct p as [|? p]; [cbn [List.length] in H; lia|]). cbn [app header_host].
  destruct (_ =? _); reflexivity.
Qed.
Lemma header_copied_back a b c d e f g i R :
  mcopy (a :: b :: c :: d :: e :: f :: g :: i :: R) (Some 0) (header_host [a; b; c; d; e; f; g; i]) (Some 0) 8 =
  header_host (a :: b :: c :: d :: e :: f :: g :: i :: R).
Proof. unfold header_host. destruct (b =? c_ROUTER_KEY); reflexivity. Qed.

Lemma Tm_after_first w s h : Tm w -> s = sk w -> Tm (with_sk w (after_first s h)).
Proof.
  intros HT ->. unfold after_first.
  destruct (has_recv (sk w)); [rewrite with_sk_same; exact HT|].
  destruct HT as (He & Hr & Hn & Hl & Hq & Hs). unfold Tm, env_ok in *.
  destruct (_ && _); cbn [sk evs now with_sk retry_iv last_update req_sess resetting upd_hasrecv upd_version];
    repeat match goal with |- _ /\ _ => split end; try assumption; lia.
Qed.

Section SizePhase.
Variables (fuel : nat) (m : list Z) (len t : Z) (w : world) (h : list byte) (w1 : world).
Hypothesis Hl : c_RTR_MAX_PDU_LEN <= len.
Hypothesis Hm : 8 <= zlen m.
Hypothesis Hmb : Forall byte_ok m.
Hypothesis Hmx : c_RTR_MAX_PDU_LEN <= zlen m.
Hypothesis Hr : 0 <= st (sk w) < 2^32.
Hypothesis Hs : st (sk w) <> c_RTR_SHUTDOWN.
Hypothesis HT : Tm w.
Hypothesis E : tr_recv_all 8 t w = Ok (inr h) w1.
Hypothesis Hlen : 8 <= get32 h 4 <= c_RTR_MAX_PDU_LEN.
Hypothesis HV : 0 <= version (sk w) < 2^32.
Hypothesis Hver : negb (nthb h 0 =? version (after_first (sk w) h)) && negb (nthb h 1 =? c_ERROR) = false.
Hypothesis Hnk : nthb h 1 <> c_ROUTER_KEY.

Ltac walk_first a b r Hk Hb :=
  rewrite ?Hk; rewrite sg_hasrecv, z2b_b2z;
  let Ehr := fresh "Ehr" in
  destruct (has_recv (sk w)) eqn:Ehr; cbn [negb]; cbv iota;
  [ let HS := fresh "HS" in
    assert (HS : after_first (sk w) (a :: b :: r) = sk w) by (unfold after_first; rewrite Ehr; reflexivity);
    rewrite ?HS; rewrite <- HS
  | rewrite !Bool.implb_true_r; cbn [eguard];
    rewrite (first_store (sk w) a b ltac:(inversion Hb; assumption)
                         ltac:(inversion Hb as [|? ? ? Hb2]; inversion Hb2; assumption) Ehr r) ].

(* a PDU that is only a header (length 8), rejected by rtr_pdu_check_size *)
Theorem recv_size_rejected_header_only : get32 h 4 = 8 -> check_size h = false ->
  interp3 fuel (rtr_receive_pdu_gen m (Some 0) len t (sock_store (sk w))) [] w =
  Some (as_recv (fun _ => st_list m 0 h) (receive_pdu t) w).
Proof.
  intros H8 Hcs.
  destruct (header_facts _ _ _ _ HT E) as (Hz & Hb & Hk & HT1).
  rewrite (as_recv_rest _ t w h w1 Hs E Hk Hlen).
  destruct (list8 h Hz) as (a & b & c0 & d & e & f & g & i & Eh).
  destruct (list8r m Hm) as (m0 & m1 & m2 & m3 & m4 & m5 & m6 & m7 & mr & Em).
  rewrite Em in Hmx, Hmb |- *. clear Em.
  rewrite Eh in E, Hb, Hlen, Hver, H8, Hcs, Hnk |- *.
  walk_header Hl Hm Hr Hs E Hb.
  assert (HM : c_RTR_MAX_PDU_LEN = 3248) by reflexivity.
  rewrite !H8. change (wrapu 64 8) with 8. change (8 <? 8) with false. cbv iota.
  replace (8 >? c_RTR_MAX_PDU_LEN) with false by reflexivity. cbv iota.
  walk_first a b [c0; d; e; f; g; i] Hk Hb.
  all: set (S1 := after_first (sk w) [a; b; c0; d; e; f; g; i]) in *.
  all: rewrite sg_version.
  all: assert (Ha : 0 <= a < 256) by (inversion Hb; assumption).
  all: assert (Hbb : 0 <= b < 256) by (inversion Hb as [|? ? ? Hb2]; inversion Hb2; assumption).
  all: rewrite !(wrapu32_id a) by (change (2 ^ 32) with 4294967296; lia).
  all: rewrite !(wraps32_small b) by lia.
  all: rewrite ?Bool.implb_true_r; cbn [eguard].
  all: change (nthb [a; b; c0; d; e; f; g; i] 0) with a in Hver; change (nthb [a; b; c0; d; e; f; g; i] 1) with b in Hver;
       change c_ERROR with 10 in Hver.
  all: rewrite Hver; cbv iota.
  all: cbv zeta.
  all: change (wrapu 32 (wrapu 64 (8 - 8)) >? wrapu 32 0) with false; cbv iota.
  all: rewrite ?(hh_ld_ok a b c0 d e f g i 0 8) by lia.
  all: match goal with |- context [eguard (st_ok ?M ?p ?n) _] =>
         replace (st_ok M p n) with true by (unfold st_ok, ld_ok; cbn [List.length]; lia) end.
  all: cbn [eguard]; rewrite header_copied_back.
  all: change (a :: b :: c0 :: d :: e :: f :: g :: i :: mr) with ([a; b; c0; d; e; f; g; i] ++ mr)%list.
  all: assert (Hbr : Forall byte_ok mr) by (pose proof Hmb as Hx; do 8 (apply Forall_cons_iff in Hx; destruct Hx as [_ Hx]); exact Hx).
  all: rewrite (header_host_app [a; b; c0; d; e; f; g; i] mr) by (cbn [List.length]; lia).
  all: rewrite (check_size_padded [a; b; c0; d; e; f; g; i] mr Hb) by (try reflexivity; try exact Hnk; rewrite H8; reflexivity).
  all: rewrite Hcs; cbn [eopt b2z]; change (wraps 32 0 =? 0) with true; cbv iota.
  all: rewrite <- (header_host_app [a; b; c0; d; e; f; g; i] mr) by (cbn [List.length]; lia).
  all: rewrite header_to_network by (first [apply Forall_app; split; assumption | unfold zlen; rewrite app_length; cbn [List.length]; lia]).
  all: cbn [eopt]; closed_eqb.
  all: rewrite (i3_send_net fuel _ _ _ _ _ [a; b; c0; d; e; f; g; i] c_CORRUPT_DATA txt_too_small)
    by (etransitivity; [exact (decode_net_args_txt ([a; b; c0; d; e; f; g; i] ++ mr) (wrapu 32 8) (wrapu 32 0) txt_too_small (wrapu 32 56))|reflexivity]).
  all: rewrite store_sock_store.
  all: unfold recv_rest; cbv zeta; rewrite bind_assoc, bind_get_sk; cbn [sk with_sk]; fold S1.
  all: change (nthb [a; b; c0; d; e; f; g; i] 0) with a; change (nthb [a; b; c0; d; e; f; g; i] 1) with b; change c_ERROR with 10.
  all: rewrite Hver, H8; change (8 - 8 >? 0) with false; cbv iota.
  all: rewrite bind_assoc, bind_ret; cbv beta iota zeta; rewrite app_nil_r, Hcs.
  all: rewrite !bind_assoc; apply xbind_some; intros r w2 E2; rewrite store_after_plain.
  all: rewrite fatal_leaf, bind_assoc; reflexivity.
Qed.
End SizePhase.

Print Assumptions check_size_gen_local.
Print Assumptions check_size_padded.
Print Assumptions header_to_network.
Print Assumptions recv_size_rejected_header_only.
