(* SendTie.v - C14: the SEND path of rtrlib/rtr/packets.c, translated from the sources on every run
   (tools/c2v_send.py -> Gen/GeneratedSend.v) and tied to the hand-written model (Rtr/RtrModel.v, Rtr/SendBase.v).

   The translated functions are effect trees (Base/Eff.v) over memory objects (Base/Mem.v, Base/MemW.v): every load and
   store is guarded (ld_ok / st_ok), a variable-length array of size n is `zeros n` under the guard 0 < n, a struct
   local is `zeros sizeof` with field stores at the probed offsets.  [interpS] runs a tree in the model's monad; the two
   untranslated callees are interpreted by the model:
       tr_send_all(sock->tr_socket, buf, len, timeout)  |->  RtrModel.tr_send_all (the first len bytes behind buf)
                                                              (None - undefined - if len exceeds the object: the callee
                                                              would read outside it)
       rtr_change_socket_state(sock, st)                |->  RtrModel.change_state st
   "= Some (as_eff (fun r => r) m w)" says: the C is defined (no access outside an object, no zero-sized VLA), returns
   what the model computation m returns, leaves the world (trace of TSend / TSendFail / TState items, socket) that m
   leaves.

   This file:
     send_pdu_tie / send_pdu_tie'   rtr_send_pdu(sock, m, |m|): copy into the VLA, rtr_pdu_to_network_byte_order on the
                                    copy, RTR_SHUTDOWN guard, tr_send_all, result mapping  =  send_pdu b  for the
                                    converted bytes b
     to_network_len                 rtr_pdu_to_network_byte_order never changes the length of its object
     header_translated_net          the header conversion towards the network = FooterTie.header_host
     send_serial_query_tie          rtr_send_serial_query = send_serial_query: the 12 bytes are serial_query_bytes
     send_reset_query_tie           rtr_send_reset_query  = send_reset_query:  the 8 bytes are reset_query_bytes
   for every version / session id / serial number (no range condition: the C truncates version to 8 bits, the session
   id to 16, and stores the low 32 bits of the serial number - exactly the model's mod 256 / mod 65536 / enc32);
   the only side condition is that the socket's state is a value of its C type (0 <= st < 2^32).
   Rtr/SendTieErr.v continues with rtr_send_error_pdu and its two wrappers. *)
From Coq Require Import ZifyBool.
From RtrV Require Import Base.CSem Base.Mem Base.MemW Base.Eff Base.EffMem Gen.Generated Gen.GeneratedMem Gen.GeneratedMemW
  Gen.GeneratedSend Rtr.RtrModel Rtr.RelFrame Rtr.ExpiryTac Rtr.SyncSets Rtr.ExpiryFrames Rtr.ConvergeStutter
  Rtr.ExpiryProofs Rtr.CheckSizeTie Rtr.FooterTie Rtr.FsmTie Rtr.SendBase.
Local Open Scope string_scope.
Local Open Scope Z_scope.

(* ====================================================================================================== *)
(* 1. interpretation                                                                                        *)
(* ====================================================================================================== *)
Definition ext_callS (f : string) (args : list Z) : option (world -> res (list Z)) :=
  if String.eqb f "tr_send_all" then
    let n := Z.to_nat (nth 0 args 0) in
    let obj := firstn n (skipn 1 args) in
    let len := nth 0 (skipn (S n) args) 0 in
    if (0 <=? len) && (len <=? Z.of_nat (List.length obj))
    then Some (mdo r <- tr_send_all (firstn (Z.to_nat len) obj); ret [r]) else None
  else if String.eqb f "rtr_change_socket_state" then Some (mdo _ <- change_state (nth 0 args 0); ret [])
  else None.

Fixpoint interpS (e : eff) (w : world) {struct e} : option (res (Z * store)) :=
  match e with
  | ERet r s => Some (Ok (r, s) (with_sk w (store_sock s)))
  | EUndef => None
  | ECall f args s k =>
    match ext_callS f args with
    | None => None
    | Some m =>
      match m (with_sk w (store_sock s)) with
      | Ok rs w' => interpS (k rs (sock_store (sk w'))) w'
      | Exc x w' => Some (Exc x w')
      end
    end
  end.

Lemma interpS_sk e : forall w s, interpS e (with_sk w s) = interpS e w.
Proof. induction e as [r t|f a t k IH|]; intros w s; reflexivity. Qed.

Lemma interpS_ebind e : forall k w,
  interpS (ebind e k) w =
  match interpS e w with
  | Some (Ok (r, s) w') => interpS (k r s) w'
  | Some (Exc x w') => Some (Exc x w')
  | None => None
  end.
Proof.
  induction e as [r t|f a t k' IH|]; intros k w; cbn [ebind interpS].
  - rewrite interpS_sk. reflexivity.
  - destruct (ext_callS f a) as [m|]; [|reflexivity].
    destruct (m (with_sk w (store_sock t))) as [rs w'|x w']; [apply IH|reflexivity].
  - reflexivity.
Qed.

Lemma interpS_ebind_model {A} e (conv : A -> Z) (m : world -> res A) k w :
  interpS e w = Some (as_eff conv m w) ->
  interpS (ebind e k) w = xbind m (fun a w' => interpS (k (conv a) (sock_store (sk w'))) w') w.
Proof.
  intros H. rewrite interpS_ebind, H. unfold as_eff, xbind, bind. destruct (m w); reflexivity.
Qed.

Lemma ext_send_all args :
  ext_callS "tr_send_all" args =
  (let n := Z.to_nat (nth 0 args 0) in
   let obj := firstn n (skipn 1 args) in
   let len := nth 0 (skipn (S n) args) 0 in
   if (0 <=? len) && (len <=? Z.of_nat (List.length obj))
   then Some (mdo r <- tr_send_all (firstn (Z.to_nat len) obj); ret [r]) else None).
Proof. reflexivity. Qed.

Lemma iS_send_all b t s k w :
  interpS (ECall "tr_send_all" ((Z.of_nat (List.length b) :: b) ++ [zlen b] ++ [t])%list s k) w =
  xbind (tr_send_all b) (fun r w' => interpS (k [r] (sock_store (sk w'))) w') (with_sk w (store_sock s)).
Proof.
  cbn [interpS]. rewrite ext_send_all. cbv zeta.
  cbn [app nth]. rewrite Nat2Z.id. cbn [skipn].
  rewrite firstn_app, Nat.sub_diag, firstn_all. cbn [firstn]. rewrite app_nil_r.
  rewrite skipn_app, Nat.sub_diag, skipn_all. cbn [skipn app nth].
  unfold zlen. replace ((0 <=? Z.of_nat (List.length b)) && (Z.of_nat (List.length b) <=? Z.of_nat (List.length b))) with true by lia.
  rewrite Nat2Z.id, firstn_all.
  unfold xbind, bind. destruct (tr_send_all b (with_sk w (store_sock s))); reflexivity.
Qed.

Lemma iS_change_state n s k w :
  interpS (ECall "rtr_change_socket_state" [n] s k) w =
  interpS (k [] (sock_store (sk (state_changed n (with_sk w (store_sock s)))))) (state_changed n (with_sk w (store_sock s))).
Proof.
  cbn [interpS]. change (ext_callS "rtr_change_socket_state" [n]) with (Some (mdo _ <- change_state n; ret (@nil Z))).
  cbv beta iota. unfold bind. rewrite change_state_eq'. reflexivity.
Qed.

Lemma iS_ret r w : interpS (ERet r (sock_store (sk w))) w = Some (Ok (r, sock_store (sk w)) w).
Proof. cbn [interpS]. rewrite with_sk_store. reflexivity. Qed.

(* ====================================================================================================== *)
(* 2. memory facts                                                                                          *)
(* ====================================================================================================== *)
Lemma ld_bytes_skipn m : forall k n, (k + n = List.length m)%nat -> ld_bytes m (Z.of_nat k) n = skipn k m.
Proof.
  intros k n. revert k. induction n as [|n IH]; intros k H.
  - cbn [ld_bytes]. rewrite skipn_all2 by lia. reflexivity.
  - cbn [ld_bytes]. replace (Z.of_nat k + 1) with (Z.of_nat (S k)) by lia. rewrite IH by lia.
    unfold mbyte. rewrite Nat2Z.id.
    assert (Hk : (k < List.length m)%nat) by lia.
    clear IH H. revert k Hk. induction m as [|x m IHm]; intros k Hk; [cbn [List.length] in Hk; lia|].
    destruct k as [|k]; [reflexivity|]. cbn [nth skipn]. apply IHm. cbn [List.length] in Hk. lia.
Qed.

Lemma ld_bytes_all m : ld_bytes m 0 (List.length m) = m.
Proof. apply (ld_bytes_skipn m 0%nat). reflexivity. Qed.

Lemma ld_bytes_firstn m : forall n k, (k + n <= List.length m)%nat -> ld_bytes m (Z.of_nat k) n = firstn n (skipn k m).
Proof.
  intros n. induction n as [|n IH]; intros k H; [reflexivity|].
  cbn [ld_bytes]. replace (Z.of_nat k + 1) with (Z.of_nat (S k)) by lia. rewrite IH by lia.
  unfold mbyte. rewrite Nat2Z.id.
  assert (Hk : (k < List.length m)%nat) by lia. clear IH H.
  revert k Hk. induction m as [|x m IHm]; intros k Hk; [cbn [List.length] in Hk; lia|].
  destruct k as [|k]; [reflexivity|]. cbn [nth skipn]. apply IHm. cbn [List.length] in Hk. lia.
Qed.

Lemma upd_app pre x r b : upd (pre ++ x :: r) (List.length pre) b = (pre ++ b :: r)%list.
Proof. induction pre as [|p pre IH]; [reflexivity|]. cbn [app List.length upd]. now rewrite IH. Qed.

(* storing bs over the segment old of the same length *)
Lemma st_list_app bs : forall pre old post, List.length old = List.length bs ->
  st_list (pre ++ old ++ post) (List.length pre) bs = (pre ++ bs ++ post)%list.
Proof.
  induction bs as [|b bs IH]; intros pre old post H.
  - destruct old; [reflexivity|discriminate].
  - destruct old as [|o old]; [discriminate|]. cbn [st_list app].
    rewrite upd_app. replace (S (List.length pre)) with (List.length (pre ++ [b])) by (rewrite app_length; cbn; lia).
    replace (pre ++ b :: old ++ post)%list with ((pre ++ [b]) ++ old ++ post)%list by (rewrite <- app_assoc; reflexivity).
    rewrite IH by (cbn [List.length] in H; lia). rewrite <- app_assoc. reflexivity.
Qed.

Lemma st_list_whole bs old : List.length old = List.length bs -> st_list old 0 bs = bs.
Proof.
  intros H. pose proof (st_list_app bs [] old [] H) as E. cbn [app List.length] in E.
  rewrite !app_nil_r in E. exact E.
Qed.

Lemma mcopy_whole m : mcopy (zeros (zlen m)) (Some 0) m (Some 0) (zlen m) = m.
Proof.
  unfold mcopy, zlen. rewrite Nat2Z.id. change (Z.to_nat 0) with 0%nat. rewrite ld_bytes_all.
  apply st_list_whole. unfold zeros. rewrite repeat_length. lia.
Qed.

(* ====================================================================================================== *)
(* 3. rtr_send_pdu                                                                                          *)
(* ====================================================================================================== *)
Theorem send_pdu_tie m b w :
  0 < zlen m < 2^32 -> 0 <= st (sk w) < 2^32 ->
  rtr_pdu_to_network_byte_order_gen m (Some 0) = Some b -> zlen b = zlen m ->
  interpS (rtr_send_pdu_gen m (Some 0) (zlen m) (sock_store (sk w))) w = Some (as_eff (fun r => r) (send_pdu b) w).
Proof.
  intros Hl Hs Hnet Hb. unfold rtr_send_pdu_gen. cbv zeta.
  replace (0 <? zlen m) with true by lia. cbn [eguard].
  rewrite wrapu64_small by (change (2^32) with 4294967296 in Hl; lia).
  rewrite ld_ok_in by (unfold zlen; lia).
  rewrite st_ok_in by (rewrite ?zeros_length; lia). cbn [eguard].
  rewrite mcopy_whole, Hnet. cbn [eopt].
  rewrite sg_state, wrapu32_id by exact Hs. change (wrapu 32 9) with c_RTR_SHUTDOWN.
  unfold as_eff, send_pdu. rewrite bind_assoc, bind_get_sk.
  destruct (st (sk w) =? c_RTR_SHUTDOWN) eqn:E.
  - rewrite iS_ret. reflexivity.
  - rewrite <- Hb. rewrite iS_send_all, with_sk_store.
    unfold xbind. rewrite bind_assoc. unfold bind at 1.
    destruct (tr_send_all b w) as [r w'|x w']; [|reflexivity].
    cbv zeta. cbn [nth]. rewrite bind_ret.
    destruct (r >? 0); [rewrite iS_ret; reflexivity|].
    destruct (r =? -2); rewrite iS_ret; reflexivity.
Qed.

(* ====================================================================================================== *)
(* 4. the conversions to network byte order: lengths, and the two queries                                   *)
(* ====================================================================================================== *)
Ltac len_step H :=
  match type of H with
  | guard ?c _ = Some _ => destruct c; [cbn [guard] in H | discriminate H]
  | obind ?o _ = Some _ => let E := fresh "E" in destruct o eqn:E; [cbn [obind] in H | discriminate H]
  | (if ?c then _ else _) = Some _ => destruct c
  | Some _ = Some _ => injection H; clear H; intro H; subst
  end.

Lemma header_conv_len m p t b :
  rtr_pdu_convert_header_byte_order_gen m p t = Some b -> List.length b = List.length m.
Proof.
  unfold rtr_pdu_convert_header_byte_order_gen. cbv zeta. intros H.
  repeat len_step H; rewrite ?stu_length; reflexivity.
Qed.

Lemma ipv4_conv_len m src dest t b :
  lrtr_ipv4_addr_convert_byte_order_gen m src dest t = Some b -> List.length b = List.length m.
Proof.
  unfold lrtr_ipv4_addr_convert_byte_order_gen. intros H.
  repeat len_step H; rewrite ?stu_length; reflexivity.
Qed.

Lemma footer_conv_len m p t b :
  rtr_pdu_convert_footer_byte_order_gen m p t = Some b -> List.length b = List.length m.
Proof.
  unfold rtr_pdu_convert_footer_byte_order_gen. cbv zeta. intros H.
  repeat len_step H; rewrite ?stu_length, ?mcopy_length;
    first [reflexivity | erewrite ipv4_conv_len by eassumption; reflexivity].
Qed.

Lemma header_to_network_len m p b :
  rtr_pdu_header_to_network_byte_order_gen m p = Some b -> List.length b = List.length m.
Proof.
  unfold rtr_pdu_header_to_network_byte_order_gen. intros H. len_step H. len_step H.
  eapply header_conv_len; eassumption.
Qed.

Theorem to_network_len m p b :
  rtr_pdu_to_network_byte_order_gen m p = Some b -> List.length b = List.length m.
Proof.
  unfold rtr_pdu_to_network_byte_order_gen, rtr_pdu_footer_to_network_byte_order_gen. intros H.
  repeat len_step H.
  match goal with E : rtr_pdu_header_to_network_byte_order_gen _ _ = Some _ |- _ => apply header_to_network_len in E; rewrite E end.
  match goal with E : obind _ _ = Some _ |- _ => repeat len_step E end.
  eapply footer_conv_len; eassumption.
Qed.

Theorem send_pdu_tie' m b w :
  0 < zlen m < 2^32 -> 0 <= st (sk w) < 2^32 ->
  rtr_pdu_to_network_byte_order_gen m (Some 0) = Some b ->
  interpS (rtr_send_pdu_gen m (Some 0) (zlen m) (sock_store (sk w))) w = Some (as_eff (fun r => r) (send_pdu b) w).
Proof.
  intros Hl Hs Hnet. apply send_pdu_tie; try assumption. unfold zlen. now rewrite (to_network_len _ _ _ Hnet).
Qed.

Lemma convert_net x : lrtr_convert_long_gen 0 x = Some (bswap32 x).
Proof.
  unfold lrtr_convert_long_gen. change (wrapu 32 0 =? wrapu 32 0) with true. cbv iota.
  cbn [obind]. f_equal. unfold wrapu. change (2 ^ 32) with 4294967296. apply Z.mod_small, bswap32_range.
Qed.
Lemma convert_short_net x : lrtr_convert_short_gen 0 x = Some (bswap16 x).
Proof.
  unfold lrtr_convert_short_gen. change (wrapu 32 0 =? wrapu 32 0) with true. cbv iota.
  cbn [obind]. f_equal. unfold wrapu. change (2 ^ 16) with 65536. apply Z.mod_small, bswap16_range.
Qed.

Ltac peelS :=
  repeat first
    [ rewrite convert_net | rewrite convert_short_net
    | rewrite ld_ok_stu | rewrite st_ok_stu | rewrite ld_ok_mcopy | rewrite st_ok_mcopy
    | rewrite ld_ok_in by lia
    | rewrite st_ok_in by lia
    | progress cbn [guard obind]
    | progress ev_closed ].

(* the header conversion towards the network is the same byte swap as towards the host *)
Theorem header_translated_net p :
  Forall Mem.byte_ok p -> 8 <= zlen p ->
  rtr_pdu_convert_header_byte_order_gen p (Some 0) (wrapu 32 0) = Some (header_host p).
Proof.
  intros Hb H8. unfold zlen in H8.
  do 8 (destruct p as [|? p]; [cbn [List.length] in H8; lia|]).
  do 8 (apply Forall_cons_iff in Hb; destruct Hb as [? Hb]).
  cbv beta delta [rtr_pdu_convert_header_byte_order_gen]. cbv zeta. ev_closed.
  rewrite ld_ok_in by (cbn [List.length]; lia). cbn [guard].
  rewrite ldu1. match goal with |- context [mbyte ?m 1] => evl (mbyte m 1) end.
  rewrite wraps32_small by (unfold Mem.byte_ok in *; lia).
  cbn [header_host]. unfold c_ROUTER_KEY.
  destruct (Z.eqb_spec z0 9) as [E|E]; cbn [negb]; cbv iota.
  - rewrite ld_ok_in, convert_net by (cbn [List.length]; lia). cbn [guard obind].
    rewrite st_ok_in by (cbn [List.length]; lia). cbn [guard]. explicit. reflexivity.
  - rewrite ld_ok_in, convert_short_net by (cbn [List.length]; lia). cbn [guard obind].
    rewrite st_ok_in by (cbn [List.length]; lia). cbn [guard].
    rewrite ldu2. repeat match goal with |- context [mbyte (?x :: ?r) ?j] => evl (mbyte (x :: r) j) end.
    rewrite bswap16_le, stu_be16 by assumption.
    match goal with |- context [st_list ?m ?n ?bs] => evl (st_list m n bs) end.
    rewrite ld_ok_in, convert_net by (cbn [List.length]; lia). cbn [guard obind].
    rewrite st_ok_in by (cbn [List.length]; lia). cbn [guard]. explicit. reflexivity.
Qed.

(* the footer conversion towards the network: Serial Query, and the types without body fields *)
Lemma footer_net_serial mem :
  12 <= zlen mem -> mbyte mem 1 = 1 ->
  rtr_pdu_convert_footer_byte_order_gen mem (Some 0) (wrapu 32 0) = Some (swap4 mem 8).
Proof.
  intros Hl Hty. unfold zlen in Hl. dispatch Hty. peelS. reflexivity.
Qed.
Lemma footer_net_plain mem :
  2 <= zlen mem -> mbyte mem 1 = 2 \/ mbyte mem 1 = 3 \/ mbyte mem 1 = 8 ->
  rtr_pdu_convert_footer_byte_order_gen mem (Some 0) (wrapu 32 0) = Some mem.
Proof.
  intros Hl [Hty|[Hty|Hty]]; unfold zlen in Hl; dispatch Hty; reflexivity.
Qed.

Ltac byte_hyps := repeat match goal with |- Forall _ (_ :: _) => apply Forall_cons; [assumption|] end; try apply Forall_nil.

Lemma net_serial a s0 s1 n0 n1 n2 n3 :
  Mem.byte_ok a -> Mem.byte_ok s0 -> Mem.byte_ok s1 -> Mem.byte_ok n0 -> Mem.byte_ok n1 -> Mem.byte_ok n2 -> Mem.byte_ok n3 ->
  rtr_pdu_to_network_byte_order_gen [a; 1; s0; s1; 12; 0; 0; 0; n0; n1; n2; n3] (Some 0) =
  Some [a; 1; s1; s0; 0; 0; 0; 12; n3; n2; n1; n0].
Proof.
  intros Ha Hs0 Hs1 Hn0 Hn1 Hn2 Hn3.
  assert (H12 : Mem.byte_ok 12) by (unfold Mem.byte_ok; lia).
  assert (H0 : Mem.byte_ok 0) by (unfold Mem.byte_ok; lia).
  assert (H1 : Mem.byte_ok 1) by (unfold Mem.byte_ok; lia).
  unfold rtr_pdu_to_network_byte_order_gen, rtr_pdu_footer_to_network_byte_order_gen, rtr_pdu_header_to_network_byte_order_gen.
  rewrite footer_net_serial by (try reflexivity; unfold zlen; cbn [List.length]; lia). cbn [obind].
  unfold swap4. explicit.
  rewrite header_translated_net by (try (unfold zlen; cbn [List.length]; lia); byte_hyps). cbn [obind header_host].
  change (1 =? c_ROUTER_KEY) with false. reflexivity.
Qed.

Lemma net_reset a :
  Mem.byte_ok a ->
  rtr_pdu_to_network_byte_order_gen [a; 2; 0; 0; 8; 0; 0; 0] (Some 0) = Some [a; 2; 0; 0; 0; 0; 0; 8].
Proof.
  intros Ha.
  assert (H8 : Mem.byte_ok 8) by (unfold Mem.byte_ok; lia).
  assert (H0 : Mem.byte_ok 0) by (unfold Mem.byte_ok; lia).
  assert (H2 : Mem.byte_ok 2) by (unfold Mem.byte_ok; lia).
  unfold rtr_pdu_to_network_byte_order_gen, rtr_pdu_footer_to_network_byte_order_gen, rtr_pdu_header_to_network_byte_order_gen.
  rewrite footer_net_plain by (try (left; reflexivity); unfold zlen; cbn [List.length]; lia). cbn [obind].
  rewrite header_translated_net by (try (unfold zlen; cbn [List.length]; lia); byte_hyps). cbn [obind header_host].
  change (2 =? c_ROUTER_KEY) with false. reflexivity.
Qed.

(* ====================================================================================================== *)
(* 5. rtr_send_serial_query / rtr_send_reset_query                                                          *)
(* ====================================================================================================== *)
Lemma mod256_byte x : Mem.byte_ok (x mod 256).
Proof. unfold Mem.byte_ok. apply Z.mod_pos_bound. lia. Qed.

Lemma serial_struct v s n :
  stu (stu (stu (stu (stu (zeros 12) (Some 0) 1 v) (Some 1) 1 1) (Some 2) 2 s) (Some 4) 4 12) (Some 8) 4 n =
  [v mod 256; 1; s mod 256; (s / 256) mod 256; 12; 0; 0; 0;
   n mod 256; (n / 256) mod 256; (n / 256 / 256) mod 256; (n / 256 / 256 / 256) mod 256].
Proof.
  unfold stu. evl (zeros 12).
  change (Z.to_nat 0) with 0%nat. change (Z.to_nat 1) with 1%nat. change (Z.to_nat 2) with 2%nat.
  change (Z.to_nat 4) with 4%nat. change (Z.to_nat 8) with 8%nat.
  cbn [le_bytes st_list upd]. reflexivity.
Qed.

Lemma reset_struct v :
  stu (stu (stu (stu (zeros 8) (Some 0) 1 v) (Some 1) 1 2) (Some 2) 2 0) (Some 4) 4 8 =
  [v mod 256; 2; 0; 0; 8; 0; 0; 0].
Proof.
  unfold stu. evl (zeros 8).
  change (Z.to_nat 0) with 0%nat. change (Z.to_nat 1) with 1%nat. change (Z.to_nat 2) with 2%nat.
  change (Z.to_nat 4) with 4%nat.
  cbn [le_bytes st_list upd]. reflexivity.
Qed.

Lemma serial_query_bytes_c s :
  serial_query_bytes s =
  [wrapu 8 (version s) mod 256; 1; (wrapu 16 (session_id s) / 256) mod 256; wrapu 16 (session_id s) mod 256; 0; 0; 0; 12;
   (serial s / 256 / 256 / 256) mod 256; (serial s / 256 / 256) mod 256; (serial s / 256) mod 256; serial s mod 256].
Proof.
  unfold serial_query_bytes, enc16, enc32, wrapu. cbn [app]. change (2 ^ 8) with 256. change (2 ^ 16) with 65536.
  rewrite Z.mod_mod by lia. rewrite !Z.div_div by lia. reflexivity.
Qed.

Lemma reset_query_bytes_c s : reset_query_bytes s = [wrapu 8 (version s) mod 256; 2; 0; 0; 0; 0; 0; 8].
Proof.
  unfold reset_query_bytes, enc16, enc32, wrapu. cbn [app]. change (2 ^ 8) with 256.
  rewrite Z.mod_mod by lia. reflexivity.
Qed.

(* the result mapping shared by the two queries *)
Lemma query_tail b w :
  xbind (send_pdu b)
    (fun a w' => interpS
       (if negb (a =? 0)
        then ECall "rtr_change_socket_state" [wrapu 32 8] (sock_store (sk w')) (fun _ s => ERet (-1) s)
        else ERet 0 (sock_store (sk w'))) w') w =
  Some (as_eff (fun r => r)
          (mdo r <- send_pdu b; if r =? 0 then ret 0 else mdo _ <- change_state c_RTR_ERROR_TRANSPORT; ret (-1)) w).
Proof.
  unfold xbind, as_eff. rewrite bind_assoc. unfold bind at 1.
  destruct (send_pdu b w) as [r w'|x w']; [|reflexivity].
  destruct (r =? 0); cbn [negb].
  - rewrite iS_ret. reflexivity.
  - rewrite iS_change_state, with_sk_store. change (wrapu 32 8) with c_RTR_ERROR_TRANSPORT.
    rewrite iS_ret. unfold bind. rewrite change_state_eq'. reflexivity.
Qed.

Lemma as_eff_ext {A} (conv : A -> Z) (m m' : world -> res A) w : m w = m' w -> as_eff conv m w = as_eff conv m' w.
Proof. unfold as_eff, bind. intros ->. reflexivity. Qed.

Lemma send_serial_query_eq w :
  send_serial_query w =
  (mdo r <- send_pdu (serial_query_bytes (sk w)); if r =? 0 then ret 0 else mdo _ <- change_state c_RTR_ERROR_TRANSPORT; ret (-1)) w.
Proof. unfold send_serial_query. rewrite bind_get_sk. reflexivity. Qed.
Lemma send_reset_query_eq w :
  send_reset_query w =
  (mdo r <- send_pdu (reset_query_bytes (sk w)); if r =? 0 then ret 0 else mdo _ <- change_state c_RTR_ERROR_TRANSPORT; ret (-1)) w.
Proof. unfold send_reset_query. rewrite bind_get_sk. reflexivity. Qed.

Theorem send_serial_query_tie w :
  0 <= st (sk w) < 2^32 ->
  interpS (rtr_send_serial_query_gen (sock_store (sk w))) w = Some (as_eff (fun r => r) send_serial_query w).
Proof.
  intros Hs. unfold rtr_send_serial_query_gen. cbv zeta.
  repeat rewrite st_ok_stu. ev_closed. cbn [eguard].
  change (sget "version" (sock_store (sk w))) with (version (sk w)).
  change (sget "session_id" (sock_store (sk w))) with (session_id (sk w)).
  change (sget "serial_number" (sock_store (sk w))) with (serial (sk w)).
  rewrite serial_struct.
  match goal with |- context [rtr_send_pdu_gen ?L (Some 0) 12 _] => change 12 with (zlen L) at 2 end.
  rewrite (interpS_ebind_model _ (fun r => r) (send_pdu (serial_query_bytes (sk w)))).
  - rewrite query_tail. rewrite (as_eff_ext (fun r => r) send_serial_query _ w (send_serial_query_eq w)). reflexivity.
  - apply send_pdu_tie'; [unfold zlen; cbn [List.length]; change (2 ^ 32) with 4294967296; lia|exact Hs|].
    rewrite net_serial by apply mod256_byte. rewrite serial_query_bytes_c. reflexivity.
Qed.

Theorem send_reset_query_tie w :
  0 <= st (sk w) < 2^32 ->
  interpS (rtr_send_reset_query_gen (sock_store (sk w))) w = Some (as_eff (fun r => r) send_reset_query w).
Proof.
  intros Hs. unfold rtr_send_reset_query_gen. cbv zeta.
  repeat rewrite st_ok_stu. ev_closed. cbn [eguard].
  change (sget "version" (sock_store (sk w))) with (version (sk w)).
  rewrite reset_struct.
  match goal with |- context [rtr_send_pdu_gen ?L (Some 0) 8 _] => change 8 with (zlen L) at 2 end.
  rewrite (interpS_ebind_model _ (fun r => r) (send_pdu (reset_query_bytes (sk w)))).
  - rewrite query_tail. rewrite (as_eff_ext (fun r => r) send_reset_query _ w (send_reset_query_eq w)). reflexivity.
  - apply send_pdu_tie'; [unfold zlen; cbn [List.length]; change (2 ^ 32) with 4294967296; lia|exact Hs|].
    rewrite net_reset by apply mod256_byte. rewrite reset_query_bytes_c. reflexivity.
Qed.

Example send_translator_clean : send_translator_problems = []. Proof. reflexivity. Qed.

Print Assumptions send_pdu_tie'.
Print Assumptions to_network_len.
Print Assumptions header_translated_net.
Print Assumptions send_serial_query_tie.
Print Assumptions send_reset_query_tie.
