(* SyncExamples.v - closed examples (concrete PDU bytes, evaluated by vm_compute) for C03 and C05:
   the hypotheses of the theorems are satisfiable by non-trivial states, and the model does what the
   theorems say on them. *)
From Coq Require Import Permutation.
From RtrV Require Import Base.CSem Gen.Generated Rtr.RtrModel Rtr.SyncSets Rtr.SyncFrame Rtr.SyncProofs Rtr.QueryProofs.
Local Open Scope Z_scope.

(* PDU builders (protocol version 1) *)
Definition pdu_v4 (flags len mx a b c d asn : Z) : list byte :=
  [1; 4; 0; 0; 0; 0; 0; 20; flags; len; mx; 0; a; b; c; d] ++ enc32 asn.
Definition pdu_v6 (flags len mx : Z) (addr : list byte) (asn : Z) : list byte :=
  [1; 6; 0; 0; 0; 0; 0; 32; flags; len; mx; 0] ++ addr ++ enc32 asn.
Definition pdu_key (flags : Z) (ski : list byte) (asn : Z) (spki : list byte) : list byte :=
  [1; 9; flags; 0; 0; 0; 0; 123] ++ ski ++ enc32 asn ++ spki.
Definition pdu_eod (session serial refresh retry expire : Z) : list byte :=
  [1; 7] ++ enc16 session ++ [0; 0; 0; 24] ++ enc32 serial ++ enc32 refresh ++ enc32 retry ++ enc32 expire.
Definition pdu_cache_response (session : Z) : list byte := [1; 3] ++ enc16 session ++ [0; 0; 0; 8].

Definition ski1 : list byte := repeat 17 20.
Definition spki1 : list byte := repeat 34 91.

Definition A1 := pdu_v4 1 24 24 10 0 1 0 65001.    (* announce 10.0.1.0/24-24 AS65001 *)
Definition A0 := pdu_v4 0 24 24 10 0 1 0 65001.    (* withdraw it *)
Definition B1 := pdu_v4 1 16 24 10 2 0 0 65002.
Definition C1 := pdu_v4 1 8 8 11 0 0 0 65003.
Definition D6 := pdu_v6 1 32 48 [32; 1; 13; 184; 0; 0; 0; 0; 0; 0; 0; 0; 0; 0; 0; 0] 65004.
Definition K1 := pdu_key 1 ski1 65005 spki1.

Definition recC : prec := prec_of_pdu C1.
Definition foreign : prec := (false, bits_of_bytes [10; 0; 1; 0], 24, 24, 65001, 2).   (* same prefix as A, learned from cache 2 *)
Definition fkey : krec := (65005, ski1, spki1, 3).

(* a socket in state SYNC that holds session 5 / serial 7; its own record C, and records of two other caches *)
Definition sock0 : sock := mkSock c_RTR_SYNC 1 5 false 7 1000 3600 7200 600 2 true false.
Definition w0 : world := mkW sock0 [foreign; recC] [fkey] [] [] [] 2000 [].
Definition eod9 := pdu_eod 5 9 1800 300 3600.

Lemma w0_nodup : NoDup (pfx w0) /\ NoDup (keys w0).
Proof.
  split; cbn [pfx keys w0]; repeat constructor; cbn [In]; intros H; repeat destruct H as [H|H]; try discriminate H; exact H.
Qed.

(* a successful delta: +A +B, an IPv6 prefix, a router key *)
Example ex_success :
  match process_eod eod9 [A1; B1] [D6] [K1] w0 with
  | Ok r w' => r = 0 /\
               pfx w' = [foreign; recC; prec_of_pdu A1; prec_of_pdu B1; prec_of_pdu D6] /\
               keys w' = [fkey; krec_of_pdu K1] /\
               serial (sk w') = 9 /\ session_id (sk w') = 5 /\ req_sess (sk w') = false /\
               (refresh_iv (sk w'), expire_iv (sk w'), retry_iv (sk w')) = (1800, 3600, 300)
  | Exc _ _ => False
  end.
Proof. vm_compute. repeat split; reflexivity. Qed.

(* the delta [+A, -A, +B, +C] where C is already there: the 4th PDU is a duplicate, the first three are undone
   most recent first (undoing them in forward order fails at "-A": the defect repaired by 384b024) *)
Example ex_rollback :
  match process_eod eod9 [A1; A0; B1; C1] [] [K1] w0 with
  | Ok r w' => r = -1 /\ pfx w' = pfx w0 /\ keys w' = keys w0 /\
               serial (sk w') = 7 /\ session_id (sk w') = 5 /\ req_sess (sk w') = false /\
               st (sk w') = c_RTR_ERROR_FATAL
  | Exc _ _ => False
  end.
Proof. vm_compute. repeat split; reflexivity. Qed.

(* failure in the router-key group: the prefixes of both families are undone as well *)
Example ex_rollback_key :
  match process_eod eod9 [A1; B1] [D6] [K1; K1] w0 with
  | Ok r w' => r = -1 /\ pfx w' = pfx w0 /\ keys w' = keys w0 /\ serial (sk w') = 7 /\ req_sess (sk w') = false
  | Exc _ _ => False
  end.
Proof. vm_compute. repeat split; reflexivity. Qed.

(* a withdrawal that is undone moves the record to the end: the table is restored up to order only *)
Definition C0 := pdu_v4 0 8 8 11 0 0 0 65003.
Definition w0' : world := mkW sock0 [recC; foreign] [fkey] [] [] [] 2000 [].
Example ex_rollback_permutes :
  match process_eod eod9 [C0; A1; A1] [] [] w0' with
  | Ok r w' => r = -1 /\ pfx w' = [foreign; recC] /\ Permutation (pfx w') (pfx w0')
  | Exc _ _ => False
  end.
Proof. vm_compute. repeat split; try reflexivity. apply perm_swap. Qed.

(* reset mode: the announced set replaces the socket's records, other caches' records stay *)
Definition sock_reset : sock := mkSock c_RTR_SYNC 1 5 true 0 1000 3600 7200 600 2 true true.
Definition w_reset : world := mkW sock_reset [foreign; recC] [fkey] [] [] [] 2000 [].
Example ex_reset_reload :
  match process_eod eod9 [A1; B1] [] [K1] w_reset with
  | Ok r w' => r = 0 /\ pfx w' = [foreign; prec_of_pdu A1; prec_of_pdu B1] /\ keys w' = [fkey; krec_of_pdu K1] /\
               serial (sk w') = 9
  | Exc _ _ => False
  end.
Proof. vm_compute. repeat split; reflexivity. Qed.

(* reset mode, failing reload: the main tables are untouched *)
Example ex_reset_failure :
  match process_eod eod9 [A1; B1; A1] [] [K1] w_reset with
  | Ok r w' => r = -1 /\ pfx w' = pfx w_reset /\ keys w' = keys w_reset /\ req_sess (sk w') = true
  | Exc _ _ => False
  end.
Proof. vm_compute. repeat split; reflexivity. Qed.

(* End of Data of another session *)
Example ex_eod_foreign_session :
  match process_eod (pdu_eod 6 9 1800 300 3600) [A1] [] [] w0 with
  | Ok r w' => r = -1 /\ pfx w' = pfx w0 /\ serial (sk w') = 7 /\ session_id (sk w') = 5
  | Exc _ _ => False
  end.
Proof. vm_compute. repeat split; reflexivity. Qed.

(* the whole exchange through rtr_sync, the cache's bytes arriving in two chunks *)
Definition resp_bytes : list byte := pdu_cache_response 5 ++ A1 ++ D6 ++ K1 ++ eod9.
Definition w_sync : world :=
  mkW sock0 [foreign; recC] [fkey] [EvData (firstn 40 resp_bytes); EvData (skipn 40 resp_bytes)] [] [] 2000 [].
Example ex_rtr_sync_success :
  match rtr_sync 50 w_sync with
  | Ok r w' => r = 0 /\ pfx w' = [foreign; recC; prec_of_pdu A1; prec_of_pdu D6] /\ keys w' = [fkey; krec_of_pdu K1] /\
               next_query (sk w') = QSerial 5 9 /\ last_update (sk w') = 2000
  | Exc _ _ => False
  end.
Proof. vm_compute. repeat split; reflexivity. Qed.

(* a Cache Response of another session while a session is held: refused, nothing applied *)
Definition w_foreign_cr : world :=
  mkW sock0 [foreign; recC] [fkey] [EvData (pdu_cache_response 99 ++ A1 ++ eod9)] [] [] 2000 [].
Example ex_rtr_sync_foreign_cr :
  match rtr_sync 50 w_foreign_cr with
  | Ok r w' => r = -1 /\ pfx w' = pfx w_foreign_cr /\ keys w' = keys w_foreign_cr /\
               st (sk w') = c_RTR_ERROR_FATAL /\ next_query (sk w') = QSerial 5 7
  | Exc _ _ => False
  end.
Proof. vm_compute. repeat split; reflexivity. Qed.

(* transport error in the middle of the payload: tables exactly as before *)
Definition w_cut : world :=
  mkW sock0 [foreign; recC] [fkey] [EvData (pdu_cache_response 5 ++ A1 ++ firstn 11 D6); EvErr 1] [] [] 2000 [].
Example ex_rtr_sync_cut :
  match rtr_sync 50 w_cut with
  | Ok r w' => r = -1 /\ pfx w' = pfx w_cut /\ keys w' = keys w_cut /\ next_query (sk w') = QSerial 5 7
  | Exc _ _ => False
  end.
Proof. vm_compute. repeat split; reflexivity. Qed.

(* C05: the bytes of the queries, serial numbers 0 and 2^32-1 included *)
Example ex_serial_query_bytes :
  serial_query_bytes (mkSock c_RTR_ESTABLISHED 1 43981 false 4294967295 0 0 0 0 0 true false) =
  [1; 1; 171; 205; 0; 0; 0; 12; 255; 255; 255; 255] /\
  serial_query_bytes (mkSock c_RTR_ESTABLISHED 0 5 false 0 0 0 0 0 0 true false) = [0; 1; 0; 5; 0; 0; 0; 12; 0; 0; 0; 0].
Proof. split; vm_compute; reflexivity. Qed.

(* the first iterations of a fresh socket: CONNECTING -> RESET, then the Reset Query *)
Definition w_fresh : world :=
  mkW (upd_st (init_sock 3600 7200 600 0) c_RTR_CONNECTING) [] [] [] [true] [] 1000 [].
Example ex_first_query_is_reset :
  out (run_fsm 2 50 w_fresh) =
  [TState c_RTR_SYNC; TSend [1; 2; 0; 0; 0; 0; 0; 8]; TState c_RTR_RESET; TOpen true 1000].
Proof. vm_compute. reflexivity. Qed.
