(* ExpirySync.v - C07/C08: what a synchronisation does to the tables and to last_update.
   process_eod either applies the whole response (tables = fold of the set deltas, serial taken from the EOD)
   or leaves duplicate-free tables that are the old ones up to order, never touching last_update;
   store_loop / receive_and_store / rtr_sync lift this. Uses the set arithmetic of Rtr/SyncSets.v. *)
From Coq Require Import Permutation.
From RtrV Require Import Base.CSem Gen.Generated Rtr.RtrModel Rtr.RelFrame Rtr.ExpiryTac Rtr.SyncSets Rtr.ExpiryFrames.
Local Open Scope Z_scope.

Definition eod_ok (p : list byte) (v4 v6 ks : list (list byte)) (w w' : world) : Prop :=
  let reset := resetting (sk w) in
  let P0 := if reset then oth_p (pfx w) else pfx w in
  let K0 := if reset then oth_k (keys w) else keys w in
  get16 p 2 = session_id (sk w) /\
  applies_p (v4 ++ v6) P0 /\ applies_k ks K0 /\
  pfx w' = fold_left delta_p (v4 ++ v6) P0 /\ keys w' = fold_left delta_k ks K0 /\
  sk w' = upd_serial (apply_eod_intervals (sk w) p) (get32 p 8).

Definition eod_failed (w w' : world) : Prop :=
  Permutation (pfx w') (pfx w) /\ Permutation (keys w') (keys w) /\ last_update (sk w') = last_update (sk w).

Lemma eod_failed_refl w : eod_failed w w.
Proof. unfold eod_failed. auto. Qed.
Lemma K_eod_failed w w' : K w w' -> eod_failed w w'.
Proof. unfold K, eod_failed. intros (-> & -> & ->). auto. Qed.
Lemma eod_failed_trans a b c : eod_failed a b -> eod_failed b c -> eod_failed a c.
Proof.
  unfold eod_failed. intros (A1 & A2 & A3) (B1 & B2 & B3).
  split; [eapply Permutation_trans; eauto|]. split; [eapply Permutation_trans; eauto|congruence].
Qed.

(* one step of a walk through straight-line model code *)
Ltac walk1 :=
  match goal with
  | |- okay (bind (bind _ _) _) _ _ => apply okay_assoc
  | |- okay (bind (emit_all _) _) _ _ => apply okay_emit_all
  | |- okay (bind (set_tables _ _) _) _ _ => apply okay_set_tables
  | |- okay (bind (ret _) _) _ _ => apply okay_ret_bind
  | |- okay (bind get_sk _) _ _ => apply okay_get_sk
  | |- okay (bind get_w _) _ _ => apply okay_get_w
  | |- okay (bind get_now _) _ _ => apply okay_get_now
  | |- okay (bind (modify_sk _) _) _ _ => apply okay_modify_sk
  | |- okay (bind (set_sk _) _) _ _ => apply okay_set_sk
  | |- okay (bind (report_update_failure _ _ _) _) _ _ =>
      eapply okay_bind; [apply (okay_frame K); [apply total_report_update_failure|apply report_update_failure_K]|];
      cbv beta; intros ? ? ?HK
  | |- okay (bind (change_state _) _) _ _ =>
      eapply okay_bind; [apply (okay_frame K); [apply total_change_state|apply change_state_K]|];
      cbv beta; intros ? ? ?HK
  | |- okay (bind (send_error_from_host _ _ _) _) _ _ =>
      eapply okay_bind; [apply (okay_frame K); [apply total_send_error_from_host|apply send_error_from_host_K]|];
      cbv beta; intros ? ? ?HK
  end.

Ltac tables_simpl := cbn [pfx keys sk with_out with_tables with_sk last_update upd_serial] in *.
Ltac kdes := repeat match goal with H : K _ _ |- _ =>
  let A := fresh "A" in let B := fresh "B" in let C := fresh "C" in destruct H as (A & B & C); tables_simpl end.
Ltac krew := repeat match goal with
  | H : pfx _ = _ |- _ => rewrite H
  | H : keys _ = _ |- _ => rewrite H
  | H : last_update (sk _) = _ |- _ => rewrite H end.
Ltac fail_end := apply okay_ret; kdes; unfold eod_failed; tables_simpl; krew.

Lemma NoDup_oth_p X : NoDup X -> NoDup (oth_p X).
Proof. apply NoDup_filter. Qed.
Lemma NoDup_oth_k X : NoDup X -> NoDup (oth_k X).
Proof. apply NoDup_filter. Qed.

Lemma fold_left_app' {A B} (f : A -> B -> A) l1 l2 a : fold_left f (l1 ++ l2) a = fold_left f l2 (fold_left f l1 a).
Proof. apply fold_left_app. Qed.

Lemma process_eod_spec p v4 v6 ks w : NoDup (pfx w) -> NoDup (keys w) ->
  okay (process_eod p v4 v6 ks) w
    (fun r w' => NoDup (pfx w') /\ NoDup (keys w') /\
                 ((r = 0 /\ eod_ok p v4 v6 ks w w') \/ (r = -1 /\ eod_failed w w'))).
Proof.
  intros HnP HnK. unfold process_eod. walk1.
  destruct (negb (get16 p 2 =? session_id (sk w))) eqn:Es.
  { (* End of Data with another session id *)
    repeat walk1. fail_end. auto 10. }
  apply negb_false_iff, Z.eqb_eq in Es.
  walk1. walk1. cbv zeta.
  set (w1 := with_sk w (apply_eod_intervals (sk w) p)).
  assert (Hr1 : resetting (apply_eod_intervals (sk w) p) = resetting (sk w))
    by (unfold apply_eod_intervals; destruct (_ && _); reflexivity).
  assert (Hl1 : last_update (apply_eod_intervals (sk w) p) = last_update (sk w))
    by (unfold apply_eod_intervals; destruct (_ && _); reflexivity).
  set (P0 := if resetting (sk w) then filter (fun r => negb (psrc r =? 1)) (pfx w1) else pfx w1).
  set (K0 := if resetting (sk w) then filter (fun r => negb (ksrc r =? 1)) (keys w1) else keys w1).
  assert (HnP0 : NoDup P0) by (subst P0 w1; cbn [pfx with_sk]; destruct (resetting (sk w)); [apply NoDup_filter|]; exact HnP).
  assert (HnK0 : NoDup K0) by (subst K0 w1; cbn [keys with_sk]; destruct (resetting (sk w)); [apply NoDup_filter|]; exact HnK).
  (* IPv4 *)
  rewrite apply_pfx_gen.
  pose proof (gapply_spec prec prec_eqb prec_eqb_eq TPfx prec_of_pdu (negb (resetting (sk w))) v4 P0 []) as S4.
  destruct (gapply prec prec_eqb TPfx prec_of_pdu (negb (resetting (sk w))) v4 P0 []) as [[P1 t1] [[[bad c] done]|]].
  { destruct S4 as (pre & post & -> & -> & -> & Ha & _). rewrite app_nil_r.
    rewrite undo_pfx_gen.
    destruct (gundo_spec prec prec_eqb prec_eqb_eq TPfx prec_of_pdu (negb (resetting (sk w))) pre P0 _ HnP0 Ha (Permutation_refl _))
      as (P2 & t2 & -> & Hp2).
    destruct (resetting (sk w)) eqn:Er; cbn [negb]; repeat walk1; subst w1 P0 K0; fail_end; rewrite ?Hl1.
    - auto 10.
    - split; [eapply Permutation_NoDup; [apply Permutation_sym, Hp2|exact HnP]|]. auto 10. }
  destruct S4 as (-> & Ha4).
  (* IPv6 *)
  rewrite apply_pfx_gen.
  pose proof (gapply_spec prec prec_eqb prec_eqb_eq TPfx prec_of_pdu (negb (resetting (sk w))) v6 (fold_left delta_p v4 P0) []) as S6.
  destruct (gapply prec prec_eqb TPfx prec_of_pdu (negb (resetting (sk w))) v6 (fold_left delta_p v4 P0) []) as [[P3 t3] [[[bad c] done]|]].
  { destruct S6 as (pre & post & -> & -> & -> & Ha & _). rewrite app_nil_r.
    rewrite undo_pfx_gen. rewrite <- rev_app_distr.
    assert (Ha' : applies_p (v4 ++ pre) P0) by (apply applies_app; auto).
    destruct (gundo_spec prec prec_eqb prec_eqb_eq TPfx prec_of_pdu (negb (resetting (sk w))) (v4 ++ pre) P0
                (fold_left delta_p pre (fold_left delta_p v4 P0)) HnP0 Ha' ltac:(rewrite fold_left_app; apply Permutation_refl))
      as (P4 & t4 & -> & Hp4).
    destruct (resetting (sk w)) eqn:Er; cbn [negb]; repeat walk1; subst w1 P0 K0; fail_end; rewrite ?Hl1.
    - auto 10.
    - split; [eapply Permutation_NoDup; [apply Permutation_sym, Hp4|exact HnP]|]. auto 10. }
  destruct S6 as (-> & Ha6).
  assert (Ha46 : applies_p (v4 ++ v6) P0) by (apply applies_app; auto).
  assert (HnP3 : NoDup (fold_left delta_p v6 (fold_left delta_p v4 P0))).
  { rewrite <- fold_left_app. apply applies_NoDup; assumption. }
  (* router keys *)
  rewrite apply_keys_gen.
  pose proof (gapply_spec krec krec_eqb krec_eqb_eq TKey krec_of_pdu (negb (resetting (sk w))) ks K0 []) as S9.
  destruct (gapply krec krec_eqb TKey krec_of_pdu (negb (resetting (sk w))) ks K0 []) as [[K1 t5] [[[bad c] done]|]].
  { destruct S9 as (pre & post & -> & -> & -> & Ha & _). rewrite app_nil_r.
    rewrite undo_keys_gen.
    destruct (gundo_spec krec krec_eqb krec_eqb_eq TKey krec_of_pdu (negb (resetting (sk w))) pre K0 _ HnK0 Ha (Permutation_refl _))
      as (K2 & t6 & -> & Hk2).
    rewrite undo_pfx_gen. rewrite <- rev_app_distr.
    destruct (gundo_spec prec prec_eqb prec_eqb_eq TPfx prec_of_pdu (negb (resetting (sk w))) (v4 ++ v6) P0
                (fold_left delta_p v6 (fold_left delta_p v4 P0)) HnP0 Ha46 ltac:(rewrite fold_left_app; apply Permutation_refl))
      as (P5 & t7 & -> & Hp5).
    destruct (resetting (sk w)) eqn:Er; cbn [negb]; repeat walk1; subst w1 P0 K0; fail_end; rewrite ?Hl1.
    - auto 10.
    - split; [eapply Permutation_NoDup; [apply Permutation_sym, Hp5|exact HnP]|].
      split; [eapply Permutation_NoDup; [apply Permutation_sym, Hk2|exact HnK]|]. auto 10. }
  destruct S9 as (-> & Ha9).
  (* everything applied *)
  assert (HnK1 : NoDup (fold_left delta_k ks K0)) by (apply applies_NoDup; assumption).
  destruct (resetting (sk w)) eqn:Er; cbn [negb]; repeat walk1; apply okay_ret; tables_simpl;
    (split; [exact HnP3|]); (split; [exact HnK1|]); left; (split; [reflexivity|]);
    unfold eod_ok; rewrite Er; fold w1; subst w1; tables_simpl; fold P0; fold K0; rewrite fold_left_app; auto 10.
Qed.

(* ---------- the invariant of C07 (and C08_inv) ---------- *)
Definition no_data (w : world) : Prop := own_p (pfx w) = [] /\ own_k (keys w) = [].

Definition Inv (w : world) : Prop :=
  Tm w /\ NoDup (pfx w) /\ NoDup (keys w) /\ (last_update (sk w) = 0 -> no_data w).

Lemma Inv_K w w' : Inv w -> Tm w' -> K w w' -> Inv w'.
Proof.
  unfold Inv, no_data, K. intros (_ & HP & HK & HD) Ht (A & B & C). rewrite A, B, C. auto.
Qed.

Lemma own_perm_nil_p X Y : Permutation Y X -> own_p X = [] -> own_p Y = [].
Proof.
  intros Hp Hx. apply Permutation_nil. rewrite <- Hx. apply Permutation_sym.
  unfold own_p, own. apply Permutation_filter'. exact Hp.
Qed.
Lemma own_perm_nil_k X Y : Permutation Y X -> own_k X = [] -> own_k Y = [].
Proof.
  intros Hp Hx. apply Permutation_nil. rewrite <- Hx. apply Permutation_sym.
  unfold own_k, own. apply Permutation_filter'. exact Hp.
Qed.

Lemma Inv_failed w w' : Inv w -> Tm w' -> NoDup (pfx w') -> NoDup (keys w') -> eod_failed w w' -> Inv w'.
Proof.
  unfold Inv, no_data, eod_failed. intros (_ & _ & _ & HD) Ht HP HK (A & B & C).
  split; [exact Ht|]. split; [exact HP|]. split; [exact HK|]. intros H0. rewrite C in H0. destruct (HD H0) as [D1 D2].
  split; [eapply own_perm_nil_p|eapply own_perm_nil_k]; eauto.
Qed.

(* ---------- lifting process_eod through the receive loop ---------- *)
Definition sync_post (w : world) (r : Z) (w' : world) : Prop :=
  NoDup (pfx w') /\ NoDup (keys w') /\ last_update (sk w') = last_update (sk w) /\ (r <> 0 -> eod_failed w w').

Lemma sync_post_K w w' r : NoDup (pfx w) -> NoDup (keys w) -> K w w' -> sync_post w r w'.
Proof.
  intros HP HK HKK. pose proof (K_eod_failed _ _ HKK) as Hf. destruct HKK as (A & B & C).
  unfold sync_post. rewrite A, B, C. auto.
Qed.
Lemma sync_post_trans w w1 r w' : K w w1 -> sync_post w1 r w' -> sync_post w r w'.
Proof.
  unfold sync_post. intros HK (A & B & C & D). pose proof (K_eod_failed _ _ HK) as Hf. destruct HK as (_ & _ & C1).
  rewrite C, C1. split; [exact A|]. split; [exact B|]. split; [reflexivity|]. intros Hr. eapply eod_failed_trans; eauto.
Qed.

Lemma apply_eod_intervals_last s p : last_update (apply_eod_intervals s p) = last_update s.
Proof. unfold apply_eod_intervals. destruct (_ && _); reflexivity. Qed.

Ltac ktail HP HK :=
  eapply hoareE_conseq;
  [ apply (hoareE_of_rel K); repeat kstep; try klem
  | cbv beta; intros; eapply sync_post_trans; [eassumption|]; apply sync_post_K; [| |eassumption]; assumption
  | cbv beta; intros; eapply K_trans; eassumption ].

Lemma store_loop_spec fuel : forall v4 v6 ks w, NoDup (pfx w) -> NoDup (keys w) ->
  hoareE (store_loop fuel v4 v6 ks) w (sync_post w) (K w).
Proof.
  induction fuel as [|f IH]; intros v4 v6 ks w HP HK; cbn [store_loop].
  - apply hoareE_ret. apply sync_post_K; auto. apply K_refl.
  - eapply hoareE_bind; [apply (hoareE_of_rel K), receive_pdu_K|].
    cbv beta. intros r w1 HK1.
    assert (HP1 : NoDup (pfx w1)) by (destruct HK1 as (-> & _); exact HP).
    assert (HK1' : NoDup (keys w1)) by (destruct HK1 as (_ & -> & _); exact HK).
    assert (REC : forall a b c, hoareE (store_loop f a b c) w1 (sync_post w) (K w)).
    { intros. eapply hoareE_conseq; [apply IH; assumption| |]; cbv beta; intros.
      - eapply sync_post_trans; eassumption.
      - eapply K_trans; eassumption. }
    destruct r as [c|p].
    + destruct ((c =? -2) || (c =? -4)); ktail HP1 HK1'.
    + cbv zeta.
      destruct (((nthb p 1 =? c_IPV4_PREFIX) || (nthb p 1 =? c_IPV6_PREFIX)) && negb (prefix_lengths_valid p)); [ktail HP1 HK1'|].
      destruct (nthb p 1 =? c_IPV4_PREFIX); [apply REC|].
      destruct (nthb p 1 =? c_IPV6_PREFIX); [apply REC|].
      destruct (nthb p 1 =? c_ROUTER_KEY); [apply REC|].
      destruct (nthb p 1 =? c_EOD).
      { apply okay_hoareE. eapply okay_conseq; [apply process_eod_spec; assumption|].
        cbv beta. intros r w' (A & B & [[-> Hok]|[-> Hf]]).
        - eapply sync_post_trans; [eassumption|]. unfold sync_post.
          split; [exact A|]. split; [exact B|]. split; [|intros Hne; contradiction].
          destruct Hok as (_ & _ & _ & _ & _ & ->). cbn [last_update upd_serial]. apply apply_eod_intervals_last.
        - eapply sync_post_trans; [eassumption|]. unfold sync_post.
          split; [exact A|]. split; [exact B|]. split; [apply Hf|intros _; exact Hf]. }
      destruct (nthb p 1 =? c_ERROR); [ktail HP1 HK1'|].
      destruct (nthb p 1 =? c_SERIAL_NOTIFY); [apply REC|].
      ktail HP1 HK1'.
Qed.

Lemma receive_and_store_spec fuel w : NoDup (pfx w) -> NoDup (keys w) ->
  hoareE (receive_and_store fuel) w (fun r w' => sync_post w r w' /\ resetting (sk w') = false) (K w).
Proof.
  intros HP HK. unfold receive_and_store.
  eapply hoareE_bind; [apply store_loop_spec; assumption|].
  cbv beta. intros r w1 (A & B & C & D). apply hoareE_modify_sk. apply hoareE_ret.
  unfold sync_post, eod_failed in *. cbn [pfx keys sk with_sk].
  destruct (resetting (sk w1)) eqn:Er; cbn [last_update resetting upd_resetting]; auto 10.
Qed.

(* ---------- rtr_sync ---------- *)
Lemma Tm_with_sk w s :
  Tm w -> retry_iv s = retry_iv (sk w) -> last_update s = last_update (sk w) ->
  (last_update s = 0 -> req_sess s = true) -> (req_sess s = false -> resetting s = false) -> Tm (with_sk w s).
Proof.
  unfold Tm, env_ok, with_sk. cbn [sk evs now]. intros (A & B & C & D & _ & _) -> -> H1 H2. auto 10.
Qed.

Lemma Tm_cache_response w v : Tm w -> req_sess (sk w) = true ->
  Tm (with_sk w (upd_session (if negb (last_update (sk w) =? 0) then upd_resetting (sk w) true else sk w) v)).
Proof.
  intros Ht Hq. pose proof Ht as (T1 & T2 & T3 & T4 & T5 & T6).
  destruct (negb (last_update (sk w) =? 0)).
  - apply Tm_with_sk; cbn [retry_iv last_update req_sess resetting upd_session upd_resetting]; auto. intros; congruence.
  - apply Tm_with_sk; cbn [retry_iv last_update req_sess resetting upd_session upd_resetting]; auto.
Qed.

Definition sync_result (w : world) (r : Z) (w' : world) : Prop :=
  Inv w' /\ E w w' /\
  ((r = 0 /\ last_update (sk w') = now w' /\ req_sess (sk w') = false) \/
   (r <> 0 /\ last_update (sk w') = last_update (sk w))).

Definition sync_interrupted (w w' : world) : Prop := Inv w' /\ last_update (sk w') = last_update (sk w).

(* everything that only goes through K-, T- and E-framed code *)
Lemma frame_result w w1 r : Inv w -> K w w1 -> TmR w w1 -> E w w1 -> r <> 0 -> sync_result w r w1.
Proof.
  intros HI HK HT HE Hr. unfold sync_result. split; [eapply Inv_K; [exact HI|apply HT, HI|exact HK]|].
  split; [exact HE|]. right. split; [exact Hr|apply HK].
Qed.
Lemma frame_interrupted w w1 : Inv w -> K w w1 -> TmR w w1 -> sync_interrupted w w1.
Proof.
  intros HI HK HT. split; [eapply Inv_K; [exact HI|apply HT, HI|exact HK]|apply HK].
Qed.

Definition KTE (w w' : world) : Prop := K w w' /\ TmR w w' /\ E w w'.
Lemma KTE_trans a b c : KTE a b -> KTE b c -> KTE a c.
Proof.
  intros (A1 & A2 & A3) (B1 & B2 & B3).
  split; [eapply K_trans; eauto|]. split; [eapply TmR_trans; eauto|eapply E_trans; eauto].
Qed.

Lemma tail1 {A} (m : world -> res A) w w1 :
  Inv w -> KTE w w1 -> relK m w1 -> rel TmR m w1 -> relE m w1 ->
  hoareE (mdo _ <- m; ret (-1)) w1 (sync_result w) (sync_interrupted w).
Proof.
  intros HI (A1 & A2 & A3) HK HT HE.
  eapply hoareE_bind2; [apply (hoareE_of_rel3 K TmR E); assumption| |]; cbv beta.
  - intros w2 (B1 & B2 & B3). apply frame_interrupted; auto; [eapply K_trans|eapply TmR_trans]; eauto.
  - intros ? w2 (B1 & B2 & B3). apply hoareE_ret. apply frame_result; auto; [eapply K_trans|eapply TmR_trans|eapply E_trans| ]; eauto. discriminate.
Qed.

Lemma rtr_sync_inv_spec fuel w : Inv w -> hoareE (rtr_sync fuel) w (sync_result w) (sync_interrupted w).
Proof.
  intros HI. unfold rtr_sync.
  eapply hoareE_bind2; [apply (hoareE_of_rel3 K TmR E); [apply sync_first_K|apply sync_first_T|apply sync_first_E]| |].
  { cbv beta. intros w1 (HK1 & HT1 & HE1). apply frame_interrupted; auto. }
  cbv beta. intros fp w1 (HK1 & HT1 & HE1).
  assert (HI1 : Inv w1) by (eapply Inv_K; [exact HI|apply HT1, HI|exact HK1]).
  assert (FIN : forall r w2, r <> 0 -> K w1 w2 /\ TmR w1 w2 /\ E w1 w2 -> sync_result w r w2).
  { intros r w2 Hr (A & B & C). apply frame_result; auto; [eapply K_trans|eapply TmR_trans|eapply E_trans]; eauto. }
  assert (FINX : forall w2, K w1 w2 /\ TmR w1 w2 /\ E w1 w2 -> sync_interrupted w w2).
  { intros w2 (A & B & C). apply frame_interrupted; auto; [eapply K_trans|eapply TmR_trans]; eauto. }
  destruct fp as [p|]; [|apply hoareE_ret; apply FIN; [discriminate|exact (conj (K_refl _) (conj (TmR_refl _) (E_refl _)))]].
  cbv zeta.
  assert (HKTE : KTE w w1) by exact (conj HK1 (conj HT1 HE1)).
  destruct (nthb p 1 =? c_ERROR).
  { apply tail1; auto; [apply handle_error_pdu_K|apply handle_error_pdu_T|apply handle_error_pdu_E]. }
  destruct (nthb p 1 =? c_CACHE_RESET).
  { apply tail1; auto; [apply change_state_K|apply change_state_T|apply change_state_E; reflexivity]. }
  destruct (nthb p 1 =? c_CACHE_RESPONSE).
  2: { apply tail1; auto; [apply send_error_from_host_K|apply send_error_from_host_T|apply send_error_from_host_E]. }
  apply hoareE_get_sk.
  (* the Cache Response: the session id is taken or checked *)
  assert (BODY : forall w2, K w1 w2 -> TmR w1 w2 -> E w1 w2 ->
    hoareE (mdo r <- receive_and_store fuel;
            if r =? 0
            then mdo _ <- modify_sk (fun s => upd_req s false); mdo t <- get_now; mdo _ <- modify_sk (fun s => upd_last s t); ret 0
            else ret (-1)) w2 (sync_result w) (sync_interrupted w)).
  { intros w2 HK2 HT2 HE2.
    assert (HI2 : Inv w2) by (eapply Inv_K; [exact HI1|apply HT2, HI1|exact HK2]).
    destruct HI2 as (Ht2 & HP2 & HKe2 & HD2).
    eapply hoareE_bind2.
    { apply hoareE_and; [apply receive_and_store_spec; assumption|].
      apply (hoareE_of_rel2 TmR E); [apply receive_and_store_T|apply receive_and_store_E]. }
    - cbv beta. intros w3 (HK3 & HT3 & HE3). apply frame_interrupted; auto.
      + eapply K_trans; [exact HK1|]. eapply K_trans; eauto.
      + eapply TmR_trans; [exact HT1|]. eapply TmR_trans; eauto.
    - cbv beta. intros r w3 (((A & B & C & D) & Hres) & (HT3 & HE3)).
      assert (Ht3 : Tm w3) by (apply HT3, Ht2).
      assert (HEw : E w w3) by (eapply E_trans; [exact HE1|]; eapply E_trans; eauto).
      assert (HLw : last_update (sk w3) = last_update (sk w)) by (rewrite C; destruct HK2 as (_ & _ & ->); apply HK1).
      destruct (r =? 0) eqn:Er.
      + apply hoareE_modify_sk. apply hoareE_get_now. apply hoareE_modify_sk. apply hoareE_ret.
        unfold sync_result, Inv, no_data, E. cbn [sk pfx keys now with_sk upd_req upd_last last_update req_sess st].
        destruct Ht3 as (T1 & T2 & T3 & T4 & T5 & T6).
        split; [|split; [exact HEw|left; apply Z.eqb_eq in Er; auto]].
        split; [|split; [exact A|split; [exact B|intros H0; lia]]].
        unfold Tm, env_ok, with_sk. cbn [sk evs now retry_iv last_update req_sess resetting upd_req upd_last].
        repeat split; auto; try lia.
      + apply hoareE_ret. apply Z.eqb_neq in Er. unfold sync_result.
        split; [|split; [exact HEw|right; split; [discriminate|exact HLw]]].
        eapply Inv_failed; [exact HI|exact Ht3|exact A|exact B|].
        eapply eod_failed_trans; [apply K_eod_failed; eapply K_trans; [exact HK1|exact HK2]|apply D, Er]. }
  destruct (req_sess (sk w1)) eqn:Eq.
  - apply hoareE_assoc. apply hoareE_set_sk. apply hoareE_ret_bind. cbn [negb].
    apply BODY.
    + unfold K, with_sk. cbn [pfx keys sk]. destruct (negb (last_update (sk w1) =? 0)); cbn [last_update upd_session upd_resetting]; auto.
    + intros Ht1. split; [|cbn [now with_sk]; lia].
      apply Tm_cache_response; assumption.
    + unfold E, with_sk. cbn [sk]. left. destruct (negb (last_update (sk w1) =? 0)); reflexivity.
  - destruct (negb (session_id (sk w1) =? get16 p 2)).
    + apply hoareE_assoc.
      eapply hoareE_bind2.
      { apply (hoareE_of_rel3 K TmR E); [apply send_error_from_host_K|apply send_error_from_host_T|apply send_error_from_host_E]. }
      { cbv beta. intros w2 H2. apply FINX, H2. }
      cbv beta. intros ? w2 (A2 & B2 & C2). apply hoareE_assoc.
      eapply hoareE_bind2.
      { apply (hoareE_of_rel3 K TmR E); [apply change_state_K|apply change_state_T|apply change_state_E; reflexivity]. }
      { cbv beta. intros w3 (A3 & B3 & C3). apply FINX. split; [eapply K_trans; eauto|]. split; [eapply TmR_trans; eauto|eapply E_trans; eauto]. }
      cbv beta. intros ? w3 (A3 & B3 & C3). apply hoareE_ret_bind. cbn [negb]. apply hoareE_ret.
      apply FIN; [discriminate|]. split; [eapply K_trans; eauto|]. split; [eapply TmR_trans; eauto|eapply E_trans; eauto].
    + apply hoareE_ret_bind. cbn [negb]. apply BODY; [apply K_refl|apply TmR_refl|apply E_refl].
Qed.
