(* RefreshInv.v - C08: refresh_interval is never negative in a world the client can be in.
   (The hypothesis added to C08_converge_full in Rtr/ConvergeLoop.v; Inv / Tm keep 0 <= retry_interval only.)
   The single assignment is apply_eod_intervals in process_eod: it stores a 32-bit field of the End of Data PDU (not
   negative, the PDU consists of bytes: receive_pdu_bytes, under Tm), a bound of the admitted range, or the old value.
     RS  : refresh_iv untouched                      - everything but process_eod and what calls it
     RF  : Tm w -> 0 <= refresh_iv w -> 0 <= refresh_iv w'   - process_eod, store_loop, receive_and_store, rtr_sync, fsm_step *)
From Coq Require Import Permutation.
From RtrV Require Import Base.CSem Gen.Generated Rtr.RtrModel Rtr.RelFrame Rtr.ExpiryTac Rtr.SyncSets Rtr.ExpiryFrames
  Rtr.ExpirySync Rtr.ConvergeStutter Rtr.ExpiryProofs.
Local Open Scope Z_scope.

(* ---------- frame RS: the refresh interval is untouched ---------- *)
Definition RS (w w' : world) : Prop := refresh_iv (sk w') = refresh_iv (sk w).
Lemma RS_refl w : RS w w. Proof. reflexivity. Qed.
Lemma RS_trans a b c : RS a b -> RS b c -> RS a c.
Proof. unfold RS. congruence. Qed.
Notation relS := (rel RS).
Ltac sstep := rstep RS RS_refl RS_trans.
Ltac sfin := unfold RS; sk_simpl; auto.
Ltac sprim := unfold rel; unfold_prims; sfin.
Ltac sIH IH := match goal with
  | |- relS (tr_recv_all_loop _ _ _ _) _ => apply IH
  | |- relS (tr_send_all_loop _ _ _) _ => apply IH
  | |- relS (sync_first _) _ => apply IH end.

Lemma change_state_S ns w : relS (change_state ns) w.
Proof. unfold change_state. repeat sstep; try sprim. Qed.
Lemma tr_recv_S len t w : relS (tr_recv len t) w.
Proof.
  unfold rel, tr_recv. destruct (tr_recv_evs _ _ _ _ _) as [[[[[c|b]|] es] t'] tr]; try destruct (c =? -99); sfin.
Qed.
Ltac slem1 := match goal with
  | |- relS (change_state _) _ => apply change_state_S
  | |- relS (tr_recv _ _) _ => apply tr_recv_S end.
Lemma tr_recv_all_loop_S fuel : forall len e acc w, relS (tr_recv_all_loop fuel len e acc) w.
Proof.
  induction fuel as [|f IH]; intros; cbn [tr_recv_all_loop]; [apply (rel_ret RS RS_refl)|].
  repeat sstep; try slem1; try sIH IH.
Qed.
Lemma tr_recv_all_S len t w : relS (tr_recv_all len t) w.
Proof. unfold tr_recv_all. repeat sstep. apply tr_recv_all_loop_S. Qed.
Lemma tr_send_S b w : relS (tr_send b) w.
Proof. unfold rel, tr_send. destruct (sends w); destruct (_ <? 0); sfin. Qed.
Lemma tr_send_all_loop_S fuel : forall b tot w, relS (tr_send_all_loop fuel b tot) w.
Proof.
  induction fuel as [|f IH]; intros; cbn [tr_send_all_loop]; [apply (rel_ret RS RS_refl)|].
  repeat sstep; try apply tr_send_S; try sIH IH.
Qed.
Lemma send_pdu_S b w : relS (send_pdu b) w.
Proof. unfold send_pdu, tr_send_all. repeat sstep; try apply tr_send_all_loop_S. Qed.
Lemma send_error_pdu_S enc c t w : relS (send_error_pdu enc c t) w.
Proof. unfold send_error_pdu. repeat sstep; try apply send_pdu_S. Qed.
Lemma send_error_from_host_S enc c t w : relS (send_error_from_host enc c t) w.
Proof. unfold send_error_from_host. repeat sstep; try apply send_error_pdu_S. Qed.
Ltac slem2 := match goal with
  | |- relS (tr_recv_all _ _) _ => apply tr_recv_all_S
  | |- relS (send_pdu _) _ => apply send_pdu_S
  | |- relS (send_error_pdu _ _ _) _ => apply send_error_pdu_S
  | |- relS (send_error_from_host _ _ _) _ => apply send_error_from_host_S
  | _ => slem1 end.
Lemma send_serial_query_S w : relS send_serial_query w.
Proof. unfold send_serial_query. repeat sstep; try slem2. Qed.
Lemma send_reset_query_S w : relS send_reset_query w.
Proof. unfold send_reset_query. repeat sstep; try slem2. Qed.
Lemma recv_err_S c w : relS (recv_err c) w.
Proof. unfold recv_err. repeat sstep; try slem2. Qed.
Lemma tr_open_S w : relS tr_open w.
Proof. unfold rel, tr_open. destruct (opens w); sfin. Qed.
Ltac slem3 := match goal with
  | |- relS (send_serial_query) _ => apply send_serial_query_S
  | |- relS (send_reset_query) _ => apply send_reset_query_S
  | |- relS (recv_err _) _ => apply recv_err_S
  | |- relS (tr_open) _ => apply tr_open_S
  | _ => slem2 end.
Lemma receive_pdu_S t w : relS (receive_pdu t) w.
Proof.
  unfold receive_pdu. repeat sstep; try slem3. all: try (sprim; fail).
  all: try (unfold rel; unfold_prims; repeat match goal with |- context [if ?c then _ else _] => destruct c eqn:? end; sfin).
Qed.
Lemma handle_error_pdu_S p w : relS (handle_error_pdu p) w.
Proof. unfold handle_error_pdu. repeat sstep; try slem3; try sprim. Qed.
Lemma report_update_failure_S p c k w : relS (report_update_failure p c k) w.
Proof. unfold report_update_failure. repeat sstep; try slem3. Qed.
Lemma src_remove_all_S w : relS src_remove_all w.
Proof. unfold src_remove_all. repeat sstep; try sprim. Qed.
Lemma purge_after_failed_undo_S w : relS purge_after_failed_undo w.
Proof. unfold purge_after_failed_undo. repeat sstep; try apply src_remove_all_S; try sprim. Qed.
Ltac slem := match goal with
  | |- relS (receive_pdu _) _ => apply receive_pdu_S
  | |- relS (handle_error_pdu _) _ => apply handle_error_pdu_S
  | |- relS (report_update_failure _ _ _) _ => apply report_update_failure_S
  | |- relS (src_remove_all) _ => apply src_remove_all_S
  | |- relS (purge_after_failed_undo) _ => apply purge_after_failed_undo_S
  | _ => slem3 end.
Lemma sync_first_S fuel : forall w, relS (sync_first fuel) w.
Proof.
  induction fuel as [|f IH]; intros; cbn [sync_first]; [apply (rel_ret RS RS_refl)|].
  repeat sstep; try slem; try sIH IH; try sprim.
Qed.
Lemma wait_for_sync_S w : relS wait_for_sync w.
Proof. unfold wait_for_sync. repeat sstep; try slem. Qed.
Lemma purge_outdated_S w : relS purge_outdated w.
Proof. unfold purge_outdated. repeat sstep; try slem; try sprim. Qed.

(* ---------- relation RF: a non-negative refresh interval stays non-negative (in a well-formed environment) ---------- *)
Definition RF (w w' : world) : Prop := Tm w -> 0 <= refresh_iv (sk w) -> 0 <= refresh_iv (sk w').
Notation relF' := (rel RF).

Lemma RF_refl w : RF w w. Proof. unfold RF. auto. Qed.

Lemma RS_RF {A} (m : world -> res A) w : relS m w -> relF' m w.
Proof. unfold rel, RS, RF. destruct (m w); intros -> _ H; exact H. Qed.

(* the head keeps Tm (known from Rtr/ExpiryFrames.v) and is RF; the rest is RF from a world that satisfies Tm *)
Lemma rf_bind {A B} (m : world -> res A) (f : A -> world -> res B) w :
  relT m w -> relF' m w -> (Tm w -> forall a w', m w = Ok a w' -> relF' (f a) w') -> relF' (bind m f) w.
Proof.
  unfold rel, bind, RF, TmR. intros HT Hm Hf. destruct (m w) as [a w'|e w'] eqn:E; [|exact Hm].
  destruct (f a w') as [b w2|e w2] eqn:E2; intros Ht Hr; destruct (HT Ht) as [Ht1 _];
    specialize (Hf Ht a w' eq_refl); rewrite E2 in Hf; apply Hf; auto.
Qed.

(* the rest does not touch the interval: no invariant needed in between *)
Lemma rf_bind_S {A B} (m : world -> res A) (f : A -> world -> res B) w :
  relF' m w -> (forall a w', relS (f a) w') -> relF' (bind m f) w.
Proof.
  unfold rel, bind, RF, RS. intros Hm Hf. destruct (m w) as [a w'|e w'] eqn:E; [|exact Hm].
  specialize (Hf a w'). destruct (f a w') as [b w2|e w2]; intros Ht Hr; rewrite Hf; auto.
Qed.

Lemma rf_get_sk {B} (f : sock -> world -> res B) w : relF' (f (sk w)) w -> relF' (bind get_sk f) w.
Proof. intros H. exact H. Qed.
Lemma rf_get_w {B} (f : world -> world -> res B) w : relF' (f w) w -> relF' (bind get_w f) w.
Proof. intros H. exact H. Qed.

Lemma apply_eod_refresh s p : Forall byte_ok p -> 0 <= refresh_iv s -> 0 <= refresh_iv (apply_eod_intervals s p).
Proof.
  intros Hp Hr. unfold apply_eod_intervals. destruct (_ && _); cbn [refresh_iv upd_ivs]; [|exact Hr].
  apply iv_apply_nonneg; [apply get32_nonneg, Hp|exact Hr| |]; vm_compute; discriminate.
Qed.

(* one step through straight-line code whose head keeps the interval *)
Ltac tsolve := first [ tlem4 | apply sync_first_T | apply receive_and_store_T | apply store_loop_T
                     | apply wait_for_sync_T | apply purge_outdated_T | (repeat tstep; try tlem4; try tprim; fail) ].
Ltac ssolve := first [ slem | apply sync_first_S | apply wait_for_sync_S | apply purge_outdated_S
                     | (repeat sstep; try slem; try sprim; fail) ].
Ltac fstep' :=
  match goal with
  | |- relF' (ret _) _ => apply (rel_ret RF RF_refl)
  | |- relF' (bind get_sk _) _ => apply rf_get_sk
  | |- relF' (bind get_w _) _ => apply rf_get_w
  | |- relF' (if ?c then _ else _) _ => destruct c eqn:?
  | |- relF' (match ?x with _ => _ end) _ => destruct x eqn:?
  | |- relF' ((fun _ => _) _) _ => cbv beta
  | |- relF' (let _ := _ in _) _ => cbv zeta
  | |- relF' (bind _ _) _ => apply rf_bind; [tsolve | apply RS_RF; ssolve | intros ?HTm ? ? ?Heq]
  end.

Lemma set_eod_F s p w : s = sk w -> Forall byte_ok p ->
  forall (f : unit -> world -> res Z), (forall w', Tm w' -> relF' (f tt) w') -> relF' (bind (set_sk (apply_eod_intervals s p)) f) w.
Proof.
  intros -> Hp f Hf. apply rf_bind.
  - apply set_eod_T; [reflexivity|exact Hp].
  - unfold rel, set_sk, RF. cbn [sk]. intros _ Hr. apply apply_eod_refresh; assumption.
  - intros Ht [] w' E. apply Hf. pose proof (set_eod_T (sk w) p w eq_refl Hp) as HT. unfold rel in HT. rewrite E in HT. apply HT, Ht.
Qed.

Lemma process_eod_F p v4 v6 ks w : Forall byte_ok p -> relF' (process_eod p v4 v6 ks) w.
Proof.
  intros Hp. unfold process_eod. apply rf_get_sk.
  destruct (negb (get16 p 2 =? session_id (sk w))); [apply RS_RF; repeat sstep; try slem|].
  apply set_eod_F; [reflexivity|exact Hp|]. intros w1 Ht1.
  (* from here on the interval is untouched *)
  apply RS_RF. repeat sstep; try slem; try (sprim; fail).
Qed.

Lemma store_loop_F fuel : forall v4 v6 ks w, relF' (store_loop fuel v4 v6 ks) w.
Proof.
  induction fuel as [|f IH]; intros; cbn [store_loop]; [apply (rel_ret RF RF_refl)|].
  apply rf_bind; [apply receive_pdu_T|apply RS_RF, receive_pdu_S|]. intros Ht r w1 Er.
  destruct r as [c|p]; [apply RS_RF; repeat sstep; try slem|].
  pose proof (receive_pdu_bytes _ _ _ _ Ht Er) as Hp. cbv zeta.
  repeat match goal with
         | |- relF' (if ?c then _ else _) _ => destruct c
         end;
    first [ apply IH | apply process_eod_F; exact Hp | apply RS_RF; repeat sstep; try slem ].
Qed.

Lemma receive_and_store_F fuel w : relF' (receive_and_store fuel) w.
Proof.
  unfold receive_and_store. apply rf_bind_S; [apply store_loop_F|]. intros r w1.
  repeat sstep. unfold rel; unfold_prims. destruct (resetting (sk _)); sfin.
Qed.

Lemma rtr_sync_F fuel w : relF' (rtr_sync fuel) w.
Proof.
  unfold rtr_sync. apply rf_bind; [apply sync_first_T|apply RS_RF, sync_first_S|]. intros Ht fp w1 E1.
  destruct fp as [p|]; [|apply (rel_ret RF RF_refl)]. cbv zeta.
  destruct (nthb p 1 =? c_ERROR); [apply RS_RF; repeat sstep; try slem|].
  destruct (nthb p 1 =? c_CACHE_RESET); [apply RS_RF; repeat sstep; try slem|].
  destruct (nthb p 1 =? c_CACHE_RESPONSE); [|apply RS_RF; repeat sstep; try slem].
  apply rf_get_sk.
  (* the session id is taken or checked: the interval is untouched, Tm is kept *)
  apply rf_bind.
  - destruct (req_sess (sk w1)) eqn:Eq; [|repeat tstep; try tlem4; try tprim].
    unfold rel, bind, set_sk, ret, TmR. intros Ht'. split; [exact (Tm_cache_response w1 _ Ht' Eq)|cbn [now]; lia].
  - apply RS_RF. destruct (req_sess (sk w1)); repeat sstep; try slem; try sprim.
    destruct (negb (last_update (sk w1) =? 0)); reflexivity.
  - intros Ht1 ok w2 E2. destruct (negb ok); [apply (rel_ret RF RF_refl)|].
    apply rf_bind_S; [apply receive_and_store_F|]. intros r w3.
    destruct (r =? 0); [|apply (rel_ret RS RS_refl)]. sprim.
Qed.

Theorem fsm_step_F' fuel w : relF' (fsm_step fuel) w.
Proof.
  unfold fsm_step. apply rf_get_sk. cbv zeta.
  destruct (st (sk w) =? c_RTR_CONNECTING); [apply RS_RF; repeat sstep; try slem; try apply purge_outdated_S; try sprim|].
  destruct (st (sk w) =? c_RTR_RESET); [apply RS_RF; repeat sstep; try slem|].
  destruct (st (sk w) =? c_RTR_SYNC).
  { apply rf_bind_S; [apply rtr_sync_F|]. intros r w1. destruct (r =? 0); [apply change_state_S|apply (rel_ret RS RS_refl)]. }
  apply RS_RF.
  destruct (st (sk w) =? c_RTR_ESTABLISHED); [repeat sstep; try slem; try apply wait_for_sync_S|].
  destruct (st (sk w) =? c_RTR_FAST_RECONNECT); [unfold tr_close; repeat sstep; try slem; try sprim|].
  destruct (st (sk w) =? c_RTR_ERROR_NO_DATA_AVAIL); [unfold do_sleep; repeat sstep; try slem; try apply purge_outdated_S; try sprim|].
  destruct (st (sk w) =? c_RTR_ERROR_NO_INCR_UPDATE_AVAIL); [repeat sstep; try slem; try apply purge_outdated_S; try sprim|].
  destruct ((st (sk w) =? c_RTR_ERROR_TRANSPORT) || (st (sk w) =? c_RTR_ERROR_FATAL));
    [unfold tr_close, do_sleep; repeat sstep; try slem; try sprim|].
  apply (rel_ret RS RS_refl).
Qed.

(* ---------- every reachable world ---------- *)
Lemma stop_restart_refresh w w' : stop_restart w = Ok tt w' -> refresh_iv (sk w') = refresh_iv (sk w).
Proof.
  rewrite stop_restart_eq'. intros E. injection E as <-.
  unfold stopped, state_changed, stop_sk, removed, with_sk, with_out. cbn [sk out].
  destruct ((st (sk w) =? c_RTR_SHUTDOWN) || (st (sk w) =? c_RTR_SHUTDOWN));
    cbn [sk refresh_iv upd_st upd_last upd_serial upd_req]; reflexivity.
Qed.

Theorem fsm_iter_refresh fuel w : Inv w -> 0 <= refresh_iv (sk w) -> 0 <= refresh_iv (sk (fst (fsm_iter fuel w))).
Proof.
  intros HI Hr. pose proof (fsm_step_F' fuel w) as H. unfold rel, RF in H. unfold fsm_iter.
  destruct HI as (Ht & _).
  destruct (fsm_step fuel w) as [a w'|[why|] w']; cbn [fst]; try (apply H; assumption).
  destruct (stop_restart w') as [[] w2|e w2] eqn:Es; cbn [fst].
  - rewrite (stop_restart_refresh _ _ Es). apply H; assumption.
  - rewrite stop_restart_eq' in Es. discriminate.
Qed.

Theorem run_fsm_refresh n fuel : forall w, Inv w -> 0 <= refresh_iv (sk w) -> 0 <= refresh_iv (sk (run_fsm n fuel w)).
Proof.
  induction n as [|n IH]; intros w HI Hr; [exact Hr|].
  rewrite run_fsm_iter. pose proof (fsm_iter_Inv fuel w HI) as H1. pose proof (fsm_iter_refresh fuel w HI Hr) as H2.
  destruct (fsm_iter fuel w) as [w' [|]]; cbn [fst] in H1, H2; [apply IH; assumption|exact H2].
Qed.

(* from rtr_init: the range check admits refresh_interval in [1, 86400] only *)
Theorem reachable_refresh n fuel refresh expire retry mode P K0 es os ss o :
  init_ok refresh expire retry = true ->
  Forall ev_ok es -> NoDup P -> NoDup K0 -> own_p P = [] -> own_k K0 = [] ->
  let w := run_fsm n fuel (start_world refresh expire retry mode P K0 es os ss o) in
  Inv w /\ 0 <= refresh_iv (sk w).
Proof.
  intros Hi He HP HK Ho1 Ho2.
  assert (Hrng : 1 <= refresh /\ 1 <= retry).
  { unfold init_ok, iv_range in Hi. rewrite !andb_true_iff in Hi. destruct Hi as [[A _] C].
    change c_RTR_REFRESH_MIN with 1 in A. change c_RTR_RETRY_MIN with 1 in C.
    destruct (refresh <? 1) eqn:E1; [destruct (refresh >? c_RTR_REFRESH_MAX); discriminate|].
    destruct (retry <? 1) eqn:E2; [destruct (retry >? c_RTR_RETRY_MAX); discriminate|].
    apply Z.ltb_ge in E1, E2. lia. }
  assert (HI : Inv (start_world refresh expire retry mode P K0 es os ss o)) by (apply Inv_start; auto; lia).
  cbv zeta. split; [apply run_fsm_Inv, HI|]. apply run_fsm_refresh; [exact HI|]. cbn. lia.
Qed.

Print Assumptions run_fsm_refresh.
Print Assumptions reachable_refresh.
