(* ValidateProofs.v - what rtr_bgpsec_validate_as_path decides (C11_decision, C11_codes),
   and why the full property fails today (key lookup by SKI only). *)
From RtrV Require Import Base.CSem Bgpsec.DigestSpec Bgpsec.Align Bgpsec.Validate
     Bgpsec.DigestProofs Bgpsec.AlignProofs.
Local Open Scope Z_scope.
Local Notation length := List.length (only parsing).
Local Notation concat := List.concat (only parsing).

Lemma bytes_eqb_eq a : forall b, bytes_eqb a b = true <-> a = b.
Proof.
  induction a as [|x a IH]; intros [|y b]; cbn [bytes_eqb]; split; intros H;
    try discriminate; try reflexivity.
  - apply andb_true_iff in H as [H1 H2]. apply Z.eqb_eq in H1. apply IH in H2. now subst.
  - injection H as -> ->. rewrite Z.eqb_refl. cbn [andb]. now apply IH.
Qed.

Lemma search_by_ski_In t ski key : In key (search_by_ski t ski) <-> In key t /\ rk_ski key = ski.
Proof. unfold search_by_ski. rewrite filter_In, bytes_eqb_eq. reflexivity. Qed.

Lemma search_nonempty t ski : search_by_ski t ski <> [] <-> exists key, In key t /\ rk_ski key = ski.
Proof.
  split.
  - destruct (search_by_ski t ski) as [|key r] eqn:E; [congruence|]. intros _.
    exists key. apply search_by_ski_In. rewrite E. now left.
  - intros (key & Hk). apply search_by_ski_In in Hk. intros E. rewrite E in Hk. exact Hk.
Qed.

Lemma check_router_keys_cases sigs t :
  (check_router_keys sigs t = BGPSEC_SUCCESS /\
   Forall (fun g => search_by_ski t (sg_ski g) <> []) sigs) \/
  (check_router_keys sigs t = BGPSEC_ROUTER_KEY_NOT_FOUND /\
   Exists (fun g => search_by_ski t (sg_ski g) = []) sigs).
Proof.
  induction sigs as [|g r IH]; cbn [check_router_keys]; [left; split; [reflexivity|constructor]|].
  destruct (search_by_ski t (sg_ski g)) as [|key ks] eqn:E.
  - right. split; [reflexivity|]. now left.
  - destruct IH as [[H1 H2]|[H1 H2]]; [left|right]; (split; [exact H1|]).
    + constructor; [congruence|exact H2].
    + now right.
Qed.

Section Proofs.
  Variable sha256 : list Z -> list Z.
  Variable load_pub : list Z -> bool.
  Variable ecdsa_verify : list Z -> list Z -> list Z -> Z.

  Notation sig_ok := (Validate.sig_ok load_pub ecdsa_verify).
  Notation validate_signature := (Validate.validate_signature load_pub ecdsa_verify).
  Notation key_loop := (Validate.key_loop load_pub ecdsa_verify).
  Notation vloop_gen := (Validate.vloop_gen sha256 load_pub ecdsa_verify).
  Notation validate_gen := (Validate.validate_gen sha256 load_pub ecdsa_verify).
  Notation validate := (Validate.validate sha256 load_pub ecdsa_verify).

  (* what the key selection of the two variants of the code demands of a key *)
  Definition as_ok (by_asn : bool) : router_key -> sps -> Prop :=
    if by_asn then (fun key sec => rk_asn key = sp_asn sec) else (fun _ _ => True).

  Lemma validate_signature_valid h g r :
    validate_signature h g r = BGPSEC_VALID <-> sig_ok (rk_spki r) h (sg_sig g) = true.
  Proof.
    unfold Validate.validate_signature, Validate.sig_ok.
    destruct (load_pub (rk_spki r)); cbn [andb]; [|split; discriminate].
    destruct (Z.eqb_spec (ecdsa_verify (rk_spki r) h (sg_sig g)) (-1)) as [E1|E1];
      [rewrite E1; split; discriminate|].
    destruct (Z.eqb_spec (ecdsa_verify (rk_spki r) h (sg_sig g)) 0) as [E2|E2];
      [rewrite E2; split; discriminate|].
    destruct (Z.eqb_spec (ecdsa_verify (rk_spki r) h (sg_sig g)) 1) as [E3|E3];
      split; intros; try reflexivity; discriminate.
  Qed.

  Lemma key_loop_valid keys h g : forall rv, rv <> BGPSEC_VALID ->
    (key_loop keys h g rv = BGPSEC_VALID <->
     exists r, In r keys /\ sig_ok (rk_spki r) h (sg_sig g) = true).
  Proof.
    induction keys as [|r rest IH]; intros rv Hrv; cbn [Validate.key_loop].
    - split; [congruence|intros (r & [] & _)].
    - destruct (Z.eqb_spec (validate_signature h g r) BGPSEC_VALID) as [E|E].
      + split; [|reflexivity]. intros _. exists r. split; [now left|].
        now apply validate_signature_valid.
      + rewrite (IH _ E). split; intros (r' & Hin & Hok).
        * exists r'. split; [now right|exact Hok].
        * destruct Hin as [<-|Hin]; [|exists r'; auto].
          apply validate_signature_valid in Hok. congruence.
  Qed.

  Definition keys_tried (by_asn : bool) (t : list router_key) (g : sgs) (sec : sps) : list router_key :=
    if by_asn then filter (fun r => rk_asn r =? sp_asn sec) (search_by_ski t (sg_ski g))
    else search_by_ski t (sg_ski g).

  Lemma as_filter_cons by_asn t g sec secs' :
    as_filter by_asn (search_by_ski t (sg_ski g)) (sec :: secs') = Some (keys_tried by_asn t g sec).
  Proof. destruct by_asn; reflexivity. Qed.

  Lemma key_loop_table by_asn t g sec h :
    key_loop (keys_tried by_asn t g sec) h g
             (if by_asn then BGPSEC_ROUTER_KEY_NOT_FOUND else BGPSEC_SUCCESS) = BGPSEC_VALID <->
    exists key, In key t /\ rk_ski key = sg_ski g /\ as_ok by_asn key sec /\
                sig_ok (rk_spki key) h (sg_sig g) = true.
  Proof.
    destruct by_asn; cbn [keys_tried as_ok]; (rewrite key_loop_valid by discriminate);
      split; intros (key & H1 & H2); exists key.
    - apply filter_In in H1 as [H1 H3]. apply search_by_ski_In in H1. apply Z.eqb_eq in H3. tauto.
    - destruct H2 as (H2 & H3 & H4). split; [|exact H4].
      apply filter_In. split; [apply search_by_ski_In; tauto|now apply Z.eqb_eq].
    - apply search_by_ski_In in H1. tauto.
    - split; [apply search_by_ski_In; tauto|tauto].
  Qed.

  (* "every hop from here on verifies", following the two lists *)
  Fixpoint hops_ok (as_ok : router_key -> sps -> Prop) (t : list router_key) (d : bgpsec_c)
           (tk : Z) (secs : list sps) (sigs : list sgs) : Prop :=
    match sigs, secs with
    | [], _ => True
    | g :: rest, sec :: secs' =>
        (exists m key,
            message tk secs rest (b_alg d) (b_afi d) (b_safi d) (to_nlri d) = Some m /\
            In key t /\ rk_ski key = sg_ski g /\ as_ok key sec /\
            sig_ok (rk_spki key) (sha256 m) (sg_sig g) = true)
        /\ hops_ok as_ok t d (sp_asn sec) secs' rest
    | _ :: _, [] => False
    end.

  Fixpoint last_len (g : sgs) (rest : list sgs) : Z :=
    match rest with [] => sig_len g | g' :: r => last_len g' r end.

  Lemma vloop_unfold by_asn t s g rest sec secs' (pre m : list Z) :
    read_for_hash s (Z.of_nat (length pre)) (st_size s - Z.of_nat (length pre)) = Some m ->
    Z.of_nat (length pre) <= st_size s ->
    vloop_gen by_asn t ALGORITHM_SUITE_1 s (g :: rest) (sec :: secs') (Z.of_nat (length pre)) =
    if key_loop (keys_tried by_asn t g sec) (sha256 m) g
                (if by_asn then BGPSEC_ROUTER_KEY_NOT_FOUND else BGPSEC_SUCCESS) =? BGPSEC_VALID
    then vloop_gen by_asn t ALGORITHM_SUITE_1 s rest secs'
                   (wrapu 32 (Z.of_nat (length pre) + next_offset g rest))
    else Some (key_loop (keys_tried by_asn t g sec) (sha256 m) g
                        (if by_asn then BGPSEC_ROUTER_KEY_NOT_FOUND else BGPSEC_SUCCESS)).
  Proof.
    intros Hr Hle. cbn [Validate.vloop_gen].
    destruct (Z.of_nat (length pre) <=? st_size s) eqn:E; [|apply Z.leb_gt in E; lia].
    rewrite Hr. cbn [obind]. rewrite Z.eqb_refl. cbn [negb].
    rewrite as_filter_cons. cbn [obind tl]. reflexivity.
  Qed.

  Lemma trailer_length d nb : Z.of_nat (length (trailer d nb)) = 5 + Z.of_nat (length nb).
  Proof. unfold trailer. rewrite !app_length, be16_length. cbn [List.length]. lia. Qed.

  Lemma vloop_spec by_asn t d s nb :
    Z.of_nat (length (st_buf s)) = st_size s -> st_size s < 65536 ->
    enc_nlri (to_nlri d) = n_len (b_nlri d) :: nb -> Z.of_nat (length nb) = nlri_byte_len d ->
    forall rest g secs pre tk,
      Forall wf_sgs (g :: rest) -> length secs = S (length rest) ->
      at_hop s d nb pre tk secs rest ->
      (vloop_gen by_asn t ALGORITHM_SUITE_1 s (g :: rest) secs (Z.of_nat (length pre)) = Some BGPSEC_VALID <->
       hops_ok (as_ok by_asn) t d tk secs (g :: rest) /\ last_len g rest + 13 > nlri_byte_len d)
      /\
      (hops_ok (as_ok by_asn) t d tk secs (g :: rest) -> last_len g rest + 13 <= nlri_byte_len d ->
       vloop_gen by_asn t ALGORITHM_SUITE_1 s (g :: rest) secs (Z.of_nat (length pre)) = None).
  Proof.
    intros Hlen Hsz Henc Hnb.
    induction rest as [|g' rest IH]; intros g secs pre tk Wf Hl Hat.
    - (* the last Signature Segment *)
      destruct secs as [|sec [|? ?]]; try discriminate.
      pose proof (aligned_is_message d [] nb tk [sec] eq_refl Henc) as Hm.
      set (m := be32 tk ++ concat (loop_chunks [sec] []) ++ trailer d nb) in *.
      assert (Hr : read_for_hash s (Z.of_nat (length pre)) (st_size s - Z.of_nat (length pre)) = Some m)
        by (apply read_for_hash_suffix; assumption).
      assert (Hsize : st_size s = Z.of_nat (length pre) + 15 + nlri_byte_len d).
      { rewrite <- Hlen. unfold at_hop in Hat. rewrite Hat. fold m. rewrite app_length. unfold m.
        rewrite !app_length, Nat2Z.inj_add, Nat2Z.inj_add, Nat2Z.inj_add.
        rewrite (length_loop_chunks [sec] [] ltac:(constructor) ltac:(cbn; lia)), trailer_length, be32_length.
        cbn [List.length sigs_total]. lia. }
      inversion Wf as [|? ? Wg _]; subst.
      assert (Hsl : 0 <= sig_len g < 65536) by (destruct Wg; unfold sig_len; lia).
      assert (Hnbl : 0 <= nlri_byte_len d) by lia.
      rewrite (vloop_unfold by_asn t s g [] sec [] pre m Hr) by lia.
      rewrite (next_offset_last g Wg), wrapu32_small by lia.
      cbn [hops_ok last_len Validate.vloop_gen].
      destruct (Z.eqb_spec (key_loop (keys_tried by_asn t g sec) (sha256 m) g
                                     (if by_asn then BGPSEC_ROUTER_KEY_NOT_FOUND else BGPSEC_SUCCESS))
                           BGPSEC_VALID) as [K|K].
      + apply key_loop_table in K. destruct K as (key & K1 & K2 & Kas & K3).
        assert (Hh : exists m0 key0,
                   message tk [sec] [] (b_alg d) (b_afi d) (b_safi d) (to_nlri d) = Some m0 /\
                   In key0 t /\ rk_ski key0 = sg_ski g /\ as_ok by_asn key0 sec /\
                   sig_ok (rk_spki key0) (sha256 m0) (sg_sig g) = true)
          by (exists m, key; auto).
        destruct (Z.of_nat (length pre) + (sig_len g + 28) <=? st_size s) eqn:E.
        * apply Z.leb_le in E. split; [|reflexivity]. split; [discriminate|]. intros [_ ?]. lia.
        * apply Z.leb_gt in E. split; [|intros; lia]. split; [|reflexivity]. intros _.
          split; [split; [exact Hh|exact I]|lia].
      + split.
        * split; [intros H; injection H as H; congruence|].
          intros [[(m0 & key & M & K1 & K2 & Kas & K3) _] _].
          exfalso. apply K. apply key_loop_table. exists key. rewrite Hm in M. injection M as <-. auto.
        * intros [(m0 & key & M & K1 & K2 & Kas & K3) _] _.
          exfalso. apply K. apply key_loop_table. exists key. rewrite Hm in M. injection M as <-. auto.
    - (* an inner Signature Segment: move to the next hop *)
      destruct secs as [|sec secs]; [discriminate|].
      pose proof (aligned_is_message d (g' :: rest) nb tk (sec :: secs) Hl Henc) as Hm.
      set (m := be32 tk ++ concat (loop_chunks (sec :: secs) (g' :: rest)) ++ trailer d nb) in *.
      assert (Hr : read_for_hash s (Z.of_nat (length pre)) (st_size s - Z.of_nat (length pre)) = Some m)
        by (apply read_for_hash_suffix; assumption).
      inversion Wf as [|? ? Wg Wf']; subst. inversion Wf' as [|? ? Wg' Wf'']; subst.
      destruct (at_hop_step _ _ _ _ _ _ _ _ _ Wg' Hat) as (pre' & Hat' & Hpre').
      assert (Hb : Z.of_nat (length pre') <= st_size s).
      { rewrite <- Hlen. unfold at_hop in Hat'. rewrite Hat', app_length. lia. }
      assert (Hsl : 0 <= sig_len g') by (unfold sig_len; lia).
      rewrite (vloop_unfold by_asn t s g (g' :: rest) sec secs pre m Hr) by lia.
      rewrite (next_offset_next g g' rest Wg'), wrapu32_small by lia. rewrite <- Hpre'.
      cbn [List.length] in Hl.
      destruct (IH g' secs pre' (sp_asn sec) Wf' ltac:(lia) Hat') as [IH1 IH2].
      cbn [hops_ok last_len]. fold (hops_ok (as_ok by_asn) t d (sp_asn sec) secs (g' :: rest)).
      destruct (Z.eqb_spec (key_loop (keys_tried by_asn t g sec) (sha256 m) g
                                     (if by_asn then BGPSEC_ROUTER_KEY_NOT_FOUND else BGPSEC_SUCCESS))
                           BGPSEC_VALID) as [K|K].
      + apply key_loop_table in K. destruct K as (key & K1 & K2 & Kas & K3).
        assert (Hh : exists m0 key0,
                   message tk (sec :: secs) (g' :: rest) (b_alg d) (b_afi d) (b_safi d) (to_nlri d) = Some m0 /\
                   In key0 t /\ rk_ski key0 = sg_ski g /\ as_ok by_asn key0 sec /\
                   sig_ok (rk_spki key0) (sha256 m0) (sg_sig g) = true)
          by (exists m, key; auto).
        split.
        * rewrite IH1. split; [intros [? ?]; auto|intros [[_ ?] ?]; auto].
        * intros [_ H] Hlast. apply IH2; assumption.
      + split.
        * split; [intros H; injection H as H; congruence|].
          intros [[(m0 & key & M & K1 & K2 & Kas & K3) _] _].
          exfalso. apply K. apply key_loop_table. exists key. rewrite Hm in M. injection M as <-. auto.
        * intros [(m0 & key & M & K1 & K2 & Kas & K3) _] _.
          exfalso. apply K. apply key_loop_table. exists key. rewrite Hm in M. injection M as <-. auto.
  Qed.

  (* [hops_ok] in the indexed form of the specification *)
  Lemma hops_ok_iff as_ok t d : forall sigs secs tk, length secs = length sigs ->
    (hops_ok as_ok t d tk secs sigs <->
     forall k, (k < length sigs)%nat ->
       exists sec sg m key,
         nth_error secs k = Some sec /\ nth_error sigs k = Some sg /\
         digest_for_hop_rec k tk secs sigs (b_alg d) (b_afi d) (b_safi d) (to_nlri d) = Some m /\
         In key t /\ rk_ski key = sg_ski sg /\ as_ok key sec /\
         sig_ok (rk_spki key) (sha256 m) (sg_sig sg) = true).
  Proof.
    induction sigs as [|g rest IH]; intros secs tk Hl.
    - split; [intros _ k Hk; cbn [List.length] in Hk; lia|intros _; destruct secs; exact I].
    - destruct secs as [|sec secs]; [discriminate|]. injection Hl as Hl.
      cbn [hops_ok]. rewrite (IH secs (sp_asn sec) Hl). split.
      + intros [(m & key & M & K1 & K2 & K3 & K4) Ht] [|k] Hk.
        * exists sec, g, m, key. cbn [nth_error digest_for_hop_rec]. auto 10.
        * cbn [List.length] in Hk. destruct (Ht k ltac:(lia)) as (sec' & sg & m' & key' & H).
          exists sec', sg, m', key'. cbn [nth_error digest_for_hop_rec]. exact H.
      + intros H. split.
        * destruct (H 0%nat ltac:(cbn; lia)) as (sec' & sg & m & key & H1 & H2 & H3 & H4).
          cbn [nth_error digest_for_hop_rec] in H1, H2, H3. injection H1 as <-. injection H2 as <-.
          exists m, key. auto.
        * intros k Hk. destruct (H (S k) ltac:(cbn; lia)) as (sec' & sg & m & key & H1).
          exists sec', sg, m, key. exact H1.
  Qed.

  (* ---- the function as a whole ------------------------------------------------ *)
  Definition preconds (d : bgpsec_c) : Prop :=
    b_path d <> [] /\ b_sigs d <> [] /\ b_path_len d = b_sigs_len d /\
    b_alg d = ALGORITHM_SUITE_1 /\
    (n_afi (b_nlri d) = BGPSEC_IPV4 \/ n_afi (b_nlri d) = BGPSEC_IPV6).

  Definition last_sig_len (d : bgpsec_c) : Z :=
    match b_sigs d with [] => 0 | g :: rest => last_len g rest end.

  Lemma validate_pre by_asn d t : validate_gen by_asn d t = Some BGPSEC_VALID -> preconds d.
  Proof.
    unfold Validate.validate_gen, preconds.
    destruct (b_path d) as [|sec secs]; [discriminate|].
    destruct (b_sigs d) as [|g rest]; [discriminate|].
    destruct (Z.eqb_spec (b_path_len d) (b_sigs_len d)) as [E1|E1]; cbn [negb]; [|discriminate].
    unfold has_algorithm_suite.
    destruct (Z.eqb_spec (b_alg d) ALGORITHM_SUITE_1) as [E2|E2]; cbn [negb]; [|discriminate].
    destruct (Z.eqb_spec (n_afi (b_nlri d)) BGPSEC_IPV4) as [E3|E3]; cbn [negb andb].
    - intros _. repeat split; auto; discriminate.
    - destruct (Z.eqb_spec (n_afi (b_nlri d)) BGPSEC_IPV6) as [E4|E4]; cbn [negb]; [|discriminate].
      intros _. repeat split; auto; discriminate.
  Qed.

  Lemma validate_after_pre by_asn d t : preconds d ->
    validate_gen by_asn d t =
    let rk := check_router_keys (b_sigs d) t in
    if negb (rk =? BGPSEC_SUCCESS) then Some rk
    else do s <- aligned_stream d VALIDATION; vloop_gen by_asn t (b_alg d) s (b_sigs d) (b_path d) 0.
  Proof.
    intros (Hp & Hs & Hc & Ha & Hf). unfold Validate.validate_gen.
    destruct (b_path d) as [|sec secs]; [congruence|].
    destruct (b_sigs d) as [|g rest]; [congruence|].
    rewrite Hc, Z.eqb_refl. cbn [negb]. unfold has_algorithm_suite. rewrite Ha, Z.eqb_refl. cbn [negb].
    destruct Hf as [-> | ->]; reflexivity.
  Qed.

  Lemma hops_have_keys as_ok t d : forall sigs secs tk,
    hops_ok as_ok t d tk secs sigs -> Forall (fun g => search_by_ski t (sg_ski g) <> []) sigs.
  Proof.
    induction sigs as [|g rest IH]; intros secs tk H; [constructor|].
    destruct secs as [|sec secs]; [destruct H|]. cbn [hops_ok] in H.
    destruct H as [(m & key & _ & K1 & K2 & _) Ht]. constructor; [|eapply IH; exact Ht].
    apply search_nonempty. exists key. auto.
  Qed.

  (* The decision, with the one side condition the loop's exit test needs: after the last
     Signature Segment, offset must have passed the end of the stream.  For both variants of the
     key selection at once. *)
  Lemma validate_gen_decision by_asn d t :
    wf_data d -> counts_ok d -> total_bytes d VALIDATION < 65536 ->
    (validate_gen by_asn d t = Some BGPSEC_VALID <->
     preconds d /\ path_valid_gen sha256 sig_ok (as_ok by_asn) t (to_update d) /\
     last_sig_len d + 13 > nlri_byte_len d)
    /\
    (preconds d -> path_valid_gen sha256 sig_ok (as_ok by_asn) t (to_update d) ->
     last_sig_len d + 13 <= nlri_byte_len d -> validate_gen by_asn d t = None).
  Proof.
    intros Wf Hc Hsmall.
    assert (Main : preconds d ->
      (validate_gen by_asn d t = Some BGPSEC_VALID <->
       path_valid_gen sha256 sig_ok (as_ok by_asn) t (to_update d) /\ last_sig_len d + 13 > nlri_byte_len d)
      /\ (path_valid_gen sha256 sig_ok (as_ok by_asn) t (to_update d) ->
          last_sig_len d + 13 <= nlri_byte_len d -> validate_gen by_asn d t = None)).
    { intros Hpre. rewrite (validate_after_pre by_asn d t Hpre).
      destruct Hpre as (Hp & Hs & Hcnt & Ha & Hf).
      assert (Hl : length (b_path d) = length (b_sigs d)) by (destruct Hc as (C1 & C2 & C3 & C4); lia).
      unfold path_valid_gen, hop_valid_gen, last_sig_len, digest_for_hop, to_update.
      cbn [u_target u_secs u_sigs u_alg u_afi u_safi u_nlri].
      destruct (b_sigs d) as [|g rest] eqn:Es; [congruence|].
      assert (Ht : tmp_sig_of d VALIDATION = Some rest) by (cbn; rewrite Es; reflexivity).
      destruct (aligned_stream_exact d VALIDATION rest Wf Hc Ht
                                     ltac:(cbn in Hl; lia) Hsmall)
        as (s & nb & Hn & Hal & Hb & Hsz & Hreq & Hlen).
      destruct (nlri_read_ok d Wf) as (nb' & Hn' & Hnbl & Henc & _).
      assert (nb' = nb) by congruence. subst nb'.
      assert (Wg : Forall wf_sgs (g :: rest))
        by (destruct Wf as (_ & _ & Wg & _); rewrite Es in Wg; exact Wg).
      assert (Hat : at_hop s d nb [] (b_target_as d) (b_path d) rest) by exact Hb.
      destruct (vloop_spec by_asn t d s nb Hlen ltac:(lia) Henc Hnbl rest g (b_path d) [] (b_target_as d) Wg
                           ltac:(cbn in Hl; lia) Hat) as [V1 V2].
      cbn [List.length Z.of_nat] in V1, V2.
      pose proof (hops_ok_iff (as_ok by_asn) t d (g :: rest) (b_path d) (b_target_as d) Hl) as HI.
      assert (Hiff : hops_ok (as_ok by_asn) t d (b_target_as d) (b_path d) (g :: rest) <->
                     (b_path d <> [] /\ length (b_path d) = length (g :: rest) /\
                      forall k, (k < length (g :: rest))%nat ->
                        exists sec sg m key,
                          nth_error (b_path d) k = Some sec /\ nth_error (g :: rest) k = Some sg /\
                          digest_for_hop_rec k (b_target_as d) (b_path d) (g :: rest)
                                             (b_alg d) (b_afi d) (b_safi d) (to_nlri d) = Some m /\
                          In key t /\ rk_ski key = sg_ski sg /\ as_ok by_asn key sec /\
                          sig_ok (rk_spki key) (sha256 m) (sg_sig sg) = true)).
      { rewrite HI. split; [intros H; auto|intros (_ & _ & H); exact H]. }
      destruct (check_router_keys_cases (g :: rest) t) as [[R1 R2]|[R1 R2]]; rewrite R1.
      - cbn [negb Z.eqb BGPSEC_SUCCESS]. rewrite <- Hiff. rewrite Hal. cbn [obind]. rewrite Ha.
        split; [exact V1|exact V2].
      - cbn [negb Z.eqb BGPSEC_SUCCESS BGPSEC_ROUTER_KEY_NOT_FOUND]. rewrite <- Hiff.
        assert (No : ~ hops_ok (as_ok by_asn) t d (b_target_as d) (b_path d) (g :: rest)).
        { intros H. apply hops_have_keys in H. apply Exists_exists in R2 as (x & X1 & X2).
          rewrite Forall_forall in H. exact (H x X1 X2). }
        split; [split; [discriminate|tauto]|tauto]. }
    split.
    - split.
      + intros H. pose proof (validate_pre by_asn d t H) as Hpre. split; [exact Hpre|].
        apply (proj1 (Main Hpre)). exact H.
      + intros (Hpre & H). apply (proj1 (Main Hpre)). exact H.
    - intros Hpre. apply (proj2 (Main Hpre)).
  Qed.

  (* /repo as it stands *)
  Lemma validate_decision d t :
    wf_data d -> counts_ok d -> total_bytes d VALIDATION < 65536 ->
    (validate d t = Some BGPSEC_VALID <->
     preconds d /\ path_valid_any_as sha256 sig_ok t (to_update d) /\
     last_sig_len d + 13 > nlri_byte_len d)
    /\
    (preconds d -> path_valid_any_as sha256 sig_ok t (to_update d) ->
     last_sig_len d + 13 <= nlri_byte_len d -> validate d t = None).
  Proof. exact (validate_gen_decision false d t). Qed.

  (* C11_codes: the precondition failures, in the order the C tests them *)
  Lemma validate_gen_codes by_asn d t :
    (b_path d = [] \/ b_sigs d = [] -> validate_gen by_asn d t = Some BGPSEC_INVALID_ARGUMENTS) /\
    (b_path d <> [] -> b_sigs d <> [] -> b_path_len d <> b_sigs_len d ->
     validate_gen by_asn d t = Some BGPSEC_WRONG_SEGMENT_COUNT) /\
    (b_path d <> [] -> b_sigs d <> [] -> b_path_len d = b_sigs_len d ->
     b_alg d <> ALGORITHM_SUITE_1 -> validate_gen by_asn d t = Some BGPSEC_UNSUPPORTED_ALGORITHM_SUITE) /\
    (b_path d <> [] -> b_sigs d <> [] -> b_path_len d = b_sigs_len d -> b_alg d = ALGORITHM_SUITE_1 ->
     n_afi (b_nlri d) <> BGPSEC_IPV4 -> n_afi (b_nlri d) <> BGPSEC_IPV6 ->
     validate_gen by_asn d t = Some BGPSEC_UNSUPPORTED_AFI) /\
    (preconds d -> (exists g, In g (b_sigs d) /\ forall key, In key t -> rk_ski key <> sg_ski g) ->
     validate_gen by_asn d t = Some BGPSEC_ROUTER_KEY_NOT_FOUND).
  Proof.
    split; [|split; [|split; [|split]]].
    - unfold Validate.validate_gen. intros [-> | ->]; [reflexivity|]. destruct (b_path d); reflexivity.
    - intros Hp Hs Hc. unfold Validate.validate_gen.
      destruct (b_path d); [congruence|]. destruct (b_sigs d); [congruence|].
      destruct (Z.eqb_spec (b_path_len d) (b_sigs_len d)); [congruence|reflexivity].
    - intros Hp Hs Hc Ha. unfold Validate.validate_gen, has_algorithm_suite.
      destruct (b_path d); [congruence|]. destruct (b_sigs d); [congruence|].
      rewrite Hc, Z.eqb_refl. cbn [negb].
      destruct (Z.eqb_spec (b_alg d) ALGORITHM_SUITE_1); [congruence|reflexivity].
    - intros Hp Hs Hc Ha H4 H6. unfold Validate.validate_gen, has_algorithm_suite.
      destruct (b_path d); [congruence|]. destruct (b_sigs d); [congruence|].
      rewrite Hc, Ha, !Z.eqb_refl. cbn [negb].
      destruct (Z.eqb_spec (n_afi (b_nlri d)) BGPSEC_IPV4); [congruence|].
      destruct (Z.eqb_spec (n_afi (b_nlri d)) BGPSEC_IPV6); [congruence|reflexivity].
    - intros Hpre (g & Hin & Hno). rewrite (validate_after_pre by_asn d t Hpre).
      destruct (check_router_keys_cases (b_sigs d) t) as [[R1 R2]|[R1 R2]]; rewrite R1.
      + exfalso. rewrite Forall_forall in R2. apply (R2 g Hin).
        destruct (search_by_ski t (sg_ski g)) as [|key r] eqn:E; [reflexivity|].
        exfalso. assert (Hk : In key (search_by_ski t (sg_ski g))) by (rewrite E; now left).
        apply search_by_ski_In in Hk. exact (Hno key (proj1 Hk) (proj2 Hk)).
      + reflexivity.
  Qed.

  (* Where no router key with the SKI of some Signature Segment is registered under another
     AS than that of the corresponding Secure_Path Segment, looking at the SKI only is enough. *)
  Definition no_foreign_keys (t : list router_key) (u : update) : Prop :=
    forall k sec sg key, nth_error (u_secs u) k = Some sec -> nth_error (u_sigs u) k = Some sg ->
                         In key t -> rk_ski key = sg_ski sg -> rk_asn key = sp_asn sec.

  Lemma path_valid_any_as_of t u : path_valid sha256 sig_ok t u -> path_valid_any_as sha256 sig_ok t u.
  Proof.
    intros (H1 & H2 & H3). split; [exact H1|]. split; [exact H2|]. intros k Hk.
    destruct (H3 k Hk) as (sec & sg & m & key & A & B & C & D & E & _ & F).
    exists sec, sg, m, key. repeat split; assumption.
  Qed.

  Lemma path_valid_of_any_as t u : no_foreign_keys t u ->
    path_valid_any_as sha256 sig_ok t u -> path_valid sha256 sig_ok t u.
  Proof.
    intros Hno (H1 & H2 & H3). split; [exact H1|]. split; [exact H2|]. intros k Hk.
    destruct (H3 k Hk) as (sec & sg & m & key & A & B & C & D & E & _ & F).
    exists sec, sg, m, key. pose proof (Hno k sec sg key A B D E). repeat split; assumption.
  Qed.

  (* ---- "changing any signed bit makes the answer not VALID" -----------------------
     C11_inj says the changed field changes the hashed octets.  That this changes the verdict
     is not a theorem about the code: it is SHA-256 collision resistance and ECDSA
     unforgeability, idealised here as two named hypotheses. *)
  Hypothesis sha256_collision_free : forall m m', sha256 m = sha256 m' -> m = m'.
  Hypothesis signature_binds_hash : forall spki spki' h h' sg,
    sig_ok spki h sg = true -> sig_ok spki' h' sg = true -> h = h'.

  Lemma wf_update_of_data d : wf_data d -> wf_update (to_update d).
  Proof.
    intros (W1 & W2 & W3 & W4 & W5 & W6 & W7 & W8). unfold wf_update, to_update, to_nlri, wf_nlri.
    unfold byte_ok in *.
    cbn [u_target u_secs u_sigs u_alg u_afi u_safi u_nlri nl_len nl_prefix].
    repeat split; try assumption; try lia.
    rewrite firstn_length. unfold nlri_byte_len, nlri_octets in *.
    assert (0 <= (n_len (b_nlri d) + 7) / 8) by (apply Z.div_pos; lia). lia.
  Qed.

  Lemma bitflip d d' t :
    wf_data d -> wf_data d' -> counts_ok d -> counts_ok d' ->
    total_bytes d VALIDATION < 65536 -> total_bytes d' VALIDATION < 65536 ->
    length (b_path d) = length (b_path d') ->
    option_map sg_sig (hd_error (b_sigs d)) = option_map sg_sig (hd_error (b_sigs d')) ->
    validate d t = Some BGPSEC_VALID -> validate d' t = Some BGPSEC_VALID ->
    b_target_as d = b_target_as d' /\ b_path d = b_path d' /\ tl (b_sigs d) = tl (b_sigs d') /\
    b_alg d = b_alg d' /\ b_afi d = b_afi d' /\ b_safi d = b_safi d' /\
    to_nlri d = to_nlri d'.
  Proof.
    intros Wf Wf' Hc Hc' Hs Hs' Hlen Hsig V V'.
    apply (proj1 (validate_decision d t Wf Hc Hs)) in V.
    destruct V as ((_ & Hne & _) & (_ & _ & V) & _).
    apply (proj1 (validate_decision d' t Wf' Hc' Hs')) in V'.
    destruct V' as ((_ & Hne' & _) & (_ & _ & V') & _).
    cbn [to_update u_sigs] in V, V'.
    destruct (b_sigs d) as [|g rest] eqn:Es; [congruence|].
    destruct (b_sigs d') as [|g' rest'] eqn:Es'; [congruence|].
    destruct (V 0%nat ltac:(cbn; lia)) as (sec & sg & m & key & _ & A & B & _ & _ & _ & C).
    destruct (V' 0%nat ltac:(cbn; lia)) as (sec' & sg' & m' & key' & _ & A' & B' & _ & _ & _ & C').
    cbn [to_update u_sigs] in A, A'. rewrite Es in A. rewrite Es' in A'.
    cbn [nth_error] in A, A'. injection A as <-. injection A' as <-.
    cbn [hd_error option_map] in Hsig. injection Hsig as Hsig. rewrite <- Hsig in C'.
    pose proof (signature_binds_hash _ _ _ _ _ C C') as Hh.
    apply sha256_collision_free in Hh. subst m'.
    pose proof (digest0_inj (to_update d) (to_update d') m Hlen
                            (wf_update_of_data d Wf) (wf_update_of_data d' Wf') B B') as H.
    cbn [to_update u_target u_secs u_sigs u_alg u_afi u_safi u_nlri] in H.
    rewrite Es, Es' in H. exact H.
  Qed.
End Proofs.
