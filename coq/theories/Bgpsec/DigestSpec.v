(* DigestSpec.v - RFC 8205 sections 4.2 and 5.2, written from the RFC, executable.

   The octet sequence that is hashed and signed when a BGPsec speaker adds its
   Secure_Path Segment N and Signature Segment N (RFC 8205, section 4.2):

       Target AS Number                                   (4 octets)
       Signature Segment   : N-1      Secure_Path Segment : N
       Signature Segment   : N-2      Secure_Path Segment : N-1
          ...
       Signature Segment   : 1        Secure_Path Segment : 2
                                      Secure_Path Segment : 1
       Algorithm Suite Identifier                          (1 octet)
       AFI (2 octets)   SAFI (1 octet)   NLRI (length octet + prefix octets)

   Secure_Path Segment = pCount (1) | Flags (1) | AS Number (4)        (section 3.1)
   Signature Segment   = SKI (20) | Signature Length (2) | Signature   (section 3.2)

   Validation (section 5.2) recomputes, for every Signature Segment i, the same
   sequence with N := i and Target AS := the AS of Secure_Path Segment i+1 (or the
   validator's own AS for the most recent segment).

   Lists are in wire order: most recently added segment first.  Nothing in this
   file mentions offsets, streams or sizes: everything is recursion on the two
   segment lists.  An octet is a [Z]; field ranges are stated by [wf_update].     *)
From Coq Require Import ZArith List Bool Lia.
Import ListNotations.
Local Open Scope Z_scope.

(* network byte order *)
Definition be16 (v : Z) : list Z := [(v / 256) mod 256; v mod 256].
Definition be32 (v : Z) : list Z :=
  [(v / 16777216) mod 256; (v / 65536) mod 256; (v / 256) mod 256; v mod 256].

Record sps := mk_sps { sp_pcount : Z; sp_flags : Z; sp_asn : Z }.   (* Secure_Path Segment *)
Record sgs := mk_sgs { sg_ski : list Z; sg_sig : list Z }.          (* Signature Segment   *)
Record nlri := mk_nlri { nl_len : Z; nl_prefix : list Z }.          (* prefix length in bits, prefix octets *)

Definition enc_sps (s : sps) : list Z := [sp_pcount s; sp_flags s] ++ be32 (sp_asn s).
Definition enc_sgs (g : sgs) : list Z :=
  sg_ski g ++ be16 (Z.of_nat (length (sg_sig g))) ++ sg_sig g.
Definition enc_nlri (n : nlri) : list Z := nl_len n :: nl_prefix n.

(* [secs] = Secure_Path Segments N .. 1, [sigs] = Signature Segments N-1 .. 1.
   Defined exactly for the shapes the RFC draws: one more Secure_Path Segment than
   Signature Segments. *)
Fixpoint enc_segments (secs : list sps) (sigs : list sgs) : option (list Z) :=
  match secs with
  | [] => None
  | s :: secs' =>
      match sigs with
      | [] => match secs' with [] => Some (enc_sps s) | _ :: _ => None end
      | g :: sigs' =>
          match enc_segments secs' sigs' with
          | Some r => Some (enc_sgs g ++ enc_sps s ++ r)
          | None => None
          end
      end
  end.

Definition message (target : Z) (secs : list sps) (sigs : list sgs)
           (alg afi safi : Z) (n : nlri) : option (list Z) :=
  match enc_segments secs sigs with
  | Some segs => Some (be32 target ++ segs ++ [alg] ++ be16 afi ++ [safi] ++ enc_nlri n)
  | None => None
  end.

(* A received update: [u_secs] and [u_sigs] have the same length N; element 0 is the
   most recent hop.  [u_target] is the AS the update was sent to (the validator). *)
Record update := mk_update {
  u_target : Z; u_secs : list sps; u_sigs : list sgs;
  u_alg : Z; u_afi : Z; u_safi : Z; u_nlri : nlri }.

(* Section 5.2: the octets covered by the signature of the k-th most recent hop.
   Hop k was sent to the AS of hop k-1; its own Signature Segment is not part of
   what it signed; the segments added later (indices < k) are not covered. *)
Fixpoint digest_for_hop_rec (k : nat) (target : Z) (secs : list sps) (sigs : list sgs)
         (alg afi safi : Z) (n : nlri) : option (list Z) :=
  match k with
  | O => match sigs with
         | _ :: older => message target secs older alg afi safi n
         | [] => None
         end
  | S k' => match secs, sigs with
            | s :: secs', _ :: sigs' => digest_for_hop_rec k' (sp_asn s) secs' sigs' alg afi safi n
            | _, _ => None
            end
  end.

Definition digest_for_hop (k : nat) (u : update) : option (list Z) :=
  digest_for_hop_rec k (u_target u) (u_secs u) (u_sigs u) (u_alg u) (u_afi u) (u_safi u) (u_nlri u).

(* Section 4.2: what a speaker signs when it forwards to [u_target]: its own new
   Secure_Path Segment is already the head of [u_secs]; [u_sigs] are the N-1 existing
   Signature Segments. *)
Definition signing_digest (u : update) : option (list Z) :=
  message (u_target u) (u_secs u) (u_sigs u) (u_alg u) (u_afi u) (u_safi u) (u_nlri u).

(* ---- field ranges --------------------------------------------------------- *)
Definition byte_ok (b : Z) : Prop := 0 <= b < 256.
Definition wf_sps (s : sps) : Prop :=
  byte_ok (sp_pcount s) /\ byte_ok (sp_flags s) /\ 0 <= sp_asn s < 4294967296.
Definition wf_sgs (g : sgs) : Prop :=
  length (sg_ski g) = 20%nat /\ Z.of_nat (length (sg_sig g)) < 65536.
Definition nlri_octets (len : Z) : Z := (len + 7) / 8.
Definition wf_nlri (n : nlri) : Prop :=
  0 <= nl_len n < 256 /\ Z.of_nat (length (nl_prefix n)) = nlri_octets (nl_len n).
Definition wf_update (u : update) : Prop :=
  0 <= u_target u < 4294967296 /\ Forall wf_sps (u_secs u) /\ Forall wf_sgs (u_sigs u) /\
  byte_ok (u_alg u) /\ 0 <= u_afi u < 65536 /\ byte_ok (u_safi u) /\ wf_nlri (u_nlri u).

(* ---- what "VALID" means (RFC 8205 section 5.2, RFC 8208) --------------------
   [sig_ok spki hash signature] stands for: the SubjectPublicKeyInfo loads as a P-256
   key and the ECDSA signature verifies.  A router key is registered for one AS. *)
Record router_key := mk_rk { rk_ski : list Z; rk_asn : Z; rk_spki : list Z }.

Section ValidSpec.
  Variable sha256 : list Z -> list Z.
  Variable sig_ok : list Z -> list Z -> list Z -> bool.

  (* hop k verifies under a key of the table that carries its SKI and that [as_ok] accepts
     for its Secure_Path Segment *)
  Definition hop_valid_gen (as_ok : router_key -> sps -> Prop)
             (table : list router_key) (u : update) (k : nat) : Prop :=
    exists sec sg m key,
      nth_error (u_secs u) k = Some sec /\ nth_error (u_sigs u) k = Some sg /\
      digest_for_hop k u = Some m /\
      In key table /\ rk_ski key = sg_ski sg /\ as_ok key sec /\
      sig_ok (rk_spki key) (sha256 m) (sg_sig sg) = true.

  (* the property: the key must be registered for the AS of the Secure_Path Segment *)
  Definition hop_valid := hop_valid_gen (fun key sec => rk_asn key = sp_asn sec).
  (* the same with the AS of the key not looked at (what /repo does today) *)
  Definition hop_valid_any_as := hop_valid_gen (fun _ _ => True).

  Definition path_valid_gen (as_ok : router_key -> sps -> Prop)
             (table : list router_key) (u : update) : Prop :=
    u_secs u <> [] /\ length (u_secs u) = length (u_sigs u) /\
    forall k, (k < length (u_sigs u))%nat -> hop_valid_gen as_ok table u k.

  Definition path_valid := path_valid_gen (fun key sec => rk_asn key = sp_asn sec).
  Definition path_valid_any_as := path_valid_gen (fun _ _ => True).
End ValidSpec.
