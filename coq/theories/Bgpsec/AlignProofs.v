(* AlignProofs.v - the stream code of bgpsec_utils.c writes exactly the RFC 8205 octets
   (C11_size / C12_size), and the offset arithmetic of the validation loop lands on the
   RFC digest of every hop (C11_layout); SIGNING mode gives the signing digest (C12_layout). *)
From RtrV Require Import Base.CSem Bgpsec.DigestSpec Bgpsec.Align Bgpsec.DigestProofs.
Local Open Scope Z_scope.
Local Notation length := List.length (only parsing).
Local Notation concat := List.concat (only parsing).

(* ---- integers ----------------------------------------------------------------- *)
Lemma wrapu8_small v : 0 <= v < 256 -> wrapu 8 v = v.
Proof. intros. unfold wrapu. apply Z.mod_small. change (2 ^ 8) with 256. lia. Qed.
Lemma wrapu16_small v : 0 <= v < 65536 -> wrapu 16 v = v.
Proof. intros. unfold wrapu. apply Z.mod_small. change (2 ^ 16) with 65536. lia. Qed.
Lemma wrapu32_small v : 0 <= v < 4294967296 -> wrapu 32 v = v.
Proof. intros. unfold wrapu. apply Z.mod_small. change (2 ^ 32) with 4294967296. lia. Qed.
Lemma wraps32_small v : 0 <= v < 2147483648 -> wraps 32 v = v.
Proof.
  intros. unfold wraps. change (2 ^ 32) with 4294967296. change (2 ^ (32 - 1)) with 2147483648.
  rewrite Z.mod_small by lia. destruct (v <? 2147483648) eqn:E; [reflexivity|].
  apply Z.ltb_ge in E. lia.
Qed.
Lemma wrapu16_lt v : 0 <= wrapu 16 v < 65536.
Proof. unfold wrapu. change (2 ^ 16) with 65536. apply Z.mod_pos_bound. lia. Qed.
Lemma wrapu16_le v : 0 <= v -> wrapu 16 v <= v.
Proof. intros. unfold wrapu. apply Z.mod_le; [assumption|]. change (2 ^ 16) with 65536. lia. Qed.

(* ---- lists -------------------------------------------------------------------- *)
Lemma firstn_len_app {A} (a b : list A) : firstn (length a) (a ++ b) = a.
Proof. induction a; cbn; [now destruct b|now f_equal]. Qed.
Lemma skipn_len_app {A} (a b : list A) n : skipn (length a + n) (a ++ b) = skipn n b.
Proof. induction a; cbn; auto. Qed.
Lemma skipn_len_app0 {A} (a b : list A) : skipn (length a) (a ++ b) = b.
Proof. rewrite <- (Nat.add_0_r (length a)). now rewrite skipn_len_app. Qed.
Lemma skipn_repeat {A} (x : A) n k : skipn n (repeat x k) = repeat x (k - n).
Proof.
  revert k. induction n as [|n IH]; intros k; [now rewrite Nat.sub_0_r|].
  destruct k; [reflexivity|]. cbn. apply IH.
Qed.
Lemma repeat_0_nil {A} (x : A) n : n = 0%nat -> repeat x n = [].
Proof. intros ->. reflexivity. Qed.

(* ---- the stream ---------------------------------------------------------------- *)
Definition stream_ok (s : stream) (w : list Z) : Prop :=
  st_buf s = w ++ repeat 0 (Z.to_nat (st_size s) - length w) /\
  st_whead s = Z.of_nat (length w) /\ Z.of_nat (length w) <= st_size s /\ st_size s < 65536.

Lemma init_stream_ok size : stream_ok (init_stream size) [] /\ st_size (init_stream size) = wrapu 16 size.
Proof.
  unfold init_stream, stream_ok. cbn [st_buf st_whead st_size length app].
  pose proof (wrapu16_lt size). rewrite Nat.sub_0_r. repeat split; lia.
Qed.

Lemma write_stream_ok s w data : stream_ok s w ->
  Z.of_nat (length (w ++ data)) <= st_size s ->
  exists s', write_stream s data = Some s' /\ stream_ok s' (w ++ data) /\ st_size s' = st_size s.
Proof.
  intros (Hb & Hw & Hle & Hsz) Hroom. rewrite app_length, Nat2Z.inj_add in Hroom.
  unfold write_stream. rewrite Hw.
  destruct (Z.of_nat (length w) + Z.of_nat (length data) >? st_size s) eqn:E.
  { apply Z.gtb_lt in E. lia. }
  eexists. split; [reflexivity|]. split; [|reflexivity].
  unfold stream_ok. cbn [st_buf st_whead st_size].
  rewrite Hb at 1 2. rewrite Nat2Z.id, firstn_len_app.
  rewrite <- Nat2Z.inj_add, Nat2Z.id, skipn_len_app, skipn_repeat.
  rewrite <- app_assoc, app_length.
  repeat split.
  - do 3 f_equal. lia.
  - rewrite Nat2Z.inj_add. apply wrapu16_small. lia.
  - rewrite Nat2Z.inj_add. lia.
  - exact Hsz.
Qed.

Lemma write_stream_overflow s w data : stream_ok s w ->
  Z.of_nat (length (w ++ data)) > st_size s -> write_stream s data = None.
Proof.
  intros (Hb & Hw & Hle & Hsz) Hroom. rewrite app_length, Nat2Z.inj_add in Hroom.
  unfold write_stream. rewrite Hw.
  destruct (Z.of_nat (length w) + Z.of_nat (length data) >? st_size s) eqn:E; [reflexivity|].
  rewrite Z.gtb_ltb in E. apply Z.ltb_ge in E. lia.
Qed.

Lemma write_all_ok chunks : forall s w, stream_ok s w ->
  Z.of_nat (length (w ++ concat chunks)) <= st_size s ->
  exists s', write_all s chunks = Some s' /\ stream_ok s' (w ++ concat chunks) /\ st_size s' = st_size s.
Proof.
  induction chunks as [|c r IH]; intros s w Hok Hroom.
  - exists s. cbn. rewrite app_nil_r. auto.
  - cbn [concat] in *. rewrite app_assoc in Hroom.
    destruct (write_stream_ok s w c Hok) as (s1 & E1 & Hok1 & Hs1).
    { rewrite app_length in Hroom. rewrite Nat2Z.inj_add in Hroom. lia. }
    destruct (IH s1 (w ++ c) Hok1) as (s2 & E2 & Hok2 & Hs2); [rewrite Hs1; exact Hroom|].
    exists s2. cbn [write_all]. rewrite E1. cbn [obind]. rewrite E2, app_assoc.
    split; [reflexivity|]. split; [exact Hok2|congruence].
Qed.

Lemma write_all_overflow chunks : forall s w, stream_ok s w ->
  Z.of_nat (length (w ++ concat chunks)) > st_size s -> write_all s chunks = None.
Proof.
  induction chunks as [|c r IH]; intros s w Hok Hroom.
  - cbn in Hroom. rewrite app_nil_r in Hroom. destruct Hok as (_ & _ & ? & _). lia.
  - cbn [concat write_all] in *. rewrite app_assoc in Hroom.
    destruct (Z_le_gt_dec (Z.of_nat (length (w ++ c))) (st_size s)) as [Hfit|Hno].
    + destruct (write_stream_ok s w c Hok Hfit) as (s1 & E1 & Hok1 & Hs1).
      rewrite E1. cbn [obind]. apply (IH s1 (w ++ c) Hok1). rewrite Hs1. exact Hroom.
    + rewrite (write_stream_overflow s w c Hok Hno). reflexivity.
Qed.

Lemma write_all_app a : forall s b,
  write_all s (a ++ b) = do s' <- write_all s a; write_all s' b.
Proof.
  induction a as [|c a IH]; intros s b; [reflexivity|].
  cbn [app write_all]. destruct (write_stream s c); cbn [obind]; [apply IH|reflexivity].
Qed.

(* ---- align_byte_sequence as one list of writes ----------------------------------- *)
Fixpoint loop_chunks (secs : list sps) (tmp_sig : list sgs) : list (list Z) :=
  match secs with
  | [] => []
  | sec :: secs' =>
      (match tmp_sig with g :: _ => sig_chunks g | [] => [] end)
      ++ sec_chunks sec ++ loop_chunks secs' (tl tmp_sig)
  end.

Lemma align_loop_chunks secs : forall tmp s,
  align_loop secs tmp s = write_all s (loop_chunks secs tmp).
Proof.
  induction secs as [|sec secs IH]; intros tmp s; [reflexivity|].
  cbn [align_loop loop_chunks]. destruct tmp as [|g tmp]; cbn [tl app].
  - rewrite write_all_app. cbn [obind].
    destruct (write_all s (sec_chunks sec)); cbn [obind]; [apply IH|reflexivity].
  - rewrite write_all_app. destruct (write_all s (sig_chunks g)) as [s0|]; cbn [obind]; [|reflexivity].
    rewrite write_all_app. destruct (write_all s0 (sec_chunks sec)); cbn [obind]; [apply IH|reflexivity].
Qed.

Definition tmp_sig_of (d : bgpsec_c) (ty : align_type) : option (list sgs) :=
  match ty with
  | VALIDATION => match b_sigs d with [] => None | _ :: r => Some r end
  | SIGNING => Some (b_sigs d)
  end.

Definition trailer (d : bgpsec_c) (nb : list Z) : list Z :=
  [b_alg d] ++ be16 (b_afi d) ++ [b_safi d] ++ [n_len (b_nlri d)] ++ nb.

Definition all_chunks (d : bgpsec_c) (tmp : list sgs) (nb : list Z) : list (list Z) :=
  [be32 (b_target_as d)] ++ loop_chunks (b_path d) tmp
  ++ [[b_alg d]; be16 (b_afi d); [b_safi d]; [n_len (b_nlri d)]; nb].

Definition aligned_bytes (d : bgpsec_c) (tmp : list sgs) (nb : list Z) : list Z :=
  be32 (b_target_as d) ++ concat (loop_chunks (b_path d) tmp) ++ trailer d nb.

Lemma concat_all_chunks d tmp nb : concat (all_chunks d tmp nb) = aligned_bytes d tmp nb.
Proof.
  unfold all_chunks, aligned_bytes, trailer. rewrite !concat_app. cbn [List.concat app].
  rewrite !app_nil_r. reflexivity.
Qed.

Lemma align_as_chunks d s ty tmp nb :
  tmp_sig_of d ty = Some tmp -> nlri_read d = Some nb ->
  align_byte_sequence d s ty = write_all s (all_chunks d tmp nb).
Proof.
  intros Ht Hn. unfold align_byte_sequence, all_chunks. fold (tmp_sig_of d ty). rewrite Ht, Hn.
  cbn [app write_all]. destruct (write_stream s (be32 (b_target_as d))) as [s0|]; cbn [obind]; [|reflexivity].
  rewrite align_loop_chunks, write_all_app.
  destruct (write_all s0 (loop_chunks (b_path d) tmp)) as [s1|]; cbn [obind]; [|reflexivity].
  cbn [write_all].
  destruct (write_stream s1 [b_alg d]) as [s2|]; cbn [obind]; [|reflexivity].
  destruct (write_stream s2 (be16 (b_afi d))) as [s3|]; cbn [obind]; [|reflexivity].
  destruct (write_stream s3 [b_safi d]) as [s4|]; cbn [obind]; [|reflexivity].
  destruct (write_stream s4 [n_len (b_nlri d)]) as [s5|]; cbn [obind]; [|reflexivity].
  destruct (write_stream s5 nb); reflexivity.
Qed.

Lemma align_null_sigs d s : b_sigs d = [] -> align_byte_sequence d s VALIDATION = None.
Proof.
  intros E. unfold align_byte_sequence. rewrite E.
  destruct (write_stream s (be32 (b_target_as d))); reflexivity.
Qed.

(* ---- sizes --------------------------------------------------------------------- *)
Lemma sigs_total_nonneg l : 0 <= sigs_total l.
Proof. induction l as [|g r IH]; cbn [sigs_total]; unfold sig_len; lia. Qed.

Lemma sig_segs_sum_exact l : forall acc, 0 <= acc -> acc + sigs_total l < 4294967296 ->
  sig_segs_sum l acc = acc + sigs_total l.
Proof.
  induction l as [|g r IH]; intros acc Ha Hb; cbn [sig_segs_sum sigs_total] in *; [lia|].
  pose proof (sigs_total_nonneg r). unfold c_SKI_SIZE.
  assert (0 <= sig_len g) by (unfold sig_len; lia).
  rewrite wrapu32_small by lia. rewrite IH by lia. lia.
Qed.

Lemma concat_sec_chunks sec : concat (sec_chunks sec) = enc_sps sec.
Proof. unfold sec_chunks, enc_sps. cbn [List.concat app]. now rewrite app_nil_r. Qed.
Lemma concat_sig_chunks g : concat (sig_chunks g) = enc_sgs g.
Proof. unfold sig_chunks, enc_sgs, sig_len. cbn [List.concat]. now rewrite app_nil_r. Qed.
Lemma enc_sgs_length g : wf_sgs g -> Z.of_nat (length (enc_sgs g)) = 22 + sig_len g.
Proof.
  intros [Hk _]. unfold enc_sgs, sig_len. rewrite !app_length, be16_length, Hk. lia.
Qed.

Lemma length_loop_chunks secs : forall tmp,
  Forall wf_sgs tmp -> (length tmp <= length secs)%nat ->
  Z.of_nat (length (concat (loop_chunks secs tmp))) = 6 * Z.of_nat (length secs) + sigs_total tmp.
Proof.
  induction secs as [|sec secs IH]; intros tmp Wf Hl.
  - destruct tmp; [reflexivity|cbn in Hl; lia].
  - cbn [loop_chunks]. rewrite !concat_app, !app_length, !Nat2Z.inj_add, concat_sec_chunks, enc_sps_length.
    destruct tmp as [|g tmp].
    + cbn [tl]. rewrite IH; [|constructor|cbn; lia]. cbn [List.length List.concat sigs_total]. lia.
    + inversion Wf as [|? ? Hg Wf']; subst. cbn [tl]. cbn [List.length] in Hl.
      rewrite IH; [|exact Wf'|lia].
      rewrite concat_sig_chunks, (enc_sgs_length g Hg). cbn [sigs_total List.length]. lia.
Qed.

Lemma nlri_read_ok d : wf_data d ->
  exists nb, nlri_read d = Some nb /\ Z.of_nat (length nb) = nlri_byte_len d /\
             enc_nlri (to_nlri d) = n_len (b_nlri d) :: nb /\ 0 <= nlri_byte_len d <= 32.
Proof.
  intros (_ & _ & _ & _ & _ & _ & Hn & Hb). unfold nlri_read.
  assert (R : 0 <= nlri_byte_len d <= 32).
  { unfold nlri_byte_len. split; [apply Z.div_pos; lia|].
    apply Z.lt_succ_r. apply Z.div_lt_upper_bound; lia. }
  destruct (Z.to_nat (nlri_byte_len d) <=? length (n_bytes (b_nlri d)))%nat eqn:E.
  - eexists. split; [reflexivity|]. apply Nat.leb_le in E. repeat split; try lia.
    rewrite firstn_length, Nat.min_l by exact E. lia.
  - apply Nat.leb_gt in E. lia.
Qed.

Lemma total_bytes_eq d ty tmp nb :
  wf_data d -> tmp_sig_of d ty = Some tmp -> (length tmp <= length (b_path d))%nat ->
  Z.of_nat (length nb) = nlri_byte_len d ->
  Z.of_nat (length (aligned_bytes d tmp nb)) = total_bytes d ty.
Proof.
  intros Wf Ht Hl Hnb. unfold aligned_bytes, trailer, total_bytes.
  assert (Wt : Forall wf_sgs tmp).
  { destruct Wf as (_ & _ & Wg & _). destruct ty; cbn in Ht.
    - destruct (b_sigs d); [discriminate|]. injection Ht as <-. now inversion Wg.
    - injection Ht as <-. exact Wg. }
  rewrite !app_length, !Nat2Z.inj_add, (length_loop_chunks _ _ Wt Hl), be32_length, be16_length.
  cbn [length]. rewrite Hnb.
  destruct ty; cbn in Ht.
  - destruct (b_sigs d); [discriminate|]. injection Ht as <-. cbn [tl]. lia.
  - injection Ht as <-. lia.
Qed.

Lemma req_stream_size_eq d ty tmp :
  wf_data d -> counts_ok d -> tmp_sig_of d ty = Some tmp ->
  total_bytes d ty < 2147483648 ->
  req_stream_size d ty = total_bytes d ty.
Proof.
  intros Wf (Hp & Hp8 & _) Ht Hsmall.
  destruct (nlri_read_ok d Wf) as (nb & _ & _ & _ & Hr).
  unfold req_stream_size, total_bytes in *. unfold nlri_byte_len in *. rewrite Hp.
  assert (G : get_sig_seg_size (b_sigs d) ty
              = sigs_total (match ty with VALIDATION => tl (b_sigs d) | SIGNING => b_sigs d end)
              /\ 0 <= sigs_total (match ty with VALIDATION => tl (b_sigs d) | SIGNING => b_sigs d end)).
  { split; [|apply sigs_total_nonneg].
    revert Hsmall. unfold get_sig_seg_size.
    destruct ty; destruct (b_sigs d) as [|g r]; cbn [tl]; intros Hsmall; try reflexivity.
    - pose proof (sigs_total_nonneg r).
      rewrite sig_segs_sum_exact by lia. apply wraps32_small. lia.
    - pose proof (sigs_total_nonneg (g :: r)).
      rewrite sig_segs_sum_exact by lia. apply wraps32_small. lia. }
  destruct G as [G HT]. rewrite G. unfold SECURE_PATH_SEG_SIZE.
  rewrite (wrapu32_small (sigs_total _)) by lia. rewrite wrapu8_small by lia.
  rewrite wrapu32_small by lia. lia.
Qed.

(* C11_size / C12_size: the stream is allocated with exactly the number of bytes that
   align_byte_sequence writes, every byte of it is written, and they are [aligned_bytes]. *)
Lemma aligned_stream_exact d ty tmp :
  wf_data d -> counts_ok d -> tmp_sig_of d ty = Some tmp -> (length tmp <= length (b_path d))%nat ->
  total_bytes d ty < 65536 ->
  exists s nb, nlri_read d = Some nb /\ aligned_stream d ty = Some s /\
               st_buf s = aligned_bytes d tmp nb /\
               st_size s = req_stream_size d ty /\ req_stream_size d ty = total_bytes d ty /\
               Z.of_nat (length (st_buf s)) = st_size s.
Proof.
  intros Wf Hc Ht Hl Hsmall.
  destruct (nlri_read_ok d Wf) as (nb & Hn & Hnb & _ & _).
  pose proof (req_stream_size_eq d ty tmp Wf Hc Ht ltac:(lia)) as Hreq.
  pose proof (total_bytes_eq d ty tmp nb Wf Ht Hl Hnb) as Hlen.
  assert (Hpos : 0 <= total_bytes d ty) by lia.
  assert (E32 : wrapu 32 (req_stream_size d ty) = total_bytes d ty)
    by (rewrite Hreq; apply wrapu32_small; lia).
  unfold aligned_stream. rewrite (align_as_chunks d _ ty tmp nb Ht Hn), E32.
  destruct (init_stream_ok (total_bytes d ty)) as [Hok Hsz].
  rewrite wrapu16_small in Hsz by lia.
  destruct (write_all_ok (all_chunks d tmp nb) _ [] Hok) as (s & E & (Hb & _ & _ & _) & Hs).
  { cbn [app]. rewrite concat_all_chunks, Hsz. lia. }
  exists s, nb. cbn [app] in Hb. rewrite concat_all_chunks in Hb.
  rewrite Hs, Hsz in Hb.
  replace (Z.to_nat (total_bytes d ty) - length (aligned_bytes d tmp nb))%nat with 0%nat in Hb by lia.
  cbn [repeat] in Hb. rewrite app_nil_r in Hb.
  split; [exact Hn|]. split; [exact E|]. split; [exact Hb|].
  split; [congruence|]. split; [exact Hreq|]. rewrite Hb, Hs, Hsz. exact Hlen.
Qed.

(* When the total does not fit 16 bits, init_stream's uint16_t parameter truncates the
   allocation and align_byte_sequence copies past its end. *)
Lemma aligned_stream_overflow d ty tmp :
  wf_data d -> counts_ok d -> tmp_sig_of d ty = Some tmp -> (length tmp <= length (b_path d))%nat ->
  65536 <= total_bytes d ty < 2147483648 ->
  aligned_stream d ty = None.
Proof.
  intros Wf Hc Ht Hl Hbig.
  destruct (nlri_read_ok d Wf) as (nb & Hn & Hnb & _ & _).
  pose proof (req_stream_size_eq d ty tmp Wf Hc Ht ltac:(lia)) as Hreq.
  pose proof (total_bytes_eq d ty tmp nb Wf Ht Hl Hnb) as Hlen.
  assert (E32 : wrapu 32 (req_stream_size d ty) = total_bytes d ty)
    by (rewrite Hreq; apply wrapu32_small; lia).
  unfold aligned_stream. rewrite (align_as_chunks d _ ty tmp nb Ht Hn), E32.
  destruct (init_stream_ok (total_bytes d ty)) as [Hok Hsz].
  apply (write_all_overflow _ _ [] Hok). cbn [app]. rewrite concat_all_chunks, Hlen, Hsz.
  pose proof (wrapu16_lt (total_bytes d ty)). lia.
Qed.

(* ---- aligned bytes are the RFC octets -------------------------------------------- *)
Lemma enc_segments_loop_chunks secs : forall tmp,
  length secs = S (length tmp) -> enc_segments secs tmp = Some (concat (loop_chunks secs tmp)).
Proof.
  induction secs as [|sec secs IH]; intros tmp Hl; [discriminate|].
  cbn [enc_segments loop_chunks]. destruct tmp as [|g tmp].
  - destruct secs; [|discriminate]. cbn [loop_chunks app tl].
    rewrite app_nil_r, concat_sec_chunks. reflexivity.
  - cbn [List.length tl] in *. rewrite IH by lia.
    rewrite !concat_app, concat_sig_chunks, concat_sec_chunks. reflexivity.
Qed.

Lemma aligned_is_message d tmp nb tk secs :
  length secs = S (length tmp) ->
  enc_nlri (to_nlri d) = n_len (b_nlri d) :: nb ->
  message tk secs tmp (b_alg d) (b_afi d) (b_safi d) (to_nlri d)
  = Some (be32 tk ++ concat (loop_chunks secs tmp) ++ trailer d nb).
Proof.
  intros Hl Hn. unfold message. rewrite (enc_segments_loop_chunks _ _ Hl), Hn. reflexivity.
Qed.

(* C12_layout *)
Lemma signing_layout d :
  wf_data d -> counts_ok d -> length (b_path d) = S (length (b_sigs d)) ->
  total_bytes d SIGNING < 65536 ->
  exists s, aligned_stream d SIGNING = Some s /\ signing_digest (to_update d) = Some (st_buf s) /\
            st_size s = req_stream_size d SIGNING /\ Z.of_nat (length (st_buf s)) = st_size s.
Proof.
  intros Wf Hc Hl Hsmall.
  destruct (aligned_stream_exact d SIGNING (b_sigs d) Wf Hc eq_refl ltac:(lia) Hsmall)
    as (s & nb & Hn & Ha & Hb & Hs & _ & Hlen).
  destruct (nlri_read_ok d Wf) as (nb' & Hn' & _ & Henc & _).
  assert (nb' = nb) by congruence. subst nb'.
  exists s. repeat split; try assumption.
  unfold signing_digest, to_update. cbn [u_target u_secs u_sigs u_alg u_afi u_safi u_nlri].
  rewrite (aligned_is_message d (b_sigs d) nb _ _ Hl Henc), Hb. reflexivity.
Qed.

(* ---- the offsets of the validation loop ------------------------------------------- *)
Lemma read_for_hash_suffix s pre m :
  st_buf s = pre ++ m -> Z.of_nat (length (st_buf s)) = st_size s -> st_size s < 65536 ->
  read_for_hash s (Z.of_nat (length pre)) (st_size s - Z.of_nat (length pre)) = Some m.
Proof.
  intros Hb Hl Hs. unfold read_for_hash.
  assert (Hpm : st_size s = Z.of_nat (length pre) + Z.of_nat (length m)).
  { rewrite <- Hl, Hb, app_length. lia. }
  rewrite (wrapu16_small (Z.of_nat (length pre))) by lia.
  rewrite (wrapu16_small (st_size s - Z.of_nat (length pre))) by lia.
  destruct (Z.of_nat (length pre) + (st_size s - Z.of_nat (length pre)) >? st_size s) eqn:E.
  { apply Z.gtb_lt in E. lia. }
  rewrite Z.eqb_refl. cbn [andb].
  destruct (Z.of_nat (length pre) + (st_size s - Z.of_nat (length pre)) <=? Z.of_nat (length (st_buf s))) eqn:E2.
  2:{ apply Z.leb_gt in E2. lia. }
  rewrite Nat2Z.id, Hb, skipn_len_app0.
  replace (Z.to_nat (st_size s - Z.of_nat (length pre))) with (length m) by lia.
  rewrite firstn_all. reflexivity.
Qed.

Lemma next_offset_next g g' rest : wf_sgs g' -> next_offset g (g' :: rest) = sig_len g' + 28.
Proof.
  intros [_ Hl]. unfold next_offset, c_SKI_SIZE, SECURE_PATH_SEG_SIZE, sig_len in *.
  rewrite wrapu32_small by lia. lia.
Qed.
Lemma next_offset_last g : wf_sgs g -> next_offset g [] = sig_len g + 28.
Proof.
  intros [_ Hl]. unfold next_offset, c_SKI_SIZE, SECURE_PATH_SEG_SIZE, sig_len in *.
  rewrite wrapu32_small by lia. lia.
Qed.

(* the stream, seen from the position of hop k's target AS *)
Definition at_hop (s : stream) (d : bgpsec_c) (nb : list Z) (pre : list Z) (tk : Z)
           (secs : list sps) (rest : list sgs) : Prop :=
  st_buf s = pre ++ be32 tk ++ concat (loop_chunks secs rest) ++ trailer d nb.

Lemma at_hop_step s d nb pre tk sec secs g' rest :
  wf_sgs g' ->
  at_hop s d nb pre tk (sec :: secs) (g' :: rest) ->
  exists pre', at_hop s d nb pre' (sp_asn sec) secs rest /\
               Z.of_nat (length pre') = Z.of_nat (length pre) + (sig_len g' + 28).
Proof.
  intros [Hk _] H. unfold at_hop in *.
  exists (pre ++ be32 tk ++ sg_ski g' ++ be16 (sig_len g') ++ sg_sig g' ++ [sp_pcount sec; sp_flags sec]).
  split.
  - rewrite H. cbn [loop_chunks tl]. rewrite !concat_app. cbn [concat sig_chunks sec_chunks].
    rewrite !app_nil_r, <- !app_assoc. cbn [app]. reflexivity.
  - rewrite !app_length, be32_length, be16_length, Hk. cbn [length]. unfold sig_len. lia.
Qed.

Lemma hashed_at_layout s d nb :
  Z.of_nat (length (st_buf s)) = st_size s -> st_size s < 65536 ->
  enc_nlri (to_nlri d) = n_len (b_nlri d) :: nb ->
  forall rest g secs pre tk k,
    Forall wf_sgs (g :: rest) -> length secs = S (length rest) ->
    at_hop s d nb pre tk secs rest ->
    (k < S (length rest))%nat ->
    exists m,
      nth_error (hashed_at s (g :: rest) (Z.of_nat (length pre))) k = Some (Some m) /\
      digest_for_hop_rec k tk secs (g :: rest) (b_alg d) (b_afi d) (b_safi d) (to_nlri d) = Some m.
Proof.
  intros Hlen Hsz Henc. induction rest as [|g' rest IH]; intros g secs pre tk k Wf Hl Hat Hk.
  - destruct k; [|cbn in Hk; lia]. cbn [hashed_at nth_error digest_for_hop_rec].
    rewrite (aligned_is_message d [] nb tk secs Hl Henc).
    eexists. split; [|reflexivity]. f_equal. apply read_for_hash_suffix; assumption.
  - destruct k as [|k].
    + cbn [hashed_at nth_error digest_for_hop_rec].
      rewrite (aligned_is_message d (g' :: rest) nb tk secs Hl Henc).
      eexists. split; [|reflexivity]. f_equal. apply read_for_hash_suffix; assumption.
    + destruct secs as [|sec secs]; [discriminate|].
      inversion Wf as [|? ? Wg Wf']; subst. inversion Wf' as [|? ? Wg' Wf'']; subst.
      cbn [hashed_at nth_error digest_for_hop_rec].
      destruct (at_hop_step _ _ _ _ _ _ _ _ _ Wg' Hat) as (pre' & Hat' & Hpre').
      rewrite (next_offset_next g g' rest Wg').
      assert (Hb : Z.of_nat (length pre') <= st_size s).
      { rewrite <- Hlen. unfold at_hop in Hat'. rewrite Hat', app_length. lia. }
      rewrite wrapu32_small by (unfold sig_len in *; lia). rewrite <- Hpre'.
      apply IH; try assumption.
      * cbn [length] in Hl. lia.
      * cbn [length] in Hk. lia.
Qed.

Lemma hashed_at_length s rest : forall z, length (hashed_at s rest z) = length rest.
Proof. induction rest as [|g rest IH]; intros z; cbn [hashed_at length]; [reflexivity|now rewrite IH]. Qed.

(* C11_layout: for every hop k, the bytes the validation loop hashes at its k-th
   iteration are the RFC 8205 digest of hop k. *)
Lemma validation_layout d :
  wf_data d -> counts_ok d -> length (b_path d) = length (b_sigs d) -> b_sigs d <> [] ->
  total_bytes d VALIDATION < 65536 ->
  exists hs, hashed_for_validation d = Some hs /\ length hs = length (b_sigs d) /\
             forall k, (k < length (b_sigs d))%nat ->
                       exists m, nth_error hs k = Some (Some m) /\
                                 digest_for_hop k (to_update d) = Some m.
Proof.
  intros Wf Hc Hl Hne Hsmall.
  destruct (b_sigs d) as [|g rest] eqn:Es; [congruence|].
  assert (Ht : tmp_sig_of d VALIDATION = Some rest) by (cbn; rewrite Es; reflexivity).
  destruct (aligned_stream_exact d VALIDATION rest Wf Hc Ht ltac:(cbn in Hl; lia) Hsmall)
    as (s & nb & Hn & Ha & Hb & Hs & Hreq & Hlen).
  destruct (nlri_read_ok d Wf) as (nb' & Hn' & _ & Henc & _).
  assert (nb' = nb) by congruence. subst nb'.
  unfold hashed_for_validation. rewrite Ha. cbn [obind]. rewrite Es.
  eexists. split; [reflexivity|].
  assert (Hat : at_hop s d nb [] (b_target_as d) (b_path d) rest) by exact Hb.
  assert (Wg : Forall wf_sgs (g :: rest)) by (destruct Wf as (_ & _ & Wg & _); rewrite Es in Wg; exact Wg).
  assert (Hsz : st_size s < 65536) by lia.
  split; [apply hashed_at_length|].
  intros k Hk.
  destruct (hashed_at_layout s d nb Hlen Hsz Henc rest g (b_path d) [] (b_target_as d) k Wg
                             ltac:(cbn in Hl; lia) Hat Hk) as (m & H1 & H2).
  exists m. split; [exact H1|].
  unfold digest_for_hop, to_update. cbn [u_target u_secs u_sigs u_alg u_afi u_safi u_nlri].
  rewrite Es. exact H2.
Qed.

(* C11_size / C12_size in one statement: when the total fits the stream's 16-bit size the
   allocation is exact and completely written; when it does not, the allocation is
   truncated and the copy runs past its end. *)
Lemma stream_size d ty :
  wf_data d -> counts_ok d ->
  (ty = VALIDATION -> b_sigs d <> []) ->
  (length (match ty with VALIDATION => tl (b_sigs d) | SIGNING => b_sigs d end) <= length (b_path d))%nat ->
  (total_bytes d ty < 65536 ->
   exists s, aligned_stream d ty = Some s /\ st_size s = req_stream_size d ty /\
             req_stream_size d ty = total_bytes d ty /\ Z.of_nat (length (st_buf s)) = st_size s) /\
  (65536 <= total_bytes d ty < 2147483648 -> aligned_stream d ty = None).
Proof.
  intros Wf Hc Hne Hl.
  assert (Ht : tmp_sig_of d ty = Some (match ty with VALIDATION => tl (b_sigs d) | SIGNING => b_sigs d end)).
  { destruct ty; cbn; [|reflexivity]. destruct (b_sigs d); [now specialize (Hne eq_refl)|reflexivity]. }
  split.
  - intros Hsmall. destruct (aligned_stream_exact d ty _ Wf Hc Ht Hl Hsmall) as (s & nb & _ & H1 & _ & H2 & H3 & H4).
    exists s. auto.
  - intros Hbig. exact (aligned_stream_overflow d ty _ Wf Hc Ht Hl Hbig).
Qed.
