(* Validate.v - model of rtr_bgpsec_validate_as_path (bgpsec.c), check_router_keys and
   validate_signature (bgpsec_utils.c), spki_table_search_by_ski (ht-spkitable.c).

   The cryptographic environment is a set of Section variables, never axioms:
     sha256       : SHA256_Init/Update/Final
     load_pub     : load_public_key succeeded (d2i_EC_PUBKEY + EC_KEY_check_key) on record->spki
     ecdsa_verify : the status returned by ECDSA_verify (1 valid, 0 invalid, -1 error)
   Allocation failures (SPKI_ERROR, malloc returning NULL) are not modelled here (C18). *)
From RtrV Require Import Base.CSem Bgpsec.DigestSpec Bgpsec.Align.
Local Open Scope Z_scope.
Local Notation length := List.length (only parsing).

Fixpoint bytes_eqb (a b : list Z) : bool :=
  match a, b with
  | [], [] => true
  | x :: a', y :: b' => (x =? y) && bytes_eqb a' b'
  | _, _ => false
  end.

(* The table is the tommy_list of key entries in traversal order.  The lookup used by
   validation compares the SKI only: the AS number of the entry is not consulted. *)
Definition search_by_ski (t : list router_key) (ski : list Z) : list router_key :=
  filter (fun r => bytes_eqb (rk_ski r) ski) t.

(* spki_table_get_all(table, asn, ski): SKI and AS number; not used by validation today *)
Definition get_all (t : list router_key) (asn : Z) (ski : list Z) : list router_key :=
  filter (fun r => (rk_asn r =? asn) && bytes_eqb (rk_ski r) ski) t.

Fixpoint check_router_keys (sigs : list sgs) (t : list router_key) : Z :=
  match sigs with
  | [] => BGPSEC_SUCCESS
  | g :: r => match search_by_ski t (sg_ski g) with
              | [] => BGPSEC_ROUTER_KEY_NOT_FOUND
              | _ :: _ => check_router_keys r t
              end
  end.

Definition has_algorithm_suite (alg : Z) : bool := alg =? ALGORITHM_SUITE_1.

Section Crypto.
  Variable sha256 : list Z -> list Z.
  Variable load_pub : list Z -> bool.
  Variable ecdsa_verify : list Z -> list Z -> list Z -> Z.

  (* validate_signature: the switch has no default; retval then still holds the
     RTR_BGPSEC_SUCCESS of load_public_key *)
  Definition validate_signature (h : list Z) (g : sgs) (r : router_key) : Z :=
    if load_pub (rk_spki r) then
      let st := ecdsa_verify (rk_spki r) h (sg_sig g) in
      if st =? -1 then BGPSEC_ERROR
      else if st =? 0 then BGPSEC_NOT_VALID
      else if st =? 1 then BGPSEC_VALID
      else BGPSEC_SUCCESS
    else BGPSEC_ERROR.

  (* for (j = 0; j < router_keys_len; j++) { retval = validate_signature(..); if VALID break; } *)
  Fixpoint key_loop (keys : list router_key) (h : list Z) (g : sgs) (retval : Z) : Z :=
    match keys with
    | [] => retval
    | r :: rest => let rv := validate_signature h g r in
                   if rv =? BGPSEC_VALID then BGPSEC_VALID else key_loop rest h g rv
    end.

  (* Which of the keys found for the SKI are tried.
     [by_asn = false] is /repo as it stands: all of them.
     [by_asn = true] is the code after proposed_fixes/C11-ski-only-lookup.diff: a second cursor
     tmp_sec walks data->path alongside tmp_sig, keys whose AS number differs from tmp_sec->asn are
     skipped, and retval starts as RTR_BGPSEC_ROUTER_KEY_NOT_FOUND.  ([tmp_sec] = [] is NULL.) *)
  Definition as_filter (by_asn : bool) (found : list router_key) (tmp_sec : list sps)
    : option (list router_key) :=
    if by_asn then
      match tmp_sec with
      | [] => None
      | sec :: _ => Some (filter (fun r => rk_asn r =? sp_asn sec) found)
      end
    else Some found.

  (* for (offset = 0, next_offset = 0; offset <= size && retval == VALID; offset += next_offset)
     entered with retval == VALID.  [tmp_sig] = [] is the NULL pointer. *)
  Fixpoint vloop_gen (by_asn : bool) (t : list router_key) (alg : Z) (s : stream)
           (tmp_sig : list sgs) (tmp_sec : list sps) (offset : Z) : option Z :=
    match tmp_sig with
    | [] => if offset <=? st_size s then None (* tmp_sig->next with tmp_sig == NULL *)
            else Some BGPSEC_VALID
    | g :: rest =>
        if offset <=? st_size s then
          do curr <- read_for_hash s offset (st_size s - offset);
          if negb (alg =? ALGORITHM_SUITE_1) then Some BGPSEC_UNSUPPORTED_ALGORITHM_SUITE
          else
            let h := sha256 curr in
            do keys <- as_filter by_asn (search_by_ski t (sg_ski g)) tmp_sec;
            let retval := key_loop keys h g
                                   (if by_asn then BGPSEC_ROUTER_KEY_NOT_FOUND else BGPSEC_SUCCESS) in
            if retval =? BGPSEC_VALID
            then vloop_gen by_asn t alg s rest (tl tmp_sec) (wrapu 32 (offset + next_offset g rest))
            else Some retval
        else Some BGPSEC_VALID
    end.

  Definition validate_gen (by_asn : bool) (d : bgpsec_c) (t : list router_key) : option Z :=
    match b_path d, b_sigs d with
    | [], _ | _, [] => Some BGPSEC_INVALID_ARGUMENTS
    | _ :: _, _ :: _ =>
        if negb (b_path_len d =? b_sigs_len d) then Some BGPSEC_WRONG_SEGMENT_COUNT
        else if negb (has_algorithm_suite (b_alg d)) then Some BGPSEC_UNSUPPORTED_ALGORITHM_SUITE
        else if negb (n_afi (b_nlri d) =? BGPSEC_IPV4) && negb (n_afi (b_nlri d) =? BGPSEC_IPV6)
             then Some BGPSEC_UNSUPPORTED_AFI
        else
          let rk := check_router_keys (b_sigs d) t in
          if negb (rk =? BGPSEC_SUCCESS) then Some rk
          else
            do s <- aligned_stream d VALIDATION;
            vloop_gen by_asn t (b_alg d) s (b_sigs d) (b_path d) 0
    end.

  (* rtr_bgpsec_validate_as_path as it is in /repo today *)
  Definition validate := validate_gen false.
  (* ... and after the proposed fix *)
  Definition validate_fixed := validate_gen true.

  Definition sig_ok (spki h sg : list Z) : bool :=
    load_pub spki && (ecdsa_verify spki h sg =? 1).
End Crypto.
