(* DecisionProofs.v - C11_decision in its final forms, and the finding: the full property
   (key registered for the SKI *and* the AS of the Secure_Path Segment) is false for the code
   as it is, because validation looks router keys up by SKI only. *)
From RtrV Require Import Base.CSem Bgpsec.DigestSpec Bgpsec.Align Bgpsec.Validate
     Bgpsec.DigestProofs Bgpsec.AlignProofs Bgpsec.ValidateProofs Bgpsec.Toy.
Local Open Scope Z_scope.
Local Notation length := List.length (only parsing).

Lemma last_len_nth rest : forall g x, nth_error (g :: rest) (length rest) = Some x -> last_len g rest = sig_len x.
Proof.
  induction rest as [|g' rest IH]; intros g x H.
  - cbn in H. injection H as <-. reflexivity.
  - cbn [List.length nth_error last_len] in *. apply IH. exact H.
Qed.

Section Decision.
  Variable sha256 : list Z -> list Z.
  Variable load_pub : list Z -> bool.
  Variable ecdsa_verify : list Z -> list Z -> list Z -> Z.
  Notation sig_ok := (Validate.sig_ok load_pub ecdsa_verify).
  Notation validate := (Validate.validate sha256 load_pub ecdsa_verify).

  (* ECDSA_verify parses a DER ECDSA-Sig-Value: SEQUENCE { INTEGER r, INTEGER s } is at
     least 8 octets long *)
  Hypothesis verify_needs_der : forall spki h sg,
    ecdsa_verify spki h sg = 1 -> 8 <= Z.of_nat (length sg).

  Lemma exit_condition d t : n_len (b_nlri d) <= 128 -> 0 <= n_len (b_nlri d) ->
    path_valid_any_as sha256 sig_ok t (to_update d) -> last_sig_len d + 13 > nlri_byte_len d.
  Proof.
    intros Hn Hn0 (Hne & Hl & H). cbn [to_update u_sigs u_secs] in H, Hne, Hl. unfold last_sig_len.
    assert (Hb : nlri_byte_len d <= 16).
    { unfold nlri_byte_len. apply Z.lt_succ_r. apply Z.div_lt_upper_bound; lia. }
    destruct (b_sigs d) as [|g rest] eqn:Es; [destruct (b_path d); [congruence|discriminate]|].
    destruct (H (length rest) ltac:(cbn; lia)) as (sec & sg & m & key & _ & A & _ & _ & _ & _ & C).
    cbn [to_update u_sigs] in A. rewrite Es in A.
    rewrite (last_len_nth rest g sg A).
    unfold Validate.sig_ok in C. apply andb_true_iff in C as [_ C]. apply Z.eqb_eq in C.
    apply verify_needs_der in C. unfold sig_len. lia.
  Qed.

  Lemma decision_any_as d t :
    wf_data d -> counts_ok d -> total_bytes d VALIDATION < 65536 -> n_len (b_nlri d) <= 128 ->
    (validate d t = Some BGPSEC_VALID <->
     preconds d /\ path_valid_any_as sha256 sig_ok t (to_update d)).
  Proof.
    intros Wf Hc Hs Hn.
    assert (Hn0 : 0 <= n_len (b_nlri d)) by (destruct Wf as (_ & _ & _ & _ & _ & _ & ? & _); lia).
    rewrite (proj1 (validate_decision sha256 load_pub ecdsa_verify d t Wf Hc Hs)).
    split; [intros (A & B & _); auto|intros (A & B)].
    split; [exact A|]. split; [exact B|]. exact (exit_condition d t Hn Hn0 B).
  Qed.

  Lemma decision_outside_known d t :
    wf_data d -> counts_ok d -> total_bytes d VALIDATION < 65536 -> n_len (b_nlri d) <= 128 ->
    no_foreign_keys t (to_update d) ->
    (validate d t = Some BGPSEC_VALID <->
     preconds d /\ path_valid sha256 sig_ok t (to_update d)).
  Proof.
    intros Wf Hc Hs Hn Hno. rewrite (decision_any_as d t Wf Hc Hs Hn).
    split; intros (A & B); (split; [exact A|]).
    - exact (path_valid_of_any_as sha256 load_pub ecdsa_verify t _ Hno B).
    - exact (path_valid_any_as_of sha256 load_pub ecdsa_verify t _ B).
  Qed.

  (* The same function with the key selection of proposed_fixes/C11-ski-only-lookup.diff
     ([validate_fixed] = [validate_gen true]) decides the full property. *)
  Lemma decision_fixed d t :
    wf_data d -> counts_ok d -> total_bytes d VALIDATION < 65536 -> n_len (b_nlri d) <= 128 ->
    (Validate.validate_fixed sha256 load_pub ecdsa_verify d t = Some BGPSEC_VALID <->
     preconds d /\ path_valid sha256 sig_ok t (to_update d)).
  Proof.
    intros Wf Hc Hs Hn.
    assert (Hn0 : 0 <= n_len (b_nlri d)) by (destruct Wf as (_ & _ & _ & _ & _ & _ & ? & _); lia).
    unfold Validate.validate_fixed.
    rewrite (proj1 (validate_gen_decision sha256 load_pub ecdsa_verify true d t Wf Hc Hs)).
    change (path_valid_gen sha256 sig_ok (as_ok true) t (to_update d))
      with (path_valid sha256 sig_ok t (to_update d)).
    split; [intros (A & B & _); auto|intros (A & B)].
    split; [exact A|]. split; [exact B|].
    apply (exit_condition d t Hn Hn0). exact (path_valid_any_as_of sha256 load_pub ecdsa_verify t _ B).
  Qed.

  (* "only if" needs no side condition at all *)
  Lemma valid_only_if d t :
    wf_data d -> counts_ok d -> total_bytes d VALIDATION < 65536 ->
    validate d t = Some BGPSEC_VALID ->
    preconds d /\ path_valid_any_as sha256 sig_ok t (to_update d).
  Proof.
    intros Wf Hc Hs V.
    apply (proj1 (validate_decision sha256 load_pub ecdsa_verify d t Wf Hc Hs)) in V. tauto.
  Qed.
End Decision.

(* ---- a concrete environment and a concrete update (used as witness and as example) ---- *)
Definition w_ski : list Z := repeat 171 20.
(* AS 65001 announces 192.0.2.0/24 to AS 65002; its signature "verifies" under key 7 *)
Definition w_data : bgpsec_c :=
  mk_bgpsec_c 1 1 1 65002 65002 1 1 (mk_nlri_c 1 1 24 [192; 0; 2])
              [mk_sgs w_ski (7 :: repeat 0 69)] [mk_sps 1 0 65001].
(* ... but key 7 is registered for AS 64999, not for AS 65001 *)
Definition w_table : list router_key := [mk_rk w_ski 64999 [7]].
(* the same key registered for the right AS *)
Definition w_table_ok : list router_key := [mk_rk w_ski 65001 [7]].

Definition full_statement : Prop :=
  forall (sha256 : list Z -> list Z) (load_pub : list Z -> bool)
         (ecdsa_verify : list Z -> list Z -> list Z -> Z),
    (forall spki h sg, ecdsa_verify spki h sg = 1 -> 8 <= Z.of_nat (length sg)) ->
    forall d t,
      wf_data d -> counts_ok d -> total_bytes d VALIDATION < 65536 -> n_len (b_nlri d) <= 128 ->
      (validate sha256 load_pub ecdsa_verify d t = Some BGPSEC_VALID <->
       preconds d /\ path_valid sha256 (sig_ok load_pub ecdsa_verify) t (to_update d)).

Lemma w_wf : wf_data w_data /\ counts_ok w_data /\ total_bytes w_data VALIDATION < 65536 /\
             n_len (b_nlri w_data) <= 128.
Proof.
  unfold wf_data, counts_ok, wf_sps, wf_sgs, byte_ok. cbn.
  repeat split; try lia; repeat constructor; cbn; try lia.
Qed.

Lemma w_valid : validate toy_sha toy_load toy_verify w_data w_table = Some BGPSEC_VALID.
Proof. vm_compute. reflexivity. Qed.

(* the same witness under the fixed key selection: the key is reported missing *)
Lemma w_fixed : validate_fixed toy_sha toy_load toy_verify w_data w_table = Some BGPSEC_ROUTER_KEY_NOT_FOUND /\
                validate_fixed toy_sha toy_load toy_verify w_data w_table_ok = Some BGPSEC_VALID.
Proof. split; vm_compute; reflexivity. Qed.

Lemma w_not_registered : ~ path_valid toy_sha (sig_ok toy_load toy_verify) w_table (to_update w_data).
Proof.
  intros (_ & _ & H). destruct (H 0%nat ltac:(cbn; lia)) as (sec & sg & m & key & A & _ & _ & K & _ & Has & _).
  cbn in A. injection A as <-. destruct K as [<-|[]]. cbn in Has. discriminate.
Qed.

Lemma full_refuted : ~ full_statement.
Proof.
  intros F. destruct w_wf as (W1 & W2 & W3 & W4).
  pose proof (proj1 (F toy_sha toy_load toy_verify toy_verify_der w_data w_table W1 W2 W3 W4) w_valid) as [_ H].
  exact (w_not_registered H).
Qed.

(* non-vacuity of the proved part: with the key under the right AS the same update is VALID,
   and the hypotheses of the decision theorems hold for it *)
Lemma w_ok_valid : validate toy_sha toy_load toy_verify w_data w_table_ok = Some BGPSEC_VALID /\
                   no_foreign_keys w_table_ok (to_update w_data).
Proof.
  split; [vm_compute; reflexivity|].
  intros k sec sg key A B [<-|[]] _. destruct k as [|k]; cbn in A; [|destruct k; discriminate].
  injection A as <-. reflexivity.
Qed.

(* the hypotheses of the corruption theorem hold in a concrete environment, together with a VALID update *)
Lemma toy_sha_collision_free : forall m m', toy_sha m = toy_sha m' -> m = m'.
Proof. intros m m' H. exact H. Qed.

Lemma toy2_binds_hash : forall spki spki' h h' sg,
  sig_ok toy_load toy2_verify spki h sg = true -> sig_ok toy_load toy2_verify spki' h' sg = true -> h = h'.
Proof.
  intros spki spki' h h' sg. unfold sig_ok, toy_load, toy2_verify. cbn [andb].
  destruct (bytes_eqb sg (hd 0 spki :: h)) eqn:E; [|discriminate].
  destruct (bytes_eqb sg (hd 0 spki' :: h')) eqn:E'; [|discriminate].
  intros _ _. apply bytes_eqb_eq in E. apply bytes_eqb_eq in E'. congruence.
Qed.

Definition w2_data : bgpsec_c :=
  mk_bgpsec_c 1 1 1 65002 65002 1 1 (mk_nlri_c 1 1 24 [192; 0; 2])
              [mk_sgs w_ski (7 :: [0; 0; 253; 234; 1; 0; 0; 0; 253; 233; 1; 0; 1; 1; 24; 192; 0; 2])]
              [mk_sps 1 0 65001].

Lemma w2_valid : digest_for_hop 0 (to_update w2_data)
                 = Some [0; 0; 253; 234; 1; 0; 0; 0; 253; 233; 1; 0; 1; 1; 24; 192; 0; 2] /\
                 validate toy_sha toy_load toy2_verify w2_data w_table_ok = Some BGPSEC_VALID.
Proof. split; vm_compute; reflexivity. Qed.
