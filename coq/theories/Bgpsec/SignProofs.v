(* SignProofs.v - rtr_bgpsec_generate_signature: error codes in the C's order (C12_codes),
   what is signed (with AlignProofs.signing_layout: C12_layout / C12_size), and the round trip:
   a path built hop by hop from generated signatures validates as VALID (C12_roundtrip). *)
From RtrV Require Import Base.CSem Bgpsec.DigestSpec Bgpsec.Align Bgpsec.Validate
     Bgpsec.Sign Bgpsec.DigestProofs Bgpsec.AlignProofs Bgpsec.ValidateProofs Bgpsec.Toy.
Local Open Scope Z_scope.
Local Notation length := List.length (only parsing).

Section SignProofs.
  Variable sha256 : list Z -> list Z.
  Variable load_pub : list Z -> bool.
  Variable ecdsa_verify : list Z -> list Z -> list Z -> Z.
  Variable load_priv : list Z -> bool.
  Variable ecdsa_size : list Z -> Z.
  Variable ecdsa_sign : list Z -> list Z -> list Z.

  Notation sig_ok := (Validate.sig_ok load_pub ecdsa_verify).
  Notation validate := (Validate.validate sha256 load_pub ecdsa_verify).
  Notation generate_signature := (Sign.generate_signature sha256 load_priv ecdsa_size ecdsa_sign).
  Notation forward := (Sign.forward sha256 load_priv ecdsa_size ecdsa_sign).
  Notation build := (Sign.build sha256 load_priv ecdsa_size ecdsa_sign).
  Notation hops_ok := (ValidateProofs.hops_ok sha256 load_pub ecdsa_verify).

  (* ---- C12_codes ---------------------------------------------------------------- *)
  Definition sign_preconds (d : bgpsec_c) : Prop :=
    b_path d <> [] /\ b_alg d = ALGORITHM_SUITE_1 /\
    (n_afi (b_nlri d) = BGPSEC_IPV4 \/ n_afi (b_nlri d) = BGPSEC_IPV6) /\
    b_path_len d = b_sigs_len d + 1.

  Lemma generate_codes d priv out_null :
    (b_path d = [] \/ priv = None \/ out_null = false ->
     generate_signature d priv out_null = Some (BGPSEC_INVALID_ARGUMENTS, None)) /\
    (forall key, b_path d <> [] -> priv = Some key -> out_null = true ->
      (b_alg d <> ALGORITHM_SUITE_1 ->
       generate_signature d priv out_null = Some (BGPSEC_UNSUPPORTED_ALGORITHM_SUITE, None)) /\
      (b_alg d = ALGORITHM_SUITE_1 ->
       n_afi (b_nlri d) <> BGPSEC_IPV4 -> n_afi (b_nlri d) <> BGPSEC_IPV6 ->
       generate_signature d priv out_null = Some (BGPSEC_UNSUPPORTED_AFI, None)) /\
      (b_alg d = ALGORITHM_SUITE_1 ->
       (n_afi (b_nlri d) = BGPSEC_IPV4 \/ n_afi (b_nlri d) = BGPSEC_IPV6) ->
       b_path_len d <> b_sigs_len d + 1 ->
       generate_signature d priv out_null = Some (BGPSEC_WRONG_SEGMENT_COUNT, None)) /\
      (sign_preconds d -> load_priv key = false \/ ecdsa_size key = 0 ->
       generate_signature d priv out_null = Some (BGPSEC_LOAD_PRIV_KEY_ERROR, None))).
  Proof.
    split.
    - unfold Sign.generate_signature. intros [-> | [-> | ->]]; [reflexivity| |].
      + destruct (b_path d); reflexivity.
      + destruct (b_path d); [reflexivity|]. destruct priv; reflexivity.
    - intros key Hp -> ->. unfold Sign.generate_signature, has_algorithm_suite.
      destruct (b_path d) as [|sec secs]; [congruence|].
      split; [|split; [|split]].
      + intros Ha. destruct (Z.eqb_spec (b_alg d) ALGORITHM_SUITE_1); [congruence|reflexivity].
      + intros -> H4 H6. rewrite Z.eqb_refl. cbn [negb].
        destruct (Z.eqb_spec (n_afi (b_nlri d)) BGPSEC_IPV4); [congruence|].
        destruct (Z.eqb_spec (n_afi (b_nlri d)) BGPSEC_IPV6); [congruence|reflexivity].
      + intros -> Hf Hc. rewrite Z.eqb_refl. cbn [negb].
        destruct (Z.eqb_spec (b_path_len d) (b_sigs_len d + 1)); [congruence|].
        destruct Hf as [-> | ->]; reflexivity.
      + intros (_ & -> & Hf & ->) Hk. rewrite !Z.eqb_refl. cbn [negb].
        assert (E : negb (n_afi (b_nlri d) =? BGPSEC_IPV4) && negb (n_afi (b_nlri d) =? BGPSEC_IPV6) = false)
          by (destruct Hf as [-> | ->]; reflexivity).
        rewrite E. destruct Hk as [-> | Hk]; [reflexivity|].
        destruct (load_priv key); cbn [negb]; [|reflexivity]. rewrite Hk. reflexivity.
  Qed.

  (* the successful call: what is hashed is the RFC signing digest *)
  Lemma generate_ok d key m :
    wf_data d -> counts_ok d -> sign_preconds d -> length (b_path d) = S (length (b_sigs d)) ->
    total_bytes d SIGNING < 65536 ->
    signing_digest (to_update d) = Some m ->
    load_priv key = true -> 0 < ecdsa_size key < 65536 ->
    1 <= Z.of_nat (length (ecdsa_sign key (sha256 m))) <= ecdsa_size key ->
    generate_signature d (Some key) true =
    Some (BGPSEC_SUCCESS, Some (mk_sgs (repeat 0 (Z.to_nat c_SKI_SIZE)) (ecdsa_sign key (sha256 m)))).
  Proof.
    intros Wf Hc (Hp & Ha & Hf & Hcnt) Hl Hsmall Hm Hk Hsz Hsig.
    destruct (signing_layout d Wf Hc Hl Hsmall) as (s & Hal & Hd & _).
    assert (st_buf s = m) by congruence. subst m.
    unfold Sign.generate_signature, has_algorithm_suite.
    destruct (b_path d) as [|sec secs]; [congruence|].
    rewrite Ha, !Z.eqb_refl. cbn [negb].
    assert (E : negb (n_afi (b_nlri d) =? BGPSEC_IPV4) && negb (n_afi (b_nlri d) =? BGPSEC_IPV6) = false)
      by (destruct Hf as [-> | ->]; reflexivity).
    rewrite E, Hcnt, Z.eqb_refl, Hk. cbn [negb].
    destruct (Z.eqb_spec (ecdsa_size key) 0); [lia|].
    rewrite Hal. cbn [obind]. rewrite wrapu16_small by lia.
    destruct (Z.of_nat (length (ecdsa_sign key (sha256 (st_buf s)))) >? ecdsa_size key) eqn:E1;
      [apply Z.gtb_lt in E1; lia|].
    destruct (Z.of_nat (length (ecdsa_sign key (sha256 (st_buf s)))) <? 1) eqn:E2;
      [apply Z.ltb_lt in E2; lia|].
    reflexivity.
  Qed.

  (* ---- C12_roundtrip --------------------------------------------------------------
     for both variants of the validator's key selection ([by_asn], see Validate.as_filter) *)
  Variable by_asn : bool.
  Variable key_pair : list Z -> list Z -> Prop.          (* private key, SubjectPublicKeyInfo *)
  Hypothesis pair_loads : forall priv spki, key_pair priv spki ->
    load_priv priv = true /\ load_pub spki = true /\ 0 < ecdsa_size priv < 65536.
  Hypothesis pair_verifies : forall priv spki h, key_pair priv spki ->
    ecdsa_verify spki h (ecdsa_sign priv h) = 1.
  (* a DER ECDSA-Sig-Value is at least 8 octets and fits ECDSA_size *)
  Hypothesis sign_length : forall priv spki h, key_pair priv spki ->
    8 <= Z.of_nat (length (ecdsa_sign priv h)) <= ecdsa_size priv.

  Definition wf_hop (ht : hop * Z) : Prop :=
    let (h, target) := ht in
    wf_sps (mk_sps (h_pcount h) (h_flags h) (h_asn h)) /\ length (h_ski h) = 20%nat /\
    ski_is_empty (h_ski h) = false /\ 0 <= target < 4294967296.

  Definition has_key (t : list router_key) (ht : hop * Z) : Prop :=
    exists spki asn, key_pair (h_priv (fst ht)) spki /\ In (mk_rk (h_ski (fst ht)) asn spki) t /\
                     (by_asn = true -> asn = h_asn (fst ht)).

  (* each hop sends the update to the AS of the next hop *)
  Fixpoint chain (hops : list (hop * Z)) : Prop :=
    match hops with
    | (_, t1) :: (((h2, _) :: _) as r) => t1 = h_asn h2 /\ chain r
    | _ => True
    end.

  Definition inv (t : list router_key) (d : bgpsec_c) : Prop :=
    wf_data d /\ counts_ok d /\ length (b_path d) = length (b_sigs d) /\
    b_alg d = ALGORITHM_SUITE_1 /\
    (n_afi (b_nlri d) = BGPSEC_IPV4 \/ n_afi (b_nlri d) = BGPSEC_IPV6) /\
    n_len (b_nlri d) <= 128 /\
    Forall (fun g => 8 <= sig_len g) (b_sigs d) /\
    hops_ok (as_ok by_asn) t d (b_target_as d) (b_path d) (b_sigs d).

  Lemma hops_ok_ext as_ok t d d' : b_alg d = b_alg d' -> b_afi d = b_afi d' -> b_safi d = b_safi d' ->
    b_nlri d = b_nlri d' ->
    forall sigs secs tk, hops_ok as_ok t d tk secs sigs -> hops_ok as_ok t d' tk secs sigs.
  Proof.
    intros E1 E2 E3 E4.
    assert (En : to_nlri d = to_nlri d') by (unfold to_nlri, nlri_byte_len; rewrite E4; reflexivity).
    induction sigs as [|g rest IH]; intros secs tk H; [destruct secs; exact I|].
    destruct secs as [|sec secs]; [destruct H|].
    cbn [ValidateProofs.hops_ok] in *. rewrite <- E1, <- E2, <- E3, <- En.
    destruct H as [H1 H2]. split; [exact H1|apply IH; exact H2].
  Qed.

  Lemma sigs_total_tl l : sigs_total (tl l) <= sigs_total l.
  Proof. destruct l as [|g r]; cbn [tl sigs_total]; [lia|]. unfold sig_len. lia. Qed.

  (* one forwarding step, given that it succeeded *)
  Lemma forward_step t d h target d' :
    inv t d -> wf_hop (h, target) -> has_key t (h, target) ->
    (b_sigs d = [] \/ b_target_as d = h_asn h) ->
    (Z.of_nat (length (b_path d)) < 255) ->
    forward d h target = Some d' ->
    total_bytes d' VALIDATION < 65536 ->
    inv t d' /\ b_target_as d' = target /\ b_sigs d' <> [] /\
    length (b_path d') = S (length (b_path d)) /\
    total_bytes d VALIDATION <= total_bytes d' VALIDATION.
  Proof.
    intros (Wf & Hc & Hl & Ha & Hf & Hn & Hlen8 & Hh) (Wsec & Hski & Hne & Htg) (spki & asn & Hpair & Hin & Hasn)
           Hlink Hroom Hfw Hsmall.
    cbn [fst] in Hpair, Hin, Hasn.
    destruct (pair_loads _ _ Hpair) as (Lp & Lq & Lsz).
    set (sec := mk_sps (h_pcount h) (h_flags h) (h_asn h)) in *.
    set (d1 := set_target (prepend_sec d sec) target) in *.
    destruct Hc as (C1 & C2 & C3 & C4).
    destruct Wf as (W1 & W2 & W3 & W4 & W5 & W6 & W7 & W8).
    assert (Wf1 : wf_data d1).
    { unfold wf_data, d1, set_target, prepend_sec, nlri_byte_len, byte_ok in *.
      cbn [b_target_as b_path b_sigs b_alg b_afi b_safi b_nlri].
      repeat split; try assumption; try lia. constructor; assumption. }
    assert (Hc1 : counts_ok d1).
    { unfold counts_ok, d1, set_target, prepend_sec.
      cbn [b_path_len b_sigs_len b_path b_sigs List.length].
      rewrite wrapu8_small by lia. repeat split; lia. }
    assert (Hl1 : length (b_path d1) = S (length (b_sigs d1))).
    { unfold d1, set_target, prepend_sec. cbn [b_path b_sigs List.length]. lia. }
    assert (Hpre1 : sign_preconds d1).
    { unfold sign_preconds, d1, set_target, prepend_sec.
      cbn [b_path b_alg b_nlri b_path_len b_sigs_len].
      rewrite wrapu8_small by lia. repeat split; try assumption; try lia. discriminate. }
    (* the shape of d', whatever the signature turned out to be *)
    unfold Sign.forward in Hfw. fold sec in Hfw. fold d1 in Hfw.
    destruct (generate_signature d1 (Some (h_priv h)) true) as [[rv [g|]]|] eqn:G; try discriminate.
    destruct (Z.eqb_spec rv BGPSEC_SUCCESS) as [->|]; [|discriminate].
    unfold prepend_sig in Hfw.
    destruct ((sig_len (mk_sgs (h_ski h) (sg_sig g)) =? 0) || ski_is_empty (sg_ski (mk_sgs (h_ski h) (sg_sig g))))
             eqn:Echk; [discriminate|].
    injection Hfw as <-.
    assert (Hsmall1 : total_bytes d1 SIGNING < 65536).
    { revert Hsmall. unfold total_bytes, nlri_byte_len. cbn [b_path b_sigs b_nlri tl]. intros; assumption. }
    clear Hsmall. rename Hsmall1 into Hsmall.
    destruct (signing_layout d1 Wf1 Hc1 Hl1 Hsmall) as (s & Hal & Hd & _).
    pose proof (sign_length (h_priv h) spki (sha256 (st_buf s)) Hpair) as Hsl.
    rewrite (generate_ok d1 (h_priv h) (st_buf s) Wf1 Hc1 Hpre1 Hl1 Hsmall Hd Lp Lsz ltac:(lia)) in G.
    injection G as <-. cbn [sg_sig].
    set (sg := ecdsa_sign (h_priv h) (sha256 (st_buf s))) in *.
    set (g' := mk_sgs (h_ski h) sg) in *.
    assert (Wg' : wf_sgs g') by (unfold wf_sgs, g'; cbn [sg_ski sg_sig]; split; [assumption|lia]).
    unfold inv. cbn [b_target_as b_path b_sigs b_alg b_nlri].
    unfold d1, set_target, prepend_sec.
    cbn [b_target_as b_path b_sigs b_alg b_afi b_safi b_nlri b_path_len b_sigs_len b_my_as].
    split; [|split; [reflexivity|split; [discriminate|split; [reflexivity|]]]].
    - split; [|split; [|split; [|split; [|split; [|split; [|split]]]]]]; try assumption.
      + unfold wf_data, nlri_byte_len, byte_ok in *.
        cbn [b_target_as b_path b_sigs b_alg b_afi b_safi b_nlri].
        repeat split; try assumption; try lia; constructor; assumption.
      + unfold counts_ok. cbn [b_path_len b_sigs_len b_path b_sigs List.length].
        rewrite wrapu8_small, wrapu16_small by lia. repeat split; lia.
      + constructor; [unfold sig_len, g'; cbn [sg_sig]; lia|assumption].
      + (* the new hop verifies, and the older hops still do *)
        cbn [ValidateProofs.hops_ok b_alg b_afi b_safi].
        unfold signing_digest, to_update in Hd.
        cbn [u_target u_secs u_sigs u_alg u_afi u_safi u_nlri] in Hd.
        unfold d1, set_target, prepend_sec in Hd.
        cbn [b_target_as b_path b_sigs b_alg b_afi b_safi] in Hd.
        split.
        * exists (st_buf s), (mk_rk (h_ski h) asn spki).
          split; [exact Hd|]. split; [exact Hin|]. split; [reflexivity|].
          split; [destruct by_asn; cbn [as_ok rk_asn sp_asn sec]; [now apply Hasn|exact I]|].
          unfold Validate.sig_ok. cbn [rk_spki sg_sig g']. rewrite Lq.
          unfold sg. rewrite (pair_verifies _ _ _ Hpair). reflexivity.
        * cbn [sp_asn sec].
          assert (Hold : hops_ok (as_ok by_asn) t d (h_asn h) (b_path d) (b_sigs d)).
          { destruct Hlink as [E | <-]; [|exact Hh]. rewrite E. destruct (b_path d); exact I. }
          revert Hold. apply hops_ok_ext; reflexivity.
    - unfold total_bytes, nlri_byte_len. cbn [b_path b_sigs b_nlri tl List.length].
      pose proof (sigs_total_tl (b_sigs d)). lia.
  Qed.

  Lemma build_mono hops : forall t d df,
    inv t d -> Forall wf_hop hops -> Forall (has_key t) hops ->
    (b_sigs d = [] \/ match hops with (h, _) :: _ => b_target_as d = h_asn h | [] => True end) ->
    chain hops -> Z.of_nat (length (b_path d)) + Z.of_nat (length hops) < 256 ->
    build d hops = Some df -> total_bytes df VALIDATION < 65536 ->
    inv t df /\ (hops <> [] -> b_sigs df <> []) /\ total_bytes d VALIDATION <= total_bytes df VALIDATION.
  Proof.
    induction hops as [|[h target] r IH]; intros t d df Hinv Wh Hk Hlink Hch Hroom Hb Hsmall.
    - cbn in Hb. injection Hb as <-. split; [exact Hinv|]. split; [congruence|lia].
    - cbn [Sign.build] in Hb.
      destruct (forward d h target) as [d'|] eqn:Hf; [|discriminate]. cbn [obind] in Hb.
      inversion Wh as [|? ? Wh1 Wh2]; subst. inversion Hk as [|? ? Hk1 Hk2]; subst.
      cbn [List.length] in Hroom.
      (* the bound on the final stream bounds this step's stream: first get the shape of d' *)
      assert (Hstep : total_bytes d' VALIDATION < 65536 ->
                      inv t d' /\ b_target_as d' = target /\ b_sigs d' <> [] /\
                      length (b_path d') = S (length (b_path d)) /\
                      total_bytes d VALIDATION <= total_bytes d' VALIDATION).
      { intros Hs. apply (forward_step t d h target d' Hinv Wh1 Hk1 Hlink ltac:(lia) Hf Hs). }
      destruct (Z_lt_ge_dec (total_bytes d' VALIDATION) 65536) as [Hs|Hbig].
      + destruct (Hstep Hs) as (Hinv' & Htg & Hne & Hlen' & Hmono).
        assert (Hlink' : b_sigs d' = [] \/ match r with (h0, _) :: _ => b_target_as d' = h_asn h0 | [] => True end).
        { right. destruct r as [|[h2 t2] r']; [exact I|]. cbn in Hch. destruct Hch as [-> _]. exact Htg. }
        assert (Hch' : chain r) by (destruct r as [|[h2 t2] r']; [exact I|cbn in Hch; tauto]).
        destruct (IH t d' df Hinv' Wh2 Hk2 Hlink' Hch' ltac:(lia) Hb Hsmall) as (Hinvf & Hnef & Hmf).
        split; [exact Hinvf|]. split; [|lia].
        intros _. destruct r as [|x r']; [cbn in Hb; injection Hb as <-; exact Hne|].
        apply Hnef. discriminate.
      + (* impossible: the stream only grows along the chain; use the step lemma's shape part
           through a weaker route: d' has the same segments whatever the size *)
        exfalso.
        assert (Hgrow : forall hops' d2 df2, build d2 hops' = Some df2 ->
                   6 * Z.of_nat (length (b_path d2)) + sigs_total (tl (b_sigs d2)) + nlri_byte_len d2
                   <= 6 * Z.of_nat (length (b_path df2)) + sigs_total (tl (b_sigs df2)) + nlri_byte_len df2).
        { clear. induction hops' as [|[h0 t0] r0 IH0]; intros d2 df2 Hb2.
          - cbn in Hb2. injection Hb2 as <-. lia.
          - cbn [Sign.build] in Hb2. destruct (forward d2 h0 t0) as [d3|] eqn:F; [|discriminate].
            cbn [obind] in Hb2. specialize (IH0 d3 df2 Hb2).
            unfold Sign.forward in F.
            destruct (generate_signature _ _ _) as [[rv [g0|]]|]; try discriminate.
            destruct (rv =? BGPSEC_SUCCESS); [|discriminate].
            unfold prepend_sig in F. destruct (_ || _); [discriminate|]. injection F as <-.
            unfold nlri_byte_len, set_target, prepend_sec in *.
            cbn [b_path b_sigs b_nlri tl List.length] in *.
            pose proof (sigs_total_tl (b_sigs d2)). lia. }
        specialize (Hgrow r d' df Hb). unfold total_bytes in Hbig, Hsmall. lia.
  Qed.

  (* C12_roundtrip *)
  Lemma roundtrip t d0 hops d :
    b_path d0 = [] -> b_sigs d0 = [] -> b_path_len d0 = 0 -> b_sigs_len d0 = 0 ->
    b_alg d0 = ALGORITHM_SUITE_1 ->
    (n_afi (b_nlri d0) = BGPSEC_IPV4 \/ n_afi (b_nlri d0) = BGPSEC_IPV6) ->
    0 <= b_target_as d0 < 4294967296 -> 0 <= b_afi d0 < 65536 -> byte_ok (b_safi d0) ->
    0 <= n_len (b_nlri d0) <= 128 ->
    nlri_byte_len d0 <= Z.of_nat (length (n_bytes (b_nlri d0))) ->
    hops <> [] -> Z.of_nat (length hops) < 256 ->
    Forall wf_hop hops -> Forall (has_key t) hops -> chain hops ->
    build d0 hops = Some d -> total_bytes d VALIDATION < 65536 ->
    Validate.validate_gen sha256 load_pub ecdsa_verify by_asn d t = Some BGPSEC_VALID.
  Proof.
    intros Hp Hs Hpl Hsl Ha Hf Ht Hafi Hsafi Hn Hnb Hne Hlen Wh Hk Hch Hb Hsmall.
    assert (Hinv0 : inv t d0).
    { unfold inv, wf_data, counts_ok. rewrite Hp, Hs, Hpl, Hsl, Ha.
      cbn [List.length Z.of_nat]. unfold byte_ok, ALGORITHM_SUITE_1 in *.
      repeat split; try assumption; try lia; try constructor. }
    destruct (build_mono hops t d0 d Hinv0 Wh Hk (or_introl Hs) Hch
                         ltac:(rewrite Hp; cbn [List.length]; lia) Hb Hsmall)
      as ((Wf & Hc & Hl & Ha' & Hf' & Hn' & Hlen8 & Hh) & Hned & _).
    specialize (Hned Hne).
    apply (proj1 (validate_gen_decision sha256 load_pub ecdsa_verify by_asn d t Wf Hc Hsmall)).
    assert (Hpre : preconds d).
    { unfold preconds. destruct Hc as (C1 & _ & C3 & _).
      repeat split; try assumption; try lia.
      intros E. rewrite E in Hl. destruct (b_sigs d); [congruence|discriminate]. }
    split; [exact Hpre|]. split.
    - unfold path_valid_gen, hop_valid_gen, digest_for_hop, to_update.
      cbn [u_target u_secs u_sigs u_alg u_afi u_safi u_nlri].
      split; [apply Hpre|]. split; [exact Hl|].
      apply (hops_ok_iff sha256 load_pub ecdsa_verify (as_ok by_asn) t d _ _ _ Hl). exact Hh.
    - unfold last_sig_len. destruct (b_sigs d) as [|g rest]; [congruence|].
      assert (Hlast : 8 <= last_len g rest).
      { clear - Hlen8. revert g Hlen8. induction rest as [|g' rest IH]; intros g H.
        - inversion H; subst. exact H2.
        - inversion H; subst. cbn [last_len]. apply IH. exact H3. }
      assert (nlri_byte_len d <= 16).
      { unfold nlri_byte_len. apply Z.lt_succ_r. apply Z.div_lt_upper_bound; lia. }
      lia.
  Qed.
End SignProofs.

(* ---- a concrete environment in which the hypotheses of the round trip hold ---------------- *)
(* AS 64496 originates 2001:db8::/32 to AS 65536, which forwards it to AS 65537 *)
Definition ex_d0 : bgpsec_c :=
  mk_bgpsec_c 1 1 2 0 0 0 0 (mk_nlri_c 2 1 32 [32; 1; 13; 184]) [] [].
Definition ex_hops : list (hop * Z) :=
  [(mk_hop 64496 1 0 [11; 1] (repeat 1 20), 65536); (mk_hop 65536 2 128 [22; 2] (repeat 2 20), 65537)].
Definition ex_table : list router_key :=
  [mk_rk (repeat 2 20) 65536 [22; 9]; mk_rk (repeat 1 20) 64496 [11; 9]].

Lemma ex_roundtrip :
  exists d, Sign.build toy_sha toy_load_priv toy_size toy_sign ex_d0 ex_hops = Some d /\
            length (b_path d) = 2%nat /\
            Validate.validate toy_sha toy_load toy_verify d ex_table = Some BGPSEC_VALID /\
            Validate.validate_fixed toy_sha toy_load toy_verify d ex_table = Some BGPSEC_VALID.
Proof.
  eexists. split; [vm_compute; reflexivity|]. split; [reflexivity|].
  assert (G : forall by_asn,
    Validate.validate_gen toy_sha toy_load toy_verify by_asn
      ltac:(let x := eval vm_compute in (Sign.build toy_sha toy_load_priv toy_size toy_sign ex_d0 ex_hops) in
            match x with Some ?d => exact d end) ex_table = Some BGPSEC_VALID).
  { intros by_asn.
    apply (roundtrip toy_sha toy_load toy_verify toy_load_priv toy_size toy_sign by_asn toy_pair
                     toy_pair_loads toy_pair_verifies toy_sign_length ex_table ex_d0 ex_hops).
    - reflexivity.
    - reflexivity.
    - reflexivity.
    - reflexivity.
    - reflexivity.
    - right. reflexivity.
    - cbn. lia.
    - cbn. lia.
    - cbn. unfold byte_ok. lia.
    - cbn. lia.
    - vm_compute. discriminate.
    - discriminate.
    - cbn. lia.
    - repeat constructor; cbn; unfold byte_ok; lia.
    - repeat constructor.
      + exists [11; 9], 64496. split; [exists 11, [1], [9]; auto|cbn; auto].
      + exists [22; 9], 65536. split; [exists 22, [2], [9]; auto|cbn; auto].
    - cbn. auto.
    - vm_compute. reflexivity.
    - vm_compute. reflexivity. }
  split; [exact (G false)|exact (G true)].
Qed.
