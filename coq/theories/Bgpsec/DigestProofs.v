(* DigestProofs.v - the RFC 8205 encoding is injective on the signed fields. *)
From Coq Require Import ZArith List Bool Lia.
From RtrV Require Import Bgpsec.DigestSpec.
Import ListNotations.
Local Open Scope Z_scope.

(* ---- lists ------------------------------------------------------------------ *)
Lemma app_inj_len {A} (a a' b b' : list A) :
  length a = length a' -> a ++ b = a' ++ b' -> a = a' /\ b = b'.
Proof.
  revert a'. induction a as [|x a IH]; intros [|y a'] Hl H; try discriminate.
  - split; [reflexivity|exact H].
  - cbn in Hl, H. injection H as Hxy H. injection Hl as Hl.
    destruct (IH a' Hl H) as [-> ->]. subst. split; reflexivity.
Qed.

Lemma be16_length v : length (be16 v) = 2%nat. Proof. reflexivity. Qed.
Lemma be32_length v : length (be32 v) = 4%nat. Proof. reflexivity. Qed.
Lemma enc_sps_length s : length (enc_sps s) = 6%nat. Proof. reflexivity. Qed.

(* ---- big-endian fields are injective on their range ------------------------- *)
Lemma be16_decode v : 0 <= v < 65536 -> v = (v / 256) mod 256 * 256 + v mod 256.
Proof.
  intros H.
  assert (H1 : 0 <= v / 256 < 256).
  { split; [apply Z.div_pos; lia|apply Z.div_lt_upper_bound; lia]. }
  rewrite (Z.mod_small (v / 256)) by exact H1.
  pose proof (Z.div_mod v 256). lia.
Qed.

Lemma be32_decode v : 0 <= v < 4294967296 ->
  v = (v / 16777216) mod 256 * 16777216 + (v / 65536) mod 256 * 65536 + (v / 256) mod 256 * 256 + v mod 256.
Proof.
  intros H.
  replace (v / 65536) with (v / 256 / 256) by (rewrite Z.div_div by lia; reflexivity).
  replace (v / 16777216) with (v / 256 / 256 / 256) by (rewrite !Z.div_div by lia; reflexivity).
  pose proof (Z.div_mod v 256) as E1.
  pose proof (Z.div_mod (v / 256) 256) as E2.
  pose proof (Z.div_mod (v / 256 / 256) 256) as E3.
  assert (H1 : 0 <= v / 256 / 256 / 256 < 256).
  { split; [repeat apply Z.div_pos; lia|].
    rewrite !Z.div_div by lia. apply Z.div_lt_upper_bound; lia. }
  rewrite (Z.mod_small (v / 256 / 256 / 256)) by exact H1.
  lia.
Qed.

Lemma be16_inj a b : 0 <= a < 65536 -> 0 <= b < 65536 -> be16 a = be16 b -> a = b.
Proof.
  intros Ha Hb H. unfold be16 in H. injection H as H1 H2.
  rewrite (be16_decode a Ha), (be16_decode b Hb), H1, H2. reflexivity.
Qed.

Lemma be32_inj a b : 0 <= a < 4294967296 -> 0 <= b < 4294967296 -> be32 a = be32 b -> a = b.
Proof.
  intros Ha Hb H. unfold be32 in H. injection H as H1 H2 H3 H4.
  rewrite (be32_decode a Ha), (be32_decode b Hb), H1, H2, H3, H4. reflexivity.
Qed.

Lemma be16_bytes v : Forall byte_ok (be16 v).
Proof. unfold be16, byte_ok. repeat constructor; apply Z.mod_pos_bound; lia. Qed.
Lemma be32_bytes v : Forall byte_ok (be32 v).
Proof. unfold be32, byte_ok. repeat constructor; apply Z.mod_pos_bound; lia. Qed.

(* ---- segments --------------------------------------------------------------- *)
Lemma enc_sps_inj s s' R R' :
  wf_sps s -> wf_sps s' -> enc_sps s ++ R = enc_sps s' ++ R' -> s = s' /\ R = R'.
Proof.
  intros (_ & _ & Ha) (_ & _ & Ha') H.
  destruct (app_inj_len (enc_sps s) (enc_sps s') _ _ eq_refl H) as [E ->].
  split; [|reflexivity].
  destruct s as [p f a], s' as [p' f' a']. unfold enc_sps in E. cbn [sp_pcount sp_flags sp_asn] in *.
  cbn [app] in E. injection E as Ep Ef E.
  assert (a = a') by (apply be32_inj; [exact Ha|exact Ha'|unfold be32; congruence]).
  subst. reflexivity.
Qed.

Lemma enc_sgs_inj g g' R R' :
  wf_sgs g -> wf_sgs g' -> enc_sgs g ++ R = enc_sgs g' ++ R' -> g = g' /\ R = R'.
Proof.
  intros [Hk Hl] [Hk' Hl'] H. unfold enc_sgs in H. rewrite <- !app_assoc in H.
  destruct (app_inj_len _ _ _ _ (eq_trans Hk (eq_sym Hk')) H) as [Eski H1].
  destruct (app_inj_len (be16 (Z.of_nat (length (sg_sig g)))) (be16 (Z.of_nat (length (sg_sig g')))) _ _ eq_refl H1) as [Elen H2].
  apply be16_inj in Elen; [|lia|lia].
  assert (El : length (sg_sig g) = length (sg_sig g')) by lia.
  destruct (app_inj_len _ _ _ _ El H2) as [Esig ->].
  destruct g, g'. cbn in *. subst. split; reflexivity.
Qed.

Lemma enc_segments_shape secs sigs r :
  enc_segments secs sigs = Some r -> length secs = S (length sigs).
Proof.
  revert sigs r. induction secs as [|s secs IH]; intros sigs r H; [discriminate|].
  cbn in H. destruct sigs as [|g sigs].
  - destruct secs; [reflexivity|discriminate].
  - destruct (enc_segments secs sigs) eqn:E; [|discriminate].
    cbn. f_equal. exact (IH _ _ E).
Qed.

Lemma enc_segments_inj secs : forall secs' sigs sigs' r r' R R',
  length secs = length secs' ->
  Forall wf_sps secs -> Forall wf_sps secs' -> Forall wf_sgs sigs -> Forall wf_sgs sigs' ->
  enc_segments secs sigs = Some r -> enc_segments secs' sigs' = Some r' ->
  r ++ R = r' ++ R' ->
  secs = secs' /\ sigs = sigs' /\ R = R'.
Proof.
  induction secs as [|s secs IH]; intros secs' sigs sigs' r r' R R' Hlen Ws Ws' Wg Wg' E E' H;
    [discriminate|].
  destruct secs' as [|s' secs']; [discriminate|]. injection Hlen as Hlen.
  pose proof (enc_segments_shape _ _ _ E) as Sh. pose proof (enc_segments_shape _ _ _ E') as Sh'.
  cbn [length] in Sh, Sh'.
  inversion Ws as [|? ? Ws1 Ws2]; subst. inversion Ws' as [|? ? Ws1' Ws2']; subst.
  cbn in E, E'.
  destruct sigs as [|g sigs]; destruct sigs' as [|g' sigs']; cbn [length] in Sh, Sh'; try lia.
  - destruct secs; [|discriminate]. destruct secs'; [|discriminate].
    injection E as <-. injection E' as <-.
    destruct (enc_sps_inj _ _ _ _ Ws1 Ws1' H) as [-> ->]. repeat split.
  - destruct (enc_segments secs sigs) as [q|] eqn:Q; [|discriminate].
    destruct (enc_segments secs' sigs') as [q'|] eqn:Q'; [|discriminate].
    injection E as <-. injection E' as <-.
    inversion Wg as [|? ? Wg1 Wg2]; subst. inversion Wg' as [|? ? Wg1' Wg2']; subst.
    rewrite <- !app_assoc in H.
    destruct (enc_sgs_inj _ _ _ _ Wg1 Wg1' H) as [-> H1].
    destruct (enc_sps_inj _ _ _ _ Ws1 Ws1' H1) as [-> H2].
    destruct (IH _ _ _ _ _ _ _ Hlen Ws2 Ws2' Wg2 Wg2' Q Q' H2) as (-> & -> & ->).
    repeat split.
Qed.

(* ---- the whole message ------------------------------------------------------ *)
Lemma message_inj t t' secs secs' sigs sigs' alg alg' afi afi' safi safi' n n' m :
  length secs = length secs' ->
  0 <= t < 4294967296 -> 0 <= t' < 4294967296 ->
  Forall wf_sps secs -> Forall wf_sps secs' -> Forall wf_sgs sigs -> Forall wf_sgs sigs' ->
  0 <= afi < 65536 -> 0 <= afi' < 65536 ->
  message t secs sigs alg afi safi n = Some m ->
  message t' secs' sigs' alg' afi' safi' n' = Some m ->
  t = t' /\ secs = secs' /\ sigs = sigs' /\ alg = alg' /\ afi = afi' /\ safi = safi' /\ n = n'.
Proof.
  intros Hlen Ht Ht' Ws Ws' Wg Wg' Ha Ha' M M'. unfold message in M, M'.
  destruct (enc_segments secs sigs) as [r|] eqn:E; [|discriminate].
  destruct (enc_segments secs' sigs') as [r'|] eqn:E'; [|discriminate].
  assert (M2 : be32 t' ++ r' ++ [alg'] ++ be16 afi' ++ [safi'] ++ enc_nlri n' =
               be32 t ++ r ++ [alg] ++ be16 afi ++ [safi] ++ enc_nlri n) by congruence.
  clear M M'.
  destruct (app_inj_len (be32 t') (be32 t) _ _ eq_refl M2) as [Et H1].
  apply be32_inj in Et; [|assumption|assumption]. subst t'.
  destruct (enc_segments_inj _ _ _ _ _ _ _ _ (eq_sym Hlen) Ws' Ws Wg' Wg E' E H1) as (-> & -> & H2).
  destruct (app_inj_len [alg'] [alg] _ _ eq_refl H2) as [Ealg H2'].
  injection Ealg as ->.
  destruct (app_inj_len (be16 afi') (be16 afi) _ _ eq_refl H2') as [Eafi H3].
  apply be16_inj in Eafi; [|assumption|assumption]. subst afi'.
  destruct (app_inj_len [safi'] [safi] _ _ eq_refl H3) as [Esafi H4].
  injection Esafi as ->. unfold enc_nlri in H4. injection H4 as Hl Hp.
  destruct n, n'. cbn in *. subst. repeat split.
Qed.

(* the digest of the most recent hop covers every signed field of the update *)
Lemma digest0_inj u u' m :
  length (u_secs u) = length (u_secs u') -> wf_update u -> wf_update u' ->
  digest_for_hop 0 u = Some m -> digest_for_hop 0 u' = Some m ->
  u_target u = u_target u' /\ u_secs u = u_secs u' /\ tl (u_sigs u) = tl (u_sigs u') /\
  u_alg u = u_alg u' /\ u_afi u = u_afi u' /\ u_safi u = u_safi u' /\ u_nlri u = u_nlri u'.
Proof.
  intros Hlen (Ht & Ws & Wg & _ & Ha & _ & _) (Ht' & Ws' & Wg' & _ & Ha' & _ & _) D D'.
  unfold digest_for_hop in D, D'. cbn [digest_for_hop_rec] in D, D'.
  destruct (u_sigs u) as [|g older]; [discriminate|].
  destruct (u_sigs u') as [|g' older']; [discriminate|].
  inversion Wg; subst. inversion Wg'; subst. cbn [tl].
  eapply message_inj; eauto.
Qed.

(* every hop's digest: the segments from k on, the later signatures, the AS it was sent to *)
Lemma digest_rec_inj k : forall t t' secs secs' sigs sigs' alg alg' afi afi' safi safi' n n' m,
  length secs = length secs' ->
  0 <= t < 4294967296 -> 0 <= t' < 4294967296 ->
  Forall wf_sps secs -> Forall wf_sps secs' -> Forall wf_sgs sigs -> Forall wf_sgs sigs' ->
  0 <= afi < 65536 -> 0 <= afi' < 65536 ->
  digest_for_hop_rec k t secs sigs alg afi safi n = Some m ->
  digest_for_hop_rec k t' secs' sigs' alg' afi' safi' n' = Some m ->
  skipn k secs = skipn k secs' /\ skipn (S k) sigs = skipn (S k) sigs' /\
  alg = alg' /\ afi = afi' /\ safi = safi' /\ n = n' /\
  match k with
  | O => t = t'
  | S j => option_map sp_asn (nth_error secs j) = option_map sp_asn (nth_error secs' j)
  end.
Proof.
  induction k as [|k IH]; intros t t' secs secs' sigs sigs' alg alg' afi afi' safi safi' n n' m
                                 Hlen Ht Ht' Ws Ws' Wg Wg' Ha Ha' D D'.
  - cbn [digest_for_hop_rec] in D, D'.
    destruct sigs as [|g older]; [discriminate|]. destruct sigs' as [|g' older']; [discriminate|].
    inversion Wg; subst. inversion Wg'; subst.
    destruct (message_inj _ _ _ _ _ _ _ _ _ _ _ _ _ _ _ Hlen Ht Ht' Ws Ws' H2 H4 Ha Ha' D D')
      as (-> & -> & -> & -> & -> & -> & ->).
    cbn. repeat split.
  - cbn [digest_for_hop_rec] in D, D'.
    destruct secs as [|s secs]; [discriminate|]. destruct secs' as [|s' secs']; [discriminate|].
    destruct sigs as [|g sigs]; [discriminate|]. destruct sigs' as [|g' sigs']; [discriminate|].
    injection Hlen as Hlen.
    inversion Ws as [|? ? (_ & _ & A) Ws2]; subst. inversion Ws' as [|? ? (_ & _ & A') Ws2']; subst.
    inversion Wg; subst. inversion Wg'; subst.
    destruct (IH _ _ _ _ _ _ _ _ _ _ _ _ _ _ _ Hlen A A' Ws2 Ws2' H2 H4 Ha Ha' D D')
      as (E1 & E2 & -> & -> & -> & -> & E3).
    cbn [skipn]. repeat split; try assumption.
    destruct k as [|j]; cbn [nth_error option_map]; [now rewrite E3|exact E3].
Qed.
