(* Toy.v - a concrete, executable stand-in for the cryptographic environment, used only to
   show that the hypotheses of the C11/C12 theorems are satisfiable and as the witness of
   C11_refuted.  "verifies" iff the signature has at least 8 octets and starts with the first
   octet of the key; the hash is the identity. *)
From RtrV Require Import Base.CSem Bgpsec.DigestSpec Bgpsec.Align Bgpsec.Validate Bgpsec.Sign.
Local Open Scope Z_scope.
Local Notation length := List.length (only parsing).

Definition toy_sha (m : list Z) : list Z := m.
Definition toy_load (spki : list Z) : bool := true.
(* "verifies" iff the signature is at least 8 octets and starts with the key's first octet *)
Definition toy_verify (spki h sg : list Z) : Z :=
  if (8 <=? Z.of_nat (length sg)) && bytes_eqb (firstn 1 sg) (firstn 1 spki) then 1 else 0.

Lemma toy_verify_der spki h sg : toy_verify spki h sg = 1 -> 8 <= Z.of_nat (length sg).
Proof.
  unfold toy_verify. destruct (8 <=? Z.of_nat (length sg)) eqn:E; cbn [andb]; [|discriminate].
  intros _. apply Z.leb_le in E. exact E.
Qed.

(* a second stand-in whose signatures bind the hash: the signature is the key's first octet
   followed by the hash itself (used to show that the hypotheses of C11_bitflip are satisfiable) *)
Definition toy2_verify (spki h sg : list Z) : Z :=
  if bytes_eqb sg (hd 0 spki :: h) then 1 else 0.

Definition toy_load_priv (priv : list Z) : bool := true.
Definition toy_size (priv : list Z) : Z := 72.
Definition toy_sign (priv h : list Z) : list Z :=
  match priv with k :: _ => k :: repeat 0 69 | [] => repeat 0 70 end.
Definition toy_pair (priv spki : list Z) : Prop := exists k r r', priv = k :: r /\ spki = k :: r'.

Lemma toy_pair_loads priv spki : toy_pair priv spki ->
  toy_load_priv priv = true /\ toy_load spki = true /\ 0 < toy_size priv < 65536.
Proof. intros _. unfold toy_size. repeat split; lia. Qed.
Lemma toy_pair_verifies priv spki h : toy_pair priv spki -> toy_verify spki h (toy_sign priv h) = 1.
Proof. intros (k & r & r' & -> & ->). unfold toy_verify, toy_sign. cbn. rewrite Z.eqb_refl. reflexivity. Qed.
Lemma toy_sign_length priv spki h : toy_pair priv spki ->
  8 <= Z.of_nat (List.length (toy_sign priv h)) <= toy_size priv.
Proof. intros (k & r & r' & -> & ->). unfold toy_sign, toy_size. cbn. lia. Qed.

