(* Sign.v - model of rtr_bgpsec_generate_signature (bgpsec.c), load_private_key and
   sign_byte_sequence (bgpsec_utils.c), rtr_bgpsec_prepend_sec_path_seg and
   rtr_bgpsec_prepend_sig_seg; and "building a path hop by hop".

   Section variables (never axioms):
     sha256     : SHA-256
     load_priv  : load_private_key succeeded (d2i_ECPrivateKey + EC_KEY_check_key)
     ecdsa_size : ECDSA_size(key)
     ecdsa_sign : the bytes ECDSA_sign produced ([] when it reported no signature)     *)
From RtrV Require Import Base.CSem Bgpsec.DigestSpec Bgpsec.Align Bgpsec.Validate.
Local Open Scope Z_scope.
Local Notation length := List.length (only parsing).

Definition ski_is_empty (ski : list Z) : bool := forallb (fun b => b =? 0) ski.

(* rtr_bgpsec_prepend_sec_path_seg: path_len is a uint8_t *)
Definition prepend_sec (d : bgpsec_c) (s : sps) : bgpsec_c :=
  mk_bgpsec_c (b_alg d) (b_safi d) (b_afi d) (b_my_as d) (b_target_as d)
              (b_sigs_len d) (wrapu 8 (b_path_len d + 1)) (b_nlri d) (b_sigs d) (s :: b_path d).

(* rtr_bgpsec_prepend_sig_seg: refuses an empty signature or an all-zero SKI; sigs_len is uint16_t *)
Definition prepend_sig (d : bgpsec_c) (g : sgs) : option bgpsec_c :=
  if (sig_len g =? 0) || ski_is_empty (sg_ski g) then None
  else Some (mk_bgpsec_c (b_alg d) (b_safi d) (b_afi d) (b_my_as d) (b_target_as d)
                         (wrapu 16 (b_sigs_len d + 1)) (b_path_len d) (b_nlri d)
                         (g :: b_sigs d) (b_path d)).

Definition set_target (d : bgpsec_c) (target : Z) : bgpsec_c :=
  mk_bgpsec_c (b_alg d) (b_safi d) (b_afi d) (b_my_as d) target
              (b_sigs_len d) (b_path_len d) (b_nlri d) (b_sigs d) (b_path d).

Section SignCrypto.
  Variable sha256 : list Z -> list Z.
  Variable load_priv : list Z -> bool.
  Variable ecdsa_size : list Z -> Z.
  Variable ecdsa_sign : list Z -> list Z -> list Z.

  (* [priv] = None is a NULL private_key; [out_null] says *new_signature == NULL on entry.
     Result: return value and the Signature Segment left in *new_signature (SKI all zero:
     the caller fills it in).  [None] = undefined behaviour. *)
  Definition generate_signature (d : bgpsec_c) (priv : option (list Z)) (out_null : bool)
    : option (Z * option sgs) :=
    match b_path d, priv, out_null with
    | [], _, _ | _, None, _ | _, _, false => Some (BGPSEC_INVALID_ARGUMENTS, None)
    | _ :: _, Some key, true =>
        if negb (has_algorithm_suite (b_alg d)) then Some (BGPSEC_UNSUPPORTED_ALGORITHM_SUITE, None)
        else if negb (n_afi (b_nlri d) =? BGPSEC_IPV4) && negb (n_afi (b_nlri d) =? BGPSEC_IPV6)
             then Some (BGPSEC_UNSUPPORTED_AFI, None)
        else if negb (b_path_len d =? b_sigs_len d + 1) then Some (BGPSEC_WRONG_SEGMENT_COUNT, None)
        else if negb (load_priv key) then Some (BGPSEC_LOAD_PRIV_KEY_ERROR, None)
        else if ecdsa_size key =? 0 then Some (BGPSEC_LOAD_PRIV_KEY_ERROR, None)
        else
          do s <- aligned_stream d SIGNING;
          (* hashes get_stream_size(s) bytes from get_stream_start(s) *)
          let h := sha256 (st_buf s) in
          if negb (b_alg d =? ALGORITHM_SUITE_1) then Some (BGPSEC_UNSUPPORTED_ALGORITHM_SUITE, None)
          else
            let sg := ecdsa_sign key h in
            if Z.of_nat (length sg) >? wrapu 16 (ecdsa_size key) then None  (* writes past the calloc'ed buffer *)
            else if Z.of_nat (length sg) <? 1 then Some (BGPSEC_SIGNING_ERROR, None)
            else Some (BGPSEC_SUCCESS, Some (mk_sgs (repeat 0 (Z.to_nat c_SKI_SIZE)) sg))
    end.

  (* One AS forwarding (or originating) the update: prepend its Secure_Path Segment, set the
     target AS, generate the signature, copy its SKI into the new segment, prepend it. *)
  Record hop := mk_hop { h_asn : Z; h_pcount : Z; h_flags : Z; h_priv : list Z; h_ski : list Z }.

  Definition forward (d : bgpsec_c) (h : hop) (target : Z) : option bgpsec_c :=
    let d1 := set_target (prepend_sec d (mk_sps (h_pcount h) (h_flags h) (h_asn h))) target in
    match generate_signature d1 (Some (h_priv h)) true with
    | Some (rv, Some g) =>
        if rv =? BGPSEC_SUCCESS then prepend_sig d1 (mk_sgs (h_ski h) (sg_sig g)) else None
    | _ => None
    end.

  (* hops from the origin onwards, each with the AS it sends to *)
  Fixpoint build (d : bgpsec_c) (hops : list (hop * Z)) : option bgpsec_c :=
    match hops with
    | [] => Some d
    | (h, target) :: r => do d' <- forward d h target; build d' r
    end.
End SignCrypto.
