(* Align.v - model of rtrlib/bgpsec/bgpsec_utils.c (stream, req_stream_size,
   get_sig_seg_size, align_byte_sequence, read_stream_at) and of the offset
   arithmetic of the loop in rtr_bgpsec_validate_as_path (bgpsec.c).

   Executable definitions only.  C integer widths are explicit ([wrapu]); a memcpy
   outside an allocation, a NULL dereference or a read of uninitialised memory is
   [None].  Byte order: htonl/htons followed by a byte-wise copy = big-endian.     *)
From RtrV Require Import Base.CSem Bgpsec.DigestSpec.
Local Open Scope Z_scope.
Local Notation length := List.length (only parsing).

(* ---- enum rtr_bgpsec_rtvals (bgpsec.h); compared with the C values on every run ---- *)
Definition BGPSEC_NOT_VALID : Z := 2.
Definition BGPSEC_VALID : Z := 1.
Definition BGPSEC_SUCCESS : Z := 0.
Definition BGPSEC_ERROR : Z := -1.
Definition BGPSEC_LOAD_PUB_KEY_ERROR : Z := -2.
Definition BGPSEC_LOAD_PRIV_KEY_ERROR : Z := -3.
Definition BGPSEC_ROUTER_KEY_NOT_FOUND : Z := -4.
Definition BGPSEC_SIGNING_ERROR : Z := -5.
Definition BGPSEC_UNSUPPORTED_ALGORITHM_SUITE : Z := -6.
Definition BGPSEC_UNSUPPORTED_AFI : Z := -7.
Definition BGPSEC_WRONG_SEGMENT_COUNT : Z := -8.
Definition BGPSEC_INVALID_ARGUMENTS : Z := -9.
Definition ALGORITHM_SUITE_1 : Z := 1.
Definition BGPSEC_IPV4 : Z := 1.
Definition BGPSEC_IPV6 : Z := 2.
Definition SECURE_PATH_SEG_SIZE : Z := 6.
Definition c_SKI_SIZE : Z := 20.   (* SKI_SIZE, spkitable.h; also compared with the C value on every run *)

(* ---- struct rtr_bgpsec_nlri / struct rtr_bgpsec ------------------------------
   The segment lists are the linked lists in order; [b_path_len]/[b_sigs_len] are the
   separate count fields (uint8_t / uint16_t) the code compares and multiplies.
   A Signature Segment's [sig_len] is the length of its buffer.                     *)
Record nlri_c := mk_nlri_c { n_afi : Z; n_safi : Z; n_len : Z; n_bytes : list Z }.
Record bgpsec_c := mk_bgpsec_c {
  b_alg : Z; b_safi : Z; b_afi : Z; b_my_as : Z; b_target_as : Z;
  b_sigs_len : Z; b_path_len : Z;
  b_nlri : nlri_c; b_sigs : list sgs; b_path : list sps }.

Definition sig_len (g : sgs) : Z := Z.of_nat (length (sg_sig g)).

Inductive align_type := VALIDATION | SIGNING.

(* ---- struct stream: size_t size; uint8_t *stream; uint16_t w_head ------------ *)
Record stream := mk_stream { st_size : Z; st_buf : list Z; st_whead : Z }.

(* init_stream(uint16_t size): the argument is truncated to 16 bits; calloc'ed *)
Definition init_stream (size : Z) : stream :=
  let sz := wrapu 16 size in mk_stream sz (repeat 0 (Z.to_nat sz)) 0.

(* write_stream: memcpy(s->stream + s->w_head, data, len); s->w_head += len (uint16_t).
   A copy that ends past the allocation is undefined. *)
Definition write_stream (s : stream) (data : list Z) : option stream :=
  let len := Z.of_nat (length data) in
  if st_whead s + len >? st_size s then None
  else Some (mk_stream (st_size s)
                       (firstn (Z.to_nat (st_whead s)) (st_buf s) ++ data ++
                        skipn (Z.to_nat (st_whead s + len)) (st_buf s))
                       (wrapu 16 (st_whead s + len))).

Fixpoint write_all (s : stream) (chunks : list (list Z)) : option stream :=
  match chunks with
  | [] => Some s
  | c :: r => do s' <- write_stream s c; write_all s' r
  end.

(* one Signature Segment: ski[SKI_SIZE], htons(sig_len), signature[sig_len] *)
Definition sig_chunks (g : sgs) : list (list Z) := [sg_ski g; be16 (sig_len g); sg_sig g].
(* one Secure_Path Segment: pcount, flags, htonl(asn) *)
Definition sec_chunks (s : sps) : list (list Z) := [[sp_pcount s]; [sp_flags s]; be32 (sp_asn s)].

(* the while (tmp_sec) loop of align_byte_sequence *)
Fixpoint align_loop (secs : list sps) (tmp_sig : list sgs) (s : stream) : option stream :=
  match secs with
  | [] => Some s
  | sec :: secs' =>
      do s1 <- match tmp_sig with
               | g :: _ => write_all s (sig_chunks g)
               | [] => Some s
               end;
      do s2 <- write_all s1 (sec_chunks sec);
      align_loop secs' (tl tmp_sig) s2
  end.

(* NLRI_BYTE_LEN(data) bytes are read from data->nlri->nlri *)
Definition nlri_byte_len (d : bgpsec_c) : Z := (n_len (b_nlri d) + 7) / 8.
Definition nlri_read (d : bgpsec_c) : option (list Z) :=
  let n := Z.to_nat (nlri_byte_len d) in
  if (n <=? length (n_bytes (b_nlri d)))%nat then Some (firstn n (n_bytes (b_nlri d))) else None.

Definition align_byte_sequence (d : bgpsec_c) (s : stream) (ty : align_type) : option stream :=
  do s0 <- write_stream s (be32 (b_target_as d));
  do tmp_sig <- match ty with
                | VALIDATION => match b_sigs d with [] => None | _ :: r => Some r end  (* data->sigs->next *)
                | SIGNING => Some (b_sigs d)
                end;
  do s1 <- align_loop (b_path d) tmp_sig s0;
  do s2 <- write_stream s1 [b_alg d];
  do s3 <- write_stream s2 (be16 (b_afi d));
  do s4 <- write_stream s3 [b_safi d];
  do s5 <- write_stream s4 [n_len (b_nlri d)];
  do nb <- nlri_read d;
  write_stream s5 nb.

(* get_sig_seg_size: unsigned int accumulator, returned as int *)
Fixpoint sig_segs_sum (l : list sgs) (acc : Z) : Z :=
  match l with
  | [] => acc
  | g :: r => sig_segs_sum r (wrapu 32 (acc + (sig_len g + 2 + c_SKI_SIZE)))
  end.
Definition get_sig_seg_size (sigs : list sgs) (ty : align_type) : Z :=
  match sigs with
  | [] => 0
  | _ :: r => wraps 32 (sig_segs_sum (match ty with VALIDATION => r | SIGNING => sigs end) 0)
  end.

(* req_stream_size: unsigned int arithmetic, uint8_t nlri_len_b *)
Definition req_stream_size (d : bgpsec_c) (ty : align_type) : Z :=
  let sig_segs_size := wrapu 32 (get_sig_seg_size (b_sigs d) ty) in
  let nlri_len_b := wrapu 8 ((n_len (b_nlri d) + 7) / 8) in
  wrapu 32 (9 + nlri_len_b + sig_segs_size + SECURE_PATH_SEG_SIZE * b_path_len d).

(* unsigned int stream_size = req_stream_size(...); s = init_stream(stream_size); align(...) *)
Definition aligned_stream (d : bgpsec_c) (ty : align_type) : option stream :=
  align_byte_sequence d (init_stream (wrapu 32 (req_stream_size d ty))) ty.

(* read_stream_at(buff, s, uint16_t start, uint16_t len) into a buffer of [len0] (size_t)
   bytes from malloc, all [len0] bytes of which are then hashed: bytes that were not
   copied are uninitialised. *)
Definition read_for_hash (s : stream) (start0 len0 : Z) : option (list Z) :=
  let start := wrapu 16 start0 in
  let len := wrapu 16 len0 in
  let len := if start + len >? st_size s then wrapu 16 (st_size s - start) else len in
  if (len =? len0) && (start + len <=? Z.of_nat (length (st_buf s)))
  then Some (firstn (Z.to_nat len) (skipn (Z.to_nat start) (st_buf s)))
  else None.

(* next_offset = tmp_sig_len + SKI_SIZE + sizeof(tmp_sig->sig_len) + SECURE_PATH_SEG_SIZE,
   tmp_sig_len = the *next* segment's sig_len, or the current one's for the last segment *)
Definition next_offset (g : sgs) (rest : list sgs) : Z :=
  let tmp_sig_len := match rest with g' :: _ => sig_len g' | [] => sig_len g end in
  wrapu 32 (tmp_sig_len + c_SKI_SIZE + 2 + SECURE_PATH_SEG_SIZE).

(* the bytes hashed in the successive iterations of the validation loop, as far as the
   loop's own arithmetic goes (one entry per Signature Segment) *)
Fixpoint hashed_at (s : stream) (tmp_sig : list sgs) (offset : Z) : list (option (list Z)) :=
  match tmp_sig with
  | [] => []
  | g :: rest => read_for_hash s offset (st_size s - offset)
                 :: hashed_at s rest (wrapu 32 (offset + next_offset g rest))
  end.

Definition hashed_for_validation (d : bgpsec_c) : option (list (option (list Z))) :=
  do s <- aligned_stream d VALIDATION; Some (hashed_at s (b_sigs d) 0).

(* ---- the view of a C struct as an RFC update -------------------------------- *)
Definition to_nlri (d : bgpsec_c) : nlri :=
  mk_nlri (n_len (b_nlri d)) (firstn (Z.to_nat (nlri_byte_len d)) (n_bytes (b_nlri d))).
Definition to_update (d : bgpsec_c) : update :=
  mk_update (b_target_as d) (b_path d) (b_sigs d) (b_alg d) (b_afi d) (b_safi d) (to_nlri d).

(* what the API constructors guarantee about a struct rtr_bgpsec *)
Definition wf_data (d : bgpsec_c) : Prop :=
  0 <= b_target_as d < 4294967296 /\ Forall wf_sps (b_path d) /\ Forall wf_sgs (b_sigs d) /\
  byte_ok (b_alg d) /\ 0 <= b_afi d < 65536 /\ byte_ok (b_safi d) /\
  0 <= n_len (b_nlri d) < 256 /\ nlri_byte_len d <= Z.of_nat (length (n_bytes (b_nlri d))).
Definition counts_ok (d : bgpsec_c) : Prop :=
  b_path_len d = Z.of_nat (length (b_path d)) /\ b_path_len d < 256 /\
  b_sigs_len d = Z.of_nat (length (b_sigs d)) /\ b_sigs_len d < 65536.

(* the number of bytes align_byte_sequence writes, computed without any C arithmetic *)
Fixpoint sigs_total (l : list sgs) : Z :=
  match l with [] => 0 | g :: r => 22 + sig_len g + sigs_total r end.
Definition total_bytes (d : bgpsec_c) (ty : align_type) : Z :=
  4 + 6 * Z.of_nat (length (b_path d))
  + sigs_total (match ty with VALIDATION => tl (b_sigs d) | SIGNING => b_sigs d end)
  + 5 + nlri_byte_len d.
