(* SpkiProofs.v - proofs about Spki/Hashlin.v and Spki/SpkiModel.v (property C10).
   Part 1: arithmetic of the bucket position.  Part 2: list lemmas.  Part 3: tommy_hashlin
   invariant, preserved by insert / remove across any number of grow / shrink steps.
   Part 4: the table (hash container + list) refines a duplicate-free list, for ANY hash function.
   Part 5: all histories. *)
From Coq Require Import ZArith List Bool Lia Permutation.
From RtrV Require Import Base.CSem Gen.Generated Spki.Hashlin Spki.SpkiModel.
Import ListNotations.
Local Open Scope Z_scope.
Local Notation length := List.length.
Local Notation concat := List.concat.

(* lia understands / and mod by constants through this hook (standard library) *)
Ltac Zify.zify_post_hook ::= Z.to_euclidean_division_equations.

(* ------------------------------------------------------------------------ *)
(* Part 1: masks                                                             *)
(* ------------------------------------------------------------------------ *)
Lemma land_ones_mod k b : 0 <= b -> Z.land k (2 ^ b - 1) = k mod 2 ^ b.
Proof.
  intros Hb. rewrite <- Z.land_ones by exact Hb. f_equal. rewrite Z.ones_equiv. lia.
Qed.

Lemma land_pow2 k b : 0 <= b -> Z.land k (2 ^ b) = if Z.testbit k b then 2 ^ b else 0.
Proof.
  intros Hb. apply Z.bits_inj'. intros n Hn. rewrite Z.land_spec, Z.pow2_bits_eqb by exact Hb.
  destruct (Z.testbit k b) eqn:E.
  - rewrite Z.pow2_bits_eqb by exact Hb. destruct (Z.eqb_spec b n) as [->|Hne].
    + rewrite E. reflexivity.
    + apply andb_false_r.
  - rewrite Z.bits_0. destruct (Z.eqb_spec b n) as [->|Hne].
    + rewrite E. reflexivity.
    + apply andb_false_r.
Qed.

Lemma mod_double k b : 0 <= b ->
  k mod 2 ^ (b + 1) = k mod 2 ^ b + (if Z.testbit k b then 2 ^ b else 0).
Proof.
  intros Hb. assert (Hp : 0 < 2 ^ b) by (apply Z.pow_pos_nonneg; lia).
  replace (2 ^ (b + 1)) with (2 ^ b * 2) by (rewrite Z.pow_add_r by lia; reflexivity).
  rewrite Z.rem_mul_r by lia. rewrite <- Z.testbit_spec' by exact Hb.
  destruct (Z.testbit k b); cbn [Z.b2z]; lia.
Qed.

(* everything the proofs need to know about the three masks used by tommy_hashlin_bucket_ref
   and by the split loop, for a table whose lower size is m = 2^b *)
Lemma pos_facts k b : 0 <= b ->
  0 <= Z.land k (2 ^ b - 1) < 2 ^ b /\
  ((Z.land k (2 ^ b) = 0 /\ Z.land k (2 * 2 ^ b - 1) = Z.land k (2 ^ b - 1)) \/
   (Z.land k (2 ^ b) <> 0 /\ Z.land k (2 * 2 ^ b - 1) = Z.land k (2 ^ b - 1) + 2 ^ b)).
Proof.
  intros Hb. assert (Hp : 0 < 2 ^ b) by (apply Z.pow_pos_nonneg; lia).
  replace (2 * 2 ^ b) with (2 ^ (b + 1)) by (rewrite Z.pow_add_r by lia; lia).
  rewrite !land_ones_mod by lia. rewrite mod_double, land_pow2 by exact Hb.
  split; [apply Z.mod_pos_bound; exact Hp|].
  destruct (Z.testbit k b); [right|left]; split; lia.
Qed.

(* the position function of tommy_hashlin_bucket_ref, by its three parameters *)
Definition posf (lmask bmask sp k : Z) : Z :=
  if Z.land k lmask <? sp then Z.land k bmask else Z.land k lmask.

(* position in a table of lower size 2^b that has already split the buckets below s *)
Definition P (b s k : Z) : Z := posf (2 ^ b - 1) (2 * 2 ^ b - 1) s k.

Lemma P_step b s k : 0 <= b -> 0 <= s < 2 ^ b ->
  P b (s + 1) k =
    if P b s k =? s then (if Z.land k (2 ^ b) =? 0 then s else s + 2 ^ b) else P b s k.
Proof.
  intros Hb Hs. unfold P, posf. destruct (pos_facts k b Hb) as [Hr Hc].
  destruct (Z.land k (2 ^ b - 1) <? s + 1) eqn:E1; destruct (Z.land k (2 ^ b - 1) <? s) eqn:E2;
    try apply Z.ltb_lt in E1; try apply Z.ltb_ge in E1; try apply Z.ltb_lt in E2; try apply Z.ltb_ge in E2;
    try lia.
  - (* p < s: both use the high mask *)
    destruct Hc as [[Hz Hq]|[Hz Hq]]; rewrite Hq.
    + destruct (Z.land k (2 ^ b - 1) =? s) eqn:E3; [apply Z.eqb_eq in E3; lia|reflexivity].
    + destruct (Z.land k (2 ^ b - 1) + 2 ^ b =? s) eqn:E3; [apply Z.eqb_eq in E3; lia|reflexivity].
  - (* p = s *)
    assert (Hps : Z.land k (2 ^ b - 1) = s) by lia.
    rewrite Hps, Z.eqb_refl.
    destruct Hc as [[Hz Hq]|[Hz Hq]]; rewrite Hq.
    + rewrite Hz. cbn. lia.
    + destruct (Z.land k (2 ^ b) =? 0) eqn:E3; [apply Z.eqb_eq in E3; lia|lia].
  - (* p > s *)
    destruct (Z.land k (2 ^ b - 1) =? s) eqn:E3; [apply Z.eqb_eq in E3; lia|reflexivity].
Qed.

Lemma P_range b s k : 0 <= b -> 0 <= s <= 2 ^ b -> 0 <= P b s k < 2 ^ b + s.
Proof.
  intros Hb Hs. unfold P, posf. destruct (pos_facts k b Hb) as [Hr Hc].
  destruct (Z.land k (2 ^ b - 1) <? s) eqn:E1; [apply Z.ltb_lt in E1|apply Z.ltb_ge in E1]; lia.
Qed.

Lemma P_zero b k bm : 0 <= b -> P b 0 k = Z.land k (2 ^ b - 1) /\ posf (2 ^ b - 1) bm 0 k = Z.land k (2 ^ b - 1).
Proof.
  intros Hb. unfold P, posf. destruct (pos_facts k b Hb) as [Hr _].
  destruct (Z.land k (2 ^ b - 1) <? 0) eqn:E1; [apply Z.ltb_lt in E1; lia|split; reflexivity].
Qed.

Lemma P_full b k : 0 <= b -> P b (2 ^ b) k = Z.land k (2 * 2 ^ b - 1).
Proof.
  intros Hb. unfold P, posf. destruct (pos_facts k b Hb) as [Hr _].
  destruct (Z.land k (2 ^ b - 1) <? 2 ^ b) eqn:E1; [reflexivity|apply Z.ltb_ge in E1; lia].
Qed.

(* ------------------------------------------------------------------------ *)
(* Part 2: lists                                                             *)
(* ------------------------------------------------------------------------ *)
Lemma upd_app_mid {X} (l1 : list X) (b x : X) (l2 : list X) n :
  length l1 = n -> upd n x (l1 ++ b :: l2) = l1 ++ x :: l2.
Proof.
  revert n. induction l1 as [|y l1 IH]; intros n Hn; subst n; cbn; [reflexivity|].
  f_equal. apply IH. reflexivity.
Qed.

Lemma nth_app_mid {X} (l1 : list X) (b d : X) (l2 : list X) n :
  length l1 = n -> nth n (l1 ++ b :: l2) d = b.
Proof. intros <-. apply nth_middle. Qed.

Lemma split_at {X} (l : list X) (n : nat) (d : X) :
  (n < length l)%nat -> exists l1 l2, l = l1 ++ nth n l d :: l2 /\ length l1 = n.
Proof. intros H. apply nth_split. exact H. Qed.

Lemma firstn_app_exact {X} (l1 l2 : list X) n : length l1 = n -> firstn n (l1 ++ l2) = l1.
Proof.
  intros <-. rewrite firstn_app, Nat.sub_diag, firstn_all. cbn. apply app_nil_r.
Qed.

Lemma filter_partition_perm {X} (f : X -> bool) (l : list X) :
  Permutation (filter f l ++ filter (fun x => negb (f x)) l) l.
Proof.
  induction l as [|x l IH]; cbn; [constructor|].
  destruct (f x); cbn.
  - constructor. exact IH.
  - apply Permutation_sym. apply Permutation_cons_app. apply Permutation_sym. exact IH.
Qed.

Lemma filter_perm {X} (f : X -> bool) (l l' : list X) :
  Permutation l l' -> Permutation (filter f l) (filter f l').
Proof.
  induction 1; cbn.
  - constructor.
  - destruct (f x); [constructor|]; assumption.
  - destruct (f x); destruct (f y); try apply Permutation_refl. apply perm_swap.
  - eapply Permutation_trans; eassumption.
Qed.

Lemma filter_none {X} (f : X -> bool) (l : list X) :
  (forall x, In x l -> f x = false) -> filter f l = [].
Proof.
  induction l as [|x l IH]; intros H; cbn; [reflexivity|].
  rewrite (H x (or_introl eq_refl)). apply IH. intros y Hy. apply H. right. exact Hy.
Qed.

Lemma remove_first_perm {X} (f : X -> bool) (l : list X) x :
  find f l = Some x -> Permutation l (x :: remove_first f l).
Proof.
  induction l as [|y l IH]; cbn; [discriminate|].
  destruct (f y) eqn:E.
  - intros H. injection H as ->. apply Permutation_refl.
  - intros H. eapply Permutation_trans; [apply perm_skip, IH, H|apply perm_swap].
Qed.

Lemma remove_first_none {X} (f : X -> bool) (l : list X) :
  (forall x, In x l -> f x = false) -> remove_first f l = l.
Proof.
  induction l as [|y l IH]; intros H; cbn; [reflexivity|].
  rewrite (H y (or_introl eq_refl)). f_equal. apply IH. intros z Hz. apply H. right. exact Hz.
Qed.

Lemma remove_first_app_hit {X} (f : X -> bool) (pre : list X) x r :
  (forall y, In y pre -> f y = false) -> f x = true -> remove_first f (pre ++ x :: r) = pre ++ r.
Proof.
  induction pre as [|y pre IH]; intros Hp Hx; cbn.
  - rewrite Hx. reflexivity.
  - rewrite (Hp y (or_introl eq_refl)). f_equal. apply IH; [|exact Hx].
    intros z Hz. apply Hp. right. exact Hz.
Qed.

Lemma find_app_hit {X} (f : X -> bool) (pre : list X) x r :
  (forall y, In y pre -> f y = false) -> f x = true -> find f (pre ++ x :: r) = Some x.
Proof.
  induction pre as [|y pre IH]; intros Hp Hx; cbn.
  - rewrite Hx. reflexivity.
  - rewrite (Hp y (or_introl eq_refl)). apply IH; [|exact Hx].
    intros z Hz. apply Hp. right. exact Hz.
Qed.

Lemma concat_length_perm {X} (l l' : list X) : Permutation l l' -> length l = length l'.
Proof. apply Permutation_length. Qed.

Lemma split_at' {X} (l : list X) n :
  (n < length l)%nat -> exists l1 x l2, l = l1 ++ x :: l2 /\ length l1 = n.
Proof.
  revert n. induction l as [|y l IH]; intros n H; cbn [length] in H; [lia|].
  destruct n as [|n].
  - exists [], y, l. split; reflexivity.
  - destruct (IH n ltac:(lia)) as (l1 & x & l2 & -> & <-).
    exists (y :: l1), x, l2. split; reflexivity.
Qed.

Lemma split_last_mid {X} (l : list X) n m :
  length l = S m -> (n < m)%nat ->
  exists l1 lo l2 hi, l = (l1 ++ lo :: l2) ++ [hi] /\ length l1 = n /\ length (l1 ++ lo :: l2) = m.
Proof.
  intros Hl Hn. destruct (exists_last (l := l)) as (front & hi & ->).
  { intros ->. discriminate. }
  rewrite app_length in Hl. cbn [length] in Hl.
  destruct (split_at' front n ltac:(lia)) as (l1 & lo & l2 & -> & Hl1).
  exists l1, lo, l2, hi. repeat split; [exact Hl1|lia].
Qed.

Lemma perm_split_bucket {X} (c1 lo hi j c2 : list X) :
  Permutation (lo ++ hi) j -> Permutation ((c1 ++ lo ++ c2) ++ hi) (c1 ++ j ++ c2).
Proof.
  intros H. rewrite <- H. rewrite <- !app_assoc. apply Permutation_app_head.
  apply Permutation_app_head. apply Permutation_app_comm.
Qed.

Lemma remove_first_incl {X} (f : X -> bool) (l : list X) x : In x (remove_first f l) -> In x l.
Proof.
  induction l as [|y l IH]; cbn; [tauto|]. destruct (f y); cbn; [tauto|]. intros [->|H]; [left; reflexivity|right; exact (IH H)].
Qed.

(* ------------------------------------------------------------------------ *)
(* Part 3: tommy_hashlin                                                     *)
(* ------------------------------------------------------------------------ *)
Lemma P_step_cases b s k : 0 <= b -> 0 <= s < 2 ^ b ->
  (P b s k = s /\ ((P b (s + 1) k = s /\ Z.land k (2 ^ b) = 0) \/ (P b (s + 1) k = s + 2 ^ b /\ Z.land k (2 ^ b) <> 0))) \/
  (P b s k <> s /\ P b (s + 1) k = P b s k).
Proof.
  intros Hb Hs. rewrite (P_step b s k Hb Hs).
  destruct (P b s k =? s) eqn:E; [apply Z.eqb_eq in E|apply Z.eqb_neq in E].
  - left. split; [exact E|]. destruct (Z.land k (2 ^ b) =? 0) eqn:E2; [apply Z.eqb_eq in E2|apply Z.eqb_neq in E2]; [left|right]; split; auto.
  - right. split; [exact E|reflexivity].
Qed.

Section HashlinProofs.
Variable A : Type.
Variable bit0 : Z.
Hypothesis bit0_nonneg : 0 <= bit0.
Local Notation hashlin := (hashlin A).
Local Notation node := (node A).

Fixpoint placed (Pf : Z -> Z) (off : Z) (bs : list (list node)) : Prop :=
  match bs with
  | [] => True
  | b :: r => Forall (fun n => Pf (fst n) = off) b /\ placed Pf (off + 1) r
  end.

Lemma placed_app Pf off l1 l2 :
  placed Pf off (l1 ++ l2) <-> placed Pf off l1 /\ placed Pf (off + Z.of_nat (length l1)) l2.
Proof.
  revert off. induction l1 as [|x l1 IH]; intros off; cbn [app placed length].
  - rewrite Z.add_0_r. tauto.
  - rewrite IH. replace (off + 1 + Z.of_nat (length l1)) with (off + Z.of_nat (S (length l1))) by lia. tauto.
Qed.

Lemma placed_change Pf Pf' off bs :
  placed Pf off bs ->
  (forall k, off <= Pf k < off + Z.of_nat (length bs) -> Pf' k = Pf k) ->
  placed Pf' off bs.
Proof.
  revert off. induction bs as [|x r IH]; intros off H Hc; cbn [placed length] in *; [exact I|].
  destruct H as [Hb Hr]. split.
  - eapply Forall_impl; [|exact Hb]. intros n Hn. cbn beta in Hn. rewrite Hc; lia.
  - apply IH; [exact Hr|]. intros k Hk. apply Hc. lia.
Qed.

Lemma placed_bound Pf off bs x n :
  placed Pf off bs -> In x bs -> In n x -> off <= Pf (fst n) < off + Z.of_nat (length bs).
Proof.
  revert off. induction bs as [|y r IH]; intros off H Hx Hn; cbn [placed length] in *; [contradiction|].
  destruct H as [Hb Hr]. destruct Hx as [->|Hx].
  - rewrite Forall_forall in Hb. rewrite (Hb n Hn). lia.
  - specialize (IH _ Hr Hx Hn). lia.
Qed.

Lemma placed_concat_bound Pf off bs n :
  placed Pf off bs -> In n (concat bs) -> off <= Pf (fst n) < off + Z.of_nat (length bs).
Proof.
  intros H Hn. apply in_concat in Hn as (x & Hx & Hn). eapply placed_bound; eassumption.
Qed.

(* the shape of a table whose lower size is 2^b *)
Record hl_shape (h : hashlin) (b : Z) : Prop := mkShape {
  sh_b : bit0 <= b;
  sh_low_max : low_max h = 2 ^ b;
  sh_low_mask : low_mask h = 2 ^ b - 1;
  sh_bmax : bucket_max h = 2 ^ bucket_bit h;
  sh_bmask : bucket_mask h = bucket_max h - 1;
  sh_mode : (state h = ST_STABLE /\ bucket_bit h = b /\ split h = 0) \/
            ((state h = ST_GROW \/ state h = ST_SHRINK) /\ bucket_bit h = b + 1 /\ 0 <= split h <= low_max h);
  sh_len : length (buckets h) = Z.to_nat (low_max h + split h);
  sh_placed : placed (P b (split h)) 0 (buckets h);
  sh_count : count h = Z.of_nat (length (concat (buckets h))) }.

(* the invariant between operations: while a resize is in progress the split point is strictly inside *)
Definition hl_inv (h : hashlin) : Prop :=
  exists b, hl_shape h b /\ (state h <> ST_STABLE -> 0 < split h < low_max h).

Lemma pow2_pos b : 0 <= b -> 0 < 2 ^ b.
Proof. intros. apply Z.pow_pos_nonneg; lia. Qed.
Lemma pow2_succ b : 0 <= b -> 2 ^ (b + 1) = 2 * 2 ^ b.
Proof. intros. rewrite Z.pow_add_r by lia. lia. Qed.

Lemma shape_pos h b k : hl_shape h b -> bucket_pos h k = P b (split h) k.
Proof.
  intros [Hb Hlm Hlmk Hbm Hbmk Hmode _ _ _]. assert (Hb0 : 0 <= b) by lia.
  change (bucket_pos h k) with (posf (low_mask h) (bucket_mask h) (split h) k).
  rewrite Hlmk, Hbmk, Hbm.
  destruct Hmode as [(_ & Hbb & Hs)|(_ & Hbb & Hs)]; rewrite Hbb.
  - rewrite Hs. destruct (P_zero b k (2 ^ b - 1) Hb0) as [H1 H2]. rewrite H1, H2. reflexivity.
  - rewrite pow2_succ by exact Hb0. reflexivity.
Qed.

Lemma shape_pos_range h b k : hl_shape h b ->
  0 <= bucket_pos h k /\ (Z.to_nat (bucket_pos h k) < length (buckets h))%nat.
Proof.
  intros Hsh. rewrite (shape_pos h b k Hsh).
  destruct Hsh as [Hb Hlm _ _ _ Hmode Hlen _ _]. assert (Hb0 : 0 <= b) by lia.
  assert (Hs : 0 <= split h <= 2 ^ b).
  { pose proof (pow2_pos b Hb0). destruct Hmode as [(_ & _ & Hs)|(_ & _ & Hs)]; lia. }
  pose proof (P_range b (split h) k Hb0 Hs). rewrite Hlen, Hlm. lia.
Qed.

Ltac fields := cbn [bucket_bit bucket_max bucket_mask low_max low_mask split count state buckets] in *.

(* ---- one split (grow) ---------------------------------------------------- *)
Lemma split_one_shape h b :
  hl_shape h b -> state h <> ST_STABLE -> split h < low_max h ->
  hl_shape (split_one h) b /\ Permutation (elements (split_one h)) (elements h).
Proof.
  intros [Hb Hlm Hlmk Hbm Hbmk Hmode Hlen Hpl Hcnt] Hns Hlt.
  destruct h as [bb bm bmk lm lmk s c st bs]. fields.
  destruct Hmode as [[Hst _]|[Hst [Hbb Hs]]]; [contradiction|].
  assert (Hb0 : 0 <= b) by lia. pose proof (pow2_pos b Hb0) as Hp. subst lm.
  destruct (split_at' bs (Z.to_nat s) ltac:(lia)) as (l1 & j & l2 & -> & Hl1).
  unfold split_one, elements, get_bucket. fields.
  rewrite (nth_app_mid l1 j [] l2 _ Hl1), (upd_app_mid l1 j _ l2 _ Hl1).
  set (lo := filter (fun n : node => Z.land (fst n) (2 ^ b) =? 0) j).
  set (hi := filter (fun n : node => negb (Z.land (fst n) (2 ^ b) =? 0)) j).
  assert (Hperm : Permutation (concat ((l1 ++ lo :: l2) ++ [hi])) (concat (l1 ++ j :: l2))).
  { rewrite !concat_app. cbn [concat]. rewrite app_nil_r. apply perm_split_bucket.
    apply (filter_partition_perm (fun n : node => Z.land (fst n) (2 ^ b) =? 0) j). }
  split; [|exact Hperm].
  apply placed_app in Hpl as [Hp1 Hp2]. cbn [placed] in Hp2. destruct Hp2 as [Hpj Hp2].
  rewrite Z.add_0_l in *. rewrite Forall_forall in Hpj.
  assert (Hl1z : Z.of_nat (length l1) = s) by lia.
  constructor; fields; try assumption; try reflexivity.
  - right. repeat split; try assumption; lia.
  - rewrite !app_length in *. cbn [length] in *. lia.
  - apply placed_app. split; [apply placed_app; split|].
    + eapply placed_change; [exact Hp1|]. intros k Hk.
      destruct (P_step_cases b s k Hb0 ltac:(lia)) as [[H1 _]|[_ H2]]; lia.
    + cbn [placed]. rewrite Z.add_0_l. split.
      * apply Forall_forall. intros n Hn. apply filter_In in Hn as [Hn Hf]. apply Z.eqb_eq in Hf.
        specialize (Hpj n Hn). cbn beta in Hpj.
        destruct (P_step_cases b s (fst n) Hb0 ltac:(lia)) as [[H1 [[H2 H3]|[H2 H3]]]|[H1 H2]]; lia.
      * eapply placed_change; [exact Hp2|]. intros k Hk.
        destruct (P_step_cases b s k Hb0 ltac:(lia)) as [[H1 _]|[_ H2]]; lia.
    + cbn [placed]. split; [|exact I]. rewrite Z.add_0_l.
      apply Forall_forall. intros n Hn. apply filter_In in Hn as [Hn Hf].
      apply negb_true_iff in Hf. apply Z.eqb_neq in Hf.
      specialize (Hpj n Hn). cbn beta in Hpj.
      rewrite !app_length in *. cbn [length] in *.
      destruct (P_step_cases b s (fst n) Hb0 ltac:(lia)) as [[H1 [[H2 H3]|[H2 H3]]]|[H1 H2]]; lia.
  - rewrite Hcnt. f_equal. symmetry. apply Permutation_length. exact Hperm.
Qed.

(* ---- one merge (shrink) --------------------------------------------------- *)
Lemma merge_one_shape h b :
  hl_shape h b -> state h <> ST_STABLE -> 0 < split h ->
  hl_shape (merge_one h) b /\ Permutation (elements (merge_one h)) (elements h).
Proof.
  intros [Hb Hlm Hlmk Hbm Hbmk Hmode Hlen Hpl Hcnt] Hns Hlt.
  destruct h as [bb bm bmk lm lmk s c st bs]. fields.
  destruct Hmode as [[Hst _]|[Hst [Hbb Hs]]]; [contradiction|].
  assert (Hb0 : 0 <= b) by lia. pose proof (pow2_pos b Hb0) as Hp. subst lm.
  destruct (split_last_mid bs (Z.to_nat (s - 1)) (Z.to_nat (s - 1 + 2 ^ b)) ltac:(lia) ltac:(lia))
    as (l1 & lo & l2 & hi & -> & Hl1 & Hfront).
  unfold merge_one, elements, get_bucket. fields.
  rewrite (firstn_app_exact _ [hi] _ Hfront).
  replace (nth (Z.to_nat (s - 1)) ((l1 ++ lo :: l2) ++ [hi]) []) with lo
    by (rewrite <- app_assoc; cbn [app]; symmetry; apply nth_app_mid; exact Hl1).
  rewrite (nth_app_mid (l1 ++ lo :: l2) hi [] [] _ Hfront), (upd_app_mid l1 lo _ l2 _ Hl1).
  assert (Hperm : Permutation (concat (l1 ++ (lo ++ hi) :: l2)) (concat ((l1 ++ lo :: l2) ++ [hi]))).
  { apply Permutation_sym. rewrite !concat_app. cbn [concat]. rewrite app_nil_r. apply perm_split_bucket.
    apply Permutation_refl. }
  split; [|exact Hperm].
  apply placed_app in Hpl as [Hpf Hph]. apply placed_app in Hpf as [Hp1 Hp2].
  cbn [placed] in Hp2, Hph. destruct Hp2 as [Hplo Hp2]. destruct Hph as [Hphi _].
  rewrite Z.add_0_l in *. rewrite Forall_forall in Hplo, Hphi.
  assert (Hl1z : Z.of_nat (length l1) = s - 1) by lia.
  assert (Hfz : Z.of_nat (length (l1 ++ lo :: l2)) = s - 1 + 2 ^ b) by lia.
  constructor; fields; try assumption; try reflexivity.
  - right. repeat split; try assumption; lia.
  - rewrite !app_length in *. cbn [length] in *. lia.
  - apply placed_app. split.
    + eapply placed_change; [exact Hp1|]. intros k Hk.
      destruct (P_step_cases b (s - 1) k Hb0 ltac:(lia)) as [[H1 [[H2 H3]|[H2 H3]]]|[H1 H2]];
        replace (s - 1 + 1) with s in * by lia; lia.
    + cbn [placed]. rewrite Z.add_0_l. split.
      * apply Forall_forall. intros n Hn. apply in_app_or in Hn as [Hn|Hn].
        -- specialize (Hplo n Hn). cbn beta in Hplo.
           destruct (P_step_cases b (s - 1) (fst n) Hb0 ltac:(lia)) as [[H1 [[H2 H3]|[H2 H3]]]|[H1 H2]];
             replace (s - 1 + 1) with s in * by lia; lia.
        -- specialize (Hphi n Hn). cbn beta in Hphi.
           pose proof (P_range b (s - 1) (fst n) Hb0 ltac:(lia)).
           destruct (P_step_cases b (s - 1) (fst n) Hb0 ltac:(lia)) as [[H1 [[H2 H3]|[H2 H3]]]|[H1 H2]];
             replace (s - 1 + 1) with s in * by lia; lia.
      * eapply placed_change; [exact Hp2|]. intros k Hk.
        rewrite !app_length in *. cbn [length] in *.
        destruct (P_step_cases b (s - 1) k Hb0 ltac:(lia)) as [[H1 [[H2 H3]|[H2 H3]]]|[H1 H2]];
          replace (s - 1 + 1) with s in * by lia; lia.
  - rewrite Hcnt. f_equal. symmetry. apply Permutation_length. exact Hperm.
Qed.

(* ---- transitions between the stable state and a resize in progress ------------ *)
Lemma shape_set_state h b st' :
  hl_shape h b -> state h <> ST_STABLE -> (st' = ST_GROW \/ st' = ST_SHRINK) -> hl_shape (set_state h st') b.
Proof.
  intros [Hb Hlm Hlmk Hbm Hbmk Hmode Hlen Hpl Hcnt] Hns Hst'.
  destruct h as [bb bm bmk lm lmk s c st bs]. unfold set_state. fields.
  destruct Hmode as [[Hst _]|[Hst [Hbb Hs]]]; [contradiction|].
  constructor; fields; try assumption. right. auto.
Qed.

Lemma grow_start_shape h b :
  hl_shape h b -> state h = ST_STABLE ->
  hl_shape (mkH (bucket_bit h + 1) (2 ^ (bucket_bit h + 1)) (2 ^ (bucket_bit h + 1) - 1)
                (bucket_max h) (bucket_mask h) 0 (count h) ST_GROW (buckets h)) b.
Proof.
  intros [Hb Hlm Hlmk Hbm Hbmk Hmode Hlen Hpl Hcnt] Hst.
  destruct h as [bb bm bmk lm lmk s c st bs]. fields.
  destruct Hmode as [(_ & Hbb & Hs)|[[Hst'|Hst'] _]]; [|subst st; discriminate..].
  assert (Hb0 : 0 <= b) by lia. pose proof (pow2_pos b Hb0) as Hp. subst bb s lm.
  constructor; fields; try assumption; try reflexivity; try lia.
  all: try (rewrite Hlen, Hbm; reflexivity).
Qed.

Lemma grow_finish_shape h b :
  hl_shape h b -> state h <> ST_STABLE -> split h = low_max h -> hl_shape (set_stable h) (b + 1).
Proof.
  intros [Hb Hlm Hlmk Hbm Hbmk Hmode Hlen Hpl Hcnt] Hns Hfull.
  destruct h as [bb bm bmk lm lmk s c st bs]. unfold set_stable. fields.
  destruct Hmode as [[Hst _]|[Hst [Hbb Hs]]]; [contradiction|].
  assert (Hb0 : 0 <= b) by lia. pose proof (pow2_pos b Hb0) as Hp. pose proof (pow2_succ b Hb0) as Hsucc.
  subst bb s lm.
  constructor; fields; try assumption; try reflexivity; try lia.
  eapply placed_change; [exact Hpl|]. intros k _.
  destruct (P_zero (b + 1) k 0 ltac:(lia)) as [H1 _]. rewrite H1, P_full by exact Hb0.
  rewrite Hsucc. reflexivity.
Qed.

Lemma shrink_start_shape h b :
  hl_shape h b -> state h = ST_STABLE -> bit0 < bucket_bit h ->
  hl_shape (mkH (bucket_bit h) (bucket_max h) (bucket_mask h) (bucket_max h / 2) (bucket_mask h / 2)
                (bucket_max h / 2) (count h) ST_SHRINK (buckets h)) (b - 1).
Proof.
  intros [Hb Hlm Hlmk Hbm Hbmk Hmode Hlen Hpl Hcnt] Hst Hbit.
  destruct h as [bb bm bmk lm lmk s c st bs]. fields.
  destruct Hmode as [(_ & Hbb & Hs)|[[Hst'|Hst'] _]]; [|subst st; discriminate..].
  subst bb s lm.
  assert (Hb0 : 0 <= b - 1) by lia. pose proof (pow2_pos (b - 1) Hb0) as Hp.
  pose proof (pow2_succ (b - 1) Hb0) as Hsucc. replace (b - 1 + 1) with b in Hsucc by lia.
  assert (Hhalf : bm / 2 = 2 ^ (b - 1)) by lia.
  assert (Hhalfm : bmk / 2 = 2 ^ (b - 1) - 1) by lia.
  constructor; fields; try assumption; try lia.
  all: try (rewrite Hlen; f_equal; lia).
  eapply placed_change; [exact Hpl|]. intros k _.
  destruct (P_zero b k 0 ltac:(lia)) as [H1 _]. rewrite H1, Hhalf, P_full by exact Hb0.
  rewrite <- Hsucc. reflexivity.
Qed.

Lemma shrink_finish_shape h b :
  hl_shape h b -> state h <> ST_STABLE -> split h = 0 -> hl_shape (shrink_finish h) b.
Proof.
  intros [Hb Hlm Hlmk Hbm Hbmk Hmode Hlen Hpl Hcnt] Hns Hz.
  destruct h as [bb bm bmk lm lmk s c st bs]. unfold shrink_finish, set_stable. fields.
  destruct Hmode as [[Hst _]|[Hst [Hbb Hs]]]; [contradiction|].
  subst bb s lm. replace (b + 1 - 1) with b by lia.
  constructor; fields; try assumption; try reflexivity; try lia.
Qed.

(* ---- the two loops --------------------------------------------------------- *)
Lemma split_one_fields (h : hashlin) :
  split (split_one h) = split h + 1 /\ low_max (split_one h) = low_max h /\ state (split_one h) = state h /\
  count (split_one h) = count h /\ bucket_max (split_one h) = bucket_max h /\ bucket_bit (split_one h) = bucket_bit h.
Proof. unfold split_one. fields. repeat split; reflexivity. Qed.

Lemma merge_one_fields (h : hashlin) :
  split (merge_one h) = split h - 1 /\ low_max (merge_one h) = low_max h /\ state (merge_one h) = state h /\
  count (merge_one h) = count h /\ bucket_max (merge_one h) = bucket_max h /\ bucket_bit (merge_one h) = bucket_bit h.
Proof. unfold merge_one. fields. repeat split; reflexivity. Qed.

Lemma grow_loop_spec fuel : forall target h b,
  hl_shape h b -> state h = ST_GROW -> 0 <= split h < low_max h ->
  let r := grow_loop fuel target h in
  Permutation (elements r) (elements h) /\
  ((state r = ST_STABLE /\ hl_shape r (b + 1)) \/
   (state r = ST_GROW /\ hl_shape r b /\ split h <= split r < low_max r /\
    (fuel <> O -> split h + low_max h < target -> split h < split r))).
Proof.
  induction fuel as [|f IH]; intros target h b Hsh Hst Hs; cbn [grow_loop].
  - split; [apply Permutation_refl|]. right.
    split; [exact Hst|]. split; [exact Hsh|]. split; [lia|]. intros Hf; congruence.
  - destruct (split h + low_max h <? target) eqn:E.
    + assert (Hns : state h <> ST_STABLE) by (rewrite Hst; discriminate).
      destruct (split_one_shape h b Hsh Hns ltac:(lia)) as [Hsh1 Hperm1].
      destruct (split_one_fields h) as (F1 & F2 & F3 & _).
      destruct (split (split_one h) =? low_max (split_one h)) eqn:E2.
      * apply Z.eqb_eq in E2. split; [exact Hperm1|]. left. split; [reflexivity|].
        apply grow_finish_shape; [exact Hsh1|congruence|exact E2].
      * apply Z.eqb_neq in E2.
        destruct (IH target (split_one h) b Hsh1 ltac:(congruence) ltac:(lia)) as [Hperm2 Hcases].
        split; [eapply Permutation_trans; eassumption|].
        destruct Hcases as [Hl|(Hr1 & Hr2 & Hr3 & _)]; [left; exact Hl|].
        right. split; [exact Hr1|]. split; [exact Hr2|]. split; [lia|]. intros _ _. lia.
    + split; [apply Permutation_refl|]. right. apply Z.ltb_ge in E.
      split; [exact Hst|]. split; [exact Hsh|]. split; [lia|]. intros _ Hc. lia.
Qed.

Lemma shrink_loop_spec fuel : forall target h b,
  hl_shape h b -> state h = ST_SHRINK -> 0 < split h <= low_max h ->
  let r := shrink_loop fuel target h in
  Permutation (elements r) (elements h) /\
  ((state r = ST_STABLE /\ hl_shape r b) \/
   (state r = ST_SHRINK /\ hl_shape r b /\ 0 < split r <= split h /\ low_max r = low_max h /\
    (fuel <> O -> target < split h + low_max h -> split r < split h))).
Proof.
  induction fuel as [|f IH]; intros target h b Hsh Hst Hs; cbn [shrink_loop].
  - split; [apply Permutation_refl|]. right.
    split; [exact Hst|]. split; [exact Hsh|]. split; [lia|]. split; [reflexivity|]. intros Hf; congruence.
  - destruct (target <? split h + low_max h) eqn:E.
    + assert (Hns : state h <> ST_STABLE) by (rewrite Hst; discriminate).
      destruct (merge_one_shape h b Hsh Hns ltac:(lia)) as [Hsh1 Hperm1].
      destruct (merge_one_fields h) as (F1 & F2 & F3 & _).
      destruct (split (merge_one h) =? 0) eqn:E2.
      * apply Z.eqb_eq in E2. split; [exact Hperm1|]. left. split; [reflexivity|].
        apply shrink_finish_shape; [exact Hsh1|congruence|exact E2].
      * apply Z.eqb_neq in E2.
        destruct (sh_mode _ _ Hsh1) as [(Hc & _)|(_ & _ & Hrange)]; [congruence|].
        destruct (IH target (merge_one h) b Hsh1 ltac:(congruence) ltac:(lia)) as [Hperm2 Hcases].
        split; [eapply Permutation_trans; eassumption|].
        destruct Hcases as [Hl|(Hr1 & Hr2 & Hr3 & Hr4 & _)]; [left; exact Hl|].
        right. split; [exact Hr1|]. split; [exact Hr2|]. split; [lia|]. split; [congruence|]. intros _ _. lia.
    + split; [apply Permutation_refl|]. right. apply Z.ltb_ge in E.
      split; [exact Hst|]. split; [exact Hsh|]. split; [lia|]. split; [reflexivity|]. intros _ Hc. lia.
Qed.

(* the loops leave through their own condition: the fuel is never what stops them *)
Lemma grow_loop_exit fuel : forall target (h : hashlin),
  0 <= split h < low_max h -> (Z.to_nat (low_max h - split h) <= fuel)%nat ->
  let r := grow_loop fuel target h in
  state r = ST_STABLE \/ ~ (split r + low_max r < target).
Proof.
  induction fuel as [|f IH]; intros target h Hs Hf; cbn [grow_loop]; [lia|].
  destruct (split h + low_max h <? target) eqn:E.
  - destruct (split_one_fields h) as (F1 & F2 & _).
    destruct (split (split_one h) =? low_max (split_one h)) eqn:E2.
    + left. reflexivity.
    + apply Z.eqb_neq in E2. apply IH; lia.
  - right. apply Z.ltb_ge in E. lia.
Qed.

Lemma shrink_loop_exit fuel : forall target (h : hashlin),
  0 < split h <= low_max h -> (Z.to_nat (split h) <= fuel)%nat ->
  let r := shrink_loop fuel target h in
  state r = ST_STABLE \/ ~ (target < split r + low_max r).
Proof.
  induction fuel as [|f IH]; intros target h Hs Hf; cbn [shrink_loop]; [lia|].
  destruct (target <? split h + low_max h) eqn:E.
  - destruct (merge_one_fields h) as (F1 & F2 & _).
    destruct (split (merge_one h) =? 0) eqn:E2.
    + left. reflexivity.
    + apply Z.eqb_neq in E2. apply IH; lia.
  - right. apply Z.ltb_ge in E. lia.
Qed.

(* ---- grow step / shrink step ---------------------------------------------- *)
Lemma grow_setup_spec (h : hashlin) b :
  hl_shape h b -> (state h <> ST_STABLE -> 0 < split h < low_max h) ->
  let h1 := grow_setup h in
  elements h1 = elements h /\ hl_shape h1 b /\
  ((state h1 = ST_GROW /\ 0 <= split h1 < low_max h1 /\
    (split h1 = 0 -> low_max h1 = bucket_max h /\ split h1 + low_max h1 < 2 * count h1)) \/
   (state h1 <> ST_GROW /\ h1 = h)).
Proof.
  intros Hsh Hstrict. unfold grow_setup.
  destruct (sh_mode _ _ Hsh) as [(Hst & Hbb & Hs)|([Hst|Hst] & Hbb & Hs)]; rewrite Hst.
  - change (ST_STABLE =? ST_GROW) with false. change (ST_STABLE =? ST_STABLE) with true. cbn [negb andb].
    destruct (bucket_max h / 2 <? count h) eqn:ET.
    + apply Z.ltb_lt in ET. unfold set_state. fields.
      split; [reflexivity|]. split; [apply grow_start_shape; assumption|].
      left. split; [reflexivity|].
      pose proof (sh_bmax _ _ Hsh) as Hbm. rewrite Hbb in Hbm. pose proof (pow2_pos b ltac:(pose proof (sh_b _ _ Hsh); lia)).
      split; [lia|]. intros _. split; [reflexivity|lia].
    + split; [reflexivity|]. split; [exact Hsh|]. right. split; [rewrite Hst; discriminate|reflexivity].
  - change (ST_GROW =? ST_GROW) with true. cbn [negb andb].
    split; [reflexivity|]. split; [exact Hsh|]. left. split; [exact Hst|].
    specialize (Hstrict ltac:(rewrite Hst; discriminate)). split; [lia|]. intros Hz. lia.
  - change (ST_SHRINK =? ST_GROW) with false. change (ST_SHRINK =? ST_STABLE) with false. cbn [negb andb].
    destruct (bucket_max h / 2 <? count h) eqn:ET.
    + split; [reflexivity|]. split; [apply shape_set_state; [exact Hsh|rewrite Hst; discriminate|left; reflexivity]|].
      left. unfold set_state. fields. split; [reflexivity|].
      specialize (Hstrict ltac:(rewrite Hst; discriminate)). split; [lia|]. intros Hz. lia.
    + split; [reflexivity|]. split; [exact Hsh|]. right. split; [rewrite Hst; discriminate|reflexivity].
Qed.

Lemma grow_step_inv (h : hashlin) :
  hl_inv h -> hl_inv (grow_step h) /\ Permutation (elements (grow_step h)) (elements h).
Proof.
  intros (b & Hsh & Hstrict). unfold grow_step.
  destruct (grow_setup_spec h b Hsh Hstrict) as (Hel & Hsh1 & Hcases).
  destruct Hcases as [(Hst1 & Hs1 & Hfirst)|(Hst1 & Heq)].
  - rewrite Hst1. change (ST_GROW =? ST_GROW) with true.
    destruct (grow_loop_spec (Z.to_nat (low_max (grow_setup h))) (2 * count (grow_setup h)) _ b Hsh1 Hst1 Hs1)
      as [Hperm Hres].
    split; [|rewrite <- Hel; exact Hperm].
    destruct Hres as [(Hr1 & Hr2)|(Hr1 & Hr2 & Hr3 & Hr4)].
    + exists (b + 1). split; [exact Hr2|]. intros Hc. contradiction.
    + exists b. split; [exact Hr2|]. intros _.
      destruct (Z.eq_dec (split (grow_setup h)) 0) as [Hz|Hnz].
      * destruct (Hfirst Hz) as [_ Hlt]. specialize (Hr4 ltac:(lia) Hlt). lia.
      * lia.
  - rewrite Heq in *. destruct (state h =? ST_GROW) eqn:E; [apply Z.eqb_eq in E; contradiction|].
    split; [exists b; split; assumption|apply Permutation_refl].
Qed.

Lemma shrink_setup_spec (h : hashlin) b :
  hl_shape h b -> (state h <> ST_STABLE -> 0 < split h < low_max h) ->
  let h1 := shrink_setup bit0 h in
  elements h1 = elements h /\
  ((state h1 = ST_SHRINK /\ exists b1, hl_shape h1 b1 /\ 0 < split h1 <= low_max h1 /\
    (split h1 = low_max h1 -> 8 * count h1 < split h1 + low_max h1)) \/
   (state h1 <> ST_SHRINK /\ h1 = h)).
Proof.
  intros Hsh Hstrict. unfold shrink_setup.
  pose proof (sh_b _ _ Hsh) as Hb. pose proof (pow2_pos b ltac:(lia)) as Hp.
  destruct (sh_mode _ _ Hsh) as [(Hst & Hbb & Hs)|([Hst|Hst] & Hbb & Hs)]; rewrite Hst.
  - change (ST_STABLE =? ST_SHRINK) with false. change (ST_STABLE =? ST_STABLE) with true. cbn [negb andb].
    destruct (count h <? bucket_max h / 8) eqn:ET; [|split; [reflexivity|]; right; split; [rewrite Hst; discriminate|reflexivity]].
    destruct (bit0 <? bucket_bit h) eqn:EB; [|split; [reflexivity|]; right; split; [rewrite Hst; discriminate|reflexivity]].
    apply Z.ltb_lt in ET, EB. unfold set_state. fields.
    split; [reflexivity|]. left. split; [reflexivity|]. exists (b - 1).
    split; [apply shrink_start_shape; assumption|].
    pose proof (sh_bmax _ _ Hsh) as Hbm. rewrite Hbb in Hbm.
    pose proof (pow2_succ (b - 1) ltac:(lia)) as Hsucc. replace (b - 1 + 1) with b in Hsucc by lia.
    pose proof (pow2_pos (b - 1) ltac:(lia)).
    split; [lia|]. intros _. lia.
  - change (ST_GROW =? ST_SHRINK) with false. change (ST_GROW =? ST_STABLE) with false. cbn [negb andb].
    destruct (count h <? bucket_max h / 8) eqn:ET; [|split; [reflexivity|]; right; split; [rewrite Hst; discriminate|reflexivity]].
    destruct (bit0 <? bucket_bit h) eqn:EB; [|split; [reflexivity|]; right; split; [rewrite Hst; discriminate|reflexivity]].
    split; [reflexivity|]. left. unfold set_state. fields. split; [reflexivity|]. exists b.
    split; [apply (shape_set_state h b ST_SHRINK); [exact Hsh|rewrite Hst; discriminate|right; reflexivity]|].
    specialize (Hstrict ltac:(rewrite Hst; discriminate)). split; [lia|]. intros Hz. lia.
  - change (ST_SHRINK =? ST_SHRINK) with true. cbn [negb andb].
    split; [reflexivity|]. left. split; [exact Hst|]. exists b. split; [exact Hsh|].
    specialize (Hstrict ltac:(rewrite Hst; discriminate)). split; [lia|]. intros Hz. lia.
Qed.

Lemma shrink_step_inv (h : hashlin) :
  hl_inv h -> hl_inv (shrink_step bit0 h) /\ Permutation (elements (shrink_step bit0 h)) (elements h).
Proof.
  intros (b & Hsh & Hstrict). unfold shrink_step.
  destruct (shrink_setup_spec h b Hsh Hstrict) as (Hel & Hcases).
  destruct Hcases as [(Hst1 & b1 & Hsh1 & Hs1 & Hfirst)|(Hst1 & Heq)].
  - rewrite Hst1. change (ST_SHRINK =? ST_SHRINK) with true.
    destruct (shrink_loop_spec (Z.to_nat (low_max (shrink_setup bit0 h))) (8 * count (shrink_setup bit0 h)) _ b1 Hsh1 Hst1 Hs1)
      as [Hperm Hres].
    split; [|rewrite <- Hel; exact Hperm].
    destruct Hres as [(Hr1 & Hr2)|(Hr1 & Hr2 & Hr3 & Hr4 & Hr5)].
    + exists b1. split; [exact Hr2|]. intros Hc. contradiction.
    + exists b1. split; [exact Hr2|]. intros _.
      pose proof (sh_low_max _ _ Hsh1) as Hlm. pose proof (pow2_pos b1 ltac:(pose proof (sh_b _ _ Hsh1); lia)).
      destruct (Z.eq_dec (split (shrink_setup bit0 h)) (low_max (shrink_setup bit0 h))) as [Hz|Hnz].
      * specialize (Hr5 ltac:(lia) (Hfirst Hz)). lia.
      * lia.
  - rewrite Heq in *. destruct (state h =? ST_SHRINK) eqn:E; [apply Z.eqb_eq in E; contradiction|].
    split; [exists b; split; assumption|apply Permutation_refl].
Qed.

(* the fuel given by grow_step / shrink_step is enough: the loops stop because their condition fails
   or the resize is complete, never because the fuel ran out *)
Lemma grow_step_fuel (h : hashlin) :
  hl_inv h -> let h1 := grow_setup h in state h1 = ST_GROW ->
  let r := grow_loop (Z.to_nat (low_max h1)) (2 * count h1) h1 in
  state r = ST_STABLE \/ ~ (split r + low_max r < 2 * count h1).
Proof.
  intros (b & Hsh & Hstrict) h1 Hst1.
  destruct (grow_setup_spec h b Hsh Hstrict) as (_ & _ & [(_ & Hs1 & _)|(Hc & _)]); [|contradiction].
  subst h1. apply grow_loop_exit; [exact Hs1|lia].
Qed.

Lemma shrink_step_fuel (h : hashlin) :
  hl_inv h -> let h1 := shrink_setup bit0 h in state h1 = ST_SHRINK ->
  let r := shrink_loop (Z.to_nat (low_max h1)) (8 * count h1) h1 in
  state r = ST_STABLE \/ ~ (8 * count h1 < split r + low_max r).
Proof.
  intros (b & Hsh & Hstrict) h1 Hst1.
  destruct (shrink_setup_spec h b Hsh Hstrict) as (_ & [(_ & b1 & _ & Hs1 & _)|(Hc & _)]); [|contradiction].
  subst h1. apply shrink_loop_exit; [exact Hs1|lia].
Qed.

(* ---- buckets --------------------------------------------------------------- *)
Lemma bucket_decomp (h : hashlin) b k :
  hl_shape h b ->
  exists l1 l2, buckets h = l1 ++ hl_bucket h k :: l2 /\ Z.of_nat (length l1) = bucket_pos h k.
Proof.
  intros Hsh. destruct (shape_pos_range h b k Hsh) as [H0 Hlt].
  destruct (split_at' (buckets h) (Z.to_nat (bucket_pos h k)) Hlt) as (l1 & x & l2 & Hbs & Hl1).
  exists l1, l2. unfold hl_bucket, get_bucket. rewrite Hbs at 2.
  rewrite (nth_app_mid l1 x [] l2 _ Hl1). split; [exact Hbs|lia].
Qed.

(* nodes outside the bucket of k do not have key k *)
Lemma bucket_others (h : hashlin) b k :
  hl_shape h b ->
  exists l1 l2, buckets h = l1 ++ hl_bucket h k :: l2 /\
    Z.of_nat (length l1) = bucket_pos h k /\
    (forall n, In n (concat l1) \/ In n (concat l2) -> fst n <> k) /\
    (forall n, In n (hl_bucket h k) -> bucket_pos h (fst n) = bucket_pos h k).
Proof.
  intros Hsh. destruct (bucket_decomp h b k Hsh) as (l1 & l2 & Hbs & Hl1).
  exists l1, l2. split; [exact Hbs|]. split; [exact Hl1|].
  pose proof (sh_placed _ _ Hsh) as Hpl. rewrite Hbs in Hpl.
  apply placed_app in Hpl as [Hp1 Hp2]. cbn [placed] in Hp2. destruct Hp2 as [Hpj Hp2].
  rewrite Z.add_0_l in *. rewrite (shape_pos h b k Hsh) in Hl1. split.
  - intros n [Hn|Hn] Heq.
    + pose proof (placed_concat_bound _ _ _ _ Hp1 Hn). subst k. lia.
    + pose proof (placed_concat_bound _ _ _ _ Hp2 Hn). subst k. lia.
  - intros n Hn. rewrite Forall_forall in Hpj. rewrite !(shape_pos h b _ Hsh). rewrite (Hpj n Hn). exact Hl1.
Qed.

Lemma elements_in_bucket (h : hashlin) n : hl_inv h -> In n (elements h) -> In n (hl_bucket h (fst n)).
Proof.
  intros (b & Hsh & _) Hn. destruct (bucket_others h b (fst n) Hsh) as (l1 & l2 & Hbs & _ & Hoth & _).
  unfold elements in Hn. rewrite Hbs, concat_app in Hn. cbn [List.concat] in Hn.
  apply in_app_or in Hn as [Hn|Hn]; [exfalso; exact (Hoth n (or_introl Hn) eq_refl)|].
  apply in_app_or in Hn as [Hn|Hn]; [exact Hn|exfalso; exact (Hoth n (or_intror Hn) eq_refl)].
Qed.

Lemma bucket_in_elements (h : hashlin) k n : hl_inv h -> In n (hl_bucket h k) -> In n (elements h).
Proof.
  intros (b & Hsh & _) Hn. destruct (bucket_decomp h b k Hsh) as (l1 & l2 & Hbs & _).
  unfold elements. rewrite Hbs, concat_app. cbn [List.concat]. apply in_or_app. right. apply in_or_app. left. exact Hn.
Qed.

(* a filter that selects only nodes of key k sees the same nodes, in the same order, in the bucket of k
   as in the whole table *)
Lemma filter_bucket (h : hashlin) k (g : node -> bool) :
  hl_inv h -> (forall n, g n = true -> fst n = k) -> filter g (elements h) = filter g (hl_bucket h k).
Proof.
  intros (b & Hsh & _) Hg. destruct (bucket_others h b k Hsh) as (l1 & l2 & Hbs & _ & Hoth & _).
  unfold elements. rewrite Hbs, concat_app. cbn [List.concat]. rewrite !filter_app.
  rewrite (filter_none g (concat l1)), (filter_none g (concat l2)).
  - rewrite app_nil_r. reflexivity.
  - intros n Hn. destruct (g n) eqn:E; [|reflexivity]. exfalso. exact (Hoth n (or_intror Hn) (Hg n E)).
  - intros n Hn. destruct (g n) eqn:E; [|reflexivity]. exfalso. exact (Hoth n (or_introl Hn) (Hg n E)).
Qed.

(* replacing one bucket by nodes that belong there *)
Lemma replace_bucket_shape (h : hashlin) b l1 bkt l2 newb c' :
  hl_shape h b -> buckets h = l1 ++ bkt :: l2 ->
  (forall n, In n newb -> P b (split h) (fst n) = Z.of_nat (length l1)) ->
  c' = Z.of_nat (length (concat (l1 ++ newb :: l2))) ->
  hl_shape (set_buckets h (l1 ++ newb :: l2) c') b.
Proof.
  intros [Hb Hlm Hlmk Hbm Hbmk Hmode Hlen Hpl Hcnt] Hbs Hnew Hc.
  destruct h as [bb bm bmk lm lmk s c st bs]. unfold set_buckets. fields. subst bs.
  constructor; fields; try assumption.
  - rewrite !app_length in *. cbn [length] in *. exact Hlen.
  - apply placed_app in Hpl as [Hp1 Hp2]. cbn [placed] in Hp2. destruct Hp2 as [_ Hp2].
    apply placed_app. split; [exact Hp1|]. cbn [placed]. split; [|exact Hp2].
    apply Forall_forall. intros n Hn. rewrite Z.add_0_l. apply Hnew. exact Hn.
Qed.

Lemma hl_insert_inv (h : hashlin) k a :
  hl_inv h -> hl_inv (hl_insert h k a) /\ Permutation (elements (hl_insert h k a)) ((k, a) :: elements h).
Proof.
  intros (b & Hsh & Hstrict). unfold hl_insert.
  change (get_bucket h (bucket_pos h k)) with (hl_bucket h k).
  destruct (bucket_others h b k Hsh) as (l1 & l2 & Hbs & Hl1 & _ & Hin).
  set (bkt := hl_bucket h k) in *.
  assert (Hupd : upd (Z.to_nat (bucket_pos h k)) (bkt ++ [(k, a)]) (buckets h) = l1 ++ (bkt ++ [(k, a)]) :: l2)
    by (rewrite Hbs; apply upd_app_mid; lia).
  rewrite Hupd.
  set (h' := set_buckets h (l1 ++ (bkt ++ [(k, a)]) :: l2) (count h + 1)).
  assert (Hsh' : hl_shape h' b).
  { apply (replace_bucket_shape h b l1 bkt l2); [exact Hsh|exact Hbs| |].
    - intros n Hn. apply in_app_or in Hn as [Hn|[<-|[]]].
      + rewrite <- (shape_pos h b _ Hsh). rewrite (Hin n Hn). lia.
      + cbn [fst]. rewrite <- (shape_pos h b _ Hsh). lia.
    - rewrite (sh_count _ _ Hsh), Hbs. rewrite !concat_app. cbn [List.concat]. rewrite !app_length. cbn [length]. lia. }
  assert (Hinv' : hl_inv h') by (exists b; split; [exact Hsh'|exact Hstrict]).
  destruct (grow_step_inv h' Hinv') as [Hinv Hperm]. split; [exact Hinv|].
  eapply Permutation_trans; [exact Hperm|]. unfold h', elements, set_buckets. fields. rewrite Hbs.
  rewrite !concat_app. cbn [List.concat].
  replace (concat l1 ++ (bkt ++ [(k, a)]) ++ concat l2) with ((concat l1 ++ bkt) ++ (k, a) :: concat l2)
    by (rewrite <- !app_assoc; reflexivity).
  apply Permutation_sym, Permutation_cons_app. rewrite <- app_assoc. apply Permutation_refl.
Qed.

Lemma hl_remove_first_none (h : hashlin) k f :
  find f (hl_bucket h k) = None -> hl_remove_first bit0 h k f = (h, None).
Proof.
  intros H. unfold hl_remove_first. change (get_bucket h (bucket_pos h k)) with (hl_bucket h k).
  rewrite H. reflexivity.
Qed.

Lemma hl_remove_first_some (h : hashlin) k f n :
  hl_inv h -> find f (hl_bucket h k) = Some n ->
  exists h', hl_remove_first bit0 h k f = (h', Some n) /\ hl_inv h' /\ Permutation (elements h) (n :: elements h').
Proof.
  intros (b & Hsh & Hstrict) Hf. unfold hl_remove_first.
  change (get_bucket h (bucket_pos h k)) with (hl_bucket h k). rewrite Hf.
  destruct (bucket_others h b k Hsh) as (l1 & l2 & Hbs & Hl1 & _ & Hin).
  set (bkt := hl_bucket h k) in *.
  assert (Hupd : upd (Z.to_nat (bucket_pos h k)) (remove_first f bkt) (buckets h) = l1 ++ remove_first f bkt :: l2)
    by (rewrite Hbs; apply upd_app_mid; lia).
  rewrite Hupd.
  pose proof (remove_first_perm f bkt n Hf) as Hpb.
  set (h' := set_buckets h (l1 ++ remove_first f bkt :: l2) (count h - 1)).
  assert (Hsh' : hl_shape h' b).
  { apply (replace_bucket_shape h b l1 bkt l2); [exact Hsh|exact Hbs| |].
    - intros m Hm. apply remove_first_incl in Hm.
      rewrite <- (shape_pos h b _ Hsh). rewrite (Hin m Hm). lia.
    - rewrite (sh_count _ _ Hsh), Hbs. rewrite !concat_app. cbn [List.concat]. rewrite !app_length.
      rewrite (Permutation_length Hpb). cbn [length]. lia. }
  assert (Hinv' : hl_inv h') by (exists b; split; [exact Hsh'|exact Hstrict]).
  destruct (shrink_step_inv h' Hinv') as [Hinv Hperm].
  exists (shrink_step bit0 h'). split; [reflexivity|]. split; [exact Hinv|].
  eapply Permutation_trans; [|apply perm_skip, Permutation_sym, Hperm].
  unfold h', elements, set_buckets. fields. rewrite Hbs. rewrite !concat_app. cbn [List.concat].
  eapply Permutation_trans; [apply Permutation_app_head, Permutation_app_tail, Hpb|].
  cbn [app]. apply Permutation_sym, Permutation_middle.
Qed.

Lemma placed_repeat_nil Pf off n : placed Pf off (repeat [] n).
Proof. revert off. induction n as [|n IH]; intros off; cbn [repeat placed]; [exact I|]. split; [constructor|apply IH]. Qed.

Lemma concat_repeat_nil n : concat (repeat ([] : list node) n) = [].
Proof. induction n as [|n IH]; cbn [repeat List.concat app]; [reflexivity|exact IH]. Qed.

Lemma hl_init_inv : hl_inv (hl_init bit0).
Proof.
  exists bit0. split; [|intros H; exfalso; apply H; reflexivity].
  pose proof (pow2_pos bit0 bit0_nonneg) as Hp.
  unfold hl_init. constructor; fields; try reflexivity; try lia.
  all: try (rewrite repeat_length; f_equal; lia).
  all: try apply placed_repeat_nil.
  all: try (rewrite concat_repeat_nil; reflexivity).
Qed.

(* the two statements quoted by Props/Properties_C10.v *)
Lemma hl_remove_statement (h : hashlin) k (f : node -> bool) : hl_inv h ->
  (find f (hl_bucket h k) = None -> hl_remove_first bit0 h k f = (h, None)) /\
  (forall n, find f (hl_bucket h k) = Some n ->
     exists h', hl_remove_first bit0 h k f = (h', Some n) /\ hl_inv h' /\
                Permutation (elements h) (n :: elements h')).
Proof.
  intros Hi. split; [apply hl_remove_first_none|]. intros n Hn. apply hl_remove_first_some; assumption.
Qed.

Lemma loops_exit_statement (h : hashlin) : hl_inv h ->
  (let h1 := grow_setup h in state h1 = ST_GROW ->
   let r := grow_loop (Z.to_nat (low_max h1)) (2 * count h1) h1 in
   state r = ST_STABLE \/ ~ (split r + low_max r < 2 * count h1)) /\
  (let h1 := shrink_setup bit0 h in state h1 = ST_SHRINK ->
   let r := shrink_loop (Z.to_nat (low_max h1)) (8 * count h1) h1 in
   state r = ST_STABLE \/ ~ (8 * count h1 < split r + low_max r)).
Proof. intros Hi. split; [apply grow_step_fuel|apply shrink_step_fuel]; exact Hi. Qed.

End HashlinProofs.

(* ------------------------------------------------------------------------ *)
(* Part 4: the table                                                         *)
(* ------------------------------------------------------------------------ *)
Lemma key_entry_cmp_eq a b : key_entry_cmp a b = true <-> a = b.
Proof.
  unfold key_entry_cmp. destruct a as [a1 a2 a3 a4], b as [b1 b2 b3 b4]. cbn [e_asn e_ski e_spki e_src].
  destruct (Z.eqb_spec a1 b1), (Z.eqb_spec a2 b2), (Z.eqb_spec a3 b3), (Z.eqb_spec a4 b4); cbn [negb];
    split; intros H; try discriminate; congruence.
Qed.

Lemma key_entry_cmp_refl a : key_entry_cmp a a = true.
Proof. apply key_entry_cmp_eq. reflexivity. Qed.

(* membership test used by the specification *)
Definition mem (e : entry) (l : list entry) : bool := existsb (key_entry_cmp e) l.

Lemma mem_iff e l : mem e l = true <-> In e l.
Proof.
  unfold mem. rewrite existsb_exists. split.
  - intros (x & Hx & Hc). apply key_entry_cmp_eq in Hc. subst x. exact Hx.
  - intros H. exists e. split; [exact H|apply key_entry_cmp_refl].
Qed.

Lemma mem_false e l : mem e l = false <-> ~ In e l.
Proof. rewrite <- mem_iff. destruct (mem e l); split; intros H; try discriminate; try congruence. Qed.

Lemma find_cmp_in e l : In e l -> find (key_entry_cmp e) l = Some e.
Proof.
  induction l as [|x l IH]; intros H; [contradiction|]. cbn [find].
  destruct (key_entry_cmp e x) eqn:E.
  - apply key_entry_cmp_eq in E. subst x. reflexivity.
  - destruct H as [->|H]; [rewrite key_entry_cmp_refl in E; discriminate|exact (IH H)].
Qed.

Lemma remove_first_cmp_perm e l : In e l -> Permutation l (e :: remove_first (key_entry_cmp e) l).
Proof. intros H. apply remove_first_perm. apply find_cmp_in. exact H. Qed.

Lemma remove_first_cmp_notin e l : ~ In e l -> remove_first (key_entry_cmp e) l = l.
Proof.
  intros H. apply remove_first_none. intros x Hx. destruct (key_entry_cmp e x) eqn:E; [|reflexivity].
  apply key_entry_cmp_eq in E. subst x. contradiction.
Qed.

Lemma NoDup_snoc {X} (l : list X) x : NoDup l -> ~ In x l -> NoDup (l ++ [x]).
Proof.
  intros Hnd Hni. apply (Permutation_NoDup (l := x :: l)); [apply Permutation_cons_append|].
  constructor; assumption.
Qed.

Lemma NoDup_remove_first e l : NoDup l -> NoDup (remove_first (key_entry_cmp e) l).
Proof.
  intros Hnd. destruct (mem e l) eqn:Em.
  - apply mem_iff in Em. pose proof (Permutation_NoDup (remove_first_cmp_perm e l Em) Hnd) as H. inversion H. assumption.
  - apply mem_false in Em. rewrite remove_first_cmp_notin by exact Em. exact Hnd.
Qed.

Lemma In_remove_first e x l : NoDup l -> (In x (remove_first (key_entry_cmp e) l) <-> In x l /\ x <> e).
Proof.
  intros Hnd. destruct (mem e l) eqn:Em.
  - apply mem_iff in Em. pose proof (remove_first_cmp_perm e l Em) as Hp.
    pose proof (Permutation_NoDup Hp Hnd) as Hnd'. inversion Hnd' as [|? ? Hni Hnd'']. subst.
    split.
    + intros Hx. split; [apply (Permutation_in _ (Permutation_sym Hp)); right; exact Hx|].
      intros ->. contradiction.
    + intros [Hx Hne]. apply (Permutation_in _ Hp) in Hx. destruct Hx as [->|Hx]; [contradiction|exact Hx].
  - apply mem_false in Em. rewrite remove_first_cmp_notin by exact Em. split; [|tauto].
    intros Hx. split; [exact Hx|]. intros ->. contradiction.
Qed.

Section SpkiProofs.
Variable hash : Z -> Z.
Variable bit0 : Z.
Hypothesis bit0_nonneg : 0 <= bit0.

Definition mk (e : entry) : node entry := (hash (e_asn e), e).

(* the table invariant: the hash container is well formed, holds exactly the list's entries, each
   under the key hash(asn), and no record is stored twice *)
Record SpkiInv (t : spki_table) : Prop := mkSpkiInv {
  si_hl : hl_inv entry bit0 (ht t);
  si_perm : Permutation (elements (ht t)) (map mk (lst t));
  si_nodup : NoDup (lst t) }.

Definition sel (e : entry) : node entry -> bool :=
  fun n => (fst n =? hash (e_asn e)) && key_entry_cmp e (snd n).

Lemma sel_true e n : sel e n = true <-> n = mk e.
Proof.
  unfold sel, mk. destruct n as [k x]. cbn [fst snd]. rewrite andb_true_iff, Z.eqb_eq, key_entry_cmp_eq.
  split; [intros [-> ->]; reflexivity|intros H; injection H as -> ->; split; reflexivity].
Qed.

Lemma in_elements_iff t e : SpkiInv t -> (In (mk e) (elements (ht t)) <-> In e (lst t)).
Proof.
  intros Hinv. split; intros H.
  - apply (Permutation_in _ (si_perm _ Hinv)) in H. apply in_map_iff in H as (x & Hx & Hin).
    unfold mk in Hx. injection Hx as _ ->. exact Hin.
  - apply (Permutation_in _ (Permutation_sym (si_perm _ Hinv))). apply in_map. exact H.
Qed.

Lemma search_cases t e : SpkiInv t ->
  (In e (lst t) /\ hl_search (ht t) (key_entry_cmp e) (hash (e_asn e)) = Some (mk e)) \/
  (~ In e (lst t) /\ hl_search (ht t) (key_entry_cmp e) (hash (e_asn e)) = None).
Proof.
  intros Hinv. unfold hl_search.
  match goal with |- context [find ?f ?l] => destruct (find f l) as [n|] eqn:E end.
  - left. apply find_some in E as [Hin Hs]. change (sel e n = true) in Hs. apply sel_true in Hs. subst n.
    split; [|reflexivity].
    apply (in_elements_iff t e Hinv). eapply bucket_in_elements; [exact bit0_nonneg|exact (si_hl _ Hinv)|exact Hin].
  - right. split; [|reflexivity]. intros Hin. apply (in_elements_iff t e Hinv) in Hin.
    apply (elements_in_bucket _ _ bit0_nonneg _ _ (si_hl _ Hinv)) in Hin. cbn [mk fst] in Hin.
    pose proof (find_none _ _ E _ Hin) as Hf. change (sel e (mk e) = false) in Hf.
    assert (sel e (mk e) = true) by (apply sel_true; reflexivity). congruence.
Qed.

Lemma hl_remove_some (h : hashlin entry) cmp k n :
  hl_inv entry bit0 h -> hl_search h cmp k = Some n ->
  exists h', hl_remove bit0 h cmp k = (h', Some n) /\ hl_inv entry bit0 h' /\ Permutation (elements h) (n :: elements h').
Proof.
  intros Hi Hs. unfold hl_search in Hs. unfold hl_remove. apply hl_remove_first_some; assumption.
Qed.

Lemma hl_remove_existing_some (h : hashlin entry) e :
  hl_inv entry bit0 h -> hl_search h (key_entry_cmp e) (hash (e_asn e)) = Some (mk e) ->
  exists h', hl_remove_existing bit0 h key_entry_cmp (hash (e_asn e), e) = (h', Some (mk e)) /\
             hl_inv entry bit0 h' /\ Permutation (elements h) (mk e :: elements h').
Proof.
  intros Hi Hs. unfold hl_search in Hs. unfold hl_remove_existing.
  apply (hl_remove_first_some entry bit0 bit0_nonneg h (fst (hash (e_asn e), e))); [exact Hi|exact Hs].
Qed.

Lemma spki_init_inv : SpkiInv (spki_init bit0).
Proof.
  constructor; cbn [spki_init ht lst].
  - apply hl_init_inv. exact bit0_nonneg.
  - pose proof (hl_init_inv entry bit0 bit0_nonneg) as (b & Hsh & _).
    assert (H : elements (hl_init (A := entry) bit0) = []).
    { unfold elements, hl_init. cbn [buckets]. apply concat_repeat_nil. }
    rewrite H. constructor.
  - constructor.
Qed.

(* ---- add ------------------------------------------------------------------ *)
Lemma add_entry_spec t e : SpkiInv t ->
  (In e (lst t) /\ add_entry hash t e = (SPKI_DUPLICATE_RECORD, t, [])) \/
  (~ In e (lst t) /\ exists t', add_entry hash t e = (SPKI_SUCCESS, t', [(e, true)]) /\
                              lst t' = lst t ++ [e] /\ SpkiInv t').
Proof.
  intros Hinv. unfold add_entry. cbv zeta.
  destruct (search_cases t e Hinv) as [[Hin Hf]|[Hni Hf]]; rewrite Hf.
  - left. split; [exact Hin|reflexivity].
  - right. split; [exact Hni|]. eexists. split; [reflexivity|]. cbn [lst]. split; [reflexivity|].
    destruct (hl_insert_inv entry bit0 bit0_nonneg (ht t) (hash (e_asn e)) e (si_hl _ Hinv)) as [Hhl Hperm].
    constructor; cbn [ht lst].
    + exact Hhl.
    + eapply Permutation_trans; [exact Hperm|]. rewrite map_app. cbn [map].
      eapply Permutation_trans; [apply perm_skip, (si_perm _ Hinv)|]. apply Permutation_cons_append.
    + apply NoDup_snoc; [exact (si_nodup _ Hinv)|exact Hni].
Qed.

(* ---- remove ---------------------------------------------------------------- *)
Lemma remove_common t e h' :
  SpkiInv t -> In e (lst t) ->
  hl_inv entry bit0 h' -> Permutation (elements (ht t)) (mk e :: elements h') ->
  SpkiInv (mkT h' (remove_first (key_entry_cmp e) (lst t))).
Proof.
  intros Hinv Hin Hhl Hperm. constructor; cbn [ht lst].
  - exact Hhl.
  - pose proof (remove_first_cmp_perm e (lst t) Hin) as Hl.
    apply (Permutation_cons_inv (a := mk e)).
    eapply Permutation_trans; [apply Permutation_sym, Hperm|].
    eapply Permutation_trans; [exact (si_perm _ Hinv)|].
    change (mk e :: map mk (remove_first (key_entry_cmp e) (lst t))) with (map mk (e :: remove_first (key_entry_cmp e) (lst t))).
    apply Permutation_map. exact Hl.
  - apply NoDup_remove_first. exact (si_nodup _ Hinv).
Qed.

Lemma remove_entry_spec t e : SpkiInv t ->
  (~ In e (lst t) /\ remove_entry hash bit0 t e = (SPKI_RECORD_NOT_FOUND, t, [])) \/
  (In e (lst t) /\ exists t', remove_entry hash bit0 t e = (SPKI_SUCCESS, t', [(e, false)]) /\
                            lst t' = remove_first (key_entry_cmp e) (lst t) /\ SpkiInv t').
Proof.
  intros Hinv. unfold remove_entry. cbv zeta.
  destruct (search_cases t e Hinv) as [[Hin Hf]|[Hni Hf]]; rewrite Hf.
  - right. split; [exact Hin|].
    destruct (hl_remove_some (ht t) _ _ _ (si_hl _ Hinv) Hf) as (h' & Hr & Hhl & Hperm).
    rewrite Hr. cbn [mk snd]. eexists. split; [reflexivity|]. cbn [lst]. split; [reflexivity|].
    apply remove_common; assumption.
  - left. split; [exact Hni|reflexivity].
Qed.

Lemma remove_node_spec t e : SpkiInv t -> In e (lst t) ->
  lst (remove_node hash bit0 t e) = remove_first (key_entry_cmp e) (lst t) /\ SpkiInv (remove_node hash bit0 t e).
Proof.
  intros Hinv Hin. unfold remove_node.
  destruct (search_cases t e Hinv) as [[_ Hf]|[Hni _]]; [|contradiction].
  destruct (hl_remove_existing_some (ht t) e (si_hl _ Hinv) Hf) as (h' & Hr & Hhl & Hperm).
  rewrite Hr. cbn [fst lst]. split; [reflexivity|]. apply remove_common; assumption.
Qed.

(* ---- remove by source ------------------------------------------------------ *)
Lemma src_walk_spec : forall l s t pre,
  SpkiInv t -> lst t = pre ++ l -> (forall x, In x pre -> e_src x <> s) ->
  lst (src_remove_walk hash bit0 l s t) = pre ++ filter (fun e => negb (e_src e =? s)) l /\
  SpkiInv (src_remove_walk hash bit0 l s t).
Proof.
  induction l as [|e r IH]; intros s t pre Hinv Hl Hpre; cbn [src_remove_walk filter].
  - split; [exact Hl|exact Hinv].
  - destruct (Z.eqb_spec (e_src e) s) as [Hs|Hs]; cbn [negb].
    + assert (Hin : In e (lst t)) by (rewrite Hl; apply in_or_app; right; left; reflexivity).
      destruct (remove_node_spec t e Hinv Hin) as [Hl' Hinv'].
      apply (IH s _ pre Hinv'); [|exact Hpre].
      rewrite Hl', Hl. apply remove_first_app_hit; [|apply key_entry_cmp_refl].
      intros y Hy. destruct (key_entry_cmp e y) eqn:E; [|reflexivity].
      apply key_entry_cmp_eq in E. subst y. exfalso. exact (Hpre e Hy Hs).
    + destruct (IH s t (pre ++ [e]) Hinv) as [H1 H2].
      * rewrite Hl, <- app_assoc. reflexivity.
      * intros x Hx. apply in_app_or in Hx as [Hx|[<-|[]]]; [exact (Hpre x Hx)|exact Hs].
      * split; [|exact H2]. rewrite H1, <- app_assoc. reflexivity.
Qed.

Lemma src_remove_spec nb t s : SpkiInv t ->
  exists t', src_remove_gen hash bit0 nb t s =
               (SPKI_SUCCESS, t', if nb then map (fun e => (e, false)) (filter (fun e => e_src e =? s) (lst t)) else []) /\
             lst t' = filter (fun e => negb (e_src e =? s)) (lst t) /\ SpkiInv t'.
Proof.
  intros Hinv. unfold src_remove_gen. eexists. split; [reflexivity|].
  destruct (src_walk_spec (lst t) s t [] Hinv eq_refl ltac:(intros x [])) as [H1 H2]. split; assumption.
Qed.

(* ---- lookups ---------------------------------------------------------------- *)
Lemma map_snd_filter_mk (g0 : entry -> bool) (g : node entry -> bool) l :
  (forall e, g (mk e) = g0 e) -> map snd (filter g (map mk l)) = filter g0 l.
Proof.
  intros Hg. induction l as [|e l IH]; cbn [map filter]; [reflexivity|].
  rewrite Hg. destruct (g0 e); cbn [map snd mk]; rewrite IH; reflexivity.
Qed.

Lemma get_all_spec t a s : SpkiInv t ->
  Permutation (get_all hash t a s) (filter (fun e => (e_asn e =? a) && (e_ski e =? s)) (lst t)).
Proof.
  intros Hinv. unfold get_all.
  set (g := fun n : Z * entry => (e_asn (snd n) =? a) && (e_ski (snd n) =? s)).
  set (g' := fun n : node entry => (fst n =? hash a) && g n).
  assert (Hext : filter g (hl_bucket (ht t) (hash a)) = filter g' (hl_bucket (ht t) (hash a))).
  { apply filter_ext_in. intros n Hn.
    apply (bucket_in_elements _ _ bit0_nonneg _ _ _ (si_hl _ Hinv)) in Hn.
    apply (Permutation_in _ (si_perm _ Hinv)) in Hn. apply in_map_iff in Hn as (e & <- & _).
    unfold g', g, mk. cbn [fst snd]. destruct (Z.eqb_spec (e_asn e) a) as [->|Hne]; cbn [andb].
    - rewrite Z.eqb_refl. reflexivity.
    - rewrite andb_false_r. reflexivity. }
  rewrite Hext.
  rewrite <- (filter_bucket entry bit0 bit0_nonneg (ht t) (hash a) g' (si_hl _ Hinv)).
  2:{ intros n Hn. unfold g' in Hn. apply andb_true_iff in Hn as [Hk _]. apply Z.eqb_eq in Hk. exact Hk. }
  eapply Permutation_trans; [apply Permutation_map, filter_perm, (si_perm _ Hinv)|].
  rewrite (map_snd_filter_mk (fun e => (e_asn e =? a) && (e_ski e =? s)) g').
  - apply Permutation_refl.
  - intros e. unfold g', g, mk. cbn [fst snd]. destruct (Z.eqb_spec (e_asn e) a) as [->|Hne]; cbn [andb].
    + rewrite Z.eqb_refl. reflexivity.
    + apply andb_false_r.
Qed.

Lemma search_by_ski_spec (t : spki_table) s :
  search_by_ski t s = filter (fun e => e_ski e =? s) (lst t).
Proof. reflexivity. Qed.

End SpkiProofs.

(* ------------------------------------------------------------------------ *)
(* The specification: a table is a duplicate-free list of records            *)
(* ------------------------------------------------------------------------ *)
Definition sp_add (l : list entry) (e : entry) : Z * list entry * list callback :=
  if mem e l then (SPKI_DUPLICATE_RECORD, l, []) else (SPKI_SUCCESS, l ++ [e], [(e, true)]).

Definition sp_remove (l : list entry) (e : entry) : Z * list entry * list callback :=
  if mem e l then (SPKI_SUCCESS, remove_first (key_entry_cmp e) l, [(e, false)])
  else (SPKI_RECORD_NOT_FOUND, l, []).

Definition sp_src_remove (l : list entry) (s : Z) : Z * list entry * list callback :=
  (SPKI_SUCCESS, filter (fun e => negb (e_src e =? s)) l,
   map (fun e => (e, false)) (filter (fun e => e_src e =? s) l)).

Definition sp_get_all (l : list entry) (a s : Z) : list entry :=
  filter (fun e => (e_asn e =? a) && (e_ski e =? s)) l.

Definition sp_search_by_ski (l : list entry) (s : Z) : list entry := filter (fun e => e_ski e =? s) l.

(* copy: the records of src not from source s, in order, until one is already in dst *)
Fixpoint sp_copy_walk (l : list entry) (s : Z) (dst : list entry) (cbs : list callback)
  : Z * list entry * list callback :=
  match l with
  | [] => (SPKI_SUCCESS, dst, cbs)
  | e :: r =>
    if negb (e_src e =? s) then
      if mem e dst then (SPKI_ERROR, dst, cbs) else sp_copy_walk r s (dst ++ [e]) (cbs ++ [(e, true)])
    else sp_copy_walk r s dst cbs
  end.
Definition sp_copy (src dst : list entry) (s : Z) := sp_copy_walk src s dst [].

Fixpoint sp_diff_walk (l : list entry) (s : Z) (old : list entry) (cbs : list callback)
  : list entry * list callback :=
  match l with
  | [] => (old, cbs)
  | e :: r =>
    if e_src e =? s then
      if mem e old then sp_diff_walk r s (remove_first (key_entry_cmp e) old) cbs
      else sp_diff_walk r s old (cbs ++ [(e, true)])
    else sp_diff_walk r s old cbs
  end.
Definition sp_notify_diff (new old : list entry) (s : Z) : list entry * list callback :=
  match sp_diff_walk new s old [] with
  | (old', cbs) => (old', cbs ++ map (fun e => (e, false)) (filter (fun e => e_src e =? s) old'))
  end.

(* what it means for a callback stream to mirror the changes: replaying it on the old contents
   succeeds (every addition is of an absent record, every removal of a present one) and gives the
   new contents *)
Fixpoint replay (cbs : list callback) (l : list entry) : option (list entry) :=
  match cbs with
  | [] => Some l
  | (e, true) :: r => if mem e l then None else replay r (l ++ [e])
  | (e, false) :: r => if mem e l then replay r (remove_first (key_entry_cmp e) l) else None
  end.

Lemma replay_app c1 c2 l :
  replay (c1 ++ c2) l = match replay c1 l with Some l' => replay c2 l' | None => None end.
Proof.
  revert l. induction c1 as [|[e [|]] c1 IH]; intros l; cbn [app replay]; [reflexivity| |];
    destruct (mem e l); try reflexivity; apply IH.
Qed.

Lemma sp_add_replay l e rc l' c : sp_add l e = (rc, l', c) -> replay c l = Some l'.
Proof.
  unfold sp_add. destruct (mem e l) eqn:E; intros H; injection H as <- <- <-; cbn [replay]; [reflexivity|].
  rewrite E. reflexivity.
Qed.

Lemma sp_remove_replay l e rc l' c : sp_remove l e = (rc, l', c) -> replay c l = Some l'.
Proof.
  unfold sp_remove. destruct (mem e l) eqn:E; intros H; injection H as <- <- <-; cbn [replay]; [|reflexivity].
  rewrite E. reflexivity.
Qed.

Lemma replay_removals (f : entry -> bool) : forall l pre,
  (forall x, In x pre -> f x = false) ->
  replay (map (fun e => (e, false)) (filter f l)) (pre ++ l) = Some (pre ++ filter (fun e => negb (f e)) l).
Proof.
  induction l as [|e r IH]; intros pre Hpre; cbn [filter map replay]; [reflexivity|].
  destruct (f e) eqn:E; cbn [negb map replay].
  - assert (Hm : mem e (pre ++ e :: r) = true) by (apply mem_iff, in_or_app; right; left; reflexivity).
    rewrite Hm. rewrite remove_first_app_hit; [apply IH; exact Hpre| |apply key_entry_cmp_refl].
    intros y Hy. destruct (key_entry_cmp e y) eqn:Ec; [|reflexivity].
    apply key_entry_cmp_eq in Ec. subst y. rewrite (Hpre e Hy) in E. discriminate.
  - replace (pre ++ e :: r) with ((pre ++ [e]) ++ r) by (rewrite <- app_assoc; reflexivity).
    rewrite IH.
    + rewrite <- app_assoc. reflexivity.
    + intros x Hx. apply in_app_or in Hx as [Hx|[<-|[]]]; [exact (Hpre x Hx)|exact E].
Qed.

Lemma sp_src_remove_replay l s rc l' c : sp_src_remove l s = (rc, l', c) -> replay c l = Some l'.
Proof.
  unfold sp_src_remove. intros H. injection H as <- <- <-.
  apply (replay_removals (fun e => e_src e =? s) l []). intros x [].
Qed.

Lemma sp_copy_walk_replay : forall l s dst cbs rc dst' c,
  sp_copy_walk l s dst cbs = (rc, dst', c) -> exists c', c = cbs ++ c' /\ replay c' dst = Some dst'.
Proof.
  induction l as [|e r IH]; intros s dst cbs rc dst' c; cbn [sp_copy_walk].
  - intros H. injection H as <- <- <-. exists []. rewrite app_nil_r. split; reflexivity.
  - destruct (negb (e_src e =? s)).
    + destruct (mem e dst) eqn:E.
      * intros H. injection H as <- <- <-. exists []. rewrite app_nil_r. split; reflexivity.
      * intros H. apply IH in H as (c' & -> & Hr). exists ((e, true) :: c'). rewrite <- app_assoc. split; [reflexivity|].
        cbn [replay]. rewrite E. exact Hr.
    + apply IH.
Qed.

Lemma sp_copy_replay src dst s rc dst' c : sp_copy src dst s = (rc, dst', c) -> replay c dst = Some dst'.
Proof. intros H. apply sp_copy_walk_replay in H as (c' & -> & Hr). exact Hr. Qed.

(* when no record to be copied is already in the destination (it is empty in rtr_sync), the copy is total *)
Lemma sp_copy_walk_total : forall l s dst cbs,
  NoDup l -> (forall e, In e l -> e_src e <> s -> ~ In e dst) ->
  sp_copy_walk l s dst cbs =
    (SPKI_SUCCESS, dst ++ filter (fun e => negb (e_src e =? s)) l,
     cbs ++ map (fun e => (e, true)) (filter (fun e => negb (e_src e =? s)) l)).
Proof.
  induction l as [|e r IH]; intros s dst cbs Hnd Hni; cbn [sp_copy_walk filter map].
  - rewrite !app_nil_r. reflexivity.
  - inversion Hnd as [|? ? Hne Hnd']. subst.
    destruct (Z.eqb_spec (e_src e) s) as [Hs|Hs]; cbn [negb].
    + apply IH; [exact Hnd'|]. intros x Hx. apply Hni. right. exact Hx.
    + assert (Hm : mem e dst = false) by (apply mem_false, Hni; [left; reflexivity|exact Hs]).
      rewrite Hm. rewrite IH; [|exact Hnd'|].
      * cbn [map]. rewrite <- !app_assoc. reflexivity.
      * intros x Hx Hsx Hin. apply in_app_or in Hin as [Hin|[<-|[]]]; [exact (Hni x (or_intror Hx) Hsx Hin)|contradiction].
Qed.

(* the specification keeps tables duplicate-free *)
Lemma sp_add_nodup l e rc l' c : NoDup l -> sp_add l e = (rc, l', c) -> NoDup l'.
Proof.
  unfold sp_add. intros Hnd. destruct (mem e l) eqn:E; intros H; injection H as <- <- <-; [exact Hnd|].
  apply NoDup_snoc; [exact Hnd|apply mem_false; exact E].
Qed.

Lemma sp_remove_nodup l e rc l' c : NoDup l -> sp_remove l e = (rc, l', c) -> NoDup l'.
Proof.
  unfold sp_remove. intros Hnd. destruct (mem e l) eqn:E; intros H; injection H as <- <- <-; [|exact Hnd].
  apply NoDup_remove_first. exact Hnd.
Qed.

Lemma sp_copy_walk_nodup : forall l s dst cbs rc dst' c,
  NoDup dst -> sp_copy_walk l s dst cbs = (rc, dst', c) -> NoDup dst'.
Proof.
  induction l as [|e r IH]; intros s dst cbs rc dst' c Hnd; cbn [sp_copy_walk].
  - intros H. injection H as <- <- <-. exact Hnd.
  - destruct (negb (e_src e =? s)).
    + destruct (mem e dst) eqn:E.
      * intros H. injection H as <- <- <-. exact Hnd.
      * apply IH. apply NoDup_snoc; [exact Hnd|apply mem_false; exact E].
    + apply IH. exact Hnd.
Qed.

Lemma sp_diff_walk_nodup : forall l s old cbs old' c,
  NoDup old -> sp_diff_walk l s old cbs = (old', c) -> NoDup old'.
Proof.
  induction l as [|e r IH]; intros s old cbs old' c Hnd; cbn [sp_diff_walk].
  - intros H. injection H as <- <-. exact Hnd.
  - destruct (e_src e =? s); [|apply IH; exact Hnd].
    destruct (mem e old); apply IH; [apply NoDup_remove_first|]; exact Hnd.
Qed.

(* notify_diff in closed form: old loses the records of source s that new also holds; the callbacks are an
   addition for every record of s in new that old did not hold (in new's order), then a removal for every
   record of s left in old *)
Lemma filter_all {X} (f : X -> bool) (l : list X) : (forall x, In x l -> f x = true) -> filter f l = l.
Proof.
  induction l as [|x l IH]; intros H; cbn [filter]; [reflexivity|].
  rewrite (H x (or_introl eq_refl)). f_equal. apply IH. intros y Hy. apply H. right. exact Hy.
Qed.

Lemma filter_remove_first e (Pn Po : entry -> bool) : forall old, NoDup old ->
  Po e = false -> (forall x, x <> e -> Pn x = Po x) ->
  filter Pn (remove_first (key_entry_cmp e) old) = filter Po old.
Proof.
  induction old as [|x old IH]; intros Hnd He Hx; cbn [remove_first filter]; [reflexivity|].
  inversion Hnd as [|? ? Hni Hnd']. subst. destruct (key_entry_cmp e x) eqn:Ec.
  - apply key_entry_cmp_eq in Ec. subst x. rewrite He. apply filter_ext_in. intros y Hy. apply Hx.
    intros ->. contradiction.
  - assert (Hne : x <> e) by (intros ->; rewrite key_entry_cmp_refl in Ec; discriminate).
    cbn [filter]. rewrite (Hx x Hne). destruct (Po x); [f_equal|]; apply IH; assumption.
Qed.

Lemma mem_remove_first e x old : NoDup old -> x <> e -> mem x (remove_first (key_entry_cmp e) old) = mem x old.
Proof.
  intros Hnd Hne. pose proof (In_remove_first e x old Hnd) as Hiff.
  destruct (mem x (remove_first (key_entry_cmp e) old)) eqn:E1; destruct (mem x old) eqn:E2; try reflexivity.
  - apply mem_iff in E1. apply mem_false in E2. exfalso. apply E2. apply Hiff. exact E1.
  - apply mem_false in E1. apply mem_iff in E2. exfalso. apply E1. apply Hiff. split; assumption.
Qed.

Lemma cmp_false_of_neq x e : x <> e -> key_entry_cmp x e = false.
Proof. intros H. destruct (key_entry_cmp x e) eqn:E; [apply key_entry_cmp_eq in E; contradiction|reflexivity]. Qed.

Lemma sp_diff_walk_char : forall l s old cbs, NoDup l -> NoDup old ->
  sp_diff_walk l s old cbs =
    (filter (fun x => negb ((e_src x =? s) && mem x l)) old,
     cbs ++ map (fun e => (e, true)) (filter (fun e => (e_src e =? s) && negb (mem e old)) l)).
Proof.
  induction l as [|e r IH]; intros s old cbs Hl Ho; cbn [sp_diff_walk].
  - cbn [filter map]. rewrite app_nil_r. f_equal. symmetry. apply filter_all. intros x _.
    cbn [mem existsb]. rewrite andb_false_r. reflexivity.
  - inversion Hl as [|? ? Her Hr]. subst.
    destruct (Z.eqb_spec (e_src e) s) as [Hs|Hs].
    + destruct (mem e old) eqn:Em.
      * rewrite IH by (auto using NoDup_remove_first). f_equal.
        -- apply filter_remove_first; [exact Ho| |].
           ++ cbn [mem existsb]. rewrite key_entry_cmp_refl. apply Z.eqb_eq in Hs. rewrite Hs. reflexivity.
           ++ intros x Hne. cbn [mem existsb]. rewrite (cmp_false_of_neq x e Hne). reflexivity.
        -- f_equal. f_equal. cbn [filter]. rewrite Em. rewrite andb_false_r.
           apply filter_ext_in. intros x Hx. rewrite mem_remove_first; [reflexivity|exact Ho|].
           intros ->. contradiction.
      * rewrite IH by assumption. f_equal.
        -- apply filter_ext_in. intros x Hx. cbn [mem existsb]. rewrite cmp_false_of_neq; [reflexivity|].
           intros ->. apply mem_false in Em. contradiction.
        -- rewrite <- app_assoc. f_equal. cbn [filter]. rewrite Em. apply Z.eqb_eq in Hs. rewrite Hs. reflexivity.
    + rewrite IH by assumption. f_equal.
      * apply filter_ext. intros x. cbn [mem existsb]. destruct (key_entry_cmp x e) eqn:Ec; [|reflexivity].
        apply key_entry_cmp_eq in Ec. subst x. apply Z.eqb_neq in Hs. rewrite Hs. reflexivity.
      * f_equal. f_equal. cbn [filter]. apply Z.eqb_neq in Hs. rewrite Hs. reflexivity.
Qed.

Lemma sp_notify_diff_char new old s : NoDup new -> NoDup old ->
  let old' := filter (fun x => negb ((e_src x =? s) && mem x new)) old in
  sp_notify_diff new old s =
    (old', map (fun e => (e, true)) (filter (fun e => (e_src e =? s) && negb (mem e old)) new) ++
           map (fun e => (e, false)) (filter (fun e => e_src e =? s) old')).
Proof.
  intros Hn Ho. unfold sp_notify_diff. rewrite sp_diff_walk_char by assumption. reflexivity.
Qed.

(* ------------------------------------------------------------------------ *)
(* Part 5: the model refines the specification; all histories                *)
(* ------------------------------------------------------------------------ *)
Lemma rc_dup_not_success : (SPKI_DUPLICATE_RECORD =? SPKI_SUCCESS) = false.
Proof. reflexivity. Qed.
Lemma rc_notfound_not_success : (SPKI_RECORD_NOT_FOUND =? SPKI_SUCCESS) = false.
Proof. reflexivity. Qed.
Lemma rc_success_not_notfound : (SPKI_SUCCESS =? SPKI_RECORD_NOT_FOUND) = false.
Proof. reflexivity. Qed.
Lemma rc_distinct :
  SPKI_SUCCESS <> SPKI_ERROR /\ SPKI_SUCCESS <> SPKI_DUPLICATE_RECORD /\ SPKI_SUCCESS <> SPKI_RECORD_NOT_FOUND /\
  SPKI_ERROR <> SPKI_DUPLICATE_RECORD /\ SPKI_ERROR <> SPKI_RECORD_NOT_FOUND /\
  SPKI_DUPLICATE_RECORD <> SPKI_RECORD_NOT_FOUND.
Proof. repeat split; discriminate. Qed.

Section Refinement.
Variable hash : Z -> Z.
Variable bit0 : Z.
Hypothesis bit0_nonneg : 0 <= bit0.
Local Notation Inv := (SpkiInv hash bit0).

Lemma add_refines t e rc t' c :
  Inv t -> add_entry hash t e = (rc, t', c) -> Inv t' /\ sp_add (lst t) e = (rc, lst t', c).
Proof.
  intros Hinv H. unfold sp_add.
  destruct (add_entry_spec hash bit0 bit0_nonneg t e Hinv) as [[Hin Heq]|[Hni (t2 & Heq & Hl & Hinv2)]];
    rewrite Heq in H; injection H as <- <- <-.
  - apply mem_iff in Hin. rewrite Hin. split; [exact Hinv|reflexivity].
  - apply mem_false in Hni. rewrite Hni, Hl. split; [exact Hinv2|reflexivity].
Qed.

Lemma remove_refines t e rc t' c :
  Inv t -> remove_entry hash bit0 t e = (rc, t', c) -> Inv t' /\ sp_remove (lst t) e = (rc, lst t', c).
Proof.
  intros Hinv H. unfold sp_remove.
  destruct (remove_entry_spec hash bit0 bit0_nonneg t e Hinv) as [[Hni Heq]|[Hin (t2 & Heq & Hl & Hinv2)]];
    rewrite Heq in H; injection H as <- <- <-.
  - apply mem_false in Hni. rewrite Hni. split; [exact Hinv|reflexivity].
  - apply mem_iff in Hin. rewrite Hin, Hl. split; [exact Hinv2|reflexivity].
Qed.

(* remove by source: contents and return code as specified; the callbacks as specified exactly when the
   notifying variant is used *)
Lemma src_remove_refines nb t s rc t' c :
  Inv t -> src_remove_gen hash bit0 nb t s = (rc, t', c) ->
  Inv t' /\ fst (sp_src_remove (lst t) s) = (rc, lst t') /\ (nb = true -> snd (sp_src_remove (lst t) s) = c) /\
  (nb = false -> c = []).
Proof.
  intros Hinv H. destruct (src_remove_spec hash bit0 bit0_nonneg nb t s Hinv) as (t2 & Heq & Hl & Hinv2).
  rewrite Heq in H. injection H as <- <- <-. unfold sp_src_remove. cbn [fst snd]. rewrite Hl.
  split; [exact Hinv2|]. split; [reflexivity|]. split; intros ->; reflexivity.
Qed.

Lemma copy_walk_refines : forall l s dst cbs rc dst' c,
  Inv dst -> copy_walk hash l s dst cbs = (rc, dst', c) ->
  Inv dst' /\ sp_copy_walk l s (lst dst) cbs = (rc, lst dst', c).
Proof.
  induction l as [|e r IH]; intros s dst cbs rc dst' c Hinv; cbn [copy_walk sp_copy_walk].
  - intros H. injection H as <- <- <-. split; [exact Hinv|reflexivity].
  - destruct (negb (e_src e =? s)); [|apply IH; exact Hinv].
    destruct (add_entry hash dst e) as [[rc1 d1] c1] eqn:Ea.
    destruct (add_refines dst e rc1 d1 c1 Hinv Ea) as [Hinv1 Hsp]. unfold sp_add in Hsp.
    destruct (mem e (lst dst)) eqn:Em; injection Hsp as Hrc Hl Hc; subst rc1 c1.
    + rewrite rc_dup_not_success. cbn [negb]. intros H. injection H as <- <- <-.
      rewrite app_nil_r, Hl. split; [exact Hinv1|reflexivity].
    + rewrite Z.eqb_refl. cbn [negb]. intros H. apply (IH s d1 _ rc dst' c Hinv1) in H as [H1 H2].
      split; [exact H1|]. rewrite Hl. exact H2.
Qed.

Lemma copy_refines src dst s rc dst' c :
  Inv dst -> copy_except_socket hash src dst s = (rc, dst', c) ->
  Inv dst' /\ sp_copy (lst src) (lst dst) s = (rc, lst dst', c).
Proof. apply copy_walk_refines. Qed.

Lemma diff_walk_refines : forall l s old cbs old' c,
  Inv old -> diff_walk_new hash bit0 l s old cbs = (old', c) ->
  Inv old' /\ sp_diff_walk l s (lst old) cbs = (lst old', c).
Proof.
  induction l as [|e r IH]; intros s old cbs old' c Hinv; cbn [diff_walk_new sp_diff_walk].
  - intros H. injection H as <- <-. split; [exact Hinv|reflexivity].
  - destruct (e_src e =? s); [|apply IH; exact Hinv].
    destruct (remove_entry hash bit0 old e) as [[rc1 o1] c1] eqn:Er.
    destruct (remove_refines old e rc1 o1 c1 Hinv Er) as [Hinv1 Hsp]. unfold sp_remove in Hsp.
    destruct (mem e (lst old)) eqn:Em; injection Hsp as Hrc Hl Hc; subst rc1 c1.
    + rewrite rc_success_not_notfound. intros H. apply (IH s o1 _ old' c Hinv1) in H as [H1 H2].
      split; [exact H1|]. rewrite Hl. exact H2.
    + rewrite Z.eqb_refl. intros H. apply (IH s o1 _ old' c Hinv1) in H as [H1 H2].
      split; [exact H1|]. rewrite Hl. exact H2.
Qed.

Lemma notify_diff_refines new old s old' c :
  Inv old -> notify_diff hash bit0 new old s = (old', c) ->
  Inv old' /\ sp_notify_diff (lst new) (lst old) s = (lst old', c).
Proof.
  intros Hinv. unfold notify_diff, sp_notify_diff.
  destruct (diff_walk_new hash bit0 (lst new) s old []) as [o1 c1] eqn:Ed.
  destruct (diff_walk_refines _ _ _ _ _ _ Hinv Ed) as [Hinv1 Hsp]. rewrite Hsp.
  intros H. injection H as <- <-. split; [exact Hinv1|reflexivity].
Qed.

(* callbacks mirror the change, operation by operation *)
Lemma add_callbacks t e rc t' c : Inv t -> add_entry hash t e = (rc, t', c) -> replay c (lst t) = Some (lst t').
Proof. intros Hinv H. destruct (add_refines _ _ _ _ _ Hinv H) as [_ Hs]. exact (sp_add_replay _ _ _ _ _ Hs). Qed.

Lemma remove_callbacks t e rc t' c :
  Inv t -> remove_entry hash bit0 t e = (rc, t', c) -> replay c (lst t) = Some (lst t').
Proof. intros Hinv H. destruct (remove_refines _ _ _ _ _ Hinv H) as [_ Hs]. exact (sp_remove_replay _ _ _ _ _ Hs). Qed.

Lemma copy_callbacks src dst s rc dst' c :
  Inv dst -> copy_except_socket hash src dst s = (rc, dst', c) -> replay c (lst dst) = Some (lst dst').
Proof. intros Hinv H. destruct (copy_refines _ _ _ _ _ _ Hinv H) as [_ Hs]. exact (sp_copy_replay _ _ _ _ _ _ Hs). Qed.

Lemma src_remove_callbacks_notifying t s rc t' c :
  Inv t -> src_remove_gen hash bit0 true t s = (rc, t', c) -> replay c (lst t) = Some (lst t').
Proof.
  intros Hinv H. destruct (src_remove_refines true _ _ _ _ _ Hinv H) as (_ & H1 & H2 & _).
  specialize (H2 eq_refl). apply (sp_src_remove_replay (lst t) s rc).
  destruct (sp_src_remove (lst t) s) as [[a b] d]. cbn [fst snd] in *. congruence.
Qed.

End Refinement.

(* ---- histories over several tables ------------------------------------------- *)
Inductive op : Type :=
| OAdd (i : nat) (e : entry)
| ORemove (i : nat) (e : entry)
| OSrcRemove (i : nat) (s : Z)
| OGetAll (i : nat) (a s : Z)
| OSearchSki (i : nat) (s : Z)
| OCopy (i j : nat) (s : Z)              (* spki_table_copy_except_socket(src = i, dst = j, s) *)
| OSwap (i j : nat)
| ONotifyDiff (i j : nat) (s : Z)        (* spki_table_notify_diff(new = i, old = j, s) *)
| OFree (i : nat).                       (* spki_table_free + spki_table_init *)

(* what a caller observes of one operation; callbacks carry the table whose update_fp is invoked *)
Inductive obs : Type :=
| ObMut (rc : Z) (cbs : list (nat * callback))
| ObSrc (rc : Z) (cbs : list (nat * callback))       (* remove by source *)
| ObBag (l : list entry)                             (* lookup by (AS, SKI): order not promised *)
| ObList (l : list entry).                           (* lookup by SKI *)

Definition tag (i : nat) (c : list callback) : list (nat * callback) := map (fun x => (i, x)) c.
Definition upd_st {X : Type} (st : nat -> X) (i : nat) (x : X) : nat -> X :=
  fun k => if Nat.eqb k i then x else st k.

(* the two tables of copy / swap / notify_diff must be different objects (the C would self-deadlock) *)
Definition op_ok (o : op) : Prop :=
  match o with
  | OCopy i j _ | OSwap i j | ONotifyDiff i j _ => i <> j
  | _ => True
  end.

Section Histories.
Variable hash : Z -> Z.
Variable bit0 : Z.
Hypothesis bit0_nonneg : 0 <= bit0.
Local Notation Inv := (SpkiInv hash bit0).

(* [nb]: does remove-by-source notify (see SpkiModel.SRC_REMOVE_NOTIFIES) *)
Definition step (nb : bool) (o : op) (st : nat -> spki_table) : (nat -> spki_table) * obs :=
  match o with
  | OAdd i e => let '(rc, t', c) := add_entry hash (st i) e in (upd_st st i t', ObMut rc (tag i c))
  | ORemove i e => let '(rc, t', c) := remove_entry hash bit0 (st i) e in (upd_st st i t', ObMut rc (tag i c))
  | OSrcRemove i s => let '(rc, t', c) := src_remove_gen hash bit0 nb (st i) s in (upd_st st i t', ObSrc rc (tag i c))
  | OGetAll i a s => (st, ObBag (get_all hash (st i) a s))
  | OSearchSki i s => (st, ObList (search_by_ski (st i) s))
  | OCopy i j s => let '(rc, d', c) := copy_except_socket hash (st i) (st j) s in (upd_st st j d', ObMut rc (tag j c))
  | OSwap i j => let '(a', b') := swap (st i) (st j) in (upd_st (upd_st st i a') j b', ObMut SPKI_SUCCESS [])
  | ONotifyDiff i j s => let '(o', c) := notify_diff hash bit0 (st i) (st j) s in (upd_st st j o', ObMut SPKI_SUCCESS (tag i c))
  | OFree i => (upd_st st i (spki_init bit0), ObMut SPKI_SUCCESS [])
  end.

Fixpoint run (nb : bool) (ops : list op) (st : nat -> spki_table) : (nat -> spki_table) * list obs :=
  match ops with
  | [] => (st, [])
  | o :: r => let '(st1, ob) := step nb o st in let '(st2, obs) := run nb r st1 in (st2, ob :: obs)
  end.

Definition init_state : nat -> spki_table := fun _ => spki_init bit0.
End Histories.

(* the same on the specification *)
Definition sstep (o : op) (st : nat -> list entry) : (nat -> list entry) * obs :=
  match o with
  | OAdd i e => let '(rc, t', c) := sp_add (st i) e in (upd_st st i t', ObMut rc (tag i c))
  | ORemove i e => let '(rc, t', c) := sp_remove (st i) e in (upd_st st i t', ObMut rc (tag i c))
  | OSrcRemove i s => let '(rc, t', c) := sp_src_remove (st i) s in (upd_st st i t', ObSrc rc (tag i c))
  | OGetAll i a s => (st, ObBag (sp_get_all (st i) a s))
  | OSearchSki i s => (st, ObList (sp_search_by_ski (st i) s))
  | OCopy i j s => let '(rc, d', c) := sp_copy (st i) (st j) s in (upd_st st j d', ObMut rc (tag j c))
  | OSwap i j => (upd_st (upd_st st i (st j)) j (st i), ObMut SPKI_SUCCESS [])
  | ONotifyDiff i j s => let '(o', c) := sp_notify_diff (st i) (st j) s in (upd_st st j o', ObMut SPKI_SUCCESS (tag i c))
  | OFree i => (upd_st st i [], ObMut SPKI_SUCCESS [])
  end.

Fixpoint srun (ops : list op) (st : nat -> list entry) : (nat -> list entry) * list obs :=
  match ops with
  | [] => (st, [])
  | o :: r => let '(st1, ob) := sstep o st in let '(st2, obs) := srun r st1 in (st2, ob :: obs)
  end.

Definition sinit : nat -> list entry := fun _ => [].

(* observations agree; [strict = false] leaves the callbacks of remove-by-source out of the comparison *)
Definition obs_rel (strict : bool) (a b : obs) : Prop :=
  match a, b with
  | ObMut rc c, ObMut rc' c' => rc = rc' /\ c = c'
  | ObSrc rc c, ObSrc rc' c' => rc = rc' /\ (strict = true -> c = c')
  | ObBag l, ObBag l' => Permutation l l'
  | ObList l, ObList l' => l = l'
  | _, _ => False
  end.

Lemma obs_rel_weaken strict a b : obs_rel strict a b -> obs_rel false a b.
Proof.
  destruct a, b; cbn [obs_rel]; try tauto. intros [H _]. split; [exact H|discriminate].
Qed.

Definition refines (strict : bool) (hash : Z -> Z) (bit0 : Z)
  (m : (nat -> spki_table) * list obs) (s : (nat -> list entry) * list obs) : Prop :=
  (forall i, SpkiInv hash bit0 (fst m i) /\ lst (fst m i) = fst s i) /\ Forall2 (obs_rel strict) (snd m) (snd s).

Section HistoryProofs.
Variable hash : Z -> Z.
Variable bit0 : Z.
Hypothesis bit0_nonneg : 0 <= bit0.
Local Notation Inv := (SpkiInv hash bit0).

Definition related (st : nat -> spki_table) (sst : nat -> list entry) : Prop :=
  forall i, Inv (st i) /\ lst (st i) = sst i.

Lemma related_upd st sst i t l : related st sst -> Inv t -> lst t = l -> related (upd_st st i t) (upd_st sst i l).
Proof.
  intros Hr Hi Hl k. unfold upd_st. destruct (Nat.eqb k i); [split; assumption|apply Hr].
Qed.

Lemma step_refines nb o st sst :
  related st sst ->
  related (fst (step hash bit0 nb o st)) (fst (sstep o sst)) /\
  obs_rel nb (snd (step hash bit0 nb o st)) (snd (sstep o sst)).
Proof.
  intros Hr. destruct o as [i e|i e|i s|i a s|i s|i j s|i j|i j s|i]; cbn [step sstep].
  - destruct (Hr i) as [Hi Hl]. rewrite <- Hl.
    destruct (add_entry hash (st i) e) as [[rc t'] c] eqn:E.
    destruct (add_refines hash bit0 bit0_nonneg _ _ _ _ _ Hi E) as [Hi' Hs]. rewrite Hs. cbn [fst snd obs_rel].
    split; [apply related_upd; auto|split; reflexivity].
  - destruct (Hr i) as [Hi Hl]. rewrite <- Hl.
    destruct (remove_entry hash bit0 (st i) e) as [[rc t'] c] eqn:E.
    destruct (remove_refines hash bit0 bit0_nonneg _ _ _ _ _ Hi E) as [Hi' Hs]. rewrite Hs. cbn [fst snd obs_rel].
    split; [apply related_upd; auto|split; reflexivity].
  - destruct (Hr i) as [Hi Hl]. rewrite <- Hl.
    destruct (src_remove_gen hash bit0 nb (st i) s) as [[rc t'] c] eqn:E.
    destruct (src_remove_refines hash bit0 bit0_nonneg nb _ _ _ _ _ Hi E) as (Hi' & H1 & H2 & _).
    destruct (sp_src_remove (lst (st i)) s) as [[rc2 l2] c2]. cbn [fst snd obs_rel] in *.
    injection H1 as -> ->.
    split; [apply related_upd; auto|]. split; [reflexivity|]. intros Hnb. rewrite (H2 Hnb). reflexivity.
  - destruct (Hr i) as [Hi Hl]. rewrite <- Hl. cbn [fst snd obs_rel]. split; [exact Hr|].
    apply get_all_spec with (bit0 := bit0); assumption.
  - destruct (Hr i) as [Hi Hl]. rewrite <- Hl. cbn [fst snd obs_rel]. split; [exact Hr|reflexivity].
  - destruct (Hr i) as [Hi Hl]. destruct (Hr j) as [Hj Hlj]. rewrite <- Hl, <- Hlj.
    destruct (copy_except_socket hash (st i) (st j) s) as [[rc d'] c] eqn:E.
    destruct (copy_refines hash bit0 bit0_nonneg _ _ _ _ _ _ Hj E) as [Hj' Hs]. rewrite Hs. cbn [fst snd obs_rel].
    split; [apply related_upd; auto|split; reflexivity].
  - destruct (Hr i) as [Hi Hl]. destruct (Hr j) as [Hj Hlj]. unfold swap. cbn [fst snd obs_rel].
    split; [|split; reflexivity].
    apply related_upd; [apply related_upd; [exact Hr| |]| |]; cbn [ht lst]; try assumption.
    + destruct Hj as [H1 H2 H3]. constructor; assumption.
    + destruct Hi as [H1 H2 H3]. constructor; assumption.
  - destruct (Hr i) as [Hi Hl]. destruct (Hr j) as [Hj Hlj]. rewrite <- Hl, <- Hlj.
    destruct (notify_diff hash bit0 (st i) (st j) s) as [o' c] eqn:E.
    destruct (notify_diff_refines hash bit0 bit0_nonneg _ _ _ _ _ Hj E) as [Hj' Hs]. rewrite Hs. cbn [fst snd obs_rel].
    split; [apply related_upd; auto|split; reflexivity].
  - cbn [fst snd obs_rel]. split; [|split; reflexivity].
    apply related_upd; [exact Hr|apply spki_init_inv; exact bit0_nonneg|reflexivity].
Qed.

Lemma run_refines nb : forall ops st sst,
  related st sst -> refines nb hash bit0 (run hash bit0 nb ops st) (srun ops sst).
Proof.
  induction ops as [|o r IH]; intros st sst Hr; cbn [run srun].
  - split; [exact Hr|constructor].
  - destruct (step_refines nb o st sst Hr) as [Hr1 Hob].
    destruct (step hash bit0 nb o st) as [st1 ob]. destruct (sstep o sst) as [sst1 sob]. cbn [fst snd] in *.
    specialize (IH st1 sst1 Hr1).
    destruct (run hash bit0 nb r st1) as [st2 obs2]. destruct (srun r sst1) as [sst2 sobs2].
    destruct IH as [H1 H2]. cbn [fst snd] in *. split; [exact H1|]. constructor; assumption.
Qed.

Lemma init_related : related (init_state bit0) sinit.
Proof. intros i. split; [apply spki_init_inv; exact bit0_nonneg|reflexivity]. Qed.

End HistoryProofs.

(* ---- the specification keeps every table duplicate-free ------------------------ *)
Lemma sstep_nodup o sst : (forall i, NoDup (sst i)) -> forall i, NoDup (fst (sstep o sst) i).
Proof.
  intros Hnd. destruct o as [i e|i e|i s|i a s|i s|i j s|i j|i j s|i]; cbn [sstep].
  - destruct (sp_add (sst i) e) as [[rc l'] c] eqn:E. cbn [fst]. intros k. unfold upd_st.
    destruct (Nat.eqb k i); [exact (sp_add_nodup _ _ _ _ _ (Hnd i) E)|apply Hnd].
  - destruct (sp_remove (sst i) e) as [[rc l'] c] eqn:E. cbn [fst]. intros k. unfold upd_st.
    destruct (Nat.eqb k i); [exact (sp_remove_nodup _ _ _ _ _ (Hnd i) E)|apply Hnd].
  - unfold sp_src_remove. cbn [fst]. intros k. unfold upd_st.
    destruct (Nat.eqb k i); [apply NoDup_filter, Hnd|apply Hnd].
  - exact Hnd.
  - exact Hnd.
  - destruct (sp_copy (sst i) (sst j) s) as [[rc l'] c] eqn:E. cbn [fst]. intros k. unfold upd_st.
    destruct (Nat.eqb k j); [exact (sp_copy_walk_nodup _ _ _ _ _ _ _ (Hnd j) E)|apply Hnd].
  - cbn [fst]. intros k. unfold upd_st. destruct (Nat.eqb k j); [apply Hnd|]. destruct (Nat.eqb k i); apply Hnd.
  - unfold sp_notify_diff. destruct (sp_diff_walk (sst i) s (sst j) []) as [o' c] eqn:E. cbn [fst]. intros k. unfold upd_st.
    destruct (Nat.eqb k j); [exact (sp_diff_walk_nodup _ _ _ _ _ _ (Hnd j) E)|apply Hnd].
  - cbn [fst]. intros k. unfold upd_st. destruct (Nat.eqb k i); [constructor|apply Hnd].
Qed.

Lemma srun_nodup : forall ops sst, (forall i, NoDup (sst i)) -> forall i, NoDup (fst (srun ops sst) i).
Proof.
  induction ops as [|o r IH]; intros sst Hnd; cbn [srun]; [exact Hnd|].
  pose proof (sstep_nodup o sst Hnd) as H1. destruct (sstep o sst) as [sst1 ob]. cbn [fst] in H1.
  specialize (IH sst1 H1). destruct (srun r sst1) as [sst2 obs2]. exact IH.
Qed.

(* ---- the property, in full, and what holds of the code as it is ------------------ *)
(* C10 in full: on every history, every observation (return codes, lookup results, and the callback
   stream of every operation INCLUDING remove-by-source) is the one of the set specification *)
Definition C10_full : Prop :=
  forall (hash : Z -> Z) (bit0 : Z), 0 <= bit0 -> forall ops : list op, Forall op_ok ops ->
    refines true hash bit0 (run hash bit0 SRC_REMOVE_NOTIFIES ops (init_state bit0)) (srun ops sinit).

Lemma full_for_notifying_model (hash : Z -> Z) (bit0 : Z) : 0 <= bit0 -> forall ops : list op, Forall op_ok ops ->
  refines true hash bit0 (run hash bit0 true ops (init_state bit0)) (srun ops sinit).
Proof. intros Hb ops _. apply run_refines; [exact Hb|apply init_related; exact Hb]. Qed.

Lemma full_of_fix : SRC_REMOVE_NOTIFIES = true -> C10_full.
Proof. intros E hash bit0 Hb ops Hok. rewrite E. apply full_for_notifying_model; assumption. Qed.

Lemma Forall2_weaken {X Y : Type} (R R' : X -> Y -> Prop) l l' :
  (forall a b, R a b -> R' a b) -> Forall2 R l l' -> Forall2 R' l l'.
Proof. intros HR H. induction H; constructor; auto. Qed.

Lemma refines_all_histories (hash : Z -> Z) (bit0 : Z) : 0 <= bit0 -> forall ops : list op, Forall op_ok ops ->
  refines false hash bit0 (run hash bit0 SRC_REMOVE_NOTIFIES ops (init_state bit0)) (srun ops sinit).
Proof.
  intros Hb ops _. destruct (run_refines hash bit0 Hb SRC_REMOVE_NOTIFIES ops _ _ (init_related hash bit0 Hb)) as [H1 H2].
  split; [exact H1|]. eapply Forall2_weaken; [|exact H2]. intros a b. apply obs_rel_weaken.
Qed.

Lemma invariant_all_histories (hash : Z -> Z) (bit0 : Z) : 0 <= bit0 -> forall nb (ops : list op) i,
  SpkiInv hash bit0 (fst (run hash bit0 nb ops (init_state bit0)) i).
Proof.
  intros Hb nb ops i. destruct (run_refines hash bit0 Hb nb ops _ _ (init_related hash bit0 Hb)) as [H1 _].
  apply H1.
Qed.

Lemma spec_is_set : forall (ops : list op) i, NoDup (fst (srun ops sinit) i).
Proof. intros ops. apply srun_nodup. intros i. constructor. Qed.

(* the witness: one record of source 1 is added, then source 1 is removed; the specification
   reports the removal, the code as it is does not *)
Definition witness_entry : entry := mkE 4071535807 0 3923507919 1.
Definition witness_ops : list op := [OAdd 0 witness_entry; OSrcRemove 0 1].

Lemma refuted_when_silent : SRC_REMOVE_NOTIFIES = false -> ~ C10_full.
Proof.
  intros E H. specialize (H (fun a => a) 6 ltac:(lia) witness_ops ltac:(repeat constructor)).
  destruct H as [_ H]. rewrite E in H.
  assert (Hm : snd (run (fun a => a) 6 false witness_ops (init_state 6)) =
               [ObMut SPKI_SUCCESS [(0%nat, (witness_entry, true))]; ObSrc SPKI_SUCCESS []]) by (vm_compute; reflexivity).
  assert (Hs : snd (srun witness_ops sinit) =
               [ObMut SPKI_SUCCESS [(0%nat, (witness_entry, true))]; ObSrc SPKI_SUCCESS [(0%nat, (witness_entry, false))]])
    by (vm_compute; reflexivity).
  rewrite Hm, Hs in H. inversion H as [|? ? ? ? _ H2]. subst. inversion H2 as [|? ? ? ? H3 _]. subst.
  cbn [obs_rel] in H3. destruct H3 as [_ H3]. specialize (H3 eq_refl). discriminate.
Qed.

(* the constants the executed model takes from the code satisfy the hypotheses of the theorems *)
Lemma code_constants :
  0 <= c_TOMMY_HASHLIN_BIT /\
  In ("SPKI_SUCCESS"%string, SPKI_SUCCESS) enum_spki_rtvals /\ In ("SPKI_ERROR"%string, SPKI_ERROR) enum_spki_rtvals /\
  In ("SPKI_DUPLICATE_RECORD"%string, SPKI_DUPLICATE_RECORD) enum_spki_rtvals /\
  In ("SPKI_RECORD_NOT_FOUND"%string, SPKI_RECORD_NOT_FOUND) enum_spki_rtvals /\
  NoDup (map snd enum_spki_rtvals).
Proof.
  split; [vm_compute; discriminate|]. unfold SPKI_SUCCESS, SPKI_ERROR, SPKI_DUPLICATE_RECORD, SPKI_RECORD_NOT_FOUND.
  repeat split; try (cbn; tauto).
  vm_compute. repeat constructor; cbn; intuition discriminate.
Qed.

(* ---- per-operation statements in the form quoted by Props/Properties_C10.v --------- *)
Section Statements.
Variable hash : Z -> Z.
Variable bit0 : Z.
Hypothesis bit0_nonneg : 0 <= bit0.
Local Notation Inv := (SpkiInv hash bit0).

Lemma remove_statement t e : Inv t ->
  (~ In e (contents t) /\ remove_entry hash bit0 t e = (SPKI_RECORD_NOT_FOUND, t, [])) \/
  (In e (contents t) /\ exists t', remove_entry hash bit0 t e = (SPKI_SUCCESS, t', [(e, false)]) /\
     contents t' = remove_first (key_entry_cmp e) (contents t) /\
     (forall x, In x (contents t') <-> In x (contents t) /\ x <> e) /\ Inv t').
Proof.
  intros Hinv. destruct (remove_entry_spec hash bit0 bit0_nonneg t e Hinv) as [H|[Hin (t' & H1 & H2 & H3)]]; [left; exact H|].
  right. split; [exact Hin|]. exists t'. split; [exact H1|]. split; [exact H2|]. split; [|exact H3].
  intros x. unfold contents. rewrite H2. apply In_remove_first. exact (si_nodup _ _ _ Hinv).
Qed.

Lemma src_remove_statement nb t s : Inv t ->
  exists t', src_remove_gen hash bit0 nb t s =
               (SPKI_SUCCESS, t', if nb then map (fun e => (e, false)) (filter (fun e => e_src e =? s) (contents t)) else []) /\
             contents t' = filter (fun e => negb (e_src e =? s)) (contents t) /\
             (forall x, In x (contents t') <-> In x (contents t) /\ e_src x <> s) /\ Inv t'.
Proof.
  intros Hinv. destruct (src_remove_spec hash bit0 bit0_nonneg nb t s Hinv) as (t' & H1 & H2 & H3).
  exists t'. split; [exact H1|]. split; [exact H2|]. split; [|exact H3].
  intros x. unfold contents. rewrite H2, filter_In, negb_true_iff, Z.eqb_neq. reflexivity.
Qed.

Lemma copy_statement src dst s rc dst' c : Inv src -> Inv dst ->
  copy_except_socket hash src dst s = (rc, dst', c) ->
  Inv dst' /\ sp_copy (contents src) (contents dst) s = (rc, contents dst', c) /\
  ((forall e, In e (contents src) -> e_src e <> s -> ~ In e (contents dst)) ->
   rc = SPKI_SUCCESS /\ contents dst' = contents dst ++ filter (fun e => negb (e_src e =? s)) (contents src) /\
   c = map (fun e => (e, true)) (filter (fun e => negb (e_src e =? s)) (contents src))).
Proof.
  intros Hs Hd H. destruct (copy_refines hash bit0 bit0_nonneg _ _ _ _ _ _ Hd H) as [H1 H2].
  split; [exact H1|]. split; [exact H2|]. intros Hfresh. unfold sp_copy, contents in *.
  rewrite (sp_copy_walk_total (lst src) s (lst dst) [] (si_nodup _ _ _ Hs) Hfresh) in H2.
  injection H2 as <- <- <-. repeat split; reflexivity.
Qed.

Lemma swap_statement a b : Inv a -> Inv b ->
  Inv (fst (swap a b)) /\ Inv (snd (swap a b)) /\
  contents (fst (swap a b)) = contents b /\ contents (snd (swap a b)) = contents a.
Proof.
  intros [A1 A2 A3] [B1 B2 B3]. unfold swap. cbn [fst snd contents lst].
  split; [constructor; assumption|]. split; [constructor; assumption|]. split; reflexivity.
Qed.

Lemma notify_diff_statement new old s old' c : Inv new -> Inv old ->
  notify_diff hash bit0 new old s = (old', c) ->
  Inv old' /\
  contents old' = filter (fun x => negb ((e_src x =? s) && mem x (contents new))) (contents old) /\
  c = map (fun e => (e, true)) (filter (fun e => (e_src e =? s) && negb (mem e (contents old))) (contents new)) ++
      map (fun e => (e, false)) (filter (fun e => e_src e =? s) (contents old')).
Proof.
  intros Hn Ho H. destruct (notify_diff_refines hash bit0 bit0_nonneg _ _ _ _ _ Ho H) as [H1 H2].
  split; [exact H1|]. unfold contents.
  rewrite (sp_notify_diff_char (lst new) (lst old) s (si_nodup _ _ _ Hn) (si_nodup _ _ _ Ho)) in H2.
  cbv zeta in H2. injection H2 as H3 H4. rewrite <- H3. split; [reflexivity|]. rewrite <- H4. reflexivity.
Qed.

Lemma callbacks_statement :
  (forall t e rc t' c, Inv t -> add_entry hash t e = (rc, t', c) -> replay c (contents t) = Some (contents t')) /\
  (forall t e rc t' c, Inv t -> remove_entry hash bit0 t e = (rc, t', c) -> replay c (contents t) = Some (contents t')) /\
  (forall src dst s rc dst' c, Inv dst -> copy_except_socket hash src dst s = (rc, dst', c) ->
     replay c (contents dst) = Some (contents dst')) /\
  (forall t s rc t' c, Inv t -> src_remove_gen hash bit0 true t s = (rc, t', c) ->
     replay c (contents t) = Some (contents t')).
Proof.
  split; [|split; [|split]].
  - intros. eapply add_callbacks; eassumption.
  - intros. eapply remove_callbacks; eassumption.
  - intros. eapply copy_callbacks; eassumption.
  - intros. eapply src_remove_callbacks_notifying; eassumption.
Qed.

End Statements.

(* ---- non-vacuity: concrete histories (a fixed multiplicative hash and the initial size 2^6, so that these
        examples do not depend on the code's constants; the executed model uses the code's) ----- *)
Definition ex_hash (a : Z) : Z := (a * 40503) mod 65536.
Definition ex_bit0 : Z := 6.
Definition ex_key (i : nat) : entry := mkE (Z.of_nat i) (Z.of_nat (i mod 3)) 7 (Z.of_nat (i mod 2)).
Definition ex_adds (n : nat) : list op := map (fun i => OAdd 0 (ex_key i)) (seq 0 n).
Definition ex_removes (from n : nat) : list op := map (fun i => ORemove 0 (ex_key i)) (seq from n).
Definition ex_shape (ops : list op) : Z * Z * Z * Z :=
  let h := ht (fst (run ex_hash ex_bit0 false ops (init_state ex_bit0)) 0%nat) in
  (bucket_bit h, low_max h, split h, state h).

(* 70 insertions cross two grow thresholds; removing 39 of them turns the second grow, still in progress,
   into a shrink; further removals complete it and start and complete the next one; from the middle of a
   shrink, 55 insertions turn it back into a grow that completes within that insertion, and the next
   insertion starts the following grow *)
Example ex_resize_steps :
  ex_shape (ex_adds 32) = (6, 64, 0, ST_STABLE) /\
  ex_shape (ex_adds 33) = (7, 64, 2, ST_GROW) /\
  ex_shape (ex_adds 70) = (8, 128, 12, ST_GROW) /\
  ex_shape (ex_adds 70 ++ ex_removes 0 39) = (8, 128, 12, ST_SHRINK) /\
  ex_shape (ex_adds 70 ++ ex_removes 0 55) = (7, 64, 56, ST_SHRINK) /\
  ex_shape (ex_adds 70 ++ ex_removes 0 60) = (7, 64, 16, ST_SHRINK) /\
  ex_shape (ex_adds 70 ++ ex_removes 0 62) = (6, 64, 0, ST_STABLE) /\
  ex_shape (ex_adds 70 ++ ex_removes 0 60 ++ map (fun i => OAdd 0 (ex_key i)) (seq 100 54)) = (7, 64, 16, ST_SHRINK) /\
  ex_shape (ex_adds 70 ++ ex_removes 0 60 ++ map (fun i => OAdd 0 (ex_key i)) (seq 100 55)) = (7, 128, 0, ST_STABLE) /\
  ex_shape (ex_adds 70 ++ ex_removes 0 60 ++ map (fun i => OAdd 0 (ex_key i)) (seq 100 56)) = (8, 128, 4, ST_GROW).
Proof. vm_compute. repeat split; reflexivity. Qed.

(* the invariant is about non-trivial tables: 70 records in 140 buckets, mid-grow *)
Example ex_invariant_nontrivial :
  let t := fst (run ex_hash ex_bit0 false (ex_adds 70) (init_state ex_bit0)) 0%nat in
  SpkiInv ex_hash ex_bit0 t /\ length (lst t) = 70%nat /\ length (buckets (ht t)) = 140%nat /\ state (ht t) = ST_GROW.
Proof.
  split; [apply invariant_all_histories; unfold ex_bit0; lia|]. vm_compute. repeat split; reflexivity.
Qed.

(* AS 2 and AS 66 share the initial bucket under ex_hash (equal low 6 bits), and the lookup
   still separates them; duplicates and unknown removals are reported and change nothing *)
Example ex_collision_lookup :
  Z.land (ex_hash 2) 63 = Z.land (ex_hash 66) 63 /\
  let ops := [OAdd 0 (mkE 2 5 1 1); OAdd 0 (mkE 66 5 1 1); OAdd 0 (mkE 2 5 2 2); OAdd 0 (mkE 2 6 1 1);
              OAdd 0 (mkE 2 5 1 1); ORemove 0 (mkE 2 5 1 3);
              OGetAll 0 2 5; OGetAll 0 66 5; OSearchSki 0 5] in
  snd (run ex_hash ex_bit0 false ops (init_state ex_bit0)) =
    [ObMut SPKI_SUCCESS [(0%nat, (mkE 2 5 1 1, true))]; ObMut SPKI_SUCCESS [(0%nat, (mkE 66 5 1 1, true))];
     ObMut SPKI_SUCCESS [(0%nat, (mkE 2 5 2 2, true))]; ObMut SPKI_SUCCESS [(0%nat, (mkE 2 6 1 1, true))];
     ObMut SPKI_DUPLICATE_RECORD []; ObMut SPKI_RECORD_NOT_FOUND [];
     ObBag [mkE 2 5 1 1; mkE 2 5 2 2]; ObBag [mkE 66 5 1 1];
     ObList [mkE 2 5 1 1; mkE 66 5 1 1; mkE 2 5 2 2]].
Proof. vm_compute. split; reflexivity. Qed.

(* copy / swap / notify_diff as rtr_sync uses them *)
Example ex_sync :
  let ops := [OAdd 0 (mkE 1 1 1 1); OAdd 0 (mkE 2 1 1 2); OAdd 0 (mkE 3 1 1 1);
              OCopy 0 1 1; OAdd 1 (mkE 3 1 1 1); OAdd 1 (mkE 4 1 1 1); OSwap 0 1; ONotifyDiff 0 1 1; OSearchSki 0 1; OSearchSki 1 1] in
  snd (run ex_hash ex_bit0 false ops (init_state ex_bit0)) =
    [ObMut SPKI_SUCCESS [(0%nat, (mkE 1 1 1 1, true))]; ObMut SPKI_SUCCESS [(0%nat, (mkE 2 1 1 2, true))];
     ObMut SPKI_SUCCESS [(0%nat, (mkE 3 1 1 1, true))];
     ObMut SPKI_SUCCESS [(1%nat, (mkE 2 1 1 2, true))];
     ObMut SPKI_SUCCESS [(1%nat, (mkE 3 1 1 1, true))]; ObMut SPKI_SUCCESS [(1%nat, (mkE 4 1 1 1, true))];
     ObMut SPKI_SUCCESS [];
     ObMut SPKI_SUCCESS [(0%nat, (mkE 4 1 1 1, true)); (0%nat, (mkE 1 1 1 1, false))];
     ObList [mkE 2 1 1 2; mkE 3 1 1 1; mkE 4 1 1 1]; ObList [mkE 1 1 1 1; mkE 2 1 1 2]].
Proof. vm_compute. reflexivity. Qed.
