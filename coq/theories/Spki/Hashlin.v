(* Hashlin.v - executable model of third-party/tommyds/tommyhashlin.{c,h} (linear hashing with
   incremental grow / shrink), written after the C, function by function.

   Representation.  The C keeps [bucket_max] slots in segments; only the slots
   [0 .. low_max + split) are initialised and reachable through [tommy_hashlin_bucket_ref]
   (the freshly malloc'ed half is filled slot by slot while [split] advances).  The model keeps
   exactly these valid slots: [buckets h] is a list of length [low_max + split]; the slot written
   by a grow step ([split + low_max]) is the next one (append), the slot abandoned by a shrink
   step is the last one (truncate).  A slot is the list of its nodes in chain order (tommy_list:
   insert at tail, removal keeps order, concat appends).  A node is (key, data) where key is the
   32-bit hash stored in [node->key].

   Integer fields are the C's tommy_count_t / tommy_uint_t values as Z; wrap-around of
   [2 * count], [8 * count], [1 << bucket_bit] is not modelled (needs >= 2^28 elements).
   Definitions only; proofs are in SpkiProofs.v. *)
From Coq Require Import ZArith List Bool.
Import ListNotations.
Local Open Scope Z_scope.

(* ---- list helpers -------------------------------------------------------- *)
Fixpoint upd {X : Type} (n : nat) (x : X) (l : list X) : list X :=
  match l, n with
  | [], _ => []
  | _ :: r, O => x :: r
  | y :: r, S m => y :: upd m x r
  end.

(* remove the first element satisfying f (tommy_list_remove_existing of the node found) *)
Fixpoint remove_first {X : Type} (f : X -> bool) (l : list X) : list X :=
  match l with
  | [] => []
  | x :: r => if f x then r else x :: remove_first f r
  end.

(* TOMMY_HASHLIN_STATE_* *)
Definition ST_STABLE : Z := 0.
Definition ST_GROW : Z := 1.
Definition ST_SHRINK : Z := 2.

Section Hashlin.
Variable A : Type.      (* the data the nodes point to *)
Variable bit0 : Z.      (* TOMMY_HASHLIN_BIT *)

Definition node : Type := (Z * A)%type.

Record hashlin : Type := mkH {
  bucket_bit : Z;       (* bits used in the bit mask *)
  bucket_max : Z;       (* number of buckets *)
  bucket_mask : Z;
  low_max : Z;
  low_mask : Z;
  split : Z;
  count : Z;
  state : Z;
  buckets : list (list node) }.

Definition set_buckets (h : hashlin) (bs : list (list node)) (c : Z) : hashlin :=
  mkH (bucket_bit h) (bucket_max h) (bucket_mask h) (low_max h) (low_mask h) (split h) c (state h) bs.
Definition set_state (h : hashlin) (s : Z) : hashlin :=
  mkH (bucket_bit h) (bucket_max h) (bucket_mask h) (low_max h) (low_mask h) (split h) (count h) s (buckets h).

(* tommy_hashlin_stable *)
Definition set_stable (h : hashlin) : hashlin :=
  mkH (bucket_bit h) (bucket_max h) (bucket_mask h) (bucket_max h) (bucket_mask h) 0 (count h) ST_STABLE (buckets h).

(* tommy_hashlin_init *)
Definition hl_init : hashlin :=
  let bm := 2 ^ bit0 in
  mkH bit0 bm (bm - 1) bm (bm - 1) 0 0 ST_STABLE (repeat [] (Z.to_nat bm)).

(* *tommy_hashlin_pos(hashlin, pos); the default [] is never reached for a position computed by
   bucket_pos under the invariant (SpkiProofs.shape_pos_range) *)
Definition get_bucket (h : hashlin) (pos : Z) : list node := nth (Z.to_nat pos) (buckets h) [].

(* the position computed by tommy_hashlin_bucket_ref *)
Definition bucket_pos (h : hashlin) (hash : Z) : Z :=
  let pos := Z.land hash (low_mask h) in
  let high_pos := Z.land hash (bucket_mask h) in
  if pos <? split h then high_pos else pos.

(* tommy_hashlin_bucket *)
Definition hl_bucket (h : hashlin) (hash : Z) : list node := get_bucket h (bucket_pos h hash).

(* tommy_hashlin_search: first node of the bucket with node->key == hash && cmp(arg, data) == 0 *)
Definition hl_search (h : hashlin) (cmp : A -> bool) (hash : Z) : option node :=
  find (fun n => (fst n =? hash) && cmp (snd n)) (hl_bucket h hash).

(* ---- grow ---------------------------------------------------------------- *)
(* one iteration of the while loop of hashlin_grow_step, without the final state test *)
Definition split_one (h : hashlin) : hashlin :=
  let j := get_bucket h (split h) in
  let mask := low_max h in
  let lo := filter (fun n => Z.land (fst n) mask =? 0) j in
  let hi := filter (fun n => negb (Z.land (fst n) mask =? 0)) j in
  mkH (bucket_bit h) (bucket_max h) (bucket_mask h) (low_max h) (low_mask h) (split h + 1) (count h) (state h)
      (upd (Z.to_nat (split h)) lo (buckets h) ++ [hi]).

Fixpoint grow_loop (fuel : nat) (target : Z) (h : hashlin) : hashlin :=
  match fuel with
  | O => h
  | S f =>
    if split h + low_max h <? target then
      let h1 := split_one h in
      if split h1 =? low_max h1 then set_stable h1 else grow_loop f target h1
    else h
  end.

(* the first if of hashlin_grow_step *)
Definition grow_setup (h : hashlin) : hashlin :=
  if negb (state h =? ST_GROW) && (bucket_max h / 2 <? count h) then
    let h1 :=
      if state h =? ST_STABLE then
        mkH (bucket_bit h + 1) (2 ^ (bucket_bit h + 1)) (2 ^ (bucket_bit h + 1) - 1)
            (bucket_max h) (bucket_mask h) 0 (count h) (state h) (buckets h)
      else h in
    set_state h1 ST_GROW
  else h.

(* hashlin_grow_step; the loop runs at most low_max - split times, low_max is ample fuel
   (SpkiProofs.grow_loop_exit: the loop really leaves through its own condition) *)
Definition grow_step (h : hashlin) : hashlin :=
  let h1 := grow_setup h in
  if state h1 =? ST_GROW then grow_loop (Z.to_nat (low_max h1)) (2 * count h1) h1 else h1.

(* ---- shrink -------------------------------------------------------------- *)
(* one iteration of the while loop of hashlin_shrink_step, without the final test *)
Definition merge_one (h : hashlin) : hashlin :=
  let s := split h - 1 in
  let lo := get_bucket h s in
  let hi := get_bucket h (s + low_max h) in
  mkH (bucket_bit h) (bucket_max h) (bucket_mask h) (low_max h) (low_mask h) s (count h) (state h)
      (upd (Z.to_nat s) (lo ++ hi) (firstn (Z.to_nat (s + low_max h)) (buckets h))).

(* the "if we have finished" block *)
Definition shrink_finish (h : hashlin) : hashlin :=
  let bb := bucket_bit h - 1 in
  set_stable (mkH bb (2 ^ bb) (2 ^ bb - 1) (low_max h) (low_mask h) (split h) (count h) (state h) (buckets h)).

Fixpoint shrink_loop (fuel : nat) (target : Z) (h : hashlin) : hashlin :=
  match fuel with
  | O => h
  | S f =>
    if target <? split h + low_max h then
      let h1 := merge_one h in
      if split h1 =? 0 then shrink_finish h1 else shrink_loop f target h1
    else h
  end.

Definition shrink_setup (h : hashlin) : hashlin :=
  if negb (state h =? ST_SHRINK) && (count h <? bucket_max h / 8) then
    if bit0 <? bucket_bit h then
      let h1 :=
        if state h =? ST_STABLE then
          mkH (bucket_bit h) (bucket_max h) (bucket_mask h)
              (bucket_max h / 2) (bucket_mask h / 2) (bucket_max h / 2) (count h) (state h) (buckets h)
        else h in
      set_state h1 ST_SHRINK
    else h
  else h.

Definition shrink_step (h : hashlin) : hashlin :=
  let h1 := shrink_setup h in
  if state h1 =? ST_SHRINK then shrink_loop (Z.to_nat (low_max h1)) (8 * count h1) h1 else h1.

(* ---- insert / remove ------------------------------------------------------ *)
(* tommy_hashlin_insert *)
Definition hl_insert (h : hashlin) (hash : Z) (data : A) : hashlin :=
  let pos := bucket_pos h hash in
  grow_step (set_buckets h (upd (Z.to_nat pos) (get_bucket h pos ++ [(hash, data)]) (buckets h)) (count h + 1)).

(* common body of tommy_hashlin_remove / tommy_hashlin_remove_existing: unlink the first node of
   bucket_ref(hash) selected by f, decrement count, shrink step; None when no node is selected *)
Definition hl_remove_first (h : hashlin) (hash : Z) (f : node -> bool) : hashlin * option node :=
  let pos := bucket_pos h hash in
  match find f (get_bucket h pos) with
  | None => (h, None)
  | Some n =>
    (shrink_step (set_buckets h (upd (Z.to_nat pos) (remove_first f (get_bucket h pos)) (buckets h)) (count h - 1)),
     Some n)
  end.

(* tommy_hashlin_remove(hashlin, cmp, arg, hash) *)
Definition hl_remove (h : hashlin) (cmp : A -> bool) (hash : Z) : hashlin * option node :=
  hl_remove_first h hash (fun n => (fst n =? hash) && cmp (snd n)).

(* tommy_hashlin_remove_existing(hashlin, node): the node is identified by its address in C; here by
   its key and (with [same], an equality test on the data) its data; under the table invariant no
   two nodes carry equal data, so this names the same node *)
Definition hl_remove_existing (h : hashlin) (same : A -> A -> bool) (n : node) : hashlin * option node :=
  hl_remove_first h (fst n) (fun m => (fst m =? fst n) && same (snd n) (snd m)).

(* all nodes, bucket after bucket (the order of tommy_hashlin_foreach) *)
Definition elements (h : hashlin) : list node := concat (buckets h).

End Hashlin.

Arguments mkH {A}.
Arguments bucket_bit {A}.
Arguments bucket_max {A}.
Arguments bucket_mask {A}.
Arguments low_max {A}.
Arguments low_mask {A}.
Arguments split {A}.
Arguments count {A}.
Arguments state {A}.
Arguments buckets {A}.
Arguments set_buckets {A}.
Arguments set_state {A}.
Arguments set_stable {A}.
Arguments hl_init {A}.
Arguments get_bucket {A}.
Arguments bucket_pos {A}.
Arguments hl_bucket {A}.
Arguments hl_search {A}.
Arguments split_one {A}.
Arguments grow_loop {A}.
Arguments grow_setup {A}.
Arguments grow_step {A}.
Arguments merge_one {A}.
Arguments shrink_finish {A}.
Arguments shrink_loop {A}.
Arguments shrink_setup {A}.
Arguments shrink_step {A}.
Arguments hl_insert {A}.
Arguments hl_remove_first {A}.
Arguments hl_remove {A}.
Arguments hl_remove_existing {A}.
Arguments elements {A}.
