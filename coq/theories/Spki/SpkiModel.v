(* SpkiModel.v - executable model of rtrlib/spki/hashtable/ht-spkitable.c: a tommy_hashlin keyed by
   hash(asn) plus an insertion-ordered tommy_list holding the same entries.  Written after the C,
   function by function.  Every mutating operation returns (return code, new table(s), list of
   update_fp invocations in order).  Definitions only; proofs are in SpkiProofs.v.

   [hash] is tommy_inthash_u32 (translated from the code for execution, arbitrary in the proofs),
   [bit0] is TOMMY_HASHLIN_BIT.  Return codes are the enumerators of enum spki_rtvals as
   translated from the code (Gen/Generated.v).

   Not modelled: allocation failure (lrtr_malloc / lrtr_realloc returning NULL - property C18), the
   rwlock (C16), and the two "cannot happen" SPKI_ERROR exits of spki_table_src_remove
   (tommy_*_remove_existing return node->data, which is never NULL). *)
From Coq Require Import ZArith List Bool.
From RtrV Require Import Base.CSem Gen.Generated Spki.Hashlin.
Import ListNotations.
Local Open Scope Z_scope.

(* struct spki_record / struct key_entry.  ski and spki stand for the 20- and 91-byte arrays, which
   the code only copies and compares as a whole (memcmp over sizeof); src stands for the
   rtr_socket pointer, which the code only compares. *)
Record entry : Type := mkE { e_asn : Z; e_ski : Z; e_spki : Z; e_src : Z }.

(* key_entry_cmp(arg, obj) == 0 *)
Definition key_entry_cmp (param e : entry) : bool :=
  if negb (e_asn param =? e_asn e) then false
  else if negb (e_ski param =? e_ski e) then false
  else if negb (e_spki param =? e_spki e) then false
  else if negb (e_src param =? e_src e) then false
  else true.

Definition callback : Type := (entry * bool)%type.   (* record, added *)

Definition SPKI_SUCCESS : Z := c_SPKI_SUCCESS.
Definition SPKI_ERROR : Z := c_SPKI_ERROR.
Definition SPKI_DUPLICATE_RECORD : Z := c_SPKI_DUPLICATE_RECORD.
Definition SPKI_RECORD_NOT_FOUND : Z := c_SPKI_RECORD_NOT_FOUND.

(* ======================================================================================
   C10 FIX SWITCH.  [false] = the code as it is: spki_table_src_remove calls no update_fp.
   After the fix proposed in /verif/proposed_fixes/C10-src-remove-callbacks.diff is applied to
   /repo, set this to [true]; then in Props/Properties_C10.v replace C10_refuted by
     Theorem C10_full_holds : C10_full.  Proof. exact (full_of_fix eq_refl). Qed.
   (and its Print Assumptions line; in tools/props/C10.py replace "C10_refuted" by "C10_full_holds" in
   THEOREMS).  Nothing else changes: SpkiProofs.v is written for both values.
   ====================================================================================== *)
Definition SRC_REMOVE_NOTIFIES : bool := true.

Section Spki.
Variable hash : Z -> Z.
Variable bit0 : Z.

(* struct spki_table: hashtable + list (cmp_fp is key_entry_cmp; update_fp is the recorder) *)
Record spki_table : Type := mkT { ht : hashlin entry; lst : list entry }.

(* spki_table_init *)
Definition spki_init : spki_table := mkT (hl_init bit0) [].

(* spki_table_add_entry *)
Definition add_entry (t : spki_table) (e : entry) : Z * spki_table * list callback :=
  let h := hash (e_asn e) in
  match hl_search (ht t) (key_entry_cmp e) h with
  | Some _ => (SPKI_DUPLICATE_RECORD, t, [])
  | None => (SPKI_SUCCESS, mkT (hl_insert (ht t) h e) (lst t ++ [e]), [(e, true)])
  end.

(* spki_table_get_all: walk of the bucket of hash(asn), filtered by asn and ski; in bucket order *)
Definition get_all (t : spki_table) (asn ski : Z) : list entry :=
  map snd (filter (fun n => (e_asn (snd n) =? asn) && (e_ski (snd n) =? ski)) (hl_bucket (ht t) (hash asn))).

(* spki_table_search_by_ski: walk of the list, filtered by ski; in list order *)
Definition search_by_ski (t : spki_table) (ski : Z) : list entry :=
  filter (fun e => e_ski e =? ski) (lst t).

(* spki_table_remove_entry *)
Definition remove_entry (t : spki_table) (e : entry) : Z * spki_table * list callback :=
  let h := hash (e_asn e) in
  match hl_search (ht t) (key_entry_cmp e) h with
  | None => (SPKI_RECORD_NOT_FOUND, t, [])
  | Some _ =>
    match hl_remove bit0 (ht t) (key_entry_cmp e) h with
    | (h', Some n) => (SPKI_SUCCESS, mkT h' (remove_first (key_entry_cmp (snd n)) (lst t)), [(e, false)])
    | (_, None) => (SPKI_ERROR, t, [])
    end
  end.

(* the body of the loop of spki_table_src_remove for an entry of that socket: unlink its list node,
   tommy_hashlin_remove_existing on its hash node (whose key is hash(asn), set at insertion) *)
Definition remove_node (t : spki_table) (e : entry) : spki_table :=
  mkT (fst (hl_remove_existing bit0 (ht t) key_entry_cmp (hash (e_asn e), e)))
      (remove_first (key_entry_cmp e) (lst t)).

Fixpoint src_remove_walk (l : list entry) (s : Z) (t : spki_table) : spki_table :=
  match l with
  | [] => t
  | e :: r => if e_src e =? s then src_remove_walk r s (remove_node t e) else src_remove_walk r s t
  end.

(* spki_table_src_remove.  [notifies] selects whether a removal callback is fired for each removed
   record (in list order): false = the code as it is, true = the code after the proposed fix. *)
Definition src_remove_gen (notifies : bool) (t : spki_table) (s : Z) : Z * spki_table * list callback :=
  (SPKI_SUCCESS, src_remove_walk (lst t) s t,
   if notifies then map (fun e => (e, false)) (filter (fun e => e_src e =? s) (lst t)) else []).

Definition src_remove := src_remove_gen SRC_REMOVE_NOTIFIES.

(* spki_table_copy_except_socket(src, dst, socket): walk of src's list, add_entry into dst, stop
   with SPKI_ERROR at the first add that does not succeed.  Callbacks are dst's. *)
Fixpoint copy_walk (l : list entry) (s : Z) (dst : spki_table) (cbs : list callback)
  : Z * spki_table * list callback :=
  match l with
  | [] => (SPKI_SUCCESS, dst, cbs)
  | e :: r =>
    if negb (e_src e =? s) then
      match add_entry dst e with
      | (rc, dst', c) =>
        if negb (rc =? SPKI_SUCCESS) then (SPKI_ERROR, dst', cbs ++ c) else copy_walk r s dst' (cbs ++ c)
      end
    else copy_walk r s dst cbs
  end.

Definition copy_except_socket (src dst : spki_table) (s : Z) : Z * spki_table * list callback :=
  copy_walk (lst src) s dst [].

(* spki_table_swap: exchanges hashtable and list (update_fp stays with the table object) *)
Definition swap (a b : spki_table) : spki_table * spki_table := (mkT (ht b) (lst b), mkT (ht a) (lst a)).

(* spki_table_notify_diff(new_table, old_table, socket): old_table's update_fp is off meanwhile, so
   the removals from old_table are silent; all callbacks are new_table's.  Returns the modified
   old_table and the callbacks. *)
Fixpoint diff_walk_new (l : list entry) (s : Z) (old : spki_table) (cbs : list callback)
  : spki_table * list callback :=
  match l with
  | [] => (old, cbs)
  | e :: r =>
    if e_src e =? s then
      match remove_entry old e with
      | (rc, old', _) =>
        diff_walk_new r s old' (if rc =? SPKI_RECORD_NOT_FOUND then cbs ++ [(e, true)] else cbs)
      end
    else diff_walk_new r s old cbs
  end.

Definition notify_diff (new old : spki_table) (s : Z) : spki_table * list callback :=
  match diff_walk_new (lst new) s old [] with
  | (old', cbs) => (old', cbs ++ map (fun e => (e, false)) (filter (fun e => e_src e =? s) (lst old')))
  end.

(* spki_table_free followed by spki_table_init: an empty table; no update_fp invocation *)
Definition free_table (t : spki_table) : spki_table * list callback := (spki_init, []).

Definition contents (t : spki_table) : list entry := lst t.

End Spki.

