(* PfxHistory.v - the per-operation results lifted to every history from the empty table:
   the statements the property files C01, C02 and C09 close with [exact]. *)
From RtrV Require Import Base.CSem Gen.Generated.
From RtrV Require Import Pfx.TrieModel Pfx.TrieInv Pfx.TrieSet Pfx.TrieValidate Pfx.PfxTable Pfx.PfxProofs
                         Pfx.PfxValidate Pfx.Hazards.
From Coq Require Import Permutation.

Lemma empty_TWF : TWF empty_table.
Proof. split; exact I. Qed.

Theorem history_all ops : Forall op_ok ops ->
  exists T cs cbs Y, run empty_table ops = Some (T, cs, cbs) /\ TWF T /\
    Permutation (trecords T) (fst (sp_run [] ops)) /\ cs = snd (sp_run [] ops) /\
    replay cbs [] = Some Y /\ Permutation Y (trecords T) /\ NoDup (trecords T).
Proof.
  intros Hok.
  destruct (run_spec ops empty_table [] empty_TWF (Permutation_refl _) Hok) as (T & cs & cbs & Y & H1 & H2 & H3 & H4 & H5 & H6).
  exists T, cs, cbs, Y. repeat (split; [assumption|]). apply TWF_NoDup. exact H2.
Qed.

Lemma reachable_TWF ops T cs cbs : Forall op_ok ops -> run empty_table ops = Some (T, cs, cbs) ->
  TWF T /\ Permutation (trecords T) (fst (sp_run [] ops)).
Proof.
  intros Hok Hrun. destruct (history_all ops Hok) as (T' & cs' & cbs' & Y & H1 & H2 & H3 & _).
  rewrite Hrun in H1. injection H1 as <- <- <-. auto.
Qed.

(* ---------------- C01 ---------------- *)
Theorem c01_state : forall ops T cs cbs v6 asn q qlen,
  Forall op_ok ops -> run empty_table ops = Some (T, cs, cbs) -> length q = width v6 ->
  fst (tvalidate T v6 asn q qlen) = sp_validate (fst (sp_run [] ops)) v6 asn q qlen.
Proof.
  intros ops T cs cbs v6 asn q qlen Hok Hrun Hq.
  destruct (reachable_TWF ops T cs cbs Hok Hrun) as [Hwf Hp].
  rewrite tvalidate_state by assumption. apply sp_validate_perm. exact Hp.
Qed.

Lemma reasons_spec_perm asn qlen cov cov' res : Permutation cov cov' ->
  reasons_spec asn qlen cov res -> reasons_spec asn qlen cov' res.
Proof.
  intros Hp. destruct res as [[| |] rs]; simpl.
  - intros [(rest & Hr) He]. split; [|exact He]. exists rest. rewrite Hr. exact Hp.
  - intros [-> ->]. apply Permutation_nil in Hp. auto.
  - intros Hr. rewrite Hr. exact Hp.
Qed.

Theorem c01_reasons : forall ops T cs cbs v6 asn q qlen,
  Forall op_ok ops -> run empty_table ops = Some (T, cs, cbs) -> length q = width v6 ->
  reasons_spec asn qlen (filter (fcovrec v6 q qlen) (fst (sp_run [] ops))) (tvalidate T v6 asn q qlen).
Proof.
  intros ops T cs cbs v6 asn q qlen Hok Hrun Hq.
  destruct (reachable_TWF ops T cs cbs Hok Hrun) as [Hwf Hp].
  eapply reasons_spec_perm; [apply filter_perm; exact Hp|]. apply tvalidate_reasons; assumption.
Qed.

Lemma hz_zero_code_false : hz_zero_code = false.
Proof. vm_compute. reflexivity. Qed.

Theorem c01_no_ub : forall ops T cs cbs v6 asn q qlen,
  Forall op_ok ops -> run empty_table ops = Some (T, cs, cbs) ->
  tvalidate_ub hz_zero_code false T v6 asn q qlen = false.
Proof.
  intros ops T cs cbs v6 asn q qlen Hok Hrun.
  destruct (reachable_TWF ops T cs cbs Hok Hrun) as [Hwf _].
  rewrite hz_zero_code_false. apply tvalidate_no_ub. exact Hwf.
Qed.

(* ---------------- C02 ---------------- *)
Theorem c02_history : forall ops, Forall op_ok ops ->
  exists T cs cbs, run empty_table ops = Some (T, cs, cbs) /\
    Permutation (trecords T) (fst (sp_run [] ops)) /\ cs = snd (sp_run [] ops) /\ NoDup (trecords T).
Proof.
  intros ops Hok. destruct (history_all ops Hok) as (T & cs & cbs & Y & H1 & H2 & H3 & H4 & H5 & H6 & H7).
  exists T, cs, cbs. auto.
Qed.

Theorem c02_no_change : forall ops T cs cbs r,
  Forall op_ok ops -> run empty_table ops = Some (T, cs, cbs) -> rec_ok r ->
  (snd (fst (tadd T r)) <> SUCCESS -> snd (fst (tadd T r)) = DUP /\ fst (fst (tadd T r)) = T /\ In r (fst (sp_run [] ops))) /\
  (snd (fst (tremove T r)) <> SUCCESS -> snd (fst (tremove T r)) = NOTFOUND /\ fst (fst (tremove T r)) = T /\ ~ In r (fst (sp_run [] ops))).
Proof.
  intros ops T cs cbs r Hok Hrun Hr.
  destruct (reachable_TWF ops T cs cbs Hok Hrun) as [Hwf Hp]. split.
  - destruct (tadd_spec T _ r Hwf Hp Hr) as (T' & c & cb' & X' & H1 & _ & _ & _ & [(-> & _)|(-> & _ & -> & Hin)]);
      rewrite H1; simpl; [congruence|auto].
  - destruct (tremove_spec T _ r Hwf Hp Hr) as (T' & c & cb' & X' & H1 & _ & _ & _ & [(-> & _)|(-> & _ & -> & Hin)]);
      rewrite H1; simpl; [congruence|auto].
Qed.

Theorem c02_distinct : forall a b : frecord, frec_eqb a b = true <-> a = b.
Proof. exact frec_eqb_true. Qed.

(* ---------------- C09 (operations on one table; reload and rollback are in PfxReload.v / Rtr) ---------------- *)
Theorem c09_history : forall ops, Forall op_ok ops ->
  exists T cs cbs Y, run empty_table ops = Some (T, cs, cbs) /\ replay cbs [] = Some Y /\ Permutation Y (trecords T).
Proof.
  intros ops Hok. destruct (history_all ops Hok) as (T & cs & cbs & Y & H1 & H2 & H3 & H4 & H5 & H6 & H7).
  exists T, cs, cbs, Y. auto.
Qed.

Lemma tfree_spec T : TWF T ->
  exists cbs, tfree T = Some cbs /\ forallb is_removed cbs = true /\ Permutation (map cb_rec cbs) (trecords T).
Proof.
  intros [H4 H6]. unfold tfree.
  destruct (free_cbs_spec 32 (size (t4 T)) (t4 T) 0 [] (le_n _) H4 eq_refl) as (a & Ha & Hpa).
  destruct (free_cbs_spec 128 (size (t6 T)) (t6 T) 0 [] (le_n _) H6 eq_refl) as (b & Hb & Hpb).
  rewrite Ha, Hb. eexists. split; [reflexivity|]. split.
  - rewrite forallb_app. apply andb_true_iff. split; apply forallb_forall; intros x Hx;
      apply in_map_iff in Hx as (y & <- & _); reflexivity.
  - rewrite map_app, !map_map. simpl.
    rewrite (map_ext (fun x => cb_rec (Removed (tag false x))) (tag false)) by reflexivity.
    rewrite (map_ext (fun x => cb_rec (Removed (tag true x))) (tag true)) by reflexivity.
    unfold trecords. rewrite Hpa, Hpb. reflexivity.
Qed.

Theorem c09_free : forall ops T cs cbs, Forall op_ok ops -> run empty_table ops = Some (T, cs, cbs) ->
  exists fcbs, tfree T = Some fcbs /\ replay fcbs (trecords T) = Some [].
Proof.
  intros ops T cs cbs Hok Hrun. destruct (reachable_TWF ops T cs cbs Hok Hrun) as [Hwf _].
  destruct (tfree_spec T Hwf) as (fcbs & Hf & Hall & Hp). exists fcbs. split; [exact Hf|].
  pose proof (TWF_NoDup T Hwf) as Hnd.
  assert (Hnd' : NoDup (map cb_rec fcbs)) by (apply (Permutation_NoDup (Permutation_sym Hp)); exact Hnd).
  assert (Hincl : incl (map cb_rec fcbs) (trecords T)) by (intros x Hx; apply (Permutation_in _ Hp Hx)).
  destruct (replay_removed_all _ _ Hnd' Hnd Hincl) as (X' & Hrep & HpX & _).
  rewrite (all_removed fcbs Hall). rewrite Hrep. f_equal.
  rewrite <- Hp in HpX. rewrite <- (app_nil_r (map cb_rec fcbs)) in HpX at 1.
  apply Permutation_app_inv_l in HpX. apply Permutation_nil in HpX. exact HpX.
Qed.

(* ---------------- non-vacuity: a concrete nested history ---------------- *)
Definition a4 (s : list bool) : addr := s ++ repeat false (32 - length s).
Definition ex_ops : list op :=
  [ OAdd (false, a4 [true; false], 2, mkE 65000 24 1);
    OAdd (false, a4 [true], 1, mkE 1 1 2);
    OAdd (false, a4 [], 0, mkE 0 32 1);
    OAdd (false, a4 [true; false; true], 3, mkE 7 3 3);
    OAdd (false, a4 [true; false], 2, mkE 65000 24 1);          (* duplicate *)
    ORemove (false, a4 [true], 1, mkE 1 1 2);                   (* forces a pull-up *)
    ORemove (false, a4 [false], 1, mkE 1 1 2);                  (* unknown *)
    OSrcRemove 3 ].

Example ex_ops_ok : Forall op_ok ex_ops.
Proof. repeat constructor; vm_compute; repeat split; reflexivity. Qed.

Example ex_three_states :
  exists T cs cbs, run empty_table ex_ops = Some (T, cs, cbs) /\
    cs = [SUCCESS; SUCCESS; SUCCESS; SUCCESS; DUP; SUCCESS; NOTFOUND; SUCCESS] /\
    fst (tvalidate T false 65000 (a4 [true; false; true; true]) 24) = VALID /\
    fst (tvalidate T false 65001 (a4 [true; false; true; true]) 24) = INVALID /\
    fst (tvalidate T true 65000 (repeat false 128) 0) = NOT_FOUND /\
    length (trecords T) = 2.
Proof. vm_compute. eexists _, _, _. repeat split. Qed.
