(* Hazards.v - facts about the C leaf code that the trie model depends on, computed from the
   translator's output (Gen/Generated.v, regenerated from /repo on every run). *)
From RtrV Require Import Base.CSem Gen.Generated.
Local Open Scope Z_scope.

(* does lrtr_get_bits still abort / hit UB when asked for zero bits (comparison against a /0 prefix)? *)
Definition hz_zero_code : bool :=
  match lrtr_get_bits_gen 0 0 0 with None => true | Some _ => false end.
