(* PfxProofs.v - table level: every history of add / remove / remove-by-source keeps both tries
   well-formed, makes the table's contents the set the Spec computes (C02), and fires callbacks
   whose replay reproduces the contents (C09, per operation and per history). *)
From RtrV Require Import Pfx.TrieModel Pfx.TrieInv Pfx.TrieSet Pfx.PfxTable.
From Coq Require Import Permutation.

Definition TWF (T : table) : Prop := WF 32 0 [] (t4 T) /\ WF 128 0 [] (t6 T).

Definition rec_ok (r : frecord) : Prop := let '(v6, p, len, _) := r in key_ok (width v6) p len.

Definition op_ok (o : op) : Prop :=
  match o with OAdd r | ORemove r => rec_ok r | _ => True end.

Lemma frecord_eq_dec : forall a b : frecord, {a = b} + {a <> b}.
Proof. repeat decide equality. Qed.

Ltac csplit := repeat match goal with |- _ /\ _ => split end.

Ltac fperm :=
  let x := fresh "x" in
  apply (Permutation_count_occ frecord_eq_dec); intro x;
  repeat (rewrite ?count_occ_app; cbn [count_occ]);
  repeat match goal with |- context [if ?c then _ else _] => destruct c end; lia.

Lemma TWF_root T v6 : TWF T -> WF (width v6) 0 [] (root T v6).
Proof. intros [H4 H6]. destruct v6; assumption. Qed.

Lemma TWF_set_root T v6 t : TWF T -> WF (width v6) 0 [] t -> TWF (set_root T v6 t).
Proof. intros [H4 H6] H. destruct v6; split; simpl; assumption. Qed.

Lemma tag_inj v6 a b : tag v6 a = tag v6 b -> a = b.
Proof. destruct a as [[? ?] ?], b as [[? ?] ?]. simpl. intros H. injection H as -> -> ->. reflexivity. Qed.

Lemma in_trecords T v6 p len e :
  In (v6, p, len, e) (trecords T) <-> In (p, len, e) (records (root T v6)).
Proof.
  unfold trecords. rewrite in_app_iff, !in_map_iff. split.
  - intros [(x & Hx & Hin)|(x & Hx & Hin)]; destruct x as [[? ?] ?]; simpl in Hx; injection Hx as <- <- <- <-; exact Hin.
  - intros Hin. destruct v6; [right|left]; exists (p, len, e); auto.
Qed.

Lemma trecords_set_root_add T v6 t' x :
  Permutation (records t') (x :: records (root T v6)) ->
  Permutation (trecords (set_root T v6 t')) (tag v6 x :: trecords T).
Proof.
  intros H. unfold trecords. destruct v6; simpl in *.
  - rewrite (Permutation_map (tag true) H). simpl. fperm.
  - rewrite (Permutation_map (tag false) H). simpl. fperm.
Qed.

Lemma trecords_set_root_del T v6 t' x :
  Permutation (records (root T v6)) (x :: records t') ->
  Permutation (trecords T) (tag v6 x :: trecords (set_root T v6 t')).
Proof.
  intros H. unfold trecords. destruct v6; simpl in *.
  - rewrite (Permutation_map (tag true) H). simpl. fperm.
  - rewrite (Permutation_map (tag false) H). simpl. fperm.
Qed.

Lemma TWF_NoDup T : TWF T -> NoDup (trecords T).
Proof.
  intros [H4 H6]. unfold trecords. apply NoDup_app'.
  - apply FinFun.Injective_map_NoDup; [intros a b; apply tag_inj|]. eapply WF_NoDup_records; eauto.
  - apply FinFun.Injective_map_NoDup; [intros a b; apply tag_inj|]. eapply WF_NoDup_records; eauto.
  - intros x H1 H2. apply in_map_iff in H1 as ([[? ?] ?] & <- & _). apply in_map_iff in H2 as ([[? ?] ?] & Hx & _).
    simpl in Hx. discriminate.
Qed.

(* ---------- the Spec's boolean membership ---------- *)
Lemma frec_eqb_true a b : frec_eqb a b = true <-> a = b.
Proof.
  destruct a as [[[va pa] la] ea], b as [[[vb pb] lb] eb]. unfold frec_eqb.
  rewrite !andb_true_iff, Bool.eqb_true_iff, addr_eqb_true, Nat.eqb_eq, elem_eqb_true. split.
  - intros [[[-> ->] ->] ->]. reflexivity.
  - intros H. injection H as -> -> -> ->. auto.
Qed.

Lemma sp_mem_In r X : sp_mem r X = true <-> In r X.
Proof.
  unfold sp_mem. rewrite existsb_exists. split.
  - intros (x & Hx & He). apply frec_eqb_true in He. subst. exact Hx.
  - intros H. exists r. split; [exact H|apply frec_eqb_true; reflexivity].
Qed.

Lemma sp_mem_false r X : sp_mem r X = false <-> ~ In r X.
Proof. rewrite <- sp_mem_In. destruct (sp_mem r X); split; congruence. Qed.

Lemma filter_remove_perm r X : NoDup X -> In r X ->
  Permutation X (r :: filter (fun x => negb (frec_eqb r x)) X).
Proof.
  induction X as [|y X IH]; simpl; [tauto|]. intros Hn [->|Hin]; inversion Hn; subst.
  - assert (E : frec_eqb r r = true) by (apply frec_eqb_true; reflexivity). rewrite E. simpl.
    constructor. clear -H1. induction X as [|z X IH]; simpl; [constructor|].
    destruct (frec_eqb r z) eqn:Ez.
    + apply frec_eqb_true in Ez. subst. simpl in H1. tauto.
    + simpl. constructor. apply IH. simpl in H1. tauto.
  - destruct (frec_eqb r y) eqn:Ey.
    + apply frec_eqb_true in Ey. subst. contradiction.
    + simpl. rewrite perm_swap. constructor. apply IH; auto.
Qed.

Lemma filter_perm {A} (f : A -> bool) l l' : Permutation l l' -> Permutation (filter f l) (filter f l').
Proof.
  induction 1; simpl; auto.
  - destruct (f x); auto.
  - destruct (f x), (f y); auto. constructor.
  - etransitivity; eauto.
Qed.

(* ---------- one operation ---------- *)
Lemma tadd_spec T X r : TWF T -> Permutation (trecords T) X -> rec_ok r ->
  exists T' c cbs X', tadd T r = (T', c, cbs) /\ sp_add X r = (X', c) /\ TWF T' /\
    Permutation (trecords T') X' /\
    ((c = SUCCESS /\ cbs = [Added r] /\ ~ In r X) \/ (c = DUP /\ cbs = [] /\ T' = T /\ In r X)).
Proof.
  intros Hwf Hperm Hok. destruct r as [[[v6 p] len] e]. simpl in Hok.
  pose proof (TWF_root T v6 Hwf) as Hr.
  assert (Hk : key_ok (width v6) p len) by exact Hok.
  destruct (add_spec (width v6) (root T v6) 0 [] p len e Hr eq_refl Hk eq_refl (Nat.le_0_l _)) as [Hdup Hnew].
  unfold tadd, sp_add.
  destruct (in_dec frecord_eq_dec (v6, p, len, e) X) as [Hin|Hnin].
  - assert (Hin' : In (p, len, e) (records (root T v6))).
    { apply in_trecords. apply (Permutation_in _ (Permutation_sym Hperm)). exact Hin. }
    rewrite (Hdup Hin'). apply sp_mem_In in Hin as Hm. rewrite Hm.
    exists T, DUP, [], X. split; [reflexivity|]. split; [reflexivity|]. split; [exact Hwf|]. split; [exact Hperm|].
    right. auto.
  - assert (Hnin' : ~ In (p, len, e) (records (root T v6))).
    { intros H. apply Hnin. apply (Permutation_in _ Hperm). apply in_trecords. exact H. }
    destruct (Hnew Hnin') as (t' & Hadd & Hw' & Hp' & _).
    rewrite Hadd. apply sp_mem_false in Hnin as Hm. rewrite Hm.
    exists (set_root T v6 t'), SUCCESS, [Added (v6, p, len, e)], (X ++ [(v6, p, len, e)]).
    split; [reflexivity|]. split; [reflexivity|]. split; [apply TWF_set_root; auto|]. split.
    + rewrite (trecords_set_root_add T v6 t' (p, len, e) Hp'). simpl. rewrite Hperm.
      apply Permutation_cons_append.
    + left. auto.
Qed.

Lemma tremove_spec T X r : TWF T -> Permutation (trecords T) X -> rec_ok r ->
  exists T' c cbs X', tremove T r = (T', c, cbs) /\ sp_remove X r = (X', c) /\ TWF T' /\
    Permutation (trecords T') X' /\
    ((c = SUCCESS /\ cbs = [Removed r] /\ In r X /\ Permutation X (r :: X')) \/
     (c = NOTFOUND /\ cbs = [] /\ T' = T /\ ~ In r X)).
Proof.
  intros Hwf Hperm Hok. destruct r as [[[v6 p] len] e]. simpl in Hok.
  pose proof (TWF_root T v6 Hwf) as Hr.
  assert (Hk : key_ok (width v6) p len) by exact Hok.
  destruct (remove_spec (width v6) (root T v6) 0 [] p len e Hr eq_refl Hk eq_refl (Nat.le_0_l _)) as [Hnf Hrm].
  assert (HndX : NoDup X) by (apply (Permutation_NoDup Hperm), TWF_NoDup, Hwf).
  unfold tremove, sp_remove.
  destruct (in_dec frecord_eq_dec (v6, p, len, e) X) as [Hin|Hnin].
  - assert (Hin' : In (p, len, e) (records (root T v6))).
    { apply in_trecords. apply (Permutation_in _ (Permutation_sym Hperm)). exact Hin. }
    destruct (Hrm Hin') as (t' & Hrem & Hw' & Hp' & _).
    rewrite Hrem. apply sp_mem_In in Hin as Hm. rewrite Hm.
    pose proof (filter_remove_perm _ _ HndX Hin) as HpX.
    exists (set_root T v6 t'), SUCCESS, [Removed (v6, p, len, e)], (filter (fun x => negb (frec_eqb (v6, p, len, e) x)) X).
    split; [reflexivity|]. split; [reflexivity|]. split; [apply TWF_set_root; auto|]. split.
    + pose proof (trecords_set_root_del T v6 t' (p, len, e) Hp') as H1. simpl in H1.
      rewrite Hperm in H1. rewrite HpX in H1 at 1. apply Permutation_cons_inv in H1. symmetry. exact H1.
    + left. auto.
  - assert (Hnin' : ~ In (p, len, e) (records (root T v6))).
    { intros H. apply Hnin. apply (Permutation_in _ Hperm). apply in_trecords. exact H. }
    rewrite (Hnf Hnin'). apply sp_mem_false in Hnin as Hm. rewrite Hm.
    exists T, NOTFOUND, [], X. split; [reflexivity|]. split; [reflexivity|]. split; [exact Hwf|]. split; [exact Hperm|].
    right. auto.
Qed.

Definition cb_rec (c : cb) : frecord := match c with Added r | Removed r => r end.
Definition is_removed (c : cb) : bool := match c with Removed _ => true | _ => false end.

Lemma of_src_tag v6 s x : of_src s x = (src_of (tag v6 x) =? s)%N.
Proof. destruct x as [[? ?] e]. reflexivity. Qed.

Lemma tsrc_remove_spec T X s : TWF T -> Permutation (trecords T) X ->
  exists T' cbs, tsrc_remove T s = Some (T', cbs) /\ TWF T' /\
    Permutation (trecords T') (sp_src_remove X s) /\
    forallb is_removed cbs = true /\
    Permutation (map cb_rec cbs) (filter (fun x => (src_of x =? s)%N) X).
Proof.
  intros [H4 H6] Hperm. unfold tsrc_remove.
  destruct (remove_id_spec 32 (size (t4 T)) (t4 T) 0 [] s (le_n _) H4 eq_refl) as (a & ca & Ha & Hwa & Hpa & Ha1 & Ha2 & _).
  destruct (remove_id_spec 128 (size (t6 T)) (t6 T) 0 [] s (le_n _) H6 eq_refl) as (b & cb6 & Hb & Hwb & Hpb & Hb1 & Hb2 & _).
  rewrite Ha, Hb. eexists _, _. split; [reflexivity|]. split; [split; assumption|].
  assert (Hf : forall v6 t' cbs t, Permutation (records t) (cbs ++ records t') ->
             (forall x, In x cbs -> of_src s x = true) -> (forall x, In x (records t') -> of_src s x = false) ->
             filter (fun x => negb (src_of x =? s)%N) (map (tag v6) (records t')) = map (tag v6) (records t') /\
             filter (fun x => negb (src_of x =? s)%N) (map (tag v6) cbs) = [] /\
             filter (fun x => (src_of x =? s)%N) (map (tag v6) (records t')) = [] /\
             filter (fun x => (src_of x =? s)%N) (map (tag v6) cbs) = map (tag v6) cbs).
  { intros v6 t' cbs t _ Hc1 Hc2. repeat split.
    - induction (records t') as [|x l IH]; simpl; [reflexivity|].
      rewrite <- of_src_tag, (Hc2 x) by (simpl; auto). simpl. f_equal. apply IH. intros; apply Hc2; simpl; auto.
    - induction cbs as [|x l IH]; simpl; [reflexivity|].
      rewrite <- of_src_tag, (Hc1 x) by (simpl; auto). simpl. apply IH. intros; apply Hc1; simpl; auto.
    - induction (records t') as [|x l IH]; simpl; [reflexivity|].
      rewrite <- of_src_tag, (Hc2 x) by (simpl; auto). simpl. apply IH. intros; apply Hc2; simpl; auto.
    - induction cbs as [|x l IH]; simpl; [reflexivity|].
      rewrite <- of_src_tag, (Hc1 x) by (simpl; auto). simpl. f_equal. apply IH. intros; apply Hc1; simpl; auto. }
  destruct (Hf false a ca (t4 T) Hpa Ha1 Ha2) as (F1 & F2 & F3 & F4).
  destruct (Hf true b cb6 (t6 T) Hpb Hb1 Hb2) as (G1 & G2 & G3 & G4).
  assert (HX : Permutation X (map (tag false) (ca ++ records a) ++ map (tag true) (cb6 ++ records b))).
  { rewrite <- Hperm. unfold trecords. rewrite (Permutation_map (tag false) Hpa), (Permutation_map (tag true) Hpb). reflexivity. }
  split.
  - unfold sp_src_remove. rewrite (filter_perm _ _ _ HX). rewrite !map_app, !filter_app, F1, F2, G1, G2.
    unfold trecords. simpl. reflexivity.
  - split.
    + rewrite forallb_app. apply andb_true_iff. split; apply forallb_forall; intros x Hx;
        apply in_map_iff in Hx as (y & <- & _); reflexivity.
    + rewrite (filter_perm _ _ _ HX). rewrite !map_app, !filter_app, F3, F4, G3, G4.
      rewrite !map_map. simpl. rewrite !app_nil_r.
      rewrite (map_ext (fun x => cb_rec (Removed (tag false x))) (tag false)) by reflexivity.
      rewrite (map_ext (fun x => cb_rec (Removed (tag true x))) (tag true)) by reflexivity.
      reflexivity.
Qed.

(* ---------- callback replay ---------- *)
Lemma replay_app c1 c2 X : replay (c1 ++ c2) X = match replay c1 X with Some X1 => replay c2 X1 | None => None end.
Proof.
  unfold replay. rewrite fold_left_app. destruct (fold_left replay1 c1 (Some X)) eqn:E; [reflexivity|].
  clear E. induction c2; simpl; auto.
Qed.

(* replaying "removed r" for every r of a duplicate-free list that is contained in X removes exactly them *)
Lemma replay_removed_all rs : forall X, NoDup rs -> NoDup X -> incl rs X ->
  exists X', replay (map Removed rs) X = Some X' /\ Permutation X (rs ++ X') /\ NoDup X'.
Proof.
  induction rs as [|r rs IH]; intros X Hn HnX Hincl.
  - exists X. repeat split; auto.
  - inversion Hn as [|? ? Hr Hrs]; subst.
    assert (Hin : In r X) by (apply Hincl; simpl; auto).
    pose proof (filter_remove_perm r X HnX Hin) as Hp.
    set (X1 := filter (fun x => negb (frec_eqb r x)) X) in *.
    assert (HnX1 : NoDup X1) by (apply NoDup_filter'; exact HnX).
    assert (Hincl1 : incl rs X1).
    { intros y Hy. unfold X1. apply filter_In. split; [apply Hincl; simpl; auto|].
      destruct (frec_eqb r y) eqn:E; [|reflexivity]. apply frec_eqb_true in E. subst. contradiction. }
    destruct (IH X1 Hrs HnX1 Hincl1) as (X' & Hrep & Hperm & HnX').
    exists X'. split.
    + cbn [map]. unfold replay in *. cbn [fold_left replay1]. apply sp_mem_In in Hin. rewrite Hin. exact Hrep.
    + split; [|exact HnX']. rewrite Hp. simpl. constructor. exact Hperm.
Qed.

Lemma all_removed cbs : forallb is_removed cbs = true -> cbs = map Removed (map cb_rec cbs).
Proof.
  induction cbs as [|c cbs IH]; simpl; [reflexivity|]. intros H. apply andb_true_iff in H as [H1 H2].
  destruct c; [discriminate|]. simpl. f_equal. apply IH. exact H2.
Qed.

(* ---------- one operation, all three aspects ---------- *)
Lemma step_spec T X o : TWF T -> Permutation (trecords T) X -> op_ok o ->
  exists T' c cbs X' Y, apply_op T o = Some (T', c, cbs) /\ sp_apply X o = (X', c) /\ TWF T' /\
    Permutation (trecords T') X' /\ replay cbs X = Some Y /\ Permutation Y X'.
Proof.
  intros Hwf Hperm Hok. destruct o as [r|r|s|v6 asn q qlen|]; simpl in *.
  - destruct (tadd_spec T X r Hwf Hperm Hok) as (T' & c & cbs & X' & H1 & H2 & H3 & H4 & H5).
    rewrite H1, H2. unfold sp_add in H2.
    destruct H5 as [(-> & -> & Hnin)|(-> & -> & -> & Hin)].
    + apply sp_mem_false in Hnin as Hm. rewrite Hm in H2. injection H2 as <-.
      exists T', SUCCESS, [Added r], (X ++ [r]), (X ++ [r]). csplit; auto.
      unfold replay. simpl. rewrite Hm. reflexivity.
    + apply sp_mem_In in Hin as Hm. rewrite Hm in H2. injection H2 as <-.
      exists T, DUP, [], X, X. csplit; auto.
  - destruct (tremove_spec T X r Hwf Hperm Hok) as (T' & c & cbs & X' & H1 & H2 & H3 & H4 & H5).
    rewrite H1, H2. unfold sp_remove in H2.
    destruct H5 as [(-> & -> & Hin & HpX)|(-> & -> & -> & Hnin)].
    + apply sp_mem_In in Hin as Hm. rewrite Hm in H2. injection H2 as <-.
      exists T', SUCCESS, [Removed r], (filter (fun x => negb (frec_eqb r x)) X), (filter (fun x => negb (frec_eqb r x)) X).
      csplit; auto.
      unfold replay. simpl. rewrite Hm. reflexivity.
    + apply sp_mem_false in Hnin as Hm. rewrite Hm in H2. injection H2 as <-.
      exists T, NOTFOUND, [], X, X. csplit; auto.
  - destruct (tsrc_remove_spec T X s Hwf Hperm) as (T' & cbs & H1 & H2 & H3 & H4 & H5).
    rewrite H1.
    assert (HndX : NoDup X) by (apply (Permutation_NoDup Hperm), TWF_NoDup, Hwf).
    assert (Hnd : NoDup (map cb_rec cbs)).
    { apply (Permutation_NoDup (Permutation_sym H5)). apply NoDup_filter'. exact HndX. }
    assert (Hincl : incl (map cb_rec cbs) X).
    { intros y Hy. apply (Permutation_in _ H5) in Hy. apply filter_In in Hy. tauto. }
    destruct (replay_removed_all _ X Hnd HndX Hincl) as (Y & Hrep & HpY & HnY).
    exists T', SUCCESS, cbs, (sp_src_remove X s), Y. csplit; auto.
    + rewrite (all_removed cbs H4). exact Hrep.
    + (* Y is what is left of X once the records of s are gone *)
      unfold sp_src_remove.
      pose proof (filter_split_perm (fun x => (src_of x =? s)%N) X) as Hsp.
      rewrite Hsp in HpY at 1. rewrite <- H5 in HpY. apply Permutation_app_inv_l in HpY. symmetry. exact HpY.
  - exists T, SUCCESS, [], X, X. csplit; auto.
  - exists T, SUCCESS, [], X, X. csplit; auto.
Qed.

(* replay is compatible with permutation of the starting set *)
Lemma replay1_perm c X Y : Permutation X Y ->
  match replay1 (Some X) c, replay1 (Some Y) c with
  | Some X', Some Y' => Permutation X' Y'
  | None, None => True
  | _, _ => False
  end.
Proof.
  intros Hp. destruct c as [r|r]; simpl.
  - destruct (sp_mem r X) eqn:Ex, (sp_mem r Y) eqn:Ey; auto.
    + apply sp_mem_In in Ex. apply sp_mem_false in Ey. apply Ey. apply (Permutation_in _ Hp Ex).
    + apply sp_mem_In in Ey. apply sp_mem_false in Ex. apply Ex. apply (Permutation_in _ (Permutation_sym Hp) Ey).
    + apply Permutation_app_tail. exact Hp.
  - destruct (sp_mem r X) eqn:Ex, (sp_mem r Y) eqn:Ey; auto.
    + apply filter_perm. exact Hp.
    + apply sp_mem_In in Ex. apply sp_mem_false in Ey. apply Ey. apply (Permutation_in _ Hp Ex).
    + apply sp_mem_In in Ey. apply sp_mem_false in Ex. apply Ex. apply (Permutation_in _ (Permutation_sym Hp) Ey).
Qed.

Lemma replay_perm cbs : forall X Y X', Permutation X Y -> replay cbs X = Some X' ->
  exists Y', replay cbs Y = Some Y' /\ Permutation X' Y'.
Proof.
  induction cbs as [|c cbs IH]; intros X Y X' Hp Hr.
  - unfold replay in *. simpl in *. injection Hr as <-. eauto.
  - unfold replay in *. cbn [fold_left] in *.
    pose proof (replay1_perm c X Y Hp) as H1.
    destruct (replay1 (Some X) c) as [X1|] eqn:E1.
    + destruct (replay1 (Some Y) c) as [Y1|] eqn:E2; [|contradiction]. eapply IH; eauto.
    + exfalso. clear -Hr. induction cbs; simpl in Hr; [discriminate|auto].
Qed.

(* ---------- every history ---------- *)
Theorem run_spec : forall ops T X, TWF T -> Permutation (trecords T) X -> Forall op_ok ops ->
  exists T' cs cbs Y, run T ops = Some (T', cs, cbs) /\ TWF T' /\
    Permutation (trecords T') (fst (sp_run X ops)) /\ cs = snd (sp_run X ops) /\
    replay cbs X = Some Y /\ Permutation Y (trecords T').
Proof.
  induction ops as [|o ops IH]; intros T X Hwf Hperm Hok.
  - exists T, [], [], X. simpl. csplit; auto. symmetry. exact Hperm.
  - inversion Hok as [|? ? Ho Hrest]; subst.
    destruct (step_spec T X o Hwf Hperm Ho) as (T1 & c & cbs1 & X1 & Y1 & Ha & Hs & Hw1 & Hp1 & Hr1 & Hy1).
    destruct (IH T1 X1 Hw1 Hp1 Hrest) as (T2 & cs & cbs2 & Y2 & Hrun & Hw2 & Hp2 & Hcs & Hr2 & Hy2).
    cbn [run sp_run]. rewrite Ha, Hrun, Hs. destruct (sp_run X1 ops) as [X2 cs'] eqn:Esp. simpl in *.
    destruct (replay_perm cbs2 X1 Y1 Y2 (Permutation_sym Hy1) Hr2) as (Y3 & Hr3 & Hy3).
    exists T2, (c :: cs), (cbs1 ++ cbs2), Y3. csplit; auto.
    + congruence.
    + rewrite replay_app, Hr1. exact Hr3.
    + rewrite <- Hy3. exact Hy2.
Qed.
