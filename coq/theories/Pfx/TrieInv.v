(* TrieInv.v - the trie invariant [WF] and its preservation by trie_insert (push).
   Proved for an arbitrary address width W (instantiated with 32 and 128). *)
From RtrV Require Import Pfx.TrieModel.
From Coq Require Import Permutation.

Section Inv.
Variable W : nat.

Definition root_ge (n : nat) (t : trie) : Prop :=
  match t with Leaf => True | Node _ len _ _ _ => n <= len end.

Fixpoint WF lvl pi t : Prop :=                               (* the invariant *)
  match t with
  | Leaf => True
  | Node p len d l r =>
      length p = W /\ len <= W /\ firstn lvl p = pi /\ skipn len p = repeat false (W - len)
      /\ d <> [] /\ NoDup d /\ lvl <= len
      /\ root_ge len l /\ root_ge len r /\ ~ In (p, len) (keys l ++ keys r)
      /\ WF (S lvl) (pi ++ [false]) l /\ WF (S lvl) (pi ++ [true]) r
  end.

Lemma addr_eqb_true a b : addr_eqb a b = true <-> a = b.
Proof.
  revert b; induction a as [|x a IH]; intros [|y b]; simpl; split; try congruence; try tauto.
  - intros H. apply andb_true_iff in H as [H1 H2]. apply eqb_prop in H1. apply IH in H2. congruence.
  - intros H. injection H as -> ->. rewrite eqb_reflx. simpl. apply IH. reflexivity.
Qed.

Lemma firstn_S_nth (q : addr) lvl : lvl < length q -> firstn (S lvl) q = firstn lvl q ++ [bit q lvl].
Proof.
  unfold bit. revert lvl; induction q as [|x q IH]; intros lvl H; simpl in *; [lia|].
  destruct lvl; simpl; [reflexivity|]. f_equal. apply IH. lia.
Qed.

Lemma firstn_firstn_le (a : addr) n m : n <= m -> firstn n (firstn m a) = firstn n a.
Proof. intros. rewrite firstn_firstn. f_equal. lia. Qed.


Definition key_ok (p : addr) (len : nat) := length p = W /\ len <= W /\ skipn len p = repeat false (W - len).

Lemma addr_ext (a b : addr) n : length a = W -> length b = W ->
  firstn n a = firstn n b -> skipn n a = repeat false (W - n) -> skipn n b = repeat false (W - n) -> a = b.
Proof. intros. rewrite <- (firstn_skipn n a), <- (firstn_skipn n b). congruence. Qed.

Definition root_len (t : trie) (dflt : nat) := match t with Leaf => dflt | Node _ len _ _ _ => len end.

Lemma root_ge_push n t lvl p len d : root_ge n t -> n <= len -> root_ge n (push t lvl p len d).
Proof.
  destruct t as [|q ql qd l r]; simpl; intros; [lia|].
  destruct (len <? ql) eqn:E; destruct (bit _ lvl); simpl; try lia.
Qed.

Lemma keys_push t : forall lvl p len d, Permutation (keys (push t lvl p len d)) ((p, len) :: keys t).
Proof.
  induction t as [|q ql qd l IHl r IHr]; intros lvl p len d; simpl; [reflexivity|].
  destruct (len <? ql); [destruct (bit q lvl)|destruct (bit p lvl)]; simpl.
  - constructor. rewrite IHr. symmetry. apply Permutation_middle.
  - constructor. rewrite IHl. reflexivity.
  - rewrite perm_swap. constructor. rewrite IHr. symmetry. apply Permutation_middle.
  - rewrite perm_swap. constructor. rewrite IHl. reflexivity.
Qed.

Lemma push_WF t : forall lvl pi p len d,
  WF lvl pi t -> length pi = lvl -> key_ok p len -> firstn lvl p = pi -> lvl <= len ->
  d <> [] -> NoDup d -> ~ In (p, len) (keys t) ->
  WF lvl pi (push t lvl p len d).
Proof.
  induction t as [|q ql qd l IHl r IHr]; intros lvl pi p len d Hwf Hpi (Hlp & HlW & Hhost) Hfp Hlvl Hd Hnd Hnk.
  - simpl. repeat split; auto.
  - simpl in Hwf. destruct Hwf as (Hlq & HqW & Hfq & Hhq & Hqd & Hnq & Hlvq & Hgl & Hgr & Hk & Hwl & Hwr).
    simpl in Hnk.
    assert (Hneq : (q, ql) <> (p, len)) by tauto.
    assert (Hnl : ~ In (p, len) (keys l)) by (rewrite in_app_iff in Hnk; tauto).
    assert (Hnr : ~ In (p, len) (keys r)) by (rewrite in_app_iff in Hnk; tauto).
    assert (Hkl : ~ In (q, ql) (keys l)) by (rewrite in_app_iff in Hk; tauto).
    assert (Hkr : ~ In (q, ql) (keys r)) by (rewrite in_app_iff in Hk; tauto).
    assert (HS : forall b, length (pi ++ [b]) = S lvl) by (intros; rewrite app_length; simpl; lia).
    simpl. destruct (len <? ql) eqn:E.
    + apply Nat.ltb_lt in E.
      (* new one stays here, (q,ql) moves down: S lvl <= ql because lvl <= len < ql *)
      assert (Hmv : firstn (S lvl) q = pi ++ [bit q lvl]) by (rewrite firstn_S_nth by lia; congruence).
      destruct (bit q lvl) eqn:Hb; simpl; repeat split; auto; try lia.
      * destruct l; simpl in *; lia.
      * apply root_ge_push; [destruct r; simpl in *; lia | lia].
      * rewrite in_app_iff. intros [H|H]; [tauto|]. apply (Permutation_in _ (keys_push _ _ _ _ _)) in H.
        destruct H; [congruence|tauto].
      * apply IHr; auto; try lia. repeat split; auto.
      * apply root_ge_push; [destruct l; simpl in *; lia | lia].
      * destruct r; simpl in *; lia.
      * rewrite in_app_iff. intros [H|H]; [|tauto]. apply (Permutation_in _ (keys_push _ _ _ _ _)) in H.
        destruct H; [congruence|tauto].
      * apply IHl; auto; try lia. repeat split; auto.
    + apply Nat.ltb_ge in E.
      (* new one moves down: need S lvl <= len *)
      assert (HSl : S lvl <= len).
      { destruct (Nat.eq_dec len lvl) as [->|]; [|lia]. exfalso. apply Hneq.
        assert (ql = lvl) by lia. subst ql. f_equal. apply (addr_ext q p lvl); auto; congruence. }
      assert (Hmv : firstn (S lvl) p = pi ++ [bit p lvl]) by (rewrite firstn_S_nth by lia; congruence).
      destruct (bit p lvl) eqn:Hb; simpl; repeat split; auto; try lia.
      * apply root_ge_push; auto.
      * rewrite in_app_iff. intros [H|H]; [tauto|]. apply (Permutation_in _ (keys_push _ _ _ _ _)) in H.
        destruct H as [H|H]; [congruence|tauto].
      * apply IHr; auto. repeat split; auto.
      * apply root_ge_push; auto.
      * rewrite in_app_iff. intros [H|H]; [|tauto]. apply (Permutation_in _ (keys_push _ _ _ _ _)) in H.
        destruct H as [H|H]; [congruence|tauto].
      * apply IHl; auto. repeat split; auto.
Qed.

End Inv.
