(* TrieModel.v - executable model of rtrlib/pfx/trie/trie.c and trie-pfx.c.
   Definitions only (proofs live in TrieInv.v, TrieValidate.v, ...), so that the
   model still extracts and runs when a proof is broken.

   Conventions (DESIGN section 3): an address is a [list bool], most significant
   bit first, of length W (32 or 128); a node is (prefix, len, payload, left, right);
   the payload is the node's data_elem array in array order.                      *)
From Coq Require Export List Arith NArith Bool Lia PeanoNat.
Export ListNotations.

Definition addr := list bool.

Record elem := mkE { e_asn : N; e_max : nat; e_src : N }.

Definition elem_eqb (a b : elem) : bool :=
  (e_asn a =? e_asn b)%N && (e_max a =? e_max b) && (e_src a =? e_src b)%N.

Fixpoint addr_eqb (a b : addr) : bool :=
  match a, b with
  | [], [] => true
  | x :: a', y :: b' => Bool.eqb x y && addr_eqb a' b'
  | _, _ => false
  end.

Notation record := (addr * nat * elem)%type.

Inductive trie := Leaf | Node (p : addr) (len : nat) (d : list elem) (l r : trie).

Inductive rc := SUCCESS | ERROR | DUP | NOTFOUND.
Inductive vstate := VALID | NOT_FOUND | INVALID.

Definition bit (a : addr) (i : nat) : bool := nth i a false.

(* ---- trie_insert: swap when the new node is shorter, the displaced payload goes on
        along ITS OWN bit [lvl] ------------------------------------------------- *)
Fixpoint push (t : trie) (lvl : nat) (p : addr) (len : nat) (d : list elem) : trie :=
  match t with
  | Leaf => Node p len d Leaf Leaf
  | Node q ql qd l r =>
    if len <? ql
    then if bit q lvl then Node p len d l (push r (S lvl) q ql qd) else Node p len d (push l (S lvl) q ql qd) r
    else if bit p lvl then Node q ql qd l (push r (S lvl) p len d) else Node q ql qd (push l (S lvl) p len d) r
  end.

(* ---- pfx_table_add = trie_lookup_exact + find_elem / append_elem / trie_insert ---- *)
Fixpoint add (t : trie) (lvl : nat) (p : addr) (len : nat) (e : elem) : trie * rc :=
  match t with
  | Leaf => (Node p len [e] Leaf Leaf, SUCCESS)
  | Node q ql qd l r =>
    if len <? ql then (push t lvl p len [e], SUCCESS)        (* lookup_exact hands back the parent *)
    else if (ql =? len) && addr_eqb q p
         then if existsb (elem_eqb e) qd then (t, DUP) else (Node q ql (qd ++ [e]) l r, SUCCESS)
    else if bit p lvl then let (r', c) := add r (S lvl) p len e in (Node q ql qd l r', c)
                      else let (l', c) := add l (S lvl) p len e in (Node q ql qd l' r, c)
  end.

(* ---- trie_remove on a node whose payload became empty: the child with the strictly
        shorter length is pulled up (right child on ties), recursively ------------- *)
Fixpoint pull (t : trie) : trie :=
  match t with
  | Leaf => Leaf
  | Node _ _ _ l r =>
    match l, r with
    | Leaf, Leaf => Leaf
    | Node lp ll ld _ _, Leaf => Node lp ll ld (pull l) r
    | Node lp ll ld _ _, Node rp rl rd _ _ => if ll <? rl then Node lp ll ld (pull l) r else Node rp rl rd l (pull r)
    | Leaf, Node rp rl rd _ _ => Node rp rl rd l (pull r)
    end
  end.

Fixpoint remove_first (e : elem) (d : list elem) : list elem :=
  match d with
  | [] => []
  | x :: d' => if elem_eqb e x then d' else x :: remove_first e d'
  end.

(* ---- pfx_table_remove ---------------------------------------------------------- *)
Fixpoint remove (t : trie) (lvl : nat) (p : addr) (len : nat) (e : elem) : trie * rc :=
  match t with
  | Leaf => (Leaf, NOTFOUND)
  | Node q ql qd l r =>
    if len <? ql then (t, NOTFOUND)
    else if (ql =? len) && addr_eqb q p
         then if existsb (elem_eqb e) qd
              then match remove_first e qd with
                   | [] => (pull t, SUCCESS)
                   | d' => (Node q ql d' l r, SUCCESS)
                   end
              else (t, NOTFOUND)
    else if bit p lvl then let (r', c) := remove r (S lvl) p len e in (Node q ql qd l r', c)
                      else let (l', c) := remove l (S lvl) p len e in (Node q ql qd l' r, c)
  end.

Fixpoint size (t : trie) : nat :=
  match t with Leaf => 0 | Node _ _ _ l r => S (size l + size r) end.

(* ---- pfx_table_remove_id with its re-check loop; [None] = out of fuel.
        Second component: the records reported as removed, in callback order. ------- *)
Fixpoint remove_id (fuel : nat) (t : trie) (s : N) : option (trie * list record) :=
  match fuel, t with
  | _, Leaf => Some (Leaf, [])
  | 0, _ => None
  | S f, Node q ql qd l r =>
    let gone := map (fun e => (q, ql, e)) (filter (fun e => (e_src e =? s)%N) qd) in
    match filter (fun e => negb (e_src e =? s)%N) qd with
    | [] => match remove_id f (pull t) s with
            | Some (t', cbs) => Some (t', gone ++ cbs)
            | None => None
            end
    | d' => match remove_id f l s with
            | Some (l', cl) =>
              match remove_id f r s with
              | Some (r', cr) => Some (Node q ql d' l' r', gone ++ cl ++ cr)
              | None => None
              end
            | None => None
            end
    end
  end.

(* ---- in-order enumeration = pfx_table_for_each_rec ------------------------------- *)
Fixpoint records (t : trie) : list record :=
  match t with
  | Leaf => []
  | Node p len d l r => records l ++ map (fun e => (p, len, e)) d ++ records r
  end.

Fixpoint keys (t : trie) : list (addr * nat) :=
  match t with Leaf => [] | Node p len _ l r => (p, len) :: keys l ++ keys r end.

(* ---- pfx_table_free: notify the root's payload, remove the root, repeat ----------- *)
Fixpoint free_cbs (fuel : nat) (t : trie) : option (list record) :=
  match fuel, t with
  | _, Leaf => Some []
  | 0, _ => None
  | S f, Node p len d _ _ =>
    match free_cbs f (pull t) with
    | Some rest => Some (map (fun e => (p, len, e)) d ++ rest)
    | None => None
    end
  end.

(* ---- validation ------------------------------------------------------------------ *)
Definition covers (p : addr) (len : nat) (q : addr) (qlen : nat) : bool :=
  (len <=? qlen) && addr_eqb (firstn len p) (firstn len q).

Definition matches (asn : N) (qlen : nat) (e : elem) : bool :=
  negb (e_asn e =? 0)%N && (e_asn e =? asn)%N && (qlen <=? e_max e).

Definition is_leaf (t : trie) : bool :=
  match t with Node _ _ _ Leaf Leaf => true | Leaf => true | _ => false end.

(* pfx_table_validate_r: trie_lookup from the root, then repeated trie_lookup in the child
   chosen by the query's own bit until a payload element matches.  [seen] = a covering node
   has been visited already (so running out of nodes means INVALID, not NOT_FOUND);
   [acc] = reason records collected so far. *)
Fixpoint val (t : trie) (lvl : nat) (asn : N) (q : addr) (qlen : nat) (seen : bool) (acc : list record)
  : vstate * list record :=
  match t with
  | Leaf => if seen then (INVALID, acc) else (NOT_FOUND, [])
  | Node p len d l r =>
    let child := if bit q lvl then r else l in
    if covers p len q qlen
    then let acc' := acc ++ map (fun e => (p, len, e)) d in
         if existsb (matches asn qlen) d then (VALID, acc') else val child (S lvl) asn q qlen true acc'
    else val child (S lvl) asn q qlen seen acc
  end.

(* Points at which the C code performs an operation with undefined / aborting behaviour on this
   traversal (W = address width):
     - lrtr_get_bits(.., number = 0): assert(number > 0)            [a node of length 0 is compared]
     - reading bit number lvl >= W of the query: shift by 32 (IPv4) / assert(first_bit <= 127) (IPv6)
   [ub_zero_len] and [ub_leaf_stop] say whether the code under test still has these hazards
   (true = hazard present); they are set from /repo by the checks. *)
Fixpoint val_ub (W : nat) (hz_zero hz_deep : bool) (t : trie) (lvl : nat) (asn : N) (q : addr) (qlen : nat) : bool :=
  match t with
  | Leaf => false
  | Node p len d l r =>
    let child := if bit q lvl then r else l in
    let here := hz_zero && (len =? 0) in
    let stop := covers p len q qlen && existsb (matches asn qlen) d in
    if here then true
    else if stop then false
    else if (negb hz_deep) && is_leaf t then false
    else (W <=? lvl) || val_ub W hz_zero hz_deep child (S lvl) asn q qlen
  end.

(* ---- the Spec: RFC 6811 over a plain list of records ---------------------------- *)
Definition covrec (q : addr) (qlen : nat) (r : record) : bool := let '(p, len, _) := r in covers p len q qlen.
Definition matrec (asn : N) (qlen : nat) (r : record) : bool := let '(_, _, e) := r in matches asn qlen e.

Definition rfc6811 (R : list record) (asn : N) (q : addr) (qlen : nat) : vstate :=
  match filter (covrec q qlen) R with
  | [] => NOT_FOUND
  | cov => if existsb (matrec asn qlen) cov then VALID else INVALID
  end.
