(* PfxReload.v - the atomic reload (C09, reload clause): after the new table has been swapped in,
   pfx_table_notify_diff reports exactly the net difference for the reloading source. *)
From RtrV Require Import Pfx.TrieModel Pfx.TrieInv Pfx.TrieSet Pfx.PfxTable Pfx.PfxProofs.
From Coq Require Import Permutation.

Lemma TWF_rec_ok T r : TWF T -> In r (trecords T) -> rec_ok r.
Proof.
  intros [H4 H6] Hin. destruct r as [[[v6 p] len] e]. simpl.
  apply in_trecords in Hin. apply records_keys in Hin. simpl in Hin.
  destruct v6; simpl in *.
  - destruct (keys_on_path 128 _ 0 [] p len H6 eq_refl Hin) as (_ & _ & Hk). exact Hk.
  - destruct (keys_on_path 32 _ 0 [] p len H4 eq_refl Hin) as (_ & _ & Hk). exact Hk.
Qed.

Lemma Permutation_in_iff' {A} (l l' : list A) : Permutation l l' -> forall x, In x l <-> In x l'.
Proof. intros H x. split; [apply Permutation_in; exact H|apply Permutation_in; symmetry; exact H]. Qed.

Definition diff_step (s : N) (acc : list cb * table) (r : frecord) : list cb * table :=
  let (cbs, o) := acc in
  if (src_of r =? s)%N
  then let '(o', c, _) := tremove o r in
       match c with SUCCESS => (cbs, o') | _ => (cbs ++ [Added r], o') end
  else acc.

Lemma tnotify_diff_unfold new old s :
  tnotify_diff new old s =
  let (cbs1, old1) := fold_left (diff_step s) (trecords new) ([], old) in
  (cbs1 ++ map Removed (filter (fun r => (src_of r =? s)%N) (trecords old1)), old1).
Proof. reflexivity. Qed.

Lemma diff_fold s L : forall cbs o, NoDup L -> (forall r, In r L -> rec_ok r) -> TWF o ->
  exists cbs' o', fold_left (diff_step s) L (cbs, o) = (cbs', o') /\ TWF o' /\
    (forall x, In x (trecords o') <-> In x (trecords o) /\ ~ ((src_of x =? s)%N = true /\ In x L)) /\
    cbs' = cbs ++ map Added (filter (fun r => (src_of r =? s)%N && negb (sp_mem r (trecords o))) L).
Proof.
  induction L as [|r L IH]; intros cbs o Hnd Hok Hwf.
  - exists cbs, o. simpl. rewrite app_nil_r. split; [reflexivity|]. split; [exact Hwf|]. split; [intros x; tauto|reflexivity].
  - inversion Hnd as [|? ? Hr HL]; subst. cbn [fold_left]. unfold diff_step at 2.
    destruct (src_of r =? s)%N eqn:Es.
    + destruct (tremove_spec o (trecords o) r Hwf (Permutation_refl _) (Hok r (or_introl eq_refl)))
        as (o1 & c & cb1 & X1 & Hrm & _ & Hw1 & Hp1 & Hcase).
      rewrite Hrm.
      destruct Hcase as [(-> & _ & Hin & HpX)|(-> & _ & -> & Hnin)].
      * (* r was in the old table: removed silently *)
        destruct (IH cbs o1 HL (fun x Hx => Hok x (or_intror Hx)) Hw1) as (cbs' & o' & Hf & Hw' & Hmem & Hcb).
        exists cbs', o'. split; [exact Hf|]. split; [exact Hw'|]. split.
        { intros x. rewrite Hmem.
          assert (Hx1 : In x (trecords o1) <-> In x (trecords o) /\ x <> r).
          { rewrite (Permutation_in_iff' _ _ Hp1 x). split.
            - intros Hx. assert (Hx2 : In x (r :: X1)) by (right; exact Hx).
              apply (Permutation_in _ (Permutation_sym HpX)) in Hx2. split; [exact Hx2|].
              intros ->. assert (Hnd' : NoDup (r :: X1)) by (apply (Permutation_NoDup HpX), TWF_NoDup, Hwf).
              inversion Hnd'; contradiction.
            - intros [Hx Hne]. apply (Permutation_in _ HpX) in Hx. destruct Hx; [congruence|assumption]. }
          rewrite Hx1. simpl. split.
          - intros [[H1 H2] H3]. split; [exact H1|]. intros [H4 [H5|H5]]; [congruence|]. apply H3. auto.
          - intros [H1 H2]. split; [split; [exact H1|]|].
            + intros ->. apply H2. auto.
            + intros [H3 H4]. apply H2. auto. }
        { rewrite Hcb. cbn [filter]. rewrite Es. apply sp_mem_In in Hin as Hm. rewrite Hm. cbn [negb andb].
          f_equal. f_equal. apply filter_ext_in. intros x Hx.
          assert (Hne : x <> r) by (intros ->; contradiction).
          assert (Hsame : sp_mem x (trecords o1) = sp_mem x (trecords o)).
          { destruct (sp_mem x (trecords o)) eqn:E.
            - apply sp_mem_In. apply sp_mem_In in E. apply (Permutation_in _ (Permutation_sym Hp1)).
              apply (Permutation_in _ HpX) in E. destruct E; [congruence|assumption].
            - apply sp_mem_false. apply sp_mem_false in E. intros Hx1. apply E.
              apply (Permutation_in _ Hp1) in Hx1. apply (Permutation_in _ (Permutation_sym HpX)). right. exact Hx1. }
          rewrite Hsame. reflexivity. }
      * (* r was not there: reported as added *)
        destruct (IH (cbs ++ [Added r]) o HL (fun x Hx => Hok x (or_intror Hx)) Hwf) as (cbs' & o' & Hf & Hw' & Hmem & Hcb).
        exists cbs', o'. split; [exact Hf|]. split; [exact Hw'|]. split.
        { intros x. rewrite Hmem. simpl. split.
          - intros [H1 H2]. split; [exact H1|]. intros [H3 [H4|H4]]; [subst; contradiction|]. apply H2. auto.
          - intros [H1 H2]. split; [exact H1|]. intros [H3 H4]. apply H2. auto. }
        { rewrite Hcb. cbn [filter]. rewrite Es. apply sp_mem_false in Hnin as Hm. rewrite Hm. cbn [negb andb map].
          rewrite <- app_assoc. reflexivity. }
    + destruct (IH cbs o HL (fun x Hx => Hok x (or_intror Hx)) Hwf) as (cbs' & o' & Hf & Hw' & Hmem & Hcb).
      exists cbs', o'. split; [exact Hf|]. split; [exact Hw'|]. split.
      { intros x. rewrite Hmem. simpl. split.
        - intros [H1 H2]. split; [exact H1|]. intros [H3 [H4|H4]]; [subst; congruence|]. apply H2. auto.
        - intros [H1 H2]. split; [exact H1|]. intros [H3 H4]. apply H2. auto. }
      { rewrite Hcb. cbn [filter]. rewrite Es. cbn [andb]. reflexivity. }
Qed.

Lemma replay_added_all rs : forall X, NoDup rs -> (forall r, In r rs -> ~ In r X) ->
  replay (map Added rs) X = Some (X ++ rs).
Proof.
  induction rs as [|r rs IH]; intros X Hn Hd; [simpl; rewrite app_nil_r; reflexivity|].
  inversion Hn as [|? ? Hr Hrs]; subst. cbn [map]. unfold replay in *. cbn [fold_left replay1].
  assert (Hm : sp_mem r X = false) by (apply sp_mem_false; apply Hd; simpl; auto). rewrite Hm.
  rewrite IH; [rewrite <- app_assoc; reflexivity|exact Hrs|].
  intros x Hx Hin. apply in_app_iff in Hin as [Hin|[<-|[]]]; [apply (Hd x); simpl; auto|contradiction].
Qed.

Theorem c09_reload : forall Told Tnew s,
  TWF Told -> TWF Tnew ->
  (forall r, src_of r <> s -> (In r (trecords Told) <-> In r (trecords Tnew))) ->
  exists Y, replay (fst (tnotify_diff Tnew Told s)) (trecords Told) = Some Y /\ Permutation Y (trecords Tnew).
Proof.
  intros Told Tnew s Hwo Hwn Hsame.
  rewrite tnotify_diff_unfold.
  pose proof (TWF_NoDup Tnew Hwn) as Hndn. pose proof (TWF_NoDup Told Hwo) as Hndo.
  destruct (diff_fold s (trecords Tnew) [] Told Hndn (fun r Hr => TWF_rec_ok Tnew r Hwn Hr) Hwo)
    as (cbs1 & old1 & Hf & Hw1 & Hmem & Hcb).
  rewrite Hf. cbn [fst]. simpl app in Hcb.
  set (A := filter (fun r => (src_of r =? s)%N && negb (sp_mem r (trecords Told))) (trecords Tnew)) in *.
  set (B := filter (fun r => (src_of r =? s)%N) (trecords old1)).
  rewrite Hcb, replay_app.
  assert (HndA : NoDup A) by (apply NoDup_filter'; exact Hndn).
  assert (HdA : forall r, In r A -> ~ In r (trecords Told)).
  { intros r Hr. apply filter_In in Hr as [_ Hr]. apply andb_true_iff in Hr as [_ Hr].
    apply negb_true_iff in Hr. apply sp_mem_false. exact Hr. }
  rewrite (replay_added_all A (trecords Told) HndA HdA).
  assert (HndB : NoDup B) by (apply NoDup_filter'; apply TWF_NoDup; exact Hw1).
  assert (HndXA : NoDup (trecords Told ++ A)).
  { apply NoDup_app'; auto. intros x H1 H2. exact (HdA x H2 H1). }
  assert (HinclB : incl B (trecords Told ++ A)).
  { intros x Hx. apply filter_In in Hx as [Hx _]. apply Hmem in Hx as [Hx _]. apply in_app_iff. auto. }
  destruct (replay_removed_all B (trecords Told ++ A) HndB HndXA HinclB) as (Y & Hrep & HpY & HndY).
  exists Y. split; [exact Hrep|].
  apply NoDup_Permutation; [exact HndY|exact Hndn|].
  intros x.
  assert (HY : In x Y <-> In x (trecords Told ++ A) /\ ~ In x B).
  { assert (HndBY : NoDup (B ++ Y)) by (apply (Permutation_NoDup HpY); exact HndXA).
    split.
    - intros Hx. split; [apply (Permutation_in _ (Permutation_sym HpY)); apply in_app_iff; auto|].
      intros HxB.
      clear -HndBY HxB Hx. induction B as [|b B IH]; [contradiction|]. simpl in HndBY. inversion HndBY; subst.
      destruct HxB as [->|HxB]; [apply H1; apply in_app_iff; auto|auto].
    - intros [Hx Hn]. apply (Permutation_in _ HpY) in Hx. apply in_app_iff in Hx as [Hx|Hx]; [contradiction|exact Hx]. }
  rewrite HY. rewrite in_app_iff.
  assert (HB : In x B <-> (src_of x =? s)%N = true /\ In x (trecords Told) /\ ~ In x (trecords Tnew)).
  { unfold B. rewrite filter_In, Hmem. split.
    - intros [[H1 H2] H3]. split; [exact H3|]. split; [exact H1|]. intros H4. apply H2. split; [exact H3|exact H4].
    - intros (H1 & H2 & H3). split; [split; [exact H2|]|exact H1]. intros [_ H4]. exact (H3 H4). }
  assert (HA : In x A <-> (src_of x =? s)%N = true /\ In x (trecords Tnew) /\ ~ In x (trecords Told)).
  { unfold A. rewrite filter_In, andb_true_iff, negb_true_iff, sp_mem_false. tauto. }
  rewrite HB, HA.
  destruct (src_of x =? s)%N eqn:Es.
  - destruct (in_dec frecord_eq_dec x (trecords Told)), (in_dec frecord_eq_dec x (trecords Tnew)); tauto.
  - assert (Hne : src_of x <> s) by (apply N.eqb_neq; exact Es).
    specialize (Hsame x Hne). split.
    + intros [[H1|(H1 & _)] _]; [tauto|discriminate].
    + intros H1. split; [left; tauto|]. intros (H2 & _). discriminate.
Qed.
