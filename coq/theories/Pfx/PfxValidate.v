(* PfxValidate.v - C01 at the table level: on every reachable table, validation = RFC 6811 over the
   set of stored records, the reason records are as specified, and the traversal meets no UB. *)
From RtrV Require Import Pfx.TrieModel Pfx.TrieInv Pfx.TrieSet Pfx.TrieValidate Pfx.PfxTable Pfx.PfxProofs.
From Coq Require Import Permutation.

Lemma filter_other_family v6 q qlen (l : list record) :
  filter (fcovrec v6 q qlen) (map (tag (negb v6)) l) = [].
Proof.
  induction l as [|[[p len] e] l IH]; simpl; [reflexivity|].
  destruct v6; simpl; exact IH.
Qed.

Lemma filter_same_family v6 q qlen (l : list record) :
  filter (fcovrec v6 q qlen) (map (tag v6) l) = map (tag v6) (filter (covrec q qlen) l).
Proof.
  induction l as [|[[p len] e] l IH]; simpl; [reflexivity|].
  rewrite Bool.eqb_reflx. simpl. destruct (covers p len q qlen); simpl; rewrite IH; reflexivity.
Qed.

Lemma filter_fcov_trecords T v6 q qlen :
  filter (fcovrec v6 q qlen) (trecords T) = map (tag v6) (filter (covrec q qlen) (records (root T v6))).
Proof.
  unfold trecords. rewrite filter_app. destruct v6; simpl.
  - rewrite (filter_other_family true q qlen), (filter_same_family true q qlen). reflexivity.
  - rewrite (filter_other_family false q qlen), (filter_same_family false q qlen), app_nil_r. reflexivity.
Qed.

Lemma existsb_fmat_tag v6 asn qlen (l : list record) :
  existsb (fmatrec asn qlen) (map (tag v6) l) = existsb (matrec asn qlen) l.
Proof. induction l as [|[[p len] e] l IH]; simpl; [reflexivity|]. rewrite IH. reflexivity. Qed.

Lemma sp_validate_trecords T v6 asn q qlen :
  sp_validate (trecords T) v6 asn q qlen = rfc6811 (records (root T v6)) asn q qlen.
Proof.
  unfold sp_validate, rfc6811. rewrite filter_fcov_trecords.
  destruct (filter (covrec q qlen) (records (root T v6))) as [|x l] eqn:E; [reflexivity|].
  rewrite <- (existsb_fmat_tag v6 asn qlen (x :: l)). reflexivity.
Qed.

Lemma existsb_perm {A} (f : A -> bool) l l' : Permutation l l' -> existsb f l = existsb f l'.
Proof.
  induction 1; simpl; auto.
  - rewrite IHPermutation. reflexivity.
  - destruct (f x), (f y); reflexivity.
  - congruence.
Qed.

Lemma sp_validate_perm X Y v6 asn q qlen : Permutation X Y ->
  sp_validate X v6 asn q qlen = sp_validate Y v6 asn q qlen.
Proof.
  intros Hp. unfold sp_validate.
  pose proof (filter_perm (fcovrec v6 q qlen) _ _ Hp) as Hf.
  destruct (filter (fcovrec v6 q qlen) X) as [|x l] eqn:EX, (filter (fcovrec v6 q qlen) Y) as [|y l'] eqn:EY.
  - reflexivity.
  - apply Permutation_nil in Hf. discriminate.
  - apply Permutation_sym, Permutation_nil in Hf. discriminate.
  - rewrite (existsb_perm _ _ _ Hf). reflexivity.
Qed.

(* ---------- on every well-formed table ---------- *)
Lemma tvalidate_state T v6 asn q qlen : TWF T -> length q = width v6 ->
  fst (tvalidate T v6 asn q qlen) = sp_validate (trecords T) v6 asn q qlen.
Proof.
  intros Hwf Hq. rewrite sp_validate_trecords. unfold tvalidate.
  pose proof (C01_state (width v6) (root T v6) asn q qlen (TWF_root T v6 Hwf) Hq) as H.
  destruct (val (root T v6) 0 asn q qlen false []) as [s rs]. exact H.
Qed.

Definition reasons_spec (asn : N) (qlen : nat) (cov : list frecord) (res : vstate * list frecord) : Prop :=
  match res with
  | (NOT_FOUND, rs) => rs = [] /\ cov = []
  | (INVALID, rs) => Permutation rs cov
  | (VALID, rs) => (exists rest, Permutation (rs ++ rest) cov) /\ existsb (fmatrec asn qlen) rs = true
  end.

Lemma tvalidate_reasons T v6 asn q qlen : TWF T -> length q = width v6 ->
  reasons_spec asn qlen (filter (fcovrec v6 q qlen) (trecords T)) (tvalidate T v6 asn q qlen).
Proof.
  intros Hwf Hq. rewrite filter_fcov_trecords. unfold tvalidate.
  pose proof (val_reasons (width v6) (root T v6) 0 [] asn q qlen false [] (TWF_root T v6 Hwf) eq_refl Hq eq_refl) as H.
  destruct (val (root T v6) 0 asn q qlen false []) as [[| |] rs]; simpl in *.
  - destruct H as (ex & rest & -> & Hp & He). split.
    + exists (map (tag v6) rest). rewrite <- map_app. apply Permutation_map. exact Hp.
    + rewrite existsb_fmat_tag. exact He.
  - destruct H as (-> & -> & _). auto.
  - destruct H as (ex & -> & Hp). apply Permutation_map. exact Hp.
Qed.

Lemma tvalidate_no_ub T v6 asn q qlen : TWF T -> tvalidate_ub false false T v6 asn q qlen = false.
Proof. intros Hwf. unfold tvalidate_ub. eapply val_no_ub. apply TWF_root. exact Hwf. Qed.

(* ---------- the Spec read as the RFC's sentences ---------- *)
Definition covers_P (r : frecord) (v6 : bool) (q : addr) (qlen : nat) : Prop :=
  let '(v, p, len, _) := r in v = v6 /\ len <= qlen /\ firstn len p = firstn len q.
Definition matches_P (r : frecord) (asn : N) (qlen : nat) : Prop :=
  let '(_, _, _, e) := r in e_asn e <> 0%N /\ e_asn e = asn /\ qlen <= e_max e.

Lemma fcovrec_P r v6 q qlen : fcovrec v6 q qlen r = true <-> covers_P r v6 q qlen.
Proof.
  destruct r as [[[v p] len] e]. unfold fcovrec, covers_P, covers.
  rewrite !andb_true_iff, Bool.eqb_true_iff, Nat.leb_le, addr_eqb_true. tauto.
Qed.
Lemma fmatrec_P r asn qlen : fmatrec asn qlen r = true <-> matches_P r asn qlen.
Proof.
  destruct r as [[[v p] len] e]. unfold fmatrec, matches_P, matches.
  rewrite !andb_true_iff, negb_true_iff, N.eqb_neq, N.eqb_eq, Nat.leb_le. tauto.
Qed.

Lemma sp_validate_rfc X v6 asn q qlen :
  (sp_validate X v6 asn q qlen = VALID <->
     exists r, In r X /\ covers_P r v6 q qlen /\ matches_P r asn qlen) /\
  (sp_validate X v6 asn q qlen = INVALID <->
     (exists r, In r X /\ covers_P r v6 q qlen) /\ ~ exists r, In r X /\ covers_P r v6 q qlen /\ matches_P r asn qlen) /\
  (sp_validate X v6 asn q qlen = NOT_FOUND <-> ~ exists r, In r X /\ covers_P r v6 q qlen).
Proof.
  unfold sp_validate.
  assert (Hcov : forall r, In r (filter (fcovrec v6 q qlen) X) <-> In r X /\ covers_P r v6 q qlen).
  { intros r. rewrite filter_In, fcovrec_P. tauto. }
  destruct (filter (fcovrec v6 q qlen) X) as [|x l] eqn:E.
  - assert (Hnone : ~ exists r, In r X /\ covers_P r v6 q qlen).
    { intros (r & Hr). apply Hcov in Hr. exact Hr. }
    split; [|split].
    + split; [discriminate|]. intros (r & H1 & H2 & _). exfalso. apply Hnone. eauto.
    + split; [discriminate|]. intros [H _]. contradiction.
    + tauto.
  - assert (Hsome : exists r, In r X /\ covers_P r v6 q qlen).
    { exists x. apply Hcov. simpl. auto. }
    destruct (existsb (fmatrec asn qlen) (x :: l)) eqn:Em.
    + apply existsb_exists in Em as (r & Hr & Hm). apply Hcov in Hr. apply fmatrec_P in Hm.
      split; [|split].
      * split; [|reflexivity]. intros _. exists r. tauto.
      * split; [discriminate|]. intros [_ Hn]. exfalso. apply Hn. exists r. tauto.
      * split; [discriminate|]. intros Hn. contradiction.
    + assert (Hnm : ~ exists r, In r X /\ covers_P r v6 q qlen /\ matches_P r asn qlen).
      { intros (r & H1 & H2 & H3). apply fmatrec_P in H3.
        assert (Hin : In r (x :: l)) by (apply Hcov; auto).
        assert (existsb (fmatrec asn qlen) (x :: l) = true) by (apply existsb_exists; eauto). congruence. }
      split; [|split].
      * split; [discriminate|]. intros H. contradiction.
      * tauto.
      * split; [discriminate|]. intros Hn. contradiction.
Qed.
