(* TrieValidate.v - validation on a well-formed trie computes RFC 6811 (state half of C01). *)
From RtrV Require Import Pfx.TrieModel Pfx.TrieInv.
From Coq Require Import Permutation.

Section Val.
Variable W : nat.
Notation WF := (WF W).


Lemma filter_map_const (p : addr) (len : nat) (q : addr) qlen (d : list elem) :
  filter (covrec q qlen) (map (fun e => (p, len, e)) d) =
  if covers p len q qlen then map (fun e => (p, len, e)) d else [].
Proof.
  induction d as [|e d IH]; simpl; [destruct (covers _ _ _ _); reflexivity|].
  rewrite IH. destruct (covers p len q qlen); reflexivity.
Qed.

(* no record of a well-formed subtree hanging off path pi covers a query that leaves pi *)
Lemma off_path lvl pi t q qlen :
  WF lvl pi t -> length pi = lvl -> length q = W -> firstn lvl q <> pi ->
  filter (covrec q qlen) (records t) = [].
Proof.
  revert lvl pi; induction t as [|p len d l IHl r IHr]; intros lvl pi Hwf Hpi Hq Hne; simpl; [reflexivity|].
  simpl in Hwf. destruct Hwf as (Hlp & HlW & Hfp & Hhost & Hd & Hnd & Hlvl & Hgl & Hgr & Hk & Hwl & Hwr).
  rewrite !filter_app.
  assert (Hsub : forall b, firstn (S lvl) q <> pi ++ [b]).
  { intros b Heq. apply Hne. assert (lvl < length q \/ length q <= lvl) as [Hlt|Hge] by lia.
    - rewrite firstn_S_nth in Heq by exact Hlt. apply app_inj_tail in Heq. tauto.
    - rewrite firstn_all2 in Heq by lia. rewrite firstn_all2 by lia.
      assert (length q = length (pi ++ [b])) by congruence. rewrite app_length in H. simpl in H. lia. }
  assert (Hl1 : length (pi ++ [false]) = S lvl) by (rewrite app_length; simpl; lia).
  assert (Hl2 : length (pi ++ [true]) = S lvl) by (rewrite app_length; simpl; lia).
  rewrite (IHl (S lvl) (pi ++ [false]) Hwl Hl1 Hq (Hsub false)), (IHr (S lvl) (pi ++ [true]) Hwr Hl2 Hq (Hsub true)).
  simpl. rewrite app_nil_r.
  assert (Hc : covers p len q qlen = false).
  { unfold covers. destruct (len <=? qlen) eqn:Hle; [|reflexivity]. simpl.
    destruct (addr_eqb (firstn len p) (firstn len q)) eqn:He; [|reflexivity].
    apply addr_eqb_true in He. exfalso. apply Hne.
    rewrite <- Hfp. rewrite <- (firstn_firstn_le q lvl len), <- (firstn_firstn_le p lvl len) by lia. congruence. }
  rewrite filter_map_const, Hc. reflexivity.
Qed.

Lemma existsb_map_const asn (p : addr) (len qlen : nat) (d : list elem) :
  existsb (matrec asn qlen) (map (fun e => (p, len, e)) d) = existsb (matches asn qlen) d.
Proof. induction d; simpl; congruence. Qed.


Definition sp (x : list record) asn qlen := if existsb (matrec asn qlen) x then VALID else INVALID.
Definition spec_of (cov : list record) asn qlen (seen : bool) :=
  match cov with [] => if seen then INVALID else NOT_FOUND | _ => sp cov asn qlen end.

Lemma spec_seen x asn qlen : spec_of x asn qlen true = sp x asn qlen.
Proof. destruct x; reflexivity. Qed.
Lemma spec_app_r a b asn qlen seen : b <> [] ->
  spec_of (a ++ b) asn qlen seen = if existsb (matrec asn qlen) b then VALID else sp a asn qlen.
Proof.
  intros Hb. unfold spec_of, sp. destruct (a ++ b) eqn:E.
  - apply app_eq_nil in E. tauto.
  - rewrite <- E, existsb_app. destruct (existsb _ a), (existsb _ b); reflexivity.
Qed.
Lemma spec_app_l a b asn qlen seen : a <> [] ->
  spec_of (a ++ b) asn qlen seen = if existsb (matrec asn qlen) a then VALID else sp b asn qlen.
Proof.
  intros Ha. unfold spec_of, sp. destruct (a ++ b) eqn:E.
  - apply app_eq_nil in E. tauto.
  - rewrite <- E, existsb_app. destruct (existsb _ a), (existsb _ b); reflexivity.
Qed.

Lemma WF_too_deep pi t : WF (S W) pi t -> t = Leaf.
Proof. destruct t; simpl; [reflexivity|]. intros H. lia. Qed.

Lemma val_state t : forall lvl pi asn q qlen seen acc,
  WF lvl pi t -> length pi = lvl -> length q = W -> firstn lvl q = pi ->
  fst (val t lvl asn q qlen seen acc) = spec_of (filter (covrec q qlen) (records t)) asn qlen seen.
Proof.
  induction t as [|p len d l IHl r IHr]; intros lvl pi asn q qlen seen acc Hwf Hpi Hq Hon; simpl.
  - destruct seen; reflexivity.
  - simpl in Hwf. destruct Hwf as (Hlp & HlW & Hfp & Hhost & Hd & Hnd & Hlvl & Hgl & Hgr & Hk & Hwl & Hwr).
    rewrite !filter_app, filter_map_const.
    assert (Hmd : map (fun e => (p, len, e)) d <> []) by (destruct d; simpl; congruence).
    assert (Hcases : lvl < W \/ lvl = W) by lia.
    assert (Hoff : forall b t', WF (S lvl) (pi ++ [b]) t' -> bit q lvl <> b ->
                   filter (covrec q qlen) (records t') = []).
    { intros b t' Hw Hb. destruct Hcases as [Hlt|Heq].
      - eapply off_path; eauto; [rewrite app_length; simpl; lia|].
        rewrite firstn_S_nth by lia. rewrite Hon. intros H. apply app_inj_tail in H. tauto.
      - rewrite Heq in Hw. rewrite (WF_too_deep _ _ Hw). reflexivity. }
    assert (Hon_l : bit q lvl = false -> forall seen' acc',
              fst (val l (S lvl) asn q qlen seen' acc') = spec_of (filter (covrec q qlen) (records l)) asn qlen seen').
    { intros Hb seen' acc'. destruct Hcases as [Hlt|Heq].
      - apply (IHl (S lvl) (pi ++ [false])); auto; [rewrite app_length; simpl; lia|].
        rewrite firstn_S_nth by lia. congruence.
      - rewrite Heq in Hwl. rewrite (WF_too_deep _ _ Hwl). simpl. destruct seen'; reflexivity. }
    assert (Hon_r : bit q lvl = true -> forall seen' acc',
              fst (val r (S lvl) asn q qlen seen' acc') = spec_of (filter (covrec q qlen) (records r)) asn qlen seen').
    { intros Hb seen' acc'. destruct Hcases as [Hlt|Heq].
      - apply (IHr (S lvl) (pi ++ [true])); auto; [rewrite app_length; simpl; lia|].
        rewrite firstn_S_nth by lia. congruence.
      - rewrite Heq in Hwr. rewrite (WF_too_deep _ _ Hwr). simpl. destruct seen'; reflexivity. }
    destruct (bit q lvl) eqn:Hb.
    + rewrite (Hoff false l Hwl) by congruence. simpl app.
      destruct (covers p len q qlen) eqn:Hc.
      * rewrite spec_app_l by exact Hmd. rewrite existsb_map_const.
        destruct (existsb (matches asn qlen) d); [reflexivity|].
        rewrite Hon_r by reflexivity. apply spec_seen.
      * simpl app. apply Hon_r. reflexivity.
    + rewrite (Hoff true r Hwr) by congruence. rewrite app_nil_r.
      destruct (covers p len q qlen) eqn:Hc.
      * rewrite spec_app_r by exact Hmd. rewrite existsb_map_const.
        destruct (existsb (matches asn qlen) d); [reflexivity|].
        rewrite Hon_l by reflexivity. apply spec_seen.
      * rewrite app_nil_r. apply Hon_l. reflexivity.
Qed.

Lemma spec_of_rfc R asn q qlen :
  spec_of (filter (covrec q qlen) R) asn qlen false = rfc6811 R asn q qlen.
Proof.
  unfold rfc6811, spec_of, sp, covrec, matrec.
  destruct (filter _ R); reflexivity.
Qed.

Theorem C01_state : forall t asn q qlen,
  WF 0 [] t -> length q = W ->
  fst (val t 0 asn q qlen false []) = rfc6811 (records t) asn q qlen.
Proof. intros. rewrite <- spec_of_rfc. eapply val_state; eauto. Qed.

(* ---------- the reason records (second half of C01) ---------- *)
Definition reasons_ok (asn : N) (qlen : nat) (seen : bool) (acc cov : list record) (res : vstate * list record) : Prop :=
  match res with
  | (NOT_FOUND, rs) => rs = [] /\ cov = [] /\ seen = false
  | (INVALID, rs) => exists ex, rs = acc ++ ex /\ Permutation ex cov
  | (VALID, rs) => exists ex rest, rs = acc ++ ex /\ Permutation (ex ++ rest) cov /\ existsb (matrec asn qlen) ex = true
  end.

Lemma reasons_ok_shift asn qlen acc (m cov : list record) res :
  reasons_ok asn qlen true (acc ++ m) cov res -> reasons_ok asn qlen true acc (m ++ cov) res /\ fst res <> NOT_FOUND.
Proof.
  destruct res as [[| |] rs]; simpl.
  - intros (ex & rest & -> & Hp & He). split; [|discriminate].
    exists (m ++ ex), rest. rewrite <- !app_assoc. split; [reflexivity|]. split.
    + apply Permutation_app_head. exact Hp.
    + rewrite existsb_app, He. apply orb_true_r.
  - intros (_ & _ & H). discriminate.
  - intros (ex & -> & Hp). split; [|discriminate]. exists (m ++ ex). rewrite <- app_assoc. split; [reflexivity|].
    apply Permutation_app_head. exact Hp.
Qed.

Lemma val_reasons t : forall lvl pi asn q qlen seen acc,
  WF lvl pi t -> length pi = lvl -> length q = W -> firstn lvl q = pi ->
  reasons_ok asn qlen seen acc (filter (covrec q qlen) (records t)) (val t lvl asn q qlen seen acc).
Proof.
  induction t as [|p len d l IHl r IHr]; intros lvl pi asn q qlen seen acc Hwf Hpi Hq Hon.
  - simpl. destruct seen; simpl; [exists []; rewrite app_nil_r; auto|auto].
  - simpl in Hwf. destruct Hwf as (Hlp & HlW & Hfp & Hhost & Hd & Hnd & Hlvl & Hgl & Hgr & Hk & Hwl & Hwr).
    assert (Hcases : lvl < W \/ lvl = W) by lia.
    assert (Hoff : forall b t', WF (S lvl) (pi ++ [b]) t' -> bit q lvl <> b ->
                   filter (covrec q qlen) (records t') = []).
    { intros b t' Hw Hb. destruct Hcases as [Hlt|Heq].
      - eapply off_path; eauto; [rewrite app_length; simpl; lia|].
        rewrite firstn_S_nth by lia. rewrite Hon. intros H. apply app_inj_tail in H. tauto.
      - rewrite Heq in Hw. rewrite (WF_too_deep _ _ Hw). reflexivity. }
    assert (Hon_c : forall b t', WF (S lvl) (pi ++ [b]) t' -> bit q lvl = b ->
              (forall lvl' pi' asn' q' qlen' seen' acc', WF lvl' pi' t' -> length pi' = lvl' -> length q' = W ->
                  firstn lvl' q' = pi' ->
                  reasons_ok asn' qlen' seen' acc' (filter (covrec q' qlen') (records t')) (val t' lvl' asn' q' qlen' seen' acc')) ->
              forall seen' acc',
              reasons_ok asn qlen seen' acc' (filter (covrec q qlen) (records t')) (val t' (S lvl) asn q qlen seen' acc')).
    { intros b t' Hw Hb IH seen' acc'. destruct Hcases as [Hlt|Heq].
      - apply (IH (S lvl) (pi ++ [b])); auto; [rewrite app_length; simpl; lia|].
        rewrite firstn_S_nth by lia. congruence.
      - rewrite Heq in Hw. rewrite (WF_too_deep _ _ Hw). simpl.
        destruct seen'; simpl; [exists []; rewrite app_nil_r; auto|auto]. }
    cbn [val records]. rewrite !filter_app, filter_map_const.
    destruct (bit q lvl) eqn:Hb.
    + rewrite (Hoff false l Hwl) by congruence. cbn [app].
      pose proof (Hon_c true r Hwr eq_refl IHr) as Hr.
      destruct (covers p len q qlen) eqn:Hc.
      * destruct (existsb (matches asn qlen) d) eqn:Hm.
        -- simpl. exists (map (fun e => (p, len, e)) d), (filter (covrec q qlen) (records r)).
           split; [reflexivity|]. split; [reflexivity|]. rewrite existsb_map_const. exact Hm.
        -- specialize (Hr true (acc ++ map (fun e => (p, len, e)) d)).
           apply reasons_ok_shift in Hr as [Hr Hnf].
           destruct (val r (S lvl) asn q qlen true (acc ++ map (fun e => (p, len, e)) d)) as [[| |] rs];
             simpl in *; try congruence; exact Hr.
      * cbn [app]. apply Hr.
    + rewrite (Hoff true r Hwr) by congruence. rewrite app_nil_r.
      pose proof (Hon_c false l Hwl eq_refl IHl) as Hl.
      destruct (covers p len q qlen) eqn:Hc.
      * destruct (existsb (matches asn qlen) d) eqn:Hm.
        -- simpl. exists (map (fun e => (p, len, e)) d), (filter (covrec q qlen) (records l)).
           split; [reflexivity|]. split; [apply Permutation_app_comm|]. rewrite existsb_map_const. exact Hm.
        -- specialize (Hl true (acc ++ map (fun e => (p, len, e)) d)).
           apply reasons_ok_shift in Hl as [Hl Hnf].
           assert (Hsw : forall res, reasons_ok asn qlen true acc (map (fun e => (p, len, e)) d ++ filter (covrec q qlen) (records l)) res ->
                                reasons_ok asn qlen true acc (filter (covrec q qlen) (records l) ++ map (fun e => (p, len, e)) d) res).
           { intros [[| |] rs]; simpl.
             - intros (ex & rest & E1 & E2 & E3). exists ex, rest. split; [exact E1|]. split; [|exact E3].
               rewrite E2. apply Permutation_app_comm.
             - intros (_ & _ & H). discriminate.
             - intros (ex & E1 & E2). exists ex. split; [exact E1|]. rewrite E2. apply Permutation_app_comm. }
           apply Hsw in Hl.
           destruct (val l (S lvl) asn q qlen true (acc ++ map (fun e => (p, len, e)) d)) as [[| |] rs];
             simpl in *; try congruence; exact Hl.
      * rewrite app_nil_r. apply Hl.
Qed.

(* ---------- no undefined behaviour on the way (hazards switched off = code as repaired) ---------- *)
Lemma val_no_ub t : forall lvl pi asn q qlen,
  WF lvl pi t -> val_ub W false false t lvl asn q qlen = false.
Proof.
  induction t as [|p len d l IHl r IHr]; intros lvl pi asn q qlen Hwf; [reflexivity|].
  simpl in Hwf. destruct Hwf as (Hlp & HlW & Hfp & Hhost & Hd & Hnd & Hlvl & Hgl & Hgr & Hk & Hwl & Hwr).
  cbn [val_ub andb negb]. cbv iota.
  destruct (covers p len q qlen && existsb (matches asn qlen) d); [reflexivity|].
  destruct (is_leaf (Node p len d l r)) eqn:El; [reflexivity|].
  assert (HW : (W <=? lvl) = false).
  { apply Nat.leb_gt. destruct l as [|lp ll ld l1 l2]; [destruct r as [|rp rl rd r1 r2]; [simpl in El; discriminate|]|].
    - simpl in Hwr. lia.
    - simpl in Hwl. lia. }
  rewrite HW. simpl. destruct (bit q lvl); eauto.
Qed.

End Val.
