(* PfxTable.v - the pfx_table level: two tries (IPv4, IPv6), update callbacks, and the
   operations packets.c uses for the atomic reload (copy_except_socket, swap, notify_diff).
   Executable definitions only. *)
From RtrV Require Export Pfx.TrieModel.

(* family flag: false = IPv4 (W = 32), true = IPv6 (W = 128) *)
Notation frecord := (bool * addr * nat * elem)%type.

Record table := mkT { t4 : trie; t6 : trie }.
Definition empty_table : table := mkT Leaf Leaf.

Inductive cb := Added (r : frecord) | Removed (r : frecord).

Definition width (v6 : bool) : nat := if v6 then 128 else 32.
Definition root (T : table) (v6 : bool) : trie := if v6 then t6 T else t4 T.
Definition set_root (T : table) (v6 : bool) (t : trie) : table :=
  if v6 then mkT (t4 T) t else mkT t (t6 T).

Definition tag (v6 : bool) (r : record) : frecord := let '(p, len, e) := r in (v6, p, len, e).

Definition trecords (T : table) : list frecord :=
  map (tag false) (records (t4 T)) ++ map (tag true) (records (t6 T)).

(* pfx_table_add / pfx_table_remove: one callback after success *)
Definition tadd (T : table) (r : frecord) : table * rc * list cb :=
  let '(v6, p, len, e) := r in
  let (t', c) := add (root T v6) 0 p len e in
  match c with
  | SUCCESS => (set_root T v6 t', c, [Added r])
  | _ => (T, c, [])
  end.

Definition tremove (T : table) (r : frecord) : table * rc * list cb :=
  let '(v6, p, len, e) := r in
  let (t', c) := remove (root T v6) 0 p len e in
  match c with
  | SUCCESS => (set_root T v6 t', c, [Removed r])
  | _ => (T, c, [])
  end.

(* pfx_table_src_remove: IPv4 trie, then IPv6 trie.  [None] = the fuel (node count) did not suffice. *)
Definition tsrc_remove (T : table) (s : N) : option (table * list cb) :=
  match remove_id (size (t4 T)) (t4 T) s with
  | Some (a, ca) =>
    match remove_id (size (t6 T)) (t6 T) s with
    | Some (b, cb6) => Some (mkT a b, map (fun r => Removed (tag false r)) ca ++ map (fun r => Removed (tag true r)) cb6)
    | None => None
    end
  | None => None
  end.

(* pfx_table_free *)
Definition tfree (T : table) : option (list cb) :=
  match free_cbs (size (t4 T)) (t4 T), free_cbs (size (t6 T)) (t6 T) with
  | Some a, Some b => Some (map (fun r => Removed (tag false r)) a ++ map (fun r => Removed (tag true r)) b)
  | _, _ => None
  end.

Definition tvalidate (T : table) (v6 : bool) (asn : N) (q : addr) (qlen : nat) : vstate * list frecord :=
  let (s, rs) := val (root T v6) 0 asn q qlen false [] in (s, map (tag v6) rs).

Definition tvalidate_ub (hz_zero hz_deep : bool) (T : table) (v6 : bool) (asn : N) (q : addr) (qlen : nat) : bool :=
  val_ub (width v6) hz_zero hz_deep (root T v6) 0 asn q qlen.

Definition src_of (r : frecord) : N := let '(_, _, _, e) := r in e_src e.

(* pfx_table_copy_except_socket into a fresh (callback-less) table: in-order adds; an add that does
   not succeed sets the error flag (the C keeps going within a family, checks the flag after each family) *)
Definition tcopy_family (dst : table) (rs : list frecord) (s : N) : table * bool :=
  fold_left (fun (acc : table * bool) r =>
               let (T, err) := acc in
               if (src_of r =? s)%N then acc
               else let '(T', c, _) := tadd T r in
                    match c with SUCCESS => (T', err) | _ => (T', true) end)
            rs (dst, false).

Definition tcopy_except (src dst : table) (s : N) : table * bool :=
  let (d1, e1) := tcopy_family dst (map (tag false) (records (t4 src))) s in
  if e1 then (d1, true)
  else tcopy_family d1 (map (tag true) (records (t6 src))) s.

Definition tswap (a b : table) : table * table := (b, a).

(* pfx_table_notify_diff new old s: walk [new] in order; for records of [s] try to remove them from
   [old] (whose callbacks are disabled) and report "added" when that fails; then walk what is left of
   [old] and report "removed" for the records of [s].  Returns the callbacks and the final [old]. *)
Definition tnotify_diff (new old : table) (s : N) : list cb * table :=
  let step (acc : list cb * table) (r : frecord) :=
      let (cbs, o) := acc in
      if (src_of r =? s)%N
      then let '(o', c, _) := tremove o r in
           match c with SUCCESS => (cbs, o') | _ => (cbs ++ [Added r], o') end
      else acc in
  let (cbs1, old1) := fold_left step (trecords new) ([], old) in
  (cbs1 ++ map Removed (filter (fun r => (src_of r =? s)%N) (trecords old1)), old1).

(* ------------------------------------------------------------------------------------
   The Spec: a table is a duplicate-free list of full records.                          *)
Definition frec_eqb (a b : frecord) : bool :=
  let '(va, pa, la, ea) := a in let '(vb, pb, lb, eb) := b in
  Bool.eqb va vb && addr_eqb pa pb && (la =? lb) && elem_eqb ea eb.

Definition sp_mem (r : frecord) (X : list frecord) : bool := existsb (frec_eqb r) X.

Definition sp_add (X : list frecord) (r : frecord) : list frecord * rc :=
  if sp_mem r X then (X, DUP) else (X ++ [r], SUCCESS).
Definition sp_remove (X : list frecord) (r : frecord) : list frecord * rc :=
  if sp_mem r X then (filter (fun x => negb (frec_eqb r x)) X, SUCCESS) else (X, NOTFOUND).
Definition sp_src_remove (X : list frecord) (s : N) : list frecord :=
  filter (fun x => negb (src_of x =? s)%N) X.

Definition fcovrec (v6 : bool) (q : addr) (qlen : nat) (r : frecord) : bool :=
  let '(v, p, len, _) := r in Bool.eqb v v6 && covers p len q qlen.
Definition fmatrec (asn : N) (qlen : nat) (r : frecord) : bool := let '(_, _, _, e) := r in matches asn qlen e.

Definition sp_validate (X : list frecord) (v6 : bool) (asn : N) (q : addr) (qlen : nat) : vstate :=
  match filter (fcovrec v6 q qlen) X with
  | [] => NOT_FOUND
  | cov => if existsb (fmatrec asn qlen) cov then VALID else INVALID
  end.

(* replaying a callback stream into a set: "added" must be absent, "removed" must be present *)
Definition replay1 (acc : option (list frecord)) (c : cb) : option (list frecord) :=
  match acc with
  | None => None
  | Some X =>
    match c with
    | Added r => if sp_mem r X then None else Some (X ++ [r])
    | Removed r => if sp_mem r X then Some (filter (fun x => negb (frec_eqb r x)) X) else None
    end
  end.
Definition replay (cbs : list cb) (X : list frecord) : option (list frecord) := fold_left replay1 cbs (Some X).

(* ------------------------------------------------------------------------------------
   Operation scripts (what the correspondence harness runs on both sides).              *)
Inductive op :=
| OAdd (r : frecord) | ORemove (r : frecord) | OSrcRemove (s : N)
| OValidate (v6 : bool) (asn : N) (q : addr) (qlen : nat) | OList.

Definition apply_op (T : table) (o : op) : option (table * rc * list cb) :=
  match o with
  | OAdd r => Some (tadd T r)
  | ORemove r => Some (tremove T r)
  | OSrcRemove s => match tsrc_remove T s with Some (T', c) => Some (T', SUCCESS, c) | None => None end
  | OValidate _ _ _ _ | OList => Some (T, SUCCESS, [])
  end.

Definition sp_apply (X : list frecord) (o : op) : list frecord * rc :=
  match o with
  | OAdd r => sp_add X r
  | ORemove r => sp_remove X r
  | OSrcRemove s => (sp_src_remove X s, SUCCESS)
  | _ => (X, SUCCESS)
  end.

(* a whole history: final table, result codes, and every callback fired, in order *)
Fixpoint run (T : table) (ops : list op) : option (table * list rc * list cb) :=
  match ops with
  | [] => Some (T, [], [])
  | o :: rest =>
    match apply_op T o with
    | Some (T1, c, cbs) =>
      match run T1 rest with
      | Some (T2, cs, cbs2) => Some (T2, c :: cs, cbs ++ cbs2)
      | None => None
      end
    | None => None
    end
  end.

Fixpoint sp_run (X : list frecord) (ops : list op) : list frecord * list rc :=
  match ops with
  | [] => (X, [])
  | o :: rest => let (X1, c) := sp_apply X o in let (X2, cs) := sp_run X1 rest in (X2, c :: cs)
  end.
