(* TrieSet.v - a well-formed trie is an exact set of records: add / remove / remove-by-source /
   free refine the corresponding set operations and preserve the invariant (C02, and the
   per-operation half of C09).  Arbitrary address width W. *)
From RtrV Require Import Pfx.TrieModel Pfx.TrieInv.
From Coq Require Import Permutation.

Section SetSem.
Variable W : nat.
Notation WF := (WF W).
Notation key_ok := (key_ok W).

Definition rec_key (r : record) : addr * nat := let '(p, len, _) := r in (p, len).
Definition mk (p : addr) (len : nat) (e : elem) : record := (p, len, e).

(* ---------- elements ---------- *)
Lemma elem_eqb_true a b : elem_eqb a b = true <-> a = b.
Proof.
  destruct a as [a1 a2 a3], b as [b1 b2 b3]. unfold elem_eqb; simpl.
  rewrite !andb_true_iff, !N.eqb_eq, Nat.eqb_eq. split.
  - intros [[-> ->] ->]. reflexivity.
  - intros H. injection H as -> -> ->. auto.
Qed.

Lemma elem_eqb_refl a : elem_eqb a a = true.
Proof. apply elem_eqb_true. reflexivity. Qed.

Lemma existsb_elem e d : existsb (elem_eqb e) d = true <-> In e d.
Proof.
  rewrite existsb_exists. split.
  - intros (x & Hx & He). apply elem_eqb_true in He. subst. exact Hx.
  - intros H. exists e. split; [exact H|apply elem_eqb_refl].
Qed.

Lemma existsb_elem_false e d : existsb (elem_eqb e) d = false <-> ~ In e d.
Proof.
  rewrite <- existsb_elem. destruct (existsb (elem_eqb e) d); split; congruence.
Qed.

Lemma remove_first_perm e d : In e d -> Permutation d (e :: remove_first e d).
Proof.
  induction d as [|x d IH]; simpl; [tauto|]. intros [->|H].
  - rewrite elem_eqb_refl. reflexivity.
  - destruct (elem_eqb e x) eqn:E.
    + apply elem_eqb_true in E. subst. reflexivity.
    + rewrite perm_swap. constructor. apply IH. exact H.
Qed.

Lemma remove_first_NoDup e d : NoDup d -> NoDup (remove_first e d) /\ ~ In e (remove_first e d).
Proof.
  induction d as [|x d IH]; simpl; intros Hn; [split; [constructor|tauto]|].
  inversion Hn as [|? ? Hx Hd]; subst.
  destruct (elem_eqb e x) eqn:E.
  - apply elem_eqb_true in E. subst. tauto.
  - destruct (IH Hd) as [H1 H2]. split.
    + constructor; [|exact H1]. intros Hin. apply Hx.
      clear -Hin. induction d as [|y d IHd]; simpl in *; [tauto|].
      destruct (elem_eqb e y); simpl in *; tauto.
    + simpl. intros [->|Hin]; [rewrite elem_eqb_refl in E; discriminate|tauto].
Qed.

Lemma remove_first_incl e d x : In x (remove_first e d) -> In x d.
Proof.
  induction d as [|y d IH]; simpl; [tauto|]. destruct (elem_eqb e y); simpl; tauto.
Qed.

(* ---------- keys and records ---------- *)
Lemma records_keys t r : In r (records t) -> In (rec_key r) (keys t).
Proof.
  induction t as [|p len d l IHl r0 IHr]; simpl; [tauto|].
  rewrite !in_app_iff, in_map_iff. intros [H|[(e & <- & He)|H]].
  - right. left. auto.
  - left. reflexivity.
  - right. right. auto.
Qed.

Lemma firstn_S_app (k : addr) n (pi : list bool) b :
  firstn (S n) k = pi ++ [b] -> length pi = n -> firstn n k = pi.
Proof.
  intros H Hl. rewrite <- (firstn_firstn_le k n (S n)) by lia. rewrite H.
  rewrite firstn_app, Hl, Nat.sub_diag. simpl. rewrite app_nil_r.
  rewrite <- Hl. apply firstn_all.
Qed.

Lemma keys_on_path t : forall lvl pi k kl, WF lvl pi t -> length pi = lvl -> In (k, kl) (keys t) ->
  firstn lvl k = pi /\ lvl <= kl /\ key_ok k kl.
Proof.
  induction t as [|p len d l IHl r IHr]; intros lvl pi k kl Hwf Hpi Hin; simpl in *; [tauto|].
  destruct Hwf as (Hlp & HlW & Hfp & Hhost & Hd & Hnd & Hlvl & Hgl & Hgr & Hk & Hwl & Hwr).
  destruct Hin as [Heq|Hin].
  - injection Heq as <- <-. split; [auto|split; [auto|repeat split; auto]].
  - apply in_app_iff in Hin as [Hin|Hin].
    + destruct (IHl (S lvl) (pi ++ [false]) k kl Hwl) as (H1 & H2 & H3); auto.
      { rewrite app_length; simpl; lia. }
      split; [eapply firstn_S_app; eauto|split; [lia|exact H3]].
    + destruct (IHr (S lvl) (pi ++ [true]) k kl Hwr) as (H1 & H2 & H3); auto.
      { rewrite app_length; simpl; lia. }
      split; [eapply firstn_S_app; eauto|split; [lia|exact H3]].
Qed.

Lemma keys_ge t : forall lvl pi n k kl, WF lvl pi t -> root_ge n t -> In (k, kl) (keys t) -> n <= kl.
Proof.
  induction t as [|p len d l IHl r IHr]; intros lvl pi n k kl Hwf Hge Hin; simpl in *; [tauto|].
  destruct Hwf as (Hlp & HlW & Hfp & Hhost & Hd & Hnd & Hlvl & Hgl & Hgr & Hk & Hwl & Hwr).
  destruct Hin as [Heq|Hin].
  - injection Heq as <- <-. exact Hge.
  - apply in_app_iff in Hin as [Hin|Hin].
    + specialize (IHl _ _ len k kl Hwl Hgl Hin). lia.
    + specialize (IHr _ _ len k kl Hwr Hgr Hin). lia.
Qed.

Lemma root_ge_of_keys n t : (forall k kl, In (k, kl) (keys t) -> n <= kl) -> root_ge n t.
Proof. destruct t; simpl; [tauto|]. intros H. apply (H p). left. reflexivity. Qed.

Lemma sibling_disjoint lvl pi l r k :
  WF (S lvl) (pi ++ [false]) l -> WF (S lvl) (pi ++ [true]) r -> length pi = lvl ->
  In k (keys l) -> In k (keys r) -> False.
Proof.
  intros Hl Hr Hpi H1 H2. destruct k as [k kl].
  assert (HS : forall b, length (pi ++ [b]) = S lvl) by (intros; rewrite app_length; simpl; lia).
  destruct (keys_on_path _ _ _ _ _ Hl (HS false) H1) as (E1 & _).
  destruct (keys_on_path _ _ _ _ _ Hr (HS true) H2) as (E2 & _).
  rewrite E1 in E2. apply app_inj_tail in E2. destruct E2. discriminate.
Qed.

Lemma record_eq_dec : forall a b : record, {a = b} + {a <> b}.
Proof. repeat decide equality. Qed.
Lemma key_eq_dec : forall a b : addr * nat, {a = b} + {a <> b}.
Proof. repeat decide equality. Qed.

(* permutation goals between concatenations: compare occurrence counts *)
Ltac perm_count dec :=
  let x := fresh "x" in
  apply (Permutation_count_occ dec); intro x;
  repeat (rewrite ?count_occ_app; cbn [count_occ]);
  repeat match goal with |- context [if ?c then _ else _] => destruct c end; lia.

Lemma records_push t : forall lvl p len d,
  Permutation (records (push t lvl p len d)) (map (fun e => (p, len, e)) d ++ records t).
Proof.
  induction t as [|q ql qd l IHl r IHr]; intros lvl p len d; simpl.
  - rewrite app_nil_r. reflexivity.
  - destruct (len <? ql); [destruct (bit q lvl)|destruct (bit p lvl)]; simpl;
      rewrite ?IHl, ?IHr; perm_count record_eq_dec.
Qed.


(* ---------- add ---------- *)
Lemma key_neq_of_false (q p : addr) ql len :
  (ql =? len) && addr_eqb q p = false -> (q, ql) <> (p, len).
Proof.
  intros H Heq. injection Heq as -> ->. rewrite Nat.eqb_refl in H. simpl in H.
  assert (addr_eqb p p = true) by (apply addr_eqb_true; reflexivity). congruence.
Qed.

Lemma key_eq_of_true (q p : addr) ql len :
  (ql =? len) && addr_eqb q p = true -> q = p /\ ql = len.
Proof.
  intros H. apply andb_true_iff in H as [H1 H2]. apply Nat.eqb_eq in H1. apply addr_eqb_true in H2. auto.
Qed.

Lemma in_records_node (x : record) p len d l r :
  In x (records (Node p len d l r)) <-> In x (records l) \/ In x (map (fun e => (p, len, e)) d) \/ In x (records r).
Proof. simpl. rewrite !in_app_iff. tauto. Qed.

Lemma in_map_rec (p : addr) (len : nat) (e : elem) (q : addr) ql d :
  In (p, len, e) (map (fun e0 => (q, ql, e0)) d) <-> (q = p /\ ql = len /\ In e d).
Proof.
  rewrite in_map_iff. split.
  - intros (x & Hx & Hin). injection Hx as -> -> ->. auto.
  - intros (-> & -> & Hin). exists e. auto.
Qed.

(* the step both insertion and removal rely on: below a node whose key differs from (p,len) and
   whose length does not exceed len, the search continues strictly inside the address *)
Lemma descend_ok lvl pi (q p : addr) ql len :
  length pi = lvl -> key_ok q ql -> key_ok p len -> firstn lvl q = pi -> firstn lvl p = pi ->
  lvl <= ql -> ql <= len -> (q, ql) <> (p, len) ->
  S lvl <= len /\ firstn (S lvl) p = pi ++ [bit p lvl].
Proof.
  intros Hpi (Hlq & HqW & Hhq) (Hlp & HlW & Hhp) Hfq Hfp Hlq' Hle Hne.
  assert (HSl : S lvl <= len).
  { destruct (Nat.eq_dec len lvl) as [->|]; [|lia]. exfalso. apply Hne.
    assert (ql = lvl) by lia. subst ql. f_equal. apply (addr_ext W q p lvl); auto; congruence. }
  split; [exact HSl|]. rewrite firstn_S_nth by lia. congruence.
Qed.

Definition keys_within (t' : trie) (k0 : addr * nat) (t : trie) : Prop :=
  forall k, In k (keys t') -> k = k0 \/ In k (keys t).

Lemma add_spec t : forall lvl pi p len e,
  WF lvl pi t -> length pi = lvl -> key_ok p len -> firstn lvl p = pi -> lvl <= len ->
  (In (p, len, e) (records t) -> add t lvl p len e = (t, DUP)) /\
  (~ In (p, len, e) (records t) -> exists t', add t lvl p len e = (t', SUCCESS) /\ WF lvl pi t' /\
     Permutation (records t') ((p, len, e) :: records t) /\ keys_within t' (p, len) t /\
     (forall n, root_ge n t -> n <= len -> root_ge n t')).
Proof.
  induction t as [|q ql qd l IHl r IHr]; intros lvl pi p len e Hwf Hpi Hkey Hfp Hlvl.
  - split; [simpl; tauto|]. intros _. exists (Node p len [e] Leaf Leaf).
    destruct Hkey as (Hlp & HlW & Hhost). simpl.
    split; [reflexivity|]. split.
    { repeat split; auto; try discriminate. constructor; [simpl; tauto|constructor]. }
    split; [reflexivity|]. split; [intros k [<-|[]]; auto|]. intros n _ Hn. exact Hn.
  - pose proof Hwf as Hwf0. simpl in Hwf.
    destruct Hwf as (Hlq & HqW & Hfq & Hhq & Hqd & Hnq & Hlvq & Hgl & Hgr & Hk & Hwl & Hwr).
    assert (HS : forall b, length (pi ++ [b]) = S lvl) by (intros; rewrite app_length; simpl; lia).
    cbn [add]. destruct (len <? ql) eqn:E.
    + (* the new key is strictly shorter than this node: it takes its place *)
      apply Nat.ltb_lt in E.
      assert (Hnk : ~ In (p, len) (keys (Node q ql qd l r))).
      { intros Hin. assert (ql <= len); [|lia].
        eapply (keys_ge (Node q ql qd l r) lvl pi ql p len); eauto. simpl. lia. }
      assert (Hnr : ~ In (p, len, e) (records (Node q ql qd l r))).
      { intros Hin. apply Hnk. apply (records_keys _ _ Hin). }
      split; [intros Hin; contradiction|]. intros _.
      exists (push (Node q ql qd l r) lvl p len [e]). split; [reflexivity|]. split.
      { apply push_WF; auto; try discriminate. constructor; [simpl; tauto|constructor]. }
      split; [apply (records_push (Node q ql qd l r) lvl p len [e])|]. split.
      { intros k Hin. apply (Permutation_in _ (keys_push _ _ _ _ _)) in Hin. destruct Hin; auto. }
      intros n Hn Hle. apply root_ge_push; auto.
    + apply Nat.ltb_ge in E.
      destruct ((ql =? len) && addr_eqb q p) eqn:Ek.
      * (* the node with this key *)
        apply key_eq_of_true in Ek as [-> ->].
        assert (Hiff : In (p, len, e) (records (Node p len qd l r)) <-> In e qd).
        { rewrite in_records_node, in_map_rec. split; [|tauto].
          intros [H|[H|H]]; [exfalso|tauto|exfalso]; apply Hk; apply in_app_iff;
            [left|right]; apply (records_keys _ _ H). }
        split.
        { intros Hin. apply Hiff in Hin. apply existsb_elem in Hin. rewrite Hin. reflexivity. }
        intros Hnin. assert (Hne : ~ In e qd) by (intros H; apply Hnin, Hiff, H).
        apply existsb_elem_false in Hne as Hb. rewrite Hb.
        exists (Node p len (qd ++ [e]) l r). split; [reflexivity|]. split.
        { simpl. repeat split; auto.
          - destruct qd; discriminate.
          - apply (Permutation_NoDup (Permutation_cons_append qd e)). constructor; auto. }
        split.
        { simpl. rewrite map_app. simpl. perm_count record_eq_dec. }
        split; [intros k Hin; right; exact Hin|]. intros n Hn _. exact Hn.
      * (* go on below *)
        apply key_neq_of_false in Ek.
        destruct (descend_ok lvl pi q p ql len) as (HSl & Hmv); auto.
        { repeat split; auto. }
        assert (Hhere : ~ In (p, len, e) (map (fun e0 => (q, ql, e0)) qd)).
        { rewrite in_map_rec. intros (-> & -> & _). apply Ek. reflexivity. }
        destruct (bit p lvl) eqn:Hb.
        -- (* right *)
           assert (Hnl : ~ In (p, len, e) (records l)).
           { intros Hin. apply records_keys in Hin. simpl in Hin.
             destruct (keys_on_path _ _ _ _ _ Hwl (HS false) Hin) as (H1 & _).
             rewrite Hmv in H1. apply app_inj_tail in H1. destruct H1. discriminate. }
           destruct (IHr (S lvl) (pi ++ [true]) p len e Hwr (HS true) Hkey Hmv HSl) as [IHa IHb].
           split.
           { intros Hin. apply in_records_node in Hin. destruct Hin as [H|[H|H]]; try contradiction.
             rewrite (IHa H). reflexivity. }
           intros Hnin.
           destruct IHb as (r' & Hadd & Hwr' & Hperm & Hkeys & Hroot).
           { intros H. apply Hnin. apply in_records_node. auto. }
           rewrite Hadd. exists (Node q ql qd l r'). split; [reflexivity|]. split.
           { simpl. repeat split; auto.
             intros Hin. apply in_app_iff in Hin as [Hin|Hin].
             - apply Hk. apply in_app_iff. auto.
             - apply Hkeys in Hin as [Hin|Hin]; [congruence|]. apply Hk. apply in_app_iff. auto. }
           split.
           { simpl. rewrite Hperm. perm_count record_eq_dec. }
           split.
           { intros k Hin. simpl in Hin. destruct Hin as [<-|Hin]; [right; left; reflexivity|].
             apply in_app_iff in Hin as [Hin|Hin].
             - right. simpl. right. apply in_app_iff. auto.
             - apply Hkeys in Hin as [->|Hin]; [auto|]. right. simpl. right. apply in_app_iff. auto. }
           intros n Hn _. exact Hn.
        -- (* left *)
           assert (Hnr : ~ In (p, len, e) (records r)).
           { intros Hin. apply records_keys in Hin. simpl in Hin.
             destruct (keys_on_path _ _ _ _ _ Hwr (HS true) Hin) as (H1 & _).
             rewrite Hmv in H1. apply app_inj_tail in H1. destruct H1. discriminate. }
           destruct (IHl (S lvl) (pi ++ [false]) p len e Hwl (HS false) Hkey Hmv HSl) as [IHa IHb].
           split.
           { intros Hin. apply in_records_node in Hin. destruct Hin as [H|[H|H]]; try contradiction.
             rewrite (IHa H). reflexivity. }
           intros Hnin.
           destruct IHb as (l' & Hadd & Hwl' & Hperm & Hkeys & Hroot).
           { intros H. apply Hnin. apply in_records_node. auto. }
           rewrite Hadd. exists (Node q ql qd l' r). split; [reflexivity|]. split.
           { simpl. repeat split; auto.
             intros Hin. apply in_app_iff in Hin as [Hin|Hin].
             - apply Hkeys in Hin as [Hin|Hin]; [congruence|]. apply Hk. apply in_app_iff. auto.
             - apply Hk. apply in_app_iff. auto. }
           split.
           { simpl. rewrite Hperm. perm_count record_eq_dec. }
           split.
           { intros k Hin. simpl in Hin. destruct Hin as [<-|Hin]; [right; left; reflexivity|].
             apply in_app_iff in Hin as [Hin|Hin].
             - apply Hkeys in Hin as [->|Hin]; [auto|]. right. simpl. right. apply in_app_iff. auto.
             - right. simpl. right. apply in_app_iff. auto. }
           intros n Hn _. exact Hn.
Qed.


(* ---------- pull (trie_remove of an emptied node) ---------- *)
Definition kids_keys (t : trie) := match t with Leaf => [] | Node _ _ _ l r => keys l ++ keys r end.
Definition kids_records (t : trie) := match t with Leaf => [] | Node _ _ _ l r => records l ++ records r end.

Lemma pull_unfold p len d l r :
  pull (Node p len d l r) =
  match l, r with
  | Leaf, Leaf => Leaf
  | Node lp ll ld _ _, Leaf => Node lp ll ld (pull l) r
  | Node lp ll ld _ _, Node rp rl rd _ _ => if ll <? rl then Node lp ll ld (pull l) r else Node rp rl rd l (pull r)
  | Leaf, Node rp rl rd _ _ => Node rp rl rd l (pull r)
  end.
Proof. destruct l, r; reflexivity. Qed.

Lemma pull_perm t :
  Permutation (keys (pull t)) (kids_keys t) /\ Permutation (records (pull t)) (kids_records t).
Proof.
  induction t as [|p len d l IHl r IHr]; [simpl; split; reflexivity|].
  destruct IHl as [IHlk IHlr], IHr as [IHrk IHrr].
  rewrite pull_unfold.
  remember (pull l) as pl eqn:Epl. remember (pull r) as pr eqn:Epr. clear Epl Epr.
  destruct l as [|lp ll ld l1 l2], r as [|rp rl rd r1 r2]; cbn [kids_keys kids_records keys records] in *.
  - split; reflexivity.
  - split; [rewrite IHrk; perm_count key_eq_dec|rewrite IHrr; perm_count record_eq_dec].
  - split; [rewrite IHlk; perm_count key_eq_dec|rewrite IHlr; perm_count record_eq_dec].
  - destruct (ll <? rl); cbn [keys records]; split;
      [rewrite IHlk; perm_count key_eq_dec|rewrite IHlr; perm_count record_eq_dec
      |rewrite IHrk; perm_count key_eq_dec|rewrite IHrr; perm_count record_eq_dec].
Qed.

Lemma size_pull t : t <> Leaf -> S (size (pull t)) = size t.
Proof.
  induction t as [|p len d l IHl r IHr]; [congruence|]. intros _.
  rewrite pull_unfold.
  destruct l as [|lp ll ld l1 l2], r as [|rp rl rd r1 r2].
  - reflexivity.
  - pose proof (IHr ltac:(discriminate)) as H. cbn [size] in *. lia.
  - pose proof (IHl ltac:(discriminate)) as H. cbn [size] in *. lia.
  - pose proof (IHr ltac:(discriminate)) as H1. pose proof (IHl ltac:(discriminate)) as H2.
    destruct (ll <? rl); cbn [size] in *; lia.
Qed.

Lemma promote_left lvl pi lp ll ld l1 l2 pl r :
  length pi = lvl ->
  WF (S lvl) (pi ++ [false]) (Node lp ll ld l1 l2) -> WF (S lvl) (pi ++ [true]) r ->
  WF (S lvl) (pi ++ [false]) pl -> Permutation (keys pl) (keys l1 ++ keys l2) ->
  root_ge ll r -> WF lvl pi (Node lp ll ld pl r).
Proof.
  intros Hpi Hwl Hwr Hwp Hperm Hge.
  pose proof Hwl as Hwl0. simpl in Hwl.
  destruct Hwl as (Hlp & HlW & Hfp & Hhost & Hd & Hnd & Hlvl & Hg1 & Hg2 & Hk & Hw1 & Hw2).
  assert (HS : forall b, length (pi ++ [b]) = S lvl) by (intros; rewrite app_length; simpl; lia).
  simpl. repeat split; auto; try lia.
  - eapply firstn_S_app; eauto.
  - apply root_ge_of_keys. intros k kl Hin.
    apply (Permutation_in _ Hperm) in Hin. apply in_app_iff in Hin as [Hin|Hin].
    + eapply (keys_ge l1); eauto.
    + eapply (keys_ge l2); eauto.
  - intros Hin. apply in_app_iff in Hin as [Hin|Hin].
    + apply Hk. apply (Permutation_in _ Hperm). exact Hin.
    + eapply (sibling_disjoint lvl pi (Node lp ll ld l1 l2) r (lp, ll)); eauto. simpl. auto.
Qed.

Lemma promote_right lvl pi rp rl rd r1 r2 pr l :
  length pi = lvl ->
  WF (S lvl) (pi ++ [true]) (Node rp rl rd r1 r2) -> WF (S lvl) (pi ++ [false]) l ->
  WF (S lvl) (pi ++ [true]) pr -> Permutation (keys pr) (keys r1 ++ keys r2) ->
  root_ge rl l -> WF lvl pi (Node rp rl rd l pr).
Proof.
  intros Hpi Hwr Hwl Hwp Hperm Hge.
  pose proof Hwr as Hwr0. simpl in Hwr.
  destruct Hwr as (Hlp & HlW & Hfp & Hhost & Hd & Hnd & Hlvl & Hg1 & Hg2 & Hk & Hw1 & Hw2).
  assert (HS : forall b, length (pi ++ [b]) = S lvl) by (intros; rewrite app_length; simpl; lia).
  simpl. repeat split; auto; try lia.
  - eapply firstn_S_app; eauto.
  - apply root_ge_of_keys. intros k kl Hin.
    apply (Permutation_in _ Hperm) in Hin. apply in_app_iff in Hin as [Hin|Hin].
    + eapply (keys_ge r1); eauto.
    + eapply (keys_ge r2); eauto.
  - intros Hin. apply in_app_iff in Hin as [Hin|Hin].
    + eapply (sibling_disjoint lvl pi l (Node rp rl rd r1 r2) (rp, rl)); eauto. simpl. auto.
    + apply Hk. apply (Permutation_in _ Hperm). exact Hin.
Qed.

Lemma pull_WF t : forall lvl pi, WF lvl pi t -> length pi = lvl -> WF lvl pi (pull t).
Proof.
  induction t as [|p len d l IHl r IHr]; intros lvl pi Hwf Hpi; [exact Hwf|].
  simpl in Hwf.
  destruct Hwf as (Hlp & HlW & Hfp & Hhost & Hd & Hnd & Hlvl & Hgl & Hgr & Hk & Hwl & Hwr).
  assert (HS : forall b, length (pi ++ [b]) = S lvl) by (intros; rewrite app_length; simpl; lia).
  specialize (IHl _ _ Hwl (HS false)). specialize (IHr _ _ Hwr (HS true)).
  destruct (pull_perm l) as [Hpl _]. destruct (pull_perm r) as [Hpr _].
  rewrite pull_unfold.
  remember (pull l) as pl eqn:Epl. remember (pull r) as pr eqn:Epr. clear Epl Epr.
  destruct l as [|lp ll ld l1 l2], r as [|rp rl rd r1 r2]; cbn [kids_keys] in *.
  - exact I.
  - eapply promote_right; eauto; exact I.
  - eapply promote_left; eauto; exact I.
  - destruct (ll <? rl) eqn:E.
    + apply Nat.ltb_lt in E. eapply promote_left; eauto. simpl. lia.
    + apply Nat.ltb_ge in E. eapply promote_right; eauto.
Qed.


(* ---------- remove ---------- *)
Lemma remove_spec t : forall lvl pi p len e,
  WF lvl pi t -> length pi = lvl -> key_ok p len -> firstn lvl p = pi -> lvl <= len ->
  (~ In (p, len, e) (records t) -> remove t lvl p len e = (t, NOTFOUND)) /\
  (In (p, len, e) (records t) -> exists t', remove t lvl p len e = (t', SUCCESS) /\ WF lvl pi t' /\
     Permutation (records t) ((p, len, e) :: records t') /\ incl (keys t') (keys t)).
Proof.
  induction t as [|q ql qd l IHl r IHr]; intros lvl pi p len e Hwf Hpi Hkey Hfp Hlvl.
  - split; [reflexivity|simpl; tauto].
  - pose proof Hwf as Hwf0. simpl in Hwf.
    destruct Hwf as (Hlq & HqW & Hfq & Hhq & Hqd & Hnq & Hlvq & Hgl & Hgr & Hk & Hwl & Hwr).
    assert (HS : forall b, length (pi ++ [b]) = S lvl) by (intros; rewrite app_length; simpl; lia).
    cbn [remove]. destruct (len <? ql) eqn:E.
    + apply Nat.ltb_lt in E.
      assert (Hnr : ~ In (p, len, e) (records (Node q ql qd l r))).
      { intros Hin. apply records_keys in Hin. simpl rec_key in Hin.
        assert (ql <= len); [|lia].
        eapply (keys_ge (Node q ql qd l r) lvl pi ql p len); eauto. simpl. lia. }
      split; [reflexivity|intros Hin; contradiction].
    + apply Nat.ltb_ge in E.
      destruct ((ql =? len) && addr_eqb q p) eqn:Ek.
      * apply key_eq_of_true in Ek as [-> ->].
        assert (Hiff : In (p, len, e) (records (Node p len qd l r)) <-> In e qd).
        { rewrite in_records_node, in_map_rec. split; [|tauto].
          intros [H|[H|H]]; [exfalso|tauto|exfalso]; apply Hk; apply in_app_iff;
            [left|right]; apply (records_keys _ _ H). }
        split.
        { intros Hnin. assert (Hne : ~ In e qd) by (intros H; apply Hnin, Hiff, H).
          apply existsb_elem_false in Hne. rewrite Hne. reflexivity. }
        intros Hin. apply Hiff in Hin. apply existsb_elem in Hin as Hb. rewrite Hb.
        pose proof (remove_first_perm e qd Hin) as Hperm.
        destruct (remove_first_NoDup e qd Hnq) as [Hnd' _].
        destruct (remove_first e qd) as [|x d'] eqn:Er.
        -- exists (pull (Node p len qd l r)). split; [reflexivity|]. split; [apply pull_WF; auto|].
           destruct (pull_perm (Node p len qd l r)) as [Hpk Hpr]. split.
           { rewrite Hpr. cbn [kids_records records].
             rewrite (Permutation_map (fun e0 => (p, len, e0)) Hperm). simpl. perm_count record_eq_dec. }
           intros k Hk'. apply (Permutation_in _ Hpk) in Hk'. simpl. right. exact Hk'.
        -- exists (Node p len (x :: d') l r). split; [reflexivity|]. split.
           { simpl. repeat split; auto. discriminate. }
           split.
           { cbn [records]. rewrite (Permutation_map (fun e0 => (p, len, e0)) Hperm). simpl.
             perm_count record_eq_dec. }
           intros k Hk'. exact Hk'.
      * apply key_neq_of_false in Ek.
        destruct (descend_ok lvl pi q p ql len) as (HSl & Hmv); auto.
        { repeat split; auto. }
        assert (Hhere : ~ In (p, len, e) (map (fun e0 => (q, ql, e0)) qd)).
        { rewrite in_map_rec. intros (-> & -> & _). apply Ek. reflexivity. }
        destruct (bit p lvl) eqn:Hb.
        -- assert (Hnl : ~ In (p, len, e) (records l)).
           { intros Hin. apply records_keys in Hin. simpl in Hin.
             destruct (keys_on_path _ _ _ _ _ Hwl (HS false) Hin) as (H1 & _).
             rewrite Hmv in H1. apply app_inj_tail in H1. destruct H1. discriminate. }
           destruct (IHr (S lvl) (pi ++ [true]) p len e Hwr (HS true) Hkey Hmv HSl) as [IHa IHb].
           split.
           { intros Hnin. rewrite IHa; [reflexivity|]. intros H. apply Hnin. apply in_records_node. auto. }
           intros Hin. apply in_records_node in Hin. destruct Hin as [H|[H|H]]; try contradiction.
           destruct (IHb H) as (r' & Hrm & Hwr' & Hperm & Hincl).
           rewrite Hrm. exists (Node q ql qd l r'). split; [reflexivity|]. split.
           { simpl. repeat split; auto.
             - apply root_ge_of_keys. intros k kl Hin. apply Hincl in Hin. eapply (keys_ge r); eauto.
             - intros Hin. apply Hk. apply in_app_iff in Hin as [Hin|Hin]; apply in_app_iff; auto. }
           split.
           { cbn [records]. rewrite Hperm. perm_count record_eq_dec. }
           intros k Hin. simpl in *. destruct Hin as [Hin|Hin]; [auto|]. right.
           apply in_app_iff in Hin as [Hin|Hin]; apply in_app_iff; auto.
        -- assert (Hnr : ~ In (p, len, e) (records r)).
           { intros Hin. apply records_keys in Hin. simpl in Hin.
             destruct (keys_on_path _ _ _ _ _ Hwr (HS true) Hin) as (H1 & _).
             rewrite Hmv in H1. apply app_inj_tail in H1. destruct H1. discriminate. }
           destruct (IHl (S lvl) (pi ++ [false]) p len e Hwl (HS false) Hkey Hmv HSl) as [IHa IHb].
           split.
           { intros Hnin. rewrite IHa; [reflexivity|]. intros H. apply Hnin. apply in_records_node. auto. }
           intros Hin. apply in_records_node in Hin. destruct Hin as [H|[H|H]]; try contradiction.
           destruct (IHb H) as (l' & Hrm & Hwl' & Hperm & Hincl).
           rewrite Hrm. exists (Node q ql qd l' r). split; [reflexivity|]. split.
           { simpl. repeat split; auto.
             - apply root_ge_of_keys. intros k kl Hin. apply Hincl in Hin. eapply (keys_ge l); eauto.
             - intros Hin. apply Hk. apply in_app_iff in Hin as [Hin|Hin]; apply in_app_iff; auto. }
           split.
           { cbn [records]. rewrite Hperm. perm_count record_eq_dec. }
           intros k Hin. simpl in *. destruct Hin as [Hin|Hin]; [auto|]. right.
           apply in_app_iff in Hin as [Hin|Hin]; apply in_app_iff; auto.
Qed.


(* ---------- remove by source ---------- *)
Definition of_src (s : N) (r : record) : bool := let '(_, _, e) := r in (e_src e =? s)%N.

Lemma filter_all_of_none {A} (f : A -> bool) l : filter (fun x => negb (f x)) l = [] -> filter f l = l.
Proof.
  induction l as [|x l IH]; simpl; [reflexivity|]. destruct (f x); simpl; [|discriminate].
  intros H. f_equal. apply IH. exact H.
Qed.

Lemma filter_split_perm {A} (f : A -> bool) l :
  Permutation l (filter f l ++ filter (fun x => negb (f x)) l).
Proof.
  induction l as [|x l IH]; simpl; [reflexivity|]. destruct (f x); simpl.
  - constructor. exact IH.
  - rewrite IH at 1. apply Permutation_middle.
Qed.

Lemma NoDup_filter' {A} (f : A -> bool) l : NoDup l -> NoDup (filter f l).
Proof.
  induction l as [|x l IH]; simpl; intros H; [constructor|]. inversion H; subst.
  destruct (f x); [constructor; [rewrite filter_In; tauto|auto]|auto].
Qed.

Lemma remove_id_spec fuel : forall t lvl pi s, size t <= fuel -> WF lvl pi t -> length pi = lvl ->
  exists t' cbs, remove_id fuel t s = Some (t', cbs) /\ WF lvl pi t' /\
    Permutation (records t) (cbs ++ records t') /\
    (forall x, In x cbs -> of_src s x = true) /\ (forall x, In x (records t') -> of_src s x = false) /\
    incl (keys t') (keys t).
Proof.
  induction fuel as [|f IH]; intros t lvl pi s Hsz Hwf Hpi.
  - destruct t; [|simpl in Hsz; lia]. exists Leaf, []. simpl. repeat split; auto; try tauto. intros k H; exact H.
  - destruct t as [|q ql qd l r].
    { exists Leaf, []. simpl. repeat split; auto; try tauto. intros k H; exact H. }
    pose proof Hwf as Hwf0. simpl in Hwf.
    destruct Hwf as (Hlq & HqW & Hfq & Hhq & Hqd & Hnq & Hlvq & Hgl & Hgr & Hk & Hwl & Hwr).
    assert (HS : forall b, length (pi ++ [b]) = S lvl) by (intros; rewrite app_length; simpl; lia).
    cbn [remove_id].
    pose (fs := fun e : elem => (e_src e =? s)%N).
    assert (Hgone : forall x, In x (map (fun e => (q, ql, e)) (filter fs qd)) -> of_src s x = true).
    { intros x Hx. apply in_map_iff in Hx as (e & <- & He). apply filter_In in He as [_ He]. exact He. }
    destruct (filter (fun e => negb (e_src e =? s)%N) qd) as [|k0 kept] eqn:Ekept.
    + (* the node loses its whole payload: pull a child up and look at this position again *)
      pose proof (filter_all_of_none fs qd Ekept) as Hall.
      assert (Hsz' : size (pull (Node q ql qd l r)) <= f).
      { pose proof (size_pull (Node q ql qd l r) ltac:(discriminate)). lia. }
      destruct (IH _ lvl pi s Hsz' (pull_WF _ _ _ Hwf0 Hpi) Hpi) as (t' & cbs & Hr & Hw' & Hperm & Hc1 & Hc2 & Hincl).
      rewrite Hr. exists t', (map (fun e => (q, ql, e)) (filter fs qd) ++ cbs).
      split; [reflexivity|]. split; [exact Hw'|].
      destruct (pull_perm (Node q ql qd l r)) as [Hpk Hpr]. split.
      { rewrite Hall. cbn [records]. rewrite <- app_assoc, <- Hperm, Hpr. cbn [kids_records].
        perm_count record_eq_dec. }
      split.
      { intros x Hx. apply in_app_iff in Hx as [Hx|Hx]; auto. }
      split; [exact Hc2|].
      intros k Hk'. apply Hincl in Hk'. apply (Permutation_in _ Hpk) in Hk'. simpl. right. exact Hk'.
    + assert (Hszl : size l <= f) by (simpl in Hsz; lia).
      assert (Hszr : size r <= f) by (simpl in Hsz; lia).
      destruct (IH l (S lvl) (pi ++ [false]) s Hszl Hwl (HS false)) as (l' & cl & Hrl & Hwl' & Hpl & Hl1 & Hl2 & Hil).
      destruct (IH r (S lvl) (pi ++ [true]) s Hszr Hwr (HS true)) as (r' & cr & Hrr & Hwr' & Hpr & Hr1 & Hr2 & Hir).
      rewrite Hrl, Hrr.
      exists (Node q ql (k0 :: kept) l' r'), (map (fun e => (q, ql, e)) (filter fs qd) ++ cl ++ cr).
      split; [reflexivity|]. split.
      { simpl. repeat split; auto.
        - discriminate.
        - rewrite <- Ekept. apply NoDup_filter'. exact Hnq.
        - apply root_ge_of_keys. intros k kl Hin. apply Hil in Hin. eapply (keys_ge l); eauto.
        - apply root_ge_of_keys. intros k kl Hin. apply Hir in Hin. eapply (keys_ge r); eauto.
        - intros Hin. apply Hk. apply in_app_iff in Hin as [Hin|Hin]; apply in_app_iff; auto. }
      split.
      { cbn [records]. rewrite Hpl, Hpr.
        rewrite (Permutation_map (fun e => (q, ql, e)) (filter_split_perm fs qd)) at 1.
        rewrite map_app. unfold fs. rewrite Ekept. perm_count record_eq_dec. }
      split.
      { intros x Hx. apply in_app_iff in Hx as [Hx|Hx]; [auto|].
        apply in_app_iff in Hx as [Hx|Hx]; auto. }
      split.
      { intros x Hx. apply in_records_node in Hx. destruct Hx as [Hx|[Hx|Hx]]; auto.
        apply in_map_iff in Hx as (e & <- & He). rewrite <- Ekept in He.
        apply filter_In in He as [_ He]. simpl. unfold fs in He. destruct (e_src e =? s)%N; [discriminate|reflexivity]. }
      intros k Hin. simpl in *. destruct Hin as [Hin|Hin]; [auto|]. right.
      apply in_app_iff in Hin as [Hin|Hin]; apply in_app_iff; auto.
Qed.

Lemma free_cbs_spec fuel : forall t lvl pi, size t <= fuel -> WF lvl pi t -> length pi = lvl ->
  exists cbs, free_cbs fuel t = Some cbs /\ Permutation cbs (records t).
Proof.
  induction fuel as [|f IH]; intros t lvl pi Hsz Hwf Hpi.
  - destruct t; [|simpl in Hsz; lia]. exists []. split; reflexivity.
  - destruct t as [|p len d l r]; [exists []; split; reflexivity|].
    assert (Hsz' : size (pull (Node p len d l r)) <= f).
    { pose proof (size_pull (Node p len d l r) ltac:(discriminate)). lia. }
    destruct (IH _ lvl pi Hsz' (pull_WF _ _ _ Hwf Hpi) Hpi) as (rest & Hr & Hperm).
    cbn [free_cbs]. rewrite Hr. exists (map (fun e => (p, len, e)) d ++ rest). split; [reflexivity|].
    destruct (pull_perm (Node p len d l r)) as [_ Hpr].
    rewrite Hperm, Hpr. cbn [kids_records records]. perm_count record_eq_dec.
Qed.

(* ---------- no record is stored twice ---------- *)
Lemma NoDup_app' {A} (a b : list A) :
  NoDup a -> NoDup b -> (forall x, In x a -> In x b -> False) -> NoDup (a ++ b).
Proof.
  induction a as [|x a IH]; simpl; intros Ha Hb Hd; [exact Hb|].
  inversion Ha; subst. constructor.
  - rewrite in_app_iff. intros [H|H]; [contradiction|]. eapply Hd; eauto.
  - apply IH; auto. intros y Hy1 Hy2. eapply Hd; eauto.
Qed.

Lemma WF_NoDup_keys t : forall lvl pi, WF lvl pi t -> length pi = lvl -> NoDup (keys t).
Proof.
  induction t as [|p len d l IHl r IHr]; intros lvl pi Hwf Hpi; simpl; [constructor|].
  simpl in Hwf. destruct Hwf as (Hlp & HlW & Hfp & Hhost & Hd & Hnd & Hlvl & Hgl & Hgr & Hk & Hwl & Hwr).
  assert (HS : forall b, length (pi ++ [b]) = S lvl) by (intros; rewrite app_length; simpl; lia).
  constructor; [exact Hk|]. apply NoDup_app'; eauto.
  intros x H1 H2. eapply sibling_disjoint; eauto.
Qed.

Lemma WF_NoDup_records t : forall lvl pi, WF lvl pi t -> length pi = lvl -> NoDup (records t).
Proof.
  induction t as [|p len d l IHl r IHr]; intros lvl pi Hwf Hpi; simpl; [constructor|].
  simpl in Hwf. destruct Hwf as (Hlp & HlW & Hfp & Hhost & Hd & Hnd & Hlvl & Hgl & Hgr & Hk & Hwl & Hwr).
  assert (HS : forall b, length (pi ++ [b]) = S lvl) by (intros; rewrite app_length; simpl; lia).
  assert (Hmap : NoDup (map (fun e => (p, len, e)) d)).
  { apply FinFun.Injective_map_NoDup; [|exact Hnd]. intros a b H. injection H. auto. }
  apply NoDup_app'; [eauto| |].
  - apply NoDup_app'; [exact Hmap|eauto|].
    intros x H1 H2. apply in_map_iff in H1 as (e & <- & _). apply records_keys in H2. simpl in H2.
    apply Hk. apply in_app_iff. auto.
  - intros x H1 H2. apply in_app_iff in H2 as [H2|H2].
    + apply in_map_iff in H2 as (e & <- & _). apply records_keys in H1. simpl in H1.
      apply Hk. apply in_app_iff. auto.
    + apply records_keys in H1. apply records_keys in H2. eapply sibling_disjoint; eauto.
Qed.

End SetSem.
