(* RwLock.v - interleaving semantics of threads that share objects guarded by reader/writer locks.

   Any number of threads; a thread is a list of actions over *named* locks/objects:
       Acq l m   pthread_rwlock_rdlock / wrlock on lock l   (m = Rm / Wm)
       Rel l     pthread_rwlock_unlock
       Rd l f    read object l (the mutable state guarded by lock l) into the thread's local memory
       Wr l g    write object l from the thread's local memory
   Lock-to-object map: object l is guarded by lock l (for the tables of rtrlib: object = everything
   reachable from pfx_table->ipv4/->ipv6, resp. spki_table->hashtable/->list; lock = that table's .lock).

   Accesses are ALWAYS enabled (nothing in C stops a thread from touching memory without the lock);
   lock acquisition is enabled only when the rwlock rules allow it.  This is what makes a data
   race expressible: two threads that are both about to touch the same object, one of them writing.

   Trusted: that pthread rwlocks implement these rules and that race-free programs are
   sequentially consistent on the hardware (the C11 / POSIX guarantee).                          *)
From Coq Require Import List Bool.
Import ListNotations.

Section RW.
Variable K : Type.                           (* lock / object names *)
Variable Keqb : K -> K -> bool.
Hypothesis Keqb_spec : forall a b, Keqb a b = true <-> a = b.
Variables (St L : Type).                     (* state of one object; thread-local memory *)

Inductive mode := Rm | Wm.
Inductive act :=
| Acq (l : K) (m : mode)
| Rel (l : K)
| Rd (l : K) (f : L -> St -> L)
| Wr (l : K) (g : L -> St -> St).

(* locks held by a thread *)
Definition held := list (K * mode).
Fixpoint hget (l : K) (h : held) : option mode :=
  match h with
  | [] => None
  | (k, m) :: r => if Keqb l k then Some m else hget l r
  end.
Definition hrem (l : K) (h : held) : held := filter (fun p => negb (Keqb l (fst p))) h.

Record thread := mkT { todo : list act; holds : held; loc : L }.
Definition pool := list thread.
Definition store := K -> St.
Definition upd (s : store) (l : K) (v : St) : store := fun k => if Keqb k l then v else s k.

Definition no_writer (l : K) (ts : pool) := forall t, In t ts -> hget l (holds t) <> Some Wm.
Definition no_holder (l : K) (ts : pool) := forall t, In t ts -> hget l (holds t) = None.

(* one step of thread t, the other threads being [others] *)
Inductive tstep : store -> pool -> thread -> store -> thread -> Prop :=
| s_acqR s others t l rest :
    todo t = Acq l Rm :: rest -> hget l (holds t) = None -> no_writer l others ->
    tstep s others t s (mkT rest ((l, Rm) :: holds t) (loc t))
| s_acqW s others t l rest :
    todo t = Acq l Wm :: rest -> hget l (holds t) = None -> no_holder l others ->
    tstep s others t s (mkT rest ((l, Wm) :: holds t) (loc t))
| s_rel s others t l rest :
    todo t = Rel l :: rest ->
    tstep s others t s (mkT rest (hrem l (holds t)) (loc t))
| s_rd s others t l f rest :
    todo t = Rd l f :: rest ->
    tstep s others t s (mkT rest (holds t) (f (loc t) (s l)))
| s_wr s others t l g rest :
    todo t = Wr l g :: rest ->
    tstep s others t (upd s l (g (loc t) (s l))) (mkT rest (holds t) (loc t)).

Inductive step : store * pool -> store * pool -> Prop :=
| step_i s s' pre t t' post :
    tstep s (pre ++ post) t s' t' -> step (s, pre ++ t :: post) (s', pre ++ t' :: post).

Inductive steps : store * pool -> store * pool -> Prop :=
| steps_refl c : steps c c
| steps_more c1 c2 c3 : steps c1 c2 -> step c2 c3 -> steps c1 c3.

(* ---- the lock discipline, checked in one pass over a program ---- *)
Fixpoint wl (h : held) (p : list act) : bool :=
  match p with
  | [] => match h with [] => true | _ => false end
  | Acq l m :: r => match hget l h with None => wl ((l, m) :: h) r | Some _ => false end
  | Rel l :: r => match hget l h with Some _ => wl (hrem l h) r | None => false end
  | Rd l _ :: r => match hget l h with Some _ => wl h r | None => false end
  | Wr l _ :: r => match hget l h with Some Wm => wl h r | _ => false end
  end.

(* ---- data races ---- *)
(* the object a thread is about to touch, and whether it is about to write it *)
Definition next_access (t : thread) : option (K * bool) :=
  match todo t with
  | Rd l _ :: _ => Some (l, false)
  | Wr l _ :: _ => Some (l, true)
  | _ => None
  end.

(* two distinct threads are simultaneously about to touch the same object, one of them writing *)
Definition race (ts : pool) := exists pre t mid u post l wt wu,
  ts = pre ++ t :: mid ++ u :: post /\
  next_access t = Some (l, wt) /\ next_access u = Some (l, wu) /\ (wt = true \/ wu = true).

(* every pending access is covered by the lock of its object, in a sufficient mode *)
Definition protected (t : thread) : Prop :=
  match next_access t with
  | Some (l, true) => hget l (holds t) = Some Wm
  | Some (l, false) => hget l (holds t) <> None
  | None => True
  end.

(* a writer excludes every other holder of the same lock *)
Definition excl (ts : pool) := forall pre t post l, ts = pre ++ t :: post ->
  hget l (holds t) = Some Wm -> no_holder l (pre ++ post).

Definition Inv (ts : pool) := (forall t, In t ts -> wl (holds t) (todo t) = true) /\ excl ts.
End RW.

(* ------------------------------------------------------------------------------------------
   Operations = one critical section on one lock (what every public table function is, by the
   lock skeletons), and the ATOMIC semantics in which a whole operation is one step.            *)
Section Ops.
Variable K : Type.
Variable Keqb : K -> K -> bool.
Variables (St L : Type).

(* the body of a critical section: reads and writes of the object guarded by the section's lock *)
Inductive bact := BRd (f : L -> St -> L) | BWr (g : L -> St -> St).
Record op := mkOp { olock : K; omode : mode; obody : list bact }.

Definition is_read (b : bact) : bool := match b with BRd _ => true | BWr _ => false end.
(* a section under the read lock only reads *)
Definition op_ok (o : op) : bool := match omode o with Rm => forallb is_read (obody o) | Wm => true end.

Definition bact_act (l : K) (b : bact) : act K St L :=
  match b with BRd f => Rd K St L l f | BWr g => Wr K St L l g end.
Definition compile (o : op) : list (act K St L) :=
  Acq K St L (olock o) (omode o) :: map (bact_act (olock o)) (obody o) ++ [Rel K St L (olock o)].
Definition compile_all (os : list op) : list (act K St L) := concat (map compile os).

(* sequential meaning of a body / an operation: a function of (local memory, object state) *)
Definition run_b (x : L * St) (b : bact) : L * St :=
  match b with
  | BRd f => (f (fst x) (snd x), snd x)
  | BWr g => (fst x, g (fst x) (snd x))
  end.
Definition run_body (bs : list bact) (x : L * St) : L * St := fold_left run_b bs x.
Definition seq_op (o : op) (lc : L) (s : store K St) : L * store K St :=
  let r := run_body (obody o) (lc, s (olock o)) in (fst r, upd K Keqb St s (olock o) (snd r)).

(* atomic semantics: a thread is (operations still to run, local memory) *)
Definition athread := (list op * L)%type.
Inductive astep : store K St * list athread -> store K St * list athread -> Prop :=
| astep_i s pre o rest lc post :
    astep (s, pre ++ (o :: rest, lc) :: post)
          (snd (seq_op o lc s), pre ++ (rest, fst (seq_op o lc s)) :: post).
Inductive asteps : store K St * list athread -> store K St * list athread -> Prop :=
| asteps_refl c : asteps c c
| asteps_more c1 c2 c3 : asteps c1 c2 -> astep c2 c3 -> asteps c1 c3.

(* the fine-grained thread that runs a list of operations *)
Definition thread_of (a : athread) : thread K St L := mkT K St L (compile_all (fst a)) [] (snd a).
End Ops.

Arguments Acq {K St L}. Arguments Rel {K St L}. Arguments Rd {K St L}. Arguments Wr {K St L}.
Arguments mkT {K St L}. Arguments todo {K St L}. Arguments holds {K St L}. Arguments loc {K St L}.
Arguments hget {K}. Arguments hrem {K}. Arguments upd {K} Keqb {St}.
Arguments wl {K} Keqb {St L}. Arguments step {K} Keqb {St L}. Arguments steps {K} Keqb {St L}.
Arguments tstep {K} Keqb {St L}.
Arguments race {K St L}. Arguments protected {K} Keqb {St L}. Arguments next_access {K St L}.
Arguments excl {K} Keqb {St L}. Arguments Inv {K} Keqb {St L}.
Arguments no_writer {K} Keqb {St L}. Arguments no_holder {K} Keqb {St L}.
Arguments BRd {St L}. Arguments BWr {St L}.
Arguments mkOp {K St L}. Arguments olock {K St L}. Arguments omode {K St L}. Arguments obody {K St L}.
Arguments is_read {St L}. Arguments op_ok {K St L}.
Arguments bact_act {K St L}. Arguments compile {K St L}. Arguments compile_all {K St L}.
Arguments run_b {St L}. Arguments run_body {St L}. Arguments seq_op {K} Keqb {St L}.
Arguments astep {K} Keqb {St L}. Arguments asteps {K} Keqb {St L}. Arguments thread_of {K St L}.
