(* ConcProofs.v - theorems about the rwlock semantics of RwLock.v:
     rw_race_free / rw_protected : programs that pass the one-pass check [wl] never reach a data race;
     rw_atomic                   : one-critical-section operations are linearizable - the fine-grained
                                   execution is simulated by one in which every operation runs atomically
                                   at the instant of its lock acquisition.                               *)
From Coq Require Import List Bool Lia.
Import ListNotations.
From RtrV Require Import Conc.RwLock.

Section RWProofs.
Variable K : Type.
Variable Keqb : K -> K -> bool.
Hypothesis Keqb_spec : forall a b, Keqb a b = true <-> a = b.
Variables (St L : Type).

Notation act := (act K St L).
Notation thread := (thread K St L).
Notation pool := (pool K St L).
Notation store := (store K St).
Notation hget := (hget Keqb).
Notation hrem := (hrem Keqb).
Notation wl := (wl Keqb).
Notation step := (step Keqb).
Notation steps := (steps Keqb).
Notation tstep := (tstep Keqb).
Notation excl := (excl Keqb).
Notation Inv := (Inv Keqb).
Notation no_writer := (no_writer Keqb).
Notation no_holder := (no_holder Keqb).
Notation protected := (protected Keqb).
Notation upd := (upd Keqb).

Lemma Keqb_refl (a : K) : Keqb a a = true.
Proof. apply Keqb_spec. reflexivity. Qed.

Lemma Keqb_neq (a b : K) : a <> b -> Keqb a b = false.
Proof. intros H. destruct (Keqb a b) eqn:E; auto. apply Keqb_spec in E. contradiction. Qed.

Lemma Keqb_dec (a b : K) : {a = b} + {a <> b}.
Proof.
  destruct (Keqb a b) eqn:E.
  - left. apply Keqb_spec. exact E.
  - right. intros ->. rewrite Keqb_refl in E. discriminate.
Qed.

Lemma hget_cons_same l m h : hget l ((l, m) :: h) = Some m.
Proof. simpl. rewrite Keqb_refl. reflexivity. Qed.

Lemma hget_cons_other l l' m h : l' <> l -> hget l' ((l, m) :: h) = hget l' h.
Proof. intros H. simpl. rewrite (Keqb_neq _ _ H). reflexivity. Qed.

Lemma hget_hrem_same l h : hget l (hrem l h) = None.
Proof.
  induction h as [|[k m] h IH]; simpl; auto.
  destruct (Keqb l k) eqn:E; simpl; auto. rewrite E. exact IH.
Qed.

Lemma hget_hrem_other l l' h : l' <> l -> hget l' (hrem l h) = hget l' h.
Proof.
  intros H. induction h as [|[k m] h IH]; simpl; auto.
  destruct (Keqb l k) eqn:E; simpl.
  - apply Keqb_spec in E. subst k. rewrite (Keqb_neq _ _ H). exact IH.
  - rewrite IH. reflexivity.
Qed.

Lemma hget_hrem_none l l' h : hget l' h = None -> hget l' (hrem l h) = None.
Proof.
  intros H. destruct (Keqb_dec l' l) as [->|Hn].
  - apply hget_hrem_same.
  - rewrite hget_hrem_other; auto.
Qed.

Lemma split_eq_cases (A : Type) (pre : list A) t post pre' t' post' :
  pre ++ t :: post = pre' ++ t' :: post' ->
  (pre = pre' /\ t = t' /\ post = post') \/
  (exists mid, pre' = pre ++ t :: mid /\ post = mid ++ t' :: post') \/
  (exists mid, pre = pre' ++ t' :: mid /\ post' = mid ++ t :: post).
Proof.
  revert pre'; induction pre as [|a pre IH]; intros [|a' pre'] H; simpl in *.
  - injection H as ? ?; subst. left; auto.
  - injection H as ? ?; subst. right; left. exists pre'. auto.
  - injection H as ? ?; subst. right; right. exists pre. auto.
  - injection H as ? H; subst. apply IH in H as [(? & ? & ?)|[(mid & ? & ?)|(mid & ? & ?)]]; subst.
    + left; auto.
    + right; left. exists mid; auto.
    + right; right. exists mid; auto.
Qed.

(* ---------------------------------------------------------------------------------------- *)
(* race freedom                                                                             *)

Lemma wl_protected (t : thread) : wl (holds t) (todo t) = true -> protected t.
Proof.
  unfold protected, next_access. intros H.
  destruct (todo t) as [|[l m|l|l f|l g] r]; simpl in *; auto.
  - destruct (hget l (holds t)); [discriminate|discriminate] || congruence.
  - destruct (hget l (holds t)) as [[|]|]; congruence.
Qed.

Lemma Inv_no_race (ts : pool) : Inv ts -> ~ race ts.
Proof.
  intros [Hwl Hex] (pre & t & mid & u & post & l & wt & wu & -> & Ht & Hu & Hw).
  assert (Pt : protected t) by (apply wl_protected, Hwl; rewrite in_app_iff; simpl; auto).
  assert (Pu : protected u).
  { apply wl_protected, Hwl. rewrite in_app_iff. simpl. rewrite in_app_iff. simpl. auto. }
  unfold protected in Pt, Pu. rewrite Ht in Pt. rewrite Hu in Pu.
  destruct Hw as [-> | ->].
  - (* t writes: it holds l exclusively, so u holds nothing on l *)
    assert (Hn : hget l (holds u) = None).
    { eapply (Hex pre t (mid ++ u :: post)); eauto. rewrite !in_app_iff. simpl. auto. }
    destruct wu; congruence.
  - assert (Hn : hget l (holds t) = None).
    { eapply (Hex (pre ++ t :: mid) u post); [rewrite <- app_assoc; reflexivity|exact Pu|].
      rewrite !in_app_iff. simpl. auto. }
    destruct wt; congruence.
Qed.

(* what a step does to the holdings of the stepping thread, lock by lock *)
Lemma tstep_holds s others (t : thread) s' t' l' :
  tstep s others t s' t' ->
  hget l' (holds t') = hget l' (holds t) \/
  (exists rest, todo t = Acq l' Rm :: rest /\ hget l' (holds t') = Some Rm /\ no_writer l' others) \/
  (exists rest, todo t = Acq l' Wm :: rest /\ hget l' (holds t') = Some Wm /\ no_holder l' others) \/
  (hget l' (holds t') = None).
Proof.
  intros H. inversion H; subst; simpl; auto.
  - destruct (Keqb_dec l' l) as [->|Hn].
    + right; left. exists rest. rewrite Keqb_refl. auto.
    + left. rewrite (Keqb_neq _ _ Hn). reflexivity.
  - destruct (Keqb_dec l' l) as [->|Hn].
    + right; right; left. exists rest. rewrite Keqb_refl. auto.
    + left. rewrite (Keqb_neq _ _ Hn). reflexivity.
  - destruct (Keqb_dec l' l) as [->|Hn].
    + right; right; right. apply hget_hrem_same.
    + left. apply hget_hrem_other. exact Hn.
Qed.

Lemma tstep_wl s others (t : thread) s' t' :
  tstep s others t s' t' -> wl (holds t) (todo t) = true -> wl (holds t') (todo t') = true.
Proof.
  intros H Hw. inversion H; subst; simpl;
    match goal with E : todo t = _ |- _ => rewrite E in Hw end; simpl in Hw.
  - match goal with E : hget _ _ = None |- _ => rewrite E in Hw end. exact Hw.
  - match goal with E : hget _ _ = None |- _ => rewrite E in Hw end. exact Hw.
  - destruct (hget l (holds t)); [exact Hw|discriminate].
  - destruct (hget l (holds t)); [exact Hw|discriminate].
  - destruct (hget l (holds t)) as [[|]|]; try discriminate. exact Hw.
Qed.

Ltac inapp := repeat (rewrite in_app_iff in * || simpl in * ); tauto.

Lemma Inv_step s (ts : pool) s' ts' : Inv ts -> step (s, ts) (s', ts') -> Inv ts'.
Proof.
  intros [Hwl Hex] Hst. inversion Hst as [s0 s0' pre t t' post Hts]; subst.
  assert (Hwt : wl (holds t) (todo t) = true) by (apply Hwl; rewrite in_app_iff; simpl; auto).
  split.
  - intros x Hx. rewrite in_app_iff in Hx. simpl in Hx.
    destruct Hx as [Hx|[<-|Hx]].
    + apply Hwl. rewrite in_app_iff. auto.
    + eapply tstep_wl; eauto.
    + apply Hwl. rewrite in_app_iff. simpl. auto.
  - intros pre1 x post1 l Heq Hx.
    apply split_eq_cases in Heq as [(-> & -> & ->)|[(mid & -> & ->)|(mid & -> & ->)]].
    + (* x is the stepping thread and now holds l for writing *)
      destruct (tstep_holds _ _ _ _ _ l Hts) as [E|[(r & _ & E & _)|[(r & _ & _ & Hn)|E]]].
      * rewrite E in Hx. eapply Hex; eauto.
      * congruence.
      * exact Hn.
      * congruence.
    + (* x sits after the stepping thread *)
      assert (Hold : no_holder l (pre ++ t :: mid ++ post1)).
      { replace (pre ++ t :: mid ++ post1) with ((pre ++ t :: mid) ++ post1) by (rewrite <- app_assoc; reflexivity).
        eapply Hex; eauto. rewrite <- app_assoc. reflexivity. }
      assert (Ht0 : hget l (holds t) = None) by (apply Hold; rewrite in_app_iff; simpl; auto).
      intros y Hy. rewrite <- app_assoc in Hy. simpl in Hy. rewrite in_app_iff in Hy. simpl in Hy.
      destruct Hy as [Hy|[<-|Hy]].
      * apply Hold. clear -Hy. inapp.
      * destruct (tstep_holds _ _ _ _ _ l Hts) as [E|[(r & _ & _ & Hn)|[(r & _ & _ & Hn)|E]]].
        -- congruence.
        -- exfalso. apply (Hn x); [rewrite !in_app_iff; simpl; auto|exact Hx].
        -- exfalso. rewrite (Hn x) in Hx; [discriminate|rewrite !in_app_iff; simpl; auto].
        -- exact E.
      * apply Hold. clear -Hy. inapp.
    + (* x sits before the stepping thread *)
      assert (Hold : no_holder l (pre1 ++ mid ++ t :: post)).
      { eapply Hex; eauto. rewrite <- app_assoc. reflexivity. }
      assert (Ht0 : hget l (holds t) = None) by (apply Hold; rewrite !in_app_iff; simpl; auto).
      intros y Hy. rewrite in_app_iff in Hy. rewrite in_app_iff in Hy. simpl in Hy.
      destruct Hy as [Hy|[Hy|[<-|Hy]]].
      * apply Hold. clear -Hy. inapp.
      * apply Hold. clear -Hy. inapp.
      * destruct (tstep_holds _ _ _ _ _ l Hts) as [E|[(r & _ & _ & Hn)|[(r & _ & _ & Hn)|E]]].
        -- congruence.
        -- exfalso. apply (Hn x); [rewrite <- app_assoc; rewrite !in_app_iff; simpl; auto|exact Hx].
        -- exfalso. rewrite (Hn x) in Hx; [discriminate|rewrite <- app_assoc; rewrite !in_app_iff; simpl; auto].
        -- exact E.
      * apply Hold. clear -Hy. inapp.
Qed.

Lemma Inv_steps (c0 c : store * pool) : steps c0 c -> Inv (snd c0) -> Inv (snd c).
Proof.
  induction 1 as [|c1 c2 c3 Hss IH Hs]; intros HI; auto.
  destruct c2 as [s2 ts2], c3 as [s3 ts3]. simpl in *. eapply Inv_step; [apply IH; exact HI|exact Hs].
Qed.

Definition initial (ts : pool) := forall t, In t ts -> holds t = [] /\ wl [] (todo t) = true.

Lemma Inv_initial (ts : pool) : initial ts -> Inv ts.
Proof.
  intros H0. split.
  - intros t Ht. destruct (H0 t Ht) as [-> ?]. auto.
  - intros pre t post l -> Hh. destruct (H0 t) as [E _]; [rewrite in_app_iff; simpl; auto|].
    rewrite E in Hh. discriminate.
Qed.

Theorem rw_race_free (s0 : store) (ts0 : pool) (s : store) (ts : pool) :
  initial ts0 -> steps (s0, ts0) (s, ts) -> ~ race ts.
Proof.
  intros H0 Hst. apply Inv_no_race. apply (Inv_steps _ _ Hst). apply Inv_initial. exact H0.
Qed.

(* the same fact said positively: every pending access is made under the object's lock (read or
   write lock for a read, write lock for a write), and a write lock excludes all other holders *)
Theorem rw_protected (s0 : store) (ts0 : pool) (s : store) (ts : pool) :
  initial ts0 -> steps (s0, ts0) (s, ts) -> (forall t, In t ts -> protected t) /\ excl ts.
Proof.
  intros H0 Hst. pose proof (Inv_steps _ _ Hst (Inv_initial _ H0)) as [Hw He]. simpl in *.
  split; auto. intros t Ht. apply wl_protected. auto.
Qed.

(* ---------------------------------------------------------------------------------------- *)
(* linearizability of one-critical-section operations                                       *)

Notation bact := (bact St L).
Notation op := (op K St L).
Notation athread := (athread K St L).
Notation seq_op := (seq_op Keqb).
Notation astep := (astep Keqb).
Notation asteps := (asteps Keqb).

Lemma run_body_cons b rem (x : L * St) : run_body (b :: rem) x = run_body rem (run_b x b).
Proof. reflexivity. Qed.

Lemma run_body_reads (rem : list bact) (x : L * St) : forallb is_read rem = true -> snd (run_body rem x) = snd x.
Proof.
  revert x. induction rem as [|b rem IH]; intros x H; simpl in *; auto.
  apply andb_true_iff in H as [Hb Hr]. rewrite (IH _ Hr). destruct b; simpl in *; [reflexivity|discriminate].
Qed.

Lemma upd_same (s : store) l v : upd s l v l = v.
Proof. unfold RwLock.upd. rewrite Keqb_refl. reflexivity. Qed.

Lemma upd_other (s : store) l v k : k <> l -> upd s l v k = s k.
Proof. intros H. unfold RwLock.upd. rewrite (Keqb_neq _ _ H). reflexivity. Qed.

Lemma compile_all_cons (o : op) rest : compile_all (o :: rest) =
  Acq (olock o) (omode o) :: map (bact_act (olock o)) (obody o) ++ Rel (olock o) :: compile_all rest.
Proof.
  unfold compile_all. simpl. unfold compile at 1. simpl. rewrite <- app_assoc. reflexivity.
Qed.

(* How a fine-grained thread relates to its atomic counterpart.  Outside a section they agree.
   Inside a section on l with [rem] still to run, the atomic thread has already run the whole
   operation: its local memory (and, for a writer, the object) is the fine-grained state
   fast-forwarded through [rem].                                                              *)
Definition trel (s sa : store) (t : thread) (a : athread) : Prop :=
  forallb op_ok (fst a) = true /\
  ((holds t = [] /\ todo t = compile_all (fst a) /\ snd a = loc t) \/
   (exists l m rem,
       holds t = [(l, m)] /\
       todo t = map (bact_act l) rem ++ Rel l :: compile_all (fst a) /\
       (m = Rm -> forallb is_read rem = true) /\
       snd a = fst (run_body rem (loc t, s l)) /\
       (m = Wm -> sa l = snd (run_body rem (loc t, s l))))).

(* objects nobody is writing are identical in both executions *)
Definition srel (s sa : store) (ts : pool) := forall l, no_writer l ts -> s l = sa l.

Definition simrel (c : store * pool) (ca : store * list athread) : Prop :=
  Inv (snd c) /\ Forall2 (trel (fst c) (fst ca)) (snd c) (snd ca) /\ srel (fst c) (fst ca) (snd c).

Lemma trel_mono (s sa s' sa' : store) (u : thread) au :
  trel s sa u au ->
  (forall l, hget l (holds u) <> None -> s' l = s l) ->
  (forall l, hget l (holds u) = Some Wm -> sa' l = sa l) ->
  trel s' sa' u au.
Proof.
  intros [Hok [H|(l & m & rem & Hh & Ht & Hr & Ha & Hw)]] Hs Hsa; split; auto.
  right. exists l, m, rem.
  assert (E : s' l = s l). { apply Hs. rewrite Hh. rewrite hget_cons_same. discriminate. }
  rewrite E. repeat split; auto.
  intros ->. rewrite Hsa; auto. rewrite Hh. apply hget_cons_same.
Qed.

Lemma Forall2_trel_mono (s sa s' sa' : store) (us : pool) aus :
  Forall2 (trel s sa) us aus ->
  (forall u l, In u us -> hget l (holds u) <> None -> s' l = s l) ->
  (forall u l, In u us -> hget l (holds u) = Some Wm -> sa' l = sa l) ->
  Forall2 (trel s' sa') us aus.
Proof.
  induction 1 as [|u au us aus Hu _ IH]; intros Hs Hsa; constructor.
  - eapply trel_mono; eauto; intros; [eapply Hs|eapply Hsa]; simpl; eauto.
  - apply IH; intros; [eapply Hs|eapply Hsa]; simpl; eauto.
Qed.

Lemma no_writer_split l (pre post : pool) t :
  no_writer l (pre ++ t :: post) <-> (no_writer l (pre ++ post) /\ hget l (holds t) <> Some Wm).
Proof.
  unfold RwLock.no_writer. split.
  - intros H. split; [intros x Hx; apply H; rewrite in_app_iff in *; simpl; tauto|apply H; rewrite in_app_iff; simpl; auto].
  - intros [H1 H2] x Hx. rewrite in_app_iff in Hx. simpl in Hx.
    destruct Hx as [Hx|[<-|Hx]]; auto; apply H1; rewrite in_app_iff; auto.
Qed.

Lemma no_holder_no_writer l (ts : pool) : no_holder l ts -> no_writer l ts.
Proof. intros H t Ht. rewrite (H t Ht). discriminate. Qed.

(* One fine-grained step is matched by exactly one atomic step when it is a lock acquisition
   (the whole operation takes effect at that instant), and by none otherwise.                 *)
Lemma sim_step c ca c' :
  simrel c ca -> step c c' ->
  exists ca', simrel c' ca' /\
    ((exists pre t t' post l m rest, snd c = pre ++ t :: post /\ snd c' = pre ++ t' :: post /\
                                     todo t = Acq l m :: rest /\ astep ca ca')
     \/ ca' = ca).
Proof.
  intros (HI & HF & HS) Hst.
  assert (HI' : Inv (snd c')) by (destruct c, c'; eapply Inv_step; eauto).
  inversion Hst as [s s' pre t t' post Hts]; subst. destruct ca as [sa ats]. simpl in *.
  apply Forall2_app_inv_l in HF as (apre & apost0 & HFpre & HFpost0 & ->).
  inversion HFpost0 as [|t0 a ? apost Hta HFpost]; subst. clear HFpost0.
  destruct HI as [Hwl Hex].
  assert (Hexo : forall l, hget l (holds t) = Some Wm -> no_holder l (pre ++ post)).
  { intros l Hl. eapply Hex; eauto. }
  destruct Hta as [Hok [(Hh & Htodo & Hloc)|(l & m & rem & Hh & Htodo & Hrd & Hloc & Hwr)]].
  - (* outside a section: the only possible step is the acquisition that opens the next operation *)
    destruct a as [ops la]. simpl in *. subst la.
    destruct ops as [|o rest].
    { exfalso. inversion Hts; subst; match goal with E : todo t = _ :: _ |- _ => rewrite Htodo in E; discriminate end. }
    rewrite compile_all_cons in Htodo.
    simpl in Hok. apply andb_true_iff in Hok as [Hoko Hokr].
    assert (Hacq : exists rest', todo t = Acq (olock o) (omode o) :: rest') by (eexists; exact Htodo).
    assert (Hnw : no_writer (olock o) (pre ++ post) /\ s' = s /\
                  t' = mkT (map (bact_act (olock o)) (obody o) ++ Rel (olock o) :: compile_all rest) [(olock o, omode o)] (loc t)).
    { inversion Hts; subst;
        match goal with E : todo t = _ :: _ |- _ => rewrite Htodo in E; try discriminate; injection E as E1 E2 E3 end;
        subst; rewrite Hh, E2; repeat split; auto.
      apply no_holder_no_writer; auto. }
    destruct Hnw as (Hnw & -> & ->).
    assert (Hs_l : s (olock o) = sa (olock o)).
    { apply HS. apply no_writer_split. split; auto. rewrite Hh. simpl. discriminate. }
    set (r := run_body (obody o) (loc t, sa (olock o))).
    exists (snd (seq_op o (loc t) sa), apre ++ (rest, fst (seq_op o (loc t) sa)) :: apost).
    split.
    + split; [exact HI'|]. simpl. split.
      * apply Forall2_app; [|constructor].
        -- eapply Forall2_trel_mono; eauto.
           intros u l Hu Hl. unfold RwLock.seq_op. simpl. apply upd_other. intros ->.
           apply (Hnw u); [rewrite in_app_iff; auto|exact Hl].
        -- split; [exact Hokr|]. right. exists (olock o), (omode o), (obody o). simpl.
           repeat split; auto.
           ++ intros Hm. unfold op_ok in Hoko. rewrite Hm in Hoko. exact Hoko.
           ++ rewrite Hs_l. reflexivity.
           ++ intros _. unfold RwLock.seq_op. simpl. rewrite upd_same. rewrite Hs_l. reflexivity.
        -- eapply Forall2_trel_mono; eauto.
           intros u l Hu Hl. unfold RwLock.seq_op. simpl. apply upd_other. intros ->.
           apply (Hnw u); [rewrite in_app_iff; auto|exact Hl].
      * intros l Hl. apply no_writer_split in Hl as [Hl1 Hl2]. simpl in Hl2.
        unfold RwLock.seq_op. simpl.
        destruct (Keqb_dec l (olock o)) as [->|Hn].
        -- rewrite upd_same. rewrite Keqb_refl in Hl2.
           destruct (omode o) eqn:Em; [|congruence].
           unfold op_ok in Hoko. rewrite Em in Hoko.
           rewrite (run_body_reads _ _ Hoko). simpl. exact Hs_l.
        -- rewrite upd_other by exact Hn. apply HS. apply no_writer_split. split; auto.
           rewrite Hh. simpl. discriminate.
    + left. exists pre, t, (mkT (map (bact_act (olock o)) (obody o) ++ Rel (olock o) :: compile_all rest) [(olock o, omode o)] (loc t)), post,
             (olock o), (omode o), (map (bact_act (olock o)) (obody o) ++ Rel (olock o) :: compile_all rest).
      repeat split; auto; try constructor.
  - (* inside a section *)
    exists (sa, apre ++ a :: apost). split; [|right; reflexivity].
    split; [exact HI'|]. simpl.
    destruct rem as [|b rem].
    + (* the release *)
      simpl in Htodo.
      assert (E : s' = s /\ t' = mkT (compile_all (fst a)) [] (loc t)).
      { inversion Hts; subst;
          match goal with E : todo t = _ :: _ |- _ => rewrite Htodo in E; try discriminate; injection E as ? ? end; subst.
        split; auto. rewrite Hh. unfold RwLock.hrem. simpl. rewrite Keqb_refl. reflexivity. }
      destruct E as [-> ->]. split.
      * apply Forall2_app; [exact HFpre|constructor; [|exact HFpost]].
        split; [exact Hok|]. left. simpl. repeat split; auto.
      * intros l' Hl'. apply no_writer_split in Hl' as [Hl1 _].
        destruct (Keqb_dec l' l) as [->|Hn].
        -- destruct m.
           ++ apply HS. apply no_writer_split. split; auto. rewrite Hh, hget_cons_same. discriminate.
           ++ rewrite (Hwr eq_refl). reflexivity.
        -- apply HS. apply no_writer_split. split; auto. rewrite Hh, hget_cons_other by exact Hn. simpl. discriminate.
    + simpl in Htodo. destruct b as [f|g]; simpl in Htodo.
      * (* a read inside the section *)
        assert (E : s' = s /\ t' = mkT (map (bact_act l) rem ++ Rel l :: compile_all (fst a)) (holds t) (f (loc t) (s l))).
        { inversion Hts; subst;
            match goal with E : todo t = _ :: _ |- _ => rewrite Htodo in E; try discriminate; injection E as ? ? ? end; subst.
          auto. }
        destruct E as [-> ->]. split.
        -- apply Forall2_app; [exact HFpre|constructor; [|exact HFpost]].
           split; [exact Hok|]. right. exists l, m, rem. simpl. repeat split; auto.
        -- intros l' Hl'. apply HS. apply no_writer_split in Hl' as [Hl1 Hl2]. apply no_writer_split. auto.
      * (* a write inside the section: the thread holds the write lock *)
        assert (Em : m = Wm). { destruct m; auto. specialize (Hrd eq_refl). simpl in Hrd. discriminate. }
        subst m.
        assert (E : s' = upd s l (g (loc t) (s l)) /\ t' = mkT (map (bact_act l) rem ++ Rel l :: compile_all (fst a)) (holds t) (loc t)).
        { inversion Hts; subst;
            match goal with E : todo t = _ :: _ |- _ => rewrite Htodo in E; try discriminate; injection E as ? ? ? end; subst.
          auto. }
        destruct E as [-> ->].
        assert (Hnh : no_holder l (pre ++ post)) by (apply Hexo; rewrite Hh; apply hget_cons_same).
        split.
        -- apply Forall2_app; [|constructor].
           ++ eapply Forall2_trel_mono; eauto. intros u l' Hu Hl'. apply upd_other. intros ->.
              apply Hl'. apply Hnh. rewrite in_app_iff. auto.
           ++ split; [exact Hok|]. right. exists l, Wm, rem. simpl. rewrite upd_same. repeat split; auto.
              intros Hm; discriminate.
           ++ eapply Forall2_trel_mono; eauto. intros u l' Hu Hl'. apply upd_other. intros ->.
              apply Hl'. apply Hnh. rewrite in_app_iff. auto.
        -- intros l' Hl'. apply no_writer_split in Hl' as [Hl1 Hl2]. simpl in Hl2.
           destruct (Keqb_dec l' l) as [->|Hn].
           ++ exfalso. apply Hl2. rewrite Hh. apply hget_cons_same.
           ++ rewrite upd_other by exact Hn. apply HS. apply no_writer_split. auto.
Qed.

Definition ainit (ats : list athread) : pool := map thread_of ats.

Lemma simrel_init (s : store) (ats : list athread) :
  Forall (fun a => forallb op_ok (fst a) = true) ats -> simrel (s, ainit ats) (s, ats).
Proof.
  intros Hok. split; [|split]; simpl.
  - (* the invariant holds of threads that hold nothing; their programs need not be checked here:
       Inv only needs wl of compiled operations, proved below *)
    assert (Hc : forall (os : list op) , forallb op_ok os = true -> wl [] (compile_all os) = true).
    { induction os as [|o os IH]; intros H; [reflexivity|].
      simpl in H. apply andb_true_iff in H as [Ho Hos]. rewrite compile_all_cons.
      simpl. 
      assert (Hb : forall (m : mode) (bs : list bact) rest, (m = Rm -> forallb is_read bs = true) ->
                    wl [(olock o, m)] rest = true ->
                    wl [(olock o, m)] (map (bact_act (olock o)) bs ++ rest) = true).
      { intros m. induction bs as [|b bs IHb]; intros rest Hm Hr; simpl; auto.
        destruct b as [f|g]; simpl; rewrite Keqb_refl.
        - apply IHb; auto.
        - destruct m.
          + specialize (Hm eq_refl). simpl in Hm. discriminate.
          + apply IHb; auto. intros; discriminate. }
      apply Hb.
      - intros Hm. unfold op_ok in Ho. rewrite Hm in Ho. exact Ho.
      - simpl. rewrite Keqb_refl. unfold RwLock.hrem. simpl. rewrite ?Keqb_refl. simpl. apply IH. exact Hos. }
    apply Inv_initial. intros t Ht. unfold ainit in Ht. apply in_map_iff in Ht as (a & <- & Ha).
    simpl. split; auto. apply Hc. rewrite Forall_forall in Hok. apply Hok. exact Ha.
  - unfold ainit. induction Hok as [|a ats Ha _ IH]; simpl; constructor; auto.
    split; [exact Ha|]. left. simpl. auto.
  - intros l _. reflexivity.
Qed.

(* rw_atomic: every fine-grained execution of threads built from well-formed operations is
   simulated by an atomic execution of the same operations. *)
Theorem rw_atomic (s0 : store) (ats0 : list athread) c :
  Forall (fun a => forallb op_ok (fst a) = true) ats0 ->
  steps (s0, ainit ats0) c ->
  exists ca, asteps (s0, ats0) ca /\ simrel c ca.
Proof.
  intros Hok Hst. remember (s0, ainit ats0) as c0 eqn:E0.
  induction Hst as [c|c1 c2 c3 Hss IH Hs].
  - subst. exists (s0, ats0). split; [constructor|apply simrel_init; exact Hok].
  - destruct (IH E0) as (ca & Has & Hr).
    destruct (sim_step _ _ _ Hr Hs) as (ca' & Hr' & [(pre & t & t' & post & l & m & rest & _ & _ & _ & Ha)| ->]).
    + exists ca'. split; [econstructor; eauto|exact Hr'].
    + exists ca. auto.
Qed.

(* an unlocked read next to a correct writer is a race after one step *)
Lemma unlocked_read_races (s : store) l f g (lc lc' : L) rest :
  exists s' ts', step (s, [mkT (Rd l f :: rest) [] lc; mkT [Acq l Wm; Wr l g; RwLock.Rel l] [] lc']) (s', ts') /\ race ts'.
Proof.
  exists s, [mkT (Rd l f :: rest) [] lc; mkT [Wr l g; RwLock.Rel l] [(l, Wm)] lc']. split.
  - apply (step_i K Keqb St L s s [mkT (Rd l f :: rest) [] lc] (mkT [Acq l Wm; Wr l g; RwLock.Rel l] [] lc')
                  (mkT [Wr l g; RwLock.Rel l] [(l, Wm)] lc') []).
    apply (s_acqW K Keqb St L s _ (mkT [Acq l Wm; Wr l g; RwLock.Rel l] [] lc') l [Wr l g; RwLock.Rel l]); simpl; auto.
    intros t [<-|[]]. reflexivity.
  - exists [], (mkT (Rd l f :: rest) [] lc), [], (mkT [Wr l g; RwLock.Rel l] [(l, Wm)] lc'), [], l, false, true.
    simpl. auto.
Qed.

Lemma simrel_meaning (c : store * pool) ca : simrel c ca ->
  Forall2 (fun (t : thread) (a : athread) =>
             (holds t = [] -> todo t = compile_all (fst a) /\ loc t = snd a) /\
             (forall l m, holds t = [(l, m)] -> exists rem,
                 todo t = map (bact_act l) rem ++ RwLock.Rel l :: compile_all (fst a) /\
                 snd a = fst (run_body rem (loc t, fst c l)) /\
                 (m = Wm -> fst ca l = snd (run_body rem (loc t, fst c l)))))
          (snd c) (snd ca) /\
  (forall l, no_writer l (snd c) -> fst c l = fst ca l).
Proof.
  destruct c as [s ts], ca as [sa ats]. simpl.
  intros (_ & HF & HS). split; [|exact HS]. simpl in HF. clear HS.
  induction HF as [|t a ts' ats' Hta _ IH]; constructor; [|exact IH]. clear IH.
  destruct Hta as [_ [(Hh & Ht & Hl)|(l & m & rem & Hh & Ht & _ & Hl & Hw)]].
  - split; [auto|]. intros l m E. rewrite Hh in E. discriminate.
  - split; [intros E; rewrite Hh in E; discriminate|].
    intros l' m' E. rewrite Hh in E. injection E as <- <-. exists rem. auto.
Qed.

End RWProofs.

(* ======================================================================================== *)
(* The checker of LockCheck.v on the translator's skeletons: soundness of the structured    *)
(* check for all iteration counts, and the link between skeleton paths and thread programs.  *)
From Coq Require Import String.
From RtrV Require Import Gen.LockSkeletons Conc.LockCheck.

Section CheckProofs.
Variable tol : lk_event -> bool.

Lemma ev_run_app h p q : ev_run tol h (p ++ q) = match ev_run tol h p with Some h' => ev_run tol h' q | None => None end.
Proof.
  revert h. induction p as [|e p IH]; intros h; simpl; auto.
  destruct (ev_step tol h e); auto.
Qed.

Lemma mode_eqb_eq a b : mode_eqb a b = true -> a = b.
Proof. destruct a, b; simpl; congruence. Qed.

Lemma lheld_eqb_eq a : forall b, lheld_eqb a b = true -> a = b.
Proof.
  induction a as [|[k m] a IH]; intros [|[k' m'] b] H; simpl in H; try discriminate; auto.
  apply andb_true_iff in H as [H H3]. apply andb_true_iff in H as [H1 H2].
  apply String.eqb_eq in H1. apply mode_eqb_eq in H2. apply IH in H3. subst. reflexivity.
Qed.

Lemma ojoin_l a b c x : ojoin a b = Some c -> a = Some x -> c = Some x.
Proof.
  intros H ->. destruct b as [y|]; simpl in H.
  - destruct (lheld_eqb x y); congruence.
  - congruence.
Qed.

Lemma ojoin_r a b c x : ojoin a b = Some c -> b = Some x -> c = Some x.
Proof.
  intros H ->. destruct a as [y|]; simpl in H.
  - destruct (lheld_eqb y x) eqn:E; [|discriminate]. apply lheld_eqb_eq in E. congruence.
  - congruence.
Qed.

Lemma cjoin3_inv n1 n2 b1 b2 r1 r2 r : cjoin3 n1 n2 b1 b2 r1 r2 = Some r ->
  ojoin n1 n2 = Some (cn r) /\ ojoin b1 b2 = Some (cb r) /\ ojoin r1 r2 = Some (cr r).
Proof.
  unfold cjoin3. destruct (ojoin n1 n2), (ojoin b1 b2), (ojoin r1 r2); try discriminate.
  intros H. injection H as <-. auto.
Qed.

Definition exit_of (r : cres) (o : lk_out) : option lheld :=
  match o with ONorm => cn r | OBrk => cb r | ORet => cr r end.

(* soundness of the structured check: whatever path is taken and however often loops iterate,
   the trace runs without violating the discipline and ends in the lock state predicted for its exit *)
Theorem chk_sound p t o : exec p t o -> forall h r, chk tol p h = Some r ->
  exists h', ev_run tol h t = Some h' /\ exit_of r o = Some h'.
Proof.
  induction 1 as [e| | | |a b ta tb o Ha IHa Hb IHb|a b ta Ha IHa|a b ta Ha IHa|a b t o Ha IHa|a b t o Hb IHb
                  |b t o Hb IHb|b t Hb IHb|b t Hb IHb|b t1 t2 o Hb IHb Hl IHl]; intros h r Hc; simpl in Hc.
  - destruct (ev_step tol h e) as [h'|] eqn:E; [|discriminate]. injection Hc as <-.
    exists h'. simpl. rewrite E. auto.
  - injection Hc as <-. exists h. auto.
  - injection Hc as <-. exists h. auto.
  - injection Hc as <-. exists h. auto.
  - destruct (chk tol a h) as [ra|] eqn:Ea; [|discriminate].
    destruct (IHa _ _ Ea) as (h1 & R1 & X1). simpl in X1. rewrite X1 in Hc.
    destruct (chk tol b h1) as [rb|] eqn:Eb; [|discriminate].
    destruct (IHb _ _ Eb) as (h2 & R2 & X2).
    apply cjoin3_inv in Hc as (Jn & Jb & Jr).
    exists h2. rewrite ev_run_app, R1. split; auto.
    destruct o; simpl in X2 |- *.
    + simpl in Jn. injection Jn as <-. exact X2.
    + eapply ojoin_r; eauto.
    + eapply ojoin_r; eauto.
  - destruct (chk tol a h) as [ra|] eqn:Ea; [|discriminate].
    destruct (IHa _ _ Ea) as (h1 & R1 & X1). simpl in X1.
    destruct (cn ra) as [hn|] eqn:En.
    + destruct (chk tol b hn) as [rb|] eqn:Eb; [|discriminate].
      apply cjoin3_inv in Hc as (Jn & Jb & Jr). exists h1. split; auto. simpl. eapply ojoin_l; eauto.
    + injection Hc as <-. exists h1. auto.
  - destruct (chk tol a h) as [ra|] eqn:Ea; [|discriminate].
    destruct (IHa _ _ Ea) as (h1 & R1 & X1). simpl in X1.
    destruct (cn ra) as [hn|] eqn:En.
    + destruct (chk tol b hn) as [rb|] eqn:Eb; [|discriminate].
      apply cjoin3_inv in Hc as (Jn & Jb & Jr). exists h1. split; auto. simpl. eapply ojoin_l; eauto.
    + injection Hc as <-. exists h1. auto.
  - destruct (chk tol a h) as [ra|] eqn:Ea; [|discriminate].
    destruct (chk tol b h) as [rb|] eqn:Eb; [|discriminate].
    destruct (IHa _ _ Ea) as (h1 & R1 & X1).
    apply cjoin3_inv in Hc as (Jn & Jb & Jr). exists h1. split; auto.
    destruct o; simpl in *; eapply ojoin_l; eauto.
  - destruct (chk tol a h) as [ra|] eqn:Ea; [|discriminate].
    destruct (chk tol b h) as [rb|] eqn:Eb; [|discriminate].
    destruct (IHb _ _ Eb) as (h1 & R1 & X1).
    apply cjoin3_inv in Hc as (Jn & Jb & Jr). exists h1. split; auto.
    destruct o; simpl in *; eapply ojoin_r; eauto.
  - destruct (chk tol b h) as [rb|] eqn:Eb; [|discriminate].
    destruct (IHb _ _ Eb) as (h1 & R1 & X1).
    destruct (cb rb) eqn:Ecb; [discriminate|].
    destruct (ojoin (cn rb) (cr rb)) as [n|] eqn:J; [|discriminate]. injection Hc as <-.
    exists h1. split; auto. simpl.
    destruct o; simpl in X1.
    + eapply ojoin_l; eauto.
    + congruence.
    + eapply ojoin_r; eauto.
  - destruct (chk tol b h) as [rb|] eqn:Eb; [|discriminate].
    destruct (IHb _ _ Eb) as (h1 & R1 & X1). simpl in X1.
    exists h1. split; auto.
    destruct (cn rb) as [hn|]; [destruct (lheld_eqb hn h); [|discriminate]|]; injection Hc as <-; simpl; auto.
  - destruct (chk tol b h) as [rb|] eqn:Eb; [|discriminate].
    destruct (IHb _ _ Eb) as (h1 & R1 & X1). simpl in X1.
    exists h1. split; auto.
    destruct (cn rb) as [hn|]; [destruct (lheld_eqb hn h); [|discriminate]|]; injection Hc as <-; simpl; auto.
  - assert (Hc' := Hc).
    destruct (chk tol b h) as [rb|] eqn:Eb; [|discriminate].
    destruct (IHb _ _ Eb) as (h1 & R1 & X1). simpl in X1. rewrite X1 in Hc.
    destruct (lheld_eqb h1 h) eqn:E; [|discriminate]. apply lheld_eqb_eq in E. subst h1.
    assert (Hl' : chk tol (PLoop b) h = Some r) by (simpl; rewrite Eb; exact Hc').
    destruct (IHl _ _ Hl') as (h2 & R2 & X2).
    exists h2. rewrite ev_run_app, R1. auto.
Qed.

(* the listed paths (loops 0 and 1 times) are among the traces *)
Lemma lk_paths_exec p : forall t o, In (t, o) (lk_paths p) -> exec p t o.
Proof.
  induction p as [e| | | |a IHa b IHb|a IHa b IHb|b IHb|b IHb]; intros t o Hin; simpl in Hin.
  - destruct Hin as [E|[]]. injection E as <- <-. constructor.
  - destruct Hin as [E|[]]. injection E as <- <-. constructor.
  - destruct Hin as [E|[]]. injection E as <- <-. constructor.
  - destruct Hin as [E|[]]. injection E as <- <-. constructor.
  - apply in_flat_map in Hin as ([ta oa] & Ha & Hx). simpl in Hx. destruct oa.
    + apply in_map_iff in Hx as ([tb ob] & E & Hb). simpl in E. injection E as <- <-.
      eapply x_seq; eauto.
    + destruct Hx as [E|[]]. injection E as <- <-. apply x_seq_brk. auto.
    + destruct Hx as [E|[]]. injection E as <- <-. apply x_seq_ret. auto.
  - apply in_app_iff in Hin as [H|H]; [apply x_alt_l|apply x_alt_r]; auto.
  - apply in_flat_map in Hin as ([t1 o1] & H1 & Hx). simpl in Hx. destruct o1.
    + apply in_flat_map in Hx as ([t2 o2] & H2 & Hy). simpl in Hy. destruct o2.
      * destruct Hy.
      * destruct Hy as [E|[]]. injection E as <- <-. eapply x_loop_more; [eauto|]. apply x_loop_brk. auto.
      * destruct Hy as [E|[]]. injection E as <- <-. eapply x_loop_more; [eauto|]. apply x_loop_ret. auto.
    + destruct Hx as [E|[]]. injection E as <- <-. apply x_loop_brk. auto.
    + destruct Hx as [E|[]]. injection E as <- <-. apply x_loop_ret. auto.
  - apply in_map_iff in Hin as ([t1 o1] & E & H1). simpl in E. injection E as <- <-.
    eapply x_call; eauto.
Qed.

(* a program that passes the structured check: every complete trace is a well-locked path *)
Theorem chk_prog_sound p t o : chk_prog_tol tol p = true -> exec p t o -> o <> OBrk -> well_locked_tol tol t = true.
Proof.
  unfold chk_prog_tol, well_locked_tol. intros H Hx Ho.
  destruct (chk tol p []) as [r|] eqn:E; [|discriminate].
  apply andb_true_iff in H as [H Hb]. apply andb_true_iff in H as [Hn Hr].
  destruct (chk_sound _ _ _ Hx _ _ E) as (h' & R & X). rewrite R.
  destruct o; simpl in X; try congruence.
  - rewrite X in Hn. destruct h'; [reflexivity|discriminate].
  - rewrite X in Hr. destruct h'; [reflexivity|discriminate].
Qed.

(* consecutive well-locked pieces make a well-locked path (why a long function may be listed
   statement by statement) *)
Lemma well_locked_app p q : well_locked_tol tol p = true -> well_locked_tol tol q = true -> well_locked_tol tol (p ++ q) = true.
Proof.
  unfold well_locked_tol. intros Hp Hq. rewrite ev_run_app.
  destruct (ev_run tol [] p) as [[|x h]|]; try discriminate. exact Hq.
Qed.
End CheckProofs.

(* ---------------------------------------------------------------------------------------- *)
(* From skeleton paths to thread programs.  A thread program [p] over concrete tables follows a
   skeleton path [sk] (whose lock names are the C parameter names) when, forgetting the data
   functions, the callbacks and the labels, it is the same sequence of lock operations and
   accesses, the parameter names being bound to distinct tables ([rho] injective).            *)
Section Link.
Variable K : Type.
Variable Keqb : K -> K -> bool.
Hypothesis Keqb_spec : forall a b, Keqb a b = true <-> a = b.
Variables (St L : Type).

Inductive sig := SAcq (l : string) (m : mode) | SRel (l : string) | SRd (l : string) | SWr (l : string).

Definition ev_sig (e : lk_event) : list sig :=
  match e with
  | AcqR l => [SAcq l Rm] | AcqW l => [SAcq l Wm] | LockSkeletons.Rel l => [SRel l]
  | LockSkeletons.Rd l _ => [SRd l] | LockSkeletons.Wr l _ => [SWr l] | Cb _ => []
  end.
Definition act_sig (rho : string -> K) (a : act K St L) (s : sig) : Prop :=
  match a, s with
  | Acq l m, SAcq l' m' => l = rho l' /\ m = m'
  | RwLock.Rel l, SRel l' => l = rho l'
  | RwLock.Rd l _, SRd l' => l = rho l'
  | RwLock.Wr l _, SWr l' => l = rho l'
  | _, _ => False
  end.
Definition follows (rho : string -> K) (p : list (act K St L)) (sk : list lk_event) : Prop :=
  Forall2 (act_sig rho) p (flat_map ev_sig sk).

Definition hmap (rho : string -> K) (h : lheld) : held K := map (fun x => (rho (fst x), snd x)) h.

Section Rho.
Variable rho : string -> K.
Hypothesis rho_inj : forall a b, rho a = rho b -> a = b.

Lemma hget_hmap l h : hget Keqb (rho l) (hmap rho h) = lget l h.
Proof.
  unfold lget. induction h as [|[k m] h IH]; simpl; auto.
  destruct (String.eqb l k) eqn:E.
  - apply String.eqb_eq in E. subst. rewrite (proj2 (Keqb_spec _ _) eq_refl). reflexivity.
  - destruct (Keqb (rho l) (rho k)) eqn:E2; [|exact IH].
    apply Keqb_spec in E2. apply rho_inj in E2. subst. rewrite String.eqb_refl in E. discriminate.
Qed.

Lemma hrem_hmap l h : hrem Keqb (rho l) (hmap rho h) = hmap rho (lrem l h).
Proof.
  unfold lrem. induction h as [|[k m] h IH]; simpl; auto.
  destruct (String.eqb l k) eqn:E.
  - apply String.eqb_eq in E. subst. rewrite (proj2 (Keqb_spec _ _) eq_refl). simpl. exact IH.
  - destruct (Keqb (rho l) (rho k)) eqn:E2.
    + apply Keqb_spec in E2. apply rho_inj in E2. subst. rewrite String.eqb_refl in E. discriminate.
    + simpl. rewrite IH. reflexivity.
Qed.

(* running the checker over a skeleton path = running [wl] over any program that follows it *)
Lemma follows_run sk : forall p h h', Forall2 (act_sig rho) p (flat_map ev_sig sk) ->
  ev_run no_tol h sk = Some h' -> forall rest, wl Keqb (hmap rho h) (p ++ rest) = wl Keqb (hmap rho h') rest.
Proof.
  induction sk as [|e sk IH]; intros p h h' HF Hr rest; simpl in *.
  - inversion HF; subst. injection Hr as <-. reflexivity.
  - destruct (ev_step no_tol h e) as [h1|] eqn:E; [|discriminate].
    destruct e as [l|l|l|l w|l w|w]; simpl in HF, E.
    + inversion HF as [|a s p' ss Ha HF']; subst. destruct a; simpl in Ha; try contradiction. destruct Ha as [-> ->].
      simpl. rewrite hget_hmap. destruct (lget l h); [discriminate|]. injection E as <-.
      apply (IH p' ((l, Rm) :: h) h' HF' Hr).
    + inversion HF as [|a s p' ss Ha HF']; subst. destruct a; simpl in Ha; try contradiction. destruct Ha as [-> ->].
      simpl. rewrite hget_hmap. destruct (lget l h); [discriminate|]. injection E as <-.
      apply (IH p' ((l, Wm) :: h) h' HF' Hr).
    + inversion HF as [|a s p' ss Ha HF']; subst. destruct a; simpl in Ha; try contradiction. subst.
      simpl. rewrite hget_hmap. destruct (lget l h); [|discriminate]. injection E as <-.
      rewrite hrem_hmap. apply (IH p' _ h' HF' Hr).
    + inversion HF as [|a s p' ss Ha HF']; subst. destruct a; simpl in Ha; try contradiction. subst.
      simpl. rewrite hget_hmap. destruct (lget l h); [|discriminate]. injection E as <-.
      apply (IH p' _ h' HF' Hr).
    + inversion HF as [|a s p' ss Ha HF']; subst. destruct a; simpl in Ha; try contradiction. subst.
      simpl. rewrite hget_hmap. destruct (lget l h) as [[|]|]; try discriminate. injection E as <-.
      apply (IH p' _ h' HF' Hr).
    + injection E as <-. apply (IH p h h' HF Hr).
Qed.
End Rho.

(* a thread program made of calls: each call follows some well-locked skeleton path of an admitted
   function, with its own binding of parameter names to distinct tables *)
Inductive from_paths (okf : string -> bool) : list (act K St L) -> Prop :=
| fp_nil : from_paths okf []
| fp_call f sk rho p rest :
    In (f, sk) lock_skeletons -> okf f = true -> (forall a b, rho a = rho b -> a = b) ->
    follows rho p sk -> from_paths okf rest -> from_paths okf (p ++ rest).

Lemma from_paths_wl okf :
  (forall f sk, In (f, sk) lock_skeletons -> okf f = true -> well_locked sk = true) ->
  forall p, from_paths okf p -> wl Keqb [] p = true.
Proof.
  intros Hok p Hp. induction Hp as [|f sk rho p rest Hin Hf Hinj Hfol _ IH]; [reflexivity|].
  specialize (Hok f sk Hin Hf). unfold well_locked, well_locked_tol in Hok.
  destruct (ev_run no_tol [] sk) as [[|x h]|] eqn:E; try discriminate.
  change (@nil (K * mode)) with (hmap rho []).
  rewrite (follows_run rho Hinj sk p [] [] Hfol E rest). exact IH.
Qed.
End Link.

(* ---------------------------------------------------------------------------------------- *)
(* the instance: the checks evaluated on the translator's current output                     *)
Lemma instance_translation : skeleton_problems = [] /\ segments_faithful = true.
Proof. split; vm_compute; reflexivity. Qed.

Lemma instance_lifecycle : lifecycle_check = true.
Proof. vm_compute. reflexivity. Qed.

Lemma instance_outside_known : paths_check known_tol = true /\ progs_check known_tol = true.
Proof. split; vm_compute; reflexivity. Qed.

Lemma instance_decided :
  if paths_check (fun _ => no_tol) && progs_check (fun _ => no_tol)
  then paths_check (fun _ => no_tol) = true /\ progs_check (fun _ => no_tol) = true
  else ~ (paths_check (fun _ => no_tol) = true /\ progs_check (fun _ => no_tol) = true).
Proof.
  destruct (paths_check (fun _ => no_tol)), (progs_check (fun _ => no_tol)); simpl; auto;
    intros [? ?]; discriminate.
Qed.

Lemma find_none_names f (l : list (string * list string)) :
  in_names f (map fst l) = false -> find (fun p => String.eqb (fst p) f) l = None.
Proof.
  unfold in_names. induction l as [|[k v] l IH]; simpl; auto.
  intros H. apply orb_false_iff in H as [H1 H2]. rewrite String.eqb_sym. rewrite H1. auto.
Qed.

Lemma admitted_checked f : admitted f = true -> is_lifecycle f = false /\ known_tol f = no_tol.
Proof.
  unfold admitted. intros H. apply andb_true_iff in H as [H1 H2].
  apply negb_true_iff in H1. apply negb_true_iff in H2. split; auto.
  unfold known_tol. rewrite (find_none_names _ _ H2). reflexivity.
Qed.

Lemma instance_paths f sk : In (f, sk) lock_skeletons -> admitted f = true -> well_locked sk = true.
Proof.
  intros Hin Ha. destruct (admitted_checked _ Ha) as [Hl Hk].
  pose proof (proj1 instance_outside_known) as H. unfold paths_check in H.
  rewrite forallb_forall in H. specialize (H _ Hin). simpl in H. rewrite Hl, Hk in H. exact H.
Qed.

Lemma instance_race_free : forall (K : Type) (Keqb : K -> K -> bool), (forall a b, Keqb a b = true <-> a = b) ->
  forall (St L : Type) (s0 : store K St) (ts0 : pool K St L) s ts,
  (forall t, In t ts0 -> holds t = [] /\ from_paths K St L admitted (todo t)) ->
  steps Keqb (s0, ts0) (s, ts) -> ~ race ts.
Proof.
  intros K Keqb Hk St L s0 ts0 s ts H0 Hst.
  eapply (rw_race_free K Keqb Hk St L); [|exact Hst].
  intros t Ht. destruct (H0 t Ht) as [Hh Hf]. split; auto.
  eapply from_paths_wl; eauto. exact instance_paths.
Qed.

Lemma instance_all_iterations f p t o :
  In (f, p) lock_programs -> admitted f = true -> exec p t o -> o <> OBrk -> well_locked t = true.
Proof.
  intros Hin Ha Hx Ho. destruct (admitted_checked _ Ha) as [Hl Hk].
  pose proof (proj2 instance_outside_known) as H. unfold progs_check in H.
  rewrite forallb_forall in H. specialize (H _ Hin). simpl in H. rewrite Hl, Hk in H. simpl in H.
  exact (chk_prog_sound no_tol p t o H Hx Ho).
Qed.

(* ---------------------------------------------------------------------------------------- *)
(* Examples: the hypotheses of the theorems are satisfiable by non-trivial systems            *)
Section Examples.
Local Open Scope string_scope.
(* two readers and one writer on table "T" (a counter); results are collected in the local memory *)
Definition ex_read : op string nat (list nat) := mkOp "T" Rm [BRd (fun lc s => s :: lc)].
Definition ex_incr : op string nat (list nat) := mkOp "T" Wm [BRd (fun lc s => s :: lc); BWr (fun _ s => S s)].
Definition ex_ats : list (athread string nat (list nat)) :=
  [([ex_read; ex_read], []); ([ex_incr; ex_incr], []); ([ex_read], [])].

Example ex_ats_ok : Forall (fun a : athread string nat (list nat) => forallb op_ok (fst a) = true) ex_ats.
Proof. repeat constructor. Qed.

Example ex_initial : initial string String.eqb nat (list nat) (ainit string nat (list nat) ex_ats).
Proof. intros t [<-|[<-|[<-|[]]]]; split; reflexivity. Qed.

(* a thread program follows a skeleton path: same lock operations and accesses, parameter "t" bound to table "main",
   the callback and the labels forgotten *)
Example ex_follows :
  follows string nat unit (fun x => if String.eqb x "t" then "main" else x)
    [Acq "main" Rm; RwLock.Rd "main" (fun l _ => l); RwLock.Rd "main" (fun l _ => l); RwLock.Rel "main"]
    [AcqR "t"; LockSkeletons.Rd "t" ".ipv4"; LockSkeletons.Rd "t" "pfx_table_for_each_rec"; Cb "fp"; LockSkeletons.Rel "t"].
Proof. unfold follows. simpl. repeat constructor. Qed.
End Examples.

(* ---------------------------------------------------------------------------------------- *)
(* The sequential functions of the prefix-table operations are those of C01/C02 (Pfx/PfxTable.v):
   calls of the public functions as one-critical-section operations on a table named l.        *)
From RtrV Require Pfx.PfxTable.

Section PfxCalls.
Variable K : Type.
Variable Keqb : K -> K -> bool.

Inductive pfx_call :=
| CValidate (v6 : bool) (asn : BinNums.N) (q : TrieModel.addr) (qlen : nat)     (* pfx_table_validate_r *)
| CAdd (r : PfxTable.frecord)                                            (* pfx_table_add *)
| CRemove (r : PfxTable.frecord).                                        (* pfx_table_remove *)
Inductive pfx_result :=
| RValidated (res : TrieModel.vstate * list PfxTable.frecord)
| RCode (c : TrieModel.rc).

(* the answer of a call on table contents T, and the contents it leaves: the functions C01 / C02 are about *)
Definition call_result (c : pfx_call) (T : PfxTable.table) : pfx_result :=
  match c with
  | CValidate v6 asn q qlen => RValidated (PfxTable.tvalidate T v6 asn q qlen)
  | CAdd r => RCode (snd (fst (PfxTable.tadd T r)))
  | CRemove r => RCode (snd (fst (PfxTable.tremove T r)))
  end.
Definition call_effect (c : pfx_call) (T : PfxTable.table) : PfxTable.table :=
  match c with
  | CValidate _ _ _ _ => T
  | CAdd r => fst (fst (PfxTable.tadd T r))
  | CRemove r => fst (fst (PfxTable.tremove T r))
  end.

Definition call_op (l : K) (c : pfx_call) : RwLock.op K PfxTable.table (list pfx_result) :=
  match c with
  | CValidate _ _ _ _ => mkOp l Rm [BRd (fun lc T => lc ++ [call_result c T])]
  | _ => mkOp l Wm [BRd (fun lc T => lc ++ [call_result c T]); BWr (fun _ T => call_effect c T)]
  end.

Lemma call_op_ok l c : op_ok (call_op l c) = true.
Proof. destruct c; reflexivity. Qed.

Lemma call_ops_ok l cs : forallb op_ok (map (call_op l) cs) = true.
Proof. induction cs as [|c cs IH]; simpl; auto. rewrite call_op_ok. exact IH. Qed.

(* run alone, a call appends its sequential answer and applies its sequential effect to table l *)
Lemma call_op_seq l c lc (s : RwLock.store K PfxTable.table) :
  seq_op Keqb (call_op l c) lc s = (lc ++ [call_result c (s l)], upd Keqb s l (call_effect c (s l))).
Proof. destruct c; reflexivity. Qed.
End PfxCalls.

Lemma pfx_calls_spec : forall (K : Type) (Keqb : K -> K -> bool) l (c : pfx_call) lc (s : RwLock.store K PfxTable.table),
  op_ok (call_op K l c) = true /\
  seq_op Keqb (call_op K l c) lc s = (lc ++ [call_result c (s l)], upd Keqb s l (call_effect c (s l))) /\
  (forall v6 asn q qlen, call_result (CValidate v6 asn q qlen) = (fun T => RValidated (PfxTable.tvalidate T v6 asn q qlen))) /\
  (forall r, call_effect (CAdd r) = (fun T => fst (fst (PfxTable.tadd T r)))) /\
  (forall r, call_effect (CRemove r) = (fun T => fst (fst (PfxTable.tremove T r)))).
Proof.
  intros. split; [apply call_op_ok|]. split; [apply call_op_seq|]. repeat split.
Qed.
