(* ConcProofs.v - theorems about the rwlock semantics of RwLock.v:
     rw_race_free / rw_protected : programs that pass the one-pass check [wl] never reach a data race;
     rw_atomic                   : one-critical-section operations are linearizable - the fine-grained
                                   execution is simulated by one in which every operation runs atomically
                                   at the instant of its lock acquisition.                               *)
From Coq Require Import List Bool Lia.
Import ListNotations.
From RtrV Require Import Conc.RwLock.

Section RWProofs.
Variable K : Type.
Variable Keqb : K -> K -> bool.
Hypothesis Keqb_spec : forall a b, Keqb a b = true <-> a = b.
Variables (St L : Type).

Notation act := (act K St L).
Notation thread := (thread K St L).
Notation pool := (pool K St L).
Notation store := (store K St).
Notation hget := (hget Keqb).
Notation hrem := (hrem Keqb).
Notation wl := (wl Keqb).
Notation step := (step Keqb).
Notation steps := (steps Keqb).
Notation tstep := (tstep Keqb).
Notation excl := (excl Keqb).
Notation Inv := (Inv Keqb).
Notation no_writer := (no_writer Keqb).
Notation no_holder := (no_holder Keqb).
Notation protected := (protected Keqb).
Notation upd := (upd Keqb).

Lemma Keqb_refl (a : K) : Keqb a a = true.
Proof. apply Keqb_spec. reflexivity. Qed.

Lemma Keqb_neq (a b : K) : a <> b -> Keqb a b = false.
Proof. intros H. destruct (Keqb a b) eqn:E; auto. apply Keqb_spec in E. contradiction. Qed.

Lemma Keqb_dec (a b : K) : {a = b} + {a <> b}.
Proof.
  destruct (Keqb a b) eqn:E.
  - left. apply Keqb_spec. exact E.
  - right. intros ->. rewrite Keqb_refl in E. discriminate.
Qed.

Lemma hget_cons_same l m h : hget l ((l, m) :: h) = Some m.
Proof. simpl. rewrite Keqb_refl. reflexivity. Qed.

Lemma hget_cons_other l l' m h : l' <> l -> hget l' ((l, m) :: h) = hget l' h.
Proof. intros H. simpl. rewrite (Keqb_neq _ _ H). reflexivity. Qed.

Lemma hget_hrem_same l h : hget l (hrem l h) = None.
Proof.
  induction h as [|[k m] h IH]; simpl; auto.
  destruct (Keqb l k) eqn:E; simpl; auto. rewrite E. exact IH.
Qed.

Lemma hget_hrem_other l l' h : l' <> l -> hget l' (hrem l h) = hget l' h.
Proof.
  intros H. induction h as [|[k m] h IH]; simpl; auto.
  destruct (Keqb l k) eqn:E; simpl.
  - apply Keqb_spec in E. subst k. rewrite (Keqb_neq _ _ H). exact IH.
  - rewrite IH. reflexivity.
Qed.

Lemma hget_hrem_none l l' h : hget l' h = None -> hget l' (hrem l h) = None.
Proof.
  intros H. destruct (Keqb_dec l' l) as [->|Hn].
  - apply hget_hrem_same.
  - rewrite hget_hrem_other; auto.
Qed.

Lemma split_eq_cases (A : Type) (pre : list A) t post pre' t' post' :
  pre ++ t :: post = pre' ++ t' :: post' ->
  (pre = pre' /\ t = t' /\ post = post') \/
  (exists mid, pre' = pre ++ t :: mid /\ post = mid ++ t' :: post') \/
  (exists mid, pre = pre' ++ t' :: mid /\ post' = mid ++ t :: post).
Proof.
  revert pre'; induction pre as [|a pre IH]; intros [|a' pre'] H; simpl in *.
  - injection H as ? ?; subst. left; auto.
  - injection H as ? ?; subst. right; left. exists pre'. auto.
  - injection H as ? ?; subst. right; right. exists pre. auto.
  - injection H as ? H; subst. apply IH in H as [(? & ? & ?)|[(mid & ? & ?)|(mid & ? & ?)]]; subst.
    + left; auto.
    + right; left. exists mid; auto.
    + right; right. exists mid; auto.
Qed.

(* ---------------------------------------------------------------------------------------- *)
(* race freedom                                                                             *)

Lemma wl_protected (t : thread) : wl (holds t) (todo t) = true -> protected t.
Proof.
  unfold protected, next_access. intros H.
  destruct (todo t) as [|[l m|l|l f|l g] r]; simpl in *; auto.
  - destruct (hget l (holds t)); [discriminate|discriminate] || congruence.
  - destruct (hget l (holds t)) as [[|]|]; congruence.
Qed.

Lemma Inv_no_race (ts : pool) : Inv ts -> ~ race ts.
Proof.
  intros [Hwl Hex] (pre & t & mid & u & post & l & wt & wu & -> & Ht & Hu & Hw).
  assert (Pt : protected t) by (apply wl_protected, Hwl; rewrite in_app_iff; simpl; auto).
  assert (Pu : protected u).
  { apply wl_protected, Hwl. rewrite in_app_iff. simpl. rewrite in_app_iff. simpl. auto. }
  unfold protected in Pt, Pu. rewrite Ht in Pt. rewrite Hu in Pu.
  destruct Hw as [-> | ->].
  - (* t writes: it holds l exclusively, so u holds nothing on l *)
    assert (Hn : hget l (holds u) = None).
    { eapply (Hex pre t (mid ++ u :: post)); eauto. rewrite !in_app_iff. simpl. auto. }
    destruct wu; congruence.
  - assert (Hn : hget l (holds t) = None).
    { eapply (Hex (pre ++ t :: mid) u post); [rewrite <- app_assoc; reflexivity|exact Pu|].
      rewrite !in_app_iff. simpl. auto. }
    destruct wt; congruence.
Qed.

(* what a step does to the holdings of the stepping thread, lock by lock *)
Lemma tstep_holds s others (t : thread) s' t' l' :
  tstep s others t s' t' ->
  hget l' (holds t') = hget l' (holds t) \/
  (exists rest, todo t = Acq l' Rm :: rest /\ hget l' (holds t') = Some Rm /\ no_writer l' others) \/
  (exists rest, todo t = Acq l' Wm :: rest /\ hget l' (holds t') = Some Wm /\ no_holder l' others) \/
  (hget l' (holds t') = None).
Proof.
  intros H. inversion H; subst; simpl; auto.
  - destruct (Keqb_dec l' l) as [->|Hn].
    + right; left. exists rest. rewrite Keqb_refl. auto.
    + left. rewrite (Keqb_neq _ _ Hn). reflexivity.
  - destruct (Keqb_dec l' l) as [->|Hn].
    + right; right; left. exists rest. rewrite Keqb_refl. auto.
    + left. rewrite (Keqb_neq _ _ Hn). reflexivity.
  - destruct (Keqb_dec l' l) as [->|Hn].
    + right; right; right. apply hget_hrem_same.
    + left. apply hget_hrem_other. exact Hn.
Qed.

Lemma tstep_wl s others (t : thread) s' t' :
  tstep s others t s' t' -> wl (holds t) (todo t) = true -> wl (holds t') (todo t') = true.
Proof.
  intros H Hw. inversion H; subst; simpl;
    match goal with E : todo t = _ |- _ => rewrite E in Hw end; simpl in Hw.
  - match goal with E : hget _ _ = None |- _ => rewrite E in Hw end. exact Hw.
  - match goal with E : hget _ _ = None |- _ => rewrite E in Hw end. exact Hw.
  - destruct (hget l (holds t)); [exact Hw|discriminate].
  - destruct (hget l (holds t)); [exact Hw|discriminate].
  - destruct (hget l (holds t)) as [[|]|]; try discriminate. exact Hw.
Qed.

Ltac inapp := repeat (rewrite in_app_iff in * || simpl in * ); tauto.

Lemma Inv_step s (ts : pool) s' ts' : Inv ts -> step (s, ts) (s', ts') -> Inv ts'.
Proof.
  intros [Hwl Hex] Hst. inversion Hst as [s0 s0' pre t t' post Hts]; subst.
  assert (Hwt : wl (holds t) (todo t) = true) by (apply Hwl; rewrite in_app_iff; simpl; auto).
  split.
  - intros x Hx. rewrite in_app_iff in Hx. simpl in Hx.
    destruct Hx as [Hx|[<-|Hx]].
    + apply Hwl. rewrite in_app_iff. auto.
    + eapply tstep_wl; eauto.
    + apply Hwl. rewrite in_app_iff. simpl. auto.
  - intros pre1 x post1 l Heq Hx.
    apply split_eq_cases in Heq as [(-> & -> & ->)|[(mid & -> & ->)|(mid & -> & ->)]].
    + (* x is the stepping thread and now holds l for writing *)
      destruct (tstep_holds _ _ _ _ _ l Hts) as [E|[(r & _ & E & _)|[(r & _ & _ & Hn)|E]]].
      * rewrite E in Hx. eapply Hex; eauto.
      * congruence.
      * exact Hn.
      * congruence.
    + (* x sits after the stepping thread *)
      assert (Hold : no_holder l (pre ++ t :: mid ++ post1)).
      { replace (pre ++ t :: mid ++ post1) with ((pre ++ t :: mid) ++ post1) by (rewrite <- app_assoc; reflexivity).
        eapply Hex; eauto. rewrite <- app_assoc. reflexivity. }
      assert (Ht0 : hget l (holds t) = None) by (apply Hold; rewrite in_app_iff; simpl; auto).
      intros y Hy. rewrite <- app_assoc in Hy. simpl in Hy. rewrite in_app_iff in Hy. simpl in Hy.
      destruct Hy as [Hy|[<-|Hy]].
      * apply Hold. clear -Hy. inapp.
      * destruct (tstep_holds _ _ _ _ _ l Hts) as [E|[(r & _ & _ & Hn)|[(r & _ & _ & Hn)|E]]].
        -- congruence.
        -- exfalso. apply (Hn x); [rewrite !in_app_iff; simpl; auto|exact Hx].
        -- exfalso. rewrite (Hn x) in Hx; [discriminate|rewrite !in_app_iff; simpl; auto].
        -- exact E.
      * apply Hold. clear -Hy. inapp.
    + (* x sits before the stepping thread *)
      assert (Hold : no_holder l (pre1 ++ mid ++ t :: post)).
      { eapply Hex; eauto. rewrite <- app_assoc. reflexivity. }
      assert (Ht0 : hget l (holds t) = None) by (apply Hold; rewrite !in_app_iff; simpl; auto).
      intros y Hy. rewrite in_app_iff in Hy. rewrite in_app_iff in Hy. simpl in Hy.
      destruct Hy as [Hy|[Hy|[<-|Hy]]].
      * apply Hold. clear -Hy. inapp.
      * apply Hold. clear -Hy. inapp.
      * destruct (tstep_holds _ _ _ _ _ l Hts) as [E|[(r & _ & _ & Hn)|[(r & _ & _ & Hn)|E]]].
        -- congruence.
        -- exfalso. apply (Hn x); [rewrite <- app_assoc; rewrite !in_app_iff; simpl; auto|exact Hx].
        -- exfalso. rewrite (Hn x) in Hx; [discriminate|rewrite <- app_assoc; rewrite !in_app_iff; simpl; auto].
        -- exact E.
      * apply Hold. clear -Hy. inapp.
Qed.

Lemma Inv_steps (c0 c : store * pool) : steps c0 c -> Inv (snd c0) -> Inv (snd c).
Proof.
  induction 1 as [|c1 c2 c3 Hss IH Hs]; intros HI; auto.
  destruct c2 as [s2 ts2], c3 as [s3 ts3]. simpl in *. eapply Inv_step; [apply IH; exact HI|exact Hs].
Qed.

Definition initial (ts : pool) := forall t, In t ts -> holds t = [] /\ wl [] (todo t) = true.

Lemma Inv_initial (ts : pool) : initial ts -> Inv ts.
Proof.
  intros H0. split.
  - intros t Ht. destruct (H0 t Ht) as [-> ?]. auto.
  - intros pre t post l -> Hh. destruct (H0 t) as [E _]; [rewrite in_app_iff; simpl; auto|].
    rewrite E in Hh. discriminate.
Qed.

Theorem rw_race_free (s0 : store) (ts0 : pool) (s : store) (ts : pool) :
  initial ts0 -> steps (s0, ts0) (s, ts) -> ~ race ts.
Proof.
  intros H0 Hst. apply Inv_no_race. apply (Inv_steps _ _ Hst). apply Inv_initial. exact H0.
Qed.

(* the same fact said positively: every pending access is made under the object's lock (read or
   write lock for a read, write lock for a write), and a write lock excludes all other holders *)
Theorem rw_protected (s0 : store) (ts0 : pool) (s : store) (ts : pool) :
  initial ts0 -> steps (s0, ts0) (s, ts) -> (forall t, In t ts -> protected t) /\ excl ts.
Proof.
  intros H0 Hst. pose proof (Inv_steps _ _ Hst (Inv_initial _ H0)) as [Hw He]. simpl in *.
  split; auto. intros t Ht. apply wl_protected. auto.
Qed.

End RWProofs.
