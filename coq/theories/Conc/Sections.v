(* Sections.v - how many critical sections each public table function performs on a call path
   (loops taken 0 and 1 times), computed on the lock skeletons regenerated from /repo.
   rw_atomic (C16) speaks about operations that are ONE critical section per table; an operation that
   releases and re-takes the lock in the middle of its update exposes intermediate states to readers
   although every single access stays protected.  The bounds below are what the operations are meant
   to be; a change of the locking structure has to be reviewed against them. *)
From Coq Require Import List String Ascii Arith Bool.
From RtrV Require Import Gen.LockSkeletons.
Import ListNotations.
Local Open Scope string_scope.

Definition is_acq (e : lk_event) : bool := match e with AcqR _ | AcqW _ => true | _ => false end.
Definition sections (p : list lk_event) : nat := List.length (filter is_acq p).

Definition base_name (s : string) : string :=
  (fix go (s : string) := match s with
                          | EmptyString => EmptyString
                          | String c r => if Ascii.eqb c (Ascii.ascii_of_nat 64) then EmptyString else String c (go r)
                          end) s.

(* the operations readers and the single writer perform concurrently (the reload helpers copy / notify_diff,
   which work on a private shadow table, are covered by C06 and left out here: their path sets are large) *)
Definition single_ops : list string :=
  ["pfx_table_add"; "pfx_table_remove"; "pfx_table_validate_r"; "pfx_table_validate"; "pfx_table_src_remove";
   "pfx_table_for_each_ipv4_record"; "pfx_table_for_each_ipv6_record"; "pfx_table_swap";
   "spki_table_add_entry"; "spki_table_get_all"; "spki_table_search_by_ski"; "spki_table_remove_entry";
   "spki_table_src_remove"; "spki_table_swap"].

(* (function, most critical sections on any listed path); the skeleton list is evaluated once *)
Definition section_table : list (string * nat) :=
  let sk := map (fun '(g, p) => (g, sections p))
                (filter (fun '(g, _) => existsb (String.eqb g) single_ops) lock_skeletons) in
  map (fun f => (f, fold_left Nat.max (map snd (filter (fun '(g, _) => String.eqb g f) sk)) 0)) single_ops.

(* one critical section per table per call: add / remove / lookups / enumeration take the table's lock once;
   remove-by-source once per address family (prefix table: 2), the router-key table once; swap locks both tables *)
Definition expected_sections : list (string * nat) :=
  [("pfx_table_add", 1); ("pfx_table_remove", 1); ("pfx_table_validate_r", 1); ("pfx_table_validate", 1);
   ("pfx_table_src_remove", 2); ("pfx_table_for_each_ipv4_record", 1); ("pfx_table_for_each_ipv6_record", 1);
   ("pfx_table_swap", 2); ("spki_table_add_entry", 1); ("spki_table_get_all", 1); ("spki_table_search_by_ski", 1);
   ("spki_table_remove_entry", 1); ("spki_table_src_remove", 1); ("spki_table_swap", 2)].

Lemma sections_as_expected : section_table = expected_sections.
Proof. vm_compute. reflexivity. Qed.

(* The helpers that the skeletons count as one access of the table take and release no lock themselves
   (counted by the translator from their bodies in the current source). *)
Definition helpers_lock_free : bool := forallb (fun x => Nat.eqb (snd x) 0) helper_lock_calls.
Lemma helpers_are_lock_free : helpers_lock_free = true /\ 8 <= List.length helper_lock_calls.
Proof. split; [vm_compute; reflexivity|vm_compute; repeat constructor]. Qed.

(* The helpers that the skeletons count as a READ of the table store nothing into memory they were handed - counted by
   the translator in their bodies and, transitively, their callees' (trie.c, tommyhashlin.c, tommylist.c included).
   Two of them fill a result array for their caller: pfx_table_node2pfx_record (5 field stores into `records`) and
   trie_get_children (3 stores into the array it allocates and the caller's pointer to it); the only callees without
   a body in the library are the allocator entry points. *)
Definition reader_store_allowance (h : string) : nat :=
  if String.eqb h "pfx_table_node2pfx_record" then 5
  else if String.eqb h "trie_get_children" then 3 else 0.
Definition readers_store_nothing : bool :=
  forallb (fun x => match x with
                    | (h, n, unk) =>
                      Nat.eqb n (reader_store_allowance h) &&
                      forallb (fun u => existsb (String.eqb u) ["lrtr_free"; "lrtr_realloc"; "lrtr_malloc"]) unk
                    end) reader_helper_stores.
Lemma readers_are_readers : readers_store_nothing = true /\ 12 <= List.length reader_helper_stores.
Proof. split; [vm_compute; reflexivity|vm_compute; repeat constructor]. Qed.
