(* Reload.v - C06: a full reload replaces a cache's data atomically for concurrent readers.

   Part A (generic, on top of rw_atomic): one synchronising thread runs an arbitrary list of operations
   [sync_ops]; any number of reader threads run arbitrary lists of queries, each query one critical section under
   the READ lock of the table it asks.  Then every answer a reader has obtained equals its query evaluated on the
   tables as left by some PREFIX of [sync_ops] run sequentially, and along each reader's own sequence of queries
   these prefixes never get shorter.
   Part B: if [sync_ops] writes table l in exactly one operation (the swap), the tables-after-a-prefix take only
   two values at l: the complete OLD contents and the complete NEW contents.  Hence every answer is the OLD or
   the NEW answer, a query whose answer is the same under both gets that answer always, and per table a reader
   never sees NEW and afterwards OLD.
   Part C (sequential reload model, Rtr/RtrModel.v): in reset mode [process_eod] leaves the main tables either
   untouched, or replaced as a whole by the new set (success), or purged of this socket's records (the fallback
   after a failed rollback); and a Cache Response that follows a Cache Reset / session change on a socket that
   holds data puts the socket in reset mode.                                                                  *)
From Coq Require Import List Bool Lia Arith.
Import ListNotations.
From RtrV Require Import Conc.RwLock Conc.ConcProofs.

Lemma Forall2_weaken {A B} (R R' : A -> B -> Prop) l l' :
  (forall a b, R a b -> R' a b) -> Forall2 R l l' -> Forall2 R' l l'.
Proof. intros H. induction 1; constructor; auto. Qed.

Section ReloadGeneric.
Variable K : Type.
Variable Keqb : K -> K -> bool.
Hypothesis Keqb_spec : forall a b, Keqb a b = true <-> a = b.
Variables (St Ans P : Type).     (* table contents; answers; private data of the synchronising thread (shadow tables) *)

Definition L : Type := (list Ans * P)%type.
Notation op := (op K St L).
Notation store := (store K St).
Notation athread := (athread K St L).

(* a query: which table, and the function of its contents that is the answer (validation state and reasons for a
   route, the router keys of an (AS, SKI) pair, the enumeration, ...) *)
Definition query : Type := (K * (St -> Ans))%type.
Definition qop (q : query) : op :=
  mkOp (fst q) Rm [BRd (fun (lc : L) s => (fst lc ++ [snd q s], snd lc))].

Variable sync_ops : list op.
Hypothesis sync_ok : forallb op_ok sync_ops = true.
Variable s0 : store.
Variable p0 : P.

Definition seq_run (os : list op) (x : L * store) : L * store :=
  fold_left (fun x o => seq_op Keqb o (fst x) (snd x)) os x.
Definition init : L * store := (([], p0), s0).
(* the tables after the first j operations of the synchronising thread, run alone *)
Definition ver (j : nat) : store := snd (seq_run (firstn j sync_ops) init).

(* what a reader may have seen: answer number i was computed on ver j_i, and j_1 <= j_2 <= ... *)
Inductive rlog : nat -> list query -> list Ans -> Prop :=
| rl_nil : rlog 0 [] []
| rl_snoc j j' qs ans q : rlog j qs ans -> j <= j' -> j' <= length sync_ops ->
    rlog j' (qs ++ [q]) (ans ++ [snd q (ver j' (fst q))]).

Variable readers : list (list query).
Definition ats0 : list athread :=
  (sync_ops, ([], p0)) :: map (fun qs => (map qop qs, ([], p0))) readers.

(* ---- atomic level ---- *)
Definition reader_ok (done : nat) (qs0 : list query) (a : athread) : Prop :=
  exists dq rq j, qs0 = dq ++ rq /\ fst a = map qop rq /\ rlog j dq (fst (snd a)) /\ j <= done.

Definition J (ca : store * list athread) : Prop :=
  exists done rem lc rs,
    snd ca = (rem, lc) :: rs /\ sync_ops = done ++ rem /\
    lc = fst (seq_run done init) /\
    (forall k, fst ca k = snd (seq_run done init) k) /\
    Forall2 (reader_ok (length done)) readers rs.

Lemma seq_run_app a b x : seq_run (a ++ b) x = seq_run b (seq_run a x).
Proof. unfold seq_run. apply fold_left_app. Qed.

Lemma seq_op_ext (o : op) lc (s s' : store) : (forall k, s k = s' k) ->
  fst (seq_op Keqb o lc s) = fst (seq_op Keqb o lc s') /\ forall k, snd (seq_op Keqb o lc s) k = snd (seq_op Keqb o lc s') k.
Proof.
  intros H. unfold seq_op. simpl. rewrite (H (olock o)). split; auto.
  intros k. unfold upd. destruct (Keqb k (olock o)); auto.
Qed.

Lemma reader_ok_mono d d' qs a : d <= d' -> reader_ok d qs a -> reader_ok d' qs a.
Proof. intros Hd (dq & rq & j & ? & ? & ? & ?). exists dq, rq, j. repeat split; auto. lia. Qed.

Lemma J_init : J (s0, ats0).
Proof.
  exists [], sync_ops, ([], p0), (map (fun qs => (map qop qs, ([], p0))) readers). simpl.
  repeat split; auto.
  induction readers as [|qs r IH]; simpl; constructor; auto.
  exists [], qs, 0. simpl. repeat split; auto. constructor.
Qed.

Lemma J_step ca ca' : J ca -> astep Keqb ca ca' -> J ca'.
Proof.
  intros (done & rem & lc & rs & Hts & Hso & Hlc & Hst & Hrs) Hstep.
  inversion Hstep as [s pre o rest lc1 post E1 E2]; subst. simpl in *.
  destruct pre as [|a0 pre]; simpl in Hts.
  - (* the synchronising thread runs its next operation *)
    injection Hts as E1 E2 E3. subst.
    exists (done ++ [o]), rest, (fst (seq_op Keqb o (fst (seq_run done init)) s)), rs.
    destruct (seq_op_ext o (fst (seq_run done init)) s (snd (seq_run done init)) Hst) as [X1 X2].
    split; [reflexivity|]. split; [rewrite <- app_assoc; exact Hso|].
    split; [rewrite seq_run_app; simpl; exact X1|].
    split.
    + intros k. rewrite seq_run_app. simpl. apply X2.
    + eapply Forall2_weaken; [|exact Hrs]. intros qs a. apply reader_ok_mono. rewrite app_length. simpl. lia.
  - (* a reader runs its next query *)
    injection Hts as E1 E2. subst a0 rs.
    apply Forall2_app_inv_r in Hrs as (r1 & r2 & H1 & H2 & Hr).
    inversion H2 as [|qs0 a r2' ? Ha H2']; subst. clear H2.
    destruct Ha as (dq & rq & j & -> & Hops & Hlog & Hj). simpl in Hops.
    destruct rq as [|q rq]; [discriminate|]. simpl in Hops. injection Hops as -> ->.
    exists done, rem, (fst (seq_run done init)), (pre ++ (map qop rq, fst (seq_op Keqb (qop q) lc1 s)) :: post). simpl.
    repeat split; auto.
    + intros k. unfold seq_op. simpl. rewrite <- Hst. unfold upd. destruct (Keqb k (fst q)) eqn:E; auto.
      apply Keqb_spec in E. subst. reflexivity.
    + rewrite Hr. apply Forall2_app; [exact H1|constructor; [|exact H2']].
      exists (dq ++ [q]), rq, (length done). simpl. repeat split.
      * rewrite <- app_assoc. reflexivity.
      * assert (Ev : s (fst q) = ver (length done) (fst q)).
        { rewrite Hst. unfold ver. rewrite Hso. rewrite firstn_app, firstn_all, Nat.sub_diag. simpl. rewrite app_nil_r. reflexivity. }
        rewrite Ev. eapply rl_snoc; eauto. rewrite Hso, app_length. lia.
      * lia.
Qed.

Lemma J_steps ca : asteps Keqb (s0, ats0) ca -> J ca.
Proof.
  intros H. remember (s0, ats0) as c0 eqn:E. induction H as [c|c1 c2 c3 _ IH Hs].
  - subst. apply J_init.
  - eapply J_step; eauto.
Qed.

Lemma ats0_ok : Forall (fun a : athread => forallb op_ok (fst a) = true) ats0.
Proof.
  unfold ats0. constructor; [exact sync_ok|].
  apply Forall_forall. intros a Ha. apply in_map_iff in Ha as (qs & <- & _). simpl.
  induction qs as [|q qs IH]; simpl; auto.
Qed.

(* ---- fine-grained level: every schedule of the real, interleaved threads ---- *)
Definition reader_sees (qs0 : list query) (t : thread K St L) : Prop :=
  holds t = [] ->
  exists dq rq j, qs0 = dq ++ rq /\ todo t = compile_all (map qop rq) /\ rlog j dq (fst (loc t)).

Theorem reload_general (c : store * pool K St L) :
  steps Keqb (s0, ainit K St L ats0) c -> Forall2 reader_sees readers (tl (snd c)).
Proof.
  intros Hst.
  destruct (rw_atomic K Keqb Keqb_spec St L s0 ats0 c ats0_ok Hst) as (ca & Has & Hsim).
  destruct (J_steps ca Has) as (done & rem & lc & rs & Hts & _ & _ & _ & Hrs).
  destruct (simrel_meaning K Keqb St L c ca Hsim) as [HF _].
  rewrite Hts in HF. inversion HF as [|t0 a0 ts' ? _ HF' E1]; subst. simpl.
  clear -Hrs HF'. revert ts' HF'. induction Hrs as [|qs a rd rs' Hqa _ IH]; intros ts' HF'; inversion HF'; subst; constructor.
  - intros Hh. destruct Hqa as (dq & rq & j & -> & Hops & Hlog & _).
    match goal with H : (holds _ = [] -> _) /\ _ |- _ => destruct H as [Hi _]; destruct (Hi Hh) as [Ht Hl] end.
    exists dq, rq, j. rewrite Ht, Hops, Hl. auto.
  - apply IH. assumption.
Qed.

(* ---- Part B: tables written in exactly one operation ---- *)
Definition writes_tab (l : K) (o : op) : bool :=
  Keqb (olock o) l && match omode o with Wm => true | Rm => false end.

Lemma seq_op_keeps (o : op) lc (s : store) l : op_ok o = true -> writes_tab l o = false -> snd (seq_op Keqb o lc s) l = s l.
Proof.
  intros Hok Hw. unfold seq_op. simpl. unfold upd. destruct (Keqb l (olock o)) eqn:E; auto.
  apply Keqb_spec in E. subst l. unfold writes_tab in Hw. rewrite (proj2 (Keqb_spec _ _) eq_refl) in Hw. simpl in Hw.
  unfold op_ok in Hok. destruct (omode o); [|discriminate]. apply run_body_reads. exact Hok.
Qed.

Lemma seq_run_keeps os l : forall x, forallb op_ok os = true -> forallb (fun o => negb (writes_tab l o)) os = true ->
  snd (seq_run os x) l = snd x l.
Proof.
  induction os as [|o os IH]; intros x Hok Hw; simpl in *; auto.
  apply andb_true_iff in Hok as [Ho Hos]. apply andb_true_iff in Hw as [Hwo Hws]. apply negb_true_iff in Hwo.
  unfold seq_run in IH. rewrite IH; auto. simpl. apply seq_op_keeps; auto.
Qed.

(* table l takes only two values along the reload: OLD up to and including the i-th prefix, NEW afterwards *)
Definition once (l : K) (i : nat) : Prop :=
  forall j, ver j l = if j <=? i then s0 l else ver (length sync_ops) l.

Lemma forallb_firstn {A} (f : A -> bool) n l : forallb f l = true -> forallb f (firstn n l) = true.
Proof.
  revert n. induction l as [|a l IH]; intros [|n] H; simpl in *; auto.
  apply andb_true_iff in H as [Ha Hl]. rewrite Ha. simpl. auto.
Qed.

Theorem written_once l pre w post :
  sync_ops = pre ++ w :: post ->
  forallb (fun o => negb (writes_tab l o)) (pre ++ post) = true ->
  once l (length pre).
Proof.
  intros Hs Hw j. rewrite forallb_app in Hw. apply andb_true_iff in Hw as [Hpre Hpost].
  assert (Hok : forallb op_ok pre = true /\ op_ok w = true /\ forallb op_ok post = true).
  { pose proof sync_ok as H. rewrite Hs, forallb_app in H. simpl in H.
    apply andb_true_iff in H as [H1 H2]. apply andb_true_iff in H2 as [H2 H3]. auto. }
  destruct Hok as (Ok1 & Ok2 & Ok3).
  assert (Hafter : forall n, ver (length pre + 1 + n) l = snd (seq_run (pre ++ [w]) init) l).
  { intros n. unfold ver. rewrite Hs.
    replace (pre ++ w :: post) with ((pre ++ [w]) ++ post) by (rewrite <- app_assoc; reflexivity).
    rewrite firstn_app. rewrite app_length. simpl.
    replace (length pre + 1 + n - (length pre + 1)) with n by lia.
    rewrite firstn_all2 by (rewrite app_length; simpl; lia).
    rewrite seq_run_app. apply seq_run_keeps; apply forallb_firstn; auto. }
  destruct (j <=? length pre) eqn:E.
  - apply Nat.leb_le in E. unfold ver. rewrite Hs. rewrite firstn_app.
    replace (j - length pre) with 0 by lia. simpl. rewrite app_nil_r.
    unfold init. rewrite seq_run_keeps; auto; apply forallb_firstn; auto.
  - apply Nat.leb_gt in E.
    replace j with (length pre + 1 + (j - length pre - 1)) by lia. rewrite Hafter.
    replace (length sync_ops) with (length pre + 1 + length post).
    + rewrite Hafter. reflexivity.
    + rewrite Hs, app_length. simpl. lia.
Qed.

(* ---- the C06 statement proper ---- *)
Definition old_tab (l : K) : St := s0 l.
Definition new_tab (l : K) : St := ver (length sync_ops) l.

(* a reader's answers: answer i is the query on the complete OLD or the complete NEW table; [ph l] tells whether
   table l has already been seen NEW, and along the log it can only switch from OLD to NEW, per table *)
Inductive olog : (K -> bool) -> list query -> list Ans -> Prop :=
| ol_nil ph : (forall l, ph l = false) -> olog ph [] []
| ol_snoc ph ph' qs ans q : olog ph qs ans -> (forall l, ph l = true -> ph' l = true) ->
    olog ph' (qs ++ [q]) (ans ++ [snd q (if ph' (fst q) then new_tab (fst q) else old_tab (fst q))]).

Variable idx : K -> nat.

Lemma rlog_olog j qs ans : rlog j qs ans -> (forall q, In q qs -> once (fst q) (idx (fst q))) ->
  olog (fun l => negb (j <=? idx l)) qs ans.
Proof.
  induction 1 as [|j j' qs ans q Hl IH Hjj Hlen]; intros Hon.
  - constructor. intros l. reflexivity.
  - assert (E : snd q (ver j' (fst q)) =
                snd q (if negb (j' <=? idx (fst q)) then new_tab (fst q) else old_tab (fst q))).
    { rewrite (Hon q) by (rewrite in_app_iff; simpl; auto). unfold new_tab, old_tab.
      destruct (j' <=? idx (fst q)); reflexivity. }
    rewrite E.
    apply (ol_snoc (fun l => negb (j <=? idx l)) (fun l => negb (j' <=? idx l))).
    + apply IH. intros q' Hq'. apply Hon. rewrite in_app_iff. auto.
    + intros l Hl'. apply negb_true_iff in Hl'. apply Nat.leb_gt in Hl'. apply negb_true_iff. apply Nat.leb_gt. lia.
Qed.

Lemma olog_old_or_new ph qs ans : olog ph qs ans ->
  Forall2 (fun q a => a = snd q (old_tab (fst q)) \/ a = snd q (new_tab (fst q))) qs ans.
Proof.
  induction 1 as [|ph ph' qs ans q _ IH _]; [constructor|].
  apply Forall2_app; [exact IH|]. constructor; [|constructor]. destruct (ph' (fst q)); auto.
Qed.

Lemma olog_same ph qs ans : olog ph qs ans ->
  Forall2 (fun q a => snd q (old_tab (fst q)) = snd q (new_tab (fst q)) -> a = snd q (old_tab (fst q))) qs ans.
Proof.
  induction 1 as [|ph ph' qs ans q _ IH _]; [constructor|].
  apply Forall2_app; [exact IH|]. constructor; [|constructor]. intros E. destruct (ph' (fst q)); congruence.
Qed.

(* C06 for every schedule: a reader that is between two queries has, for the queries it has completed, answers
   that form an [olog]: each is the OLD or the NEW answer, and per table never NEW and later OLD *)
Definition reader_sees_old_new (qs0 : list query) (t : thread K St L) : Prop :=
  holds t = [] ->
  exists dq rq ph, qs0 = dq ++ rq /\ todo t = compile_all (map qop rq) /\ olog ph dq (fst (loc t)).

Lemma sees_old_new rd ts : Forall2 reader_sees rd ts ->
  (forall qs q, In qs rd -> In q qs -> once (fst q) (idx (fst q))) -> Forall2 reader_sees_old_new rd ts.
Proof.
  induction 1 as [|qs t rd' ts' Hqt _ IH]; intros Hon; constructor.
  - intros Hh. destruct (Hqt Hh) as (dq & rq & j & -> & Ht & Hl).
    exists dq, rq, (fun l => negb (j <=? idx l)). repeat split; auto.
    apply rlog_olog; auto. intros q Hq. apply (Hon (dq ++ rq)); [simpl; auto|rewrite in_app_iff; auto].
  - apply IH. intros qs' q Hq'. apply Hon. simpl. auto.
Qed.

Theorem reload_atomic_for_readers (c : store * pool K St L) :
  (forall qs q, In qs readers -> In q qs -> once (fst q) (idx (fst q))) ->
  steps Keqb (s0, ainit K St L ats0) c -> Forall2 reader_sees_old_new readers (tl (snd c)).
Proof. intros Hon Hst. apply sees_old_new; auto. apply reload_general. exact Hst. Qed.
End ReloadGeneric.

(* ======================================================================================== *)
(* Part C: the sequential reload model (Rtr/RtrModel.v)                                       *)
From RtrV Require Import Base.CSem Gen.Generated Rtr.RtrModel Rtr.RelFrame.
Local Open Scope Z_scope.

(* frame: the tables and the reset-mode flag are untouched *)
Definition Fr (w w' : world) : Prop :=
  pfx w' = pfx w /\ keys w' = keys w /\ resetting (sk w') = resetting (sk w) /\
  req_sess (sk w') = req_sess (sk w) /\ last_update (sk w') = last_update (sk w).
Lemma Fr_refl w : Fr w w. Proof. unfold Fr; auto. Qed.
Lemma Fr_trans a b c : Fr a b -> Fr b c -> Fr a c.
Proof. unfold Fr. intros (A1 & A2 & A3 & A4 & A5) (B1 & B2 & B3 & B4 & B5). repeat split; congruence. Qed.

Notation relF := (rel Fr).
Ltac ffin := unfold Fr; cbn [sk pfx keys resetting req_sess last_update upd_st upd_version upd_session upd_req upd_serial upd_last upd_ivs upd_hasrecv]; auto.
Ltac fbind := apply (rel_bind Fr Fr_trans).
Ltac fprim := unfold rel; unfold_prims; ffin.
Ltac fstep :=
  match goal with
  | |- relF (ret _) _ => apply (rel_ret Fr Fr_refl)
  | |- relF (bind get_sk _) ?w => fbind; [fprim | let H := fresh "Heq" in intros ? ? H; unfold_prims_in H; injection H as <- <-]
  | |- relF (bind get_now _) ?w => fbind; [fprim | let H := fresh "Heq" in intros ? ? H; unfold_prims_in H; injection H as <- <-]
  | |- relF (bind get_w _) ?w => fbind; [fprim | let H := fresh "Heq" in intros ? ? H; unfold_prims_in H; injection H as <- <-]
  | |- relF (bind _ _) ?w => fbind; [ | intros ? ? _]
  | |- relF (if ?c then _ else _) _ => destruct c eqn:?
  | |- relF (match ?x with _ => _ end) _ => destruct x eqn:?
  | |- relF ((fun _ => _) _) _ => cbv beta
  | |- relF (let _ := _ in _) _ => cbv zeta
  end.

Lemma change_state_F ns w : relF (change_state ns) w.
Proof. unfold change_state. repeat fstep; try fprim. Qed.

Lemma tr_recv_F len t w : relF (tr_recv len t) w.
Proof.
  unfold rel, tr_recv. destruct (tr_recv_evs _ _ _ _ _) as [[[[[c|b]|] es] t'] tr]; try destruct (c =? -99); ffin.
Qed.

Lemma tr_recv_all_loop_F fuel : forall len e acc w, relF (tr_recv_all_loop fuel len e acc) w.
Proof.
  induction fuel as [|f IH]; intros; cbn [tr_recv_all_loop]; [apply (rel_ret Fr Fr_refl)|].
  repeat fstep; try apply tr_recv_F; try apply IH.
Qed.

Lemma tr_recv_all_F len t w : relF (tr_recv_all len t) w.
Proof. unfold tr_recv_all. repeat fstep. apply tr_recv_all_loop_F. Qed.

Lemma tr_send_F b w : relF (tr_send b) w.
Proof. unfold rel, tr_send. destruct (sends w); destruct (_ <? 0); ffin. Qed.

Lemma tr_send_all_loop_F fuel : forall b tot w, relF (tr_send_all_loop fuel b tot) w.
Proof.
  induction fuel as [|f IH]; intros; cbn [tr_send_all_loop]; [apply (rel_ret Fr Fr_refl)|].
  repeat fstep; try apply tr_send_F; try apply IH.
Qed.

Lemma send_pdu_F b w : relF (send_pdu b) w.
Proof. unfold send_pdu, tr_send_all. repeat fstep; try apply tr_send_all_loop_F. Qed.

Lemma send_error_pdu_F enc c t w : relF (send_error_pdu enc c t) w.
Proof. unfold send_error_pdu. repeat fstep; try apply send_pdu_F. Qed.

Lemma send_error_from_host_F enc c t w : relF (send_error_from_host enc c t) w.
Proof. unfold send_error_from_host. repeat fstep; try apply send_error_pdu_F. Qed.

Lemma recv_err_F c w : relF (recv_err c) w.
Proof. unfold recv_err. repeat fstep; try apply change_state_F. Qed.

Lemma receive_pdu_F t w : relF (receive_pdu t) w.
Proof.
  unfold receive_pdu.
  repeat fstep;
    try (match goal with
         | |- relF (tr_recv_all _ _) _ => apply tr_recv_all_F
         | |- relF (recv_err _) _ => apply recv_err_F
         | |- relF (send_error_pdu _ _ _) _ => apply send_error_pdu_F
         | |- relF (change_state _) _ => apply change_state_F
         end).
  all: try (fprim; fail).
  all: try (unfold rel; unfold_prims; repeat match goal with |- context [if ?c then _ else _] => destruct c eqn:? end; ffin).
Qed.

Lemma report_update_failure_F p c k w : relF (report_update_failure p c k) w.
Proof.
  unfold report_update_failure.
  repeat fstep; try apply send_error_from_host_F; try apply change_state_F.
Qed.

Lemma handle_error_pdu_F p w : relF (handle_error_pdu p) w.
Proof. unfold handle_error_pdu. repeat fstep; try apply change_state_F; try fprim. Qed.

(* ---- what a reset-mode synchronisation does to the main tables ---- *)
Definition tabs (w : world) : list prec * list krec := (pfx w, keys w).
Definition others_p (X : list prec) : list prec := filter (fun r => negb (psrc r =? 1)) X.
Definition others_k (X : list krec) : list krec := filter (fun r => negb (ksrc r =? 1)) X.
Definition purged (T : list prec * list krec) : list prec * list krec := (others_p (fst T), others_k (snd T)).

(* the NEW tables: everybody else's records plus this response, built aside (in the shadow tables);
   None when some PDU of the response cannot be applied *)
Definition reload_new (T : list prec * list krec) (v4 v6 ks : list (list byte)) : option (list prec * list krec) :=
  match apply_pfx false v4 (others_p (fst T)) [] with
  | (_, _, Some _) => None
  | (P1, _, None) =>
    match apply_pfx false v6 P1 [] with
    | (_, _, Some _) => None
    | (P3, _, None) =>
      match apply_keys false ks (others_k (snd T)) [] with
      | (_, _, Some _) => None
      | (K1, _, None) => Some (P3, K1)
      end
    end
  end.

(* outcome of the end-of-data processing, as far as the main tables go *)
Definition reload_outcome (T0 : list prec * list krec) (N : option (list prec * list krec)) (r : res Z) : Prop :=
  match r with
  | Ok z w' => (z = 0 /\ N = Some (tabs w')) \/ (z <> 0 /\ (tabs w' = T0 \/ tabs w' = purged T0))
  | Exc _ w' => tabs w' = T0 \/ tabs w' = purged T0
  end.

Lemma bind_T {A} (m : world -> res A) (f : A -> world -> res Z) T0 N w :
  relF m w -> tabs w = T0 ->
  (forall a w', tabs w' = T0 -> resetting (sk w') = resetting (sk w) -> reload_outcome T0 N (f a w')) ->
  reload_outcome T0 N (bind m f w).
Proof.
  unfold rel, bind. intros Hm HT Hf. destruct (m w) as [a w'|e w']; destruct Hm as (H1 & H2 & H3 & _).
  - apply Hf; auto. unfold tabs in *. congruence.
  - simpl. left. unfold tabs in *. congruence.
Qed.

Lemma bind_I {A} (m : world -> res A) (f : A -> world -> res Z) T0 N w :
  relF m w -> (tabs w = T0 \/ tabs w = purged T0) ->
  (forall a w', (tabs w' = T0 \/ tabs w' = purged T0) -> reload_outcome T0 N (f a w')) ->
  reload_outcome T0 N (bind m f w).
Proof.
  unfold rel, bind. intros Hm HT Hf. destruct (m w) as [a w'|e w']; destruct Hm as (H1 & H2 & H3 & _).
  - apply Hf; auto. unfold tabs in *. rewrite H1, H2. exact HT.
  - simpl. unfold tabs in *. rewrite H1, H2. exact HT.
Qed.

Lemma fail_tail T0 N c w : (tabs w = T0 \/ tabs w = purged T0) ->
  reload_outcome T0 N ((mdo _ <- change_state c; ret (-1)) w).
Proof.
  intros H. apply bind_I; [apply change_state_F|exact H|]. intros _ w' H'. simpl. right. split; [discriminate|auto].
Qed.

Lemma purge_tail T0 N c (ok : bool) w : tabs w = T0 ->
  reload_outcome T0 N ((mdo _ <- (if ok then ret tt else purge_after_failed_undo); mdo _ <- change_state c; ret (-1)) w).
Proof.
  intros H. destruct ok.
  - apply bind_I; [apply (rel_ret Fr Fr_refl)|auto|]. intros _ w' H'. apply fail_tail. exact H'.
  - unfold purge_after_failed_undo, src_remove_all. unfold_prims.
    apply fail_tail. right. unfold tabs, purged, others_p, others_k in *. simpl. rewrite <- H. reflexivity.
Qed.

Lemma bind_get_sk {B} (f : sock -> world -> res B) w : bind get_sk f w = f (sk w) w.
Proof. reflexivity. Qed.
Lemma bind_get_w {B} (f : world -> world -> res B) w : bind get_w f w = f w w.
Proof. reflexivity. Qed.
Lemma bind_set_sk {B} s (f : unit -> world -> res B) w :
  bind (set_sk s) f w = f tt (mkW s (pfx w) (keys w) (evs w) (opens w) (sends w) (now w) (out w)).
Proof. reflexivity. Qed.

Ltac tstep :=
  match goal with
  | |- reload_outcome _ _ (bind (emit_all _) _ _) => apply bind_T; [fprim|assumption|intros [] ? ? ?]
  | |- reload_outcome _ _ (bind (ret tt) _ _) => apply bind_T; [apply (rel_ret Fr Fr_refl)|assumption|intros [] ? ? ?]
  | |- reload_outcome _ _ (bind (report_update_failure _ _ _) _ _) => apply bind_T; [apply report_update_failure_F|assumption|intros [] ? ? ?]
  | |- reload_outcome _ _ (bind (if ?b then ret tt else purge_after_failed_undo) _ _) => apply purge_tail; assumption
  | |- reload_outcome _ _ (bind purge_after_failed_undo _ _) => apply (purge_tail _ _ _ false); assumption
  | |- reload_outcome _ _ (bind (change_state _) _ _) => apply fail_tail; left; assumption
  | |- context [if ?b then undo_pfx _ _ _ else _] => destruct b
  | |- context [if ?b then (_, _, _) else (_, _, _)] => destruct b
  | |- context [undo_pfx ?a ?b ?c] => destruct (undo_pfx a b c) as [[? ?] ?]
  | |- context [undo_keys ?a ?b ?c] => destruct (undo_keys a b c) as [[? ?] ?]
  end.

(* reload_writes_main_once.  In reset mode the end-of-data processing either replaces both main tables, each as a
   whole, by the tables built aside (result 0), or fails (result -1 / script end) leaving them untouched - except
   for the purge fallback after a rollback that itself failed, which removes all records of this socket.        *)
Theorem reload_model p v4 v6 ks w :
  resetting (sk w) = true ->
  reload_outcome (tabs w) (reload_new (tabs w) v4 v6 ks) (process_eod p v4 v6 ks w).
Proof.
  intros Hr. unfold process_eod. rewrite bind_get_sk.
  destruct (negb (get16 p 2 =? session_id (sk w))) eqn:Es.
  - apply bind_T; [apply send_error_from_host_F|reflexivity|]. intros _ w1 H1 _. apply fail_tail. auto.
  - rewrite bind_set_sk, bind_get_w. rewrite Hr. cbv beta iota zeta. cbn [pfx keys negb].
    remember (tabs w) as T0 eqn:ET.
    assert (HT : tabs (mkW (apply_eod_intervals (sk w) p) (pfx w) (keys w) (evs w) (opens w) (sends w) (now w) (out w)) = T0)
      by (subst; reflexivity).
    destruct (apply_pfx false v4 (filter (fun r => negb (psrc r =? 1)) (pfx w)) []) as [[P1 t1] f1] eqn:E1.
    destruct f1 as [[[bad c] done]|].
    { repeat (tstep; cbv beta iota zeta). }
    tstep. tstep.
    destruct (apply_pfx false v6 P1 []) as [[P3 t3] f3] eqn:E3.
    destruct f3 as [[[bad c] done]|].
    { repeat (tstep; cbv beta iota zeta). }
    tstep. tstep.
    destruct (apply_keys false ks (filter (fun r => negb (ksrc r =? 1)) (keys w)) []) as [[K1 t5] f5] eqn:E5.
    destruct f5 as [[[bad c] done]|].
    { repeat (tstep; cbv beta iota zeta). }
    tstep. tstep.
    unfold_prims. simpl. left. split; [reflexivity|].
    subst T0. unfold reload_new, tabs, others_p, others_k. cbn [fst snd pfx keys].
    rewrite E1, E3, E5. reflexivity.
Qed.

(* ---- C06_when: which synchronisations run in reset mode ---- *)
(* the main tables change only as a whole: untouched, swapped to a complete new set, or purged *)
Definition whole_table_change (T0 : list prec * list krec) (r : res Z) : Prop :=
  exists v4 v6 ks, reload_outcome T0 (reload_new T0 v4 v6 ks) r.

Lemma bind_Q {A} (m : world -> res A) (f : A -> world -> res Z) T0 w :
  relF m w -> tabs w = T0 ->
  (forall a w', tabs w' = T0 -> resetting (sk w') = resetting (sk w) -> whole_table_change T0 (f a w')) ->
  whole_table_change T0 (bind m f w).
Proof.
  unfold rel, bind. intros Hm HT Hf. destruct (m w) as [a w'|e w']; destruct Hm as (H1 & H2 & H3 & _).
  - apply Hf; auto. unfold tabs in *. congruence.
  - exists [], [], []. simpl. left. unfold tabs in *. congruence.
Qed.

Lemma Q_ret_fail T0 z w : z <> 0 -> tabs w = T0 -> whole_table_change T0 (ret z w).
Proof. intros Hz HT. exists [], [], []. simpl. right. auto. Qed.

Ltac qstep :=
  match goal with
  | |- whole_table_change _ (ret _ _) => apply Q_ret_fail; [discriminate|assumption]
  | |- whole_table_change _ (bind (change_state _) _ _) => apply bind_Q; [apply change_state_F|assumption|intros [] ? ? ?]
  | |- whole_table_change _ (bind (send_error_from_host _ _ _) _ _) => apply bind_Q; [apply send_error_from_host_F|assumption|intros ? ? ? ?]
  | |- whole_table_change _ (bind (handle_error_pdu _) _ _) => apply bind_Q; [apply handle_error_pdu_F|assumption|intros [] ? ? ?]
  | |- whole_table_change _ (bind (receive_pdu _) _ _) => apply bind_Q; [apply receive_pdu_F|assumption|intros ? ? ? ?]
  | |- whole_table_change _ ((if ?c then _ else _) _) => destruct c eqn:?
  | |- whole_table_change _ (match ?x with inl _ => _ | inr _ => _ end _) => destruct x
  end.

Lemma store_loop_reset fuel : forall v4 v6 ks w, resetting (sk w) = true ->
  whole_table_change (tabs w) (store_loop fuel v4 v6 ks w).
Proof.
  induction fuel as [|f IH]; intros v4 v6 ks w Hr; cbn [store_loop].
  - apply Q_ret_fail; [discriminate|reflexivity].
  - remember (tabs w) as T0 eqn:ET. symmetry in ET.
    apply bind_Q; [apply receive_pdu_F|assumption|]. intros r w1 H1 R1.
    assert (Hr1 : resetting (sk w1) = true) by congruence.
    destruct r as [c|p]; cbv beta iota zeta.
    + repeat qstep.
    + repeat (first [ qstep
                    | match goal with
                      | |- whole_table_change _ (store_loop f _ _ _ _) => rewrite <- H1; apply IH; exact Hr1
                      | |- whole_table_change _ (process_eod ?p ?a ?b ?c _) =>
                          rewrite <- H1; exists a, b, c; apply reload_model; exact Hr1
                      end ]).
Qed.

Lemma sync_first_F fuel : forall w, relF (sync_first fuel) w.
Proof.
  induction fuel as [|f IH]; intros; cbn [sync_first]; [apply (rel_ret Fr Fr_refl)|].
  repeat fstep; try apply receive_pdu_F; try apply change_state_F; try apply IH; try fprim.
Qed.

Lemma bind_QF {A} (m : world -> res A) (f : A -> world -> res Z) T0 w :
  relF m w -> tabs w = T0 ->
  (forall a w', Fr w w' -> whole_table_change T0 (f a w')) ->
  whole_table_change T0 (bind m f w).
Proof.
  unfold rel, bind. intros Hm HT Hf. destruct (m w) as [a w'|e w'].
  - apply Hf; auto.
  - destruct Hm as (H1 & H2 & _). exists [], [], []. simpl. left. unfold tabs in *. congruence.
Qed.

(* C06_when.  A socket that asks for a new session (request_session_id: set by a Cache Reset - see when_cache_reset -
   by an expiry, and initially) and has synchronised before (last_update <> 0, i.e. it may hold data) processes the
   next Cache Response in reset mode: whatever the cache sends, the main tables change only as a whole.       *)
Theorem when_reset_mode fuel w :
  req_sess (sk w) = true -> last_update (sk w) <> 0 ->
  whole_table_change (tabs w) (rtr_sync fuel w).
Proof.
  intros Hq Hl. unfold rtr_sync. remember (tabs w) as T0 eqn:ET. symmetry in ET.
  apply bind_QF; [apply sync_first_F|assumption|]. intros fp w1 (F1 & F2 & F3 & F4 & F5).
  assert (H1 : tabs w1 = T0) by (unfold tabs in *; congruence).
  destruct fp as [p|]; [|apply Q_ret_fail; [discriminate|assumption]].
  cbv beta iota zeta.
  destruct (nthb p 1 =? c_ERROR); [repeat qstep|].
  destruct (nthb p 1 =? c_CACHE_RESET); [repeat qstep|].
  destruct (nthb p 1 =? c_CACHE_RESPONSE); [|repeat qstep].
  rewrite bind_get_sk. rewrite F4, Hq.
  assert (Hl1 : (last_update (sk w1) =? 0) = false) by (apply Z.eqb_neq; congruence).
  rewrite Hl1. cbn [negb].
  set (w2 := mkW (upd_session (upd_resetting (sk w1) true) (get16 p 2)) (pfx w1) (keys w1) (evs w1) (opens w1) (sends w1) (now w1) (out w1)).
  assert (H2 : tabs w2 = T0) by exact H1.
  assert (R2 : resetting (sk w2) = true) by reflexivity.
  destruct (store_loop_reset fuel [] [] [] w2 R2) as (a & b & c & Hout). rewrite H2 in Hout.
  exists a, b, c.
  change (reload_outcome T0 (reload_new T0 a b c)
            ((mdo ok <- ret true; if negb ok then ret (-1) else
              mdo r <- receive_and_store fuel;
              if r =? 0 then mdo _ <- modify_sk (fun s => upd_req s false); mdo t <- get_now; mdo _ <- modify_sk (fun s => upd_last s t); ret 0
              else ret (-1)) w2)).
  unfold receive_and_store. cbv [bind ret modify_sk get_sk set_sk get_now negb].
  destruct (store_loop fuel [] [] [] w2) as [z w3|e w3]; simpl in Hout |- *; [|exact Hout].
  destruct (z =? 0) eqn:Ez; simpl.
  - apply Z.eqb_eq in Ez. subst z. destruct Hout as [[_ HN]|[Hz _]]; [|congruence]. left. split; auto.
  - apply Z.eqb_neq in Ez. destruct Hout as [[Hz _]|[_ HT']]; [congruence|]. right. split; [discriminate|exact HT'].
Qed.

(* after a Cache Reset (state RTR_ERROR_NO_INCR_UPDATE_AVAIL) the state machine sets request_session_id; the time
   of the last synchronisation is kept unless the data has meanwhile expired, in which case it is purged *)
Theorem when_cache_reset fuel w :
  st (sk w) = c_RTR_ERROR_NO_INCR_UPDATE_AVAIL ->
  match fsm_step fuel w with
  | Ok _ w' | Exc _ w' =>
      req_sess (sk w') = true /\
      ((last_update (sk w') = last_update (sk w) /\ tabs w' = tabs w) \/
       (last_update (sk w') = 0 /\ tabs w' = purged (tabs w)))
  end.
Proof.
  intros Hs. unfold fsm_step. rewrite bind_get_sk. cbv zeta. rewrite Hs.
  change (c_RTR_ERROR_NO_INCR_UPDATE_AVAIL =? c_RTR_CONNECTING) with false.
  change (c_RTR_ERROR_NO_INCR_UPDATE_AVAIL =? c_RTR_RESET) with false.
  change (c_RTR_ERROR_NO_INCR_UPDATE_AVAIL =? c_RTR_SYNC) with false.
  change (c_RTR_ERROR_NO_INCR_UPDATE_AVAIL =? c_RTR_ESTABLISHED) with false.
  change (c_RTR_ERROR_NO_INCR_UPDATE_AVAIL =? c_RTR_FAST_RECONNECT) with false.
  change (c_RTR_ERROR_NO_INCR_UPDATE_AVAIL =? c_RTR_ERROR_NO_DATA_AVAIL) with false.
  change (c_RTR_ERROR_NO_INCR_UPDATE_AVAIL =? c_RTR_ERROR_NO_INCR_UPDATE_AVAIL) with true.
  cbv iota. unfold change_state, purge_outdated, src_remove_all. unfold_prims. cbn [sk st upd_serial upd_req upd_st].
  rewrite Hs.
  change (c_RTR_ERROR_NO_INCR_UPDATE_AVAIL =? c_RTR_RESET) with false.
  change (c_RTR_ERROR_NO_INCR_UPDATE_AVAIL =? c_RTR_SHUTDOWN) with false.
  cbv iota. cbn [sk st last_update expire_iv now upd_serial upd_req upd_st upd_last upd_resetting req_sess pfx keys].
  destruct (last_update (sk w) =? 0); [simpl; auto|].
  destruct (last_update (sk w) + expire_iv (sk w) <? now w); simpl; auto.
Qed.

(* ======================================================================================== *)
(* The instance: the synchronising thread of a reset-mode reload as operations on the two main tables.
   Table names: false = the prefix table, true = the router-key table (two locks, two swaps: atomicity is per
   table, which suffices because every query reads one table).  The shadow tables are private to the thread.     *)
Section ReloadInstance.
Variable Ans : Type.
Inductive tbl := TP (X : list prec) | TK (X : list krec).
Definition shadow : Type := (option tbl * option tbl * option tbl)%type.   (* prefix shadow, key shadow, swap temporary *)
Notation Lr := (L Ans shadow).
Variables (v4 v6 ks : list (list byte)).

Definition build (s : tbl) : option tbl :=
  match s with
  | TP X => match apply_pfx false v4 (others_p X) [] with
            | (_, _, Some _) => None
            | (P1, _, None) => match apply_pfx false v6 P1 [] with (_, _, Some _) => None | (P3, _, None) => Some (TP P3) end
            end
  | TK X => match apply_keys false ks (others_k X) [] with (_, _, Some _) => None | (K1, _, None) => Some (TK K1) end
  end.

Definition sh_get (k : bool) (p : shadow) : option tbl := let '(a, b, _) := p in if k then b else a.
Definition sh_set (k : bool) (v : option tbl) (p : shadow) : shadow := let '(a, b, t) := p in if k then (a, v, t) else (v, b, t).
Definition sh_tmp (p : shadow) : option tbl := let '(_, _, t) := p in t.
Definition sh_settmp (v : option tbl) (p : shadow) : shadow := let '(a, b, _) := p in (a, b, v).

(* pfx_table_copy_except_socket / spki_table_copy_except_socket + applying the response to the shadow: reads main *)
Definition copy_op (k : bool) : op bool tbl Lr :=
  mkOp k Rm [BRd (fun (lc : Lr) s => (fst lc, sh_set k (build s) (snd lc)))].
(* pfx_table_swap / spki_table_swap: tmp = main; main = shadow; shadow = tmp, under the write lock *)
Definition swap_op (k : bool) : op bool tbl Lr :=
  mkOp k Wm [BRd (fun (lc : Lr) s => (fst lc, sh_settmp (Some s) (snd lc)));
             BWr (fun (lc : Lr) s => match sh_get k (snd lc) with Some x => x | None => s end);
             BRd (fun (lc : Lr) _ => (fst lc, sh_set k (sh_tmp (snd lc)) (snd lc)))].
(* pfx_table_notify_diff / spki_table_notify_diff: reads main *)
Definition diff_op (k : bool) : op bool tbl Lr := mkOp k Rm [BRd (fun (lc : Lr) _ => lc)].

Definition reload_ops : list (op bool tbl Lr) :=
  [copy_op false; copy_op true; swap_op false; swap_op true; diff_op false; diff_op true].

Variables (oldP : list prec) (oldK : list krec).
Definition st0 : RwLock.store bool tbl := fun k => if k then TK oldK else TP oldP.
Definition sh0 : shadow := (None, None, None).
Definition swap_index (k : bool) : nat := if k then 3 else 2.

Lemma eqb_spec_bool : forall a b : bool, Bool.eqb a b = true <-> a = b.
Proof. intros [] []; simpl; split; congruence. Qed.

Lemma reload_ops_ok : forallb op_ok reload_ops = true.
Proof. reflexivity. Qed.

(* reload_writes_main_once, concurrent side: each main table is written by exactly one operation, its swap *)
Lemma reload_ops_once k : once bool Bool.eqb tbl Ans shadow reload_ops st0 sh0 k (swap_index k).
Proof.
  destruct k.
  - apply (written_once bool Bool.eqb eqb_spec_bool tbl Ans shadow reload_ops reload_ops_ok st0 sh0 true
             [copy_op false; copy_op true; swap_op false] (swap_op true) [diff_op false; diff_op true]); reflexivity.
  - apply (written_once bool Bool.eqb eqb_spec_bool tbl Ans shadow reload_ops reload_ops_ok st0 sh0 false
             [copy_op false; copy_op true] (swap_op false) [swap_op true; diff_op false; diff_op true]); reflexivity.
Qed.

(* the NEW tables of the concurrent statement are the NEW tables of the sequential model *)
Lemma reload_ops_new P3 K1 : reload_new (oldP, oldK) v4 v6 ks = Some (P3, K1) ->
  new_tab bool Bool.eqb tbl Ans shadow reload_ops st0 sh0 false = TP P3 /\
  new_tab bool Bool.eqb tbl Ans shadow reload_ops st0 sh0 true = TK K1.
Proof.
  unfold reload_new. cbn [fst snd]. intros H.
  unfold new_tab, ver, reload_ops. cbn [List.length firstn].
  unfold seq_run, init. cbn [fold_left]. unfold seq_op. cbn [olock obody copy_op swap_op diff_op run_body fold_left run_b fst snd].
  unfold upd, st0. cbn [Bool.eqb]. cbn [build sh_set sh_get sh_tmp sh_settmp sh0 fst snd].
  destruct (apply_pfx false v4 (others_p oldP) []) as [[P1 t1] [f1|]]; [discriminate|].
  destruct (apply_pfx false v6 P1 []) as [[P3' t3] [f3|]]; [discriminate|].
  destruct (apply_keys false ks (others_k oldK) []) as [[K1' t5] [f5|]]; [discriminate|].
  injection H as <- <-. cbn. auto.
Qed.

(* C06 for the reload of the model: readers of either table against the synchronising thread *)
Variable readers : list (list (query bool tbl Ans)).

Theorem reload_instance (c : RwLock.store bool tbl * RwLock.pool bool tbl Lr) :
  steps Bool.eqb (st0, ainit bool tbl Lr (ats0 bool tbl Ans shadow reload_ops sh0 readers)) c ->
  Forall2 (reader_sees_old_new bool Bool.eqb tbl Ans shadow reload_ops st0 sh0) readers (tl (snd c)).
Proof.
  apply (reload_atomic_for_readers bool Bool.eqb eqb_spec_bool tbl Ans shadow reload_ops reload_ops_ok st0 sh0 readers swap_index).
  intros qs q _ _. apply reload_ops_once.
Qed.
End ReloadInstance.

(* ---- the part of reload_writes_main_once that is read off the C code: the lock skeletons of the functions the
   reload uses (regenerated from /repo on every run) ---- *)
From Coq Require Import String.
From RtrV Require Import Gen.LockSkeletons Conc.LockCheck.
Local Open Scope string_scope.

Lemma instance_reload_skeleton : reload_skeleton_check = true.
Proof. vm_compute. reflexivity. Qed.
