(* LockCheck.v - the one-pass lock-discipline checker run on the translator's lock skeletons
   (Gen/LockSkeletons.v, regenerated from /repo on every run), executable definitions only:

     well_locked   : list lk_event -> bool     a path starts and ends holding no lock, never re-acquires a
                                               lock it holds, releases only what it holds, reads table l only
                                               while holding l's lock (either mode), writes it only under the
                                               write lock.  Lock-to-object map: "Rd l _" / "Wr l _" touch the
                                               state of table l, which is guarded by table l's own lock.
     chk_prog      : lk_prog -> bool           the same discipline checked on the structured program, for
                                               EVERY iteration count of every loop (soundness: LockProofs in
                                               ConcProofs.v: chk_sound)
     counting helpers used by the C06 instance (how many critical sections on a table, any write to it).  *)
From Coq Require Import List Bool String.
Import ListNotations.
From RtrV Require Import Conc.RwLock Gen.LockSkeletons.
Local Open Scope string_scope.

Definition lheld := list (string * mode).
Definition lget (l : string) (h : lheld) : option mode := hget String.eqb l h.
Definition lrem (l : string) (h : lheld) : lheld := hrem String.eqb l h.

(* [tol e = true]: an access made WITHOUT the lock is let through (used only to state what holds
   outside a known finding); the plain checker uses [fun _ => false]. *)
Definition ev_step (tol : lk_event -> bool) (h : lheld) (e : lk_event) : option lheld :=
  match e with
  | AcqR l => match lget l h with None => Some ((l, Rm) :: h) | Some _ => None end
  | AcqW l => match lget l h with None => Some ((l, Wm) :: h) | Some _ => None end
  | LockSkeletons.Rel l => match lget l h with Some _ => Some (lrem l h) | None => None end
  | LockSkeletons.Rd l _ => match lget l h with Some _ => Some h | None => if tol e then Some h else None end
  | LockSkeletons.Wr l _ => match lget l h with Some Wm => Some h | _ => None end
  | Cb _ => Some h
  end.

Fixpoint ev_run (tol : lk_event -> bool) (h : lheld) (p : list lk_event) : option lheld :=
  match p with
  | [] => Some h
  | e :: r => match ev_step tol h e with Some h' => ev_run tol h' r | None => None end
  end.

Definition is_empty (o : option lheld) : bool := match o with Some [] => true | _ => false end.

Definition well_locked_tol (tol : lk_event -> bool) (p : list lk_event) : bool := is_empty (ev_run tol [] p).
Definition no_tol : lk_event -> bool := fun _ => false.
Definition well_locked (p : list lk_event) : bool := well_locked_tol no_tol p.

(* ---- structured programs: all paths, all iteration counts ---- *)
Definition mode_eqb (a b : mode) : bool := match a, b with Rm, Rm | Wm, Wm => true | _, _ => false end.
Fixpoint lheld_eqb (a b : lheld) : bool :=
  match a, b with
  | [], [] => true
  | (k, m) :: a', (k', m') :: b' => String.eqb k k' && mode_eqb m m' && lheld_eqb a' b'
  | _, _ => false
  end.

(* lock state at the three exits of a program fragment; None = that exit is unreachable *)
Record cres := mkC { cn : option lheld; cb : option lheld; cr : option lheld }.

(* join of two exits: they must agree on the lock state (the code does; a checker may be strict) *)
Definition ojoin (a b : option lheld) : option (option lheld) :=
  match a, b with
  | None, x | x, None => Some x
  | Some x, Some y => if lheld_eqb x y then Some (Some x) else None
  end.

Definition cjoin3 (n1 n2 b1 b2 r1 r2 : option lheld) : option cres :=
  match ojoin n1 n2, ojoin b1 b2, ojoin r1 r2 with
  | Some n, Some b, Some r => Some (mkC n b r)
  | _, _, _ => None
  end.

Fixpoint chk (tol : lk_event -> bool) (p : lk_prog) (h : lheld) : option cres :=
  match p with
  | PEv e => match ev_step tol h e with Some h' => Some (mkC (Some h') None None) | None => None end
  | PSkip => Some (mkC (Some h) None None)
  | PRet => Some (mkC None None (Some h))
  | PBrk => Some (mkC None (Some h) None)
  | PSeq a b =>
    match chk tol a h with
    | None => None
    | Some ra =>
      match cn ra with
      | None => Some ra
      | Some h1 =>
        match chk tol b h1 with
        | None => None
        | Some rb => cjoin3 None (cn rb) (cb ra) (cb rb) (cr ra) (cr rb)
        end
      end
    end
  | PAlt a b =>
    match chk tol a h, chk tol b h with
    | Some ra, Some rb => cjoin3 (cn ra) (cn rb) (cb ra) (cb rb) (cr ra) (cr rb)
    | _, _ => None
    end
  | PLoop b =>
    match chk tol b h with
    | None => None
    | Some rb =>
      (* going round the loop must bring back the lock state of the loop head *)
      match cn rb with
      | None => Some (mkC (cb rb) None (cr rb))
      | Some h1 => if lheld_eqb h1 h then Some (mkC (cb rb) None (cr rb)) else None
      end
    end
  | PCall b =>
    match chk tol b h with
    | None => None
    | Some rb =>
      match cb rb, ojoin (cn rb) (cr rb) with
      | None, Some n => Some (mkC n None None)
      | _, _ => None
      end
    end
  end.

Definition exit_ok (o : option lheld) : bool := match o with None | Some [] => true | _ => false end.
Definition chk_prog_tol (tol : lk_event -> bool) (p : lk_prog) : bool :=
  match chk tol p [] with
  | Some r => exit_ok (cn r) && exit_ok (cr r) && match cb r with None => true | _ => false end
  | None => false
  end.
Definition chk_prog (p : lk_prog) : bool := chk_prog_tol no_tol p.

(* trace semantics of structured programs: every path, every number of loop iterations *)
Inductive exec : lk_prog -> list lk_event -> lk_out -> Prop :=
| x_ev e : exec (PEv e) [e] ONorm
| x_skip : exec PSkip [] ONorm
| x_ret : exec PRet [] ORet
| x_brk : exec PBrk [] OBrk
| x_seq a b ta tb o : exec a ta ONorm -> exec b tb o -> exec (PSeq a b) (ta ++ tb) o
| x_seq_brk a b ta : exec a ta OBrk -> exec (PSeq a b) ta OBrk
| x_seq_ret a b ta : exec a ta ORet -> exec (PSeq a b) ta ORet
| x_alt_l a b t o : exec a t o -> exec (PAlt a b) t o
| x_alt_r a b t o : exec b t o -> exec (PAlt a b) t o
| x_call b t o : exec b t o -> exec (PCall b) t ONorm
| x_loop_brk b t : exec b t OBrk -> exec (PLoop b) t ONorm
| x_loop_ret b t : exec b t ORet -> exec (PLoop b) t ORet
| x_loop_more b t1 t2 o : exec b t1 ONorm -> exec (PLoop b) t2 o -> exec (PLoop b) (t1 ++ t2) o.

(* ---- lifecycle functions, known findings ---- *)
Definition in_names (n : string) (l : list string) : bool := existsb (String.eqb n) l.
Definition is_lifecycle (n : string) : bool := in_names n lifecycle_functions.

(* Known finding (DESIGN section 6, confirmed): these functions read table state before taking the lock.
   (function or function@statement, the labels of the reads that happen unlocked) *)
Definition known_unlocked_reads : list (string * list string) :=
  [("pfx_table_for_each_ipv4_record", [".ipv4"]);
   ("pfx_table_for_each_ipv6_record", [".ipv6"]);
   (* callers that contain the two functions above *)
   ("pfx_table_copy_except_socket", [".ipv4"; ".ipv6"]);
   ("pfx_table_notify_diff", [".ipv4"; ".ipv6"]);
   ("pfx_table_notify_diff@0", [".ipv4"]); ("pfx_table_notify_diff@1", [".ipv6"]);
   ("pfx_table_notify_diff@2", [".ipv4"]); ("pfx_table_notify_diff@3", [".ipv6"]);
   (* spki_table_notify_diff walks both lists without any lock *)
   ("spki_table_notify_diff",
    ["tommy_list_head"; "current_node->data"; "entry->socket"; "key_e->asn"; "key_e->socket"; "memcpy"; "current_node->next"])].

Definition known_tol (fname : string) : lk_event -> bool :=
  match find (fun p => String.eqb (fst p) fname) known_unlocked_reads with
  | Some (_, labels) => fun e => match e with LockSkeletons.Rd _ w => in_names w labels | _ => false end
  | None => no_tol
  end.

(* functions covered by the instance without reservation: not lifecycle, not named in the finding *)
Definition admitted (f : string) : bool := negb (is_lifecycle f) && negb (in_names f (map fst known_unlocked_reads)).

(* the checks whose truth value the instance theorems state *)
Definition paths_check (tolf : string -> lk_event -> bool) : bool :=
  forallb (fun p => is_lifecycle (fst p) || well_locked_tol (tolf (fst p)) (snd p)) lock_skeletons.
Definition progs_check (tolf : string -> lk_event -> bool) : bool :=
  forallb (fun p => is_lifecycle (fst p) || chk_prog_tol (tolf (fst p)) (snd p)) lock_programs.
Definition failing_paths : list string :=
  map fst (filter (fun s => negb (is_lifecycle (fst s) || forallb (fun x => well_locked (fst x)) (lk_paths (snd s)))) lock_segments).
Definition failing_progs : list string :=
  map fst (filter (fun p => negb (is_lifecycle (fst p) || chk_prog (snd p))) lock_programs).

(* lifecycle functions (they create / destroy the lock, so the caller owns the table exclusively)
   must at least balance their lock operations: never leave holding a lock, never unlock an unheld one *)
Definition all_tol : lk_event -> bool := fun _ => true.
Definition balanced (p : list lk_event) : bool :=
  is_empty (ev_run all_tol [] (filter (fun e => match e with LockSkeletons.Wr _ _ => false | _ => true end) p)).
Definition lifecycle_check : bool :=
  forallb (fun p => negb (is_lifecycle (fst p)) || balanced (snd p)) lock_skeletons.

(* ---- the statement-by-statement listing of large functions is faithful ---- *)
Fixpoint prog_eqb (a b : lk_prog) : bool :=
  let ev_eqb (x y : lk_event) :=
      match x, y with
      | AcqR l, AcqR l' | AcqW l, AcqW l' | LockSkeletons.Rel l, LockSkeletons.Rel l' => String.eqb l l'
      | LockSkeletons.Rd l w, LockSkeletons.Rd l' w' | LockSkeletons.Wr l w, LockSkeletons.Wr l' w' => String.eqb l l' && String.eqb w w'
      | Cb w, Cb w' => String.eqb w w'
      | _, _ => false
      end in
  match a, b with
  | PEv x, PEv y => ev_eqb x y
  | PSkip, PSkip | PRet, PRet | PBrk, PBrk => true
  | PSeq a1 a2, PSeq b1 b2 | PAlt a1 a2, PAlt b1 b2 => prog_eqb a1 b1 && prog_eqb a2 b2
  | PLoop a1, PLoop b1 | PCall a1, PCall b1 => prog_eqb a1 b1
  | _, _ => false
  end.

Fixpoint seq_of (ps : list lk_prog) : lk_prog :=
  match ps with
  | [] => PSkip
  | [p] => p
  | p :: r => PSeq p (seq_of r)
  end.

Definition segments_of (f : string) : list lk_prog :=
  map snd (filter (fun s => String.prefix (f ++ "@") (fst s)) lock_segments).

(* every function is listed either whole or as the exact sequence of its top-level statements *)
Definition segments_faithful : bool :=
  forallb (fun fp => existsb (fun s => String.eqb (fst s) (fst fp) && prog_eqb (snd s) (snd fp)) lock_segments
                     || prog_eqb (seq_of (segments_of (fst fp))) (snd fp)) lock_programs.

(* ---- counting, for the C06 instance ---- *)
Definition paths_of (f : string) : list (list lk_event) :=
  map snd (filter (fun p => String.eqb (fst p) f) lock_skeletons).
Definition acquisitions (l : string) (p : list lk_event) : nat :=
  List.length (filter (fun e => match e with AcqR k | AcqW k => String.eqb k l | _ => false end) p).
Definition write_acquisitions (l : string) (p : list lk_event) : nat :=
  List.length (filter (fun e => match e with AcqW k => String.eqb k l | _ => false end) p).
Definition writes (l : string) (p : list lk_event) : bool :=
  existsb (fun e => match e with LockSkeletons.Wr k _ => String.eqb k l | _ => false end) p.
Definition touches (l : string) (p : list lk_event) : bool :=
  existsb (fun e => match e with LockSkeletons.Wr k _ | LockSkeletons.Rd k _ => String.eqb k l | _ => false end) p.

(* every path of f is ONE critical section under the write lock of table l and writes l *)
Definition one_write_section (f l : string) : bool :=
  negb (match paths_of f with [] => true | _ => false end) &&
  forallb (fun p => well_locked p && Nat.eqb (acquisitions l p) 1 && Nat.eqb (write_acquisitions l p) 1 && writes l p) (paths_of f).
(* every path of f touches table l inside at most one critical section, and never writes it *)
Definition one_read_section (tol : lk_event -> bool) (f l : string) : bool :=
  negb (match paths_of f with [] => true | _ => false end) &&
  forallb (fun p => well_locked_tol tol p && Nat.leb (acquisitions l p) 1 && negb (writes l p)) (paths_of f).
(* f never writes table l (it may read it in several critical sections) *)
Definition never_writes (f l : string) : bool :=
  forallb (fun s => negb (writes l (snd s)))
          (filter (fun p => String.eqb (fst p) f || String.prefix (f ++ "@") (fst p)) lock_skeletons).

(* ---- the lock-skeleton facts the reload theorem (C06) rests on ---- *)
Definition reload_skeleton_check : bool :=
  (* the swap: ONE critical section under the write lock of the main table (parameter a) that contains its writes *)
  one_write_section "pfx_table_swap" "a" && one_write_section "spki_table_swap" "a" &&
  (* reader operations: one critical section, no write *)
  one_read_section no_tol "pfx_table_validate_r" "pfx_table" && one_read_section no_tol "pfx_table_validate" "pfx_table" &&
  one_read_section no_tol "spki_table_get_all" "spki_table" && one_read_section no_tol "spki_table_search_by_ski" "spki_table" &&
  (* building the shadow tables and computing the difference never write the main table *)
  never_writes "pfx_table_copy_except_socket" "src_table" && never_writes "spki_table_copy_except_socket" "src" &&
  never_writes "pfx_table_notify_diff" "new_table" && never_writes "spki_table_notify_diff" "new_table" &&
  (* ... and the translator produced paths for all of them *)
  negb (match paths_of "pfx_table_copy_except_socket", paths_of "spki_table_copy_except_socket", paths_of "spki_table_notify_diff" with
        | _ :: _, _ :: _, _ :: _ => false | _, _, _ => true end).

