(* MgrModel.v - executable model of rtrlib/rtr_mgr.c (connection manager), for C15.

   Faithful to the code that exists.  What is modelled, and from where:

   * socket   = the three fields of struct rtr_socket that rtr_mgr.c reads or that
                rtr_start/rtr_stop write: state, (last_update != 0), (thread_id != 0).
   * group    = preference, status, socket array.
   * config   = the tommy list of groups IN THE ORDER THE C KEEPS IT, and config->len.
   * rtr_stop = rtr.c: rtr_change_socket_state(SHUTDOWN) (with the re-entrant manager
                callback), then, only when thread_id != 0: last_update = 0, thread_id = 0,
                state = RTR_CLOSED.  A never-started socket therefore stays in RTR_SHUTDOWN.
   * rtr_start= rtr.c: fails when thread_id != 0; else thread_id set; the thread's first
                action is state = RTR_CONNECTING (no callback) unless state == RTR_SHUTDOWN.
   * events   = rtr_change_socket_state(sock, st) issued by the FSM thread of a started socket
                (no-op on equal state and on RTR_SHUTDOWN), followed by rtr_mgr_cb.
   * pointer identity of groups (`current_group != group`) is position in the list: handlers
     receive the list split as  pre ++ g :: post  and treat pre/post as "the other groups".

   Undefined behaviour of the C is a value of the model ([IUndef], [OUndef]), never a default.

   [variant]: the two places where the shipped code is defective are switchable, so that the
   same development proves the property for the repaired code and refutes it for the shipped
   one.  [current] names the variant that /repo is checked against on every run.            *)
From Coq Require Import List Bool Arith.
Import ListNotations.

Inductive sstate :=
| SConnecting | SEstablished | SReset | SSync | SFastReconnect
| SErrNoData | SErrNoIncr | SErrFatal | SErrTransport | SShutdown | SClosed.

Inductive gstatus := GClosed | GConnecting | GEstablished | GError.

Record sock := mkSock { s_state : sstate; s_lu : bool; s_thread : bool }.
Record group := mkGroup { g_pref : nat; g_status : gstatus; g_socks : list sock }.
Record config := mkConfig { c_groups : list group; c_len : nat }.

Record variant := mkVariant {
  (* rtr_mgr_init: config->groups is initialised before the first `goto err` *)
  fix_init_groups_null : bool;
  (* _rtr_mgr_cb_state_shutdown: a socket in RTR_CLOSED counts as down, like RTR_SHUTDOWN *)
  fix_shutdown_counts_closed : bool }.
Definition shipped : variant := mkVariant false false.
Definition fixed : variant := mkVariant true true.
(* The variant /repo is tied to: both repairs are in /repo (e25b98f, 58f5da3).  For the shutdown repair this is no longer
   only observed at run time: Mgr/MgrTie.v proves the code translated from /repo equal to [mgr_cb v] for every variant v with
   [fix_shutdown_counts_closed v = true], and shows by example that it differs from [shipped]. *)
Definition current : variant := fixed.

Inductive rc := RcSuccess | RcError | RcInvalidParam.   (* 0, -1, -2 *)

Definition sockid := (nat * nat)%type.  (* preference of the group, index in its socket array *)

Inductive out :=
| OStatus (p : nat) (st : gstatus) (by_ : option sockid) (snap : list sock)
    (* status_fp(group, st, sock): [snap] is the group's socket array at the moment of the call *)
| OStart (p k : nat) (ok : bool)          (* rtr_start(group p, socket k) and whether it succeeded *)
| OStop (p k : nat) (behalf : option nat) (* rtr_stop(group p, socket k); Some q: inside the handler of
                                             an event of group q; None: explicit API call *)
| ORc (r : rc)
| OIgnored                                 (* op outside the domain: no such socket / no thread / not an FSM state *)
| OUndef.                                  (* the C dereferences an empty list / empty socket array here *)

(* ---------------------------------------------------------------- basic tests *)
Definition is_shutdown (st : sstate) : bool := match st with SShutdown => true | _ => false end.
Definition is_closed_state (st : sstate) : bool := match st with SClosed => true | _ => false end.
Definition is_down (v : variant) (st : sstate) : bool :=
  match st with SShutdown => true | SClosed => fix_shutdown_counts_closed v | _ => false end.
Definition sync_state (st : sstate) : bool :=
  match st with SEstablished | SReset | SSync => true | _ => false end.

Definition sstate_eqb (a b : sstate) : bool :=
  match a, b with
  | SConnecting, SConnecting | SEstablished, SEstablished | SReset, SReset | SSync, SSync
  | SFastReconnect, SFastReconnect | SErrNoData, SErrNoData | SErrNoIncr, SErrNoIncr
  | SErrFatal, SErrFatal | SErrTransport, SErrTransport | SShutdown, SShutdown
  | SClosed, SClosed => true
  | _, _ => false
  end.

Definition st_closed (s : gstatus) : bool := match s with GClosed => true | _ => false end.
Definition st_established (s : gstatus) : bool := match s with GEstablished => true | _ => false end.
Definition st_error (s : gstatus) : bool := match s with GError => true | _ => false end.

(* rtr_mgr_config_status_is_synced: false as soon as a socket has last_update == 0 or a state
   other than ESTABLISHED / RESET / SYNC *)
Definition sock_synced (s : sock) : bool := s_lu s && sync_state (s_state s).
Definition group_synced (g : group) : bool := forallb sock_synced (g_socks g).

(* ---------------------------------------------------------------- list helpers *)
Fixpoint map_out {A} (f : A -> A * list out) (l : list A) : list A * list out :=
  match l with
  | [] => ([], [])
  | x :: r => let '(x', o1) := f x in let '(r', o2) := map_out f r in (x' :: r', o1 ++ o2)
  end.

(* first element satisfying [f], with what precedes and follows it *)
Fixpoint split_first {A} (f : A -> bool) (l : list A) : option (list A * A * list A) :=
  match l with
  | [] => None
  | x :: r => if f x then Some ([], x, r)
              else match split_first f r with
                   | Some (pre, y, post) => Some (x :: pre, y, post)
                   | None => None
                   end
  end.

Fixpoint split_nth {A} (k : nat) (l : list A) : option (list A * A * list A) :=
  match l, k with
  | [], _ => None
  | x :: r, O => Some ([], x, r)
  | x :: r, S k' => match split_nth k' r with
                    | Some (pre, y, post) => Some (x :: pre, y, post)
                    | None => None
                    end
  end.

Definition has_pref (p : nat) (g : group) : bool := g_pref g =? p.

(* tommy_list_sort with rtr_mgr_config_cmp_tommy / qsort with rtr_mgr_config_cmp: ascending
   preference (stable insertion sort; with distinct preferences every correct sort agrees) *)
Fixpoint insert_group (g : group) (l : list group) : list group :=
  match l with
  | [] => [g]
  | h :: r => if g_pref g <? g_pref h then g :: h :: r else h :: insert_group g r
  end.
Fixpoint sort_groups (l : list group) : list group :=
  match l with
  | [] => []
  | g :: r => insert_group g (sort_groups r)
  end.

(* ---------------------------------------------------------------- set_status and the SHUTDOWN handler *)
Definition set_status (g : group) (st : gstatus) (by_ : option sockid) : group * list out :=
  (mkGroup (g_pref g) st (g_socks g), [OStatus (g_pref g) st by_ (g_socks g)]).

(* _rtr_mgr_cb_state_shutdown, socket k of g having just been put into RTR_SHUTDOWN *)
Definition cb_shutdown (v : variant) (g : group) (k : nat) : group * list out :=
  let all_down := forallb (fun s => is_down v (s_state s)) (g_socks g) in
  set_status g (if all_down then GClosed else g_status g) (Some (g_pref g, k)).

(* ---------------------------------------------------------------- rtr_stop over a whole group *)
Definition closed_sock : sock := mkSock SClosed false false.

(* rtr_stop(sockets[k]) with the array  done ++ s :: rest,  k = length done *)
Definition stop_one (v : variant) (behalf : option nat) (p : nat) (st : gstatus)
           (done : list sock) (s : sock) (rest : list sock) : sock * gstatus * list out :=
  let k := length done in
  let '(s1, st1, o1) :=
    if is_shutdown (s_state s) then (s, st, [])
    else
      let s' := mkSock SShutdown (s_lu s) (s_thread s) in
      let '(g', o) := cb_shutdown v (mkGroup p st (done ++ s' :: rest)) k in
      (s', g_status g', o) in
  let s2 := if s_thread s then closed_sock else s1 in
  (s2, st1, OStop p k behalf :: o1).

(* for (j = 0; j < sockets_len; j++) rtr_stop(sockets[j]); *)
Fixpoint stop_loop (v : variant) (behalf : option nat) (p : nat) (st : gstatus)
         (done todo : list sock) : list sock * gstatus * list out :=
  match todo with
  | [] => (done, st, [])
  | s :: rest =>
      let '(s2, st1, o1) := stop_one v behalf p st done s rest in
      let '(socks, st2, o2) := stop_loop v behalf p st1 (done ++ [s2]) rest in
      (socks, st2, o1 ++ o2)
  end.

Definition stop_group (v : variant) (behalf : option nat) (g : group) : group * list out :=
  let '(socks, st, o) := stop_loop v behalf (g_pref g) (g_status g) [] (g_socks g) in
  (mkGroup (g_pref g) st socks, o).

(* ---------------------------------------------------------------- rtr_mgr_start_sockets *)
Definition start_sock (s : sock) : sock :=
  mkSock (if is_shutdown (s_state s) then SShutdown else SConnecting) (s_lu s) true.

Fixpoint start_loop (p k : nat) (todo : list sock) : list sock * bool * list out :=
  match todo with
  | [] => ([], true, [])
  | s :: rest =>
      if s_thread s then (s :: rest, false, [OStart p k false])
      else let '(r, ok, o) := start_loop p (S k) rest in (start_sock s :: r, ok, OStart p k true :: o)
  end.

Definition start_sockets (g : group) : group * bool * list out :=
  let '(socks, ok, o) := start_loop (g_pref g) 0 (g_socks g) in
  (mkGroup (g_pref g) (if ok then GConnecting else g_status g) socks, ok, o).

(* ---------------------------------------------------------------- rtr_mgr_close_less_preferable_groups *)
(* loop body for one node other than the event's group [p] *)
Definition close_one (v : variant) (p : nat) (by_ : sockid) (cur : group) : group * list out :=
  if negb (st_closed (g_status cur)) && (p <? g_pref cur) then
    let '(g1, o1) := stop_group v (Some p) cur in
    let '(g2, o2) := set_status g1 GClosed (Some by_) in
    (g2, o1 ++ o2)
  else (cur, []).

(* set_status(ESTABLISHED) + rtr_mgr_close_less_preferable_groups *)
Definition establish (v : variant) (pre : list group) (g : group) (post : list group) (by_ : sockid)
  : list group * list out :=
  let '(g1, o1) := set_status g GEstablished (Some by_) in
  let '(pre', o2) := map_out (close_one v (g_pref g) by_) pre in
  let '(post', o3) := map_out (close_one v (g_pref g) by_) post in
  (pre' ++ g1 :: post', o1 ++ o2 ++ o3).

(* a more preferred group that is neither in ERROR nor CLOSED keeps a recovering group in ERROR *)
Definition blocks_recovery (p : nat) (cur : group) : bool :=
  negb (st_error (g_status cur)) && negb (st_closed (g_status cur)) && (g_pref cur <? p).

Definition report (pre : list group) (g : group) (post : list group) (st : gstatus) (by_ : sockid)
  : list group * list out :=
  let '(g1, o) := set_status g st (Some by_) in (pre ++ g1 :: post, o).

(* _rtr_mgr_cb_state_established *)
Definition cb_established (v : variant) (pre : list group) (g : group) (post : list group) (by_ : sockid)
  : list group * list out :=
  match g_status g with
  | GConnecting =>
      if group_synced g then establish v pre g post by_ else report pre g post GConnecting by_
  | GError =>
      let all_error := negb (existsb (blocks_recovery (g_pref g)) (pre ++ post)) in
      if all_error && group_synced g then establish v pre g post by_ else report pre g post GError by_
  | _ => (pre ++ g :: post, [])
  end.

(* _rtr_mgr_cb_state_connecting *)
Definition cb_connecting (pre : list group) (g : group) (post : list group) (by_ : sockid) :=
  report pre g post (if st_error (g_status g) then GError else GConnecting) by_.

(* get_best_inactive_rtr_mgr_group + rtr_mgr_start_sockets over a stretch of the list *)
Fixpoint start_first_closed (l : list group) : option (list group * list out) :=
  match l with
  | [] => None
  | g :: r =>
      if st_closed (g_status g) then
        let '(g', _, o) := start_sockets g in Some (g' :: r, o)
      else match start_first_closed r with
           | Some (r', o) => Some (g :: r', o)
           | None => None
           end
  end.

(* _rtr_mgr_cb_state_error *)
Definition cb_error (pre : list group) (g : group) (post : list group) (by_ : sockid)
  : list group * list out :=
  let '(g1, o1) := set_status g GError (Some by_) in
  if existsb (fun x => st_established (g_status x)) (pre ++ g1 :: post) then (pre ++ g1 :: post, o1)
  else match start_first_closed pre with
       | Some (pre', o2) => (pre' ++ g1 :: post, o1 ++ o2)
       | None =>
           match start_first_closed post with
           | Some (post', o2) => (pre ++ g1 :: post', o1 ++ o2)
           | None => (pre ++ g1 :: post, o1)
           end
       end.

(* rtr_mgr_cb: dispatch on the new socket state *)
Definition mgr_cb (v : variant) (pre : list group) (g : group) (post : list group) (k : nat) (st : sstate)
  : list group * list out :=
  let by_ := (g_pref g, k) in
  match st with
  | SShutdown => let '(g1, o) := cb_shutdown v g k in (pre ++ g1 :: post, o)
  | SEstablished => cb_established v pre g post by_
  | SConnecting => cb_connecting pre g post by_
  | SErrFatal | SErrTransport | SErrNoData => cb_error pre g post by_
  | _ => report pre g post (g_status g) by_
  end.

(* the FSM thread of socket k of the group with preference p calls rtr_change_socket_state(st) *)
Definition sock_event (v : variant) (groups : list group) (p k : nat) (st : sstate) : list group * list out :=
  match split_first (has_pref p) groups with
  | None => (groups, [OIgnored])
  | Some (pre, g, post) =>
      match split_nth k (g_socks g) with
      | None => (groups, [OIgnored])
      | Some (sp, s, sq) =>
          if negb (s_thread s) || is_shutdown st || is_closed_state st then (groups, [OIgnored])
          else if sstate_eqb (s_state s) st || is_shutdown (s_state s) then (groups, [])
          else
            let g' := mkGroup (g_pref g) (g_status g) (sp ++ mkSock st (s_lu s) (s_thread s) :: sq) in
            mgr_cb v pre g' post k st
      end
  end.

(* the FSM thread sets (rtr_sync success) or clears (purge of outdated records, start of a reload)
   last_update; the manager is not called *)
Definition sock_lu (groups : list group) (p k : nat) (b : bool) : list group * list out :=
  match split_first (has_pref p) groups with
  | None => (groups, [OIgnored])
  | Some (pre, g, post) =>
      match split_nth k (g_socks g) with
      | None => (groups, [OIgnored])
      | Some (sp, s, sq) =>
          if negb (s_thread s) then (groups, [OIgnored])
          else (pre ++ mkGroup (g_pref g) (g_status g) (sp ++ mkSock (s_state s) b (s_thread s) :: sq) :: post, [])
      end
  end.

(* ---------------------------------------------------------------- public API *)
(* rtr_mgr_get_first_group(config) followed by `if (status == CLOSED) rtr_mgr_start_sockets` *)
Definition start_first_if_closed (l : list group) : list group * list out :=
  match l with
  | [] => ([], [OUndef])
  | g :: r => if st_closed (g_status g) then let '(g', _, o) := start_sockets g in (g' :: r, o)
              else (g :: r, [])
  end.

Definition mgr_start (c : config) : config * list out :=
  match c_groups c with
  | [] => (c, [OUndef])
  | g :: r => let '(g', ok, o) := start_sockets g in
              (mkConfig (g' :: r) (c_len c), o ++ [ORc (if ok then RcSuccess else RcError)])
  end.

Definition mgr_stop (v : variant) (c : config) : config * list out :=
  let '(l, o) := map_out (stop_group v None) (c_groups c) in (mkConfig l (c_len c), o).

Definition fresh_sock : sock := mkSock SClosed false false.   (* rtr_init *)

(* the scan at the head of rtr_mgr_add_group: duplicate test, then a read of sockets[0] *)
Inductive scan := ScanFree | ScanDup | ScanUndef.
Fixpoint add_scan (p : nat) (l : list group) : scan :=
  match l with
  | [] => ScanFree
  | g :: r => if g_pref g =? p then ScanDup
              else match g_socks g with
                   | [] => ScanUndef     (* gnode->group->sockets[0] of an empty array *)
                   | _ => add_scan p r
                   end
  end.

Definition mgr_add (c : config) (p extra : nat) : config * list out :=
  match add_scan p (c_groups c) with
  | ScanDup => (c, [ORc RcInvalidParam])
  | ScanUndef => (c, [OUndef])
  | ScanFree =>
      let ng := mkGroup p GClosed (repeat fresh_sock (S extra)) in
      let l := sort_groups (c_groups c ++ [ng]) in
      let '(l', o) := start_first_if_closed l in
      (mkConfig l' (S (c_len c)), o ++ [ORc RcSuccess])
  end.

Definition mgr_remove (v : variant) (c : config) (p : nat) : config * list out :=
  if c_len c =? 1 then (c, [ORc RcError])
  else match split_first (has_pref p) (c_groups c) with
       | None => (c, [ORc RcError])
       | Some (pre, g, post) =>
           let o1 := if st_closed (g_status g) then []
                     else let '(g1, o) := stop_group v None g in
                          let '(_, o') := set_status g1 GClosed None in o ++ o' in
           let '(l', o2) := start_first_if_closed (pre ++ post) in
           (mkConfig l' (c_len c - 1), o1 ++ o2 ++ [ORc RcSuccess])
       end.

Inductive op :=
| OpStart | OpStop
| OpAdd (p extra : nat)          (* a group with preference p and 1 + extra sockets *)
| OpRemove (p : nat)
| OpEv (p k : nat) (st : sstate)
| OpLu (p k : nat) (b : bool).

Definition step (v : variant) (c : config) (o : op) : config * list out :=
  match o with
  | OpStart => mgr_start c
  | OpStop => mgr_stop v c
  | OpAdd p extra => mgr_add c p extra
  | OpRemove p => mgr_remove v c p
  | OpEv p k st => let '(l, out) := sock_event v (c_groups c) p k st in (mkConfig l (c_len c), out)
  | OpLu p k b => let '(l, out) := sock_lu (c_groups c) p k b in (mkConfig l (c_len c), out)
  end.

Fixpoint run (v : variant) (c : config) (ops : list op) : config * list (list out) :=
  match ops with
  | [] => (c, [])
  | o :: r => let '(c1, out1) := step v c o in
              let '(c2, outs) := run v c1 r in (c2, out1 :: outs)
  end.

(* ---------------------------------------------------------------- rtr_mgr_init *)
Inductive init_result := IOk (c : config) | IErr (r : rc) | IUndef.

(* the checking loop over the qsort-ed array: duplicate of the previous preference, or no socket *)
Fixpoint init_check (last : option nat) (l : list group) : bool :=
  match l with
  | [] => true
  | g :: r =>
      let dup := match last with Some q => g_pref g =? q | None => false end in
      if dup then false
      else match g_socks g with
           | [] => false
           | _ => init_check (Some (g_pref g)) r
           end
  end.

(* groups are given as (preference, number of sockets) *)
Definition spec_group (s : nat * nat) : group := mkGroup (fst s) GClosed (repeat fresh_sock (snd s)).

Definition mgr_init (v : variant) (gs : list (nat * nat)) : init_result :=
  match gs with
  | [] => IErr RcError
  | _ =>
      let arr := sort_groups (map spec_group gs) in
      if init_check None arr then IOk (mkConfig (sort_groups arr) (length gs))
      else if fix_init_groups_null v then IErr RcError
      else IUndef   (* err: lrtr_free(config->groups) on the uninitialised field of a malloc'ed struct *)
  end.
