(* MgrTie.v - the decision logic of rtrlib/rtr_mgr.c AS TRANSLATED (Gen/GeneratedMgr.v, tools/c2v_mgr.py) computes
   what the hand-written model Mgr/MgrModel.v computes.  See the end of the file for the list of theorems. *)
From Coq Require Import List Bool Arith ZArith Lia ZifyBool String.
From RtrV Require Import Base.CSem Mgr.MgrEff Gen.GeneratedMgr Mgr.MgrModel.
Import ListNotations.
Local Open Scope string_scope.
Local Open Scope Z_scope.

(* ------------------------------------------------------------------ encoding of model states as heaps *)
Definition sstate_code (s : sstate) : Z :=
  match s with
  | SConnecting => 0 | SEstablished => 1 | SReset => 2 | SSync => 3 | SFastReconnect => 4
  | SErrNoData => 5 | SErrNoIncr => 6 | SErrFatal => 7 | SErrTransport => 8 | SShutdown => 9 | SClosed => 10
  end.
Definition gstatus_code (s : gstatus) : Z :=
  match s with GClosed => 0 | GConnecting => 1 | GEstablished => 2 | GError => 3 end.

(* the codes are the enumerators of the C headers, as read by the translator *)
Lemma codes_are_the_enumerators :
  sstate_code SConnecting = mgr_c_RTR_CONNECTING /\ sstate_code SEstablished = mgr_c_RTR_ESTABLISHED /\
  sstate_code SReset = mgr_c_RTR_RESET /\ sstate_code SSync = mgr_c_RTR_SYNC /\
  sstate_code SFastReconnect = mgr_c_RTR_FAST_RECONNECT /\ sstate_code SErrNoData = mgr_c_RTR_ERROR_NO_DATA_AVAIL /\
  sstate_code SErrNoIncr = mgr_c_RTR_ERROR_NO_INCR_UPDATE_AVAIL /\ sstate_code SErrFatal = mgr_c_RTR_ERROR_FATAL /\
  sstate_code SErrTransport = mgr_c_RTR_ERROR_TRANSPORT /\ sstate_code SShutdown = mgr_c_RTR_SHUTDOWN /\
  sstate_code SClosed = mgr_c_RTR_CLOSED /\
  gstatus_code GClosed = mgr_c_RTR_MGR_CLOSED /\ gstatus_code GConnecting = mgr_c_RTR_MGR_CONNECTING /\
  gstatus_code GEstablished = mgr_c_RTR_MGR_ESTABLISHED /\ gstatus_code GError = mgr_c_RTR_MGR_ERROR.
Proof. repeat match goal with |- _ /\ _ => split end; reflexivity. Qed.

Definition enc_sock (s : sock) : store :=
  [("state", sstate_code (s_state s)); ("last_update", b2z (s_lu s)); ("thread_id", b2z (s_thread s))].
Definition enc_gf (p : nat) (st : gstatus) : store := [("preference", Z.of_nat p); ("status", gstatus_code st)].
Definition enc_group (g : group) : mgroup := mkMG (enc_gf (g_pref g) (g_status g)) (map enc_sock (g_socks g)).
Definition enc (c : store) (l : list group) : mheap := mkMH c (map enc_group l).

(* ------------------------------------------------------------------ lists *)
Lemma nth_error_map' {A B} (f : A -> B) l i : nth_error (map f l) i = option_map f (nth_error l i).
Proof. revert i; induction l as [|x r IH]; intros [|i]; simpl; auto. Qed.
Lemma nth_mid {A} (a : list A) x b : nth_error (a ++ x :: b) (List.length a) = Some x.
Proof. induction a; simpl; auto. Qed.

Lemma hgroup_enc c l i : hgroup (enc c l) (Some i) = option_map enc_group (nth_error l i).
Proof. unfold hgroup, enc; simpl. apply nth_error_map'. Qed.
Lemma hgroup_mid c a x b : hgroup (enc c (a ++ x :: b)) (Some (List.length a)) = Some (enc_group x).
Proof. rewrite hgroup_enc, nth_mid. reflexivity. Qed.

Lemma hg_ok_nth c l i g : nth_error l i = Some g -> hg_ok (enc c l) (Some i) = true.
Proof. intros Hn. unfold hg_ok. rewrite hgroup_enc, Hn. reflexivity. Qed.
Lemma hgf_status c l i g : nth_error l i = Some g -> hgf (enc c l) (Some i) "status" = gstatus_code (g_status g).
Proof. intros Hn. unfold hgf. rewrite hgroup_enc, Hn. reflexivity. Qed.
Lemma hgf_pref c l i g : nth_error l i = Some g -> hgf (enc c l) (Some i) "preference" = Z.of_nat (g_pref g).
Proof. intros Hn. unfold hgf. rewrite hgroup_enc, Hn. reflexivity. Qed.
Lemma hscount_nth c l i g : nth_error l i = Some g -> hscount (enc c l) (Some i) = List.length (g_socks g).
Proof. intros Hn. unfold hscount. rewrite hgroup_enc, Hn. simpl. apply map_length. Qed.
Lemma hsock_nth c l i g k :
  nth_error l i = Some g -> hsock (enc c l) (Some i) k = option_map enc_sock (nth_error (g_socks g) k).
Proof. intros Hn. unfold hsock. rewrite hgroup_enc, Hn. simpl. apply nth_error_map'. Qed.
Lemma hnodes_enc c l : hnodes (enc c l) = List.length l.
Proof. unfold hnodes, enc; simpl. apply map_length. Qed.

(* ------------------------------------------------------------------ codes under the C conversions *)
Lemma code_closed s : (wrapu 32 (gstatus_code s) =? wrapu 32 0) = st_closed s.
Proof. destruct s; reflexivity. Qed.
Lemma code_connecting s : (wrapu 32 (gstatus_code s) =? wrapu 32 1) = match s with GConnecting => true | _ => false end.
Proof. destruct s; reflexivity. Qed.
Lemma code_established s : (wrapu 32 (gstatus_code s) =? wrapu 32 2) = st_established s.
Proof. destruct s; reflexivity. Qed.
Lemma code_error s : (wrapu 32 (gstatus_code s) =? wrapu 32 3) = st_error s.
Proof. destruct s; reflexivity. Qed.
Lemma wrapu_code s : wrapu 32 (gstatus_code s) = gstatus_code s.
Proof. destruct s; reflexivity. Qed.

Lemma wraps_pref p : (p < 256)%nat -> wraps 32 (Z.of_nat p) = Z.of_nat p.
Proof.
  intros Hp. unfold wraps.
  assert (H32 : 2 ^ 32 = 4294967296) by reflexivity.
  assert (H31 : 2 ^ (32 - 1) = 2147483648) by reflexivity.
  rewrite H32, H31, Z.mod_small by lia.
  destruct (Z.of_nat p <? 2147483648) eqn:E; [reflexivity|lia].
Qed.

(* ------------------------------------------------------------------ 1. rtr_mgr_config_status_is_synced *)
Section Pure.
Context {E : Type} (H : @handler E).

Lemma synced_cond s :
  ((sget "last_update" (enc_sock s) =? wraps 64 0)
   || (negb (wrapu 32 (sget "state" (enc_sock s)) =? wrapu 32 1)
       && negb (wrapu 32 (sget "state" (enc_sock s)) =? wrapu 32 2)
       && negb (wrapu 32 (sget "state" (enc_sock s)) =? wrapu 32 3))) = negb (sock_synced s).
Proof. destruct s as [st lu th]; destruct st, lu; reflexivity. Qed.

Lemma synced_loop c l gi g :
  nth_error l gi = Some g ->
  forall todo done, g_socks g = (done ++ todo)%list ->
  mrun H (rtr_mgr_config_status_is_synced__loop1 (List.length todo) (List.length done) (Some gi) (enc c l)) =
  Some ((if forallb sock_synced todo then None else Some 0, tt), enc c l, []).
Proof.
  intros Hn. induction todo as [|s rest IH]; intros done Hs.
  - reflexivity.
  - cbn [List.length rtr_mgr_config_status_is_synced__loop1 forallb].
    assert (Hk : hsock (enc c l) (Some gi) (List.length done) = Some (enc_sock s)).
    { rewrite (hsock_nth _ _ _ _ _ Hn), Hs, nth_mid. reflexivity. }
    unfold hs_ok, hsf. rewrite Hk. cbn [mguard].
    rewrite synced_cond.
    destruct (sock_synced s) eqn:Es; cbn [negb andb].
    + specialize (IH (done ++ [s])%list).
      rewrite app_length in IH. cbn [List.length] in IH. rewrite Nat.add_1_r in IH.
      apply IH. rewrite <- app_assoc. exact Hs.
    + reflexivity.
Qed.

Theorem is_synced_tie c l gi g :
  nth_error l gi = Some g ->
  mrun H (rtr_mgr_config_status_is_synced_gen (Some gi) (enc c l)) = Some (b2z (group_synced g), enc c l, []).
Proof.
  intros Hn. unfold rtr_mgr_config_status_is_synced_gen.
  rewrite (hg_ok_nth _ _ _ _ Hn). cbn [mguard].
  rewrite mrun_bind, (hscount_nth _ _ _ _ Hn).
  pose proof (synced_loop c l gi g Hn (g_socks g) [] eq_refl) as L. cbn [List.length app] in L. rewrite L.
  unfold group_synced. destruct (forallb sock_synced (g_socks g)); reflexivity.
Qed.

(* ------------------------------------------------------------------ 2. is_some_rtr_mgr_group_established *)
Lemma some_established_loop c : forall todo done,
  mrun H (is_some_rtr_mgr_group_established__loop1 (List.length todo) (List.length done) (enc c (done ++ todo))) =
  Some ((if existsb (fun x => st_established (g_status x)) todo then Some 1 else None, tt), enc c (done ++ todo), []).
Proof.
  induction todo as [|x rest IH]; intros done.
  - reflexivity.
  - cbn [List.length is_some_rtr_mgr_group_established__loop1 existsb].
    rewrite (hg_ok_nth c _ _ x (nth_mid done x rest)). cbn [mguard].
    rewrite (hgf_status c _ _ x (nth_mid done x rest)), code_established.
    destruct (st_established (g_status x)); cbn [orb].
    + reflexivity.
    + specialize (IH (done ++ [x])%list).
      rewrite app_length in IH. cbn [List.length] in IH. rewrite Nat.add_1_r, <- app_assoc in IH. exact IH.
Qed.

Theorem is_some_established_tie c l :
  mrun H (is_some_rtr_mgr_group_established_gen (enc c l)) =
  Some (b2z (existsb (fun x => st_established (g_status x)) l), enc c l, []).
Proof.
  unfold is_some_rtr_mgr_group_established_gen. rewrite mrun_bind, hnodes_enc.
  pose proof (some_established_loop c l []) as L. cbn [List.length app] in L. rewrite L.
  destruct (existsb _ l); reflexivity.
Qed.

(* ------------------------------------------------------------------ 3. get_best_inactive_rtr_mgr_group *)
(* the first group other than number gi whose status is CLOSED, by index *)
Fixpoint first_closed_from (gi i : nat) (l : list group) : option nat :=
  match l with
  | [] => None
  | x :: r => if negb (Nat.eqb i gi) && st_closed (g_status x) then Some i else first_closed_from gi (S i) r
  end.

Lemma best_inactive_loop c gi : forall todo done,
  mrun H (get_best_inactive_rtr_mgr_group__loop1 (List.length todo) (List.length done) (Some gi) (enc c (done ++ todo))) =
  Some ((match first_closed_from gi (List.length done) todo with Some i => Some (Some i) | None => None end, tt),
        enc c (done ++ todo), []).
Proof.
  induction todo as [|x rest IH]; intros done.
  - reflexivity.
  - cbn [List.length get_best_inactive_rtr_mgr_group__loop1 first_closed_from gp_eqb].
    rewrite (hg_ok_nth c _ _ x (nth_mid done x rest)).
    rewrite (hgf_status c _ _ x (nth_mid done x rest)), code_closed.
    rewrite Bool.implb_true_r. cbn [mguard].
    destruct (negb (List.length done =? gi)%nat && st_closed (g_status x)).
    + reflexivity.
    + specialize (IH (done ++ [x])%list).
      rewrite app_length in IH. cbn [List.length] in IH. rewrite Nat.add_1_r, <- app_assoc in IH. exact IH.
Qed.

Theorem get_best_inactive_tie c l gi :
  mrun H (get_best_inactive_rtr_mgr_group_gen (Some gi) (enc c l)) = Some (first_closed_from gi 0 l, enc c l, []).
Proof.
  unfold get_best_inactive_rtr_mgr_group_gen. rewrite mrun_bind, hnodes_enc.
  pose proof (best_inactive_loop c gi l []) as L. cbn [List.length app] in L. rewrite L.
  destruct (first_closed_from gi 0 l); reflexivity.
Qed.
End Pure.

(* ================================================================== the calls: what rtr_start, rtr_stop and
   status_fp do (Mgr/MgrModel.v's reading of rtr.c), as handlers over heaps *)
Definition sstate_of (z : Z) : sstate :=
  if z =? 0 then SConnecting else if z =? 1 then SEstablished else if z =? 2 then SReset else if z =? 3 then SSync
  else if z =? 4 then SFastReconnect else if z =? 5 then SErrNoData else if z =? 6 then SErrNoIncr
  else if z =? 7 then SErrFatal else if z =? 8 then SErrTransport else if z =? 9 then SShutdown else SClosed.
Definition gstatus_of (z : Z) : gstatus :=
  if z =? 0 then GClosed else if z =? 1 then GConnecting else if z =? 2 then GEstablished else GError.
Definition dec_sock (s : store) : sock :=
  mkSock (sstate_of (sget "state" s)) (z2b (sget "last_update" s)) (z2b (sget "thread_id" s)).
Definition dec_group (g : mgroup) : group :=
  mkGroup (Z.to_nat (sget "preference" (mg_f g))) (gstatus_of (sget "status" (mg_f g))) (map dec_sock (mg_socks g)).
Definition dec (h : mheap) : list group := map dec_group (mh_groups h).

Lemma gstatus_of_code st : gstatus_of (gstatus_code st) = st.
Proof. destruct st; reflexivity. Qed.
Lemma dec_enc_sock s : dec_sock (enc_sock s) = s.
Proof. destruct s as [st lu th]; destruct st, lu, th; reflexivity. Qed.
Lemma dec_enc_group g : dec_group (enc_group g) = g.
Proof.
  destruct g as [p st socks]. unfold dec_group, enc_group. cbn [mg_f mg_socks g_pref g_status g_socks].
  change (sget "preference" (enc_gf p st)) with (Z.of_nat p).
  change (sget "status" (enc_gf p st)) with (gstatus_code st).
  rewrite Nat2Z.id, gstatus_of_code, map_map. f_equal.
  induction socks as [|s r IH]; [reflexivity|]. cbn [map]. now rewrite dec_enc_sock, IH.
Qed.
Lemma dec_enc c l : dec (enc c l) = l.
Proof.
  unfold dec, enc. cbn [mh_groups]. rewrite map_map.
  induction l as [|g r IH]; [reflexivity|]. cbn [map]. now rewrite dec_enc_group, IH.
Qed.

Lemma split_nth_mid {A} (a : list A) x b : split_nth (List.length a) (a ++ x :: b) = Some (a, x, b).
Proof. induction a as [|y a IH]; [reflexivity|]. cbn [List.length app split_nth]. now rewrite IH. Qed.

(* the user's callback: it only observes *)
Definition H0 : @handler out := fun f args h =>
  if String.eqb f "status_fp" then
    match args with
    | [AGroup (Some gi); AInt st; ASock sk; AInt _] =>
        match nth_error (dec h) gi, nth_error (dec h) (fst sk) with
        | Some g, Some sg => Some (0, h, [OStatus (g_pref g) (gstatus_of st) (Some (g_pref sg, snd sk)) (g_socks g)])
        | _, _ => None
        end
    | _ => None
    end
  else None.

(* rtr_start: fails when the socket has a thread; else the thread exists and its first action is state = CONNECTING
   (unless SHUTDOWN); no callback *)
Definition h_start (h : mheap) (i k : nat) : option (Z * mheap * list out) :=
  match split_nth i (dec h) with
  | Some (L, G, R) =>
      match split_nth k (g_socks G) with
      | Some (dn, s, rest) =>
          if s_thread s then Some (-1, h, [OStart (g_pref G) k false])
          else Some (0, enc (mh_conf h) (L ++ mkGroup (g_pref G) (g_status G) (dn ++ start_sock s :: rest) :: R),
                     [OStart (g_pref G) k true])
      | None => None
      end
  | None => None
  end.

(* rtr_stop: rtr_change_socket_state(SHUTDOWN) - nothing if the state is SHUTDOWN already, else the state is set and
   THE TRANSLATED rtr_mgr_cb runs (re-entrantly, its own calls handled by H0); then, only with a thread: the thread is
   joined and the socket becomes closed_sock *)
Definition h_stop (behalf : option nat) (h : mheap) (i k : nat) : option (Z * mheap * list out) :=
  match split_nth i (dec h) with
  | Some (L, G, R) =>
      match split_nth k (g_socks G) with
      | Some (dn, s, rest) =>
          let r1 :=
            if is_shutdown (s_state s) then Some (h, [])
            else
              let s' := mkSock SShutdown (s_lu s) (s_thread s) in
              let h1 := enc (mh_conf h) (L ++ mkGroup (g_pref G) (g_status G) (dn ++ s' :: rest) :: R) in
              match mrun H0 (rtr_mgr_cb_gen (i, k) (sstate_code SShutdown) (Some i) h1) with
              | Some (_, h2, o) => Some (h2, o)
              | None => None
              end in
          match r1 with
          | Some (h2, o1) =>
              if s_thread s then
                match split_nth i (dec h2) with
                | Some (L2, G2, R2) =>
                    match split_nth k (g_socks G2) with
                    | Some (d2, _, r2) =>
                        Some (0, enc (mh_conf h) (L2 ++ mkGroup (g_pref G2) (g_status G2) (d2 ++ closed_sock :: r2) :: R2),
                              OStop (g_pref G) k behalf :: o1)
                    | None => None
                    end
                | None => None
                end
              else Some (0, h2, OStop (g_pref G) k behalf :: o1)
          | None => None
          end
      | None => None
      end
  | None => None
  end.

Definition HM (behalf : option nat) : @handler out := fun f args h =>
  if String.eqb f "status_fp" then H0 f args h
  else if String.eqb f "rtr_start" then match args with [ASock (i, k)] => h_start h i k | _ => None end
  else if String.eqb f "rtr_stop" then match args with [ASock (i, k)] => h_stop behalf h i k | _ => None end
  else None.

Definition handles_status (H : @handler out) := forall a h, H "status_fp" a h = H0 "status_fp" a h.
Lemma H0_handles_status : handles_status H0. Proof. intros a h; reflexivity. Qed.
Lemma HM_handles_status bh : handles_status (HM bh). Proof. intros a h; reflexivity. Qed.

(* the configuration has a status callback (the model reports every status change) *)
Definition conf_ok (c : store) : Prop := z2b (sget "status_fp" c) = true.

Lemma H0_status c l gi st sk d :
  H0 "status_fp" [AGroup (Some gi); AInt st; ASock sk; AInt d] (enc c l) =
  match nth_error l gi, nth_error l (fst sk) with
  | Some g, Some sg => Some (0, enc c l, [OStatus (g_pref g) (gstatus_of st) (Some (g_pref sg, snd sk)) (g_socks g)])
  | _, _ => None
  end.
Proof. unfold H0. rewrite dec_enc. reflexivity. Qed.

Lemma hgset_mid c a g b st :
  hgset (enc c (a ++ g :: b)) (Some (List.length a)) "status" (gstatus_code st) =
  enc c (a ++ mkGroup (g_pref g) st (g_socks g) :: b).
Proof.
  unfold hgset, enc. cbn [mh_conf mh_groups]. f_equal. rewrite !map_app. cbn [map].
  rewrite <- (map_length enc_group a).
  induction (map enc_group a) as [|y r IH]; [reflexivity|]. cbn [List.length app upd_nth]. now rewrite IH.
Qed.

(* ------------------------------------------------------------------ set_status *)
Section WithStatus.
Context (H : @handler out) (HS : handles_status H) (c : store) (Hc : conf_ok c).

Lemma set_status_ok a g b st sk sg :
  nth_error (a ++ mkGroup (g_pref g) st (g_socks g) :: b) (fst sk) = Some sg ->
  mrun H (set_status_gen (Some (List.length a)) (gstatus_code st) sk (enc c (a ++ g :: b))) =
  Some (0, enc c (a ++ mkGroup (g_pref g) st (g_socks g) :: b),
        [OStatus (g_pref g) st (Some (g_pref sg, snd sk)) (g_socks g)]).
Proof.
  intros Hsk. unfold set_status_gen.
  rewrite (hg_ok_nth c _ _ g (nth_mid a g b)). cbn [mguard].
  rewrite hgset_mid. unfold hcf. cbn [mh_conf enc]. rewrite Hc. cbn [mguard mrun].
  rewrite HS.
  change (mkMH c (map enc_group (a ++ mkGroup (g_pref g) st (g_socks g) :: b)))
    with (enc c (a ++ mkGroup (g_pref g) st (g_socks g) :: b)).
  rewrite H0_status, nth_mid, Hsk, gstatus_of_code. reflexivity.
Qed.

(* the event's own group: by_ = (its preference, k) *)
Lemma set_status_self a g b st k :
  mrun H (set_status_gen (Some (List.length a)) (gstatus_code st) (List.length a, k) (enc c (a ++ g :: b))) =
  Some (0, enc c (a ++ fst (set_status g st (Some (g_pref g, k))) :: b), snd (set_status g st (Some (g_pref g, k)))).
Proof.
  rewrite (set_status_ok a g b st (List.length a, k) (mkGroup (g_pref g) st (g_socks g))).
  - reflexivity.
  - apply nth_mid.
Qed.

(* ------------------------------------------------------------------ _rtr_mgr_cb_state_shutdown *)
Lemma down_cond v (Hv : fix_shutdown_counts_closed v = true) s :
  (negb (wrapu 32 (sget "state" (enc_sock s)) =? wrapu 32 9)
   && negb (wrapu 32 (sget "state" (enc_sock s)) =? wrapu 32 10)) = negb (is_down v (s_state s)).
Proof.
  destruct s as [st lu th]. unfold is_down. cbn [s_state].
  destruct st; try rewrite Hv; reflexivity.
Qed.

Lemma shutdown_loop v (Hv : fix_shutdown_counts_closed v = true) l gi g sk :
  nth_error l gi = Some g ->
  forall todo done ad, g_socks g = (done ++ todo)%list ->
  mrun H (_rtr_mgr_cb_state_shutdown__loop1 (List.length todo) (List.length done) sk (Some gi) ad (enc c l)) =
  Some ((None, if forallb (fun s => is_down v (s_state s)) todo then ad else 0), enc c l, []).
Proof.
  intros Hn. induction todo as [|s rest IH]; intros done ad Hs.
  - reflexivity.
  - cbn [List.length _rtr_mgr_cb_state_shutdown__loop1 forallb].
    assert (Hk : hsock (enc c l) (Some gi) (List.length done) = Some (enc_sock s)).
    { rewrite (hsock_nth _ _ _ _ _ Hn), Hs, nth_mid. reflexivity. }
    unfold hs_ok, hsf. rewrite Hk. rewrite Bool.implb_true_r. cbn [mguard].
    rewrite (down_cond v Hv).
    destruct (is_down v (s_state s)) eqn:Es; cbn [negb andb].
    + specialize (IH (done ++ [s])%list ad).
      rewrite app_length in IH. cbn [List.length] in IH. rewrite Nat.add_1_r in IH.
      apply IH. rewrite <- app_assoc. exact Hs.
    + reflexivity.
Qed.

Theorem cb_shutdown_tie v (Hv : fix_shutdown_counts_closed v = true) a g b k :
  mrun H (_rtr_mgr_cb_state_shutdown_gen (List.length a, k) (Some (List.length a)) (enc c (a ++ g :: b))) =
  Some (0, enc c (a ++ fst (cb_shutdown v g k) :: b), snd (cb_shutdown v g k)).
Proof.
  unfold _rtr_mgr_cb_state_shutdown_gen.
  pose proof (nth_mid a g b) as Hn.
  rewrite (hg_ok_nth c _ _ g Hn). cbn [mguard].
  rewrite mrun_bind, (hscount_nth c _ _ g Hn).
  pose proof (shutdown_loop v Hv _ _ g (List.length a, k) Hn (g_socks g) [] (b2z (z2b 1)) eq_refl) as L.
  cbn [List.length app] in L. rewrite L. clear L.
  unfold cb_shutdown.
  destruct (forallb (fun s => is_down v (s_state s)) (g_socks g)).
  - change (z2b (b2z (z2b 1))) with true. cbv beta iota.
    rewrite mrun_bind. change (wrapu 32 0) with (gstatus_code GClosed).
    rewrite set_status_self. reflexivity.
  - change (z2b 0) with false. cbv beta iota.
    rewrite (hg_ok_nth c _ _ g Hn). cbn [mguard].
    rewrite mrun_bind, (hgf_status c _ _ g Hn), set_status_self. reflexivity.
Qed.

(* ------------------------------------------------------------------ _rtr_mgr_cb_state_connecting *)
Theorem cb_connecting_tie a g b k :
  mrun H (_rtr_mgr_cb_state_connecting_gen (List.length a, k) (Some (List.length a)) (enc c (a ++ g :: b))) =
  Some (0, enc c (fst (cb_connecting a g b (g_pref g, k))), snd (cb_connecting a g b (g_pref g, k))).
Proof.
  unfold _rtr_mgr_cb_state_connecting_gen.
  pose proof (nth_mid a g b) as Hn.
  rewrite (hg_ok_nth c _ _ g Hn). cbn [mguard].
  rewrite (hgf_status c _ _ g Hn), code_error.
  unfold cb_connecting, report.
  destruct (st_error (g_status g)); rewrite mrun_bind.
  - change (wrapu 32 3) with (gstatus_code GError). rewrite set_status_self. reflexivity.
  - change (wrapu 32 1) with (gstatus_code GConnecting). rewrite set_status_self. reflexivity.
Qed.
End WithStatus.

(* ------------------------------------------------------------------ rtr_mgr_start_sockets *)
Lemma app_snoc {A} (a : list A) x b : ((a ++ [x]) ++ b = a ++ x :: b)%list.
Proof. now rewrite <- app_assoc. Qed.
Lemma len_snoc {A} (a : list A) x : List.length (a ++ [x]) = S (List.length a).
Proof. rewrite app_length. cbn [List.length]. lia. Qed.

Section Full.
Context (v : variant) (Hv : fix_shutdown_counts_closed v = true) (c : store) (Hc : conf_ok c).


Lemma h_start_ok a b p st dn s rest :
  h_start (enc c (a ++ mkGroup p st (dn ++ s :: rest) :: b)) (List.length a) (List.length dn) =
  if s_thread s then Some (-1, enc c (a ++ mkGroup p st (dn ++ s :: rest) :: b), [OStart p (List.length dn) false])
  else Some (0, enc c (a ++ mkGroup p st (dn ++ start_sock s :: rest) :: b), [OStart p (List.length dn) true]).
Proof.
  unfold h_start. rewrite dec_enc, split_nth_mid. cbn [g_socks g_pref g_status]. rewrite split_nth_mid. reflexivity.
Qed.

Lemma hs_ok_mid a b p st dn s rest :
  hs_ok (enc c (a ++ mkGroup p st (dn ++ s :: rest) :: b)) (Some (List.length a)) (List.length dn) = true.
Proof.
  unfold hs_ok. rewrite (hsock_nth c _ _ _ _ (nth_mid a _ b)). cbn [g_socks]. rewrite nth_mid. reflexivity.
Qed.

Lemma start_loop_ok bh a b p st : forall todo done,
  mrun (HM bh) (rtr_mgr_start_sockets__loop1 (List.length todo) (List.length done) (Some (List.length a))
                  (enc c (a ++ mkGroup p st (done ++ todo) :: b))) =
  Some ((if snd (fst (start_loop p (List.length done) todo)) then None else Some (-1), tt),
        enc c (a ++ mkGroup p st (done ++ fst (fst (start_loop p (List.length done) todo))) :: b),
        snd (start_loop p (List.length done) todo)).
Proof.
  induction todo as [|s rest IH]; intros done.
  - reflexivity.
  - cbn [List.length rtr_mgr_start_sockets__loop1 start_loop].
    rewrite hs_ok_mid. cbn [mguard mrun hsptr].
    change (HM bh "rtr_start" [ASock (List.length a, List.length done)]) with
      (fun h => h_start h (List.length a) (List.length done)).
    cbv beta. rewrite h_start_ok.
    destruct (s_thread s).
    + reflexivity.
    + change (negb (0 =? 0)) with false. cbv iota.
      specialize (IH (done ++ [start_sock s])%list). rewrite len_snoc, app_snoc in IH. rewrite IH.
      destruct (start_loop p (S (List.length done)) rest) as [[r ok] o]. cbn [fst snd].
      rewrite app_snoc. reflexivity.
Qed.

Theorem start_sockets_tie bh a g b :
  mrun (HM bh) (rtr_mgr_start_sockets_gen (Some (List.length a)) (enc c (a ++ g :: b))) =
  Some ((if snd (fst (start_sockets g)) then 0 else -1), enc c (a ++ fst (fst (start_sockets g)) :: b),
        snd (start_sockets g)).
Proof.
  unfold rtr_mgr_start_sockets_gen.
  pose proof (nth_mid a g b) as Hn.
  rewrite (hg_ok_nth c _ _ g Hn). cbn [mguard].
  rewrite mrun_bind, (hscount_nth c _ _ g Hn).
  pose proof (start_loop_ok bh a b (g_pref g) (g_status g) (g_socks g) []) as L.
  cbn [List.length app] in L. destruct g as [p st socks]. cbn [g_pref g_status g_socks] in *.
  rewrite L. clear L. unfold start_sockets. cbn [g_pref g_status g_socks].
  destruct (start_loop p 0 socks) as [[r ok] o]. cbn [fst snd].
  destruct ok; cbv beta iota.
  - rewrite (hg_ok_nth c _ _ _ (nth_mid a _ b)). cbn [mguard mrun].
    change (wrapu 32 1) with (gstatus_code GConnecting). rewrite hgset_mid. cbn [g_pref g_socks].
    rewrite app_nil_r. reflexivity.
  - cbn [mrun]. rewrite app_nil_r. reflexivity.
Qed.

(* ------------------------------------------------------------------ rtr_stop, the loop over a group's sockets *)
Lemma cb_gen_shutdown sk g h :
  rtr_mgr_cb_gen sk (sstate_code SShutdown) (Some g) h =
  mbind (_rtr_mgr_cb_state_shutdown_gen sk (Some g) h) (fun _ h => MRet 0 h).
Proof. reflexivity. Qed.

Lemma h_stop_ok bh a b p st dn s rest :
  h_stop bh (enc c (a ++ mkGroup p st (dn ++ s :: rest) :: b)) (List.length a) (List.length dn) =
  Some (0, enc c (a ++ mkGroup p (snd (fst (stop_one v bh p st dn s rest)))
                          (dn ++ fst (fst (stop_one v bh p st dn s rest)) :: rest) :: b),
        snd (stop_one v bh p st dn s rest)).
Proof.
  unfold h_stop. rewrite dec_enc, split_nth_mid. cbn [g_socks g_pref g_status]. rewrite split_nth_mid.
  unfold stop_one. cbn [mh_conf enc].
  destruct (is_shutdown (s_state s)).
  - destruct (s_thread s); cbn [fst snd].
    + change (mkMH c (map enc_group (a ++ mkGroup p st (dn ++ s :: rest) :: b)))
        with (enc c (a ++ mkGroup p st (dn ++ s :: rest) :: b)).
      rewrite dec_enc, split_nth_mid. cbn [g_socks g_pref g_status]. rewrite split_nth_mid. reflexivity.
    + reflexivity.
  - change (mkMH c (map enc_group (a ++ mkGroup p st (dn ++ mkSock SShutdown (s_lu s) (s_thread s) :: rest) :: b)))
      with (enc c (a ++ mkGroup p st (dn ++ mkSock SShutdown (s_lu s) (s_thread s) :: rest) :: b)).
    rewrite cb_gen_shutdown, mrun_bind.
    rewrite (cb_shutdown_tie H0 H0_handles_status c Hc v Hv).
    unfold cb_shutdown, set_status. cbn [fst snd g_pref g_status g_socks mrun].
    destruct (s_thread s); cbn [fst snd].
    + rewrite dec_enc, split_nth_mid. cbn [g_socks g_pref g_status]. rewrite split_nth_mid.
      rewrite app_nil_r. reflexivity.
    + rewrite app_nil_r. reflexivity.
Qed.

Lemma stop_loop_ok bh a b p sk gg : forall todo done st,
  mrun (HM bh) (rtr_mgr_close_less_preferable_groups__loop2 (List.length todo) (List.length done) sk gg
                  (Some (List.length a)) (enc c (a ++ mkGroup p st (done ++ todo) :: b))) =
  Some ((None, tt),
        enc c (a ++ mkGroup p (snd (fst (stop_loop v bh p st done todo))) (fst (fst (stop_loop v bh p st done todo))) :: b),
        snd (stop_loop v bh p st done todo)).
Proof.
  induction todo as [|s rest IH]; intros done st.
  - cbn [List.length rtr_mgr_close_less_preferable_groups__loop2 stop_loop mrun fst snd]. now rewrite app_nil_r.
  - cbn [List.length rtr_mgr_close_less_preferable_groups__loop2 stop_loop].
    rewrite hs_ok_mid. cbn [mguard mrun hsptr].
    change (HM bh "rtr_stop" [ASock (List.length a, List.length done)]) with
      (fun h => h_stop bh h (List.length a) (List.length done)).
    cbv beta. rewrite h_stop_ok.
    destruct (stop_one v bh p st done s rest) as [[s2 st1] o1]. cbn [fst snd].
    specialize (IH (done ++ [s2])%list st1). rewrite len_snoc, app_snoc in IH. rewrite IH.
    destruct (stop_loop v bh p st1 (done ++ [s2]) rest) as [[socks st2] o2]. cbn [fst snd]. reflexivity.
Qed.
End Full.

(* ------------------------------------------------------------------ rtr_mgr_close_less_preferable_groups *)
Definition prefs (l : list group) : list nat := map g_pref l.
Definition in_range (l : list group) : Prop := Forall (fun q => (q < 256)%nat) (prefs l).

Lemma prefs_mid a x y b : g_pref x = g_pref y -> prefs (a ++ x :: b) = prefs (a ++ y :: b).
Proof. intros Hxy. unfold prefs. rewrite !map_app. cbn [map]. now rewrite Hxy. Qed.
Lemma nth_prefs l i p : nth_error (prefs l) i = Some p -> exists g, nth_error l i = Some g /\ g_pref g = p.
Proof.
  unfold prefs. rewrite nth_error_map'. destruct (nth_error l i) as [g|]; [|discriminate].
  cbn [option_map]. intros [= <-]. now exists g.
Qed.
Lemma range_nth l i g : in_range l -> nth_error l i = Some g -> (g_pref g < 256)%nat.
Proof.
  intros Hr Hn. unfold in_range in Hr. rewrite Forall_forall in Hr. apply Hr.
  unfold prefs. apply in_map. eapply nth_error_In; eauto.
Qed.
Lemma gtb_nat a b : (Z.of_nat a >? Z.of_nat b) = (b <? a)%nat.
Proof. destruct (Nat.ltb_spec b a); [apply Z.gtb_lt; lia | rewrite Z.gtb_ltb; apply Z.ltb_ge; lia]. Qed.
Lemma ltb_nat a b : (Z.of_nat a <? Z.of_nat b) = (a <? b)%nat.
Proof. destruct (Nat.ltb_spec a b); [apply Z.ltb_lt; lia | apply Z.ltb_ge; lia]. Qed.

Section Close.
Context (v : variant) (Hv : fix_shutdown_counts_closed v = true) (c : store) (Hc : conf_ok c).

Lemma stop_group_pref bh g : g_pref (fst (stop_group v bh g)) = g_pref g.
Proof. unfold stop_group. destruct (stop_loop v bh (g_pref g) (g_status g) [] (g_socks g)) as [[s st] o]. reflexivity. Qed.
Lemma close_one_pref p by_ g : g_pref (fst (close_one v p by_ g)) = g_pref g.
Proof.
  unfold close_one. destruct (negb (st_closed (g_status g)) && (p <? g_pref g)%nat); [|reflexivity].
  pose proof (stop_group_pref (Some p) g) as Hs.
  destruct (stop_group v (Some p) g) as [g1 o1]. cbn [fst] in Hs. unfold set_status. cbn [fst g_pref]. exact Hs.
Qed.

Lemma map_out_cons {A} (f : A -> A * list out) x r :
  map_out f (x :: r) = (fst (f x) :: fst (map_out f r), snd (f x) ++ snd (map_out f r))%list.
Proof. cbn [map_out]. destruct (f x), (map_out f r). reflexivity. Qed.

Lemma close_loop_ok p gi k : forall todo done,
  nth_error (prefs (done ++ todo)) gi = Some p -> in_range (done ++ todo) ->
  mrun (HM (Some p)) (rtr_mgr_close_less_preferable_groups__loop1 (List.length todo) (List.length done) (gi, k)
                        (Some gi) (enc c (done ++ todo))) =
  Some ((None, tt), enc c (done ++ fst (map_out (close_one v p (p, k)) todo)),
        snd (map_out (close_one v p (p, k)) todo)).
Proof.
  induction todo as [|cur rest IH]; intros done Hgi Hr.
  - reflexivity.
  - cbn [List.length rtr_mgr_close_less_preferable_groups__loop1].
    pose proof (nth_mid done cur rest) as Hn.
    destruct (nth_prefs _ _ _ Hgi) as [gg [Hgg Hpg]].
    rewrite (hg_ok_nth c _ _ cur Hn), (hg_ok_nth c _ _ gg Hgg). rewrite !Bool.implb_true_r. cbn [mguard].
    rewrite (hgf_status c _ _ cur Hn), (hgf_pref c _ _ cur Hn), (hgf_pref c _ _ gg Hgg), code_closed.
    rewrite (wraps_pref _ (range_nth _ _ _ Hr Hn)), (wraps_pref _ (range_nth _ _ _ Hr Hgg)), Hpg, gtb_nat.
    cbn [gp_eqb].
    assert (Hcond : (negb (st_closed (g_status cur)) && negb (List.length done =? gi)%nat && (p <? g_pref cur)%nat)
                    = (negb (st_closed (g_status cur)) && (p <? g_pref cur)%nat)).
    { destruct (Nat.eqb_spec (List.length done) gi) as [He|He]; [|now rewrite andb_true_r].
      subst gi. rewrite Hn in Hgg. injection Hgg as <-. rewrite Hpg, Nat.ltb_irrefl, !andb_false_r. reflexivity. }
    rewrite Hcond. clear Hcond. rewrite map_out_cons. cbn [fst snd].
    destruct (negb (st_closed (g_status cur)) && (p <? g_pref cur)%nat) eqn:Ecl.
    + cbn [mguard]. rewrite mrun_bind, (hscount_nth c _ _ cur Hn).
      pose proof (stop_loop_ok v Hv c Hc (Some p) done rest (g_pref cur) (gi, k) (Some gi) (g_socks cur) [] (g_status cur)) as L.
      cbn [List.length app] in L. destruct cur as [pc stc socks]. cbn [g_pref g_status g_socks] in *.
      rewrite L. clear L.
      destruct (stop_loop v (Some p) pc stc [] socks) as [[socks' st'] o1] eqn:Est. cbn [fst snd]. cbv beta iota.
      assert (Hf : close_one v p (p, k) (mkGroup pc stc socks) =
                   (mkGroup pc GClosed socks', o1 ++ [OStatus pc GClosed (Some (p, k)) socks'])%list).
      { unfold close_one, stop_group, set_status. cbn [g_pref g_status g_socks]. rewrite Ecl, Est. reflexivity. }
      rewrite Hf. cbn [fst snd].
      rewrite mrun_bind. change (wrapu 32 0) with (gstatus_code GClosed).
      assert (Hgi' : nth_error (prefs (done ++ mkGroup pc GClosed socks' :: rest)) gi = Some p).
      { rewrite <- Hgi. f_equal. apply prefs_mid. reflexivity. }
      destruct (nth_prefs _ _ _ Hgi') as [sg [Hsg Hpsg]].
      rewrite (set_status_ok (HM (Some p)) (HM_handles_status _) c Hc done (mkGroup pc st' socks') rest GClosed (gi, k) sg Hsg).
      cbn [g_pref g_socks fst snd]. rewrite Hpsg.
      specialize (IH (done ++ [mkGroup pc GClosed socks'])%list). rewrite len_snoc, app_snoc in IH.
      rewrite IH; [|exact Hgi'|].
      * rewrite app_snoc, <- !app_assoc. reflexivity.
      * unfold in_range in *. rewrite (prefs_mid done (mkGroup pc GClosed socks') (mkGroup pc stc socks) rest eq_refl). exact Hr.
    + assert (Hf : close_one v p (p, k) cur = (cur, [])).
      { unfold close_one. rewrite Ecl. reflexivity. }
      rewrite Hf. cbn [fst snd app].
      specialize (IH (done ++ [cur])%list). rewrite len_snoc, app_snoc in IH. rewrite (IH Hgi Hr).
      rewrite app_snoc. reflexivity.
Qed.

Theorem close_less_tie p gi k l :
  nth_error (prefs l) gi = Some p -> in_range l ->
  mrun (HM (Some p)) (rtr_mgr_close_less_preferable_groups_gen (gi, k) (Some gi) (enc c l)) =
  Some (0, enc c (fst (map_out (close_one v p (p, k)) l)), snd (map_out (close_one v p (p, k)) l)).
Proof.
  intros Hgi Hr. unfold rtr_mgr_close_less_preferable_groups_gen. rewrite mrun_bind, hnodes_enc.
  pose proof (close_loop_ok p gi k l [] Hgi Hr) as L. cbn [List.length app] in L. rewrite L.
  cbn [mrun]. now rewrite app_nil_r.
Qed.

(* map_out over the whole list = over what precedes and what follows the event's group, which is left alone *)
Lemma map_out_app {A} (f : A -> A * list out) a b :
  map_out f (a ++ b) = (fst (map_out f a) ++ fst (map_out f b), snd (map_out f a) ++ snd (map_out f b))%list.
Proof.
  induction a as [|x r IH]; cbn [app map_out fst snd].
  - now destruct (map_out f b).
  - rewrite IH. destruct (f x) as [x' o1]. destruct (map_out f r) as [r' o2]. destruct (map_out f b) as [b' o3].
    cbn [fst snd app]. now rewrite app_assoc.
Qed.

Lemma establish_as_walk pre g post k :
  establish v pre g post (g_pref g, k) =
  (fst (map_out (close_one v (g_pref g) (g_pref g, k)) (pre ++ mkGroup (g_pref g) GEstablished (g_socks g) :: post)),
   OStatus (g_pref g) GEstablished (Some (g_pref g, k)) (g_socks g)
     :: snd (map_out (close_one v (g_pref g) (g_pref g, k)) (pre ++ mkGroup (g_pref g) GEstablished (g_socks g) :: post))).
Proof.
  unfold establish, set_status. rewrite map_out_app, map_out_cons.
  assert (Hself : close_one v (g_pref g) (g_pref g, k) (mkGroup (g_pref g) GEstablished (g_socks g)) =
                  (mkGroup (g_pref g) GEstablished (g_socks g), [])).
  { unfold close_one. cbn [g_pref g_status]. rewrite Nat.ltb_irrefl, andb_false_r. reflexivity. }
  rewrite Hself.
  destruct (map_out (close_one v (g_pref g) (g_pref g, k)) pre) as [pre' o2].
  destruct (map_out (close_one v (g_pref g) (g_pref g, k)) post) as [post' o3]. cbn [fst snd app]. reflexivity.
Qed.
End Close.

(* ------------------------------------------------------------------ _rtr_mgr_cb_state_established *)
Section Established.
Context (v : variant) (Hv : fix_shutdown_counts_closed v = true) (c : store) (Hc : conf_ok c).

Lemma z2b_b2z x : z2b (b2z x) = x.
Proof. destruct x; reflexivity. Qed.

Lemma allerr_loop (H : @handler out) p gi sk : forall todo done ad,
  nth_error (prefs (done ++ todo)) gi = Some p -> in_range (done ++ todo) ->
  mrun H (_rtr_mgr_cb_state_established__loop1 (List.length todo) (List.length done) sk (Some gi) ad
            (enc c (done ++ todo))) =
  Some ((None, if existsb (blocks_recovery p) todo then 0 else ad), enc c (done ++ todo), []).
Proof.
  induction todo as [|cur rest IH]; intros done ad Hgi Hr.
  - reflexivity.
  - cbn [List.length _rtr_mgr_cb_state_established__loop1 existsb].
    pose proof (nth_mid done cur rest) as Hn.
    destruct (nth_prefs _ _ _ Hgi) as [gg [Hgg Hpg]].
    rewrite (hg_ok_nth c _ _ cur Hn), (hg_ok_nth c _ _ gg Hgg). rewrite !Bool.implb_true_r. cbn [mguard].
    rewrite (hgf_status c _ _ cur Hn), (hgf_pref c _ _ cur Hn), (hgf_pref c _ _ gg Hgg), code_closed, code_error.
    rewrite (wraps_pref _ (range_nth _ _ _ Hr Hn)), (wraps_pref _ (range_nth _ _ _ Hr Hgg)), Hpg, ltb_nat.
    cbn [gp_eqb].
    assert (Hcond : (negb (List.length done =? gi)%nat && negb (st_error (g_status cur))
                     && negb (st_closed (g_status cur)) && (g_pref cur <? p)%nat) = blocks_recovery p cur).
    { unfold blocks_recovery.
      destruct (Nat.eqb_spec (List.length done) gi) as [He|He]; [|reflexivity].
      subst gi. rewrite Hn in Hgg. injection Hgg as <-. rewrite Hpg, Nat.ltb_irrefl, !andb_false_r. reflexivity. }
    rewrite Hcond. clear Hcond.
    specialize (IH (done ++ [cur])%list). rewrite len_snoc, app_snoc in IH.
    destruct (blocks_recovery p cur); cbn [orb].
    + rewrite (IH (b2z (z2b 0)) Hgi Hr). destruct (existsb (blocks_recovery p) rest); reflexivity.
    + rewrite (IH ad Hgi Hr). reflexivity.
Qed.

Lemma blocks_skip_self a g b :
  existsb (blocks_recovery (g_pref g)) (a ++ g :: b) = existsb (blocks_recovery (g_pref g)) (a ++ b).
Proof.
  rewrite !existsb_app. cbn [existsb]. unfold blocks_recovery at 2.
  rewrite Nat.ltb_irrefl, andb_false_r. reflexivity.
Qed.

Lemma establish_run a g b k :
  in_range (a ++ g :: b) ->
  mrun (HM (Some (g_pref g)))
    (mbind (set_status_gen (Some (List.length a)) (wrapu 32 2) (List.length a, k) (enc c (a ++ g :: b))) (fun _ h =>
     mbind (rtr_mgr_close_less_preferable_groups_gen (List.length a, k) (Some (List.length a)) h) (fun _ h => MRet 0 h))) =
  Some (0, enc c (fst (establish v a g b (g_pref g, k))), snd (establish v a g b (g_pref g, k))).
Proof.
  intros Hr. rewrite mrun_bind. change (wrapu 32 2) with (gstatus_code GEstablished).
  rewrite (set_status_self (HM (Some (g_pref g))) (HM_handles_status _) c Hc).
  unfold set_status. cbn [fst snd]. rewrite mrun_bind.
  rewrite (close_less_tie v Hv c Hc (g_pref g)).
  - rewrite establish_as_walk. cbn [fst snd mrun]. rewrite app_nil_r. reflexivity.
  - unfold prefs. rewrite nth_error_map', nth_mid. reflexivity.
  - unfold in_range in *. rewrite (prefs_mid a _ g b); [exact Hr|reflexivity].
Qed.

Theorem cb_established_tie a g b k :
  in_range (a ++ g :: b) ->
  mrun (HM (Some (g_pref g))) (_rtr_mgr_cb_state_established_gen (List.length a, k) (Some (List.length a))
                                 (enc c (a ++ g :: b))) =
  Some (0, enc c (fst (cb_established v a g b (g_pref g, k))), snd (cb_established v a g b (g_pref g, k))).
Proof.
  intros Hr. unfold _rtr_mgr_cb_state_established_gen.
  pose proof (nth_mid a g b) as Hn.
  rewrite (hg_ok_nth c _ _ g Hn). cbn [mguard].
  rewrite (hgf_status c _ _ g Hn), code_connecting, code_error.
  unfold cb_established.
  destruct (g_status g) eqn:Est; cbn [st_error].
  - reflexivity.
  - rewrite mrun_bind, (is_synced_tie _ c _ _ g Hn), z2b_b2z.
    destruct (group_synced g).
    + rewrite (establish_run a g b k Hr). cbn [app]. reflexivity.
    + rewrite mrun_bind. change (wrapu 32 1) with (gstatus_code GConnecting).
      rewrite (set_status_self (HM (Some (g_pref g))) (HM_handles_status _) c Hc). reflexivity.
  - reflexivity.
  - rewrite mrun_bind, hnodes_enc.
    pose proof (allerr_loop (HM (Some (g_pref g))) (g_pref g) (List.length a) (List.length a, k) (a ++ g :: b) [] (b2z (z2b 1))) as L.
    cbn [List.length app] in L. rewrite L; [|unfold prefs; rewrite nth_error_map', nth_mid; reflexivity|exact Hr].
    clear L. rewrite blocks_skip_self.
    destruct (existsb (blocks_recovery (g_pref g)) (a ++ b)); cbn [negb andb].
    + change (z2b (wraps 32 0)) with false. cbv beta iota.
      rewrite mrun_bind. change (wrapu 32 3) with (gstatus_code GError).
      rewrite (set_status_self (HM (Some (g_pref g))) (HM_handles_status _) c Hc). reflexivity.
    + change (z2b (wraps 32 (b2z (z2b 1)))) with true. cbv beta iota.
      rewrite mrun_bind, (is_synced_tie _ c _ _ g Hn), z2b_b2z.
      destruct (group_synced g).
      * rewrite (establish_run a g b k Hr). cbn [app]. reflexivity.
      * rewrite mrun_bind. change (wrapu 32 3) with (gstatus_code GError).
        rewrite (set_status_self (HM (Some (g_pref g))) (HM_handles_status _) c Hc). reflexivity.
Qed.
End Established.

(* ------------------------------------------------------------------ _rtr_mgr_cb_state_error *)
Definition closedp (x : group) : bool := st_closed (g_status x).

Lemma split_first_app {A} (f : A -> bool) : forall l x y z,
  split_first f l = Some (x, y, z) -> l = (x ++ y :: z)%list.
Proof.
  induction l as [|e r IH]; intros x y z; cbn [split_first]; [discriminate|].
  destruct (f e).
  - intros [= <- <- <-]. reflexivity.
  - destruct (split_first f r) as [[[x' y'] z']|]; [|discriminate].
    intros [= <- <- <-]. cbn [app]. f_equal. now apply IH.
Qed.

Lemma start_first_closed_split : forall l,
  start_first_closed l =
  match split_first closedp l with
  | Some (x, y, z) => Some ((x ++ fst (fst (start_sockets y)) :: z)%list, snd (start_sockets y))
  | None => None
  end.
Proof.
  induction l as [|e r IH]; cbn [start_first_closed split_first]; [reflexivity|].
  unfold closedp at 1. destruct (st_closed (g_status e)).
  - destruct (start_sockets e) as [[g' ok] o]. reflexivity.
  - rewrite IH. destruct (split_first closedp r) as [[[x y] z]|]; reflexivity.
Qed.

Lemma fcf_outside gi : forall l i, (gi < i \/ i + List.length l <= gi)%nat ->
  first_closed_from gi i l =
  match split_first closedp l with Some (x, _, _) => Some (i + List.length x)%nat | None => None end.
Proof.
  induction l as [|e r IH]; intros i Hi; cbn [first_closed_from split_first]; [reflexivity|].
  cbn [List.length] in Hi.
  assert (Hne : (i =? gi)%nat = false) by (apply Nat.eqb_neq; lia).
  rewrite Hne. cbn [negb andb]. unfold closedp at 1.
  destruct (st_closed (g_status e)).
  - cbn [List.length]. f_equal. lia.
  - rewrite IH by lia. destruct (split_first closedp r) as [[[x y] z]|]; [|reflexivity].
    cbn [List.length]. f_equal. lia.
Qed.

Lemma fcf_mid g b : forall a i,
  first_closed_from (i + List.length a) i (a ++ g :: b) =
  match split_first closedp a with
  | Some (x, _, _) => Some (i + List.length x)%nat
  | None => match split_first closedp b with
            | Some (x, _, _) => Some (i + List.length (a ++ g :: x))%nat
            | None => None
            end
  end.
Proof.
  induction a as [|e r IH]; intros i; cbn [app first_closed_from split_first List.length].
  - rewrite Nat.add_0_r, Nat.eqb_refl. cbn [negb andb]. rewrite fcf_outside by lia.
    destruct (split_first closedp b) as [[[x y] z]|]; [|reflexivity]. f_equal. lia.
  - assert (Hne : (i =? i + S (List.length r))%nat = false) by (apply Nat.eqb_neq; lia).
    rewrite Hne. cbn [negb andb]. unfold closedp at 1.
    destruct (st_closed (g_status e)).
    + cbn [List.length]. f_equal. lia.
    + replace (i + S (List.length r))%nat with (S i + List.length r)%nat by lia. rewrite IH.
      destruct (split_first closedp r) as [[[x y] z]|].
      * cbn [List.length]. f_equal. lia.
      * destruct (split_first closedp b) as [[[x y] z]|]; [|reflexivity]. f_equal. lia.
Qed.

Section ErrorAndCb.
Context (v : variant) (Hv : fix_shutdown_counts_closed v = true) (c : store) (Hc : conf_ok c).

Lemma run_then_ret (H : @handler out) (e : meff Z) r h o :
  mrun H e = Some (r, h, o) -> mrun H (mbind e (fun _ h => MRet 0 h)) = Some (0, h, o).
Proof. intros He. rewrite mrun_bind, He. cbn [mrun]. now rewrite app_nil_r. Qed.

Theorem cb_error_tie bh a g b k :
  mrun (HM bh) (_rtr_mgr_cb_state_error_gen (List.length a, k) (Some (List.length a)) (enc c (a ++ g :: b))) =
  Some (0, enc c (fst (cb_error a g b (g_pref g, k))), snd (cb_error a g b (g_pref g, k))).
Proof.
  unfold _rtr_mgr_cb_state_error_gen. rewrite mrun_bind. change (wrapu 32 3) with (gstatus_code GError).
  rewrite (set_status_self (HM bh) (HM_handles_status _) c Hc).
  unfold cb_error, set_status. cbn [fst snd].
  set (g1 := mkGroup (g_pref g) GError (g_socks g)).
  rewrite mrun_bind, is_some_established_tie, z2b_b2z.
  destruct (existsb (fun x => st_established (g_status x)) (a ++ g1 :: b)).
  - reflexivity.
  - rewrite mrun_bind, get_best_inactive_tie.
    pose proof (fcf_mid g1 b a 0) as F. cbn [plus] in F. rewrite F. clear F.
    rewrite !start_first_closed_split.
    destruct (split_first closedp a) as [[[x y] z]|] eqn:Ea.
    + apply split_first_app in Ea. subst a. cbn [gp_nonnull].
      rewrite <- app_assoc. cbn [app].
      rewrite (run_then_ret _ _ _ _ _ (start_sockets_tie c bh x y (z ++ g1 :: b))).
      cbn [fst snd mrun app]. rewrite <- ?app_assoc. reflexivity.
    + destruct (split_first closedp b) as [[[x y] z]|] eqn:Eb.
      * apply split_first_app in Eb. subst b. cbn [gp_nonnull].
        replace (a ++ g1 :: x ++ y :: z)%list with ((a ++ g1 :: x) ++ y :: z)%list by (rewrite <- app_assoc; reflexivity).
        rewrite (run_then_ret _ _ _ _ _ (start_sockets_tie c bh (a ++ g1 :: x) y z)).
        cbn [fst snd mrun app]. rewrite <- ?app_assoc. reflexivity.
      * reflexivity.
Qed.

(* ------------------------------------------------------------------ rtr_mgr_cb: the switch *)
Lemma cb_gen_null sk st h : rtr_mgr_cb_gen sk st None h = MRet 0 h.
Proof. reflexivity. Qed.
Lemma cb_gen_established sk g h :
  rtr_mgr_cb_gen sk (sstate_code SEstablished) (Some g) h =
  mbind (_rtr_mgr_cb_state_established_gen sk (Some g) h) (fun _ h => MRet 0 h).
Proof. reflexivity. Qed.
Lemma cb_gen_connecting sk g h :
  rtr_mgr_cb_gen sk (sstate_code SConnecting) (Some g) h =
  mbind (_rtr_mgr_cb_state_connecting_gen sk (Some g) h) (fun _ h => MRet 0 h).
Proof. reflexivity. Qed.
Lemma cb_gen_error sk g h st :
  st = SErrFatal \/ st = SErrTransport \/ st = SErrNoData ->
  rtr_mgr_cb_gen sk (sstate_code st) (Some g) h =
  mbind (_rtr_mgr_cb_state_error_gen sk (Some g) h) (fun _ h => MRet 0 h).
Proof. intros [->|[->| ->]]; reflexivity. Qed.
Lemma cb_gen_other sk g h st :
  st = SReset \/ st = SSync \/ st = SFastReconnect \/ st = SErrNoIncr \/ st = SClosed ->
  rtr_mgr_cb_gen sk (sstate_code st) (Some g) h =
  mguard (hg_ok h (Some g))
    (mbind (set_status_gen (Some g) (hgf h (Some g) "status") sk h) (fun _ h => MRet 0 h)).
Proof. intros [->|[->|[->|[->| ->]]]]; reflexivity. Qed.

Lemma cb_other_tie bh a g b k :
  mrun (HM bh) (mguard (hg_ok (enc c (a ++ g :: b)) (Some (List.length a)))
    (mbind (set_status_gen (Some (List.length a)) (hgf (enc c (a ++ g :: b)) (Some (List.length a)) "status")
              (List.length a, k) (enc c (a ++ g :: b))) (fun _ h => MRet 0 h))) =
  Some (0, enc c (fst (report a g b (g_status g) (g_pref g, k))), snd (report a g b (g_status g) (g_pref g, k))).
Proof.
  pose proof (nth_mid a g b) as Hn.
  rewrite (hg_ok_nth c _ _ g Hn), (hgf_status c _ _ g Hn). cbn [mguard].
  eapply run_then_ret. rewrite (set_status_self (HM bh) (HM_handles_status _) c Hc). reflexivity.
Qed.

(* THE TIE: one callback rtr_mgr_cb(sock, state, config, group), as translated, with sock = socket k of the group at
   position |a| of the list a ++ g :: b, does what the model's mgr_cb does: same heap (all groups' statuses and
   sockets), same events in the same order. *)
Theorem mgr_cb_tie a g b k st :
  in_range (a ++ g :: b) ->
  mrun (HM (Some (g_pref g))) (rtr_mgr_cb_gen (List.length a, k) (sstate_code st) (Some (List.length a))
                                 (enc c (a ++ g :: b))) =
  Some (0, enc c (fst (mgr_cb v a g b k st)), snd (mgr_cb v a g b k st)).
Proof.
  intros Hr. set (bh := Some (g_pref g)).
  destruct st; unfold mgr_cb.
  - rewrite cb_gen_connecting. eapply run_then_ret.
    apply (cb_connecting_tie (HM bh) (HM_handles_status _) c Hc).
  - rewrite cb_gen_established. eapply run_then_ret. apply (cb_established_tie v Hv c Hc a g b k Hr).
  - rewrite cb_gen_other by tauto. apply cb_other_tie.
  - rewrite cb_gen_other by tauto. apply cb_other_tie.
  - rewrite cb_gen_other by tauto. apply cb_other_tie.
  - rewrite (cb_gen_error _ _ _ SErrNoData) by tauto. eapply run_then_ret. apply cb_error_tie.
  - rewrite cb_gen_other by tauto. apply cb_other_tie.
  - rewrite (cb_gen_error _ _ _ SErrFatal) by tauto. eapply run_then_ret. apply cb_error_tie.
  - rewrite (cb_gen_error _ _ _ SErrTransport) by tauto. eapply run_then_ret. apply cb_error_tie.
  - rewrite cb_gen_shutdown. eapply run_then_ret.
    rewrite (cb_shutdown_tie (HM bh) (HM_handles_status _) c Hc v Hv).
    destruct (cb_shutdown v g k) as [g1 o]. reflexivity.
  - rewrite cb_gen_other by tauto. apply cb_other_tie.
Qed.

(* group == NULL: nothing happens (the model has no such event) *)
Theorem mgr_cb_null (H : @handler out) sk st h : mrun H (rtr_mgr_cb_gen sk st None h) = Some (0, h, []).
Proof. reflexivity. Qed.
End ErrorAndCb.

(* ------------------------------------------------------------------ examples (the translated code, executed) *)
Definition c0 : store := [("status_fp", 1); ("status_fp_data", 0)].
Definition up : sock := mkSock SEstablished true true.       (* running, synchronised *)
Definition conn : sock := mkSock SConnecting false true.     (* running, nothing yet *)
Definition idle : sock := mkSock SClosed false false.        (* never started *)

(* ESTABLISHED closes the less preferred: socket 1 of group 1 (CONNECTING, both sockets synchronised) reports
   ESTABLISHED; group 2 (ESTABLISHED, two running sockets) is stopped socket by socket - each rtr_stop re-enters the
   callback with SHUTDOWN - and reported CLOSED; group 3 (CLOSED) is left alone *)
Example ex_established_closes_less_preferred :
  mrun (HM (Some 1%nat))
    (rtr_mgr_cb_gen (0%nat, 1%nat) mgr_c_RTR_ESTABLISHED (Some 0%nat)
       (enc c0 [mkGroup 1 GConnecting [up; up]; mkGroup 2 GEstablished [up; conn]; mkGroup 3 GClosed [idle]])) =
  Some (0, enc c0 [mkGroup 1 GEstablished [up; up]; mkGroup 2 GClosed [closed_sock; closed_sock]; mkGroup 3 GClosed [idle]],
        [OStatus 1 GEstablished (Some (1%nat, 1%nat)) [up; up];
         OStop 2 0 (Some 1%nat);
         OStatus 2 GEstablished (Some (2%nat, 0%nat)) [mkSock SShutdown true true; conn];
         OStop 2 1 (Some 1%nat);
         OStatus 2 GClosed (Some (2%nat, 1%nat)) [closed_sock; mkSock SShutdown false true];
         OStatus 2 GClosed (Some (1%nat, 1%nat)) [closed_sock; closed_sock]]).
Proof. vm_compute. reflexivity. Qed.

(* ERROR starts the best inactive group: the only socket of group 1 (ESTABLISHED) reports ERROR_TRANSPORT; no group is
   ESTABLISHED any more; group 2, the first CLOSED one, is started (both sockets), group 3 is not *)
Example ex_error_starts_best_inactive :
  mrun (HM (Some 1%nat))
    (rtr_mgr_cb_gen (0%nat, 0%nat) mgr_c_RTR_ERROR_TRANSPORT (Some 0%nat)
       (enc c0 [mkGroup 1 GEstablished [mkSock SErrTransport true true]; mkGroup 2 GClosed [idle; idle];
                mkGroup 3 GClosed [idle]])) =
  Some (0, enc c0 [mkGroup 1 GError [mkSock SErrTransport true true]; mkGroup 2 GConnecting [conn; conn];
                   mkGroup 3 GClosed [idle]],
        [OStatus 1 GError (Some (1%nat, 0%nat)) [mkSock SErrTransport true true]; OStart 2 0 true; OStart 2 1 true]).
Proof. vm_compute. reflexivity. Qed.

(* ERROR -> ESTABLISHED recovery: group 2 is in ERROR, its socket reports ESTABLISHED; the more preferred group 1 is in
   ERROR too (it does not block), so group 2 becomes ESTABLISHED and the less preferred group 3 is closed *)
Example ex_error_recovers_to_established :
  mrun (HM (Some 2%nat))
    (rtr_mgr_cb_gen (1%nat, 0%nat) mgr_c_RTR_ESTABLISHED (Some 1%nat)
       (enc c0 [mkGroup 1 GError [conn]; mkGroup 2 GError [up]; mkGroup 3 GConnecting [conn]])) =
  Some (0, enc c0 [mkGroup 1 GError [conn]; mkGroup 2 GEstablished [up]; mkGroup 3 GClosed [closed_sock]],
        [OStatus 2 GEstablished (Some (2%nat, 0%nat)) [up];
         OStop 3 0 (Some 2%nat);
         OStatus 3 GClosed (Some (3%nat, 0%nat)) [mkSock SShutdown false true];
         OStatus 3 GClosed (Some (2%nat, 0%nat)) [closed_sock]]).
Proof. vm_compute. reflexivity. Qed.
(* ... and a more preferred group that is CONNECTING blocks the recovery *)
Example ex_recovery_blocked :
  mrun (HM (Some 2%nat))
    (rtr_mgr_cb_gen (1%nat, 0%nat) mgr_c_RTR_ESTABLISHED (Some 1%nat)
       (enc c0 [mkGroup 1 GConnecting [conn]; mkGroup 2 GError [up]; mkGroup 3 GConnecting [conn]])) =
  Some (0, enc c0 [mkGroup 1 GConnecting [conn]; mkGroup 2 GError [up]; mkGroup 3 GConnecting [conn]],
        [OStatus 2 GError (Some (2%nat, 0%nat)) [up]]).
Proof. vm_compute. reflexivity. Qed.

(* FINDING (about the model's bookkeeping, not the code): MgrModel.current = shipped, whose SHUTDOWN handler ignores
   sockets in RTR_CLOSED; the code in /repo counts them as down (fix_shutdown_counts_closed).  The translated code
   disagrees with mgr_cb shipped on this configuration: *)
Example ex_shipped_variant_differs :
  let l := [mkGroup 1 GEstablished [mkSock SShutdown true true; closed_sock]] in
  mrun (HM (Some 1%nat)) (rtr_mgr_cb_gen (0%nat, 0%nat) mgr_c_RTR_SHUTDOWN (Some 0%nat) (enc c0 l)) =
    Some (0, enc c0 (fst (mgr_cb fixed [] (mkGroup 1 GEstablished [mkSock SShutdown true true; closed_sock]) [] 0 SShutdown)),
          snd (mgr_cb fixed [] (mkGroup 1 GEstablished [mkSock SShutdown true true; closed_sock]) [] 0 SShutdown)) /\
  g_status (hd (mkGroup 0 GError []) (fst (mgr_cb fixed [] (mkGroup 1 GEstablished [mkSock SShutdown true true; closed_sock]) [] 0 SShutdown))) = GClosed /\
  g_status (hd (mkGroup 0 GError []) (fst (mgr_cb shipped [] (mkGroup 1 GEstablished [mkSock SShutdown true true; closed_sock]) [] 0 SShutdown))) = GEstablished.
Proof. vm_compute. repeat match goal with |- _ /\ _ => split end; reflexivity. Qed.

(* without a status callback (conf->status_fp == NULL) the statuses change all the same and nothing is reported *)
Example ex_no_status_fp :
  mrun (HM (Some 1%nat))
    (rtr_mgr_cb_gen (0%nat, 0%nat) mgr_c_RTR_CONNECTING (Some 0%nat) (enc [] [mkGroup 1 GClosed [conn]])) =
  Some (0, enc [] [mkGroup 1 GConnecting [conn]], []).
Proof. vm_compute. reflexivity. Qed.

Example translator_has_no_problems : mgr_translator_problems = [].
Proof. reflexivity. Qed.

Print Assumptions is_synced_tie.
Print Assumptions is_some_established_tie.
Print Assumptions get_best_inactive_tie.
Print Assumptions start_sockets_tie.
Print Assumptions close_less_tie.
Print Assumptions cb_shutdown_tie.
Print Assumptions cb_established_tie.
Print Assumptions cb_connecting_tie.
Print Assumptions cb_error_tie.
Print Assumptions mgr_cb_tie.
Print Assumptions mgr_cb_null.

(* SUMMARY.  c : the configuration's fields with status_fp <> NULL (conf_ok); v : any model variant with
   fix_shutdown_counts_closed v = true (what /repo does); in_range l : every preference < 256 (uint8_t).
   For all lists a, b of groups (any number of groups, any number of sockets each, any statuses):
     is_synced_tie, is_some_established_tie, get_best_inactive_tie     (any handler, no side condition)
     cb_shutdown_tie, cb_connecting_tie                                (any handler that reports status_fp calls)
     start_sockets_tie, close_less_tie, cb_established_tie, cb_error_tie, mgr_cb_tie   (handler HM)
   mgr_cb_tie:  mrun (HM (Some (g_pref g))) (rtr_mgr_cb_gen (|a|, k) (sstate_code st) (Some |a|) (enc c (a ++ g :: b)))
                = Some (0, enc c (fst (mgr_cb v a g b k st)), snd (mgr_cb v a g b k st)).                          *)
