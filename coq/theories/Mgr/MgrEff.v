(* MgrEff.v - the vocabulary for the translated decision logic of rtrlib/rtr_mgr.c
   (tools/c2v_mgr.py; output Gen/GeneratedMgr.v; tie to the hand-written model: Mgr/MgrTie.v).

   DATA MODEL
     socket  = store (Base/CSem.v) of the integer fields of struct rtr_socket: "state", "last_update" (the translated
               code reads only these two); interpretations may keep more ("thread_id").
     group   = [mgroup]: the integer fields of struct rtr_mgr_group ("preference", "status") and the array
               group->sockets[0 .. sockets_len-1] as the LIST of its sockets; sockets_len IS the length of that list.
     heap    = [mheap]: the integer / handle fields of struct rtr_mgr_config ("status_fp", "status_fp_data": 0 = NULL)
               and the tommy list config->groups->list as the LIST of its groups in list order.
     pointers: a `struct rtr_mgr_group *` is [option nat] - None = NULL, Some i = the group of the i-th node of the
               list (pointer identity = index identity); a `struct rtr_socket *` is a pair (group index, index in that
               group's array) and is only ever handed on; the `struct rtr_mgr_config *` is the heap itself (there is
               one; it is not NULL) and is not passed around.
   EFFECTS
     A translated function is a tree [meff R]:
       MRet r h          it returns r (0 for void) with the heap h;
       MCall f args h k  it calls the untranslated f (rtr_stop, rtr_start, the user's status_fp) with the heap h; the
                         callee may change the heap at will (rtr_stop re-enters rtr_mgr_cb); k = the rest, given the
                         callee's int result (0 for a void callee) and the heap after the call;
       MUndef            undefined behaviour: dereference of NULL / of a group or socket that does not exist.
     [mrun] interprets a tree with a handler for the calls and collects the handler's events in call order.  *)
From RtrV Require Import Base.CSem.
Local Open Scope Z_scope.

Record mgroup := mkMG { mg_f : store; mg_socks : list store }.
Record mheap := mkMH { mh_conf : store; mh_groups : list mgroup }.

Definition gptr := option nat.
Definition sptr := (nat * nat)%type.

Inductive marg := AInt (z : Z) | AGroup (p : gptr) | ASock (p : sptr).

Inductive meff (R : Type) : Type :=
| MRet (r : R) (h : mheap)
| MCall (f : string) (args : list marg) (h : mheap) (k : Z -> mheap -> meff R)
| MUndef.
Arguments MRet {R} r h.
Arguments MCall {R} f args h k.
Arguments MUndef {R}.

Fixpoint mbind {A B} (e : meff A) (k : A -> mheap -> meff B) : meff B :=
  match e with
  | MRet r h => k r h
  | MCall f a h k' => MCall f a h (fun z h' => mbind (k' z h') k)
  | MUndef => MUndef
  end.

Definition mguard {R} (ok : bool) (e : meff R) : meff R := if ok then e else MUndef.
Definition mopt {A R} (o : option A) (k : A -> meff R) : meff R :=
  match o with Some a => k a | None => MUndef end.

(* ---- reads: a validity test (the guard) and a total read ---- *)
Definition hgroup (h : mheap) (p : gptr) : option mgroup :=
  match p with Some i => nth_error (mh_groups h) i | None => None end.
Definition hg_ok (h : mheap) (p : gptr) : bool :=
  match hgroup h p with Some _ => true | None => false end.
Definition hgf (h : mheap) (p : gptr) (key : string) : Z :=
  match hgroup h p with Some g => sget key (mg_f g) | None => 0 end.
(* group->sockets_len *)
Definition hslen (h : mheap) (p : gptr) : Z :=
  match hgroup h p with Some g => Z.of_nat (List.length (mg_socks g)) | None => 0 end.
Definition hsock (h : mheap) (p : gptr) (i : nat) : option store :=
  match hgroup h p with Some g => nth_error (mg_socks g) i | None => None end.
Definition hs_ok (h : mheap) (p : gptr) (i : nat) : bool :=
  match hsock h p i with Some _ => true | None => false end.
Definition hsf (h : mheap) (p : gptr) (i : nat) (key : string) : Z :=
  match hsock h p i with Some s => sget key s | None => 0 end.
Definition hcf (h : mheap) (key : string) : Z := sget key (mh_conf h).

(* group->sockets[i] as a pointer value (only handed on); NULL group: caught by the guard hg_ok *)
Definition hsptr (p : gptr) (i : nat) : sptr :=
  match p with Some g => (g, i) | None => (O, i) end.

(* ---- the one store: group->field = v ---- *)
Fixpoint upd_nth {A} (l : list A) (i : nat) (f : A -> A) : list A :=
  match l, i with
  | [], _ => []
  | x :: r, O => f x :: r
  | x :: r, S i' => x :: upd_nth r i' f
  end.
Definition hgset (h : mheap) (p : gptr) (key : string) (v : Z) : mheap :=
  match p with
  | Some i => mkMH (mh_conf h) (upd_nth (mh_groups h) i (fun g => mkMG (sset key v (mg_f g)) (mg_socks g)))
  | None => h
  end.

(* pointer tests *)
Definition gp_nonnull (p : gptr) : bool := match p with Some _ => true | None => false end.
Definition gp_eqb (a b : gptr) : bool :=
  match a, b with
  | Some i, Some j => Nat.eqb i j
  | None, None => true
  | _, _ => false
  end.

(* number of nodes of config->groups->list, read where the C calls tommy_list_head *)
Definition hnodes (h : mheap) : nat := List.length (mh_groups h).
(* sockets_len as the trip count of `for (i = 0; i < group->sockets_len; i++)` *)
Definition hscount (h : mheap) (p : gptr) : nat :=
  match hgroup h p with Some g => List.length (mg_socks g) | None => O end.

(* ---- interpretation ---- *)
Section Run.
  Context {E : Type}.
  Definition handler := string -> list marg -> mheap -> option (Z * mheap * list E).
  Fixpoint mrun {R} (H : handler) (e : meff R) : option (R * mheap * list E) :=
    match e with
    | MRet r h => Some (r, h, [])
    | MCall f a h k =>
        match H f a h with
        | Some (z, h', o) =>
            match mrun H (k z h') with
            | Some (r, h'', o') => Some (r, h'', (o ++ o')%list)
            | None => None
            end
        | None => None
        end
    | MUndef => None
    end.

  Lemma mrun_bind {A B} (H : handler) (e : meff A) (k : A -> mheap -> meff B) :
    mrun H (mbind e k) =
    match mrun H e with
    | Some (a, h, o) =>
        match mrun H (k a h) with
        | Some (b, h', o') => Some (b, h', (o ++ o')%list)
        | None => None
        end
    | None => None
    end.
  Proof.
    induction e as [r h|f a h k' IH|]; simpl.
    - destruct (mrun H (k r h)) as [[[b h'] o']|]; reflexivity.
    - destruct (H f a h) as [[[z h'] o]|]; [|reflexivity].
      rewrite IH. destruct (mrun H (k' z h')) as [[[a0 h0] o0]|]; [|reflexivity].
      destruct (mrun H (k a0 h0)) as [[[b h1] o1]|]; [|reflexivity].
      now rewrite app_assoc.
    - reflexivity.
  Qed.
End Run.
