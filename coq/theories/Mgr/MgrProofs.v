(* MgrProofs.v - lemmas about the connection-manager model (C15). *)
From Coq Require Import List Bool Arith Lia Sorted Permutation.
From RtrV Require Import Mgr.MgrModel.
Import ListNotations.

(* ------------------------------------------------------------------ vocabulary *)
Definition prefs (l : list group) : list nat := map g_pref l.
Definition ascending (l : list group) : Prop := StronglySorted lt (prefs l).
Definition all_stopped (g : group) : Prop := Forall (fun s => s_thread s = false) (g_socks g).
Definition all_running (g : group) : Prop := Forall (fun s => s_thread s = true) (g_socks g).
Definition live (s : sock) : Prop := s_thread s = true /\ s_state s <> SShutdown /\ s_state s <> SClosed.

Definition group_ok (v : variant) (g : group) : Prop :=
  g_socks g <> [] /\
  (all_stopped g \/ all_running g) /\
  (g_status g = GClosed -> all_stopped g) /\
  (fix_shutdown_counts_closed v = true -> g_status g = GEstablished -> Forall live (g_socks g)).

Definition Inv (v : variant) (c : config) : Prop :=
  ascending (c_groups c) /\ c_len c = length (c_groups c) /\ c_groups c <> [] /\
  Forall (group_ok v) (c_groups c).

Inductive reachable (v : variant) : config -> Prop :=
| reach_init gs c : mgr_init v gs = IOk c -> reachable v c
| reach_step c o : reachable v c -> reachable v (fst (step v c o)).

(* ------------------------------------------------------------------ sorting *)
Lemma insert_perm g l : Permutation (insert_group g l) (g :: l).
Proof.
  induction l as [|h r IH]; cbn [insert_group]; [reflexivity|].
  destruct (g_pref g <? g_pref h); [reflexivity|].
  rewrite IH. apply perm_swap.
Qed.

Lemma sort_perm l : Permutation (sort_groups l) l.
Proof.
  induction l as [|g r IH]; cbn [sort_groups]; [reflexivity|].
  rewrite insert_perm. now constructor.
Qed.

Lemma insert_le_sorted g l :
  StronglySorted le (prefs l) -> StronglySorted le (prefs (insert_group g l)).
Proof.
  induction l as [|h r IH]; intros Hs; cbn [insert_group].
  - cbn. constructor; constructor.
  - destruct (g_pref g <? g_pref h) eqn:E.
    + apply Nat.ltb_lt in E. cbn. constructor; [exact Hs|].
      cbn in Hs. inversion Hs as [|? ? Hs' Hall]; subst.
      constructor; [lia|]. eapply Forall_impl; [|exact Hall]. intros; cbn in *; lia.
    + apply Nat.ltb_ge in E. cbn in Hs. inversion Hs as [|? ? Hs' Hall]; subst.
      cbn. constructor; [apply IH; exact Hs'|].
      change (Forall (le (g_pref h)) (prefs (insert_group g r))).
      eapply Permutation_Forall.
      * symmetry. apply (Permutation_map g_pref). apply insert_perm.
      * cbn. constructor; [exact E|exact Hall].
Qed.

Lemma sort_le_sorted l : StronglySorted le (prefs (sort_groups l)).
Proof.
  induction l as [|g r IH]; cbn [sort_groups]; [constructor|].
  now apply insert_le_sorted.
Qed.

Lemma le_sorted_nodup_lt (l : list nat) : StronglySorted le l -> NoDup l -> StronglySorted lt l.
Proof.
  induction l as [|a r IH]; intros Hs Hn; [constructor|].
  inversion Hs as [|? ? Hs' Hall]; subst. inversion Hn as [|? ? Hni Hn']; subst.
  constructor; [now apply IH|].
  rewrite Forall_forall in *. intros x Hx. specialize (Hall x Hx).
  assert (a <> x) by (intros ->; contradiction). lia.
Qed.

Lemma lt_sorted_nodup (l : list nat) : StronglySorted lt l -> NoDup l.
Proof.
  induction 1 as [|a r Hs IH Hall]; constructor; [|exact IH].
  intros Hin. rewrite Forall_forall in Hall. specialize (Hall a Hin). lia.
Qed.

Lemma sort_ascending l : NoDup (prefs l) -> ascending (sort_groups l).
Proof.
  intros Hn. apply le_sorted_nodup_lt; [apply sort_le_sorted|].
  eapply Permutation_NoDup; [|exact Hn].
  symmetry. apply (Permutation_map g_pref), sort_perm.
Qed.

Lemma prefs_app a b : prefs (a ++ b) = prefs a ++ prefs b.
Proof. apply map_app. Qed.

Lemma ascending_nodup l : ascending l -> NoDup (prefs l).
Proof. apply lt_sorted_nodup. Qed.

(* removing an element of a strictly ascending list keeps it ascending *)
Lemma sorted_remove_mid (la lb : list nat) n :
  StronglySorted lt (la ++ n :: lb) -> StronglySorted lt (la ++ lb).
Proof.
  induction la as [|h r IH]; cbn; intros Hs.
  - inversion Hs; assumption.
  - inversion Hs as [|? ? Hs' Hall]; subst. constructor; [now apply IH|].
    rewrite Forall_forall in *. intros y Hy. apply Hall.
    apply in_app_iff in Hy as [Hy|Hy]; apply in_app_iff; [now left|right; now right].
Qed.

Lemma ascending_remove_mid a (x : group) b : ascending (a ++ x :: b) -> ascending (a ++ b).
Proof.
  unfold ascending. rewrite !prefs_app. cbn [prefs map]. apply sorted_remove_mid.
Qed.

(* ------------------------------------------------------------------ rtr_mgr_init *)
Definition nonempty_socks (g : group) : Prop := g_socks g <> [].

Lemma init_check_sound l : forall last,
  StronglySorted le (prefs l) ->
  init_check last l = true ->
  StronglySorted lt (prefs l) /\ Forall nonempty_socks l /\
  (forall q g r, last = Some q -> l = g :: r -> g_pref g <> q).
Proof.
  induction l as [|g r IH]; intros last Hs Hc.
  - repeat split; [constructor|constructor|discriminate].
  - cbn [init_check] in Hc.
    destruct (match last with Some q => g_pref g =? q | None => false end) eqn:Ed; [discriminate|].
    destruct (g_socks g) eqn:Es; [discriminate|].
    cbn in Hs. inversion Hs as [|? ? Hs' Hall]; subst.
    destruct (IH (Some (g_pref g)) Hs' Hc) as (Hlt & Hne & Hhd).
    repeat split.
    + cbn. constructor; [exact Hlt|].
      destruct r as [|g2 r2]; [constructor|].
      assert (Hneq : g_pref g2 <> g_pref g) by (eapply Hhd; reflexivity).
      cbn in Hall, Hlt |- *. inversion Hall as [|? ? Hle Hall']; subst.
      inversion Hlt as [|? ? _ Hlt2]; subst.
      constructor; [lia|]. eapply Forall_impl; [|exact Hlt2]. intros; cbn in *; lia.
    + constructor; [unfold nonempty_socks; rewrite Es; discriminate|exact Hne].
    + intros q g0 r0 -> Heq. injection Heq as <- <-.
      apply Nat.eqb_neq. exact Ed.
Qed.

Lemma init_check_complete l : forall last,
  StronglySorted lt (prefs l) -> Forall nonempty_socks l ->
  (forall q, last = Some q -> Forall (fun g => q < g_pref g) l) ->
  init_check last l = true.
Proof.
  induction l as [|g r IH]; intros last Hs Hne Hlast; [reflexivity|].
  cbn [init_check].
  assert (Hd : match last with Some q => g_pref g =? q | None => false end = false).
  { destruct last as [q|]; [|reflexivity]. specialize (Hlast q eq_refl).
    inversion Hlast; subst. apply Nat.eqb_neq. lia. }
  rewrite Hd. inversion Hne as [|? ? Hg Hne']; subst.
  destruct (g_socks g) eqn:Es; [now elim Hg|].
  cbn in Hs. inversion Hs as [|? ? Hs' Hall]; subst.
  apply IH; [exact Hs'|exact Hne'|].
  intros q [= <-]. rewrite Forall_forall in *. intros x Hx. apply Hall. now apply in_map.
Qed.

Lemma prefs_spec gs : prefs (map spec_group gs) = map fst gs.
Proof. unfold prefs. rewrite map_map. reflexivity. Qed.

Lemma repeat_nil_iff {A} (x : A) n : repeat x n = [] <-> n = 0.
Proof. destruct n; cbn; split; congruence. Qed.

(* what an accepted configuration looks like *)
Lemma init_ok_inv v gs c : mgr_init v gs = IOk c ->
  gs <> [] /\ NoDup (map fst gs) /\ Forall (fun s => snd s <> 0) gs /\
  ascending (c_groups c) /\ Permutation (c_groups c) (map spec_group gs) /\ c_len c = length gs.
Proof.
  unfold mgr_init. destruct gs as [|s0 gs0]; [discriminate|].
  remember (s0 :: gs0) as gs eqn:Egs.
  destruct (init_check None (sort_groups (map spec_group gs))) eqn:Ec.
  2:{ destruct (fix_init_groups_null v); discriminate. }
  intros [= <-]. cbn [c_groups c_len].
  destruct (init_check_sound _ None (sort_le_sorted _) Ec) as (Hlt & Hne & _).
  assert (Hp : Permutation (sort_groups (map spec_group gs)) (map spec_group gs)) by apply sort_perm.
  assert (Hnd : NoDup (map fst gs)).
  { rewrite <- prefs_spec. eapply Permutation_NoDup; [apply (Permutation_map g_pref); exact Hp|].
    now apply lt_sorted_nodup. }
  split; [subst gs; discriminate|]. split; [exact Hnd|]. split.
  { assert (Hne' : Forall nonempty_socks (map spec_group gs)) by (eapply Permutation_Forall; eassumption).
    rewrite Forall_map in Hne'. eapply Forall_impl; [|exact Hne'].
    intros [p n] H. cbn in *. unfold nonempty_socks in H. cbn in H. intros ->. now apply H. }
  split.
  { apply sort_ascending. eapply Permutation_NoDup; [|exact Hnd].
    rewrite <- prefs_spec. symmetry. apply (Permutation_map g_pref). exact Hp. }
  split; [|reflexivity].
  rewrite sort_perm. exact Hp.
Qed.

Lemma init_accepts v gs :
  gs <> [] -> NoDup (map fst gs) -> Forall (fun s => snd s <> 0) gs ->
  exists c, mgr_init v gs = IOk c.
Proof.
  intros Hne Hnd Hs. unfold mgr_init. destruct gs as [|s0 gs0]; [now elim Hne|].
  remember (s0 :: gs0) as gs eqn:Egs.
  rewrite init_check_complete; [eauto| | |discriminate].
  - apply sort_ascending. now rewrite prefs_spec.
  - eapply Permutation_Forall; [symmetry; apply sort_perm|].
    rewrite Forall_map. eapply Forall_impl; [|exact Hs].
    intros [p n] H. unfold nonempty_socks. cbn in *. destruct n; [now elim H|discriminate].
Qed.

(* a configuration that must be rejected is never accepted, whatever the variant *)
Definition bad_groups (gs : list (nat * nat)) : Prop :=
  gs = [] \/ (exists p, In (p, 0) gs) \/ ~ NoDup (map fst gs).

Lemma init_never_accepts_bad v gs c : bad_groups gs -> mgr_init v gs <> IOk c.
Proof.
  intros Hbad Hok. apply init_ok_inv in Hok as (Hne & Hnd & Hs & _).
  destruct Hbad as [->|[[p Hin]|Hd]]; [now elim Hne| |now elim Hd].
  rewrite Forall_forall in Hs. now apply (Hs _ Hin).
Qed.

Lemma init_empty v : mgr_init v [] = IErr RcError.
Proof. reflexivity. Qed.

(* with config->groups initialised the error path returns RTR_ERROR *)
Lemma init_rejects_with_error v gs :
  fix_init_groups_null v = true -> bad_groups gs -> mgr_init v gs = IErr RcError.
Proof.
  intros Hf Hbad. destruct (mgr_init v gs) as [c|r|] eqn:E.
  - now elim (init_never_accepts_bad v gs c Hbad).
  - unfold mgr_init in E. destruct gs; [congruence|].
    destruct (init_check _ _); [discriminate|]. rewrite Hf in E. congruence.
  - unfold mgr_init in E. destruct gs; [discriminate|].
    destruct (init_check _ _); [discriminate|]. rewrite Hf in E. discriminate.
Qed.

(* the shipped error path frees an uninitialised pointer *)
Lemma init_shipped_undefined :
  mgr_init shipped [(1, 1); (1, 1)] = IUndef /\ mgr_init shipped [(1, 0)] = IUndef.
Proof. split; reflexivity. Qed.

(* ------------------------------------------------------------------ generic helpers *)
Lemma map_out_fst {A} (f : A -> A * list out) l : fst (map_out f l) = map (fun x => fst (f x)) l.
Proof.
  induction l as [|x r IH]; [reflexivity|]. cbn [map_out map].
  destruct (f x) as [x' o1]. destruct (map_out f r) as [r' o2]. cbn in *. now rewrite IH.
Qed.

Lemma map_out_snd {A} (f : A -> A * list out) l : snd (map_out f l) = flat_map (fun x => snd (f x)) l.
Proof.
  induction l as [|x r IH]; [reflexivity|]. cbn [map_out flat_map].
  destruct (f x) as [x' o1]. destruct (map_out f r) as [r' o2]. cbn in *. now rewrite IH.
Qed.

Lemma split_first_spec {A} (f : A -> bool) l : forall pre x post,
  split_first f l = Some (pre, x, post) ->
  l = pre ++ x :: post /\ f x = true /\ Forall (fun y => f y = false) pre.
Proof.
  induction l as [|h r IH]; intros pre x post H; [discriminate|].
  cbn [split_first] in H. destruct (f h) eqn:E.
  - injection H as <- <- <-. repeat split; [exact E|constructor].
  - destruct (split_first f r) as [[[pre' y] post']|]; [|discriminate].
    injection H as <- <- <-. destruct (IH _ _ _ eq_refl) as (-> & Hy & Hp).
    repeat split; [exact Hy|now constructor].
Qed.

Lemma split_first_none {A} (f : A -> bool) l : split_first f l = None -> Forall (fun y => f y = false) l.
Proof.
  induction l as [|h r IH]; intros H; [constructor|].
  cbn [split_first] in H. destruct (f h) eqn:E; [discriminate|].
  destruct (split_first f r) as [[[pre' y] post']|]; [discriminate|].
  constructor; [exact E|now apply IH].
Qed.

Lemma split_nth_spec {A} k : forall (l : list A) sp s sq,
  split_nth k l = Some (sp, s, sq) -> l = sp ++ s :: sq /\ length sp = k.
Proof.
  induction k as [|k IH]; intros [|h r] sp s sq H; try discriminate.
  - injection H as <- <- <-. now split.
  - cbn [split_nth] in H. destruct (split_nth k r) as [[[sp' y] sq']|] eqn:E; [|discriminate].
    injection H as <- <- <-. destruct (IH _ _ _ _ E) as (-> & <-). now split.
Qed.

(* ------------------------------------------------------------------ rtr_stop over a group *)
Definition stop_out_ok (p : nat) (b : option nat) (st : gstatus) (o : out) : Prop :=
  match o with
  | OStop q _ b' => q = p /\ b' = b
  | OStatus q s _ _ => q = p /\ (s = st \/ s = GClosed)
  | _ => False
  end.

Lemma stop_out_ok_weaken p b st st1 o :
  st1 = st \/ st1 = GClosed -> stop_out_ok p b st1 o -> stop_out_ok p b st o.
Proof.
  intros H. destruct o; cbn; try tauto. intros (-> & Hs). split; [reflexivity|].
  destruct H as [->| ->]; tauto.
Qed.

Lemma stop_one_spec v b p st done s rest s2 st1 o1 :
  stop_one v b p st done s rest = (s2, st1, o1) ->
  s_thread s2 = false /\ (st1 = st \/ st1 = GClosed) /\
  Forall (stop_out_ok p b st) o1 /\ In (OStop p (length done) b) o1.
Proof.
  unfold stop_one. destruct (is_shutdown (s_state s)) eqn:Esh.
  - intros [= <- <- <-]. repeat split.
    + destruct (s_thread s) eqn:Et; [reflexivity|exact Et].
    + now left.
    + constructor; [cbn; tauto|constructor].
    + now left.
  - unfold cb_shutdown, set_status. cbn [g_status g_pref g_socks].
    intros [= <- <- <-]. repeat split.
    + destruct (s_thread s) eqn:Et; reflexivity.
    + destruct (forallb _ _); tauto.
    + constructor; [cbn; tauto|]. constructor; [|constructor].
      cbn. split; [reflexivity|]. destruct (forallb _ _); tauto.
    + now left.
Qed.

Lemma stop_loop_spec v b p : forall todo done st socks st2 o,
  stop_loop v b p st done todo = (socks, st2, o) ->
  (exists t', socks = done ++ t' /\ length t' = length todo /\ Forall (fun s => s_thread s = false) t') /\
  (st2 = st \/ st2 = GClosed) /\
  Forall (stop_out_ok p b st) o /\
  (forall j, j < length todo -> In (OStop p (length done + j) b) o).
Proof.
  induction todo as [|s rest IH]; intros done st socks st2 o H.
  - cbn [stop_loop] in H. injection H as <- <- <-. repeat split.
    + exists []. rewrite app_nil_r. repeat split. constructor.
    + now left.
    + constructor.
    + cbn. intros; lia.
  - cbn [stop_loop] in H.
    destruct (stop_one v b p st done s rest) as [[s2 st1] o1] eqn:E1.
    destruct (stop_loop v b p st1 (done ++ [s2]) rest) as [[socks' st2'] o2] eqn:E2.
    injection H as <- <- <-.
    apply stop_one_spec in E1 as (Hth & Hst1 & Ho1 & Hin1).
    apply IH in E2 as ((t' & -> & Hlen & Hall) & Hst2 & Ho2 & Hin2).
    repeat split.
    + exists (s2 :: t'). rewrite <- app_assoc. cbn. repeat split; [now rewrite Hlen|now constructor].
    + destruct Hst2 as [->| ->]; tauto.
    + apply Forall_app. split; [exact Ho1|].
      eapply Forall_impl; [|exact Ho2]. intros x. now apply stop_out_ok_weaken.
    + intros j Hj. apply in_app_iff. destruct j as [|j].
      * left. now rewrite Nat.add_0_r.
      * right. cbn in Hj. specialize (Hin2 j ltac:(lia)).
        rewrite app_length in Hin2. cbn in Hin2.
        now replace (length done + S j) with (length done + 1 + j) by lia.
Qed.

(* with the repaired handler, stopping a group all of whose sockets run ends in CLOSED *)
Lemma stop_loop_closes v b p : fix_shutdown_counts_closed v = true ->
  forall todo done st socks st2 o,
  Forall (fun s => is_down v (s_state s) = true) done -> Forall live todo -> todo <> [] ->
  stop_loop v b p st done todo = (socks, st2, o) -> st2 = GClosed.
Proof.
  intros Hfix. induction todo as [|s rest IH]; intros done st socks st2 o Hd Hl Hne H; [now elim Hne|].
  cbn [stop_loop] in H.
  destruct (stop_one v b p st done s rest) as [[s2 st1] o1] eqn:E1.
  destruct (stop_loop v b p st1 (done ++ [s2]) rest) as [[socks' st2'] o2] eqn:E2.
  injection H as <- <- <-.
  inversion Hl as [|? ? (Hth & Hns & Hnc) Hl']; subst.
  unfold stop_one in E1.
  assert (Esh : is_shutdown (s_state s) = false) by (destruct (s_state s); try reflexivity; now elim Hns).
  rewrite Esh, Hth in E1. unfold cb_shutdown, set_status in E1. cbn [g_status g_pref g_socks] in E1.
  injection E1 as <- <- <-.
  destruct rest as [|s' rest'].
  - cbn [stop_loop] in E2. injection E2 as <- <- <-.
    rewrite forallb_app. cbn [forallb s_state is_down].
    assert (Hfd : forallb (fun s0 => is_down v (s_state s0)) done = true).
    { apply forallb_forall. rewrite Forall_forall in Hd. exact Hd. }
    now rewrite Hfd.
  - eapply IH; [| |discriminate|exact E2]; [|exact Hl'].
    apply Forall_app. split; [exact Hd|]. constructor; [|constructor]. cbn. exact Hfix.
Qed.

Lemma stop_group_spec v b g g' o : stop_group v b g = (g', o) ->
  g_pref g' = g_pref g /\ length (g_socks g') = length (g_socks g) /\ all_stopped g' /\
  (g_status g' = g_status g \/ g_status g' = GClosed) /\
  Forall (stop_out_ok (g_pref g) b (g_status g)) o /\
  (forall j, j < length (g_socks g) -> In (OStop (g_pref g) j b) o).
Proof.
  unfold stop_group.
  destruct (stop_loop v b (g_pref g) (g_status g) [] (g_socks g)) as [[socks st] o'] eqn:E.
  intros [= <- <-]. apply stop_loop_spec in E as ((t' & -> & Hlen & Hall) & Hst & Ho & Hin).
  cbn. repeat split; assumption.
Qed.

Lemma nonempty_length {A} (l : list A) : l <> [] <-> length l <> 0.
Proof. destruct l; cbn; split; congruence. Qed.

Lemma stop_group_ok v b g g' o : group_ok v g -> stop_group v b g = (g', o) -> group_ok v g'.
Proof.
  intros (Hne & Hu & Hc & He) H. pose proof H as H0.
  apply stop_group_spec in H as (Hp & Hlen & Hall & Hst & _ & _).
  repeat split.
  - apply nonempty_length. rewrite Hlen. now apply nonempty_length.
  - now left.
  - intros _. exact Hall.
  - intros Hfix Hest. exfalso. destruct Hst as [Hst|Hst]; [|congruence].
    rewrite Hst in Hest. specialize (He Hfix Hest).
    unfold stop_group in H0.
    destruct (stop_loop v b (g_pref g) (g_status g) [] (g_socks g)) as [[socks st] o'] eqn:E.
    injection H0 as <- <-. cbn in *.
    eapply stop_loop_closes in E; [|exact Hfix|constructor|exact He|exact Hne]. congruence.
Qed.

(* ------------------------------------------------------------------ rtr_mgr_start_sockets *)
Lemma start_loop_stopped p : forall todo k,
  Forall (fun s => s_thread s = false) todo ->
  exists o, start_loop p k todo = (map start_sock todo, true, o) /\
            (forall j, j < length todo -> In (OStart p (k + j) true) o).
Proof.
  induction todo as [|s r IH]; intros k H.
  - exists []. split; [reflexivity|]. cbn; intros; lia.
  - inversion H as [|? ? Hs Hr]; subst. cbn [start_loop]. rewrite Hs.
    destruct (IH (S k) Hr) as (o & -> & Hin). eexists. split; [reflexivity|].
    intros [|j] Hj; [left; now rewrite Nat.add_0_r|].
    right. cbn in Hj. specialize (Hin j ltac:(lia)). now replace (k + S j) with (S k + j) by lia.
Qed.

Lemma start_sockets_stopped g : all_stopped g ->
  exists o, start_sockets g = (mkGroup (g_pref g) GConnecting (map start_sock (g_socks g)), true, o) /\
            (forall j, j < length (g_socks g) -> In (OStart (g_pref g) j true) o).
Proof.
  intros H. unfold start_sockets. destruct (start_loop_stopped (g_pref g) _ 0 H) as (o & -> & Hin).
  exists o. split; [reflexivity|exact Hin].
Qed.

Lemma start_sockets_running g : all_running g -> g_socks g <> [] ->
  start_sockets g = (g, false, [OStart (g_pref g) 0 false]).
Proof.
  intros H Hne. unfold start_sockets. destruct g as [p st socks]. cbn in *.
  destruct socks as [|s r]; [now elim Hne|]. inversion H as [|? ? Hs _]; subst.
  cbn [start_loop]. now rewrite Hs.
Qed.

Lemma start_sock_running l : Forall (fun s => s_thread s = true) (map start_sock l).
Proof. rewrite Forall_map. apply Forall_forall. reflexivity. Qed.

Lemma start_sockets_ok v g : group_ok v g ->
  group_ok v (fst (fst (start_sockets g))) /\ g_pref (fst (fst (start_sockets g))) = g_pref g.
Proof.
  intros (Hne & [Hs|Hr] & Hc & He).
  - destruct (start_sockets_stopped g Hs) as (o & -> & _). cbn. split; [|reflexivity].
    repeat split; cbn; try discriminate.
    + intros Hm. apply map_eq_nil in Hm. contradiction.
    + right. apply start_sock_running.
  - rewrite (start_sockets_running g Hr Hne). cbn. split; [|reflexivity]. repeat split; auto.
Qed.

Lemma start_first_closed_some : forall l l' o, start_first_closed l = Some (l', o) ->
  exists a g b, l = a ++ g :: b /\ Forall (fun x => st_closed (g_status x) = false) a /\
                st_closed (g_status g) = true /\
                l' = a ++ fst (fst (start_sockets g)) :: b /\ o = snd (start_sockets g).
Proof.
  induction l as [|h r IH]; intros l' o H; [discriminate|].
  cbn [start_first_closed] in H. destruct (st_closed (g_status h)) eqn:E.
  - destruct (start_sockets h) as [[g' ok] o'] eqn:Es. injection H as <- <-.
    exists [], h, r. rewrite Es. repeat split; [constructor|exact E].
  - destruct (start_first_closed r) as [[r' o']|] eqn:Er; [|discriminate].
    injection H as <- <-. destruct (IH _ _ eq_refl) as (a & g & b & -> & Ha & Hg & -> & ->).
    exists (h :: a), g, b. repeat split; [now constructor|exact Hg].
Qed.

Lemma start_first_closed_none : forall l, start_first_closed l = None ->
  Forall (fun x => st_closed (g_status x) = false) l.
Proof.
  induction l as [|h r IH]; intros H; [constructor|].
  cbn [start_first_closed] in H. destruct (st_closed (g_status h)) eqn:E.
  - destruct (start_sockets h) as [[g' ok] o']. discriminate.
  - destruct (start_first_closed r) as [[r' o']|]; [discriminate|]. constructor; [exact E|now apply IH].
Qed.

(* ------------------------------------------------------------------ group_ok through the handlers *)
Lemma group_ok_status v g st :
  group_ok v g -> (st = GClosed -> all_stopped g) ->
  (fix_shutdown_counts_closed v = true -> st = GEstablished -> Forall live (g_socks g)) ->
  group_ok v (mkGroup (g_pref g) st (g_socks g)).
Proof. intros (Hne & Hu & _ & _) Hc He. repeat split; assumption. Qed.

Lemma map_keeps v (f : group -> group) l :
  (forall g, g_pref (f g) = g_pref g) -> (forall g, group_ok v g -> group_ok v (f g)) ->
  prefs (map f l) = prefs l /\ (Forall (group_ok v) l -> Forall (group_ok v) (map f l)).
Proof.
  intros Hp Hok. split.
  - unfold prefs. rewrite map_map. apply map_ext. exact Hp.
  - intros H. rewrite Forall_map. eapply Forall_impl; [|exact H]. exact Hok.
Qed.

Lemma close_one_spec v p by_ cur g' o : close_one v p by_ cur = (g', o) ->
  g_pref g' = g_pref cur /\ (group_ok v cur -> group_ok v g').
Proof.
  unfold close_one. destruct (negb (st_closed (g_status cur)) && (p <? g_pref cur)).
  - destruct (stop_group v (Some p) cur) as [g1 o1] eqn:E. unfold set_status. intros [= <- <-].
    pose proof (stop_group_spec _ _ _ _ _ E) as (Hp & _ & Hall & _). split; [exact Hp|].
    intros Hok. apply (stop_group_ok _ _ _ _ _ Hok) in E.
    apply group_ok_status; [exact E|intros _; exact Hall|discriminate].
  - intros [= <- <-]. tauto.
Qed.

Lemma close_all_keeps v p by_ l l' o : map_out (close_one v p by_) l = (l', o) ->
  prefs l' = prefs l /\ (Forall (group_ok v) l -> Forall (group_ok v) l').
Proof.
  intros H. assert (Hl : l' = fst (map_out (close_one v p by_) l)) by now rewrite H.
  rewrite map_out_fst in Hl. subst l'. apply map_keeps.
  - intros g. destruct (close_one v p by_ g) as [g' o'] eqn:E. now apply close_one_spec in E.
  - intros g. destruct (close_one v p by_ g) as [g' o'] eqn:E. now apply close_one_spec in E.
Qed.

Lemma Forall_mid {A} (P : A -> Prop) a x b : Forall P (a ++ x :: b) <-> Forall P a /\ P x /\ Forall P b.
Proof.
  rewrite Forall_app. split.
  - intros (Ha & Hxb). inversion Hxb; subst. tauto.
  - intros (Ha & Hx & Hb). split; [exact Ha|now constructor].
Qed.

Lemma Forall_mid_intro {A} (P : A -> Prop) a x b : Forall P a -> P x -> Forall P b -> Forall P (a ++ x :: b).
Proof. intros. apply Forall_mid. tauto. Qed.

Lemma prefs_mid a x b : prefs (a ++ x :: b) = prefs a ++ g_pref x :: prefs b.
Proof. now rewrite prefs_app. Qed.

(* the event's group after rtr_change_socket_state has written the new state *)
Lemma event_group_ok v p stt sp s sq st :
  group_ok v (mkGroup p stt (sp ++ s :: sq)) -> s_thread s = true ->
  is_shutdown st = false -> is_closed_state st = false ->
  group_ok v (mkGroup p stt (sp ++ mkSock st (s_lu s) (s_thread s) :: sq)) /\
  all_running (mkGroup p stt (sp ++ mkSock st (s_lu s) (s_thread s) :: sq)) /\ stt <> GClosed.
Proof.
  intros (Hne & Hu & Hc & He) Hth Hsh Hcl. cbn [g_socks g_status] in *.
  assert (Hrun : Forall (fun x => s_thread x = true) (sp ++ s :: sq)).
  { destruct Hu as [Hs|Hr]; [|exact Hr]. unfold all_stopped in Hs. cbn in Hs.
    apply Forall_mid in Hs as (_ & Hs & _). congruence. }
  assert (Hrun' : Forall (fun x => s_thread x = true) (sp ++ mkSock st (s_lu s) (s_thread s) :: sq)).
  { apply Forall_mid in Hrun as (Ha & _ & Hb). apply Forall_mid. repeat split; assumption. }
  assert (Hnc : stt <> GClosed).
  { intros Heq. specialize (Hc Heq). unfold all_stopped in Hc. cbn in Hc.
    apply Forall_mid in Hc as (_ & Hs & _). congruence. }
  split; [|split; [exact Hrun'|exact Hnc]].
  repeat split; cbn [g_socks g_status].
  - destruct sp; discriminate.
  - right. exact Hrun'.
  - intros Heq. contradiction.
  - intros Hfix Hest. specialize (He Hfix Hest). apply Forall_mid in He as (Ha & _ & Hb).
    apply Forall_mid. repeat split; try assumption; cbn; destruct st; try discriminate.
Qed.

Section Handlers.
  Variable v : variant.
  Variables (pre post : list group) (g : group).
  Hypothesis Hpre : Forall (group_ok v) pre.
  Hypothesis Hpost : Forall (group_ok v) post.
  Hypothesis Hg : group_ok v g.
  Hypothesis Hrun : all_running g.
  Hypothesis Hnc : g_status g <> GClosed.

  Definition kept (l' : list group) : Prop :=
    prefs l' = prefs (pre ++ g :: post) /\ Forall (group_ok v) l'.

  Lemma report_kept st by_ l' o :
    st = g_status g \/ st = GConnecting \/ st = GError ->
    report pre g post st by_ = (l', o) -> kept l'.
  Proof.
    intros Hst. unfold report, set_status. intros [= <- <-]. split.
    - now rewrite !prefs_mid.
    - apply Forall_mid_intro; try assumption.
      apply group_ok_status; [exact Hg| |].
      + intros ->. destruct Hst as [H|[H|H]]; [now elim Hnc|discriminate|discriminate].
      + intros Hfix ->. destruct Hst as [H|[H|H]]; [|discriminate|discriminate].
        destruct Hg as (_ & _ & _ & He). now apply He.
  Qed.

  Lemma synced_running_live : group_synced g = true -> Forall live (g_socks g).
  Proof.
    intros Hs. unfold group_synced in Hs. rewrite forallb_forall in Hs.
    unfold all_running in Hrun. rewrite Forall_forall in *. intros s Hin.
    specialize (Hs s Hin). specialize (Hrun s Hin). unfold sock_synced in Hs.
    apply andb_true_iff in Hs as (_ & Hs). repeat split; [exact Hrun| |];
      intros Heq; rewrite Heq in Hs; discriminate.
  Qed.

  Lemma establish_kept by_ l' o :
    group_synced g = true -> establish v pre g post by_ = (l', o) -> kept l'.
  Proof.
    intros Hs. unfold establish, set_status.
    destruct (map_out (close_one v (g_pref g) by_) pre) as [pre' o2] eqn:E2.
    destruct (map_out (close_one v (g_pref g) by_) post) as [post' o3] eqn:E3.
    intros [= <- <-].
    apply close_all_keeps in E2 as (Hp2 & Hk2). apply close_all_keeps in E3 as (Hp3 & Hk3).
    split.
    - rewrite !prefs_mid. cbn. now rewrite Hp2, Hp3.
    - apply Forall_mid_intro; [now apply Hk2| |now apply Hk3].
      apply group_ok_status; [exact Hg|discriminate|]. intros _ _. now apply synced_running_live.
  Qed.

  Lemma cb_established_kept by_ l' o : cb_established v pre g post by_ = (l', o) -> kept l'.
  Proof.
    unfold cb_established. case_eq (g_status g); intros Est.
    - now elim Hnc.
    - destruct (group_synced g) eqn:Es.
      + now apply establish_kept.
      + apply report_kept. tauto.
    - intros [= <- <-]. split; [reflexivity|]. apply Forall_mid. tauto.
    - destruct (negb (existsb (blocks_recovery (g_pref g)) (pre ++ post)) && group_synced g) eqn:Ec.
      + apply andb_true_iff in Ec as (_ & Es). now apply establish_kept.
      + apply report_kept. tauto.
  Qed.

  Lemma cb_connecting_kept by_ l' o : cb_connecting pre g post by_ = (l', o) -> kept l'.
  Proof.
    unfold cb_connecting. apply report_kept. destruct (st_error (g_status g)); tauto.
  Qed.

  Lemma started_kept a x b :
    Forall (group_ok v) (a ++ x :: b) ->
    prefs (a ++ fst (fst (start_sockets x)) :: b) = prefs (a ++ x :: b) /\
    Forall (group_ok v) (a ++ fst (fst (start_sockets x)) :: b).
  Proof.
    intros H. apply Forall_mid in H as (Ha & Hx & Hb).
    destruct (start_sockets_ok v x Hx) as (Hok & Hp). split.
    - rewrite !prefs_mid. now rewrite Hp.
    - apply Forall_mid. tauto.
  Qed.

  Lemma cb_error_kept by_ l' o : cb_error pre g post by_ = (l', o) -> kept l'.
  Proof.
    unfold cb_error, set_status.
    set (g1 := mkGroup (g_pref g) GError (g_socks g)).
    assert (Hg1 : group_ok v g1) by (apply group_ok_status; [exact Hg|discriminate|discriminate]).
    destruct (existsb _ _).
    { intros [= <- <-]. split; [now rewrite !prefs_mid|]. apply Forall_mid. tauto. }
    destruct (start_first_closed pre) as [[pre' o2]|] eqn:E1.
    { intros [= <- <-]. apply start_first_closed_some in E1 as (a & x & b & Heq & _ & _ & -> & _).
      assert (Hpre' : Forall (group_ok v) (a ++ x :: b)) by (rewrite <- Heq; exact Hpre).
      destruct (started_kept a x b Hpre') as (Hp & Hk). split.
      - rewrite Heq, (prefs_app (a ++ fst (fst (start_sockets x)) :: b)), (prefs_app (a ++ x :: b)), Hp. reflexivity.
      - apply Forall_mid. tauto. }
    destruct (start_first_closed post) as [[post' o2]|] eqn:E2.
    { intros [= <- <-]. apply start_first_closed_some in E2 as (a & x & b & Heq & _ & _ & -> & _).
      assert (Hpost' : Forall (group_ok v) (a ++ x :: b)) by (rewrite <- Heq; exact Hpost).
      destruct (started_kept a x b Hpost') as (Hp & Hk). split.
      - rewrite Heq, (prefs_mid pre g1), (prefs_mid pre g), Hp. reflexivity.
      - apply Forall_mid. tauto. }
    intros [= <- <-]. split; [now rewrite !prefs_mid|]. apply Forall_mid. tauto.
  Qed.

  Lemma mgr_cb_kept k st l' o :
    is_shutdown st = false -> mgr_cb v pre g post k st = (l', o) -> kept l'.
  Proof.
    intros Hsh. unfold mgr_cb. destruct st; try discriminate;
      try (apply report_kept; tauto).
    - apply cb_connecting_kept.
    - apply cb_established_kept.
    - apply cb_error_kept.
    - apply cb_error_kept.
    - apply cb_error_kept.
  Qed.
End Handlers.

Lemma sock_event_keeps v groups p k st l' o :
  Forall (group_ok v) groups -> sock_event v groups p k st = (l', o) ->
  prefs l' = prefs groups /\ Forall (group_ok v) l'.
Proof.
  intros Hok. unfold sock_event.
  destruct (split_first (has_pref p) groups) as [[[pre g] post]|] eqn:Eg; [|intros [= <- <-]; tauto].
  destruct (split_nth k (g_socks g)) as [[[sp s] sq]|] eqn:Es; [|intros [= <- <-]; tauto].
  destruct (negb (s_thread s) || is_shutdown st || is_closed_state st) eqn:Eguard; [intros [= <- <-]; tauto|].
  destruct (sstate_eqb (s_state s) st || is_shutdown (s_state s)); [intros [= <- <-]; tauto|].
  apply orb_false_iff in Eguard as (Eguard & Hcl). apply orb_false_iff in Eguard as (Hth & Hsh).
  apply negb_false_iff in Hth.
  apply split_first_spec in Eg as (-> & _ & _). apply split_nth_spec in Es as (Hs & _).
  apply Forall_mid in Hok as (Hpre & Hg & Hpost).
  destruct g as [gp gst gsocks]. cbn [g_socks g_pref g_status] in *. subst gsocks.
  destruct (event_group_ok v gp gst sp s sq st Hg Hth Hsh Hcl) as (Hg' & Hrun & Hnc).
  intros H. eapply mgr_cb_kept in H; try eassumption.
  destruct H as (Hp & Hk). split; [|exact Hk]. rewrite Hp. now rewrite !prefs_mid.
Qed.

Lemma sock_lu_keeps v groups p k b l' o :
  Forall (group_ok v) groups -> sock_lu groups p k b = (l', o) ->
  prefs l' = prefs groups /\ Forall (group_ok v) l'.
Proof.
  intros Hok. unfold sock_lu.
  destruct (split_first (has_pref p) groups) as [[[pre g] post]|] eqn:Eg; [|intros [= <- <-]; tauto].
  destruct (split_nth k (g_socks g)) as [[[sp s] sq]|] eqn:Es; [|intros [= <- <-]; tauto].
  destruct (negb (s_thread s)) eqn:Hth; [intros [= <- <-]; tauto|].
  intros [= <- <-].
  apply split_first_spec in Eg as (-> & _ & _). apply split_nth_spec in Es as (Hs & _).
  apply Forall_mid in Hok as (Hpre & Hg & Hpost). split; [now rewrite !prefs_mid|].
  apply Forall_mid_intro; try assumption.
  destruct g as [gp gst gsocks]. cbn [g_socks g_pref g_status] in *. subst gsocks.
  destruct Hg as (Hne & Hu & Hc & He). unfold all_stopped, all_running in *.
  cbn [g_socks g_status] in *.
  assert (Hiff : forall (P : sock -> Prop), P (mkSock (s_state s) b (s_thread s)) <-> P s ->
           Forall P (sp ++ mkSock (s_state s) b (s_thread s) :: sq) <-> Forall P (sp ++ s :: sq)).
  { intros P HP. rewrite !Forall_mid. tauto. }
  repeat split; cbn [g_socks g_status].
  - destruct sp; discriminate.
  - destruct Hu as [H|H]; [left|right]; (apply Hiff; [cbn; tauto|exact H]).
  - intros Hcl. apply Hiff; [cbn; tauto|auto].
  - intros Hfix Hest. apply Hiff; [unfold live; cbn; tauto|auto].
Qed.

(* ------------------------------------------------------------------ the invariant over all histories *)
Lemma fresh_group_ok v p n : n <> 0 -> group_ok v (mkGroup p GClosed (repeat fresh_sock n)).
Proof.
  intros Hn. assert (Hall : Forall (fun s => s_thread s = false) (repeat fresh_sock n)).
  { apply Forall_forall. intros s Hs. apply repeat_spec in Hs. now subst. }
  repeat split; cbn; try discriminate; auto.
  destruct n; [now elim Hn|discriminate].
Qed.

Lemma init_inv v gs c : mgr_init v gs = IOk c -> Inv v c.
Proof.
  intros H. apply init_ok_inv in H as (Hne & Hnd & Hs & Hasc & Hperm & Hlen).
  repeat split.
  - exact Hasc.
  - rewrite Hlen. apply Permutation_length in Hperm. now rewrite Hperm, map_length.
  - intros Heq. rewrite Heq in Hperm. apply Permutation_nil in Hperm.
    apply map_eq_nil in Hperm. contradiction.
  - eapply Permutation_Forall; [symmetry; exact Hperm|].
    rewrite Forall_map. eapply Forall_impl; [|exact Hs].
    intros [p n] Hn. now apply fresh_group_ok.
Qed.

Lemma head_started_keeps v g r :
  Forall (group_ok v) (g :: r) ->
  prefs (fst (fst (start_sockets g)) :: r) = prefs (g :: r) /\
  Forall (group_ok v) (fst (fst (start_sockets g)) :: r).
Proof. intros H. apply (started_kept v [] g r H). Qed.

Definition is_start (o : out) : Prop := match o with OStart _ _ _ => True | _ => False end.

Lemma start_loop_outs : forall todo p k, Forall is_start (snd (start_loop p k todo)).
Proof.
  induction todo as [|s t IH]; intros p k; cbn [start_loop]; [constructor|].
  destruct (s_thread s); [constructor; [exact I|constructor]|].
  specialize (IH p (S k)). destruct (start_loop p (S k) t) as [[? ?] ?]. cbn in *.
  constructor; [exact I|exact IH].
Qed.

Lemma start_sockets_outs g : Forall is_start (snd (start_sockets g)).
Proof.
  unfold start_sockets. pose proof (start_loop_outs (g_socks g) (g_pref g) 0) as H.
  destruct (start_loop (g_pref g) 0 (g_socks g)) as [[? ?] ?]. exact H.
Qed.

Lemma starts_no_undef o : Forall is_start o -> ~ In OUndef o.
Proof. intros H Hin. rewrite Forall_forall in H. exact (H _ Hin). Qed.

Lemma start_first_if_closed_keeps v l l' o :
  l <> [] -> Forall (group_ok v) l -> start_first_if_closed l = (l', o) ->
  prefs l' = prefs l /\ Forall (group_ok v) l' /\ Forall is_start o.
Proof.
  intros Hne Hok. destruct l as [|g r]; [now elim Hne|]. cbn [start_first_if_closed].
  destruct (st_closed (g_status g)) eqn:E.
  - pose proof (head_started_keeps v g r Hok) as (Hp & Hk).
    pose proof (start_sockets_outs g) as Ho.
    destruct (start_sockets g) as [[g' ok] o'] eqn:Es. intros [= <- <-]. cbn in *. tauto.
  - intros [= <- <-]. repeat split; [exact Hok|constructor].
Qed.

Lemma add_scan_dup p l :
  Forall (fun g => g_socks g <> []) l -> In p (prefs l) -> add_scan p l = ScanDup.
Proof.
  induction l as [|g r IH]; intros Hne Hin; [now elim Hin|].
  inversion Hne as [|? ? Hg Hr]; subst. cbn [add_scan].
  destruct (g_pref g =? p) eqn:E; [reflexivity|].
  destruct (g_socks g) eqn:Es; [now elim Hg|].
  apply IH; [exact Hr|]. destruct Hin as [Hin|Hin]; [|exact Hin].
  apply Nat.eqb_neq in E. contradiction.
Qed.

Lemma add_scan_free p l :
  Forall (fun g => g_socks g <> []) l -> ~ In p (prefs l) -> add_scan p l = ScanFree.
Proof.
  induction l as [|g r IH]; intros Hne Hin; [reflexivity|].
  inversion Hne as [|? ? Hg Hr]; subst. cbn [add_scan].
  destruct (g_pref g =? p) eqn:E.
  - apply Nat.eqb_eq in E. elim Hin. now left.
  - destruct (g_socks g) eqn:Es; [now elim Hg|]. apply IH; [exact Hr|]. intros H. apply Hin. now right.
Qed.

Lemma group_ok_nonempty v l : Forall (group_ok v) l -> Forall (fun g => g_socks g <> []) l.
Proof. apply Forall_impl. now intros g (H & _). Qed.

(* rtr_mgr_add_group, fully characterised on a well-formed configuration *)
Lemma mgr_add_dup v c p extra : Inv v c -> In p (prefs (c_groups c)) ->
  mgr_add c p extra = (c, [ORc RcInvalidParam]).
Proof.
  intros (_ & _ & _ & Hok) Hin. unfold mgr_add.
  now rewrite (add_scan_dup p _ (group_ok_nonempty _ _ Hok) Hin).
Qed.

Lemma mgr_add_new v c p extra : Inv v c -> ~ In p (prefs (c_groups c)) ->
  exists c' o, mgr_add c p extra = (c', o ++ [ORc RcSuccess]) /\ Forall is_start o /\ Inv v c' /\
               Permutation (prefs (c_groups c')) (p :: prefs (c_groups c)) /\
               c_len c' = S (c_len c).
Proof.
  intros (Hasc & Hlen & Hne & Hok) Hin. unfold mgr_add.
  rewrite (add_scan_free p _ (group_ok_nonempty _ _ Hok) Hin).
  set (ng := mkGroup p GClosed (repeat fresh_sock (S extra))).
  set (l := sort_groups (c_groups c ++ [ng])).
  assert (Hperm : Permutation l (c_groups c ++ [ng])) by apply sort_perm.
  assert (Hl_ok : Forall (group_ok v) l).
  { eapply Permutation_Forall; [symmetry; exact Hperm|]. apply Forall_app. split; [exact Hok|].
    constructor; [|constructor]. now apply fresh_group_ok. }
  assert (Hl_asc : ascending l).
  { apply sort_ascending. rewrite prefs_app. cbn.
    apply ascending_nodup in Hasc.
    eapply Permutation_NoDup; [apply Permutation_cons_append|]. now constructor. }
  assert (Hl_ne : l <> []).
  { intros Heq. rewrite Heq in Hperm. apply Permutation_nil in Hperm. destruct (c_groups c); discriminate. }
  destruct (start_first_if_closed l) as [l' o] eqn:Es.
  destruct (start_first_if_closed_keeps v l l' o Hl_ne Hl_ok Es) as (Hp & Hk & Ho).
  exists (mkConfig l' (S (c_len c))), o. repeat split; cbn [c_groups c_len]; try assumption.
  - unfold ascending. rewrite Hp. exact Hl_asc.
  - rewrite Hlen. apply (f_equal (@length nat)) in Hp. unfold prefs in Hp. rewrite !map_length in Hp.
    rewrite Hp. apply Permutation_length in Hperm. rewrite Hperm, app_length. cbn. lia.
  - intros Heq. rewrite Heq in Hp. cbn in Hp. symmetry in Hp. apply map_eq_nil in Hp. contradiction.
  - rewrite Hp. apply (Permutation_map g_pref) in Hperm. unfold prefs. rewrite Hperm.
    rewrite map_app. cbn. rewrite Permutation_app_comm. reflexivity.
Qed.

(* rtr_mgr_remove_group *)
Lemma mgr_remove_last v c p : Inv v c -> length (c_groups c) = 1 ->
  mgr_remove v c p = (c, [ORc RcError]).
Proof.
  intros (_ & Hlen & _) H1. unfold mgr_remove. rewrite Hlen, H1. reflexivity.
Qed.

Lemma mgr_remove_inv v c p c' o : Inv v c -> mgr_remove v c p = (c', o) ->
  Inv v c' /\ ~ In OUndef o.
Proof.
  intros Hinv. pose proof Hinv as (Hasc & Hlen & Hne & Hok). unfold mgr_remove.
  destruct (c_len c =? 1) eqn:E1.
  { intros [= <- <-]. split; [exact Hinv|]. intros [H|[]]; discriminate. }
  destruct (split_first (has_pref p) (c_groups c)) as [[[pre g] post]|] eqn:Eg.
  2:{ intros [= <- <-]. split; [exact Hinv|]. intros [H|[]]; discriminate. }
  apply split_first_spec in Eg as (Heq & _ & _).
  apply Nat.eqb_neq in E1.
  assert (Hne' : pre ++ post <> []).
  { intros H0. assert (Hl : length (c_groups c) = S (length (pre ++ post))) by (rewrite Heq, !app_length; cbn; lia).
    rewrite H0 in Hl. cbn in Hl. lia. }
  assert (Hok' : Forall (group_ok v) (pre ++ post)).
  { rewrite Heq in Hok. apply Forall_mid in Hok as (Ha & _ & Hb). apply Forall_app. tauto. }
  destruct (start_first_if_closed (pre ++ post)) as [l' o2] eqn:Es.
  destruct (start_first_if_closed_keeps v _ _ _ Hne' Hok' Es) as (Hp & Hk & Ho2).
  intros [= <- <-]. split.
  - repeat split; cbn [c_groups c_len].
    + unfold ascending. rewrite Hp. rewrite Heq in Hasc. eapply ascending_remove_mid. exact Hasc.
    + apply (f_equal (@length nat)) in Hp. unfold prefs in Hp. rewrite !map_length in Hp.
      rewrite Hp, Hlen, Heq, !app_length. cbn. lia.
    + intros H0. rewrite H0 in Hp. cbn in Hp. symmetry in Hp. apply map_eq_nil in Hp. contradiction.
    + exact Hk.
  - intros Hin. apply in_app_iff in Hin as [Hin|Hin].
    + destruct (st_closed (g_status g)); [exact Hin|].
      destruct (stop_group v None g) as [g1 o1] eqn:E. unfold set_status in Hin.
      apply stop_group_spec in E as (_ & _ & _ & _ & Hout & _).
      apply in_app_iff in Hin as [Hin|[Hin|[]]]; [|discriminate].
      rewrite Forall_forall in Hout. exact (Hout _ Hin).
    + apply in_app_iff in Hin as [Hin|[Hin|[]]]; [|discriminate].
      exact (starts_no_undef _ Ho2 Hin).
Qed.

Lemma mgr_start_inv v c c' o : Inv v c -> mgr_start c = (c', o) -> Inv v c' /\ ~ In OUndef o.
Proof.
  intros (Hasc & Hlen & Hne & Hok). unfold mgr_start.
  destruct (c_groups c) as [|g r] eqn:Eg; [now elim Hne|].
  pose proof (head_started_keeps v g r Hok) as (Hp & Hk).
  pose proof (start_sockets_outs g) as Ho.
  destruct (start_sockets g) as [[g' ok] o'] eqn:Es. cbn [fst snd] in Hp, Hk, Ho. intros [= <- <-]. split.
  - repeat split; cbn [c_groups c_len]; [unfold ascending; now rewrite Hp|now rewrite Hlen|discriminate|exact Hk].
  - intros Hin. apply in_app_iff in Hin as [Hin|[Hin|[]]]; [|discriminate].
    exact (starts_no_undef _ Ho Hin).
Qed.

Lemma mgr_stop_inv v c c' o : Inv v c -> mgr_stop v c = (c', o) -> Inv v c' /\ ~ In OUndef o.
Proof.
  intros (Hasc & Hlen & Hne & Hok). unfold mgr_stop.
  destruct (map_out (stop_group v None) (c_groups c)) as [l o'] eqn:E. intros [= <- <-].
  assert (Hl : l = fst (map_out (stop_group v None) (c_groups c))) by now rewrite E.
  assert (Ho : o' = snd (map_out (stop_group v None) (c_groups c))) by now rewrite E.
  rewrite map_out_fst in Hl. rewrite map_out_snd in Ho.
  destruct (map_keeps v (fun x => fst (stop_group v None x)) (c_groups c)) as (Hp & Hk).
  { intros g. destruct (stop_group v None g) as [g' og] eqn:Eg. now apply stop_group_spec in Eg. }
  { intros g Hg. destruct (stop_group v None g) as [g' og] eqn:Eg. eapply stop_group_ok; eassumption. }
  rewrite <- Hl in Hp, Hk. split.
  - repeat split; cbn [c_groups c_len].
    + unfold ascending. now rewrite Hp.
    + rewrite Hlen, Hl. now rewrite map_length.
    + intros H0. rewrite H0 in Hp. symmetry in Hp. apply map_eq_nil in Hp. contradiction.
    + now apply Hk.
  - rewrite Ho. intros Hin. apply in_flat_map in Hin as (g & _ & Hin).
    destruct (stop_group v None g) as [g' og] eqn:Eg. cbn in Hin.
    apply stop_group_spec in Eg as (_ & _ & _ & _ & Hout & _).
    rewrite Forall_forall in Hout. exact (Hout _ Hin).
Qed.

(* no handler output is the undefined-behaviour marker *)
Lemma handler_outs_defined v groups p k st l' o :
  sock_event v groups p k st = (l', o) -> ~ In OUndef o.
Proof.
  unfold sock_event.
  destruct (split_first (has_pref p) groups) as [[[pre g] post]|]; [|intros [= <- <-] [H|[]]; discriminate].
  destruct (split_nth k (g_socks g)) as [[[sp s] sq]|]; [|intros [= <- <-] [H|[]]; discriminate].
  destruct (negb (s_thread s) || is_shutdown st || is_closed_state st); [intros [= <- <-] [H|[]]; discriminate|].
  destruct (sstate_eqb (s_state s) st || is_shutdown (s_state s)); [intros [= <- <-] []|].
  set (g' := mkGroup _ _ _). generalize g'. clear g'. intros g'.
  assert (Hclose : forall pp by_ l, ~ In OUndef (snd (map_out (close_one v pp by_) l))).
  { intros pp by_ l. rewrite map_out_snd. intros Hin. apply in_flat_map in Hin as (x & _ & Hin).
    unfold close_one in Hin. destruct (negb (st_closed (g_status x)) && (pp <? g_pref x)); [|exact Hin].
    destruct (stop_group v (Some pp) x) as [g1 o1] eqn:E. unfold set_status in Hin. cbn in Hin.
    apply stop_group_spec in E as (_ & _ & _ & _ & Hout & _).
    apply in_app_iff in Hin as [Hin|[Hin|[]]]; [|discriminate].
    rewrite Forall_forall in Hout. exact (Hout _ Hin). }
  assert (Hest : forall by_ l1 o1, establish v pre g' post by_ = (l1, o1) -> ~ In OUndef o1).
  { intros by_ l1 o1. unfold establish, set_status.
    pose proof (Hclose (g_pref g') by_ pre) as H2. pose proof (Hclose (g_pref g') by_ post) as H3.
    destruct (map_out _ pre) as [pre' o2]. destruct (map_out _ post) as [post' o3]. cbn in H2, H3.
    intros [= <- <-] [Hin|Hin]; [discriminate|]. apply in_app_iff in Hin as [Hin|Hin]; tauto. }
  assert (Hrep : forall stt by_ l1 o1, report pre g' post stt by_ = (l1, o1) -> ~ In OUndef o1).
  { intros stt by_ l1 o1. unfold report, set_status. intros [= <- <-] [H|[]]. discriminate. }
  assert (Herr : forall by_ l1 o1, cb_error pre g' post by_ = (l1, o1) -> ~ In OUndef o1).
  { intros by_ l1 o1. unfold cb_error, set_status. destruct (existsb _ _); [intros [= <- <-] [H|[]]; discriminate|].
    destruct (start_first_closed pre) as [[pre' o2]|] eqn:E1.
    { intros [= <- <-] [H|Hin]; [discriminate|].
      apply start_first_closed_some in E1 as (a & x & b & _ & _ & _ & _ & ->).
      exact (starts_no_undef _ (start_sockets_outs x) Hin). }
    destruct (start_first_closed post) as [[post' o2]|] eqn:E2.
    { intros [= <- <-] [H|Hin]; [discriminate|].
      apply start_first_closed_some in E2 as (a & x & b & _ & _ & _ & _ & ->).
      exact (starts_no_undef _ (start_sockets_outs x) Hin). }
    intros [= <- <-] [H|[]]. discriminate. }
  unfold mgr_cb. destruct st; try (apply Hrep); try (apply Herr).
  - unfold cb_established. destruct (g_status g').
    + intros [= <- <-] [].
    + destruct (group_synced g'); [apply Hest|apply Hrep].
    + intros [= <- <-] [].
    + destruct (_ && _); [apply Hest|apply Hrep].
Qed.

Lemma step_inv v c o : Inv v c -> Inv v (fst (step v c o)) /\ ~ In OUndef (snd (step v c o)).
Proof.
  intros Hinv. destruct o as [| |p extra|p|p k st|p k b]; cbn [step].
  - destruct (mgr_start c) as [c' o] eqn:E. cbn. eapply mgr_start_inv; eassumption.
  - destruct (mgr_stop v c) as [c' o] eqn:E. cbn. eapply mgr_stop_inv; eassumption.
  - destruct (in_dec Nat.eq_dec p (prefs (c_groups c))) as [Hin|Hin].
    + rewrite (mgr_add_dup v c p extra Hinv Hin). cbn. split; [exact Hinv|]. intros [H|[]]; discriminate.
    + destruct (mgr_add_new v c p extra Hinv Hin) as (c' & o & -> & Ho & Hinv' & _). cbn. split; [exact Hinv'|].
      intros H. apply in_app_iff in H as [H|[H|[]]]; [|discriminate]. exact (starts_no_undef _ Ho H).
  - destruct (mgr_remove v c p) as [c' o] eqn:E. cbn. eapply mgr_remove_inv; eassumption.
  - destruct Hinv as (Hasc & Hlen & Hne & Hok).
    destruct (sock_event v (c_groups c) p k st) as [l o] eqn:E. cbn.
    pose proof (handler_outs_defined _ _ _ _ _ _ _ E) as Hdef.
    apply sock_event_keeps in E as (Hp & Hk); [|exact Hok]. split; [|exact Hdef].
    repeat split; cbn [c_groups c_len].
    + unfold ascending. now rewrite Hp.
    + apply (f_equal (@length nat)) in Hp. unfold prefs in Hp. rewrite !map_length in Hp. now rewrite Hp.
    + intros H0. rewrite H0 in Hp. symmetry in Hp. apply map_eq_nil in Hp. contradiction.
    + exact Hk.
  - destruct Hinv as (Hasc & Hlen & Hne & Hok).
    destruct (sock_lu (c_groups c) p k b) as [l o] eqn:E. cbn.
    assert (Hdef : ~ In OUndef o).
    { revert E. unfold sock_lu.
      destruct (split_first _ _) as [[[pre g] post]|]; [|intros [= <- <-] [H|[]]; discriminate].
      destruct (split_nth _ _) as [[[sp s] sq]|]; [|intros [= <- <-] [H|[]]; discriminate].
      destruct (negb _); [intros [= <- <-] [H|[]]; discriminate|intros [= <- <-] []]. }
    apply (sock_lu_keeps v) in E as (Hp & Hk); [|exact Hok]. split; [|exact Hdef].
    repeat split; cbn [c_groups c_len].
    + unfold ascending. now rewrite Hp.
    + apply (f_equal (@length nat)) in Hp. unfold prefs in Hp. rewrite !map_length in Hp. now rewrite Hp.
    + intros H0. rewrite H0 in Hp. symmetry in Hp. apply map_eq_nil in Hp. contradiction.
    + exact Hk.
Qed.

Lemma reachable_inv v c : reachable v c -> Inv v c.
Proof.
  induction 1 as [gs c H|c o _ IH]; [eapply init_inv; eassumption|now apply step_inv].
Qed.

Lemma reachable_run v c ops : reachable v c -> reachable v (fst (run v c ops)).
Proof.
  revert c. induction ops as [|o r IH]; intros c H; [exact H|].
  cbn [run]. destruct (step v c o) as [c1 out1] eqn:E1.
  specialize (IH c1). destruct (run v c1 r) as [c2 outs]. cbn in *. apply IH.
  replace c1 with (fst (step v c o)) by now rewrite E1. now constructor.
Qed.

(* ------------------------------------------------------------------ where outputs come from *)
(* outputs that neither stop on behalf of a group nor newly report ESTABLISHED *)
Definition benign (groups : list group) (o : out) : Prop :=
  match o with
  | OStop _ _ (Some _) => False
  | OStatus q GEstablished _ _ => exists g, In g groups /\ g_pref g = q /\ g_status g = GEstablished
  | _ => True
  end.

(* outputs of rtr_mgr_close_less_preferable_groups run for the group with preference p *)
Definition close_out_ok (groups : list group) (p : nat) (o : out) : Prop :=
  match o with
  | OStop q _ b => b = Some p /\ p < q
  | OStatus q GEstablished _ _ => exists g, In g groups /\ g_pref g = q /\ g_status g = GEstablished
  | OStatus _ _ _ _ => True
  | _ => False
  end.

Lemma stop_api_benign v groups g : In g groups -> Forall (benign groups) (snd (stop_group v None g)).
Proof.
  intros Hin. destruct (stop_group v None g) as [g' o] eqn:E. cbn.
  apply stop_group_spec in E as (_ & _ & _ & _ & Hout & _).
  eapply Forall_impl; [|exact Hout]. intros [q s by_ snap| | q j b| | |]; cbn; try tauto.
  - intros (-> & Hs). destruct s; try exact I. exists g. repeat split; [exact Hin|].
    destruct Hs as [Hs|Hs]; [now symmetry|discriminate].
  - intros (_ & ->). exact I.
Qed.

Lemma close_one_outs v groups p by_ cur : In cur groups ->
  Forall (close_out_ok groups p) (snd (close_one v p by_ cur)).
Proof.
  intros Hin. unfold close_one.
  destruct (negb (st_closed (g_status cur)) && (p <? g_pref cur)) eqn:Ec; [|constructor].
  apply andb_true_iff in Ec as (_ & Hlt). apply Nat.ltb_lt in Hlt.
  destruct (stop_group v (Some p) cur) as [g1 o1] eqn:E. unfold set_status. cbn.
  apply stop_group_spec in E as (_ & _ & _ & _ & Hout & _).
  apply Forall_app. split; [|constructor; [exact I|constructor]].
  eapply Forall_impl; [|exact Hout]. intros [q s b snap| | q j b| | |]; cbn; try tauto.
  - intros (-> & Hs). destruct s; try exact I. exists cur. repeat split; [exact Hin|].
    destruct Hs as [Hs|Hs]; [now symmetry|discriminate].
  - intros (-> & ->). split; [reflexivity|exact Hlt].
Qed.

Lemma close_all_outs v groups p by_ l : incl l groups ->
  Forall (close_out_ok groups p) (snd (map_out (close_one v p by_) l)).
Proof.
  intros Hincl. rewrite map_out_snd. apply Forall_forall. intros o Hin.
  apply in_flat_map in Hin as (x & Hx & Hin).
  pose proof (close_one_outs v groups p by_ x (Hincl _ Hx)) as H. rewrite Forall_forall in H. now apply H.
Qed.

Lemma starts_benign groups o : Forall is_start o -> Forall (benign groups) o.
Proof. apply Forall_impl. intros [ | | | | |]; cbn; tauto. Qed.

(* the one place where a group newly becomes ESTABLISHED *)
Definition established_by (v : variant) (groups : list group) (p k : nat) (st : sstate)
           (l' : list group) (o : list out) : Prop :=
  exists pre g post sp s sq,
    groups = pre ++ g :: post /\ g_pref g = p /\ g_socks g = sp ++ s :: sq /\ length sp = k /\
    s_thread s = true /\ st = SEstablished /\
    (g_status g = GConnecting \/ g_status g = GError) /\
    let g' := mkGroup p (g_status g) (sp ++ mkSock st (s_lu s) (s_thread s) :: sq) in
    group_synced g' = true /\ establish v pre g' post (p, k) = (l', o).

Lemma report_benign groups pre g post stt by_ l' o :
  (stt = GEstablished -> exists g0, In g0 groups /\ g_pref g0 = g_pref g /\ g_status g0 = GEstablished) ->
  report pre g post stt by_ = (l', o) -> Forall (benign groups) o.
Proof.
  intros H. unfold report, set_status. intros [= <- <-]. constructor; [|constructor].
  cbn. destruct stt; try exact I. now apply H.
Qed.

Lemma sock_event_cases v groups p k st l' o : sock_event v groups p k st = (l', o) ->
  Forall (benign groups) o \/ established_by v groups p k st l' o.
Proof.
  unfold sock_event.
  destruct (split_first (has_pref p) groups) as [[[pre g] post]|] eqn:Eg;
    [|intros [= <- <-]; left; repeat constructor].
  destruct (split_nth k (g_socks g)) as [[[sp s] sq]|] eqn:Es; [|intros [= <- <-]; left; repeat constructor].
  destruct (negb (s_thread s) || is_shutdown st || is_closed_state st) eqn:Eguard;
    [intros [= <- <-]; left; repeat constructor|].
  destruct (sstate_eqb (s_state s) st || is_shutdown (s_state s)); [intros [= <- <-]; left; constructor|].
  apply orb_false_iff in Eguard as (Eguard & Hcl). apply orb_false_iff in Eguard as (Hth & Hsh).
  apply negb_false_iff in Hth.
  apply split_first_spec in Eg as (Hgr & Hpref & _). apply Nat.eqb_eq in Hpref.
  apply split_nth_spec in Es as (Hs & Hk).
  set (g' := mkGroup (g_pref g) (g_status g) (sp ++ mkSock st (s_lu s) (s_thread s) :: sq)).
  assert (Hin : In g groups) by (rewrite Hgr; apply in_app_iff; right; now left).
  assert (Hsame : forall stt by_ l1 o1, stt = g_status g' \/ stt = GConnecting \/ stt = GError ->
            report pre g' post stt by_ = (l1, o1) -> Forall (benign groups) o1).
  { intros stt by_ l1 o1 Hst. apply report_benign. intros ->.
    destruct Hst as [H|[H|H]]; try discriminate. exists g. repeat split; [exact Hin|now symmetry]. }
  assert (Herr : forall by_ l1 o1, cb_error pre g' post by_ = (l1, o1) -> Forall (benign groups) o1).
  { intros by_ l1 o1. unfold cb_error, set_status.
    destruct (existsb _ _); [intros [= <- <-]; repeat constructor|].
    destruct (start_first_closed pre) as [[pre' o2]|] eqn:E1.
    { intros [= <- <-]. constructor; [exact I|].
      apply start_first_closed_some in E1 as (a & x & b & _ & _ & _ & _ & ->).
      apply starts_benign, start_sockets_outs. }
    destruct (start_first_closed post) as [[post' o2]|] eqn:E2.
    { intros [= <- <-]. constructor; [exact I|].
      apply start_first_closed_some in E2 as (a & x & b & _ & _ & _ & _ & ->).
      apply starts_benign, start_sockets_outs. }
    intros [= <- <-]. repeat constructor. }
  unfold mgr_cb. fold g'.
  destruct st; try discriminate; try (intros H; left; revert H; apply Hsame; tauto);
    try (intros H; left; revert H; apply Herr).
  - (* CONNECTING *) intros H; left; revert H. unfold cb_connecting. apply Hsame.
    destruct (st_error (g_status g')); tauto.
  - (* ESTABLISHED *)
    unfold cb_established. case_eq (g_status g'); intros Est.
    + intros [= <- <-]. left. constructor.
    + destruct (group_synced g') eqn:Esy.
      * intros H. right. exists pre, g, post, sp, s, sq. cbn in Est.
        repeat split; try assumption; try tauto.
        rewrite <- Hpref. exact H.
      * intros H; left; revert H. apply Hsame. tauto.
    + intros [= <- <-]. left. constructor.
    + destruct (negb (existsb (blocks_recovery (g_pref g')) (pre ++ post)) && group_synced g') eqn:Ec.
      * apply andb_true_iff in Ec as (_ & Esy).
        intros H. right. exists pre, g, post, sp, s, sq. cbn in Est.
        repeat split; try assumption; try tauto.
        rewrite <- Hpref. exact H.
      * intros H; left; revert H. apply Hsame. tauto.
Qed.

(* what establish does, in full *)
Lemma establish_spec v pre g post by_ l' o : establish v pre g post by_ = (l', o) ->
  exists o_rest,
    o = OStatus (g_pref g) GEstablished (Some by_) (g_socks g) :: o_rest /\
    Forall (close_out_ok (pre ++ post) (g_pref g)) o_rest /\
    l' = map (fun x => fst (close_one v (g_pref g) by_ x)) pre ++
         mkGroup (g_pref g) GEstablished (g_socks g) ::
         map (fun x => fst (close_one v (g_pref g) by_ x)) post /\
    (forall x, In x (pre ++ post) -> incl (snd (close_one v (g_pref g) by_ x)) o_rest).
Proof.
  unfold establish, set_status.
  destruct (map_out (close_one v (g_pref g) by_) pre) as [pre' o2] eqn:E2.
  destruct (map_out (close_one v (g_pref g) by_) post) as [post' o3] eqn:E3.
  intros [= <- <-]. exists (o2 ++ o3). split; [reflexivity|].
  assert (Hpre' : pre' = fst (map_out (close_one v (g_pref g) by_) pre)) by now rewrite E2.
  assert (Hpost' : post' = fst (map_out (close_one v (g_pref g) by_) post)) by now rewrite E3.
  assert (Ho2 : o2 = snd (map_out (close_one v (g_pref g) by_) pre)) by now rewrite E2.
  assert (Ho3 : o3 = snd (map_out (close_one v (g_pref g) by_) post)) by now rewrite E3.
  rewrite map_out_fst in Hpre', Hpost'. split; [|split].
  - apply Forall_app. split; [rewrite Ho2|rewrite Ho3]; apply close_all_outs;
      intros x Hx; apply in_app_iff; tauto.
  - now rewrite Hpre', Hpost'.
  - rewrite map_out_snd in Ho2, Ho3. intros x Hx y Hy. apply in_app_iff.
    apply in_app_iff in Hx as [Hx|Hx]; [left; rewrite Ho2|right; rewrite Ho3];
      apply in_flat_map; exists x; tauto.
Qed.

Lemma step_cases v c o :
  Forall (benign (c_groups c)) (snd (step v c o)) \/
  exists p k st, o = OpEv p k st /\
    established_by v (c_groups c) p k st (c_groups (fst (step v c o))) (snd (step v c o)).
Proof.
  destruct o as [| |p extra|p|p k st|p k b]; cbn [step].
  - left. unfold mgr_start. destruct (c_groups c) as [|g r]; [repeat constructor|].
    pose proof (start_sockets_outs g) as Ho. destruct (start_sockets g) as [[g' ok] o']. cbn in *.
    apply Forall_app. split; [now apply starts_benign|repeat constructor].
  - left. unfold mgr_stop. destruct (map_out (stop_group v None) (c_groups c)) as [l o'] eqn:E.
    cbn. assert (Ho : o' = snd (map_out (stop_group v None) (c_groups c))) by now rewrite E.
    rewrite map_out_snd in Ho. subst o'. apply Forall_forall. intros x Hin.
    apply in_flat_map in Hin as (g & Hg & Hin).
    pose proof (stop_api_benign v (c_groups c) g Hg) as H. rewrite Forall_forall in H. now apply H.
  - left. unfold mgr_add. destruct (add_scan p (c_groups c)); try (repeat constructor).
    destruct (start_first_if_closed _) as [l' o'] eqn:Es. cbn.
    apply Forall_app. split; [|repeat constructor].
    revert Es. unfold start_first_if_closed. destruct (sort_groups _) as [|g r]; [intros [= <- <-]; repeat constructor|].
    destruct (st_closed (g_status g)); [|intros [= <- <-]; constructor].
    pose proof (start_sockets_outs g) as Ho. destruct (start_sockets g) as [[g' ok] o2]. cbn in Ho.
    intros [= <- <-]. now apply starts_benign.
  - left. unfold mgr_remove. destruct (c_len c =? 1); [repeat constructor|].
    destruct (split_first (has_pref p) (c_groups c)) as [[[pre g] post]|] eqn:Eg; [|repeat constructor].
    apply split_first_spec in Eg as (Heq & _ & _).
    destruct (start_first_if_closed (pre ++ post)) as [l' o2] eqn:Es. cbn.
    apply Forall_app. split; [|apply Forall_app; split; [|repeat constructor]].
    + destruct (st_closed (g_status g)); [constructor|].
      assert (Hin : In g (c_groups c)) by (rewrite Heq; apply in_app_iff; right; now left).
      pose proof (stop_api_benign v (c_groups c) g Hin) as H.
      destruct (stop_group v None g) as [g1 o1]. unfold set_status. cbn in *.
      apply Forall_app. split; [exact H|repeat constructor].
    + revert Es. unfold start_first_if_closed. destruct (pre ++ post) as [|g0 r]; [intros [= <- <-]; repeat constructor|].
      destruct (st_closed (g_status g0)); [|intros [= <- <-]; constructor].
      pose proof (start_sockets_outs g0) as Ho. destruct (start_sockets g0) as [[g' ok] o3]. cbn in Ho.
      intros [= <- <-]. now apply starts_benign.
  - destruct (sock_event v (c_groups c) p k st) as [l o] eqn:E. cbn.
    apply sock_event_cases in E as [H|H]; [now left|right]. exists p, k, st. now split.
  - left. unfold sock_lu.
    destruct (split_first _ _) as [[[pre g] post]|]; [|repeat constructor].
    destruct (split_nth _ _) as [[[sp s] sq]|]; [|repeat constructor].
    destruct (negb _); repeat constructor.
Qed.

(* ------------------------------------------------------------------ the clauses of C15 about events *)
Definition not_established_before (c : config) (p : nat) : Prop :=
  forall g, In g (c_groups c) -> g_pref g = p -> g_status g <> GEstablished.

(* no group is ever shut down on behalf of a less-preferred one *)
Lemma never_upward v c o q j p : In (OStop q j (Some p)) (snd (step v c o)) -> p < q.
Proof.
  intros Hin. destruct (step_cases v c o) as [Hb|(p' & k & st & _ & Hest)].
  - rewrite Forall_forall in Hb. elim (Hb _ Hin).
  - destruct Hest as (pre & g & post & sp & s & sq & _ & _ & _ & _ & _ & _ & _ & _ & He).
    apply establish_spec in He as (o_rest & Ho & Hrest & _). rewrite Ho in Hin.
    destruct Hin as [Hin|Hin]; [discriminate|].
    rewrite Forall_forall in Hrest. specialize (Hrest _ Hin). cbn in Hrest.
    destruct Hrest as ([= ->] & Hlt). exact Hlt.
Qed.

(* a group newly reported ESTABLISHED has every socket synchronised at that moment *)
Lemma established_only_if_synced v c o p by_ snap :
  In (OStatus p GEstablished by_ snap) (snd (step v c o)) -> not_established_before c p ->
  forallb sock_synced snap = true.
Proof.
  intros Hin Hbefore. destruct (step_cases v c o) as [Hb|(p' & k & st & _ & Hest)].
  - rewrite Forall_forall in Hb. specialize (Hb _ Hin). cbn in Hb.
    destruct Hb as (g & Hg & Hp & Hs). elim (Hbefore g Hg Hp Hs).
  - destruct Hest as (pre & g & post & sp & s & sq & Hgr & _ & _ & _ & _ & _ & _ & Hsy & He).
    apply establish_spec in He as (o_rest & Ho & Hrest & _). rewrite Ho in Hin.
    destruct Hin as [Hin|Hin].
    + injection Hin as <- <- <-. exact Hsy.
    + rewrite Forall_forall in Hrest. specialize (Hrest _ Hin). cbn in Hrest.
      destruct Hrest as (g0 & Hg0 & Hp & Hs). elim (Hbefore g0); try assumption.
      rewrite Hgr. apply in_app_iff. apply in_app_iff in Hg0 as [H|H]; [now left|right; now right].
Qed.

Lemma close_one_closes v p by_ x : p < g_pref x -> g_status x <> GClosed ->
  g_status (fst (close_one v p by_ x)) = GClosed /\ all_stopped (fst (close_one v p by_ x)) /\
  (forall j, j < length (g_socks x) -> In (OStop (g_pref x) j (Some p)) (snd (close_one v p by_ x))) /\
  exists snap, In (OStatus (g_pref x) GClosed (Some by_) snap) (snd (close_one v p by_ x)).
Proof.
  intros Hlt Hnc. unfold close_one.
  assert (Hc : negb (st_closed (g_status x)) && (p <? g_pref x) = true).
  { apply andb_true_iff. split; [destruct (g_status x); try reflexivity; now elim Hnc|now apply Nat.ltb_lt]. }
  rewrite Hc. destruct (stop_group v (Some p) x) as [g1 o1] eqn:E. unfold set_status. cbn.
  apply stop_group_spec in E as (Hp & _ & Hall & _ & _ & Hin). repeat split.
  - exact Hall.
  - intros j Hj. apply in_app_iff. left. now apply Hin.
  - exists (g_socks g1). apply in_app_iff. right. left. now rewrite Hp.
Qed.

Lemma close_one_after v p by_ x : group_ok v x -> p < g_pref x ->
  g_status (fst (close_one v p by_ x)) = GClosed /\ all_stopped (fst (close_one v p by_ x)).
Proof.
  intros Hok Hlt. destruct (st_closed (g_status x)) eqn:Ec.
  - unfold close_one. rewrite Ec. cbn. destruct Hok as (_ & _ & Hc & _).
    assert (g_status x = GClosed) by (destruct (g_status x); try discriminate; reflexivity). auto.
  - assert (Hnc : g_status x <> GClosed) by (intros H; rewrite H in Ec; discriminate).
    destruct (close_one_closes v p by_ x Hlt Hnc) as (H1 & H2 & _). auto.
Qed.

(* whenever a group becomes ESTABLISHED every less-preferred group is shut down and reported CLOSED *)
Lemma closes_less_preferred v c o p by_ snap :
  Inv v c -> In (OStatus p GEstablished by_ snap) (snd (step v c o)) -> not_established_before c p ->
  (forall g', In g' (c_groups (fst (step v c o))) -> p < g_pref g' ->
     g_status g' = GClosed /\ all_stopped g') /\
  (forall g0, In g0 (c_groups c) -> p < g_pref g0 -> g_status g0 <> GClosed ->
     (forall j, j < length (g_socks g0) -> In (OStop (g_pref g0) j (Some p)) (snd (step v c o))) /\
     exists sn, In (OStatus (g_pref g0) GClosed by_ sn) (snd (step v c o))).
Proof.
  intros (Hasc & _ & _ & Hok) Hin Hbefore.
  destruct (step_cases v c o) as [Hb|(p' & k & st & _ & Hest)].
  { rewrite Forall_forall in Hb. specialize (Hb _ Hin). cbn in Hb.
    destruct Hb as (g & Hg & Hp & Hs). elim (Hbefore g Hg Hp Hs). }
  destruct Hest as (pre & g & post & sp & s & sq & Hgr & Hpg & _ & _ & _ & _ & _ & Hsy & He).
  apply establish_spec in He as (o_rest & Ho & Hrest & Hl' & Hincl). cbn [g_pref g_socks] in *.
  rewrite Ho in Hin. destruct Hin as [Hin|Hin].
  2:{ rewrite Forall_forall in Hrest. specialize (Hrest _ Hin). cbn in Hrest.
      destruct Hrest as (g0 & Hg0 & Hp & Hs). elim (Hbefore g0); try assumption.
      rewrite Hgr. apply in_app_iff. apply in_app_iff in Hg0 as [H|H]; [now left|right; now right]. }
  injection Hin as <- <- <-.
  rewrite Hgr in Hok. apply Forall_mid in Hok as (Hokpre & _ & Hokpost).
  rewrite Forall_forall in Hokpre, Hokpost.
  split.
  - intros g' Hg' Hlt. rewrite Hl' in Hg'.
    assert (Hmapped : forall l, (forall x, In x l -> group_ok v x) ->
              In g' (map (fun x => fst (close_one v p' (p', k) x)) l) ->
              g_status g' = GClosed /\ all_stopped g').
    { intros l Hl Hm. apply in_map_iff in Hm as (x & <- & Hx).
      apply close_one_after; [now apply Hl|].
      destruct (close_one v p' (p', k) x) as [x' ox] eqn:Ex. apply close_one_spec in Ex as (Hpx & _).
      cbn in Hlt. now rewrite <- Hpx. }
    apply in_app_iff in Hg' as [Hg'|[Hg'|Hg']].
    + now apply (Hmapped pre).
    + subst g'. cbn in Hlt. lia.
    + now apply (Hmapped post).
  - intros g0 Hg0 Hlt Hnc. rewrite Hgr in Hg0.
    assert (Hother : In g0 (pre ++ post)).
    { apply in_app_iff in Hg0 as [H|[H|H]]; apply in_app_iff; [now left| |now right].
      subst g0. lia. }
    destruct (close_one_closes v p' (p', k) g0 Hlt Hnc) as (_ & _ & Hstops & sn & Hrep).
    specialize (Hincl g0 Hother). rewrite Ho. split.
    + intros j Hj. right. apply Hincl. now apply Hstops.
    + exists sn. right. now apply Hincl.
Qed.

(* ------------------------------------------------------------------ failover *)
Definition is_error_state (st : sstate) : Prop := st = SErrFatal \/ st = SErrTransport \/ st = SErrNoData.

Lemma sorted_before_lt (a : list nat) x b y : StronglySorted lt (a ++ x :: b) -> In y b -> x < y.
Proof.
  induction a as [|h r IH]; cbn; intros Hs Hy.
  - inversion Hs as [|? ? _ Hall]; subst. rewrite Forall_forall in Hall. now apply Hall.
  - inversion Hs; subst. now apply IH.
Qed.

(* in an ascending list the first CLOSED group is the CLOSED group of least preference value *)
Lemma first_closed_is_min l a x b g1 :
  ascending l -> l = a ++ x :: b -> Forall (fun y => st_closed (g_status y) = false) a ->
  In g1 l -> g_status g1 = GClosed ->
  (forall g2, In g2 l -> g_status g2 = GClosed -> g_pref g1 <= g_pref g2) ->
  st_closed (g_status x) = true -> g1 = x.
Proof.
  intros Hasc -> Ha Hin Hc Hmin Hx.
  apply in_app_iff in Hin as [Hin|[Hin|Hin]].
  - rewrite Forall_forall in Ha. specialize (Ha _ Hin). rewrite Hc in Ha. discriminate.
  - now symmetry.
  - exfalso. unfold ascending in Hasc. rewrite prefs_mid in Hasc.
    assert (Hlt : g_pref x < g_pref g1) by (eapply sorted_before_lt; [exact Hasc|now apply in_map]).
    assert (Hxc : g_status x = GClosed) by (destruct (g_status x); try discriminate; reflexivity).
    specialize (Hmin x ltac:(apply in_app_iff; right; now left) Hxc). lia.
Qed.

Lemma failover v c p k st snap :
  Inv v c -> is_error_state st ->
  In (OStatus p GError (Some (p, k)) snap) (snd (step v c (OpEv p k st))) ->
  (forall g, In g (c_groups c) -> g_pref g <> p -> g_status g <> GEstablished) ->
  forall g1, In g1 (c_groups c) -> g_status g1 = GClosed ->
    (forall g2, In g2 (c_groups c) -> g_status g2 = GClosed -> g_pref g1 <= g_pref g2) ->
    (forall j, j < length (g_socks g1) -> In (OStart (g_pref g1) j true) (snd (step v c (OpEv p k st)))) /\
    exists g1', In g1' (c_groups (fst (step v c (OpEv p k st)))) /\ g_pref g1' = g_pref g1 /\
                g_status g1' = GConnecting /\ all_running g1' /\
                length (g_socks g1') = length (g_socks g1).
Proof.
  intros (Hasc & _ & _ & Hok) Herrst Hrep Hnoest g1 Hg1 Hc1 Hmin.
  cbn [step] in *. destruct (sock_event v (c_groups c) p k st) as [l' o] eqn:E. cbn [fst snd c_groups] in *.
  revert E. unfold sock_event.
  destruct (split_first (has_pref p) (c_groups c)) as [[[pre g] post]|] eqn:Eg.
  2:{ intros [= <- <-]. destruct Hrep as [H|[]]; discriminate. }
  destruct (split_nth k (g_socks g)) as [[[sp s] sq]|] eqn:Es.
  2:{ intros [= <- <-]. destruct Hrep as [H|[]]; discriminate. }
  destruct (negb (s_thread s) || is_shutdown st || is_closed_state st) eqn:Eguard.
  { intros [= <- <-]. destruct Hrep as [H|[]]; discriminate. }
  destruct (sstate_eqb (s_state s) st || is_shutdown (s_state s)).
  { intros [= <- <-]. destruct Hrep. }
  apply orb_false_iff in Eguard as (Eguard & Hcl). apply orb_false_iff in Eguard as (Hth & Hsh).
  apply negb_false_iff in Hth.
  apply split_first_spec in Eg as (Hgr & Hpref & _). apply Nat.eqb_eq in Hpref.
  apply split_nth_spec in Es as (Hs & _).
  set (g' := mkGroup (g_pref g) (g_status g) (sp ++ mkSock st (s_lu s) (s_thread s) :: sq)).
  assert (Hcb : mgr_cb v pre g' post k st = cb_error pre g' post (g_pref g', k)).
  { destruct Herrst as [->|[->| ->]]; reflexivity. }
  rewrite Hcb. clear Hcb.
  (* the event's group is not CLOSED: one of its sockets runs *)
  pose proof Hok as Hok0. rewrite Hgr in Hok0. apply Forall_mid in Hok0 as (Hokpre & Hokg & Hokpost).
  assert (Hgnc : st_closed (g_status g) = false).
  { destruct g as [gp gst gsocks]. cbn [g_socks g_pref g_status] in *. subst gsocks.
    destruct (event_group_ok v gp gst sp s sq st Hokg Hth Hsh Hcl) as (_ & _ & Hnc).
    destruct gst; try reflexivity. now elim Hnc. }
  (* nobody is ESTABLISHED once g is marked ERROR *)
  assert (Hnd : NoDup (prefs (c_groups c))) by now apply ascending_nodup.
  assert (Hothers : forall x, In x (pre ++ post) -> g_pref x <> p).
  { intros x Hx Heq. rewrite Hgr, prefs_mid in Hnd. apply NoDup_remove_2 in Hnd.
    apply Hnd. rewrite <- prefs_app. rewrite Hpref, <- Heq. now apply in_map. }
  unfold cb_error, set_status. cbn [g_pref g_socks g'].
  set (ge := mkGroup (g_pref g) GError (sp ++ mkSock st (s_lu s) (s_thread s) :: sq)).
  assert (Hex : existsb (fun x => st_established (g_status x)) (pre ++ ge :: post) = false).
  { apply not_true_is_false. intros Hex. apply existsb_exists in Hex as (x & Hx & Hst).
    apply in_app_iff in Hx as [Hx|[Hx|Hx]].
    - apply (Hnoest x); [rewrite Hgr; apply in_app_iff; now left|apply Hothers, in_app_iff; now left|].
      destruct (g_status x); try discriminate; reflexivity.
    - subst x. discriminate.
    - apply (Hnoest x); [rewrite Hgr; apply in_app_iff; right; now right|apply Hothers, in_app_iff; now right|].
      destruct (g_status x); try discriminate; reflexivity. }
  rewrite Hex.
  (* the group that is started is g1 *)
  assert (Hstarted : forall x, In x (c_groups c) -> x = g1 ->
            (forall j, j < length (g_socks g1) -> In (OStart (g_pref g1) j true) (snd (start_sockets x))) /\
            g_pref (fst (fst (start_sockets x))) = g_pref g1 /\
            g_status (fst (fst (start_sockets x))) = GConnecting /\
            all_running (fst (fst (start_sockets x))) /\
            length (g_socks (fst (fst (start_sockets x)))) = length (g_socks g1)).
  { intros x Hx ->. rewrite Forall_forall in Hok. destruct (Hok _ Hx) as (_ & _ & Hcs & _).
    destruct (start_sockets_stopped g1 (Hcs Hc1)) as (o1 & -> & Hin). cbn.
    repeat split; [exact Hin|apply start_sock_running|apply map_length]. }
  destruct (start_first_closed pre) as [[pre' o2]|] eqn:E1.
  { intros [= <- <-]. apply start_first_closed_some in E1 as (a & x & b & Hpre & Ha & Hx & -> & ->).
    assert (Hgr' : c_groups c = a ++ x :: (b ++ g :: post)) by (rewrite Hgr, Hpre, <- app_assoc; reflexivity).
    assert (Hxg : g1 = x) by (eapply first_closed_is_min; eassumption).
    destruct (Hstarted x) as (Hin & Hp' & Hst' & Hrun' & Hlen'); [rewrite Hgr'; apply in_app_iff; right; now left|now symmetry|].
    split; [intros j Hj; right; now apply Hin|].
    eexists. split; [apply in_app_iff; left; apply in_app_iff; right; left; reflexivity|]. tauto. }
  pose proof (start_first_closed_none _ E1) as Hpre_nc.
  destruct (start_first_closed post) as [[post' o2]|] eqn:E2.
  { intros [= <- <-]. apply start_first_closed_some in E2 as (a & x & b & Hpost & Ha & Hx & -> & ->).
    assert (Hgr' : c_groups c = (pre ++ g :: a) ++ x :: b) by (rewrite Hgr, Hpost, <- app_assoc; reflexivity).
    assert (Hxg : g1 = x).
    { eapply first_closed_is_min; try eassumption. apply Forall_mid_intro; assumption. }
    destruct (Hstarted x) as (Hin & Hp' & Hst' & Hrun' & Hlen'); [rewrite Hgr'; apply in_app_iff; right; now left|now symmetry|].
    split; [intros j Hj; right; now apply Hin|].
    eexists. split; [apply in_app_iff; right; right; apply in_app_iff; right; left; reflexivity|]. tauto. }
  pose proof (start_first_closed_none _ E2) as Hpost_nc.
  exfalso. rewrite Hgr in Hg1. rewrite Forall_forall in Hpre_nc, Hpost_nc.
  apply in_app_iff in Hg1 as [H|[H|H]].
  - specialize (Hpre_nc _ H). rewrite Hc1 in Hpre_nc. discriminate.
  - subst g1. rewrite Hc1 in Hgnc. discriminate.
  - specialize (Hpost_nc _ H). rewrite Hc1 in Hpost_nc. discriminate.
Qed.

(* ... and no group is started by an error while another group is ESTABLISHED *)
Lemma no_failover_while_established v c p k st :
  is_error_state st ->
  (exists g, In g (c_groups c) /\ g_pref g <> p /\ g_status g = GEstablished) ->
  forall q j b, ~ In (OStart q j b) (snd (step v c (OpEv p k st))).
Proof.
  intros Herrst (ge & Hge & Hpe & Hste) q j b. cbn [step].
  destruct (sock_event v (c_groups c) p k st) as [l' o] eqn:E. cbn [snd]. revert E. unfold sock_event.
  destruct (split_first (has_pref p) (c_groups c)) as [[[pre g] post]|] eqn:Eg.
  2:{ intros [= <- <-] [H|[]]; discriminate. }
  destruct (split_nth k (g_socks g)) as [[[sp s] sq]|] eqn:Es.
  2:{ intros [= <- <-] [H|[]]; discriminate. }
  destruct (negb (s_thread s) || is_shutdown st || is_closed_state st).
  { intros [= <- <-] [H|[]]; discriminate. }
  destruct (sstate_eqb (s_state s) st || is_shutdown (s_state s)).
  { intros [= <- <-] []. }
  apply split_first_spec in Eg as (Hgr & Hpref & _). apply Nat.eqb_eq in Hpref.
  set (g' := mkGroup _ _ _).
  assert (Hcb : mgr_cb v pre g' post k st = cb_error pre g' post (g_pref g', k)).
  { destruct Herrst as [->|[->| ->]]; reflexivity. }
  rewrite Hcb. unfold cb_error, set_status.
  assert (Hex : existsb (fun x => st_established (g_status x))
                  (pre ++ mkGroup (g_pref g') GError (g_socks g') :: post) = true).
  { apply existsb_exists. exists ge. split; [|now rewrite Hste].
    rewrite Hgr in Hge. apply in_app_iff in Hge as [H|[H|H]]; apply in_app_iff; [now left| |right; now right].
    subst ge. now elim Hpe. }
  rewrite Hex. intros [= <- <-] [H|[]]. discriminate.
Qed.

(* ------------------------------------------------------------------ ESTABLISHED groups have running sockets *)
Lemma established_running v c : fix_shutdown_counts_closed v = true -> reachable v c ->
  forall g, In g (c_groups c) -> g_status g = GEstablished -> all_running g.
Proof.
  intros Hfix Hr g Hg Hst. apply reachable_inv in Hr as (_ & _ & _ & Hok).
  rewrite Forall_forall in Hok. destruct (Hok _ Hg) as (_ & _ & _ & He).
  specialize (He Hfix Hst). unfold all_running. eapply Forall_impl; [|exact He]. now intros s (H & _).
Qed.

(* shipped code: rtr_mgr_stop leaves a two-socket group ESTABLISHED with both sockets closed *)
Definition stale_witness : list op :=
  [OpStart; OpLu 1 0 true; OpLu 1 1 true; OpEv 1 0 SEstablished; OpEv 1 1 SEstablished; OpStop].

Lemma stale_established_shipped :
  exists c0, mgr_init shipped [(1, 2)] = IOk c0 /\
    c_groups (fst (run shipped c0 stale_witness)) =
      [mkGroup 1 GEstablished [mkSock SClosed false false; mkSock SClosed false false]].
Proof. eexists. split; [reflexivity|]. vm_compute. reflexivity. Qed.

Lemma stale_established_fixed :
  exists c0, mgr_init fixed [(1, 2)] = IOk c0 /\
    c_groups (fst (run fixed c0 stale_witness)) =
      [mkGroup 1 GClosed [mkSock SClosed false false; mkSock SClosed false false]].
Proof. eexists. split; [reflexivity|]. vm_compute. reflexivity. Qed.

(* ------------------------------------------------------------------ statements over explicit histories *)
(* c is the configuration after rtr_mgr_init(gs) succeeded and the operations ops were applied *)
Definition after_history (v : variant) (gs : list (nat * nat)) (ops : list op) (c : config) : Prop :=
  exists c0, mgr_init v gs = IOk c0 /\ fst (run v c0 ops) = c.

Lemma after_history_reachable v gs ops c : after_history v gs ops c -> reachable v c.
Proof. intros (c0 & H0 & <-). apply reachable_run. econstructor. exact H0. Qed.

Lemma after_history_inv v gs ops c : after_history v gs ops c -> Inv v c.
Proof. intros H. apply after_history_reachable in H. now apply reachable_inv. Qed.

Lemma P_init v :
  mgr_init v [] = IErr RcError /\
  (forall gs c, bad_groups gs -> mgr_init v gs <> IOk c) /\
  (forall gs, gs <> [] -> NoDup (map fst gs) -> Forall (fun s => snd s <> 0) gs -> exists c, mgr_init v gs = IOk c) /\
  (forall gs c, mgr_init v gs = IOk c ->
     StronglySorted lt (map g_pref (c_groups c)) /\
     Permutation (map g_pref (c_groups c)) (map fst gs) /\ c_len c = length gs /\
     Forall (fun g => g_status g = GClosed) (c_groups c)).
Proof.
  split; [reflexivity|]. split; [intros gs c Hb; now apply init_never_accepts_bad|].
  split; [apply init_accepts|]. intros gs c H. pose proof (init_ok_inv _ _ _ H) as (_ & _ & _ & Hasc & Hperm & Hlen).
  repeat split; try assumption.
  - rewrite <- prefs_spec. apply (Permutation_map g_pref). exact Hperm.
  - eapply Permutation_Forall; [symmetry; exact Hperm|]. rewrite Forall_map. apply Forall_forall. reflexivity.
Qed.

Lemma P_init_rejects v : fix_init_groups_null v = true ->
  forall gs, bad_groups gs -> exists r, mgr_init v gs = IErr r /\ r <> RcSuccess.
Proof.
  intros Hf gs Hb. exists RcError. split; [now apply init_rejects_with_error|discriminate].
Qed.

Lemma P_init_refuted :
  ~ (forall gs, bad_groups gs -> exists r, mgr_init shipped gs = IErr r /\ r <> RcSuccess).
Proof.
  intros H. destruct (H [(1, 1); (1, 1)]) as (r & Hr & _).
  - right. right. intros Hn. inversion Hn as [|? ? Hni _]; subst. apply Hni. now left.
  - discriminate Hr.
Qed.

Lemma P_add v gs ops c p extra : after_history v gs ops c ->
  (In p (map g_pref (c_groups c)) -> step v c (OpAdd p extra) = (c, [ORc RcInvalidParam])) /\
  (~ In p (map g_pref (c_groups c)) ->
     exists c' o, step v c (OpAdd p extra) = (c', o ++ [ORc RcSuccess]) /\
       Permutation (map g_pref (c_groups c')) (p :: map g_pref (c_groups c)) /\
       StronglySorted lt (map g_pref (c_groups c')) /\ c_len c' = S (c_len c)).
Proof.
  intros H. apply after_history_inv in H. split.
  - intros Hin. now apply (mgr_add_dup v).
  - intros Hin. destruct (mgr_add_new v c p extra H Hin) as (c' & o & He & _ & (Hasc & _) & Hperm & Hlen).
    exists c', o. repeat split; assumption.
Qed.

Lemma P_remove_last v gs ops c : after_history v gs ops c ->
  c_groups c <> [] /\ c_len c = length (c_groups c) /\
  (length (c_groups c) = 1 -> forall p, step v c (OpRemove p) = (c, [ORc RcError])).
Proof.
  intros H. apply after_history_inv in H. pose proof H as (_ & Hlen & Hne & _).
  repeat split; try assumption. intros H1 p. now apply (mgr_remove_last v).
Qed.

Lemma P_sorted v gs ops c : after_history v gs ops c -> StronglySorted lt (map g_pref (c_groups c)).
Proof. intros H. now apply after_history_inv in H as (Hasc & _). Qed.

Lemma P_defined v gs ops c o : after_history v gs ops c -> ~ In OUndef (snd (step v c o)).
Proof. intros H. apply after_history_inv in H. now apply step_inv. Qed.

Lemma P_established_only_if_synced v gs ops c o p by_ snap : after_history v gs ops c ->
  In (OStatus p GEstablished by_ snap) (snd (step v c o)) ->
  (forall g, In g (c_groups c) -> g_pref g = p -> g_status g <> GEstablished) ->
  Forall (fun s => s_lu s = true /\ (s_state s = SEstablished \/ s_state s = SReset \/ s_state s = SSync)) snap.
Proof.
  intros _ Hin Hb. pose proof (established_only_if_synced v c o p by_ snap Hin Hb) as H.
  rewrite forallb_forall in H. apply Forall_forall. intros s Hs. specialize (H s Hs).
  unfold sock_synced in H. apply andb_true_iff in H as (Hlu & Hst). split; [exact Hlu|].
  destruct (s_state s); try discriminate; tauto.
Qed.

Lemma P_closes v gs ops c o p by_ snap : after_history v gs ops c ->
  In (OStatus p GEstablished by_ snap) (snd (step v c o)) ->
  (forall g, In g (c_groups c) -> g_pref g = p -> g_status g <> GEstablished) ->
  (forall g', In g' (c_groups (fst (step v c o))) -> p < g_pref g' ->
     g_status g' = GClosed /\ Forall (fun s => s_thread s = false) (g_socks g')) /\
  (forall g0, In g0 (c_groups c) -> p < g_pref g0 -> g_status g0 <> GClosed ->
     (forall j, j < length (g_socks g0) -> In (OStop (g_pref g0) j (Some p)) (snd (step v c o))) /\
     exists sn, In (OStatus (g_pref g0) GClosed by_ sn) (snd (step v c o))).
Proof. intros H. apply after_history_inv in H. now apply closes_less_preferred. Qed.

Lemma P_never_upward v gs ops c o q j p : after_history v gs ops c ->
  In (OStop q j (Some p)) (snd (step v c o)) -> p < q.
Proof. intros _ H. eapply never_upward. exact H. Qed.

Lemma P_failover v gs ops c p k st snap : after_history v gs ops c ->
  st = SErrFatal \/ st = SErrTransport \/ st = SErrNoData ->
  In (OStatus p GError (Some (p, k)) snap) (snd (step v c (OpEv p k st))) ->
  (forall g, In g (c_groups c) -> g_pref g <> p -> g_status g <> GEstablished) ->
  forall g1, In g1 (c_groups c) -> g_status g1 = GClosed ->
    (forall g2, In g2 (c_groups c) -> g_status g2 = GClosed -> g_pref g1 <= g_pref g2) ->
    (forall j, j < length (g_socks g1) -> In (OStart (g_pref g1) j true) (snd (step v c (OpEv p k st)))) /\
    exists g1', In g1' (c_groups (fst (step v c (OpEv p k st)))) /\ g_pref g1' = g_pref g1 /\
                g_status g1' = GConnecting /\ Forall (fun s => s_thread s = true) (g_socks g1') /\
                length (g_socks g1') = length (g_socks g1).
Proof. intros H. apply after_history_inv in H. now apply failover. Qed.

Lemma P_no_failover v c p k st :
  st = SErrFatal \/ st = SErrTransport \/ st = SErrNoData ->
  (exists g, In g (c_groups c) /\ g_pref g <> p /\ g_status g = GEstablished) ->
  forall q j b, ~ In (OStart q j b) (snd (step v c (OpEv p k st))).
Proof. apply no_failover_while_established. Qed.

Lemma P_established_running v : fix_shutdown_counts_closed v = true ->
  forall gs ops c, after_history v gs ops c ->
  forall g, In g (c_groups c) -> g_status g = GEstablished -> Forall (fun s => s_thread s = true) (g_socks g).
Proof. intros Hf gs ops c H. apply after_history_reachable in H. intros g Hg Hs. exact (established_running v c Hf H g Hg Hs). Qed.

Lemma P_established_running_refuted :
  ~ (forall gs ops c, after_history shipped gs ops c ->
     forall g, In g (c_groups c) -> g_status g = GEstablished -> Forall (fun s => s_thread s = true) (g_socks g)).
Proof.
  intros H. destruct stale_established_shipped as (c0 & H0 & Hc).
  specialize (H [(1, 2)] stale_witness _ (ex_intro _ c0 (conj H0 eq_refl))).
  rewrite Hc in H. specialize (H _ (or_introl eq_refl) eq_refl).
  inversion H as [|? ? Hs _]; subst. discriminate Hs.
Qed.

(* ------------------------------------------------------------------ the hypotheses are satisfiable *)
(* three groups (preference 1, 2 with two sockets, 3): 1 fails over to 2, 2 establishes, 1 comes back *)
Definition ex_gs : list (nat * nat) := [(2, 2); (1, 1); (3, 1)].
Definition ex_ops : list op :=
  [OpStart; OpEv 1 0 SErrTransport; OpLu 2 0 true; OpLu 2 1 true; OpEv 2 0 SEstablished;
   OpEv 2 1 SEstablished; OpEv 1 0 SConnecting; OpLu 1 0 true].

Lemma ex_closes : exists c, after_history shipped ex_gs ex_ops c /\
  In (OStatus 1 GEstablished (Some (1, 0)) [mkSock SEstablished true true]) (snd (step shipped c (OpEv 1 0 SEstablished))) /\
  (forall g, In g (c_groups c) -> g_pref g = 1 -> g_status g <> GEstablished) /\
  (exists g0, In g0 (c_groups c) /\ 1 < g_pref g0 /\ g_status g0 = GEstablished /\ length (g_socks g0) = 2).
Proof.
  eexists. split; [eexists; split; reflexivity|]. vm_compute. split; [now left|]. split.
  - intros g [<-|[<-|[<-|[]]]]; cbn; intros; try discriminate; lia.
  - eexists. split; [right; left; reflexivity|]. cbn. repeat split; lia.
Qed.

Lemma ex_failover : exists c, after_history shipped ex_gs [OpStart] c /\
  In (OStatus 1 GError (Some (1, 0)) [mkSock SErrTransport false true]) (snd (step shipped c (OpEv 1 0 SErrTransport))) /\
  (forall g, In g (c_groups c) -> g_pref g <> 1 -> g_status g <> GEstablished) /\
  (exists g1, In g1 (c_groups c) /\ g_status g1 = GClosed /\ g_pref g1 = 2 /\
     forall g2, In g2 (c_groups c) -> g_status g2 = GClosed -> g_pref g1 <= g_pref g2).
Proof.
  eexists. split; [eexists; split; reflexivity|]. vm_compute. split; [now left|]. split.
  - intros g [<-|[<-|[<-|[]]]]; cbn; intros; discriminate.
  - eexists. split; [right; left; reflexivity|]. cbn. repeat split.
    intros g2 [<-|[<-|[<-|[]]]]; cbn; intros; try discriminate; lia.
Qed.

Lemma ex_add_remove : exists c, after_history shipped [(5, 1)] [OpAdd 3 1; OpAdd 9 0; OpRemove 5] c /\
  map g_pref (c_groups c) = [3; 9] /\ c_len c = 2 /\
  snd (step shipped c (OpAdd 9 0)) = [ORc RcInvalidParam].
Proof. eexists. split; [eexists; split; reflexivity|]. vm_compute. repeat split. Qed.
