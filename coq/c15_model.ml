
(** val negb : bool -> bool **)

let negb = function
| true -> false
| false -> true

type nat =
| O
| S of nat

(** val fst : ('a1 * 'a2) -> 'a1 **)

let fst = function
| (x, _) -> x

(** val snd : ('a1 * 'a2) -> 'a2 **)

let snd = function
| (_, y) -> y

(** val length : 'a1 list -> nat **)

let rec length = function
| [] -> O
| _ :: l' -> S (length l')

(** val app : 'a1 list -> 'a1 list -> 'a1 list **)

let rec app l m =
  match l with
  | [] -> m
  | a :: l1 -> a :: (app l1 m)

(** val sub : nat -> nat -> nat **)

let rec sub n m =
  match n with
  | O -> n
  | S k -> (match m with
            | O -> n
            | S l -> sub k l)

module Nat =
 struct
  (** val eqb : nat -> nat -> bool **)

  let rec eqb n m =
    match n with
    | O -> (match m with
            | O -> true
            | S _ -> false)
    | S n' -> (match m with
               | O -> false
               | S m' -> eqb n' m')

  (** val leb : nat -> nat -> bool **)

  let rec leb n m =
    match n with
    | O -> true
    | S n' -> (match m with
               | O -> false
               | S m' -> leb n' m')

  (** val ltb : nat -> nat -> bool **)

  let ltb n m =
    leb (S n) m
 end

(** val map : ('a1 -> 'a2) -> 'a1 list -> 'a2 list **)

let rec map f = function
| [] -> []
| a :: t -> (f a) :: (map f t)

(** val existsb : ('a1 -> bool) -> 'a1 list -> bool **)

let rec existsb f = function
| [] -> false
| a :: l0 -> (||) (f a) (existsb f l0)

(** val forallb : ('a1 -> bool) -> 'a1 list -> bool **)

let rec forallb f = function
| [] -> true
| a :: l0 -> (&&) (f a) (forallb f l0)

(** val repeat : 'a1 -> nat -> 'a1 list **)

let rec repeat x = function
| O -> []
| S k -> x :: (repeat x k)

type sstate =
| SConnecting
| SEstablished
| SReset
| SSync
| SFastReconnect
| SErrNoData
| SErrNoIncr
| SErrFatal
| SErrTransport
| SShutdown
| SClosed

type gstatus =
| GClosed
| GConnecting
| GEstablished
| GError

type sock = { s_state : sstate; s_lu : bool; s_thread : bool }

type group = { g_pref : nat; g_status : gstatus; g_socks : sock list }

type config = { c_groups : group list; c_len : nat }

type variant = { fix_init_groups_null : bool;
                 fix_shutdown_counts_closed : bool }

(** val shipped : variant **)

let shipped =
  { fix_init_groups_null = false; fix_shutdown_counts_closed = false }

(** val fixed : variant **)

let fixed =
  { fix_init_groups_null = true; fix_shutdown_counts_closed = true }

(** val current : variant **)

let current =
  shipped

type rc =
| RcSuccess
| RcError
| RcInvalidParam

type sockid = nat * nat

type out =
| OStatus of nat * gstatus * sockid option * sock list
| OStart of nat * nat * bool
| OStop of nat * nat * nat option
| ORc of rc
| OIgnored
| OUndef

(** val is_shutdown : sstate -> bool **)

let is_shutdown = function
| SShutdown -> true
| _ -> false

(** val is_closed_state : sstate -> bool **)

let is_closed_state = function
| SClosed -> true
| _ -> false

(** val is_down : variant -> sstate -> bool **)

let is_down v = function
| SShutdown -> true
| SClosed -> v.fix_shutdown_counts_closed
| _ -> false

(** val sync_state : sstate -> bool **)

let sync_state = function
| SEstablished -> true
| SReset -> true
| SSync -> true
| _ -> false

(** val sstate_eqb : sstate -> sstate -> bool **)

let sstate_eqb a b =
  match a with
  | SConnecting -> (match b with
                    | SConnecting -> true
                    | _ -> false)
  | SEstablished -> (match b with
                     | SEstablished -> true
                     | _ -> false)
  | SReset -> (match b with
               | SReset -> true
               | _ -> false)
  | SSync -> (match b with
              | SSync -> true
              | _ -> false)
  | SFastReconnect -> (match b with
                       | SFastReconnect -> true
                       | _ -> false)
  | SErrNoData -> (match b with
                   | SErrNoData -> true
                   | _ -> false)
  | SErrNoIncr -> (match b with
                   | SErrNoIncr -> true
                   | _ -> false)
  | SErrFatal -> (match b with
                  | SErrFatal -> true
                  | _ -> false)
  | SErrTransport -> (match b with
                      | SErrTransport -> true
                      | _ -> false)
  | SShutdown -> (match b with
                  | SShutdown -> true
                  | _ -> false)
  | SClosed -> (match b with
                | SClosed -> true
                | _ -> false)

(** val st_closed : gstatus -> bool **)

let st_closed = function
| GClosed -> true
| _ -> false

(** val st_established : gstatus -> bool **)

let st_established = function
| GEstablished -> true
| _ -> false

(** val st_error : gstatus -> bool **)

let st_error = function
| GError -> true
| _ -> false

(** val sock_synced : sock -> bool **)

let sock_synced s =
  (&&) s.s_lu (sync_state s.s_state)

(** val group_synced : group -> bool **)

let group_synced g =
  forallb sock_synced g.g_socks

(** val map_out :
    ('a1 -> 'a1 * out list) -> 'a1 list -> 'a1 list * out list **)

let rec map_out f = function
| [] -> ([], [])
| x :: r ->
  let (x', o1) = f x in
  let (r', o2) = map_out f r in ((x' :: r'), (app o1 o2))

(** val split_first :
    ('a1 -> bool) -> 'a1 list -> (('a1 list * 'a1) * 'a1 list) option **)

let rec split_first f = function
| [] -> None
| x :: r ->
  if f x
  then Some (([], x), r)
  else (match split_first f r with
        | Some p ->
          let (p0, post) = p in
          let (pre, y) = p0 in Some (((x :: pre), y), post)
        | None -> None)

(** val split_nth :
    nat -> 'a1 list -> (('a1 list * 'a1) * 'a1 list) option **)

let rec split_nth k = function
| [] -> None
| x :: r ->
  (match k with
   | O -> Some (([], x), r)
   | S k' ->
     (match split_nth k' r with
      | Some p ->
        let (p0, post) = p in
        let (pre, y) = p0 in Some (((x :: pre), y), post)
      | None -> None))

(** val has_pref : nat -> group -> bool **)

let has_pref p g =
  Nat.eqb g.g_pref p

(** val insert_group : group -> group list -> group list **)

let rec insert_group g = function
| [] -> g :: []
| h :: r ->
  if Nat.ltb g.g_pref h.g_pref then g :: (h :: r) else h :: (insert_group g r)

(** val sort_groups : group list -> group list **)

let rec sort_groups = function
| [] -> []
| g :: r -> insert_group g (sort_groups r)

(** val set_status : group -> gstatus -> sockid option -> group * out list **)

let set_status g st by_ =
  ({ g_pref = g.g_pref; g_status = st; g_socks = g.g_socks }, ((OStatus
    (g.g_pref, st, by_, g.g_socks)) :: []))

(** val cb_shutdown : variant -> group -> nat -> group * out list **)

let cb_shutdown v g k =
  let all_down = forallb (fun s -> is_down v s.s_state) g.g_socks in
  set_status g (if all_down then GClosed else g.g_status) (Some (g.g_pref, k))

(** val closed_sock : sock **)

let closed_sock =
  { s_state = SClosed; s_lu = false; s_thread = false }

(** val stop_one :
    variant -> nat option -> nat -> gstatus -> sock list -> sock -> sock list
    -> (sock * gstatus) * out list **)

let stop_one v behalf p st done0 s rest =
  let k = length done0 in
  let (p0, o1) =
    if is_shutdown s.s_state
    then ((s, st), [])
    else let s' = { s_state = SShutdown; s_lu = s.s_lu; s_thread =
           s.s_thread }
         in
         let (g', o) =
           cb_shutdown v { g_pref = p; g_status = st; g_socks =
             (app done0 (s' :: rest)) } k
         in
         ((s', g'.g_status), o)
  in
  let (s1, st1) = p0 in
  let s2 = if s.s_thread then closed_sock else s1 in
  ((s2, st1), ((OStop (p, k, behalf)) :: o1))

(** val stop_loop :
    variant -> nat option -> nat -> gstatus -> sock list -> sock list ->
    (sock list * gstatus) * out list **)

let rec stop_loop v behalf p st done0 = function
| [] -> ((done0, st), [])
| s :: rest ->
  let (p0, o1) = stop_one v behalf p st done0 s rest in
  let (s2, st1) = p0 in
  let (p1, o2) = stop_loop v behalf p st1 (app done0 (s2 :: [])) rest in
  (p1, (app o1 o2))

(** val stop_group : variant -> nat option -> group -> group * out list **)

let stop_group v behalf g =
  let (p, o) = stop_loop v behalf g.g_pref g.g_status [] g.g_socks in
  let (socks, st) = p in
  ({ g_pref = g.g_pref; g_status = st; g_socks = socks }, o)

(** val start_sock : sock -> sock **)

let start_sock s =
  { s_state = (if is_shutdown s.s_state then SShutdown else SConnecting);
    s_lu = s.s_lu; s_thread = true }

(** val start_loop :
    nat -> nat -> sock list -> (sock list * bool) * out list **)

let rec start_loop p k = function
| [] -> (([], true), [])
| s :: rest ->
  if s.s_thread
  then (((s :: rest), false), ((OStart (p, k, false)) :: []))
  else let (p0, o) = start_loop p (S k) rest in
       let (r, ok) = p0 in
       ((((start_sock s) :: r), ok), ((OStart (p, k, true)) :: o))

(** val start_sockets : group -> (group * bool) * out list **)

let start_sockets g =
  let (p, o) = start_loop g.g_pref O g.g_socks in
  let (socks, ok) = p in
  (({ g_pref = g.g_pref; g_status = (if ok then GConnecting else g.g_status);
  g_socks = socks }, ok), o)

(** val close_one : variant -> nat -> sockid -> group -> group * out list **)

let close_one v p by_ cur =
  if (&&) (negb (st_closed cur.g_status)) (Nat.ltb p cur.g_pref)
  then let (g1, o1) = stop_group v (Some p) cur in
       let (g2, o2) = set_status g1 GClosed (Some by_) in (g2, (app o1 o2))
  else (cur, [])

(** val establish :
    variant -> group list -> group -> group list -> sockid -> group
    list * out list **)

let establish v pre g post by_ =
  let (g1, o1) = set_status g GEstablished (Some by_) in
  let (pre', o2) = map_out (close_one v g.g_pref by_) pre in
  let (post', o3) = map_out (close_one v g.g_pref by_) post in
  ((app pre' (g1 :: post')), (app o1 (app o2 o3)))

(** val blocks_recovery : nat -> group -> bool **)

let blocks_recovery p cur =
  (&&) ((&&) (negb (st_error cur.g_status)) (negb (st_closed cur.g_status)))
    (Nat.ltb cur.g_pref p)

(** val report :
    group list -> group -> group list -> gstatus -> sockid -> group
    list * out list **)

let report pre g post st by_ =
  let (g1, o) = set_status g st (Some by_) in ((app pre (g1 :: post)), o)

(** val cb_established :
    variant -> group list -> group -> group list -> sockid -> group
    list * out list **)

let cb_established v pre g post by_ =
  match g.g_status with
  | GConnecting ->
    if group_synced g
    then establish v pre g post by_
    else report pre g post GConnecting by_
  | GError ->
    let all_error = negb (existsb (blocks_recovery g.g_pref) (app pre post))
    in
    if (&&) all_error (group_synced g)
    then establish v pre g post by_
    else report pre g post GError by_
  | _ -> ((app pre (g :: post)), [])

(** val cb_connecting :
    group list -> group -> group list -> sockid -> group list * out list **)

let cb_connecting pre g post by_ =
  report pre g post (if st_error g.g_status then GError else GConnecting) by_

(** val start_first_closed : group list -> (group list * out list) option **)

let rec start_first_closed = function
| [] -> None
| g :: r ->
  if st_closed g.g_status
  then let (p, o) = start_sockets g in let (g', _) = p in Some ((g' :: r), o)
  else (match start_first_closed r with
        | Some p -> let (r', o) = p in Some ((g :: r'), o)
        | None -> None)

(** val cb_error :
    group list -> group -> group list -> sockid -> group list * out list **)

let cb_error pre g post by_ =
  let (g1, o1) = set_status g GError (Some by_) in
  if existsb (fun x -> st_established x.g_status) (app pre (g1 :: post))
  then ((app pre (g1 :: post)), o1)
  else (match start_first_closed pre with
        | Some p ->
          let (pre', o2) = p in ((app pre' (g1 :: post)), (app o1 o2))
        | None ->
          (match start_first_closed post with
           | Some p ->
             let (post', o2) = p in ((app pre (g1 :: post')), (app o1 o2))
           | None -> ((app pre (g1 :: post)), o1)))

(** val mgr_cb :
    variant -> group list -> group -> group list -> nat -> sstate -> group
    list * out list **)

let mgr_cb v pre g post k st =
  let by_ = (g.g_pref, k) in
  (match st with
   | SConnecting -> cb_connecting pre g post by_
   | SEstablished -> cb_established v pre g post by_
   | SErrNoData -> cb_error pre g post by_
   | SErrFatal -> cb_error pre g post by_
   | SErrTransport -> cb_error pre g post by_
   | SShutdown ->
     let (g1, o) = cb_shutdown v g k in ((app pre (g1 :: post)), o)
   | _ -> report pre g post g.g_status by_)

(** val sock_event :
    variant -> group list -> nat -> nat -> sstate -> group list * out list **)

let sock_event v groups p k st =
  match split_first (has_pref p) groups with
  | Some p0 ->
    let (p1, post) = p0 in
    let (pre, g) = p1 in
    (match split_nth k g.g_socks with
     | Some p2 ->
       let (p3, sq) = p2 in
       let (sp, s) = p3 in
       if (||) ((||) (negb s.s_thread) (is_shutdown st)) (is_closed_state st)
       then (groups, (OIgnored :: []))
       else if (||) (sstate_eqb s.s_state st) (is_shutdown s.s_state)
            then (groups, [])
            else let g' = { g_pref = g.g_pref; g_status = g.g_status;
                   g_socks =
                   (app sp ({ s_state = st; s_lu = s.s_lu; s_thread =
                     s.s_thread } :: sq)) }
                 in
                 mgr_cb v pre g' post k st
     | None -> (groups, (OIgnored :: [])))
  | None -> (groups, (OIgnored :: []))

(** val sock_lu :
    group list -> nat -> nat -> bool -> group list * out list **)

let sock_lu groups p k b =
  match split_first (has_pref p) groups with
  | Some p0 ->
    let (p1, post) = p0 in
    let (pre, g) = p1 in
    (match split_nth k g.g_socks with
     | Some p2 ->
       let (p3, sq) = p2 in
       let (sp, s) = p3 in
       if negb s.s_thread
       then (groups, (OIgnored :: []))
       else ((app pre ({ g_pref = g.g_pref; g_status = g.g_status; g_socks =
               (app sp ({ s_state = s.s_state; s_lu = b; s_thread =
                 s.s_thread } :: sq)) } :: post)), [])
     | None -> (groups, (OIgnored :: [])))
  | None -> (groups, (OIgnored :: []))

(** val start_first_if_closed : group list -> group list * out list **)

let start_first_if_closed = function
| [] -> ([], (OUndef :: []))
| g :: r ->
  if st_closed g.g_status
  then let (p, o) = start_sockets g in let (g', _) = p in ((g' :: r), o)
  else ((g :: r), [])

(** val mgr_start : config -> config * out list **)

let mgr_start c =
  match c.c_groups with
  | [] -> (c, (OUndef :: []))
  | g :: r ->
    let (p, o) = start_sockets g in
    let (g', ok) = p in
    ({ c_groups = (g' :: r); c_len = c.c_len },
    (app o ((ORc (if ok then RcSuccess else RcError)) :: [])))

(** val mgr_stop : variant -> config -> config * out list **)

let mgr_stop v c =
  let (l, o) = map_out (stop_group v None) c.c_groups in
  ({ c_groups = l; c_len = c.c_len }, o)

(** val fresh_sock : sock **)

let fresh_sock =
  { s_state = SClosed; s_lu = false; s_thread = false }

type scan =
| ScanFree
| ScanDup
| ScanUndef

(** val add_scan : nat -> group list -> scan **)

let rec add_scan p = function
| [] -> ScanFree
| g :: r ->
  if Nat.eqb g.g_pref p
  then ScanDup
  else (match g.g_socks with
        | [] -> ScanUndef
        | _ :: _ -> add_scan p r)

(** val mgr_add : config -> nat -> nat -> config * out list **)

let mgr_add c p extra =
  match add_scan p c.c_groups with
  | ScanFree ->
    let ng = { g_pref = p; g_status = GClosed; g_socks =
      (repeat fresh_sock (S extra)) }
    in
    let l = sort_groups (app c.c_groups (ng :: [])) in
    let (l', o) = start_first_if_closed l in
    ({ c_groups = l'; c_len = (S c.c_len) }, (app o ((ORc RcSuccess) :: [])))
  | ScanDup -> (c, ((ORc RcInvalidParam) :: []))
  | ScanUndef -> (c, (OUndef :: []))

(** val mgr_remove : variant -> config -> nat -> config * out list **)

let mgr_remove v c p =
  if Nat.eqb c.c_len (S O)
  then (c, ((ORc RcError) :: []))
  else (match split_first (has_pref p) c.c_groups with
        | Some p0 ->
          let (p1, post) = p0 in
          let (pre, g) = p1 in
          let o1 =
            if st_closed g.g_status
            then []
            else let (g1, o) = stop_group v None g in
                 let (_, o') = set_status g1 GClosed None in app o o'
          in
          let (l', o2) = start_first_if_closed (app pre post) in
          ({ c_groups = l'; c_len = (sub c.c_len (S O)) },
          (app o1 (app o2 ((ORc RcSuccess) :: []))))
        | None -> (c, ((ORc RcError) :: [])))

type op =
| OpStart
| OpStop
| OpAdd of nat * nat
| OpRemove of nat
| OpEv of nat * nat * sstate
| OpLu of nat * nat * bool

(** val step : variant -> config -> op -> config * out list **)

let step v c = function
| OpStart -> mgr_start c
| OpStop -> mgr_stop v c
| OpAdd (p, extra) -> mgr_add c p extra
| OpRemove p -> mgr_remove v c p
| OpEv (p, k, st) ->
  let (l, out0) = sock_event v c.c_groups p k st in
  ({ c_groups = l; c_len = c.c_len }, out0)
| OpLu (p, k, b) ->
  let (l, out0) = sock_lu c.c_groups p k b in
  ({ c_groups = l; c_len = c.c_len }, out0)

type init_result =
| IOk of config
| IErr of rc
| IUndef

(** val init_check : nat option -> group list -> bool **)

let rec init_check last = function
| [] -> true
| g :: r ->
  let dup = match last with
            | Some q -> Nat.eqb g.g_pref q
            | None -> false in
  if dup
  then false
  else (match g.g_socks with
        | [] -> false
        | _ :: _ -> init_check (Some g.g_pref) r)

(** val spec_group : (nat * nat) -> group **)

let spec_group s =
  { g_pref = (fst s); g_status = GClosed; g_socks =
    (repeat fresh_sock (snd s)) }

(** val mgr_init : variant -> (nat * nat) list -> init_result **)

let mgr_init v gs = match gs with
| [] -> IErr RcError
| _ :: _ ->
  let arr = sort_groups (map spec_group gs) in
  if init_check None arr
  then IOk { c_groups = (sort_groups arr); c_len = (length gs) }
  else if v.fix_init_groups_null then IErr RcError else IUndef
