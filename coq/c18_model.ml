
(** val negb : bool -> bool **)

let negb = function
| true -> false
| false -> true

type nat =
| O
| S of nat

(** val fst : ('a1 * 'a2) -> 'a1 **)

let fst = function
| (x, _) -> x

(** val snd : ('a1 * 'a2) -> 'a2 **)

let snd = function
| (_, y) -> y

(** val length : 'a1 list -> nat **)

let rec length = function
| [] -> O
| _ :: l' -> S (length l')

(** val app : 'a1 list -> 'a1 list -> 'a1 list **)

let rec app l m0 =
  match l with
  | [] -> m0
  | a :: l1 -> a :: (app l1 m0)

type comparison =
| Eq
| Lt
| Gt

(** val compOpp : comparison -> comparison **)

let compOpp = function
| Eq -> Eq
| Lt -> Gt
| Gt -> Lt

module Coq__1 = struct
 (** val add : nat -> nat -> nat **)
 let rec add n0 m0 =
   match n0 with
   | O -> m0
   | S p -> S (add p m0)
end
include Coq__1

type positive =
| XI of positive
| XO of positive
| XH

type n =
| N0
| Npos of positive

type z =
| Z0
| Zpos of positive
| Zneg of positive

(** val eqb : bool -> bool -> bool **)

let eqb b1 b2 =
  if b1 then b2 else if b2 then false else true

module Nat =
 struct
  (** val sub : nat -> nat -> nat **)

  let rec sub n0 m0 =
    match n0 with
    | O -> n0
    | S k -> (match m0 with
              | O -> n0
              | S l -> sub k l)

  (** val eqb : nat -> nat -> bool **)

  let rec eqb n0 m0 =
    match n0 with
    | O -> (match m0 with
            | O -> true
            | S _ -> false)
    | S n' -> (match m0 with
               | O -> false
               | S m' -> eqb n' m')

  (** val leb : nat -> nat -> bool **)

  let rec leb n0 m0 =
    match n0 with
    | O -> true
    | S n' -> (match m0 with
               | O -> false
               | S m' -> leb n' m')

  (** val ltb : nat -> nat -> bool **)

  let ltb n0 m0 =
    leb (S n0) m0

  (** val divmod : nat -> nat -> nat -> nat -> nat * nat **)

  let rec divmod x y q u =
    match x with
    | O -> (q, u)
    | S x' ->
      (match u with
       | O -> divmod x' y (S q) y
       | S u' -> divmod x' y q u')

  (** val modulo : nat -> nat -> nat **)

  let modulo x = function
  | O -> x
  | S y' -> sub y' (snd (divmod x y' O y'))
 end

module Pos =
 struct
  (** val succ : positive -> positive **)

  let rec succ = function
  | XI p -> XO (succ p)
  | XO p -> XI p
  | XH -> XO XH

  (** val add : positive -> positive -> positive **)

  let rec add x y =
    match x with
    | XI p ->
      (match y with
       | XI q -> XO (add_carry p q)
       | XO q -> XI (add p q)
       | XH -> XO (succ p))
    | XO p ->
      (match y with
       | XI q -> XI (add p q)
       | XO q -> XO (add p q)
       | XH -> XI p)
    | XH -> (match y with
             | XI q -> XO (succ q)
             | XO q -> XI q
             | XH -> XO XH)

  (** val add_carry : positive -> positive -> positive **)

  and add_carry x y =
    match x with
    | XI p ->
      (match y with
       | XI q -> XI (add_carry p q)
       | XO q -> XO (add_carry p q)
       | XH -> XI (succ p))
    | XO p ->
      (match y with
       | XI q -> XO (add_carry p q)
       | XO q -> XI (add p q)
       | XH -> XO (succ p))
    | XH ->
      (match y with
       | XI q -> XI (succ q)
       | XO q -> XO (succ q)
       | XH -> XI XH)

  (** val pred_double : positive -> positive **)

  let rec pred_double = function
  | XI p -> XI (XO p)
  | XO p -> XI (pred_double p)
  | XH -> XH

  (** val pred_N : positive -> n **)

  let pred_N = function
  | XI p -> Npos (XO p)
  | XO p -> Npos (pred_double p)
  | XH -> N0

  (** val mul : positive -> positive -> positive **)

  let rec mul x y =
    match x with
    | XI p -> add y (XO (mul p y))
    | XO p -> XO (mul p y)
    | XH -> y

  (** val iter : ('a1 -> 'a1) -> 'a1 -> positive -> 'a1 **)

  let rec iter f x = function
  | XI n' -> f (iter f (iter f x n') n')
  | XO n' -> iter f (iter f x n') n'
  | XH -> f x

  (** val div2 : positive -> positive **)

  let div2 = function
  | XI p0 -> p0
  | XO p0 -> p0
  | XH -> XH

  (** val div2_up : positive -> positive **)

  let div2_up = function
  | XI p0 -> succ p0
  | XO p0 -> p0
  | XH -> XH

  (** val compare_cont : comparison -> positive -> positive -> comparison **)

  let rec compare_cont r x y =
    match x with
    | XI p ->
      (match y with
       | XI q -> compare_cont r p q
       | XO q -> compare_cont Gt p q
       | XH -> Gt)
    | XO p ->
      (match y with
       | XI q -> compare_cont Lt p q
       | XO q -> compare_cont r p q
       | XH -> Gt)
    | XH -> (match y with
             | XH -> r
             | _ -> Lt)

  (** val compare : positive -> positive -> comparison **)

  let compare =
    compare_cont Eq

  (** val eqb : positive -> positive -> bool **)

  let rec eqb p q =
    match p with
    | XI p0 -> (match q with
                | XI q0 -> eqb p0 q0
                | _ -> false)
    | XO p0 -> (match q with
                | XO q0 -> eqb p0 q0
                | _ -> false)
    | XH -> (match q with
             | XH -> true
             | _ -> false)

  (** val coq_Nsucc_double : n -> n **)

  let coq_Nsucc_double = function
  | N0 -> Npos XH
  | Npos p -> Npos (XI p)

  (** val coq_Ndouble : n -> n **)

  let coq_Ndouble = function
  | N0 -> N0
  | Npos p -> Npos (XO p)

  (** val coq_lor : positive -> positive -> positive **)

  let rec coq_lor p q =
    match p with
    | XI p0 ->
      (match q with
       | XI q0 -> XI (coq_lor p0 q0)
       | XO q0 -> XI (coq_lor p0 q0)
       | XH -> p)
    | XO p0 ->
      (match q with
       | XI q0 -> XI (coq_lor p0 q0)
       | XO q0 -> XO (coq_lor p0 q0)
       | XH -> XI p0)
    | XH -> (match q with
             | XO q0 -> XI q0
             | _ -> q)

  (** val coq_land : positive -> positive -> n **)

  let rec coq_land p q =
    match p with
    | XI p0 ->
      (match q with
       | XI q0 -> coq_Nsucc_double (coq_land p0 q0)
       | XO q0 -> coq_Ndouble (coq_land p0 q0)
       | XH -> Npos XH)
    | XO p0 ->
      (match q with
       | XI q0 -> coq_Ndouble (coq_land p0 q0)
       | XO q0 -> coq_Ndouble (coq_land p0 q0)
       | XH -> N0)
    | XH -> (match q with
             | XO _ -> N0
             | _ -> Npos XH)

  (** val ldiff : positive -> positive -> n **)

  let rec ldiff p q =
    match p with
    | XI p0 ->
      (match q with
       | XI q0 -> coq_Ndouble (ldiff p0 q0)
       | XO q0 -> coq_Nsucc_double (ldiff p0 q0)
       | XH -> Npos (XO p0))
    | XO p0 ->
      (match q with
       | XI q0 -> coq_Ndouble (ldiff p0 q0)
       | XO q0 -> coq_Ndouble (ldiff p0 q0)
       | XH -> Npos p)
    | XH -> (match q with
             | XO _ -> Npos XH
             | _ -> N0)

  (** val coq_lxor : positive -> positive -> n **)

  let rec coq_lxor p q =
    match p with
    | XI p0 ->
      (match q with
       | XI q0 -> coq_Ndouble (coq_lxor p0 q0)
       | XO q0 -> coq_Nsucc_double (coq_lxor p0 q0)
       | XH -> Npos (XO p0))
    | XO p0 ->
      (match q with
       | XI q0 -> coq_Nsucc_double (coq_lxor p0 q0)
       | XO q0 -> coq_Ndouble (coq_lxor p0 q0)
       | XH -> Npos (XI p0))
    | XH ->
      (match q with
       | XI q0 -> Npos (XO q0)
       | XO q0 -> Npos (XI q0)
       | XH -> N0)

  (** val iter_op : ('a1 -> 'a1 -> 'a1) -> positive -> 'a1 -> 'a1 **)

  let rec iter_op op p a =
    match p with
    | XI p0 -> op a (iter_op op p0 (op a a))
    | XO p0 -> iter_op op p0 (op a a)
    | XH -> a

  (** val to_nat : positive -> nat **)

  let to_nat x =
    iter_op Coq__1.add x (S O)
 end

module N =
 struct
  (** val succ_pos : n -> positive **)

  let succ_pos = function
  | N0 -> XH
  | Npos p -> Pos.succ p

  (** val eqb : n -> n -> bool **)

  let eqb n0 m0 =
    match n0 with
    | N0 -> (match m0 with
             | N0 -> true
             | Npos _ -> false)
    | Npos p -> (match m0 with
                 | N0 -> false
                 | Npos q -> Pos.eqb p q)

  (** val coq_lor : n -> n -> n **)

  let coq_lor n0 m0 =
    match n0 with
    | N0 -> m0
    | Npos p -> (match m0 with
                 | N0 -> n0
                 | Npos q -> Npos (Pos.coq_lor p q))

  (** val ldiff : n -> n -> n **)

  let ldiff n0 m0 =
    match n0 with
    | N0 -> N0
    | Npos p -> (match m0 with
                 | N0 -> n0
                 | Npos q -> Pos.ldiff p q)

  (** val coq_lxor : n -> n -> n **)

  let coq_lxor n0 m0 =
    match n0 with
    | N0 -> m0
    | Npos p -> (match m0 with
                 | N0 -> n0
                 | Npos q -> Pos.coq_lxor p q)
 end

module Z =
 struct
  (** val double : z -> z **)

  let double = function
  | Z0 -> Z0
  | Zpos p -> Zpos (XO p)
  | Zneg p -> Zneg (XO p)

  (** val succ_double : z -> z **)

  let succ_double = function
  | Z0 -> Zpos XH
  | Zpos p -> Zpos (XI p)
  | Zneg p -> Zneg (Pos.pred_double p)

  (** val pred_double : z -> z **)

  let pred_double = function
  | Z0 -> Zneg XH
  | Zpos p -> Zpos (Pos.pred_double p)
  | Zneg p -> Zneg (XI p)

  (** val pos_sub : positive -> positive -> z **)

  let rec pos_sub x y =
    match x with
    | XI p ->
      (match y with
       | XI q -> double (pos_sub p q)
       | XO q -> succ_double (pos_sub p q)
       | XH -> Zpos (XO p))
    | XO p ->
      (match y with
       | XI q -> pred_double (pos_sub p q)
       | XO q -> double (pos_sub p q)
       | XH -> Zpos (Pos.pred_double p))
    | XH ->
      (match y with
       | XI q -> Zneg (XO q)
       | XO q -> Zneg (Pos.pred_double q)
       | XH -> Z0)

  (** val add : z -> z -> z **)

  let add x y =
    match x with
    | Z0 -> y
    | Zpos x' ->
      (match y with
       | Z0 -> x
       | Zpos y' -> Zpos (Pos.add x' y')
       | Zneg y' -> pos_sub x' y')
    | Zneg x' ->
      (match y with
       | Z0 -> x
       | Zpos y' -> pos_sub y' x'
       | Zneg y' -> Zneg (Pos.add x' y'))

  (** val opp : z -> z **)

  let opp = function
  | Z0 -> Z0
  | Zpos x0 -> Zneg x0
  | Zneg x0 -> Zpos x0

  (** val sub : z -> z -> z **)

  let sub m0 n0 =
    add m0 (opp n0)

  (** val mul : z -> z -> z **)

  let mul x y =
    match x with
    | Z0 -> Z0
    | Zpos x' ->
      (match y with
       | Z0 -> Z0
       | Zpos y' -> Zpos (Pos.mul x' y')
       | Zneg y' -> Zneg (Pos.mul x' y'))
    | Zneg x' ->
      (match y with
       | Z0 -> Z0
       | Zpos y' -> Zneg (Pos.mul x' y')
       | Zneg y' -> Zpos (Pos.mul x' y'))

  (** val pow_pos : z -> positive -> z **)

  let pow_pos z0 =
    Pos.iter (mul z0) (Zpos XH)

  (** val pow : z -> z -> z **)

  let pow x = function
  | Z0 -> Zpos XH
  | Zpos p -> pow_pos x p
  | Zneg _ -> Z0

  (** val compare : z -> z -> comparison **)

  let compare x y =
    match x with
    | Z0 -> (match y with
             | Z0 -> Eq
             | Zpos _ -> Lt
             | Zneg _ -> Gt)
    | Zpos x' -> (match y with
                  | Zpos y' -> Pos.compare x' y'
                  | _ -> Gt)
    | Zneg x' ->
      (match y with
       | Zneg y' -> compOpp (Pos.compare x' y')
       | _ -> Lt)

  (** val leb : z -> z -> bool **)

  let leb x y =
    match compare x y with
    | Gt -> false
    | _ -> true

  (** val ltb : z -> z -> bool **)

  let ltb x y =
    match compare x y with
    | Lt -> true
    | _ -> false

  (** val eqb : z -> z -> bool **)

  let eqb x y =
    match x with
    | Z0 -> (match y with
             | Z0 -> true
             | _ -> false)
    | Zpos p -> (match y with
                 | Zpos q -> Pos.eqb p q
                 | _ -> false)
    | Zneg p -> (match y with
                 | Zneg q -> Pos.eqb p q
                 | _ -> false)

  (** val to_nat : z -> nat **)

  let to_nat = function
  | Zpos p -> Pos.to_nat p
  | _ -> O

  (** val of_N : n -> z **)

  let of_N = function
  | N0 -> Z0
  | Npos p -> Zpos p

  (** val pos_div_eucl : positive -> z -> z * z **)

  let rec pos_div_eucl a b =
    match a with
    | XI a' ->
      let (q, r) = pos_div_eucl a' b in
      let r' = add (mul (Zpos (XO XH)) r) (Zpos XH) in
      if ltb r' b
      then ((mul (Zpos (XO XH)) q), r')
      else ((add (mul (Zpos (XO XH)) q) (Zpos XH)), (sub r' b))
    | XO a' ->
      let (q, r) = pos_div_eucl a' b in
      let r' = mul (Zpos (XO XH)) r in
      if ltb r' b
      then ((mul (Zpos (XO XH)) q), r')
      else ((add (mul (Zpos (XO XH)) q) (Zpos XH)), (sub r' b))
    | XH -> if leb (Zpos (XO XH)) b then (Z0, (Zpos XH)) else ((Zpos XH), Z0)

  (** val div_eucl : z -> z -> z * z **)

  let div_eucl a b =
    match a with
    | Z0 -> (Z0, Z0)
    | Zpos a' ->
      (match b with
       | Z0 -> (Z0, a)
       | Zpos _ -> pos_div_eucl a' b
       | Zneg b' ->
         let (q, r) = pos_div_eucl a' (Zpos b') in
         (match r with
          | Z0 -> ((opp q), Z0)
          | _ -> ((opp (add q (Zpos XH))), (add b r))))
    | Zneg a' ->
      (match b with
       | Z0 -> (Z0, a)
       | Zpos _ ->
         let (q, r) = pos_div_eucl a' b in
         (match r with
          | Z0 -> ((opp q), Z0)
          | _ -> ((opp (add q (Zpos XH))), (sub b r)))
       | Zneg b' -> let (q, r) = pos_div_eucl a' (Zpos b') in (q, (opp r)))

  (** val div : z -> z -> z **)

  let div a b =
    let (q, _) = div_eucl a b in q

  (** val modulo : z -> z -> z **)

  let modulo a b =
    let (_, r) = div_eucl a b in r

  (** val div2 : z -> z **)

  let div2 = function
  | Z0 -> Z0
  | Zpos p -> (match p with
               | XH -> Z0
               | _ -> Zpos (Pos.div2 p))
  | Zneg p -> Zneg (Pos.div2_up p)

  (** val shiftl : z -> z -> z **)

  let shiftl a = function
  | Z0 -> a
  | Zpos p -> Pos.iter (mul (Zpos (XO XH))) a p
  | Zneg p -> Pos.iter div2 a p

  (** val shiftr : z -> z -> z **)

  let shiftr a n0 =
    shiftl a (opp n0)

  (** val coq_land : z -> z -> z **)

  let coq_land a b =
    match a with
    | Z0 -> Z0
    | Zpos a0 ->
      (match b with
       | Z0 -> Z0
       | Zpos b0 -> of_N (Pos.coq_land a0 b0)
       | Zneg b0 -> of_N (N.ldiff (Npos a0) (Pos.pred_N b0)))
    | Zneg a0 ->
      (match b with
       | Z0 -> Z0
       | Zpos b0 -> of_N (N.ldiff (Npos b0) (Pos.pred_N a0))
       | Zneg b0 ->
         Zneg (N.succ_pos (N.coq_lor (Pos.pred_N a0) (Pos.pred_N b0))))

  (** val coq_lxor : z -> z -> z **)

  let coq_lxor a b =
    match a with
    | Z0 -> b
    | Zpos a0 ->
      (match b with
       | Z0 -> a
       | Zpos b0 -> of_N (Pos.coq_lxor a0 b0)
       | Zneg b0 -> Zneg (N.succ_pos (N.coq_lxor (Npos a0) (Pos.pred_N b0))))
    | Zneg a0 ->
      (match b with
       | Z0 -> a
       | Zpos b0 -> Zneg (N.succ_pos (N.coq_lxor (Pos.pred_N a0) (Npos b0)))
       | Zneg b0 -> of_N (N.coq_lxor (Pos.pred_N a0) (Pos.pred_N b0)))
 end

(** val nth : nat -> 'a1 list -> 'a1 -> 'a1 **)

let rec nth n0 l default =
  match n0 with
  | O -> (match l with
          | [] -> default
          | x :: _ -> x)
  | S m0 -> (match l with
             | [] -> default
             | _ :: t -> nth m0 t default)

(** val map : ('a1 -> 'a2) -> 'a1 list -> 'a2 list **)

let rec map f = function
| [] -> []
| a :: t -> (f a) :: (map f t)

(** val flat_map : ('a1 -> 'a2 list) -> 'a1 list -> 'a2 list **)

let rec flat_map f = function
| [] -> []
| x :: t -> app (f x) (flat_map f t)

(** val existsb : ('a1 -> bool) -> 'a1 list -> bool **)

let rec existsb f = function
| [] -> false
| a :: l0 -> (||) (f a) (existsb f l0)

(** val filter : ('a1 -> bool) -> 'a1 list -> 'a1 list **)

let rec filter f = function
| [] -> []
| x :: l0 -> if f x then x :: (filter f l0) else filter f l0

(** val find : ('a1 -> bool) -> 'a1 list -> 'a1 option **)

let rec find f = function
| [] -> None
| x :: tl -> if f x then Some x else find f tl

(** val firstn : nat -> 'a1 list -> 'a1 list **)

let rec firstn n0 l =
  match n0 with
  | O -> []
  | S n1 -> (match l with
             | [] -> []
             | a :: l0 -> a :: (firstn n1 l0))

(** val repeat : 'a1 -> nat -> 'a1 list **)

let rec repeat x = function
| O -> []
| S k -> x :: (repeat x k)

(** val wrapu : z -> z -> z **)

let wrapu bits v =
  Z.modulo v (Z.pow (Zpos (XO XH)) bits)

(** val shift_ok : z -> z -> bool **)

let shift_ok width cnt =
  (&&) (Z.leb Z0 cnt) (Z.ltb cnt width)

(** val guard : bool -> 'a1 option -> 'a1 option **)

let guard ok k =
  if ok then k else None

(** val c_SPKI_SUCCESS : z **)

let c_SPKI_SUCCESS =
  Z0

(** val c_SPKI_ERROR : z **)

let c_SPKI_ERROR =
  Zneg XH

(** val c_SPKI_DUPLICATE_RECORD : z **)

let c_SPKI_DUPLICATE_RECORD =
  Zneg (XO XH)

(** val c_SPKI_RECORD_NOT_FOUND : z **)

let c_SPKI_RECORD_NOT_FOUND =
  Zneg (XI XH)

(** val c_TEMPORARY_PDU_STORE_INCREMENT_VALUE : z **)

let c_TEMPORARY_PDU_STORE_INCREMENT_VALUE =
  Zpos (XO (XO (XI (XO (XO (XI XH))))))

(** val c_TOMMY_HASHLIN_BIT : z **)

let c_TOMMY_HASHLIN_BIT =
  Zpos (XO (XI XH))

(** val tommy_inthash_u32_gen : z -> z option **)

let tommy_inthash_u32_gen v_key =
  guard (shift_ok (Zpos (XO (XO (XO (XO (XO XH)))))) (Zpos (XO (XI XH))))
    (let v_key0 =
       wrapu (Zpos (XO (XO (XO (XO (XO XH))))))
         (wrapu (Zpos (XO (XO (XO (XO (XO XH))))))
           (Z.sub v_key
             (wrapu (Zpos (XO (XO (XO (XO (XO XH))))))
               (Z.shiftl v_key (Zpos (XO (XI XH)))))))
     in
     guard
       (shift_ok (Zpos (XO (XO (XO (XO (XO XH)))))) (Zpos (XI (XO (XO (XO
         XH))))))
       (let v_key1 =
          wrapu (Zpos (XO (XO (XO (XO (XO XH))))))
            (Z.coq_lxor v_key0
              (Z.shiftr v_key0 (Zpos (XI (XO (XO (XO XH)))))))
        in
        guard
          (shift_ok (Zpos (XO (XO (XO (XO (XO XH)))))) (Zpos (XI (XO (XO
            XH)))))
          (let v_key2 =
             wrapu (Zpos (XO (XO (XO (XO (XO XH))))))
               (wrapu (Zpos (XO (XO (XO (XO (XO XH))))))
                 (Z.sub v_key1
                   (wrapu (Zpos (XO (XO (XO (XO (XO XH))))))
                     (Z.shiftl v_key1 (Zpos (XI (XO (XO XH))))))))
           in
           guard
             (shift_ok (Zpos (XO (XO (XO (XO (XO XH)))))) (Zpos (XO (XO XH))))
             (let v_key3 =
                wrapu (Zpos (XO (XO (XO (XO (XO XH))))))
                  (Z.coq_lxor v_key2
                    (wrapu (Zpos (XO (XO (XO (XO (XO XH))))))
                      (Z.shiftl v_key2 (Zpos (XO (XO XH))))))
              in
              guard
                (shift_ok (Zpos (XO (XO (XO (XO (XO XH)))))) (Zpos (XI XH)))
                (let v_key4 =
                   wrapu (Zpos (XO (XO (XO (XO (XO XH))))))
                     (wrapu (Zpos (XO (XO (XO (XO (XO XH))))))
                       (Z.sub v_key3
                         (wrapu (Zpos (XO (XO (XO (XO (XO XH))))))
                           (Z.shiftl v_key3 (Zpos (XI XH))))))
                 in
                 guard
                   (shift_ok (Zpos (XO (XO (XO (XO (XO XH)))))) (Zpos (XO (XI
                     (XO XH)))))
                   (let v_key5 =
                      wrapu (Zpos (XO (XO (XO (XO (XO XH))))))
                        (Z.coq_lxor v_key4
                          (wrapu (Zpos (XO (XO (XO (XO (XO XH))))))
                            (Z.shiftl v_key4 (Zpos (XO (XI (XO XH)))))))
                    in
                    guard
                      (shift_ok (Zpos (XO (XO (XO (XO (XO XH)))))) (Zpos (XI
                        (XI (XI XH)))))
                      (let v_key6 =
                         wrapu (Zpos (XO (XO (XO (XO (XO XH))))))
                           (Z.coq_lxor v_key5
                             (Z.shiftr v_key5 (Zpos (XI (XI (XI XH))))))
                       in
                       Some v_key6)))))))

type addr = bool list

type elem = { e_asn : n; e_max : nat; e_src : n }

(** val elem_eqb : elem -> elem -> bool **)

let elem_eqb a b =
  (&&) ((&&) (N.eqb a.e_asn b.e_asn) (Nat.eqb a.e_max b.e_max))
    (N.eqb a.e_src b.e_src)

(** val addr_eqb : addr -> addr -> bool **)

let rec addr_eqb a b =
  match a with
  | [] -> (match b with
           | [] -> true
           | _ :: _ -> false)
  | x :: a' ->
    (match b with
     | [] -> false
     | y :: b' -> (&&) (eqb x y) (addr_eqb a' b'))

type trie =
| Leaf
| Node of addr * nat * elem list * trie * trie

type rc =
| SUCCESS
| ERROR
| DUP
| NOTFOUND

type vstate =
| VALID
| NOT_FOUND
| INVALID

(** val bit : addr -> nat -> bool **)

let bit a i =
  nth i a false

(** val push : trie -> nat -> addr -> nat -> elem list -> trie **)

let rec push t lvl p len d =
  match t with
  | Leaf -> Node (p, len, d, Leaf, Leaf)
  | Node (q, ql, qd, l, r) ->
    if Nat.ltb len ql
    then if bit q lvl
         then Node (p, len, d, l, (push r (S lvl) q ql qd))
         else Node (p, len, d, (push l (S lvl) q ql qd), r)
    else if bit p lvl
         then Node (q, ql, qd, l, (push r (S lvl) p len d))
         else Node (q, ql, qd, (push l (S lvl) p len d), r)

(** val add0 : trie -> nat -> addr -> nat -> elem -> trie * rc **)

let rec add0 t lvl p len e =
  match t with
  | Leaf -> ((Node (p, len, (e :: []), Leaf, Leaf)), SUCCESS)
  | Node (q, ql, qd, l, r) ->
    if Nat.ltb len ql
    then ((push t lvl p len (e :: [])), SUCCESS)
    else if (&&) (Nat.eqb ql len) (addr_eqb q p)
         then if existsb (elem_eqb e) qd
              then (t, DUP)
              else ((Node (q, ql, (app qd (e :: [])), l, r)), SUCCESS)
         else if bit p lvl
              then let (r', c) = add0 r (S lvl) p len e in
                   ((Node (q, ql, qd, l, r')), c)
              else let (l', c) = add0 l (S lvl) p len e in
                   ((Node (q, ql, qd, l', r)), c)

(** val pull : trie -> trie **)

let rec pull = function
| Leaf -> Leaf
| Node (_, _, _, l, r) ->
  (match l with
   | Leaf ->
     (match r with
      | Leaf -> Leaf
      | Node (rp, rl, rd, _, _) -> Node (rp, rl, rd, l, (pull r)))
   | Node (lp, ll, ld, _, _) ->
     (match r with
      | Leaf -> Node (lp, ll, ld, (pull l), r)
      | Node (rp, rl, rd, _, _) ->
        if Nat.ltb ll rl
        then Node (lp, ll, ld, (pull l), r)
        else Node (rp, rl, rd, l, (pull r))))

(** val remove_first : elem -> elem list -> elem list **)

let rec remove_first e = function
| [] -> []
| x :: d' -> if elem_eqb e x then d' else x :: (remove_first e d')

(** val remove : trie -> nat -> addr -> nat -> elem -> trie * rc **)

let rec remove t lvl p len e =
  match t with
  | Leaf -> (Leaf, NOTFOUND)
  | Node (q, ql, qd, l, r) ->
    if Nat.ltb len ql
    then (t, NOTFOUND)
    else if (&&) (Nat.eqb ql len) (addr_eqb q p)
         then if existsb (elem_eqb e) qd
              then (match remove_first e qd with
                    | [] -> ((pull t), SUCCESS)
                    | e0 :: l0 -> ((Node (q, ql, (e0 :: l0), l, r)), SUCCESS))
              else (t, NOTFOUND)
         else if bit p lvl
              then let (r', c) = remove r (S lvl) p len e in
                   ((Node (q, ql, qd, l, r')), c)
              else let (l', c) = remove l (S lvl) p len e in
                   ((Node (q, ql, qd, l', r)), c)

(** val size : trie -> nat **)

let rec size = function
| Leaf -> O
| Node (_, _, _, l, r) -> S (add (size l) (size r))

(** val records : trie -> ((addr * nat) * elem) list **)

let rec records = function
| Leaf -> []
| Node (p, len, d, l, r) ->
  app (records l) (app (map (fun e -> ((p, len), e)) d) (records r))

(** val free_cbs : nat -> trie -> ((addr * nat) * elem) list option **)

let rec free_cbs fuel t =
  match fuel with
  | O -> (match t with
          | Leaf -> Some []
          | Node (_, _, _, _, _) -> None)
  | S f ->
    (match t with
     | Leaf -> Some []
     | Node (p, len, d, _, _) ->
       (match free_cbs f (pull t) with
        | Some rest -> Some (app (map (fun e -> ((p, len), e)) d) rest)
        | None -> None))

(** val covers : addr -> nat -> addr -> nat -> bool **)

let covers p len q qlen =
  (&&) (Nat.leb len qlen) (addr_eqb (firstn len p) (firstn len q))

(** val matches : n -> nat -> elem -> bool **)

let matches asn qlen e =
  (&&) ((&&) (negb (N.eqb e.e_asn N0)) (N.eqb e.e_asn asn))
    (Nat.leb qlen e.e_max)

(** val val0 :
    trie -> nat -> n -> addr -> nat -> bool -> ((addr * nat) * elem) list ->
    vstate * ((addr * nat) * elem) list **)

let rec val0 t lvl asn q qlen seen acc =
  match t with
  | Leaf -> if seen then (INVALID, acc) else (NOT_FOUND, [])
  | Node (p, len, d, l, r) ->
    let child = if bit q lvl then r else l in
    if covers p len q qlen
    then let acc' = app acc (map (fun e -> ((p, len), e)) d) in
         if existsb (matches asn qlen) d
         then (VALID, acc')
         else val0 child (S lvl) asn q qlen true acc'
    else val0 child (S lvl) asn q qlen seen acc

type table = { t4 : trie; t6 : trie }

(** val empty_table : table **)

let empty_table =
  { t4 = Leaf; t6 = Leaf }

type cb =
| Added of (((bool * addr) * nat) * elem)
| Removed of (((bool * addr) * nat) * elem)

(** val root : table -> bool -> trie **)

let root t = function
| true -> t.t6
| false -> t.t4

(** val set_root : table -> bool -> trie -> table **)

let set_root t v6 t0 =
  if v6 then { t4 = t.t4; t6 = t0 } else { t4 = t0; t6 = t.t6 }

(** val tag :
    bool -> ((addr * nat) * elem) -> ((bool * addr) * nat) * elem **)

let tag v6 = function
| (p0, e) -> let (p, len) = p0 in (((v6, p), len), e)

(** val trecords : table -> (((bool * addr) * nat) * elem) list **)

let trecords t =
  app (map (tag false) (records t.t4)) (map (tag true) (records t.t6))

(** val tadd :
    table -> (((bool * addr) * nat) * elem) -> (table * rc) * cb list **)

let tadd t r = match r with
| (p0, e) ->
  let (p1, len) = p0 in
  let (v6, p) = p1 in
  let (t', c) = add0 (root t v6) O p len e in
  (match c with
   | SUCCESS -> (((set_root t v6 t'), c), ((Added r) :: []))
   | _ -> ((t, c), []))

(** val tremove :
    table -> (((bool * addr) * nat) * elem) -> (table * rc) * cb list **)

let tremove t r = match r with
| (p0, e) ->
  let (p1, len) = p0 in
  let (v6, p) = p1 in
  let (t', c) = remove (root t v6) O p len e in
  (match c with
   | SUCCESS -> (((set_root t v6 t'), c), ((Removed r) :: []))
   | _ -> ((t, c), []))

(** val tfree : table -> cb list option **)

let tfree t =
  match free_cbs (size t.t4) t.t4 with
  | Some a ->
    (match free_cbs (size t.t6) t.t6 with
     | Some b ->
       Some
         (app (map (fun r -> Removed (tag false r)) a)
           (map (fun r -> Removed (tag true r)) b))
     | None -> None)
  | None -> None

(** val tvalidate :
    table -> bool -> n -> addr -> nat ->
    vstate * (((bool * addr) * nat) * elem) list **)

let tvalidate t v6 asn q qlen =
  let (s, rs) = val0 (root t v6) O asn q qlen false [] in
  (s, (map (tag v6) rs))

(** val src_of : (((bool * addr) * nat) * elem) -> n **)

let src_of = function
| (_, e) -> e.e_src

(** val upd : nat -> 'a1 -> 'a1 list -> 'a1 list **)

let rec upd n0 x = function
| [] -> []
| y :: r -> (match n0 with
             | O -> x :: r
             | S m0 -> y :: (upd m0 x r))

(** val remove_first0 : ('a1 -> bool) -> 'a1 list -> 'a1 list **)

let rec remove_first0 f = function
| [] -> []
| x :: r -> if f x then r else x :: (remove_first0 f r)

(** val sT_STABLE : z **)

let sT_STABLE =
  Z0

(** val sT_GROW : z **)

let sT_GROW =
  Zpos XH

(** val sT_SHRINK : z **)

let sT_SHRINK =
  Zpos (XO XH)

type 'a node = z * 'a

type 'a hashlin = { bucket_bit : z; bucket_max : z; bucket_mask : z;
                    low_max : z; low_mask : z; split : z; count : z;
                    state : z; buckets : 'a node list list }

(** val set_buckets :
    'a1 hashlin -> 'a1 node list list -> z -> 'a1 hashlin **)

let set_buckets h bs c =
  { bucket_bit = h.bucket_bit; bucket_max = h.bucket_max; bucket_mask =
    h.bucket_mask; low_max = h.low_max; low_mask = h.low_mask; split =
    h.split; count = c; state = h.state; buckets = bs }

(** val set_state : 'a1 hashlin -> z -> 'a1 hashlin **)

let set_state h s =
  { bucket_bit = h.bucket_bit; bucket_max = h.bucket_max; bucket_mask =
    h.bucket_mask; low_max = h.low_max; low_mask = h.low_mask; split =
    h.split; count = h.count; state = s; buckets = h.buckets }

(** val set_stable : 'a1 hashlin -> 'a1 hashlin **)

let set_stable h =
  { bucket_bit = h.bucket_bit; bucket_max = h.bucket_max; bucket_mask =
    h.bucket_mask; low_max = h.bucket_max; low_mask = h.bucket_mask; split =
    Z0; count = h.count; state = sT_STABLE; buckets = h.buckets }

(** val hl_init : z -> 'a1 hashlin **)

let hl_init bit0 =
  let bm = Z.pow (Zpos (XO XH)) bit0 in
  { bucket_bit = bit0; bucket_max = bm; bucket_mask = (Z.sub bm (Zpos XH));
  low_max = bm; low_mask = (Z.sub bm (Zpos XH)); split = Z0; count = Z0;
  state = sT_STABLE; buckets = (repeat [] (Z.to_nat bm)) }

(** val get_bucket : 'a1 hashlin -> z -> 'a1 node list **)

let get_bucket h pos =
  nth (Z.to_nat pos) h.buckets []

(** val bucket_pos : 'a1 hashlin -> z -> z **)

let bucket_pos h hash =
  let pos = Z.coq_land hash h.low_mask in
  let high_pos = Z.coq_land hash h.bucket_mask in
  if Z.ltb pos h.split then high_pos else pos

(** val hl_bucket : 'a1 hashlin -> z -> 'a1 node list **)

let hl_bucket h hash =
  get_bucket h (bucket_pos h hash)

(** val hl_search : 'a1 hashlin -> ('a1 -> bool) -> z -> 'a1 node option **)

let hl_search h cmp hash =
  find (fun n0 -> (&&) (Z.eqb (fst n0) hash) (cmp (snd n0)))
    (hl_bucket h hash)

(** val split_one : 'a1 hashlin -> 'a1 hashlin **)

let split_one h =
  let j = get_bucket h h.split in
  let mask = h.low_max in
  let lo = filter (fun n0 -> Z.eqb (Z.coq_land (fst n0) mask) Z0) j in
  let hi = filter (fun n0 -> negb (Z.eqb (Z.coq_land (fst n0) mask) Z0)) j in
  { bucket_bit = h.bucket_bit; bucket_max = h.bucket_max; bucket_mask =
  h.bucket_mask; low_max = h.low_max; low_mask = h.low_mask; split =
  (Z.add h.split (Zpos XH)); count = h.count; state = h.state; buckets =
  (app (upd (Z.to_nat h.split) lo h.buckets) (hi :: [])) }

(** val grow_loop : nat -> z -> 'a1 hashlin -> 'a1 hashlin **)

let rec grow_loop fuel target h =
  match fuel with
  | O -> h
  | S f ->
    if Z.ltb (Z.add h.split h.low_max) target
    then let h1 = split_one h in
         if Z.eqb h1.split h1.low_max
         then set_stable h1
         else grow_loop f target h1
    else h

(** val grow_setup : 'a1 hashlin -> 'a1 hashlin **)

let grow_setup h =
  if (&&) (negb (Z.eqb h.state sT_GROW))
       (Z.ltb (Z.div h.bucket_max (Zpos (XO XH))) h.count)
  then let h1 =
         if Z.eqb h.state sT_STABLE
         then { bucket_bit = (Z.add h.bucket_bit (Zpos XH)); bucket_max =
                (Z.pow (Zpos (XO XH)) (Z.add h.bucket_bit (Zpos XH)));
                bucket_mask =
                (Z.sub (Z.pow (Zpos (XO XH)) (Z.add h.bucket_bit (Zpos XH)))
                  (Zpos XH)); low_max = h.bucket_max; low_mask =
                h.bucket_mask; split = Z0; count = h.count; state = h.state;
                buckets = h.buckets }
         else h
       in
       set_state h1 sT_GROW
  else h

(** val grow_step : 'a1 hashlin -> 'a1 hashlin **)

let grow_step h =
  let h1 = grow_setup h in
  if Z.eqb h1.state sT_GROW
  then grow_loop (Z.to_nat h1.low_max) (Z.mul (Zpos (XO XH)) h1.count) h1
  else h1

(** val merge_one : 'a1 hashlin -> 'a1 hashlin **)

let merge_one h =
  let s = Z.sub h.split (Zpos XH) in
  let lo = get_bucket h s in
  let hi = get_bucket h (Z.add s h.low_max) in
  { bucket_bit = h.bucket_bit; bucket_max = h.bucket_max; bucket_mask =
  h.bucket_mask; low_max = h.low_max; low_mask = h.low_mask; split = s;
  count = h.count; state = h.state; buckets =
  (upd (Z.to_nat s) (app lo hi)
    (firstn (Z.to_nat (Z.add s h.low_max)) h.buckets)) }

(** val shrink_finish : 'a1 hashlin -> 'a1 hashlin **)

let shrink_finish h =
  let bb = Z.sub h.bucket_bit (Zpos XH) in
  set_stable { bucket_bit = bb; bucket_max = (Z.pow (Zpos (XO XH)) bb);
    bucket_mask = (Z.sub (Z.pow (Zpos (XO XH)) bb) (Zpos XH)); low_max =
    h.low_max; low_mask = h.low_mask; split = h.split; count = h.count;
    state = h.state; buckets = h.buckets }

(** val shrink_loop : nat -> z -> 'a1 hashlin -> 'a1 hashlin **)

let rec shrink_loop fuel target h =
  match fuel with
  | O -> h
  | S f ->
    if Z.ltb target (Z.add h.split h.low_max)
    then let h1 = merge_one h in
         if Z.eqb h1.split Z0
         then shrink_finish h1
         else shrink_loop f target h1
    else h

(** val shrink_setup : z -> 'a1 hashlin -> 'a1 hashlin **)

let shrink_setup bit0 h =
  if (&&) (negb (Z.eqb h.state sT_SHRINK))
       (Z.ltb h.count (Z.div h.bucket_max (Zpos (XO (XO (XO XH))))))
  then if Z.ltb bit0 h.bucket_bit
       then let h1 =
              if Z.eqb h.state sT_STABLE
              then { bucket_bit = h.bucket_bit; bucket_max = h.bucket_max;
                     bucket_mask = h.bucket_mask; low_max =
                     (Z.div h.bucket_max (Zpos (XO XH))); low_mask =
                     (Z.div h.bucket_mask (Zpos (XO XH))); split =
                     (Z.div h.bucket_max (Zpos (XO XH))); count = h.count;
                     state = h.state; buckets = h.buckets }
              else h
            in
            set_state h1 sT_SHRINK
       else h
  else h

(** val shrink_step : z -> 'a1 hashlin -> 'a1 hashlin **)

let shrink_step bit0 h =
  let h1 = shrink_setup bit0 h in
  if Z.eqb h1.state sT_SHRINK
  then shrink_loop (Z.to_nat h1.low_max)
         (Z.mul (Zpos (XO (XO (XO XH)))) h1.count) h1
  else h1

(** val hl_insert : 'a1 hashlin -> z -> 'a1 -> 'a1 hashlin **)

let hl_insert h hash data =
  let pos = bucket_pos h hash in
  grow_step
    (set_buckets h
      (upd (Z.to_nat pos) (app (get_bucket h pos) ((hash, data) :: []))
        h.buckets) (Z.add h.count (Zpos XH)))

(** val hl_remove_first :
    z -> 'a1 hashlin -> z -> ('a1 node -> bool) -> 'a1 hashlin * 'a1 node
    option **)

let hl_remove_first bit0 h hash f =
  let pos = bucket_pos h hash in
  (match find f (get_bucket h pos) with
   | Some n0 ->
     ((shrink_step bit0
        (set_buckets h
          (upd (Z.to_nat pos) (remove_first0 f (get_bucket h pos)) h.buckets)
          (Z.sub h.count (Zpos XH)))), (Some n0))
   | None -> (h, None))

(** val hl_remove :
    z -> 'a1 hashlin -> ('a1 -> bool) -> z -> 'a1 hashlin * 'a1 node option **)

let hl_remove bit0 h cmp hash =
  hl_remove_first bit0 h hash (fun n0 ->
    (&&) (Z.eqb (fst n0) hash) (cmp (snd n0)))

(** val hl_remove_existing :
    z -> 'a1 hashlin -> ('a1 -> 'a1 -> bool) -> 'a1 node -> 'a1 hashlin * 'a1
    node option **)

let hl_remove_existing bit0 h same n0 =
  hl_remove_first bit0 h (fst n0) (fun m0 ->
    (&&) (Z.eqb (fst m0) (fst n0)) (same (snd n0) (snd m0)))

type entry = { e_asn0 : z; e_ski : z; e_spki : z; e_src0 : z }

(** val key_entry_cmp : entry -> entry -> bool **)

let key_entry_cmp param e =
  if negb (Z.eqb param.e_asn0 e.e_asn0)
  then false
  else if negb (Z.eqb param.e_ski e.e_ski)
       then false
       else if negb (Z.eqb param.e_spki e.e_spki)
            then false
            else if negb (Z.eqb param.e_src0 e.e_src0) then false else true

type callback = entry * bool

(** val sPKI_SUCCESS : z **)

let sPKI_SUCCESS =
  c_SPKI_SUCCESS

(** val sPKI_ERROR : z **)

let sPKI_ERROR =
  c_SPKI_ERROR

(** val sPKI_DUPLICATE_RECORD : z **)

let sPKI_DUPLICATE_RECORD =
  c_SPKI_DUPLICATE_RECORD

(** val sPKI_RECORD_NOT_FOUND : z **)

let sPKI_RECORD_NOT_FOUND =
  c_SPKI_RECORD_NOT_FOUND

(** val sRC_REMOVE_NOTIFIES : bool **)

let sRC_REMOVE_NOTIFIES =
  true

type spki_table = { ht : entry hashlin; lst : entry list }

(** val spki_init : z -> spki_table **)

let spki_init bit0 =
  { ht = (hl_init bit0); lst = [] }

(** val add_entry :
    (z -> z) -> spki_table -> entry -> (z * spki_table) * callback list **)

let add_entry hash t e =
  let h = hash e.e_asn0 in
  (match hl_search t.ht (key_entry_cmp e) h with
   | Some _ -> ((sPKI_DUPLICATE_RECORD, t), [])
   | None ->
     ((sPKI_SUCCESS, { ht = (hl_insert t.ht h e); lst =
       (app t.lst (e :: [])) }), ((e, true) :: [])))

(** val get_all : (z -> z) -> spki_table -> z -> z -> entry list **)

let get_all hash t asn ski =
  map snd
    (filter (fun n0 ->
      (&&) (Z.eqb (snd n0).e_asn0 asn) (Z.eqb (snd n0).e_ski ski))
      (hl_bucket t.ht (hash asn)))

(** val search_by_ski : spki_table -> z -> entry list **)

let search_by_ski t ski =
  filter (fun e -> Z.eqb e.e_ski ski) t.lst

(** val remove_entry :
    (z -> z) -> z -> spki_table -> entry -> (z * spki_table) * callback list **)

let remove_entry hash bit0 t e =
  let h = hash e.e_asn0 in
  (match hl_search t.ht (key_entry_cmp e) h with
   | Some _ ->
     let (h', o) = hl_remove bit0 t.ht (key_entry_cmp e) h in
     (match o with
      | Some n0 ->
        ((sPKI_SUCCESS, { ht = h'; lst =
          (remove_first0 (key_entry_cmp (snd n0)) t.lst) }), ((e,
          false) :: []))
      | None -> ((sPKI_ERROR, t), []))
   | None -> ((sPKI_RECORD_NOT_FOUND, t), []))

(** val remove_node : (z -> z) -> z -> spki_table -> entry -> spki_table **)

let remove_node hash bit0 t e =
  { ht =
    (fst (hl_remove_existing bit0 t.ht key_entry_cmp ((hash e.e_asn0), e)));
    lst = (remove_first0 (key_entry_cmp e) t.lst) }

(** val src_remove_walk :
    (z -> z) -> z -> entry list -> z -> spki_table -> spki_table **)

let rec src_remove_walk hash bit0 l s t =
  match l with
  | [] -> t
  | e :: r ->
    if Z.eqb e.e_src0 s
    then src_remove_walk hash bit0 r s (remove_node hash bit0 t e)
    else src_remove_walk hash bit0 r s t

(** val src_remove_gen :
    (z -> z) -> z -> bool -> spki_table -> z -> (z * spki_table) * callback
    list **)

let src_remove_gen hash bit0 notifies t s =
  ((sPKI_SUCCESS, (src_remove_walk hash bit0 t.lst s t)),
    (if notifies
     then map (fun e -> (e, false)) (filter (fun e -> Z.eqb e.e_src0 s) t.lst)
     else []))

(** val src_remove :
    (z -> z) -> z -> spki_table -> z -> (z * spki_table) * callback list **)

let src_remove hash bit0 =
  src_remove_gen hash bit0 sRC_REMOVE_NOTIFIES

(** val diff_walk_new :
    (z -> z) -> z -> entry list -> z -> spki_table -> callback list ->
    spki_table * callback list **)

let rec diff_walk_new hash bit0 l s old cbs =
  match l with
  | [] -> (old, cbs)
  | e :: r ->
    if Z.eqb e.e_src0 s
    then let (p, _) = remove_entry hash bit0 old e in
         let (rc0, old') = p in
         diff_walk_new hash bit0 r s old'
           (if Z.eqb rc0 sPKI_RECORD_NOT_FOUND
            then app cbs ((e, true) :: [])
            else cbs)
    else diff_walk_new hash bit0 r s old cbs

(** val notify_diff :
    (z -> z) -> z -> spki_table -> spki_table -> z -> spki_table * callback
    list **)

let notify_diff hash bit0 new0 old s =
  let (old', cbs) = diff_walk_new hash bit0 new0.lst s old [] in
  (old',
  (app cbs
    (map (fun e -> (e, false)) (filter (fun e -> Z.eqb e.e_src0 s) old'.lst))))

(** val contents : spki_table -> entry list **)

let contents t =
  t.lst

type cls =
| PNode
| PData
| PAry
| PReason
| PChildren
| KEntry
| HSeg
| KRes
| Arr4
| Arr6
| ArrK
| ShPfx
| ShSpki

(** val cls_eqb : cls -> cls -> bool **)

let cls_eqb a b =
  match a with
  | PNode -> (match b with
              | PNode -> true
              | _ -> false)
  | PData -> (match b with
              | PData -> true
              | _ -> false)
  | PAry -> (match b with
             | PAry -> true
             | _ -> false)
  | PReason -> (match b with
                | PReason -> true
                | _ -> false)
  | PChildren -> (match b with
                  | PChildren -> true
                  | _ -> false)
  | KEntry -> (match b with
               | KEntry -> true
               | _ -> false)
  | HSeg -> (match b with
             | HSeg -> true
             | _ -> false)
  | KRes -> (match b with
             | KRes -> true
             | _ -> false)
  | Arr4 -> (match b with
             | Arr4 -> true
             | _ -> false)
  | Arr6 -> (match b with
             | Arr6 -> true
             | _ -> false)
  | ArrK -> (match b with
             | ArrK -> true
             | _ -> false)
  | ShPfx -> (match b with
              | ShPfx -> true
              | _ -> false)
  | ShSpki -> (match b with
               | ShSpki -> true
               | _ -> false)

type via =
| ViaCfg
| ViaLibc

type ev =
| EvM of cls * bool
| EvR0 of cls * bool
| EvR of cls * bool
| EvF of cls * via
| EvX of cls

type ast = { fail_at : nat option; ctr : nat; live : cls list;
             rlog : ev list; corrupt : bool }

type 'a res =
| Val of 'a * ast
| Crash of ast

type 'a m = ast -> 'a res

(** val ret : 'a1 -> 'a1 m **)

let ret a s =
  Val (a, s)

(** val bind : 'a1 m -> ('a1 -> 'a2 m) -> 'a2 m **)

let bind m0 f s =
  match m0 s with
  | Val (a, s1) -> f a s1
  | Crash s1 -> Crash s1

(** val crash : 'a1 m **)

let crash s =
  Crash s

(** val fails : ast -> bool **)

let fails s =
  match s.fail_at with
  | Some k -> Nat.eqb (S s.ctr) k
  | None -> false

(** val remove1 : cls -> cls list -> cls list **)

let rec remove1 c = function
| [] -> []
| x :: r -> if cls_eqb c x then r else x :: (remove1 c r)

(** val has : cls -> cls list -> bool **)

let has c l =
  existsb (cls_eqb c) l

(** val alloc_gen : (bool -> ev) -> cls -> bool m **)

let alloc_gen e c s =
  if fails s
  then Val (false, { fail_at = s.fail_at; ctr = (S s.ctr); live = s.live;
         rlog = ((e false) :: s.rlog); corrupt = s.corrupt })
  else Val (true, { fail_at = s.fail_at; ctr = (S s.ctr); live =
         (c :: s.live); rlog = ((e true) :: s.rlog); corrupt = s.corrupt })

(** val malloc : cls -> bool m **)

let malloc c =
  alloc_gen (fun x -> EvM (c, x)) c

(** val realloc0 : cls -> bool m **)

let realloc0 c =
  alloc_gen (fun x -> EvR0 (c, x)) c

(** val realloc : cls -> bool m **)

let realloc c s =
  let bad = negb (has c s.live) in
  let l = if bad then (EvX c) :: s.rlog else s.rlog in
  if fails s
  then Val (false, { fail_at = s.fail_at; ctr = (S s.ctr); live = s.live;
         rlog = ((EvR (c, false)) :: l); corrupt = ((||) s.corrupt bad) })
  else Val (true, { fail_at = s.fail_at; ctr = (S s.ctr); live = s.live;
         rlog = ((EvR (c, true)) :: l); corrupt = ((||) s.corrupt bad) })

(** val free : via -> cls -> unit m **)

let free v c s =
  if has c s.live
  then Val ((), { fail_at = s.fail_at; ctr = s.ctr; live =
         (remove1 c s.live); rlog = ((EvF (c, v)) :: s.rlog); corrupt =
         s.corrupt })
  else Val ((), { fail_at = s.fail_at; ctr = s.ctr; live = s.live; rlog =
         ((EvX c) :: s.rlog); corrupt = true })

(** val quiet_alloc : cls -> unit m **)

let quiet_alloc c s =
  Val ((), { fail_at = s.fail_at; ctr = s.ctr; live = (c :: s.live); rlog =
    s.rlog; corrupt = s.corrupt })

(** val when0 : bool -> unit m -> unit m **)

let when0 b m0 =
  if b then m0 else ret ()

(** val repeat_m : nat -> unit m -> unit m **)

let rec repeat_m n0 m0 =
  match n0 with
  | O -> ret ()
  | S k -> bind m0 (fun _ -> repeat_m k m0)

type variant = { shrink_ok : bool; grow_checked : bool; init_checked : 
                 bool; free_cfg : bool; reason_tmp : bool;
                 children_once : bool; result_null : bool }

(** val as_is : variant **)

let as_is =
  { shrink_ok = false; grow_checked = false; init_checked = false; free_cfg =
    false; reason_tmp = false; children_once = false; result_null = false }

(** val repaired : variant **)

let repaired =
  { shrink_ok = true; grow_checked = true; init_checked = true; free_cfg =
    true; reason_tmp = true; children_once = true; result_null = true }

module PfxA =
 struct
  (** val find_payload : trie -> nat -> addr -> nat -> elem list option **)

  let rec find_payload t lvl p len =
    match t with
    | Leaf -> None
    | Node (q, ql, qd, l, r) ->
      if Nat.ltb len ql
      then None
      else if (&&) (Nat.eqb ql len) (addr_eqb q p)
           then Some qd
           else if bit p lvl
                then find_payload r (S lvl) p len
                else find_payload l (S lvl) p len

  (** val set_payload : trie -> nat -> addr -> nat -> elem list -> trie **)

  let rec set_payload t lvl p len d =
    match t with
    | Leaf -> Leaf
    | Node (q, ql, qd, l, r) ->
      if Nat.ltb len ql
      then t
      else if (&&) (Nat.eqb ql len) (addr_eqb q p)
           then Node (q, ql, d, l, r)
           else if bit p lvl
                then Node (q, ql, qd, l, (set_payload r (S lvl) p len d))
                else Node (q, ql, qd, (set_payload l (S lvl) p len d), r)

  (** val create_node_m : bool m **)

  let create_node_m =
    bind (malloc PNode) (fun a ->
      if negb a
      then ret false
      else bind (malloc PData) (fun b ->
             if negb b
             then bind (free ViaCfg PNode) (fun _ -> ret false)
             else bind (realloc0 PAry) (fun c ->
                    if negb c
                    then bind (free ViaCfg PData) (fun _ ->
                           bind (free ViaCfg PNode) (fun _ -> ret false))
                    else ret true)))

  (** val tadd_m :
      table -> (((bool * addr) * nat) * elem) -> ((table * rc) * cb list) m **)

  let tadd_m t r = match r with
  | (p0, e) ->
    let (p1, len) = p0 in
    let (v6, p) = p1 in
    (match find_payload (root t v6) O p len with
     | Some d ->
       if existsb (elem_eqb e) d
       then ret (tadd t r)
       else bind (match d with
                  | [] -> realloc0 PAry
                  | _ :: _ -> realloc PAry) (fun ok ->
              if ok then ret (tadd t r) else ret ((t, ERROR), []))
     | None ->
       bind create_node_m (fun ok ->
         if ok then ret (tadd t r) else ret ((t, ERROR), [])))

  (** val tremove_m :
      variant -> table -> (((bool * addr) * nat) * elem) ->
      ((table * rc) * cb list) m **)

  let tremove_m v t r = match r with
  | (p0, e) ->
    let (p1, len) = p0 in
    let (v6, p) = p1 in
    (match find_payload (root t v6) O p len with
     | Some d ->
       if existsb (elem_eqb e) d
       then (match remove_first e d with
             | [] ->
               bind (free ViaCfg PAry) (fun _ ->
                 bind (free ViaCfg PData) (fun _ ->
                   bind (free ViaCfg PNode) (fun _ -> ret (tremove t r))))
             | e0 :: l ->
               bind (realloc PAry) (fun ok ->
                 if (||) ok v.shrink_ok
                 then ret (tremove t r)
                 else ret
                        (((set_root t v6
                            (set_payload (root t v6) O p len
                              (app (e0 :: l) (e :: [])))), ERROR), [])))
       else ret (tremove t r)
     | None -> ret (tremove t r))

  (** val del_loop :
      variant -> n -> elem list -> elem list -> ((elem list * elem
      list) * bool) m **)

  let rec del_loop v s pre = function
  | [] -> ret ((pre, []), true)
  | x :: post' ->
    if N.eqb x.e_src s
    then (match app pre post' with
          | [] ->
            bind (free ViaCfg PAry) (fun _ -> ret (([], (x :: [])), true))
          | _ :: _ ->
            bind (realloc PAry) (fun ok ->
              if (||) ok v.shrink_ok
              then bind (del_loop v s pre post') (fun z0 ->
                     let (p, fine) = z0 in
                     let (d, gone) = p in ret ((d, (x :: gone)), fine))
              else ret (((app pre (app post' (x :: []))), []), false)))
    else del_loop v s (app pre (x :: [])) post'

  (** val remove_id_m :
      variant -> nat -> trie -> n -> ((trie * ((addr * nat) * elem)
      list) * bool) option m **)

  let rec remove_id_m v fuel t s =
    match fuel with
    | O ->
      (match t with
       | Leaf -> ret (Some ((Leaf, []), true))
       | Node (_, _, _, _, _) -> ret None)
    | S f ->
      (match t with
       | Leaf -> ret (Some ((Leaf, []), true))
       | Node (q, ql, qd, l, r) ->
         bind (del_loop v s [] qd) (fun z0 ->
           let (p, fine) = z0 in
           let (d', gone0) = p in
           let gone = map (fun e -> ((q, ql), e)) gone0 in
           if negb fine
           then ret (Some (((Node (q, ql, d', l, r)), gone), false))
           else (match d' with
                 | [] ->
                   bind (free ViaCfg PData) (fun _ ->
                     bind (free ViaCfg PNode) (fun _ ->
                       bind (remove_id_m v f (pull t) s) (fun y ->
                         match y with
                         | Some p0 ->
                           let (p1, fine') = p0 in
                           let (t', cbs) = p1 in
                           ret (Some ((t', (app gone cbs)), fine'))
                         | None -> ret None)))
                 | _ :: _ ->
                   bind (remove_id_m v f l s) (fun yl ->
                     match yl with
                     | Some p0 ->
                       let (p1, finel) = p0 in
                       let (l', cl) = p1 in
                       if negb finel
                       then ret (Some (((Node (q, ql, d', l', r)),
                              (app gone cl)), false))
                       else bind (remove_id_m v f r s) (fun yr ->
                              match yr with
                              | Some p2 ->
                                let (p3, finer) = p2 in
                                let (r', cr) = p3 in
                                ret (Some (((Node (q, ql, d', l', r')),
                                  (app gone (app cl cr))), finer))
                              | None -> ret None)
                     | None -> ret None))))

  (** val tsrc_remove_m :
      variant -> table -> n -> ((table * rc) * cb list) option m **)

  let tsrc_remove_m v t s =
    bind (remove_id_m v (size t.t4) t.t4 s) (fun y4 ->
      match y4 with
      | Some p ->
        let (p0, fine4) = p in
        let (a, ca) = p0 in
        let c4 = map (fun r -> Removed (tag false r)) ca in
        if negb fine4
        then ret (Some (({ t4 = a; t6 = t.t6 }, ERROR), c4))
        else bind (remove_id_m v (size t.t6) t.t6 s) (fun y6 ->
               match y6 with
               | Some p1 ->
                 let (p2, fine6) = p1 in
                 let (b, cb6) = p2 in
                 ret (Some (({ t4 = a; t6 = b },
                   (if fine6 then SUCCESS else ERROR)),
                   (app c4 (map (fun r -> Removed (tag true r)) cb6))))
               | None -> ret None)
      | None -> ret None)

  (** val tfree_m : table -> cb list option m **)

  let tfree_m t =
    bind
      (repeat_m (add (size t.t4) (size t.t6))
        (bind (free ViaCfg PAry) (fun _ ->
          bind (free ViaCfg PData) (fun _ -> free ViaCfg PNode)))) (fun _ ->
      ret (tfree t))

  (** val val_allocs : trie -> nat -> n -> addr -> nat -> nat **)

  let rec val_allocs t lvl asn q qlen =
    match t with
    | Leaf -> O
    | Node (p, len, d, l, r) ->
      let child = if bit q lvl then r else l in
      if covers p len q qlen
      then S
             (if existsb (matches asn qlen) d
              then O
              else val_allocs child (S lvl) asn q qlen)
      else val_allocs child (S lvl) asn q qlen

  (** val reason_loop : variant -> nat -> bool -> bool m **)

  let rec reason_loop v n0 held =
    match n0 with
    | O -> ret true
    | S k ->
      bind (if held then realloc PReason else realloc0 PReason) (fun ok ->
        if ok
        then reason_loop v k true
        else bind (when0 ((&&) held v.reason_tmp) (free ViaCfg PReason))
               (fun _ -> ret false))

  (** val tvalidate_m :
      variant -> table -> bool -> n -> addr -> nat ->
      (vstate * (((bool * addr) * nat) * elem) list) option m **)

  let tvalidate_m v t v6 asn q qlen =
    let n0 = val_allocs (root t v6) O asn q qlen in
    bind (reason_loop v n0 false) (fun ok ->
      if ok
      then bind (when0 (negb (Nat.eqb n0 O)) (free ViaCfg PReason)) (fun _ ->
             ret (Some (tvalidate t v6 asn q qlen)))
      else ret None)

  (** val is_node : trie -> bool **)

  let is_node = function
  | Leaf -> false
  | Node (_, _, _, _, _) -> true

  (** val children_err : variant -> bool -> (bool * bool) m **)

  let children_err v held =
    bind (when0 held (free ViaCfg PChildren)) (fun _ ->
      ret (false, ((&&) held (negb v.children_once))))

  (** val children_m : variant -> trie -> bool -> (bool * bool) m **)

  let rec children_m v t held =
    match t with
    | Leaf -> ret (true, held)
    | Node (_, _, _, l, r) ->
      bind
        (if is_node l
         then bind (if held then realloc PChildren else realloc0 PChildren)
                (fun ok ->
                if ok then children_m v l true else ret (false, held))
         else ret (true, held)) (fun zl ->
        let (okl, heldl) = zl in
        if negb okl
        then children_err v heldl
        else bind
               (if is_node r
                then bind
                       (if heldl
                        then realloc PChildren
                        else realloc0 PChildren) (fun ok ->
                       if ok then children_m v r true else ret (false, heldl))
                else ret (true, heldl)) (fun zr ->
               let (okr, heldr) = zr in
               if negb okr then children_err v heldr else ret (true, heldr)))

  (** val tchildren_m : variant -> trie -> bool m **)

  let tchildren_m v t =
    bind (children_m v t false) (fun z0 ->
      let (ok, held) = z0 in
      if ok
      then bind (when0 held (free ViaCfg PChildren)) (fun _ -> ret true)
      else ret false)

  (** val copy_family_m :
      (((bool * addr) * nat) * elem) list -> n -> table -> bool ->
      (table * bool) m **)

  let rec copy_family_m rs s dst err =
    match rs with
    | [] -> ret (dst, err)
    | r :: rest ->
      if N.eqb (src_of r) s
      then copy_family_m rest s dst err
      else bind (tadd_m dst r) (fun z0 ->
             let (p, _) = z0 in
             let (dst', c) = p in
             copy_family_m rest s dst'
               (match c with
                | SUCCESS -> err
                | _ -> true))

  (** val tcopy_except_m : table -> table -> n -> (table * bool) m **)

  let tcopy_except_m src dst s =
    bind (copy_family_m (map (tag false) (records src.t4)) s dst false)
      (fun z0 ->
      let (d1, e1) = z0 in
      if e1
      then ret (d1, true)
      else copy_family_m (map (tag true) (records src.t6)) s d1 false)

  (** val diff_walk_m :
      variant -> (((bool * addr) * nat) * elem) list -> n -> table -> cb list
      -> (cb list * table) m **)

  let rec diff_walk_m v rs s old cbs =
    match rs with
    | [] -> ret (cbs, old)
    | r :: rest ->
      if N.eqb (src_of r) s
      then bind (tremove_m v old r) (fun z0 ->
             let (p, _) = z0 in
             let (old', c) = p in
             diff_walk_m v rest s old'
               (match c with
                | SUCCESS -> cbs
                | _ -> app cbs ((Added r) :: [])))
      else diff_walk_m v rest s old cbs

  (** val tnotify_diff_m :
      variant -> table -> table -> n -> (cb list * table) m **)

  let tnotify_diff_m v new0 old s =
    bind (diff_walk_m v (trecords new0) s old []) (fun z0 ->
      let (cbs1, old1) = z0 in
      ret
        ((app cbs1
           (map (fun x -> Removed x)
             (filter (fun r -> N.eqb (src_of r) s) (trecords old1)))), old1))
 end

module SpkiA =
 struct
  (** val need_seg : entry hashlin -> bool **)

  let need_seg h =
    (&&)
      ((&&) (negb (Z.eqb h.state sT_GROW))
        (Z.ltb (Z.div h.bucket_max (Zpos (XO XH))) (Z.add h.count (Zpos XH))))
      (Z.eqb h.state sT_STABLE)

  (** val hl_insert_nogrow : entry hashlin -> z -> entry -> entry hashlin **)

  let hl_insert_nogrow h k data =
    let pos = bucket_pos h k in
    set_buckets h
      (upd (Z.to_nat pos) (app (get_bucket h pos) ((k, data) :: []))
        h.buckets) (Z.add h.count (Zpos XH))

  (** val add_entry_nogrow :
      (z -> z) -> spki_table -> entry -> (z * spki_table) * callback list **)

  let add_entry_nogrow hash t e =
    ((sPKI_SUCCESS, { ht = (hl_insert_nogrow t.ht (hash e.e_asn0) e); lst =
      (app t.lst (e :: [])) }), ((e, true) :: []))

  (** val add_entry_m :
      (z -> z) -> variant -> spki_table -> entry ->
      ((z * spki_table) * callback list) m **)

  let add_entry_m hash v t e =
    bind (malloc KEntry) (fun a ->
      if negb a
      then ret ((sPKI_ERROR, t), [])
      else (match hl_search t.ht (key_entry_cmp e) (hash e.e_asn0) with
            | Some _ ->
              bind (free ViaCfg KEntry) (fun _ -> ret (add_entry hash t e))
            | None ->
              if need_seg t.ht
              then bind (malloc HSeg) (fun b ->
                     if b
                     then ret (add_entry hash t e)
                     else if v.grow_checked
                          then ret (add_entry_nogrow hash t e)
                          else crash)
              else ret (add_entry hash t e)))

  (** val seg_released : entry hashlin -> entry hashlin -> bool **)

  let seg_released before after =
    Z.ltb after.bucket_bit before.bucket_bit

  (** val remove_entry_m :
      (z -> z) -> z -> spki_table -> entry -> ((z * spki_table) * callback
      list) m **)

  let remove_entry_m hash bit0 t e =
    let (p, cbs) = remove_entry hash bit0 t e in
    let (rc0, t') = p in
    bind (when0 (seg_released t.ht t'.ht) (free ViaCfg HSeg)) (fun _ ->
      bind (when0 (Z.eqb rc0 sPKI_SUCCESS) (free ViaCfg KEntry)) (fun _ ->
        ret ((rc0, t'), cbs)))

  (** val src_walk_m :
      (z -> z) -> z -> entry list -> z -> spki_table -> spki_table m **)

  let rec src_walk_m hash bit0 l s t =
    match l with
    | [] -> ret t
    | e :: r ->
      if Z.eqb e.e_src0 s
      then let t' = remove_node hash bit0 t e in
           bind (when0 (seg_released t.ht t'.ht) (free ViaCfg HSeg))
             (fun _ ->
             bind (free ViaCfg KEntry) (fun _ -> src_walk_m hash bit0 r s t'))
      else src_walk_m hash bit0 r s t

  (** val src_remove_m :
      (z -> z) -> z -> spki_table -> z -> ((z * spki_table) * callback list) m **)

  let src_remove_m hash bit0 t s =
    bind (src_walk_m hash bit0 t.lst s t) (fun _ ->
      ret (src_remove hash bit0 t s))

  (** val result_loop : variant -> nat -> bool -> (bool * bool) m **)

  let rec result_loop v n0 held =
    match n0 with
    | O -> ret (true, false)
    | S k ->
      bind (if held then realloc KRes else realloc0 KRes) (fun ok ->
        if ok
        then result_loop v k true
        else bind (when0 held (free ViaCfg KRes)) (fun _ ->
               ret (false, ((&&) held (negb v.result_null)))))

  (** val lookup_m : variant -> entry list -> entry list option m **)

  let lookup_m v found =
    bind (result_loop v (length found) false) (fun z0 ->
      let (ok, dangling) = z0 in
      if ok
      then bind (when0 (negb (Nat.eqb (length found) O)) (free ViaCfg KRes))
             (fun _ -> ret (Some found))
      else bind (when0 dangling (free ViaCfg KRes)) (fun _ -> ret None))

  (** val get_all_m :
      (z -> z) -> variant -> spki_table -> z -> z -> entry list option m **)

  let get_all_m hash v t asn ski =
    lookup_m v (get_all hash t asn ski)

  (** val search_by_ski_m :
      variant -> spki_table -> z -> entry list option m **)

  let search_by_ski_m v t ski =
    lookup_m v (search_by_ski t ski)

  (** val nsegs : z -> spki_table -> nat **)

  let nsegs bit0 t =
    S (Z.to_nat (Z.sub t.ht.bucket_bit bit0))

  (** val release_m : z -> variant -> spki_table -> unit m **)

  let release_m bit0 v t =
    bind
      (repeat_m (length t.lst)
        (free (if v.free_cfg then ViaCfg else ViaLibc) KEntry)) (fun _ ->
      repeat_m (nsegs bit0 t) (free ViaCfg HSeg))

  (** val init_m : variant -> bool m **)

  let init_m v =
    bind (malloc HSeg) (fun a ->
      if a then ret true else if v.init_checked then ret false else crash)

  (** val free_init_m :
      z -> variant -> spki_table -> (bool * spki_table) m **)

  let free_init_m bit0 v t =
    bind (release_m bit0 v t) (fun _ ->
      bind (init_m v) (fun ok ->
        if ok
        then ret (true, (spki_init bit0))
        else bind (quiet_alloc HSeg) (fun _ -> ret (false, (spki_init bit0)))))

  (** val copy_walk_m :
      (z -> z) -> variant -> entry list -> z -> spki_table ->
      (bool * spki_table) m **)

  let rec copy_walk_m hash v l s dst =
    match l with
    | [] -> ret (true, dst)
    | e :: r ->
      if negb (Z.eqb e.e_src0 s)
      then bind (add_entry_m hash v dst e) (fun z0 ->
             let (p, _) = z0 in
             let (rc0, dst') = p in
             if Z.eqb rc0 sPKI_SUCCESS
             then copy_walk_m hash v r s dst'
             else ret (false, dst'))
      else copy_walk_m hash v r s dst

  (** val diff_walk_m :
      (z -> z) -> z -> entry list -> z -> spki_table -> spki_table m **)

  let rec diff_walk_m hash bit0 l s old =
    match l with
    | [] -> ret old
    | e :: r ->
      if Z.eqb e.e_src0 s
      then bind (remove_entry_m hash bit0 old e) (fun z0 ->
             let (p, _) = z0 in
             let (_, old') = p in diff_walk_m hash bit0 r s old')
      else diff_walk_m hash bit0 r s old
 end

module OpsA =
 struct
  type tabs = { tp : table; tk : spki_table }

  (** val tp : tabs -> table **)

  let tp t =
    t.tp

  (** val tk : tabs -> spki_table **)

  let tk t =
    t.tk

  (** val arm : nat option -> ast -> ast **)

  let arm f s =
    { fail_at = f; ctr = O; live = s.live; rlog = s.rlog; corrupt =
      s.corrupt }
 end

module SyncA =
 struct
  type upd =
  | U4 of bool * (((bool * addr) * nat) * elem)
  | U6 of bool * (((bool * addr) * nat) * elem)
  | UK of bool * entry

  (** val store_one : nat -> cls -> nat -> bool m **)

  let store_one incr c n0 =
    if Nat.eqb (Nat.modulo n0 incr) O
    then if Nat.eqb n0 O then realloc0 c else realloc c
    else ret true

  (** val store_m :
      nat -> upd list -> nat -> nat -> nat -> (bool * ((nat * nat) * nat)) m **)

  let rec store_m incr pdus n4 n6 nk =
    match pdus with
    | [] -> ret (true, ((n4, n6), nk))
    | u :: rest ->
      (match u with
       | U4 (_, _) ->
         bind (store_one incr Arr4 n4) (fun ok ->
           if ok
           then store_m incr rest (S n4) n6 nk
           else ret (false, ((n4, n6), nk)))
       | U6 (_, _) ->
         bind (store_one incr Arr6 n6) (fun ok ->
           if ok
           then store_m incr rest n4 (S n6) nk
           else ret (false, ((n4, n6), nk)))
       | UK (_, _) ->
         bind (store_one incr ArrK nk) (fun ok ->
           if ok
           then store_m incr rest n4 n6 (S nk)
           else ret (false, ((n4, n6), nk))))

  (** val free_arrays : ((nat * nat) * nat) -> unit m **)

  let free_arrays = function
  | (p, nk) ->
    let (n4, n6) = p in
    bind (when0 (negb (Nat.eqb nk O)) (free ViaCfg ArrK)) (fun _ ->
      bind (when0 (negb (Nat.eqb n6 O)) (free ViaCfg Arr6)) (fun _ ->
        when0 (negb (Nat.eqb n4 O)) (free ViaCfg Arr4)))

  (** val pfx_updates :
      upd list -> bool -> (bool * (((bool * addr) * nat) * elem)) list **)

  let pfx_updates pdus six =
    flat_map (fun u ->
      match u with
      | U4 (a, r) -> if six then [] else (a, r) :: []
      | U6 (a, r) -> if six then (a, r) :: [] else []
      | UK (_, _) -> []) pdus

  (** val key_updates : upd list -> (bool * entry) list **)

  let key_updates pdus =
    flat_map (fun u -> match u with
                       | UK (a, e) -> (a, e) :: []
                       | _ -> []) pdus

  (** val upd_pfx_m :
      variant -> bool -> table -> bool -> (((bool * addr) * nat) * elem) ->
      ((table * bool) * cb list) m **)

  let upd_pfx_m v quiet t a r =
    bind (if a then PfxA.tadd_m t r else PfxA.tremove_m v t r) (fun z0 ->
      let (p, cbs) = z0 in
      let (t', c) = p in
      ret ((t', (match c with
                 | SUCCESS -> true
                 | _ -> false)), (if quiet then [] else cbs)))

  (** val upd_key_m :
      (z -> z) -> z -> variant -> bool -> spki_table -> bool -> entry ->
      ((spki_table * bool) * callback list) m **)

  let upd_key_m hash bit0 v quiet kt a e =
    bind
      (if a
       then SpkiA.add_entry_m hash v kt e
       else SpkiA.remove_entry_m hash bit0 kt e) (fun z0 ->
      let (p, cbs) = z0 in
      let (c, kt') = p in
      ret ((kt', (Z.eqb c sPKI_SUCCESS)), (if quiet then [] else cbs)))

  (** val apply_pfx_m :
      variant -> bool -> (bool * (((bool * addr) * nat) * elem)) list ->
      table -> (bool * (((bool * addr) * nat) * elem)) list -> cb list ->
      (((table * (bool * (((bool * addr) * nat) * elem)) list) * cb
      list) * bool) m **)

  let rec apply_pfx_m v quiet us t done0 cbs =
    match us with
    | [] -> ret (((t, done0), cbs), true)
    | p :: rest ->
      let (a, r) = p in
      bind (upd_pfx_m v quiet t a r) (fun z0 ->
        let (p0, c) = z0 in
        let (t', ok) = p0 in
        if ok
        then apply_pfx_m v quiet rest t' ((a, r) :: done0) (app cbs c)
        else ret (((t', done0), (app cbs c)), false))

  (** val apply_key_m :
      (z -> z) -> z -> variant -> bool -> (bool * entry) list -> spki_table
      -> (bool * entry) list -> callback list ->
      (((spki_table * (bool * entry) list) * callback list) * bool) m **)

  let rec apply_key_m hash bit0 v quiet us kt done0 cbs =
    match us with
    | [] -> ret (((kt, done0), cbs), true)
    | p :: rest ->
      let (a, e) = p in
      bind (upd_key_m hash bit0 v quiet kt a e) (fun z0 ->
        let (p0, c) = z0 in
        let (kt', ok) = p0 in
        if ok
        then apply_key_m hash bit0 v quiet rest kt' ((a, e) :: done0)
               (app cbs c)
        else ret (((kt', done0), (app cbs c)), false))

  (** val undo_pfx_m :
      variant -> bool -> (bool * (((bool * addr) * nat) * elem)) list ->
      table -> cb list -> ((table * cb list) * bool) m **)

  let rec undo_pfx_m v quiet done0 t cbs =
    match done0 with
    | [] -> ret ((t, cbs), true)
    | p :: rest ->
      let (a, r) = p in
      bind (upd_pfx_m v quiet t (negb a) r) (fun z0 ->
        let (p0, c) = z0 in
        let (t', ok) = p0 in
        if ok
        then undo_pfx_m v quiet rest t' (app cbs c)
        else ret ((t', (app cbs c)), false))

  (** val undo_key_m :
      (z -> z) -> z -> variant -> bool -> (bool * entry) list -> spki_table
      -> callback list -> ((spki_table * callback list) * bool) m **)

  let rec undo_key_m hash bit0 v quiet done0 kt cbs =
    match done0 with
    | [] -> ret ((kt, cbs), true)
    | p :: rest ->
      let (a, e) = p in
      bind (upd_key_m hash bit0 v quiet kt (negb a) e) (fun z0 ->
        let (p0, c) = z0 in
        let (kt', ok) = p0 in
        if ok
        then undo_key_m hash bit0 v quiet rest kt' (app cbs c)
        else ret ((kt', (app cbs c)), false))

  type sync_out = { so_ok : bool; so_main : OpsA.tabs; so_pcb : cb list;
                    so_kcb : callback list }

  (** val purge_m :
      (z -> z) -> z -> n -> z -> variant -> OpsA.tabs -> cb list -> callback
      list -> ((OpsA.tabs * cb list) * callback list) m **)

  let purge_m hash bit0 me_p me_k v main pcb kcb =
    bind (PfxA.tsrc_remove_m v main.OpsA.tp me_p) (fun z0 ->
      match z0 with
      | Some p ->
        let (p0, c) = p in
        let (t, _) = p0 in
        bind (SpkiA.src_remove_m hash bit0 main.OpsA.tk me_k) (fun y ->
          let (p1, c2) = y in
          let (_, kt) = p1 in
          ret (({ OpsA.tp = t; OpsA.tk = kt }, (app pcb c)), (app kcb c2)))
      | None ->
        let t = main.OpsA.tp in
        let c1 = [] in
        bind (SpkiA.src_remove_m hash bit0 main.OpsA.tk me_k) (fun y ->
          let (p, c2) = y in
          let (_, kt) = p in
          ret (({ OpsA.tp = t; OpsA.tk = kt }, (app pcb c1)), (app kcb c2))))

  (** val free_shadow_pfx : table -> unit m **)

  let free_shadow_pfx t =
    bind (PfxA.tfree_m t) (fun _ -> free ViaCfg ShPfx)

  (** val free_shadow_spki : z -> variant -> spki_table -> unit m **)

  let free_shadow_spki bit0 v kt =
    bind (SpkiA.release_m bit0 v kt) (fun _ -> free ViaCfg ShSpki)

  type prep =
  | Early of sync_out
  | Go of ((nat * nat) * nat) * table option

  (** val sync_prepare_m :
      nat -> n -> bool -> OpsA.tabs -> upd list -> prep m **)

  let sync_prepare_m incr me_p reset main pdus =
    let failed = { so_ok = false; so_main = main; so_pcb = []; so_kcb = [] }
    in
    bind (store_m incr pdus O O O) (fun z0 ->
      let (stored, n0) = z0 in
      if negb stored
      then bind (free_arrays n0) (fun _ -> ret (Early failed))
      else if reset
           then bind (malloc ShPfx) (fun a ->
                  if negb a
                  then bind (free_arrays n0) (fun _ -> ret (Early failed))
                  else bind
                         (PfxA.tcopy_except_m main.OpsA.tp empty_table me_p)
                         (fun zc ->
                         let (tsh, err) = zc in
                         if err
                         then bind (free_shadow_pfx tsh) (fun _ ->
                                bind (free_arrays n0) (fun _ ->
                                  ret (Early failed)))
                         else bind (malloc ShSpki) (fun b ->
                                if negb b
                                then bind (free_shadow_pfx tsh) (fun _ ->
                                       bind (free_arrays n0) (fun _ ->
                                         ret (Early failed)))
                                else ret (Go (n0, (Some tsh))))))
           else ret (Go (n0, None)))

  (** val sync_rest_m :
      (z -> z) -> z -> n -> z -> variant -> OpsA.tabs -> upd list ->
      ((nat * nat) * nat) -> table option -> sync_out m **)

  let sync_rest_m hash bit0 me_p me_k v main pdus n0 shp =
    let reset = match shp with
                | Some _ -> true
                | None -> false in
    let u4 = pfx_updates pdus false in
    let u6 = pfx_updates pdus true in
    let uk = key_updates pdus in
    let drop_shadows = fun shp0 shk ->
      bind (match shp0 with
            | Some t -> free_shadow_pfx t
            | None -> ret ()) (fun _ ->
        match shk with
        | Some kt -> free_shadow_spki bit0 v kt
        | None -> ret ())
    in
    bind
      (match shp with
       | Some _ ->
         bind (SpkiA.init_m v) (fun c ->
           if negb c
           then bind (free ViaCfg ShSpki) (fun _ -> ret (None, false))
           else bind
                  (SpkiA.copy_walk_m hash v main.OpsA.tk.lst me_k
                    (spki_init bit0)) (fun zk ->
                  let (okc, ssh) = zk in ret ((Some ssh), okc)))
       | None -> ret (None, true)) (fun zs ->
      let (shk, ready) = zs in
      if negb ready
      then bind (drop_shadows shp shk) (fun _ ->
             bind (free_arrays n0) (fun _ ->
               ret { so_ok = false; so_main = main; so_pcb = []; so_kcb = [] }))
      else let t0 = match shp with
                    | Some t -> t
                    | None -> main.OpsA.tp in
           let s0 = match shk with
                    | Some kt -> kt
                    | None -> main.OpsA.tk in
           let finish = fun ok t kt pcb kcb purge ->
             let main1 = if reset then main else { OpsA.tp = t; OpsA.tk = kt }
             in
             bind
               (if purge
                then purge_m hash bit0 me_p me_k v main1 pcb kcb
                else ret ((main1, pcb), kcb)) (fun zp ->
               let (p, kcb2) = zp in
               let (main2, pcb2) = p in
               bind
                 (if reset then drop_shadows (Some t) (Some kt) else ret ())
                 (fun _ ->
                 bind (free_arrays n0) (fun _ ->
                   ret { so_ok = ok; so_main = main2; so_pcb = pcb2; so_kcb =
                     kcb2 })))
           in
           bind (apply_pfx_m v reset u4 t0 [] []) (fun z4 ->
             let (p, ok4) = z4 in
             let (p0, c4) = p in
             let (t1, d4) = p0 in
             if negb ok4
             then bind (undo_pfx_m v reset d4 t1 c4) (fun y ->
                    let (p1, fine) = y in
                    let (t2, c) = p1 in finish false t2 s0 c [] (negb fine))
             else bind (apply_pfx_m v reset u6 t1 [] c4) (fun z6 ->
                    let (p1, ok6) = z6 in
                    let (p2, c6) = p1 in
                    let (t3, d6) = p2 in
                    if negb ok6
                    then bind (undo_pfx_m v reset (app d6 d4) t3 c6)
                           (fun y ->
                           let (p3, fine) = y in
                           let (t5, c) = p3 in
                           finish false t5 s0 c [] (negb fine))
                    else bind (apply_key_m hash bit0 v reset uk s0 [] [])
                           (fun zk ->
                           let (p3, okk) = zk in
                           let (p4, ck) = p3 in
                           let (s1, dk) = p4 in
                           if negb okk
                           then bind (undo_key_m hash bit0 v reset dk s1 ck)
                                  (fun yk ->
                                  let (p5, finek) = yk in
                                  let (s2, ck2) = p5 in
                                  if negb finek
                                  then finish false t3 s2 c6 ck2 true
                                  else bind
                                         (undo_pfx_m v reset (app d6 d4) t3
                                           c6) (fun y ->
                                         let (p6, fine) = y in
                                         let (t5, c) = p6 in
                                         finish false t5 s2 c ck2 (negb fine)))
                           else if reset
                                then bind
                                       (PfxA.tnotify_diff_m v t3 main.OpsA.tp
                                         me_p) (fun zd ->
                                       let (pcb, oldT) = zd in
                                       bind
                                         (SpkiA.diff_walk_m hash bit0 s1.lst
                                           me_k main.OpsA.tk) (fun oldS ->
                                         let kcb =
                                           snd
                                             (notify_diff hash bit0 s1
                                               main.OpsA.tk me_k)
                                         in
                                         bind
                                           (drop_shadows (Some oldT) (Some
                                             oldS)) (fun _ ->
                                           bind (free_arrays n0) (fun _ ->
                                             ret { so_ok = true; so_main =
                                               { OpsA.tp = t3; OpsA.tk =
                                               s1 }; so_pcb = pcb; so_kcb =
                                               kcb }))))
                                else finish true t3 s1 c6 ck false))))

  (** val sync_m :
      (z -> z) -> z -> nat -> n -> z -> variant -> bool -> OpsA.tabs -> upd
      list -> sync_out m **)

  let sync_m hash bit0 incr me_p me_k v reset main pdus =
    bind (sync_prepare_m incr me_p reset main pdus) (fun p ->
      match p with
      | Early o -> ret o
      | Go (n0, shp) -> sync_rest_m hash bit0 me_p me_k v main pdus n0 shp)
 end

(** val real_hash : z -> z **)

let real_hash a =
  match tommy_inthash_u32_gen a with
  | Some v -> v
  | None -> Zneg XH

(** val real_hash_defined : z -> bool **)

let real_hash_defined a =
  match tommy_inthash_u32_gen a with
  | Some _ -> true
  | None -> false

(** val real_bit0 : z **)

let real_bit0 =
  c_TOMMY_HASHLIN_BIT

(** val real_incr : nat **)

let real_incr =
  Z.to_nat c_TEMPORARY_PDU_STORE_INCREMENT_VALUE

(** val a_tadd :
    table -> (((bool * addr) * nat) * elem) -> ((table * rc) * cb list) m **)

let a_tadd =
  PfxA.tadd_m

(** val a_tremove :
    variant -> table -> (((bool * addr) * nat) * elem) -> ((table * rc) * cb
    list) m **)

let a_tremove =
  PfxA.tremove_m

(** val a_tsrc_remove :
    variant -> table -> n -> ((table * rc) * cb list) option m **)

let a_tsrc_remove =
  PfxA.tsrc_remove_m

(** val a_tfree : table -> cb list option m **)

let a_tfree =
  PfxA.tfree_m

(** val a_tvalidate :
    variant -> table -> bool -> n -> addr -> nat ->
    (vstate * (((bool * addr) * nat) * elem) list) option m **)

let a_tvalidate =
  PfxA.tvalidate_m

(** val a_tchildren : variant -> trie -> bool m **)

let a_tchildren =
  PfxA.tchildren_m

(** val a_kadd :
    variant -> spki_table -> entry -> ((z * spki_table) * callback list) m **)

let a_kadd =
  SpkiA.add_entry_m real_hash

(** val a_kremove :
    spki_table -> entry -> ((z * spki_table) * callback list) m **)

let a_kremove =
  SpkiA.remove_entry_m real_hash real_bit0

(** val a_ksrc_remove :
    spki_table -> z -> ((z * spki_table) * callback list) m **)

let a_ksrc_remove =
  SpkiA.src_remove_m real_hash real_bit0

(** val a_kget : variant -> spki_table -> z -> z -> entry list option m **)

let a_kget =
  SpkiA.get_all_m real_hash

(** val a_kski : variant -> spki_table -> z -> entry list option m **)

let a_kski =
  SpkiA.search_by_ski_m

(** val a_kfree_init : variant -> spki_table -> (bool * spki_table) m **)

let a_kfree_init =
  SpkiA.free_init_m real_bit0

(** val a_krelease : variant -> spki_table -> unit m **)

let a_krelease =
  SpkiA.release_m real_bit0

(** val a_sync :
    variant -> bool -> OpsA.tabs -> SyncA.upd list -> SyncA.sync_out m **)

let a_sync =
  SyncA.sync_m real_hash real_bit0 real_incr (Npos XH) (Zpos XH)

(** val a_kinit : spki_table **)

let a_kinit =
  spki_init real_bit0

(** val a_kcontents : spki_table -> entry list **)

let a_kcontents =
  contents

(** val a_kcount : spki_table -> z **)

let a_kcount t =
  t.ht.count

(** val a_trecords : table -> (((bool * addr) * nat) * elem) list **)

let a_trecords =
  trecords

(** val a_empty : table **)

let a_empty =
  empty_table

(** val a_t4 : table -> trie **)

let a_t4 t =
  t.t4

(** val a_size : trie -> nat **)

let a_size =
  size

(** val a_arm : nat option -> ast -> ast **)

let a_arm =
  OpsA.arm

(** val a_init_ast : ast **)

let a_init_ast =
  { fail_at = None; ctr = O; live = (HSeg :: (HSeg :: [])); rlog = [];
    corrupt = false }
