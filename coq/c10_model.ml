
(** val negb : bool -> bool **)

let negb = function
| true -> false
| false -> true

type nat =
| O
| S of nat

(** val fst : ('a1 * 'a2) -> 'a1 **)

let fst = function
| (x, _) -> x

(** val snd : ('a1 * 'a2) -> 'a2 **)

let snd = function
| (_, y) -> y

(** val app : 'a1 list -> 'a1 list -> 'a1 list **)

let rec app l m =
  match l with
  | [] -> m
  | a :: l1 -> a :: (app l1 m)

type comparison =
| Eq
| Lt
| Gt

(** val compOpp : comparison -> comparison **)

let compOpp = function
| Eq -> Eq
| Lt -> Gt
| Gt -> Lt

module Coq__1 = struct
 (** val add : nat -> nat -> nat **)
 let rec add n0 m =
   match n0 with
   | O -> m
   | S p -> S (add p m)
end
include Coq__1

type positive =
| XI of positive
| XO of positive
| XH

type n =
| N0
| Npos of positive

type z =
| Z0
| Zpos of positive
| Zneg of positive

module Pos =
 struct
  (** val succ : positive -> positive **)

  let rec succ = function
  | XI p -> XO (succ p)
  | XO p -> XI p
  | XH -> XO XH

  (** val add : positive -> positive -> positive **)

  let rec add x y =
    match x with
    | XI p ->
      (match y with
       | XI q -> XO (add_carry p q)
       | XO q -> XI (add p q)
       | XH -> XO (succ p))
    | XO p ->
      (match y with
       | XI q -> XI (add p q)
       | XO q -> XO (add p q)
       | XH -> XI p)
    | XH -> (match y with
             | XI q -> XO (succ q)
             | XO q -> XI q
             | XH -> XO XH)

  (** val add_carry : positive -> positive -> positive **)

  and add_carry x y =
    match x with
    | XI p ->
      (match y with
       | XI q -> XI (add_carry p q)
       | XO q -> XO (add_carry p q)
       | XH -> XI (succ p))
    | XO p ->
      (match y with
       | XI q -> XO (add_carry p q)
       | XO q -> XI (add p q)
       | XH -> XO (succ p))
    | XH ->
      (match y with
       | XI q -> XI (succ q)
       | XO q -> XO (succ q)
       | XH -> XI XH)

  (** val pred_double : positive -> positive **)

  let rec pred_double = function
  | XI p -> XI (XO p)
  | XO p -> XI (pred_double p)
  | XH -> XH

  (** val pred_N : positive -> n **)

  let pred_N = function
  | XI p -> Npos (XO p)
  | XO p -> Npos (pred_double p)
  | XH -> N0

  (** val mul : positive -> positive -> positive **)

  let rec mul x y =
    match x with
    | XI p -> add y (XO (mul p y))
    | XO p -> XO (mul p y)
    | XH -> y

  (** val iter : ('a1 -> 'a1) -> 'a1 -> positive -> 'a1 **)

  let rec iter f x = function
  | XI n' -> f (iter f (iter f x n') n')
  | XO n' -> iter f (iter f x n') n'
  | XH -> f x

  (** val div2 : positive -> positive **)

  let div2 = function
  | XI p0 -> p0
  | XO p0 -> p0
  | XH -> XH

  (** val div2_up : positive -> positive **)

  let div2_up = function
  | XI p0 -> succ p0
  | XO p0 -> p0
  | XH -> XH

  (** val compare_cont : comparison -> positive -> positive -> comparison **)

  let rec compare_cont r x y =
    match x with
    | XI p ->
      (match y with
       | XI q -> compare_cont r p q
       | XO q -> compare_cont Gt p q
       | XH -> Gt)
    | XO p ->
      (match y with
       | XI q -> compare_cont Lt p q
       | XO q -> compare_cont r p q
       | XH -> Gt)
    | XH -> (match y with
             | XH -> r
             | _ -> Lt)

  (** val compare : positive -> positive -> comparison **)

  let compare =
    compare_cont Eq

  (** val eqb : positive -> positive -> bool **)

  let rec eqb p q =
    match p with
    | XI p0 -> (match q with
                | XI q0 -> eqb p0 q0
                | _ -> false)
    | XO p0 -> (match q with
                | XO q0 -> eqb p0 q0
                | _ -> false)
    | XH -> (match q with
             | XH -> true
             | _ -> false)

  (** val coq_Nsucc_double : n -> n **)

  let coq_Nsucc_double = function
  | N0 -> Npos XH
  | Npos p -> Npos (XI p)

  (** val coq_Ndouble : n -> n **)

  let coq_Ndouble = function
  | N0 -> N0
  | Npos p -> Npos (XO p)

  (** val coq_lor : positive -> positive -> positive **)

  let rec coq_lor p q =
    match p with
    | XI p0 ->
      (match q with
       | XI q0 -> XI (coq_lor p0 q0)
       | XO q0 -> XI (coq_lor p0 q0)
       | XH -> p)
    | XO p0 ->
      (match q with
       | XI q0 -> XI (coq_lor p0 q0)
       | XO q0 -> XO (coq_lor p0 q0)
       | XH -> XI p0)
    | XH -> (match q with
             | XO q0 -> XI q0
             | _ -> q)

  (** val coq_land : positive -> positive -> n **)

  let rec coq_land p q =
    match p with
    | XI p0 ->
      (match q with
       | XI q0 -> coq_Nsucc_double (coq_land p0 q0)
       | XO q0 -> coq_Ndouble (coq_land p0 q0)
       | XH -> Npos XH)
    | XO p0 ->
      (match q with
       | XI q0 -> coq_Ndouble (coq_land p0 q0)
       | XO q0 -> coq_Ndouble (coq_land p0 q0)
       | XH -> N0)
    | XH -> (match q with
             | XO _ -> N0
             | _ -> Npos XH)

  (** val ldiff : positive -> positive -> n **)

  let rec ldiff p q =
    match p with
    | XI p0 ->
      (match q with
       | XI q0 -> coq_Ndouble (ldiff p0 q0)
       | XO q0 -> coq_Nsucc_double (ldiff p0 q0)
       | XH -> Npos (XO p0))
    | XO p0 ->
      (match q with
       | XI q0 -> coq_Ndouble (ldiff p0 q0)
       | XO q0 -> coq_Ndouble (ldiff p0 q0)
       | XH -> Npos p)
    | XH -> (match q with
             | XO _ -> Npos XH
             | _ -> N0)

  (** val coq_lxor : positive -> positive -> n **)

  let rec coq_lxor p q =
    match p with
    | XI p0 ->
      (match q with
       | XI q0 -> coq_Ndouble (coq_lxor p0 q0)
       | XO q0 -> coq_Nsucc_double (coq_lxor p0 q0)
       | XH -> Npos (XO p0))
    | XO p0 ->
      (match q with
       | XI q0 -> coq_Nsucc_double (coq_lxor p0 q0)
       | XO q0 -> coq_Ndouble (coq_lxor p0 q0)
       | XH -> Npos (XI p0))
    | XH ->
      (match q with
       | XI q0 -> Npos (XO q0)
       | XO q0 -> Npos (XI q0)
       | XH -> N0)

  (** val iter_op : ('a1 -> 'a1 -> 'a1) -> positive -> 'a1 -> 'a1 **)

  let rec iter_op op p a =
    match p with
    | XI p0 -> op a (iter_op op p0 (op a a))
    | XO p0 -> iter_op op p0 (op a a)
    | XH -> a

  (** val to_nat : positive -> nat **)

  let to_nat x =
    iter_op Coq__1.add x (S O)
 end

module N =
 struct
  (** val succ_pos : n -> positive **)

  let succ_pos = function
  | N0 -> XH
  | Npos p -> Pos.succ p

  (** val coq_lor : n -> n -> n **)

  let coq_lor n0 m =
    match n0 with
    | N0 -> m
    | Npos p -> (match m with
                 | N0 -> n0
                 | Npos q -> Npos (Pos.coq_lor p q))

  (** val ldiff : n -> n -> n **)

  let ldiff n0 m =
    match n0 with
    | N0 -> N0
    | Npos p -> (match m with
                 | N0 -> n0
                 | Npos q -> Pos.ldiff p q)

  (** val coq_lxor : n -> n -> n **)

  let coq_lxor n0 m =
    match n0 with
    | N0 -> m
    | Npos p -> (match m with
                 | N0 -> n0
                 | Npos q -> Pos.coq_lxor p q)
 end

module Z =
 struct
  (** val double : z -> z **)

  let double = function
  | Z0 -> Z0
  | Zpos p -> Zpos (XO p)
  | Zneg p -> Zneg (XO p)

  (** val succ_double : z -> z **)

  let succ_double = function
  | Z0 -> Zpos XH
  | Zpos p -> Zpos (XI p)
  | Zneg p -> Zneg (Pos.pred_double p)

  (** val pred_double : z -> z **)

  let pred_double = function
  | Z0 -> Zneg XH
  | Zpos p -> Zpos (Pos.pred_double p)
  | Zneg p -> Zneg (XI p)

  (** val pos_sub : positive -> positive -> z **)

  let rec pos_sub x y =
    match x with
    | XI p ->
      (match y with
       | XI q -> double (pos_sub p q)
       | XO q -> succ_double (pos_sub p q)
       | XH -> Zpos (XO p))
    | XO p ->
      (match y with
       | XI q -> pred_double (pos_sub p q)
       | XO q -> double (pos_sub p q)
       | XH -> Zpos (Pos.pred_double p))
    | XH ->
      (match y with
       | XI q -> Zneg (XO q)
       | XO q -> Zneg (Pos.pred_double q)
       | XH -> Z0)

  (** val add : z -> z -> z **)

  let add x y =
    match x with
    | Z0 -> y
    | Zpos x' ->
      (match y with
       | Z0 -> x
       | Zpos y' -> Zpos (Pos.add x' y')
       | Zneg y' -> pos_sub x' y')
    | Zneg x' ->
      (match y with
       | Z0 -> x
       | Zpos y' -> pos_sub y' x'
       | Zneg y' -> Zneg (Pos.add x' y'))

  (** val opp : z -> z **)

  let opp = function
  | Z0 -> Z0
  | Zpos x0 -> Zneg x0
  | Zneg x0 -> Zpos x0

  (** val sub : z -> z -> z **)

  let sub m n0 =
    add m (opp n0)

  (** val mul : z -> z -> z **)

  let mul x y =
    match x with
    | Z0 -> Z0
    | Zpos x' ->
      (match y with
       | Z0 -> Z0
       | Zpos y' -> Zpos (Pos.mul x' y')
       | Zneg y' -> Zneg (Pos.mul x' y'))
    | Zneg x' ->
      (match y with
       | Z0 -> Z0
       | Zpos y' -> Zneg (Pos.mul x' y')
       | Zneg y' -> Zpos (Pos.mul x' y'))

  (** val pow_pos : z -> positive -> z **)

  let pow_pos z0 =
    Pos.iter (mul z0) (Zpos XH)

  (** val pow : z -> z -> z **)

  let pow x = function
  | Z0 -> Zpos XH
  | Zpos p -> pow_pos x p
  | Zneg _ -> Z0

  (** val compare : z -> z -> comparison **)

  let compare x y =
    match x with
    | Z0 -> (match y with
             | Z0 -> Eq
             | Zpos _ -> Lt
             | Zneg _ -> Gt)
    | Zpos x' -> (match y with
                  | Zpos y' -> Pos.compare x' y'
                  | _ -> Gt)
    | Zneg x' ->
      (match y with
       | Zneg y' -> compOpp (Pos.compare x' y')
       | _ -> Lt)

  (** val leb : z -> z -> bool **)

  let leb x y =
    match compare x y with
    | Gt -> false
    | _ -> true

  (** val ltb : z -> z -> bool **)

  let ltb x y =
    match compare x y with
    | Lt -> true
    | _ -> false

  (** val eqb : z -> z -> bool **)

  let eqb x y =
    match x with
    | Z0 -> (match y with
             | Z0 -> true
             | _ -> false)
    | Zpos p -> (match y with
                 | Zpos q -> Pos.eqb p q
                 | _ -> false)
    | Zneg p -> (match y with
                 | Zneg q -> Pos.eqb p q
                 | _ -> false)

  (** val to_nat : z -> nat **)

  let to_nat = function
  | Zpos p -> Pos.to_nat p
  | _ -> O

  (** val of_N : n -> z **)

  let of_N = function
  | N0 -> Z0
  | Npos p -> Zpos p

  (** val pos_div_eucl : positive -> z -> z * z **)

  let rec pos_div_eucl a b =
    match a with
    | XI a' ->
      let (q, r) = pos_div_eucl a' b in
      let r' = add (mul (Zpos (XO XH)) r) (Zpos XH) in
      if ltb r' b
      then ((mul (Zpos (XO XH)) q), r')
      else ((add (mul (Zpos (XO XH)) q) (Zpos XH)), (sub r' b))
    | XO a' ->
      let (q, r) = pos_div_eucl a' b in
      let r' = mul (Zpos (XO XH)) r in
      if ltb r' b
      then ((mul (Zpos (XO XH)) q), r')
      else ((add (mul (Zpos (XO XH)) q) (Zpos XH)), (sub r' b))
    | XH -> if leb (Zpos (XO XH)) b then (Z0, (Zpos XH)) else ((Zpos XH), Z0)

  (** val div_eucl : z -> z -> z * z **)

  let div_eucl a b =
    match a with
    | Z0 -> (Z0, Z0)
    | Zpos a' ->
      (match b with
       | Z0 -> (Z0, a)
       | Zpos _ -> pos_div_eucl a' b
       | Zneg b' ->
         let (q, r) = pos_div_eucl a' (Zpos b') in
         (match r with
          | Z0 -> ((opp q), Z0)
          | _ -> ((opp (add q (Zpos XH))), (add b r))))
    | Zneg a' ->
      (match b with
       | Z0 -> (Z0, a)
       | Zpos _ ->
         let (q, r) = pos_div_eucl a' b in
         (match r with
          | Z0 -> ((opp q), Z0)
          | _ -> ((opp (add q (Zpos XH))), (sub b r)))
       | Zneg b' -> let (q, r) = pos_div_eucl a' (Zpos b') in (q, (opp r)))

  (** val div : z -> z -> z **)

  let div a b =
    let (q, _) = div_eucl a b in q

  (** val modulo : z -> z -> z **)

  let modulo a b =
    let (_, r) = div_eucl a b in r

  (** val div2 : z -> z **)

  let div2 = function
  | Z0 -> Z0
  | Zpos p -> (match p with
               | XH -> Z0
               | _ -> Zpos (Pos.div2 p))
  | Zneg p -> Zneg (Pos.div2_up p)

  (** val shiftl : z -> z -> z **)

  let shiftl a = function
  | Z0 -> a
  | Zpos p -> Pos.iter (mul (Zpos (XO XH))) a p
  | Zneg p -> Pos.iter div2 a p

  (** val shiftr : z -> z -> z **)

  let shiftr a n0 =
    shiftl a (opp n0)

  (** val coq_land : z -> z -> z **)

  let coq_land a b =
    match a with
    | Z0 -> Z0
    | Zpos a0 ->
      (match b with
       | Z0 -> Z0
       | Zpos b0 -> of_N (Pos.coq_land a0 b0)
       | Zneg b0 -> of_N (N.ldiff (Npos a0) (Pos.pred_N b0)))
    | Zneg a0 ->
      (match b with
       | Z0 -> Z0
       | Zpos b0 -> of_N (N.ldiff (Npos b0) (Pos.pred_N a0))
       | Zneg b0 ->
         Zneg (N.succ_pos (N.coq_lor (Pos.pred_N a0) (Pos.pred_N b0))))

  (** val coq_lxor : z -> z -> z **)

  let coq_lxor a b =
    match a with
    | Z0 -> b
    | Zpos a0 ->
      (match b with
       | Z0 -> a
       | Zpos b0 -> of_N (Pos.coq_lxor a0 b0)
       | Zneg b0 -> Zneg (N.succ_pos (N.coq_lxor (Npos a0) (Pos.pred_N b0))))
    | Zneg a0 ->
      (match b with
       | Z0 -> a
       | Zpos b0 -> Zneg (N.succ_pos (N.coq_lxor (Pos.pred_N a0) (Npos b0)))
       | Zneg b0 -> of_N (N.coq_lxor (Pos.pred_N a0) (Pos.pred_N b0)))
 end

(** val nth : nat -> 'a1 list -> 'a1 -> 'a1 **)

let rec nth n0 l default =
  match n0 with
  | O -> (match l with
          | [] -> default
          | x :: _ -> x)
  | S m -> (match l with
            | [] -> default
            | _ :: t -> nth m t default)

(** val map : ('a1 -> 'a2) -> 'a1 list -> 'a2 list **)

let rec map f = function
| [] -> []
| a :: t -> (f a) :: (map f t)

(** val filter : ('a1 -> bool) -> 'a1 list -> 'a1 list **)

let rec filter f = function
| [] -> []
| x :: l0 -> if f x then x :: (filter f l0) else filter f l0

(** val find : ('a1 -> bool) -> 'a1 list -> 'a1 option **)

let rec find f = function
| [] -> None
| x :: tl -> if f x then Some x else find f tl

(** val firstn : nat -> 'a1 list -> 'a1 list **)

let rec firstn n0 l =
  match n0 with
  | O -> []
  | S n1 -> (match l with
             | [] -> []
             | a :: l0 -> a :: (firstn n1 l0))

(** val repeat : 'a1 -> nat -> 'a1 list **)

let rec repeat x = function
| O -> []
| S k -> x :: (repeat x k)

(** val wrapu : z -> z -> z **)

let wrapu bits v =
  Z.modulo v (Z.pow (Zpos (XO XH)) bits)

(** val shift_ok : z -> z -> bool **)

let shift_ok width cnt =
  (&&) (Z.leb Z0 cnt) (Z.ltb cnt width)

(** val guard : bool -> 'a1 option -> 'a1 option **)

let guard ok k =
  if ok then k else None

(** val c_SPKI_SUCCESS : z **)

let c_SPKI_SUCCESS =
  Z0

(** val c_SPKI_ERROR : z **)

let c_SPKI_ERROR =
  Zneg XH

(** val c_SPKI_DUPLICATE_RECORD : z **)

let c_SPKI_DUPLICATE_RECORD =
  Zneg (XO XH)

(** val c_SPKI_RECORD_NOT_FOUND : z **)

let c_SPKI_RECORD_NOT_FOUND =
  Zneg (XI XH)

(** val c_TOMMY_HASHLIN_BIT : z **)

let c_TOMMY_HASHLIN_BIT =
  Zpos (XO (XI XH))

(** val tommy_inthash_u32_gen : z -> z option **)

let tommy_inthash_u32_gen v_key =
  guard (shift_ok (Zpos (XO (XO (XO (XO (XO XH)))))) (Zpos (XO (XI XH))))
    (let v_key0 =
       wrapu (Zpos (XO (XO (XO (XO (XO XH))))))
         (wrapu (Zpos (XO (XO (XO (XO (XO XH))))))
           (Z.sub v_key
             (wrapu (Zpos (XO (XO (XO (XO (XO XH))))))
               (Z.shiftl v_key (Zpos (XO (XI XH)))))))
     in
     guard
       (shift_ok (Zpos (XO (XO (XO (XO (XO XH)))))) (Zpos (XI (XO (XO (XO
         XH))))))
       (let v_key1 =
          wrapu (Zpos (XO (XO (XO (XO (XO XH))))))
            (Z.coq_lxor v_key0
              (Z.shiftr v_key0 (Zpos (XI (XO (XO (XO XH)))))))
        in
        guard
          (shift_ok (Zpos (XO (XO (XO (XO (XO XH)))))) (Zpos (XI (XO (XO
            XH)))))
          (let v_key2 =
             wrapu (Zpos (XO (XO (XO (XO (XO XH))))))
               (wrapu (Zpos (XO (XO (XO (XO (XO XH))))))
                 (Z.sub v_key1
                   (wrapu (Zpos (XO (XO (XO (XO (XO XH))))))
                     (Z.shiftl v_key1 (Zpos (XI (XO (XO XH))))))))
           in
           guard
             (shift_ok (Zpos (XO (XO (XO (XO (XO XH)))))) (Zpos (XO (XO XH))))
             (let v_key3 =
                wrapu (Zpos (XO (XO (XO (XO (XO XH))))))
                  (Z.coq_lxor v_key2
                    (wrapu (Zpos (XO (XO (XO (XO (XO XH))))))
                      (Z.shiftl v_key2 (Zpos (XO (XO XH))))))
              in
              guard
                (shift_ok (Zpos (XO (XO (XO (XO (XO XH)))))) (Zpos (XI XH)))
                (let v_key4 =
                   wrapu (Zpos (XO (XO (XO (XO (XO XH))))))
                     (wrapu (Zpos (XO (XO (XO (XO (XO XH))))))
                       (Z.sub v_key3
                         (wrapu (Zpos (XO (XO (XO (XO (XO XH))))))
                           (Z.shiftl v_key3 (Zpos (XI XH))))))
                 in
                 guard
                   (shift_ok (Zpos (XO (XO (XO (XO (XO XH)))))) (Zpos (XO (XI
                     (XO XH)))))
                   (let v_key5 =
                      wrapu (Zpos (XO (XO (XO (XO (XO XH))))))
                        (Z.coq_lxor v_key4
                          (wrapu (Zpos (XO (XO (XO (XO (XO XH))))))
                            (Z.shiftl v_key4 (Zpos (XO (XI (XO XH)))))))
                    in
                    guard
                      (shift_ok (Zpos (XO (XO (XO (XO (XO XH)))))) (Zpos (XI
                        (XI (XI XH)))))
                      (let v_key6 =
                         wrapu (Zpos (XO (XO (XO (XO (XO XH))))))
                           (Z.coq_lxor v_key5
                             (Z.shiftr v_key5 (Zpos (XI (XI (XI XH))))))
                       in
                       Some v_key6)))))))

(** val upd : nat -> 'a1 -> 'a1 list -> 'a1 list **)

let rec upd n0 x = function
| [] -> []
| y :: r -> (match n0 with
             | O -> x :: r
             | S m -> y :: (upd m x r))

(** val remove_first : ('a1 -> bool) -> 'a1 list -> 'a1 list **)

let rec remove_first f = function
| [] -> []
| x :: r -> if f x then r else x :: (remove_first f r)

(** val sT_STABLE : z **)

let sT_STABLE =
  Z0

(** val sT_GROW : z **)

let sT_GROW =
  Zpos XH

(** val sT_SHRINK : z **)

let sT_SHRINK =
  Zpos (XO XH)

type 'a node = z * 'a

type 'a hashlin = { bucket_bit : z; bucket_max : z; bucket_mask : z;
                    low_max : z; low_mask : z; split : z; count : z;
                    state : z; buckets : 'a node list list }

(** val set_buckets :
    'a1 hashlin -> 'a1 node list list -> z -> 'a1 hashlin **)

let set_buckets h bs c =
  { bucket_bit = h.bucket_bit; bucket_max = h.bucket_max; bucket_mask =
    h.bucket_mask; low_max = h.low_max; low_mask = h.low_mask; split =
    h.split; count = c; state = h.state; buckets = bs }

(** val set_state : 'a1 hashlin -> z -> 'a1 hashlin **)

let set_state h s =
  { bucket_bit = h.bucket_bit; bucket_max = h.bucket_max; bucket_mask =
    h.bucket_mask; low_max = h.low_max; low_mask = h.low_mask; split =
    h.split; count = h.count; state = s; buckets = h.buckets }

(** val set_stable : 'a1 hashlin -> 'a1 hashlin **)

let set_stable h =
  { bucket_bit = h.bucket_bit; bucket_max = h.bucket_max; bucket_mask =
    h.bucket_mask; low_max = h.bucket_max; low_mask = h.bucket_mask; split =
    Z0; count = h.count; state = sT_STABLE; buckets = h.buckets }

(** val hl_init : z -> 'a1 hashlin **)

let hl_init bit0 =
  let bm = Z.pow (Zpos (XO XH)) bit0 in
  { bucket_bit = bit0; bucket_max = bm; bucket_mask = (Z.sub bm (Zpos XH));
  low_max = bm; low_mask = (Z.sub bm (Zpos XH)); split = Z0; count = Z0;
  state = sT_STABLE; buckets = (repeat [] (Z.to_nat bm)) }

(** val get_bucket : 'a1 hashlin -> z -> 'a1 node list **)

let get_bucket h pos =
  nth (Z.to_nat pos) h.buckets []

(** val bucket_pos : 'a1 hashlin -> z -> z **)

let bucket_pos h hash =
  let pos = Z.coq_land hash h.low_mask in
  let high_pos = Z.coq_land hash h.bucket_mask in
  if Z.ltb pos h.split then high_pos else pos

(** val hl_bucket : 'a1 hashlin -> z -> 'a1 node list **)

let hl_bucket h hash =
  get_bucket h (bucket_pos h hash)

(** val hl_search : 'a1 hashlin -> ('a1 -> bool) -> z -> 'a1 node option **)

let hl_search h cmp hash =
  find (fun n0 -> (&&) (Z.eqb (fst n0) hash) (cmp (snd n0)))
    (hl_bucket h hash)

(** val split_one : 'a1 hashlin -> 'a1 hashlin **)

let split_one h =
  let j = get_bucket h h.split in
  let mask = h.low_max in
  let lo = filter (fun n0 -> Z.eqb (Z.coq_land (fst n0) mask) Z0) j in
  let hi = filter (fun n0 -> negb (Z.eqb (Z.coq_land (fst n0) mask) Z0)) j in
  { bucket_bit = h.bucket_bit; bucket_max = h.bucket_max; bucket_mask =
  h.bucket_mask; low_max = h.low_max; low_mask = h.low_mask; split =
  (Z.add h.split (Zpos XH)); count = h.count; state = h.state; buckets =
  (app (upd (Z.to_nat h.split) lo h.buckets) (hi :: [])) }

(** val grow_loop : nat -> z -> 'a1 hashlin -> 'a1 hashlin **)

let rec grow_loop fuel target h =
  match fuel with
  | O -> h
  | S f ->
    if Z.ltb (Z.add h.split h.low_max) target
    then let h1 = split_one h in
         if Z.eqb h1.split h1.low_max
         then set_stable h1
         else grow_loop f target h1
    else h

(** val grow_setup : 'a1 hashlin -> 'a1 hashlin **)

let grow_setup h =
  if (&&) (negb (Z.eqb h.state sT_GROW))
       (Z.ltb (Z.div h.bucket_max (Zpos (XO XH))) h.count)
  then let h1 =
         if Z.eqb h.state sT_STABLE
         then { bucket_bit = (Z.add h.bucket_bit (Zpos XH)); bucket_max =
                (Z.pow (Zpos (XO XH)) (Z.add h.bucket_bit (Zpos XH)));
                bucket_mask =
                (Z.sub (Z.pow (Zpos (XO XH)) (Z.add h.bucket_bit (Zpos XH)))
                  (Zpos XH)); low_max = h.bucket_max; low_mask =
                h.bucket_mask; split = Z0; count = h.count; state = h.state;
                buckets = h.buckets }
         else h
       in
       set_state h1 sT_GROW
  else h

(** val grow_step : 'a1 hashlin -> 'a1 hashlin **)

let grow_step h =
  let h1 = grow_setup h in
  if Z.eqb h1.state sT_GROW
  then grow_loop (Z.to_nat h1.low_max) (Z.mul (Zpos (XO XH)) h1.count) h1
  else h1

(** val merge_one : 'a1 hashlin -> 'a1 hashlin **)

let merge_one h =
  let s = Z.sub h.split (Zpos XH) in
  let lo = get_bucket h s in
  let hi = get_bucket h (Z.add s h.low_max) in
  { bucket_bit = h.bucket_bit; bucket_max = h.bucket_max; bucket_mask =
  h.bucket_mask; low_max = h.low_max; low_mask = h.low_mask; split = s;
  count = h.count; state = h.state; buckets =
  (upd (Z.to_nat s) (app lo hi)
    (firstn (Z.to_nat (Z.add s h.low_max)) h.buckets)) }

(** val shrink_finish : 'a1 hashlin -> 'a1 hashlin **)

let shrink_finish h =
  let bb = Z.sub h.bucket_bit (Zpos XH) in
  set_stable { bucket_bit = bb; bucket_max = (Z.pow (Zpos (XO XH)) bb);
    bucket_mask = (Z.sub (Z.pow (Zpos (XO XH)) bb) (Zpos XH)); low_max =
    h.low_max; low_mask = h.low_mask; split = h.split; count = h.count;
    state = h.state; buckets = h.buckets }

(** val shrink_loop : nat -> z -> 'a1 hashlin -> 'a1 hashlin **)

let rec shrink_loop fuel target h =
  match fuel with
  | O -> h
  | S f ->
    if Z.ltb target (Z.add h.split h.low_max)
    then let h1 = merge_one h in
         if Z.eqb h1.split Z0
         then shrink_finish h1
         else shrink_loop f target h1
    else h

(** val shrink_setup : z -> 'a1 hashlin -> 'a1 hashlin **)

let shrink_setup bit0 h =
  if (&&) (negb (Z.eqb h.state sT_SHRINK))
       (Z.ltb h.count (Z.div h.bucket_max (Zpos (XO (XO (XO XH))))))
  then if Z.ltb bit0 h.bucket_bit
       then let h1 =
              if Z.eqb h.state sT_STABLE
              then { bucket_bit = h.bucket_bit; bucket_max = h.bucket_max;
                     bucket_mask = h.bucket_mask; low_max =
                     (Z.div h.bucket_max (Zpos (XO XH))); low_mask =
                     (Z.div h.bucket_mask (Zpos (XO XH))); split =
                     (Z.div h.bucket_max (Zpos (XO XH))); count = h.count;
                     state = h.state; buckets = h.buckets }
              else h
            in
            set_state h1 sT_SHRINK
       else h
  else h

(** val shrink_step : z -> 'a1 hashlin -> 'a1 hashlin **)

let shrink_step bit0 h =
  let h1 = shrink_setup bit0 h in
  if Z.eqb h1.state sT_SHRINK
  then shrink_loop (Z.to_nat h1.low_max)
         (Z.mul (Zpos (XO (XO (XO XH)))) h1.count) h1
  else h1

(** val hl_insert : 'a1 hashlin -> z -> 'a1 -> 'a1 hashlin **)

let hl_insert h hash data =
  let pos = bucket_pos h hash in
  grow_step
    (set_buckets h
      (upd (Z.to_nat pos) (app (get_bucket h pos) ((hash, data) :: []))
        h.buckets) (Z.add h.count (Zpos XH)))

(** val hl_remove_first :
    z -> 'a1 hashlin -> z -> ('a1 node -> bool) -> 'a1 hashlin * 'a1 node
    option **)

let hl_remove_first bit0 h hash f =
  let pos = bucket_pos h hash in
  (match find f (get_bucket h pos) with
   | Some n0 ->
     ((shrink_step bit0
        (set_buckets h
          (upd (Z.to_nat pos) (remove_first f (get_bucket h pos)) h.buckets)
          (Z.sub h.count (Zpos XH)))), (Some n0))
   | None -> (h, None))

(** val hl_remove :
    z -> 'a1 hashlin -> ('a1 -> bool) -> z -> 'a1 hashlin * 'a1 node option **)

let hl_remove bit0 h cmp hash =
  hl_remove_first bit0 h hash (fun n0 ->
    (&&) (Z.eqb (fst n0) hash) (cmp (snd n0)))

(** val hl_remove_existing :
    z -> 'a1 hashlin -> ('a1 -> 'a1 -> bool) -> 'a1 node -> 'a1 hashlin * 'a1
    node option **)

let hl_remove_existing bit0 h same n0 =
  hl_remove_first bit0 h (fst n0) (fun m ->
    (&&) (Z.eqb (fst m) (fst n0)) (same (snd n0) (snd m)))

type entry = { e_asn : z; e_ski : z; e_spki : z; e_src : z }

(** val key_entry_cmp : entry -> entry -> bool **)

let key_entry_cmp param e =
  if negb (Z.eqb param.e_asn e.e_asn)
  then false
  else if negb (Z.eqb param.e_ski e.e_ski)
       then false
       else if negb (Z.eqb param.e_spki e.e_spki)
            then false
            else if negb (Z.eqb param.e_src e.e_src) then false else true

type callback = entry * bool

(** val sPKI_SUCCESS : z **)

let sPKI_SUCCESS =
  c_SPKI_SUCCESS

(** val sPKI_ERROR : z **)

let sPKI_ERROR =
  c_SPKI_ERROR

(** val sPKI_DUPLICATE_RECORD : z **)

let sPKI_DUPLICATE_RECORD =
  c_SPKI_DUPLICATE_RECORD

(** val sPKI_RECORD_NOT_FOUND : z **)

let sPKI_RECORD_NOT_FOUND =
  c_SPKI_RECORD_NOT_FOUND

(** val sRC_REMOVE_NOTIFIES : bool **)

let sRC_REMOVE_NOTIFIES =
  true

type spki_table = { ht : entry hashlin; lst : entry list }

(** val spki_init : z -> spki_table **)

let spki_init bit0 =
  { ht = (hl_init bit0); lst = [] }

(** val add_entry :
    (z -> z) -> spki_table -> entry -> (z * spki_table) * callback list **)

let add_entry hash t e =
  let h = hash e.e_asn in
  (match hl_search t.ht (key_entry_cmp e) h with
   | Some _ -> ((sPKI_DUPLICATE_RECORD, t), [])
   | None ->
     ((sPKI_SUCCESS, { ht = (hl_insert t.ht h e); lst =
       (app t.lst (e :: [])) }), ((e, true) :: [])))

(** val get_all : (z -> z) -> spki_table -> z -> z -> entry list **)

let get_all hash t asn ski =
  map snd
    (filter (fun n0 ->
      (&&) (Z.eqb (snd n0).e_asn asn) (Z.eqb (snd n0).e_ski ski))
      (hl_bucket t.ht (hash asn)))

(** val search_by_ski : spki_table -> z -> entry list **)

let search_by_ski t ski =
  filter (fun e -> Z.eqb e.e_ski ski) t.lst

(** val remove_entry :
    (z -> z) -> z -> spki_table -> entry -> (z * spki_table) * callback list **)

let remove_entry hash bit0 t e =
  let h = hash e.e_asn in
  (match hl_search t.ht (key_entry_cmp e) h with
   | Some _ ->
     let (h', o) = hl_remove bit0 t.ht (key_entry_cmp e) h in
     (match o with
      | Some n0 ->
        ((sPKI_SUCCESS, { ht = h'; lst =
          (remove_first (key_entry_cmp (snd n0)) t.lst) }), ((e,
          false) :: []))
      | None -> ((sPKI_ERROR, t), []))
   | None -> ((sPKI_RECORD_NOT_FOUND, t), []))

(** val remove_node : (z -> z) -> z -> spki_table -> entry -> spki_table **)

let remove_node hash bit0 t e =
  { ht =
    (fst (hl_remove_existing bit0 t.ht key_entry_cmp ((hash e.e_asn), e)));
    lst = (remove_first (key_entry_cmp e) t.lst) }

(** val src_remove_walk :
    (z -> z) -> z -> entry list -> z -> spki_table -> spki_table **)

let rec src_remove_walk hash bit0 l s t =
  match l with
  | [] -> t
  | e :: r ->
    if Z.eqb e.e_src s
    then src_remove_walk hash bit0 r s (remove_node hash bit0 t e)
    else src_remove_walk hash bit0 r s t

(** val src_remove_gen :
    (z -> z) -> z -> bool -> spki_table -> z -> (z * spki_table) * callback
    list **)

let src_remove_gen hash bit0 notifies t s =
  ((sPKI_SUCCESS, (src_remove_walk hash bit0 t.lst s t)),
    (if notifies
     then map (fun e -> (e, false)) (filter (fun e -> Z.eqb e.e_src s) t.lst)
     else []))

(** val src_remove :
    (z -> z) -> z -> spki_table -> z -> (z * spki_table) * callback list **)

let src_remove hash bit0 =
  src_remove_gen hash bit0 sRC_REMOVE_NOTIFIES

(** val copy_walk :
    (z -> z) -> entry list -> z -> spki_table -> callback list ->
    (z * spki_table) * callback list **)

let rec copy_walk hash l s dst cbs =
  match l with
  | [] -> ((sPKI_SUCCESS, dst), cbs)
  | e :: r ->
    if negb (Z.eqb e.e_src s)
    then let (p, c) = add_entry hash dst e in
         let (rc, dst') = p in
         if negb (Z.eqb rc sPKI_SUCCESS)
         then ((sPKI_ERROR, dst'), (app cbs c))
         else copy_walk hash r s dst' (app cbs c)
    else copy_walk hash r s dst cbs

(** val copy_except_socket :
    (z -> z) -> spki_table -> spki_table -> z -> (z * spki_table) * callback
    list **)

let copy_except_socket hash src dst s =
  copy_walk hash src.lst s dst []

(** val swap : spki_table -> spki_table -> spki_table * spki_table **)

let swap a b =
  ({ ht = b.ht; lst = b.lst }, { ht = a.ht; lst = a.lst })

(** val diff_walk_new :
    (z -> z) -> z -> entry list -> z -> spki_table -> callback list ->
    spki_table * callback list **)

let rec diff_walk_new hash bit0 l s old cbs =
  match l with
  | [] -> (old, cbs)
  | e :: r ->
    if Z.eqb e.e_src s
    then let (p, _) = remove_entry hash bit0 old e in
         let (rc, old') = p in
         diff_walk_new hash bit0 r s old'
           (if Z.eqb rc sPKI_RECORD_NOT_FOUND
            then app cbs ((e, true) :: [])
            else cbs)
    else diff_walk_new hash bit0 r s old cbs

(** val notify_diff :
    (z -> z) -> z -> spki_table -> spki_table -> z -> spki_table * callback
    list **)

let notify_diff hash bit0 new0 old s =
  let (old', cbs) = diff_walk_new hash bit0 new0.lst s old [] in
  (old',
  (app cbs
    (map (fun e -> (e, false)) (filter (fun e -> Z.eqb e.e_src s) old'.lst))))

(** val free_table : z -> spki_table -> spki_table * callback list **)

let free_table bit0 _ =
  ((spki_init bit0), [])

(** val contents : spki_table -> entry list **)

let contents t =
  t.lst

(** val real_hash : z -> z **)

let real_hash a =
  match tommy_inthash_u32_gen a with
  | Some v -> v
  | None -> Zneg XH

(** val real_hash_defined : z -> bool **)

let real_hash_defined a =
  match tommy_inthash_u32_gen a with
  | Some _ -> true
  | None -> false

(** val real_bit0 : z **)

let real_bit0 =
  c_TOMMY_HASHLIN_BIT

(** val m_init : spki_table **)

let m_init =
  spki_init real_bit0

(** val m_add : spki_table -> entry -> (z * spki_table) * callback list **)

let m_add =
  add_entry real_hash

(** val m_remove : spki_table -> entry -> (z * spki_table) * callback list **)

let m_remove =
  remove_entry real_hash real_bit0

(** val m_src_remove : spki_table -> z -> (z * spki_table) * callback list **)

let m_src_remove =
  src_remove real_hash real_bit0

(** val m_src_remove_gen :
    bool -> spki_table -> z -> (z * spki_table) * callback list **)

let m_src_remove_gen =
  src_remove_gen real_hash real_bit0

(** val m_get_all : spki_table -> z -> z -> entry list **)

let m_get_all =
  get_all real_hash

(** val m_search_by_ski : spki_table -> z -> entry list **)

let m_search_by_ski =
  search_by_ski

(** val m_copy :
    spki_table -> spki_table -> z -> (z * spki_table) * callback list **)

let m_copy =
  copy_except_socket real_hash

(** val m_swap : spki_table -> spki_table -> spki_table * spki_table **)

let m_swap =
  swap

(** val m_notify_diff :
    spki_table -> spki_table -> z -> spki_table * callback list **)

let m_notify_diff =
  notify_diff real_hash real_bit0

(** val m_free : spki_table -> spki_table * callback list **)

let m_free =
  free_table real_bit0

(** val m_contents : spki_table -> entry list **)

let m_contents =
  contents

(** val m_count : spki_table -> z **)

let m_count t =
  t.ht.count

(** val m_shape : spki_table -> ((z * z) * z) * z **)

let m_shape t =
  (((t.ht.bucket_bit, t.ht.low_max), t.ht.split), t.ht.state)

(** val m_src_remove_notifies : bool **)

let m_src_remove_notifies =
  sRC_REMOVE_NOTIFIES

(** val rc_success : z **)

let rc_success =
  sPKI_SUCCESS
