
val negb : bool -> bool

type nat =
| O
| S of nat

type ('a, 'b) sum =
| Inl of 'a
| Inr of 'b

val length : 'a1 list -> nat

val app : 'a1 list -> 'a1 list -> 'a1 list

type comparison =
| Eq
| Lt
| Gt

val compOpp : comparison -> comparison

val add : nat -> nat -> nat

val eqb : bool -> bool -> bool

module Nat :
 sig
  val eqb : nat -> nat -> bool

  val leb : nat -> nat -> bool

  val ltb : nat -> nat -> bool
 end

val nth : nat -> 'a1 list -> 'a1 -> 'a1

val rev : 'a1 list -> 'a1 list

val map : ('a1 -> 'a2) -> 'a1 list -> 'a2 list

val fold_left : ('a1 -> 'a2 -> 'a1) -> 'a2 list -> 'a1 -> 'a1

val existsb : ('a1 -> bool) -> 'a1 list -> bool

val filter : ('a1 -> bool) -> 'a1 list -> 'a1 list

val firstn : nat -> 'a1 list -> 'a1 list

val skipn : nat -> 'a1 list -> 'a1 list

type positive =
| XI of positive
| XO of positive
| XH

type n =
| N0
| Npos of positive

type z =
| Z0
| Zpos of positive
| Zneg of positive

module Pos :
 sig
  val succ : positive -> positive

  val add : positive -> positive -> positive

  val add_carry : positive -> positive -> positive

  val pred_double : positive -> positive

  val pred_N : positive -> n

  val mul : positive -> positive -> positive

  val iter : ('a1 -> 'a1) -> 'a1 -> positive -> 'a1

  val div2 : positive -> positive

  val div2_up : positive -> positive

  val compare_cont : comparison -> positive -> positive -> comparison

  val compare : positive -> positive -> comparison

  val eqb : positive -> positive -> bool

  val coq_Nsucc_double : n -> n

  val coq_Ndouble : n -> n

  val coq_lor : positive -> positive -> positive

  val coq_land : positive -> positive -> n

  val ldiff : positive -> positive -> n

  val testbit : positive -> n -> bool

  val iter_op : ('a1 -> 'a1 -> 'a1) -> positive -> 'a1 -> 'a1

  val to_nat : positive -> nat

  val of_succ_nat : nat -> positive
 end

module N :
 sig
  val succ_pos : n -> positive

  val add : n -> n -> n

  val mul : n -> n -> n

  val eqb : n -> n -> bool

  val coq_lor : n -> n -> n

  val ldiff : n -> n -> n

  val testbit : n -> n -> bool

  val to_nat : n -> nat
 end

module Z :
 sig
  val double : z -> z

  val succ_double : z -> z

  val pred_double : z -> z

  val pos_sub : positive -> positive -> z

  val add : z -> z -> z

  val opp : z -> z

  val sub : z -> z -> z

  val mul : z -> z -> z

  val pow_pos : z -> positive -> z

  val pow : z -> z -> z

  val compare : z -> z -> comparison

  val leb : z -> z -> bool

  val ltb : z -> z -> bool

  val geb : z -> z -> bool

  val gtb : z -> z -> bool

  val eqb : z -> z -> bool

  val max : z -> z -> z

  val min : z -> z -> z

  val to_nat : z -> nat

  val of_nat : nat -> z

  val of_N : n -> z

  val pos_div_eucl : positive -> z -> z * z

  val div_eucl : z -> z -> z * z

  val div : z -> z -> z

  val modulo : z -> z -> z

  val odd : z -> bool

  val div2 : z -> z

  val testbit : z -> z -> bool

  val shiftl : z -> z -> z

  val shiftr : z -> z -> z

  val coq_land : z -> z -> z
 end

type ascii =
| Ascii of bool * bool * bool * bool * bool * bool * bool * bool

val n_of_digits : bool list -> n

val n_of_ascii : ascii -> n

val nat_of_ascii : ascii -> nat

type string =
| EmptyString
| String of ascii * string

type addr = bool list

type elem = { e_asn : n; e_max : nat; e_src : n }

val elem_eqb : elem -> elem -> bool

val addr_eqb : addr -> addr -> bool

type trie =
| Leaf
| Node of addr * nat * elem list * trie * trie

type rc =
| SUCCESS
| ERROR
| DUP
| NOTFOUND

type vstate =
| VALID
| NOT_FOUND
| INVALID

val bit : addr -> nat -> bool

val push : trie -> nat -> addr -> nat -> elem list -> trie

val add0 : trie -> nat -> addr -> nat -> elem -> trie * rc

val pull : trie -> trie

val remove_first : elem -> elem list -> elem list

val remove : trie -> nat -> addr -> nat -> elem -> trie * rc

val size : trie -> nat

val remove_id : nat -> trie -> n -> (trie * ((addr * nat) * elem) list) option

val records : trie -> ((addr * nat) * elem) list

val free_cbs : nat -> trie -> ((addr * nat) * elem) list option

val covers : addr -> nat -> addr -> nat -> bool

val matches : n -> nat -> elem -> bool

val is_leaf : trie -> bool

val val0 :
  trie -> nat -> n -> addr -> nat -> bool -> ((addr * nat) * elem) list ->
  vstate * ((addr * nat) * elem) list

val val_ub : nat -> bool -> bool -> trie -> nat -> n -> addr -> nat -> bool

type table = { t4 : trie; t6 : trie }

val empty_table : table

type cb =
| Added of (((bool * addr) * nat) * elem)
| Removed of (((bool * addr) * nat) * elem)

val width : bool -> nat

val root : table -> bool -> trie

val set_root : table -> bool -> trie -> table

val tag : bool -> ((addr * nat) * elem) -> ((bool * addr) * nat) * elem

val trecords : table -> (((bool * addr) * nat) * elem) list

val tadd : table -> (((bool * addr) * nat) * elem) -> (table * rc) * cb list

val tremove :
  table -> (((bool * addr) * nat) * elem) -> (table * rc) * cb list

val tsrc_remove : table -> n -> (table * cb list) option

val tfree : table -> cb list option

val tvalidate :
  table -> bool -> n -> addr -> nat ->
  vstate * (((bool * addr) * nat) * elem) list

val tvalidate_ub : bool -> bool -> table -> bool -> n -> addr -> nat -> bool

val src_of : (((bool * addr) * nat) * elem) -> n

val tcopy_family :
  table -> (((bool * addr) * nat) * elem) list -> n -> table * bool

val tcopy_except : table -> table -> n -> table * bool

val tswap : table -> table -> table * table

val tnotify_diff : table -> table -> n -> cb list * table

val frec_eqb :
  (((bool * addr) * nat) * elem) -> (((bool * addr) * nat) * elem) -> bool

val sp_mem :
  (((bool * addr) * nat) * elem) -> (((bool * addr) * nat) * elem) list ->
  bool

val sp_add :
  (((bool * addr) * nat) * elem) list -> (((bool * addr) * nat) * elem) ->
  (((bool * addr) * nat) * elem) list * rc

val sp_remove :
  (((bool * addr) * nat) * elem) list -> (((bool * addr) * nat) * elem) ->
  (((bool * addr) * nat) * elem) list * rc

val sp_src_remove :
  (((bool * addr) * nat) * elem) list -> n -> (((bool * addr) * nat) * elem)
  list

val fcovrec : bool -> addr -> nat -> (((bool * addr) * nat) * elem) -> bool

val fmatrec : n -> nat -> (((bool * addr) * nat) * elem) -> bool

val sp_validate :
  (((bool * addr) * nat) * elem) list -> bool -> n -> addr -> nat -> vstate

val replay1 :
  (((bool * addr) * nat) * elem) list option -> cb ->
  (((bool * addr) * nat) * elem) list option

val replay :
  cb list -> (((bool * addr) * nat) * elem) list ->
  (((bool * addr) * nat) * elem) list option

val wrapu : z -> z -> z

val wraps : z -> z -> z

val shift_ok : z -> z -> bool

val notu : z -> z -> z

val obind : 'a1 option -> ('a1 -> 'a2 option) -> 'a2 option

val guard : bool -> 'a1 option -> 'a1 option

val c_RTR_CONNECTING : z

val c_RTR_ESTABLISHED : z

val c_RTR_RESET : z

val c_RTR_SYNC : z

val c_RTR_FAST_RECONNECT : z

val c_RTR_ERROR_NO_DATA_AVAIL : z

val c_RTR_ERROR_NO_INCR_UPDATE_AVAIL : z

val c_RTR_ERROR_FATAL : z

val c_RTR_ERROR_TRANSPORT : z

val c_RTR_SHUTDOWN : z

val c_RTR_CLOSED : z

val c_RTR_INTERVAL_MODE_IGNORE_ANY : z

val c_RTR_INTERVAL_MODE_ACCEPT_ANY : z

val c_RTR_INTERVAL_MODE_DEFAULT_MIN_MAX : z

val c_SERIAL_NOTIFY : z

val c_SERIAL_QUERY : z

val c_RESET_QUERY : z

val c_CACHE_RESPONSE : z

val c_IPV4_PREFIX : z

val c_IPV6_PREFIX : z

val c_EOD : z

val c_CACHE_RESET : z

val c_ROUTER_KEY : z

val c_ERROR : z

val c_CORRUPT_DATA : z

val c_NO_DATA_AVAIL : z

val c_UNSUPPORTED_PROTOCOL_VER : z

val c_WITHDRAWAL_OF_UNKNOWN_RECORD : z

val c_DUPLICATE_ANNOUNCEMENT : z

val c_UNEXPECTED_PROTOCOL_VERSION : z

val c_RTR_EXPIRATION_MAX : z

val c_RTR_EXPIRATION_MIN : z

val c_RTR_MAX_PDU_LEN : z

val c_RTR_PROTOCOL_MAX_SUPPORTED_VERSION : z

val c_RTR_PROTOCOL_MIN_SUPPORTED_VERSION : z

val c_RTR_RECV_TIMEOUT : z

val c_RTR_REFRESH_MAX : z

val c_RTR_REFRESH_MIN : z

val c_RTR_RETRY_MAX : z

val c_RTR_RETRY_MIN : z

val sizeof_pdu_cache_response : z

val sizeof_pdu_end_of_data_v0 : z

val sizeof_pdu_end_of_data_v1 : z

val sizeof_pdu_header : z

val sizeof_pdu_ipv4 : z

val sizeof_pdu_ipv6 : z

val sizeof_pdu_reset_query : z

val sizeof_pdu_router_key : z

val sizeof_pdu_serial_notify : z

val sizeof_pdu_serial_query : z

val lrtr_get_bits_gen : z -> z -> z -> z option

val hz_zero_code : bool

type byte = z

val be16 : byte -> byte -> z

val be32 : byte -> byte -> byte -> byte -> z

val enc16 : z -> byte list

val enc32 : z -> byte list

val nthb : byte list -> nat -> byte

val get16 : byte list -> nat -> z

val get32 : byte list -> nat -> z

val zlen : 'a1 list -> z

val bits_of_bytes : byte list -> bool list

val list_eqb : ('a1 -> 'a1 -> bool) -> 'a1 list -> 'a1 list -> bool

val prec_eqb :
  (((((bool * bool list) * z) * z) * z) * z) -> (((((bool * bool
  list) * z) * z) * z) * z) -> bool

val krec_eqb :
  (((z * byte list) * byte list) * z) -> (((z * byte list) * byte list) * z)
  -> bool

val psrc : (((((bool * bool list) * z) * z) * z) * z) -> z

val ksrc : (((z * byte list) * byte list) * z) -> z

type ev =
| EvData of byte list
| EvErr of z
| EvWait of z
| EvStop

type titem =
| TOpen of bool * z
| TClose
| TSend of byte list
| TSendFail of z
| TRecvN of z * z
| TRecvWB of z * z
| TRecvErr of z * z
| TRecvStop of z
| TSleep of z
| TState of z
| TPfx of bool * (((((bool * bool list) * z) * z) * z) * z)
| TKey of bool * (((z * byte list) * byte list) * z)
| TEnd of z
| TStopping
| TDump of z * z list * (((((bool * bool list) * z) * z) * z) * z) list
   * (((z * byte list) * byte list) * z) list

type sock = { st : z; version : z; session_id : z; req_sess : bool;
              serial : z; last_update : z; refresh_iv : z; expire_iv : 
              z; retry_iv : z; iv_mode : z; has_recv : bool; resetting : 
              bool }

type world = { sk : sock;
               pfx : (((((bool * bool list) * z) * z) * z) * z) list;
               keys : (((z * byte list) * byte list) * z) list;
               evs : ev list; opens : bool list; sends : z list; now : 
               z; out : titem list }

type exc =
| XEnd of z
| XStop

type 'a res =
| Ok of 'a * world
| Exc of exc * world

val bind : (world -> 'a1 res) -> ('a1 -> world -> 'a2 res) -> world -> 'a2 res

val ret : 'a1 -> world -> 'a1 res

val emit : titem -> world -> unit res

val get_sk : world -> sock res

val set_sk : sock -> world -> unit res

val get_now : world -> z res

val get_w : world -> world res

val set_tables :
  (((((bool * bool list) * z) * z) * z) * z) list -> (((z * byte list) * byte
  list) * z) list -> world -> unit res

val upd_st : sock -> z -> sock

val upd_version : sock -> z -> sock

val upd_session : sock -> z -> sock

val upd_req : sock -> bool -> sock

val upd_serial : sock -> z -> sock

val upd_last : sock -> z -> sock

val upd_ivs : sock -> z -> z -> z -> sock

val upd_hasrecv : sock -> bool -> sock

val upd_resetting : sock -> bool -> sock

val modify_sk : (sock -> sock) -> world -> unit res

val change_state : z -> world -> unit res

val tr_recv_evs :
  ev list -> z -> z -> z -> z -> (((z, byte list) sum option * ev
  list) * z) * titem list

val tr_recv : z -> z -> world -> (z, byte list) sum res

val tr_recv_all_loop :
  nat -> z -> z -> byte list -> world -> (z, byte list) sum res

val tr_recv_all : z -> z -> world -> (z, byte list) sum res

val tr_send : byte list -> world -> z res

val tr_send_all_loop : nat -> byte list -> z -> world -> z res

val tr_send_all : byte list -> world -> z res

val tr_open : world -> bool res

val tr_close : world -> unit res

val do_sleep : z -> world -> unit res

val send_pdu : byte list -> world -> z res

val str_bytes : string -> byte list

val send_error_pdu : byte list -> z -> byte list -> world -> z res

val send_error_from_host : byte list -> z -> byte list -> world -> z res

val send_serial_query : world -> z res

val send_reset_query : world -> z res

val check_size : byte list -> bool

val txt_too_small : byte list

val txt_too_big : byte list

val recv_err : z -> world -> (z, byte list) sum res

val receive_pdu : z -> world -> (z, byte list) sum res

val handle_error_pdu : byte list -> world -> unit res

val iv_range : z -> z -> z -> z

val iv_apply : z -> z -> z -> z -> z -> z

val apply_eod_intervals : sock -> byte list -> sock

val pmem :
  (((((bool * bool list) * z) * z) * z) * z) -> (((((bool * bool
  list) * z) * z) * z) * z) list -> bool

val kmem :
  (((z * byte list) * byte list) * z) -> (((z * byte list) * byte list) * z)
  list -> bool

val prem :
  (((((bool * bool list) * z) * z) * z) * z) -> (((((bool * bool
  list) * z) * z) * z) * z) list -> (((((bool * bool
  list) * z) * z) * z) * z) list

val krem :
  (((z * byte list) * byte list) * z) -> (((z * byte list) * byte list) * z)
  list -> (((z * byte list) * byte list) * z) list

val prec_of_pdu : byte list -> ((((bool * bool list) * z) * z) * z) * z

val krec_of_pdu : byte list -> ((z * byte list) * byte list) * z

val upd_pfx :
  bool -> z -> (((((bool * bool list) * z) * z) * z) * z) -> (((((bool * bool
  list) * z) * z) * z) * z) list -> ((((((bool * bool
  list) * z) * z) * z) * z) list * z) * titem list

val upd_key :
  bool -> z -> (((z * byte list) * byte list) * z) -> (((z * byte
  list) * byte list) * z) list -> ((((z * byte list) * byte list) * z)
  list * z) * titem list

val pdu_flags : byte list -> z

val txt_pfx_flags : byte list

val txt_key_flags : byte list

val report_update_failure : byte list -> z -> bool -> world -> unit res

val emit_all : titem list -> world -> unit res

val apply_pfx :
  bool -> byte list list -> (((((bool * bool list) * z) * z) * z) * z) list
  -> byte list list -> ((((((bool * bool list) * z) * z) * z) * z)
  list * titem list) * ((byte list * z) * byte list list) option

val apply_keys :
  bool -> byte list list -> (((z * byte list) * byte list) * z) list -> byte
  list list -> ((((z * byte list) * byte list) * z) list * titem
  list) * ((byte list * z) * byte list list) option

val undo_pfx :
  bool -> byte list list -> (((((bool * bool list) * z) * z) * z) * z) list
  -> ((((((bool * bool list) * z) * z) * z) * z) list * titem list) * bool

val undo_keys :
  bool -> byte list list -> (((z * byte list) * byte list) * z) list ->
  ((((z * byte list) * byte list) * z) list * titem list) * bool

val spki_src_remove_notifies : bool

val src_remove_all : world -> unit res

val dec_digits : nat -> z -> byte list -> byte list

val dec : z -> byte list

val txt_eod_session : z -> z -> byte list

val purge_after_failed_undo : world -> unit res

val process_eod :
  byte list -> byte list list -> byte list list -> byte list list -> world ->
  z res

val prefix_lengths_valid : byte list -> bool

val txt_pfx_len : byte list

val txt_unexp_store : byte list

val txt_unexp_sync : byte list

val txt_wrong_session : byte list

val store_loop :
  nat -> byte list list -> byte list list -> byte list list -> world -> z res

val receive_and_store : nat -> world -> z res

val sync_first : nat -> world -> byte list option res

val rtr_sync : nat -> world -> z res

val wait_for_sync : world -> z res

val purge_outdated : world -> unit res

val fsm_step : nat -> world -> unit res

val rtr_stop : world -> unit res

val dump : z -> world -> unit res

val run_fsm : nat -> nat -> world -> world

val init_sock : z -> z -> z -> z -> sock

val init_ok : z -> z -> z -> bool

val run_script :
  nat -> nat -> z -> z -> z -> z -> (((((bool * bool
  list) * z) * z) * z) * z) list -> (((z * byte list) * byte list) * z) list
  -> ev list -> bool list -> z list -> titem list
