
val negb : bool -> bool

type nat =
| O
| S of nat

val app : 'a1 list -> 'a1 list -> 'a1 list

val add : nat -> nat -> nat

val eqb : bool -> bool -> bool

module Nat :
 sig
  val eqb : nat -> nat -> bool

  val leb : nat -> nat -> bool

  val ltb : nat -> nat -> bool
 end

val nth : nat -> 'a1 list -> 'a1 -> 'a1

val map : ('a1 -> 'a2) -> 'a1 list -> 'a2 list

val fold_left : ('a1 -> 'a2 -> 'a1) -> 'a2 list -> 'a1 -> 'a1

val existsb : ('a1 -> bool) -> 'a1 list -> bool

val filter : ('a1 -> bool) -> 'a1 list -> 'a1 list

val firstn : nat -> 'a1 list -> 'a1 list

type positive =
| XI of positive
| XO of positive
| XH

type n =
| N0
| Npos of positive

module Pos :
 sig
  val eqb : positive -> positive -> bool
 end

module N :
 sig
  val eqb : n -> n -> bool
 end

type addr = bool list

type elem = { e_asn : n; e_max : nat; e_src : n }

val elem_eqb : elem -> elem -> bool

val addr_eqb : addr -> addr -> bool

type trie =
| Leaf
| Node of addr * nat * elem list * trie * trie

type rc =
| SUCCESS
| ERROR
| DUP
| NOTFOUND

type vstate =
| VALID
| NOT_FOUND
| INVALID

val bit : addr -> nat -> bool

val push : trie -> nat -> addr -> nat -> elem list -> trie

val add0 : trie -> nat -> addr -> nat -> elem -> trie * rc

val pull : trie -> trie

val remove_first : elem -> elem list -> elem list

val remove : trie -> nat -> addr -> nat -> elem -> trie * rc

val size : trie -> nat

val remove_id : nat -> trie -> n -> (trie * ((addr * nat) * elem) list) option

val records : trie -> ((addr * nat) * elem) list

val free_cbs : nat -> trie -> ((addr * nat) * elem) list option

val covers : addr -> nat -> addr -> nat -> bool

val matches : n -> nat -> elem -> bool

val is_leaf : trie -> bool

val val0 :
  trie -> nat -> n -> addr -> nat -> bool -> ((addr * nat) * elem) list ->
  vstate * ((addr * nat) * elem) list

val val_ub : nat -> bool -> bool -> trie -> nat -> n -> addr -> nat -> bool

type table = { t4 : trie; t6 : trie }

val empty_table : table

type cb =
| Added of (((bool * addr) * nat) * elem)
| Removed of (((bool * addr) * nat) * elem)

val width : bool -> nat

val root : table -> bool -> trie

val set_root : table -> bool -> trie -> table

val tag : bool -> ((addr * nat) * elem) -> ((bool * addr) * nat) * elem

val trecords : table -> (((bool * addr) * nat) * elem) list

val tadd : table -> (((bool * addr) * nat) * elem) -> (table * rc) * cb list

val tremove :
  table -> (((bool * addr) * nat) * elem) -> (table * rc) * cb list

val tsrc_remove : table -> n -> (table * cb list) option

val tfree : table -> cb list option

val tvalidate :
  table -> bool -> n -> addr -> nat ->
  vstate * (((bool * addr) * nat) * elem) list

val tvalidate_ub : bool -> bool -> table -> bool -> n -> addr -> nat -> bool

val src_of : (((bool * addr) * nat) * elem) -> n

val tcopy_family :
  table -> (((bool * addr) * nat) * elem) list -> n -> table * bool

val tcopy_except : table -> table -> n -> table * bool

val tswap : table -> table -> table * table

val tnotify_diff : table -> table -> n -> cb list * table

val frec_eqb :
  (((bool * addr) * nat) * elem) -> (((bool * addr) * nat) * elem) -> bool

val sp_mem :
  (((bool * addr) * nat) * elem) -> (((bool * addr) * nat) * elem) list ->
  bool

val sp_add :
  (((bool * addr) * nat) * elem) list -> (((bool * addr) * nat) * elem) ->
  (((bool * addr) * nat) * elem) list * rc

val sp_remove :
  (((bool * addr) * nat) * elem) list -> (((bool * addr) * nat) * elem) ->
  (((bool * addr) * nat) * elem) list * rc

val sp_src_remove :
  (((bool * addr) * nat) * elem) list -> n -> (((bool * addr) * nat) * elem)
  list

val fcovrec : bool -> addr -> nat -> (((bool * addr) * nat) * elem) -> bool

val fmatrec : n -> nat -> (((bool * addr) * nat) * elem) -> bool

val sp_validate :
  (((bool * addr) * nat) * elem) list -> bool -> n -> addr -> nat -> vstate

val replay1 :
  (((bool * addr) * nat) * elem) list option -> cb ->
  (((bool * addr) * nat) * elem) list option

val replay :
  cb list -> (((bool * addr) * nat) * elem) list ->
  (((bool * addr) * nat) * elem) list option
