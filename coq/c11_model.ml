
(** val negb : bool -> bool **)

let negb = function
| true -> false
| false -> true

type nat =
| O
| S of nat

(** val length : 'a1 list -> nat **)

let rec length = function
| [] -> O
| _ :: l' -> S (length l')

(** val app : 'a1 list -> 'a1 list -> 'a1 list **)

let rec app l m =
  match l with
  | [] -> m
  | a :: l1 -> a :: (app l1 m)

type comparison =
| Eq
| Lt
| Gt

(** val compOpp : comparison -> comparison **)

let compOpp = function
| Eq -> Eq
| Lt -> Gt
| Gt -> Lt

module Coq__1 = struct
 (** val add : nat -> nat -> nat **)
 let rec add n m =
   match n with
   | O -> m
   | S p -> S (add p m)
end
include Coq__1

type positive =
| XI of positive
| XO of positive
| XH

type z =
| Z0
| Zpos of positive
| Zneg of positive

module Nat =
 struct
  (** val leb : nat -> nat -> bool **)

  let rec leb n m =
    match n with
    | O -> true
    | S n' -> (match m with
               | O -> false
               | S m' -> leb n' m')
 end

module Pos =
 struct
  (** val succ : positive -> positive **)

  let rec succ = function
  | XI p -> XO (succ p)
  | XO p -> XI p
  | XH -> XO XH

  (** val add : positive -> positive -> positive **)

  let rec add x y =
    match x with
    | XI p ->
      (match y with
       | XI q -> XO (add_carry p q)
       | XO q -> XI (add p q)
       | XH -> XO (succ p))
    | XO p ->
      (match y with
       | XI q -> XI (add p q)
       | XO q -> XO (add p q)
       | XH -> XI p)
    | XH -> (match y with
             | XI q -> XO (succ q)
             | XO q -> XI q
             | XH -> XO XH)

  (** val add_carry : positive -> positive -> positive **)

  and add_carry x y =
    match x with
    | XI p ->
      (match y with
       | XI q -> XI (add_carry p q)
       | XO q -> XO (add_carry p q)
       | XH -> XI (succ p))
    | XO p ->
      (match y with
       | XI q -> XO (add_carry p q)
       | XO q -> XI (add p q)
       | XH -> XO (succ p))
    | XH ->
      (match y with
       | XI q -> XI (succ q)
       | XO q -> XO (succ q)
       | XH -> XI XH)

  (** val pred_double : positive -> positive **)

  let rec pred_double = function
  | XI p -> XI (XO p)
  | XO p -> XI (pred_double p)
  | XH -> XH

  (** val mul : positive -> positive -> positive **)

  let rec mul x y =
    match x with
    | XI p -> add y (XO (mul p y))
    | XO p -> XO (mul p y)
    | XH -> y

  (** val iter : ('a1 -> 'a1) -> 'a1 -> positive -> 'a1 **)

  let rec iter f x = function
  | XI n' -> f (iter f (iter f x n') n')
  | XO n' -> iter f (iter f x n') n'
  | XH -> f x

  (** val compare_cont : comparison -> positive -> positive -> comparison **)

  let rec compare_cont r x y =
    match x with
    | XI p ->
      (match y with
       | XI q -> compare_cont r p q
       | XO q -> compare_cont Gt p q
       | XH -> Gt)
    | XO p ->
      (match y with
       | XI q -> compare_cont Lt p q
       | XO q -> compare_cont r p q
       | XH -> Gt)
    | XH -> (match y with
             | XH -> r
             | _ -> Lt)

  (** val compare : positive -> positive -> comparison **)

  let compare =
    compare_cont Eq

  (** val eqb : positive -> positive -> bool **)

  let rec eqb p q =
    match p with
    | XI p0 -> (match q with
                | XI q0 -> eqb p0 q0
                | _ -> false)
    | XO p0 -> (match q with
                | XO q0 -> eqb p0 q0
                | _ -> false)
    | XH -> (match q with
             | XH -> true
             | _ -> false)

  (** val iter_op : ('a1 -> 'a1 -> 'a1) -> positive -> 'a1 -> 'a1 **)

  let rec iter_op op p a =
    match p with
    | XI p0 -> op a (iter_op op p0 (op a a))
    | XO p0 -> iter_op op p0 (op a a)
    | XH -> a

  (** val to_nat : positive -> nat **)

  let to_nat x =
    iter_op Coq__1.add x (S O)

  (** val of_succ_nat : nat -> positive **)

  let rec of_succ_nat = function
  | O -> XH
  | S x -> succ (of_succ_nat x)
 end

module Z =
 struct
  (** val double : z -> z **)

  let double = function
  | Z0 -> Z0
  | Zpos p -> Zpos (XO p)
  | Zneg p -> Zneg (XO p)

  (** val succ_double : z -> z **)

  let succ_double = function
  | Z0 -> Zpos XH
  | Zpos p -> Zpos (XI p)
  | Zneg p -> Zneg (Pos.pred_double p)

  (** val pred_double : z -> z **)

  let pred_double = function
  | Z0 -> Zneg XH
  | Zpos p -> Zpos (Pos.pred_double p)
  | Zneg p -> Zneg (XI p)

  (** val pos_sub : positive -> positive -> z **)

  let rec pos_sub x y =
    match x with
    | XI p ->
      (match y with
       | XI q -> double (pos_sub p q)
       | XO q -> succ_double (pos_sub p q)
       | XH -> Zpos (XO p))
    | XO p ->
      (match y with
       | XI q -> pred_double (pos_sub p q)
       | XO q -> double (pos_sub p q)
       | XH -> Zpos (Pos.pred_double p))
    | XH ->
      (match y with
       | XI q -> Zneg (XO q)
       | XO q -> Zneg (Pos.pred_double q)
       | XH -> Z0)

  (** val add : z -> z -> z **)

  let add x y =
    match x with
    | Z0 -> y
    | Zpos x' ->
      (match y with
       | Z0 -> x
       | Zpos y' -> Zpos (Pos.add x' y')
       | Zneg y' -> pos_sub x' y')
    | Zneg x' ->
      (match y with
       | Z0 -> x
       | Zpos y' -> pos_sub y' x'
       | Zneg y' -> Zneg (Pos.add x' y'))

  (** val opp : z -> z **)

  let opp = function
  | Z0 -> Z0
  | Zpos x0 -> Zneg x0
  | Zneg x0 -> Zpos x0

  (** val sub : z -> z -> z **)

  let sub m n =
    add m (opp n)

  (** val mul : z -> z -> z **)

  let mul x y =
    match x with
    | Z0 -> Z0
    | Zpos x' ->
      (match y with
       | Z0 -> Z0
       | Zpos y' -> Zpos (Pos.mul x' y')
       | Zneg y' -> Zneg (Pos.mul x' y'))
    | Zneg x' ->
      (match y with
       | Z0 -> Z0
       | Zpos y' -> Zneg (Pos.mul x' y')
       | Zneg y' -> Zpos (Pos.mul x' y'))

  (** val pow_pos : z -> positive -> z **)

  let pow_pos z0 =
    Pos.iter (mul z0) (Zpos XH)

  (** val pow : z -> z -> z **)

  let pow x = function
  | Z0 -> Zpos XH
  | Zpos p -> pow_pos x p
  | Zneg _ -> Z0

  (** val compare : z -> z -> comparison **)

  let compare x y =
    match x with
    | Z0 -> (match y with
             | Z0 -> Eq
             | Zpos _ -> Lt
             | Zneg _ -> Gt)
    | Zpos x' -> (match y with
                  | Zpos y' -> Pos.compare x' y'
                  | _ -> Gt)
    | Zneg x' ->
      (match y with
       | Zneg y' -> compOpp (Pos.compare x' y')
       | _ -> Lt)

  (** val leb : z -> z -> bool **)

  let leb x y =
    match compare x y with
    | Gt -> false
    | _ -> true

  (** val ltb : z -> z -> bool **)

  let ltb x y =
    match compare x y with
    | Lt -> true
    | _ -> false

  (** val gtb : z -> z -> bool **)

  let gtb x y =
    match compare x y with
    | Gt -> true
    | _ -> false

  (** val eqb : z -> z -> bool **)

  let eqb x y =
    match x with
    | Z0 -> (match y with
             | Z0 -> true
             | _ -> false)
    | Zpos p -> (match y with
                 | Zpos q -> Pos.eqb p q
                 | _ -> false)
    | Zneg p -> (match y with
                 | Zneg q -> Pos.eqb p q
                 | _ -> false)

  (** val to_nat : z -> nat **)

  let to_nat = function
  | Zpos p -> Pos.to_nat p
  | _ -> O

  (** val of_nat : nat -> z **)

  let of_nat = function
  | O -> Z0
  | S n0 -> Zpos (Pos.of_succ_nat n0)

  (** val pos_div_eucl : positive -> z -> z * z **)

  let rec pos_div_eucl a b =
    match a with
    | XI a' ->
      let (q, r) = pos_div_eucl a' b in
      let r' = add (mul (Zpos (XO XH)) r) (Zpos XH) in
      if ltb r' b
      then ((mul (Zpos (XO XH)) q), r')
      else ((add (mul (Zpos (XO XH)) q) (Zpos XH)), (sub r' b))
    | XO a' ->
      let (q, r) = pos_div_eucl a' b in
      let r' = mul (Zpos (XO XH)) r in
      if ltb r' b
      then ((mul (Zpos (XO XH)) q), r')
      else ((add (mul (Zpos (XO XH)) q) (Zpos XH)), (sub r' b))
    | XH -> if leb (Zpos (XO XH)) b then (Z0, (Zpos XH)) else ((Zpos XH), Z0)

  (** val div_eucl : z -> z -> z * z **)

  let div_eucl a b =
    match a with
    | Z0 -> (Z0, Z0)
    | Zpos a' ->
      (match b with
       | Z0 -> (Z0, a)
       | Zpos _ -> pos_div_eucl a' b
       | Zneg b' ->
         let (q, r) = pos_div_eucl a' (Zpos b') in
         (match r with
          | Z0 -> ((opp q), Z0)
          | _ -> ((opp (add q (Zpos XH))), (add b r))))
    | Zneg a' ->
      (match b with
       | Z0 -> (Z0, a)
       | Zpos _ ->
         let (q, r) = pos_div_eucl a' b in
         (match r with
          | Z0 -> ((opp q), Z0)
          | _ -> ((opp (add q (Zpos XH))), (sub b r)))
       | Zneg b' -> let (q, r) = pos_div_eucl a' (Zpos b') in (q, (opp r)))

  (** val div : z -> z -> z **)

  let div a b =
    let (q, _) = div_eucl a b in q

  (** val modulo : z -> z -> z **)

  let modulo a b =
    let (_, r) = div_eucl a b in r
 end

(** val tl : 'a1 list -> 'a1 list **)

let tl = function
| [] -> []
| _ :: m -> m

(** val filter : ('a1 -> bool) -> 'a1 list -> 'a1 list **)

let rec filter f = function
| [] -> []
| x :: l0 -> if f x then x :: (filter f l0) else filter f l0

(** val firstn : nat -> 'a1 list -> 'a1 list **)

let rec firstn n l =
  match n with
  | O -> []
  | S n0 -> (match l with
             | [] -> []
             | a :: l0 -> a :: (firstn n0 l0))

(** val skipn : nat -> 'a1 list -> 'a1 list **)

let rec skipn n l =
  match n with
  | O -> l
  | S n0 -> (match l with
             | [] -> []
             | _ :: l0 -> skipn n0 l0)

(** val repeat : 'a1 -> nat -> 'a1 list **)

let rec repeat x = function
| O -> []
| S k -> x :: (repeat x k)

(** val wrapu : z -> z -> z **)

let wrapu bits v =
  Z.modulo v (Z.pow (Zpos (XO XH)) bits)

(** val wraps : z -> z -> z **)

let wraps bits v =
  let m = Z.modulo v (Z.pow (Zpos (XO XH)) bits) in
  if Z.ltb m (Z.pow (Zpos (XO XH)) (Z.sub bits (Zpos XH)))
  then m
  else Z.sub m (Z.pow (Zpos (XO XH)) bits)

(** val obind : 'a1 option -> ('a1 -> 'a2 option) -> 'a2 option **)

let obind o f =
  match o with
  | Some a -> f a
  | None -> None

(** val be16 : z -> z list **)

let be16 v =
  (Z.modulo (Z.div v (Zpos (XO (XO (XO (XO (XO (XO (XO (XO XH)))))))))) (Zpos
    (XO (XO (XO (XO (XO (XO (XO (XO XH)))))))))) :: ((Z.modulo v (Zpos (XO
                                                       (XO (XO (XO (XO (XO
                                                       (XO (XO XH)))))))))) :: [])

(** val be32 : z -> z list **)

let be32 v =
  (Z.modulo
    (Z.div v (Zpos (XO (XO (XO (XO (XO (XO (XO (XO (XO (XO (XO (XO (XO (XO
      (XO (XO (XO (XO (XO (XO (XO (XO (XO (XO XH))))))))))))))))))))))))))
    (Zpos (XO (XO (XO (XO (XO (XO (XO (XO XH)))))))))) :: ((Z.modulo
                                                             (Z.div v (Zpos
                                                               (XO (XO (XO
                                                               (XO (XO (XO
                                                               (XO (XO (XO
                                                               (XO (XO (XO
                                                               (XO (XO (XO
                                                               (XO
                                                               XH))))))))))))))))))
                                                             (Zpos (XO (XO
                                                             (XO (XO (XO (XO
                                                             (XO (XO
                                                             XH)))))))))) :: (
    (Z.modulo (Z.div v (Zpos (XO (XO (XO (XO (XO (XO (XO (XO XH))))))))))
      (Zpos (XO (XO (XO (XO (XO (XO (XO (XO XH)))))))))) :: ((Z.modulo v
                                                               (Zpos (XO (XO
                                                               (XO (XO (XO
                                                               (XO (XO (XO
                                                               XH)))))))))) :: [])))

type sps = { sp_pcount : z; sp_flags : z; sp_asn : z }

type sgs = { sg_ski : z list; sg_sig : z list }

type nlri = { nl_len : z; nl_prefix : z list }

(** val enc_sps : sps -> z list **)

let enc_sps s =
  app (s.sp_pcount :: (s.sp_flags :: [])) (be32 s.sp_asn)

(** val enc_sgs : sgs -> z list **)

let enc_sgs g =
  app g.sg_ski (app (be16 (Z.of_nat (length g.sg_sig))) g.sg_sig)

(** val enc_nlri : nlri -> z list **)

let enc_nlri n =
  n.nl_len :: n.nl_prefix

(** val enc_segments : sps list -> sgs list -> z list option **)

let rec enc_segments secs sigs =
  match secs with
  | [] -> None
  | s :: secs' ->
    (match sigs with
     | [] -> (match secs' with
              | [] -> Some (enc_sps s)
              | _ :: _ -> None)
     | g :: sigs' ->
       (match enc_segments secs' sigs' with
        | Some r -> Some (app (enc_sgs g) (app (enc_sps s) r))
        | None -> None))

(** val message :
    z -> sps list -> sgs list -> z -> z -> z -> nlri -> z list option **)

let message target secs sigs alg afi safi n =
  match enc_segments secs sigs with
  | Some segs ->
    Some
      (app (be32 target)
        (app segs
          (app (alg :: []) (app (be16 afi) (app (safi :: []) (enc_nlri n))))))
  | None -> None

type update = { u_target : z; u_secs : sps list; u_sigs : sgs list;
                u_alg : z; u_afi : z; u_safi : z; u_nlri : nlri }

(** val digest_for_hop_rec :
    nat -> z -> sps list -> sgs list -> z -> z -> z -> nlri -> z list option **)

let rec digest_for_hop_rec k target secs sigs alg afi safi n =
  match k with
  | O ->
    (match sigs with
     | [] -> None
     | _ :: older -> message target secs older alg afi safi n)
  | S k' ->
    (match secs with
     | [] -> None
     | s :: secs' ->
       (match sigs with
        | [] -> None
        | _ :: sigs' ->
          digest_for_hop_rec k' s.sp_asn secs' sigs' alg afi safi n))

(** val digest_for_hop : nat -> update -> z list option **)

let digest_for_hop k u =
  digest_for_hop_rec k u.u_target u.u_secs u.u_sigs u.u_alg u.u_afi u.u_safi
    u.u_nlri

(** val signing_digest : update -> z list option **)

let signing_digest u =
  message u.u_target u.u_secs u.u_sigs u.u_alg u.u_afi u.u_safi u.u_nlri

type router_key = { rk_ski : z list; rk_asn : z; rk_spki : z list }

(** val bGPSEC_NOT_VALID : z **)

let bGPSEC_NOT_VALID =
  Zpos (XO XH)

(** val bGPSEC_VALID : z **)

let bGPSEC_VALID =
  Zpos XH

(** val bGPSEC_SUCCESS : z **)

let bGPSEC_SUCCESS =
  Z0

(** val bGPSEC_ERROR : z **)

let bGPSEC_ERROR =
  Zneg XH

(** val bGPSEC_LOAD_PUB_KEY_ERROR : z **)

let bGPSEC_LOAD_PUB_KEY_ERROR =
  Zneg (XO XH)

(** val bGPSEC_LOAD_PRIV_KEY_ERROR : z **)

let bGPSEC_LOAD_PRIV_KEY_ERROR =
  Zneg (XI XH)

(** val bGPSEC_ROUTER_KEY_NOT_FOUND : z **)

let bGPSEC_ROUTER_KEY_NOT_FOUND =
  Zneg (XO (XO XH))

(** val bGPSEC_SIGNING_ERROR : z **)

let bGPSEC_SIGNING_ERROR =
  Zneg (XI (XO XH))

(** val bGPSEC_UNSUPPORTED_ALGORITHM_SUITE : z **)

let bGPSEC_UNSUPPORTED_ALGORITHM_SUITE =
  Zneg (XO (XI XH))

(** val bGPSEC_UNSUPPORTED_AFI : z **)

let bGPSEC_UNSUPPORTED_AFI =
  Zneg (XI (XI XH))

(** val bGPSEC_WRONG_SEGMENT_COUNT : z **)

let bGPSEC_WRONG_SEGMENT_COUNT =
  Zneg (XO (XO (XO XH)))

(** val bGPSEC_INVALID_ARGUMENTS : z **)

let bGPSEC_INVALID_ARGUMENTS =
  Zneg (XI (XO (XO XH)))

(** val aLGORITHM_SUITE_1 : z **)

let aLGORITHM_SUITE_1 =
  Zpos XH

(** val bGPSEC_IPV4 : z **)

let bGPSEC_IPV4 =
  Zpos XH

(** val bGPSEC_IPV6 : z **)

let bGPSEC_IPV6 =
  Zpos (XO XH)

(** val sECURE_PATH_SEG_SIZE : z **)

let sECURE_PATH_SEG_SIZE =
  Zpos (XO (XI XH))

(** val c_SKI_SIZE : z **)

let c_SKI_SIZE =
  Zpos (XO (XO (XI (XO XH))))

type nlri_c = { n_afi : z; n_safi : z; n_len : z; n_bytes : z list }

type bgpsec_c = { b_alg : z; b_safi : z; b_afi : z; b_my_as : z;
                  b_target_as : z; b_sigs_len : z; b_path_len : z;
                  b_nlri : nlri_c; b_sigs : sgs list; b_path : sps list }

(** val sig_len : sgs -> z **)

let sig_len g =
  Z.of_nat (length g.sg_sig)

type align_type =
| VALIDATION
| SIGNING

type stream = { st_size : z; st_buf : z list; st_whead : z }

(** val init_stream : z -> stream **)

let init_stream size =
  let sz = wrapu (Zpos (XO (XO (XO (XO XH))))) size in
  { st_size = sz; st_buf = (repeat Z0 (Z.to_nat sz)); st_whead = Z0 }

(** val write_stream : stream -> z list -> stream option **)

let write_stream s data =
  let len = Z.of_nat (length data) in
  if Z.gtb (Z.add s.st_whead len) s.st_size
  then None
  else Some { st_size = s.st_size; st_buf =
         (app (firstn (Z.to_nat s.st_whead) s.st_buf)
           (app data (skipn (Z.to_nat (Z.add s.st_whead len)) s.st_buf)));
         st_whead =
         (wrapu (Zpos (XO (XO (XO (XO XH))))) (Z.add s.st_whead len)) }

(** val write_all : stream -> z list list -> stream option **)

let rec write_all s = function
| [] -> Some s
| c :: r -> obind (write_stream s c) (fun s' -> write_all s' r)

(** val sig_chunks : sgs -> z list list **)

let sig_chunks g =
  g.sg_ski :: ((be16 (sig_len g)) :: (g.sg_sig :: []))

(** val sec_chunks : sps -> z list list **)

let sec_chunks s =
  (s.sp_pcount :: []) :: ((s.sp_flags :: []) :: ((be32 s.sp_asn) :: []))

(** val align_loop : sps list -> sgs list -> stream -> stream option **)

let rec align_loop secs tmp_sig s =
  match secs with
  | [] -> Some s
  | sec :: secs' ->
    obind
      (match tmp_sig with
       | [] -> Some s
       | g :: _ -> write_all s (sig_chunks g)) (fun s1 ->
      obind (write_all s1 (sec_chunks sec)) (fun s2 ->
        align_loop secs' (tl tmp_sig) s2))

(** val nlri_byte_len : bgpsec_c -> z **)

let nlri_byte_len d =
  Z.div (Z.add d.b_nlri.n_len (Zpos (XI (XI XH)))) (Zpos (XO (XO (XO XH))))

(** val nlri_read : bgpsec_c -> z list option **)

let nlri_read d =
  let n = Z.to_nat (nlri_byte_len d) in
  if Nat.leb n (length d.b_nlri.n_bytes)
  then Some (firstn n d.b_nlri.n_bytes)
  else None

(** val align_byte_sequence :
    bgpsec_c -> stream -> align_type -> stream option **)

let align_byte_sequence d s ty =
  obind (write_stream s (be32 d.b_target_as)) (fun s0 ->
    obind
      (match ty with
       | VALIDATION -> (match d.b_sigs with
                        | [] -> None
                        | _ :: r -> Some r)
       | SIGNING -> Some d.b_sigs) (fun tmp_sig ->
      obind (align_loop d.b_path tmp_sig s0) (fun s1 ->
        obind (write_stream s1 (d.b_alg :: [])) (fun s2 ->
          obind (write_stream s2 (be16 d.b_afi)) (fun s3 ->
            obind (write_stream s3 (d.b_safi :: [])) (fun s4 ->
              obind (write_stream s4 (d.b_nlri.n_len :: [])) (fun s5 ->
                obind (nlri_read d) (fun nb -> write_stream s5 nb))))))))

(** val sig_segs_sum : sgs list -> z -> z **)

let rec sig_segs_sum l acc =
  match l with
  | [] -> acc
  | g :: r ->
    sig_segs_sum r
      (wrapu (Zpos (XO (XO (XO (XO (XO XH))))))
        (Z.add acc (Z.add (Z.add (sig_len g) (Zpos (XO XH))) c_SKI_SIZE)))

(** val get_sig_seg_size : sgs list -> align_type -> z **)

let get_sig_seg_size sigs ty =
  match sigs with
  | [] -> Z0
  | _ :: r ->
    wraps (Zpos (XO (XO (XO (XO (XO XH))))))
      (sig_segs_sum (match ty with
                     | VALIDATION -> r
                     | SIGNING -> sigs) Z0)

(** val req_stream_size : bgpsec_c -> align_type -> z **)

let req_stream_size d ty =
  let sig_segs_size =
    wrapu (Zpos (XO (XO (XO (XO (XO XH)))))) (get_sig_seg_size d.b_sigs ty)
  in
  let nlri_len_b =
    wrapu (Zpos (XO (XO (XO XH))))
      (Z.div (Z.add d.b_nlri.n_len (Zpos (XI (XI XH)))) (Zpos (XO (XO (XO
        XH)))))
  in
  wrapu (Zpos (XO (XO (XO (XO (XO XH))))))
    (Z.add (Z.add (Z.add (Zpos (XI (XO (XO XH)))) nlri_len_b) sig_segs_size)
      (Z.mul sECURE_PATH_SEG_SIZE d.b_path_len))

(** val aligned_stream : bgpsec_c -> align_type -> stream option **)

let aligned_stream d ty =
  align_byte_sequence d
    (init_stream
      (wrapu (Zpos (XO (XO (XO (XO (XO XH)))))) (req_stream_size d ty))) ty

(** val read_for_hash : stream -> z -> z -> z list option **)

let read_for_hash s start0 len0 =
  let start = wrapu (Zpos (XO (XO (XO (XO XH))))) start0 in
  let len = wrapu (Zpos (XO (XO (XO (XO XH))))) len0 in
  let len1 =
    if Z.gtb (Z.add start len) s.st_size
    then wrapu (Zpos (XO (XO (XO (XO XH))))) (Z.sub s.st_size start)
    else len
  in
  if (&&) (Z.eqb len1 len0)
       (Z.leb (Z.add start len1) (Z.of_nat (length s.st_buf)))
  then Some (firstn (Z.to_nat len1) (skipn (Z.to_nat start) s.st_buf))
  else None

(** val next_offset : sgs -> sgs list -> z **)

let next_offset g rest =
  let tmp_sig_len = match rest with
                    | [] -> sig_len g
                    | g' :: _ -> sig_len g' in
  wrapu (Zpos (XO (XO (XO (XO (XO XH))))))
    (Z.add (Z.add (Z.add tmp_sig_len c_SKI_SIZE) (Zpos (XO XH)))
      sECURE_PATH_SEG_SIZE)

(** val hashed_at : stream -> sgs list -> z -> z list option list **)

let rec hashed_at s tmp_sig offset =
  match tmp_sig with
  | [] -> []
  | g :: rest ->
    (read_for_hash s offset (Z.sub s.st_size offset)) :: (hashed_at s rest
                                                           (wrapu (Zpos (XO
                                                             (XO (XO (XO (XO
                                                             XH))))))
                                                             (Z.add offset
                                                               (next_offset g
                                                                 rest))))

(** val hashed_for_validation : bgpsec_c -> z list option list option **)

let hashed_for_validation d =
  obind (aligned_stream d VALIDATION) (fun s -> Some
    (hashed_at s d.b_sigs Z0))

(** val to_nlri : bgpsec_c -> nlri **)

let to_nlri d =
  { nl_len = d.b_nlri.n_len; nl_prefix =
    (firstn (Z.to_nat (nlri_byte_len d)) d.b_nlri.n_bytes) }

(** val to_update : bgpsec_c -> update **)

let to_update d =
  { u_target = d.b_target_as; u_secs = d.b_path; u_sigs = d.b_sigs; u_alg =
    d.b_alg; u_afi = d.b_afi; u_safi = d.b_safi; u_nlri = (to_nlri d) }

(** val sigs_total : sgs list -> z **)

let rec sigs_total = function
| [] -> Z0
| g :: r ->
  Z.add (Z.add (Zpos (XO (XI (XI (XO XH))))) (sig_len g)) (sigs_total r)

(** val total_bytes : bgpsec_c -> align_type -> z **)

let total_bytes d ty =
  Z.add
    (Z.add
      (Z.add
        (Z.add (Zpos (XO (XO XH)))
          (Z.mul (Zpos (XO (XI XH))) (Z.of_nat (length d.b_path))))
        (sigs_total
          (match ty with
           | VALIDATION -> tl d.b_sigs
           | SIGNING -> d.b_sigs))) (Zpos (XI (XO XH)))) (nlri_byte_len d)

(** val bytes_eqb : z list -> z list -> bool **)

let rec bytes_eqb a b =
  match a with
  | [] -> (match b with
           | [] -> true
           | _ :: _ -> false)
  | x :: a' ->
    (match b with
     | [] -> false
     | y :: b' -> (&&) (Z.eqb x y) (bytes_eqb a' b'))

(** val search_by_ski : router_key list -> z list -> router_key list **)

let search_by_ski t ski =
  filter (fun r -> bytes_eqb r.rk_ski ski) t

(** val get_all : router_key list -> z -> z list -> router_key list **)

let get_all t asn ski =
  filter (fun r -> (&&) (Z.eqb r.rk_asn asn) (bytes_eqb r.rk_ski ski)) t

(** val check_router_keys : sgs list -> router_key list -> z **)

let rec check_router_keys sigs t =
  match sigs with
  | [] -> bGPSEC_SUCCESS
  | g :: r ->
    (match search_by_ski t g.sg_ski with
     | [] -> bGPSEC_ROUTER_KEY_NOT_FOUND
     | _ :: _ -> check_router_keys r t)

(** val has_algorithm_suite : z -> bool **)

let has_algorithm_suite alg =
  Z.eqb alg aLGORITHM_SUITE_1

(** val validate_signature :
    (z list -> bool) -> (z list -> z list -> z list -> z) -> z list -> sgs ->
    router_key -> z **)

let validate_signature load_pub ecdsa_verify h g r =
  if load_pub r.rk_spki
  then let st = ecdsa_verify r.rk_spki h g.sg_sig in
       if Z.eqb st (Zneg XH)
       then bGPSEC_ERROR
       else if Z.eqb st Z0
            then bGPSEC_NOT_VALID
            else if Z.eqb st (Zpos XH) then bGPSEC_VALID else bGPSEC_SUCCESS
  else bGPSEC_ERROR

(** val key_loop :
    (z list -> bool) -> (z list -> z list -> z list -> z) -> router_key list
    -> z list -> sgs -> z -> z **)

let rec key_loop load_pub ecdsa_verify keys h g retval =
  match keys with
  | [] -> retval
  | r :: rest ->
    let rv = validate_signature load_pub ecdsa_verify h g r in
    if Z.eqb rv bGPSEC_VALID
    then bGPSEC_VALID
    else key_loop load_pub ecdsa_verify rest h g rv

(** val as_filter :
    bool -> router_key list -> sps list -> router_key list option **)

let as_filter by_asn found tmp_sec =
  if by_asn
  then (match tmp_sec with
        | [] -> None
        | sec :: _ -> Some (filter (fun r -> Z.eqb r.rk_asn sec.sp_asn) found))
  else Some found

(** val vloop_gen :
    (z list -> z list) -> (z list -> bool) -> (z list -> z list -> z list ->
    z) -> bool -> router_key list -> z -> stream -> sgs list -> sps list -> z
    -> z option **)

let rec vloop_gen sha256 load_pub ecdsa_verify by_asn t alg s tmp_sig tmp_sec offset =
  match tmp_sig with
  | [] -> if Z.leb offset s.st_size then None else Some bGPSEC_VALID
  | g :: rest ->
    if Z.leb offset s.st_size
    then obind (read_for_hash s offset (Z.sub s.st_size offset)) (fun curr ->
           if negb (Z.eqb alg aLGORITHM_SUITE_1)
           then Some bGPSEC_UNSUPPORTED_ALGORITHM_SUITE
           else let h = sha256 curr in
                obind (as_filter by_asn (search_by_ski t g.sg_ski) tmp_sec)
                  (fun keys ->
                  let retval =
                    key_loop load_pub ecdsa_verify keys h g
                      (if by_asn
                       then bGPSEC_ROUTER_KEY_NOT_FOUND
                       else bGPSEC_SUCCESS)
                  in
                  if Z.eqb retval bGPSEC_VALID
                  then vloop_gen sha256 load_pub ecdsa_verify by_asn t alg s
                         rest (tl tmp_sec)
                         (wrapu (Zpos (XO (XO (XO (XO (XO XH))))))
                           (Z.add offset (next_offset g rest)))
                  else Some retval))
    else Some bGPSEC_VALID

(** val validate_gen :
    (z list -> z list) -> (z list -> bool) -> (z list -> z list -> z list ->
    z) -> bool -> bgpsec_c -> router_key list -> z option **)

let validate_gen sha256 load_pub ecdsa_verify by_asn d t =
  match d.b_path with
  | [] -> Some bGPSEC_INVALID_ARGUMENTS
  | _ :: _ ->
    (match d.b_sigs with
     | [] -> Some bGPSEC_INVALID_ARGUMENTS
     | _ :: _ ->
       if negb (Z.eqb d.b_path_len d.b_sigs_len)
       then Some bGPSEC_WRONG_SEGMENT_COUNT
       else if negb (has_algorithm_suite d.b_alg)
            then Some bGPSEC_UNSUPPORTED_ALGORITHM_SUITE
            else if (&&) (negb (Z.eqb d.b_nlri.n_afi bGPSEC_IPV4))
                      (negb (Z.eqb d.b_nlri.n_afi bGPSEC_IPV6))
                 then Some bGPSEC_UNSUPPORTED_AFI
                 else let rk = check_router_keys d.b_sigs t in
                      if negb (Z.eqb rk bGPSEC_SUCCESS)
                      then Some rk
                      else obind (aligned_stream d VALIDATION) (fun s ->
                             vloop_gen sha256 load_pub ecdsa_verify by_asn t
                               d.b_alg s d.b_sigs d.b_path Z0))

(** val validate :
    (z list -> z list) -> (z list -> bool) -> (z list -> z list -> z list ->
    z) -> bgpsec_c -> router_key list -> z option **)

let validate sha256 load_pub ecdsa_verify =
  validate_gen sha256 load_pub ecdsa_verify false

(** val validate_fixed :
    (z list -> z list) -> (z list -> bool) -> (z list -> z list -> z list ->
    z) -> bgpsec_c -> router_key list -> z option **)

let validate_fixed sha256 load_pub ecdsa_verify =
  validate_gen sha256 load_pub ecdsa_verify true

(** val generate_signature :
    (z list -> z list) -> (z list -> bool) -> (z list -> z) -> (z list -> z
    list -> z list) -> bgpsec_c -> z list option -> bool -> (z * sgs option)
    option **)

let generate_signature sha256 load_priv ecdsa_size ecdsa_sign d priv out_null =
  match d.b_path with
  | [] -> Some (bGPSEC_INVALID_ARGUMENTS, None)
  | _ :: _ ->
    (match priv with
     | Some key ->
       if out_null
       then if negb (has_algorithm_suite d.b_alg)
            then Some (bGPSEC_UNSUPPORTED_ALGORITHM_SUITE, None)
            else if (&&) (negb (Z.eqb d.b_nlri.n_afi bGPSEC_IPV4))
                      (negb (Z.eqb d.b_nlri.n_afi bGPSEC_IPV6))
                 then Some (bGPSEC_UNSUPPORTED_AFI, None)
                 else if negb
                           (Z.eqb d.b_path_len (Z.add d.b_sigs_len (Zpos XH)))
                      then Some (bGPSEC_WRONG_SEGMENT_COUNT, None)
                      else if negb (load_priv key)
                           then Some (bGPSEC_LOAD_PRIV_KEY_ERROR, None)
                           else if Z.eqb (ecdsa_size key) Z0
                                then Some (bGPSEC_LOAD_PRIV_KEY_ERROR, None)
                                else obind (aligned_stream d SIGNING)
                                       (fun s ->
                                       let h = sha256 s.st_buf in
                                       if negb
                                            (Z.eqb d.b_alg aLGORITHM_SUITE_1)
                                       then Some
                                              (bGPSEC_UNSUPPORTED_ALGORITHM_SUITE,
                                              None)
                                       else let sg = ecdsa_sign key h in
                                            if Z.gtb (Z.of_nat (length sg))
                                                 (wrapu (Zpos (XO (XO (XO (XO
                                                   XH))))) (ecdsa_size key))
                                            then None
                                            else if Z.ltb
                                                      (Z.of_nat (length sg))
                                                      (Zpos XH)
                                                 then Some
                                                        (bGPSEC_SIGNING_ERROR,
                                                        None)
                                                 else Some (bGPSEC_SUCCESS,
                                                        (Some { sg_ski =
                                                        (repeat Z0
                                                          (Z.to_nat
                                                            c_SKI_SIZE));
                                                        sg_sig = sg })))
       else Some (bGPSEC_INVALID_ARGUMENTS, None)
     | None -> Some (bGPSEC_INVALID_ARGUMENTS, None))
