
val negb : bool -> bool

type nat =
| O
| S of nat

val fst : ('a1 * 'a2) -> 'a1

val snd : ('a1 * 'a2) -> 'a2

val length : 'a1 list -> nat

val app : 'a1 list -> 'a1 list -> 'a1 list

type comparison =
| Eq
| Lt
| Gt

val compOpp : comparison -> comparison

val add : nat -> nat -> nat

val sub : nat -> nat -> nat

val eqb : nat -> nat -> bool

val leb : nat -> nat -> bool

type positive =
| XI of positive
| XO of positive
| XH

type n =
| N0
| Npos of positive

type z =
| Z0
| Zpos of positive
| Zneg of positive

module Nat :
 sig
  val leb : nat -> nat -> bool

  val ltb : nat -> nat -> bool
 end

module Pos :
 sig
  type mask =
  | IsNul
  | IsPos of positive
  | IsNeg
 end

module Coq_Pos :
 sig
  val succ : positive -> positive

  val add : positive -> positive -> positive

  val add_carry : positive -> positive -> positive

  val pred_double : positive -> positive

  type mask = Pos.mask =
  | IsNul
  | IsPos of positive
  | IsNeg

  val succ_double_mask : mask -> mask

  val double_mask : mask -> mask

  val double_pred_mask : positive -> mask

  val sub_mask : positive -> positive -> mask

  val sub_mask_carry : positive -> positive -> mask

  val mul : positive -> positive -> positive

  val iter : ('a1 -> 'a1) -> 'a1 -> positive -> 'a1

  val pow : positive -> positive -> positive

  val compare_cont : comparison -> positive -> positive -> comparison

  val compare : positive -> positive -> comparison

  val eqb : positive -> positive -> bool

  val iter_op : ('a1 -> 'a1 -> 'a1) -> positive -> 'a1 -> 'a1

  val to_nat : positive -> nat

  val of_succ_nat : nat -> positive
 end

module N :
 sig
  val succ_double : n -> n

  val double : n -> n

  val add : n -> n -> n

  val sub : n -> n -> n

  val mul : n -> n -> n

  val compare : n -> n -> comparison

  val eqb : n -> n -> bool

  val leb : n -> n -> bool

  val ltb : n -> n -> bool

  val pow : n -> n -> n

  val pos_div_eucl : positive -> n -> n * n

  val div_eucl : n -> n -> n * n

  val div : n -> n -> n

  val modulo : n -> n -> n

  val to_nat : n -> nat

  val of_nat : nat -> n
 end

val nth_error : 'a1 list -> nat -> 'a1 option

val map : ('a1 -> 'a2) -> 'a1 list -> 'a2 list

val fold_left : ('a1 -> 'a2 -> 'a1) -> 'a2 list -> 'a1 -> 'a1

val existsb : ('a1 -> bool) -> 'a1 list -> bool

val forallb : ('a1 -> bool) -> 'a1 list -> bool

val firstn : nat -> 'a1 list -> 'a1 list

val repeat : 'a1 -> nat -> 'a1 list

module Z :
 sig
  val double : z -> z

  val succ_double : z -> z

  val pred_double : z -> z

  val pos_sub : positive -> positive -> z

  val add : z -> z -> z

  val opp : z -> z

  val sub : z -> z -> z

  val compare : z -> z -> comparison

  val leb : z -> z -> bool

  val ltb : z -> z -> bool

  val eqb : z -> z -> bool

  val to_nat : z -> nat
 end

val ch_dot : n

val ch_colon : n

val ch_plus : n

val ch_minus : n

val is_digit : n -> bool

val is_space : n -> bool

val fmt_base : nat -> n -> (n -> n) -> n -> n list

val dec_digit : n -> n

val dec : n -> n list

val dotted : n -> n -> n -> n -> n list

val ipv4_text : n -> n list

val snprintf_store : n -> n list -> n list

val ipv4_to_str : n -> n -> z * n list

val ipv4_to_str_fixed : n -> n -> z * n list

val skip_ws : n list -> n list

val scan_digits : nat -> n list -> nat -> n -> (nat * n) * n list

val scan_hhu3 : n list -> (n * n list) option

val expect : n -> n list -> n list option

val sscanf_quad : n list -> (((n * n) * n) * n) option

val str_to_ipv4 : n list -> n option

val hex_digit : n -> n

val hex : n -> n list

type runs = { bestpos : z; bestlen : z; curpos : z; curlen : z }

val run_step : runs -> z -> bool -> runs

val scan_runs : bool list -> z -> runs -> runs

val runs0 : runs

val best_run : n list -> z * z

val fmt6 : nat -> z -> z -> z -> n list -> n list option

val txt_ffff_colon : n list

val ipv6_text : n list -> n list option

val iNET6_ADDRSTRLEN : n

val ipv6_to_str : n list -> n -> (z * n list) option

val hexval_c : n -> n option

val scan_hex : n list -> n -> nat -> (n * n list) option

val upd : nat -> 'a1 -> 'a1 list -> 'a1 list

type words = n option list

val in_words : z -> bool

val wset : words -> z -> n option -> words option

val wget : words -> z -> n option option

type lres =
| LErr
| LStuck
| LDone of z * z * words

val group_loop : nat -> n list -> z -> z -> words -> lres

val fill_move : nat -> z -> z -> z -> words -> (z * words) option

val fill_zero : nat -> z -> z -> words -> words option

type pres =
| PErr
| PStuck
| POk of words

val words_init : words

val start6 : n list -> n list option

val finish : bool -> z -> z -> words -> pres

val str_to_ipv6_gen : bool -> n list -> pres

type ipres =
| IErr
| IStuck
| IV4 of n
| IV6 of words

val str_to_ip_gen : bool -> n list -> ipres

val str_to_ip : n list -> ipres

val str_to_ip_fixed : n list -> ipres

val cstr : n list -> n list

val dec_char : n -> bool

val decval : n list -> n

val hexdigit_val : n -> n option

val hexstep : n option -> n -> n option

val hexvalue : n list -> n option

val split : n -> n list -> n list list

val ref_octet : n list -> n option

val ref_pton4 : n list -> n option

val ref_group : n list -> n option

val parse_fields : n list list -> (n list * n option) option

val parse_side : n list -> (n list * n option) option

val find_dcolon : n list -> (n list * n list) option

val ref_pton6 : n list -> n list option
