
val negb : bool -> bool

type nat =
| O
| S of nat

val length : 'a1 list -> nat

val app : 'a1 list -> 'a1 list -> 'a1 list

type comparison =
| Eq
| Lt
| Gt

val compOpp : comparison -> comparison

val add : nat -> nat -> nat

type positive =
| XI of positive
| XO of positive
| XH

type z =
| Z0
| Zpos of positive
| Zneg of positive

module Nat :
 sig
  val leb : nat -> nat -> bool
 end

module Pos :
 sig
  val succ : positive -> positive

  val add : positive -> positive -> positive

  val add_carry : positive -> positive -> positive

  val pred_double : positive -> positive

  val mul : positive -> positive -> positive

  val iter : ('a1 -> 'a1) -> 'a1 -> positive -> 'a1

  val compare_cont : comparison -> positive -> positive -> comparison

  val compare : positive -> positive -> comparison

  val eqb : positive -> positive -> bool

  val iter_op : ('a1 -> 'a1 -> 'a1) -> positive -> 'a1 -> 'a1

  val to_nat : positive -> nat

  val of_succ_nat : nat -> positive
 end

module Z :
 sig
  val double : z -> z

  val succ_double : z -> z

  val pred_double : z -> z

  val pos_sub : positive -> positive -> z

  val add : z -> z -> z

  val opp : z -> z

  val sub : z -> z -> z

  val mul : z -> z -> z

  val pow_pos : z -> positive -> z

  val pow : z -> z -> z

  val compare : z -> z -> comparison

  val leb : z -> z -> bool

  val ltb : z -> z -> bool

  val gtb : z -> z -> bool

  val eqb : z -> z -> bool

  val to_nat : z -> nat

  val of_nat : nat -> z

  val pos_div_eucl : positive -> z -> z * z

  val div_eucl : z -> z -> z * z

  val div : z -> z -> z

  val modulo : z -> z -> z
 end

val tl : 'a1 list -> 'a1 list

val filter : ('a1 -> bool) -> 'a1 list -> 'a1 list

val firstn : nat -> 'a1 list -> 'a1 list

val skipn : nat -> 'a1 list -> 'a1 list

val repeat : 'a1 -> nat -> 'a1 list

val wrapu : z -> z -> z

val wraps : z -> z -> z

val obind : 'a1 option -> ('a1 -> 'a2 option) -> 'a2 option

val be16 : z -> z list

val be32 : z -> z list

type sps = { sp_pcount : z; sp_flags : z; sp_asn : z }

type sgs = { sg_ski : z list; sg_sig : z list }

type nlri = { nl_len : z; nl_prefix : z list }

val enc_sps : sps -> z list

val enc_sgs : sgs -> z list

val enc_nlri : nlri -> z list

val enc_segments : sps list -> sgs list -> z list option

val message :
  z -> sps list -> sgs list -> z -> z -> z -> nlri -> z list option

type update = { u_target : z; u_secs : sps list; u_sigs : sgs list;
                u_alg : z; u_afi : z; u_safi : z; u_nlri : nlri }

val digest_for_hop_rec :
  nat -> z -> sps list -> sgs list -> z -> z -> z -> nlri -> z list option

val digest_for_hop : nat -> update -> z list option

val signing_digest : update -> z list option

type router_key = { rk_ski : z list; rk_asn : z; rk_spki : z list }

val bGPSEC_NOT_VALID : z

val bGPSEC_VALID : z

val bGPSEC_SUCCESS : z

val bGPSEC_ERROR : z

val bGPSEC_LOAD_PUB_KEY_ERROR : z

val bGPSEC_LOAD_PRIV_KEY_ERROR : z

val bGPSEC_ROUTER_KEY_NOT_FOUND : z

val bGPSEC_SIGNING_ERROR : z

val bGPSEC_UNSUPPORTED_ALGORITHM_SUITE : z

val bGPSEC_UNSUPPORTED_AFI : z

val bGPSEC_WRONG_SEGMENT_COUNT : z

val bGPSEC_INVALID_ARGUMENTS : z

val aLGORITHM_SUITE_1 : z

val bGPSEC_IPV4 : z

val bGPSEC_IPV6 : z

val sECURE_PATH_SEG_SIZE : z

val c_SKI_SIZE : z

type nlri_c = { n_afi : z; n_safi : z; n_len : z; n_bytes : z list }

type bgpsec_c = { b_alg : z; b_safi : z; b_afi : z; b_my_as : z;
                  b_target_as : z; b_sigs_len : z; b_path_len : z;
                  b_nlri : nlri_c; b_sigs : sgs list; b_path : sps list }

val sig_len : sgs -> z

type align_type =
| VALIDATION
| SIGNING

type stream = { st_size : z; st_buf : z list; st_whead : z }

val init_stream : z -> stream

val write_stream : stream -> z list -> stream option

val write_all : stream -> z list list -> stream option

val sig_chunks : sgs -> z list list

val sec_chunks : sps -> z list list

val align_loop : sps list -> sgs list -> stream -> stream option

val nlri_byte_len : bgpsec_c -> z

val nlri_read : bgpsec_c -> z list option

val align_byte_sequence : bgpsec_c -> stream -> align_type -> stream option

val sig_segs_sum : sgs list -> z -> z

val get_sig_seg_size : sgs list -> align_type -> z

val req_stream_size : bgpsec_c -> align_type -> z

val aligned_stream : bgpsec_c -> align_type -> stream option

val read_for_hash : stream -> z -> z -> z list option

val next_offset : sgs -> sgs list -> z

val hashed_at : stream -> sgs list -> z -> z list option list

val hashed_for_validation : bgpsec_c -> z list option list option

val to_nlri : bgpsec_c -> nlri

val to_update : bgpsec_c -> update

val sigs_total : sgs list -> z

val total_bytes : bgpsec_c -> align_type -> z

val bytes_eqb : z list -> z list -> bool

val search_by_ski : router_key list -> z list -> router_key list

val get_all : router_key list -> z -> z list -> router_key list

val check_router_keys : sgs list -> router_key list -> z

val has_algorithm_suite : z -> bool

val validate_signature :
  (z list -> bool) -> (z list -> z list -> z list -> z) -> z list -> sgs ->
  router_key -> z

val key_loop :
  (z list -> bool) -> (z list -> z list -> z list -> z) -> router_key list ->
  z list -> sgs -> z -> z

val as_filter : bool -> router_key list -> sps list -> router_key list option

val vloop_gen :
  (z list -> z list) -> (z list -> bool) -> (z list -> z list -> z list -> z)
  -> bool -> router_key list -> z -> stream -> sgs list -> sps list -> z -> z
  option

val validate_gen :
  (z list -> z list) -> (z list -> bool) -> (z list -> z list -> z list -> z)
  -> bool -> bgpsec_c -> router_key list -> z option

val validate :
  (z list -> z list) -> (z list -> bool) -> (z list -> z list -> z list -> z)
  -> bgpsec_c -> router_key list -> z option

val validate_fixed :
  (z list -> z list) -> (z list -> bool) -> (z list -> z list -> z list -> z)
  -> bgpsec_c -> router_key list -> z option

val generate_signature :
  (z list -> z list) -> (z list -> bool) -> (z list -> z) -> (z list -> z
  list -> z list) -> bgpsec_c -> z list option -> bool -> (z * sgs option)
  option
