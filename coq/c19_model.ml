
(** val negb : bool -> bool **)

let negb = function
| true -> false
| false -> true

type nat =
| O
| S of nat

(** val fst : ('a1 * 'a2) -> 'a1 **)

let fst = function
| (x, _) -> x

(** val snd : ('a1 * 'a2) -> 'a2 **)

let snd = function
| (_, y) -> y

(** val length : 'a1 list -> nat **)

let rec length = function
| [] -> O
| _ :: l' -> S (length l')

(** val app : 'a1 list -> 'a1 list -> 'a1 list **)

let rec app l m =
  match l with
  | [] -> m
  | a :: l1 -> a :: (app l1 m)

type comparison =
| Eq
| Lt
| Gt

(** val compOpp : comparison -> comparison **)

let compOpp = function
| Eq -> Eq
| Lt -> Gt
| Gt -> Lt

module Coq__1 = struct
 (** val add : nat -> nat -> nat **)
 let rec add n0 m =
   match n0 with
   | O -> m
   | S p -> S (add p m)
end
include Coq__1

(** val sub : nat -> nat -> nat **)

let rec sub n0 m =
  match n0 with
  | O -> n0
  | S k -> (match m with
            | O -> n0
            | S l -> sub k l)

(** val eqb : nat -> nat -> bool **)

let rec eqb n0 m =
  match n0 with
  | O -> (match m with
          | O -> true
          | S _ -> false)
  | S n' -> (match m with
             | O -> false
             | S m' -> eqb n' m')

(** val leb : nat -> nat -> bool **)

let rec leb n0 m =
  match n0 with
  | O -> true
  | S n' -> (match m with
             | O -> false
             | S m' -> leb n' m')

type positive =
| XI of positive
| XO of positive
| XH

type n =
| N0
| Npos of positive

type z =
| Z0
| Zpos of positive
| Zneg of positive

module Nat =
 struct
  (** val leb : nat -> nat -> bool **)

  let rec leb n0 m =
    match n0 with
    | O -> true
    | S n' -> (match m with
               | O -> false
               | S m' -> leb n' m')

  (** val ltb : nat -> nat -> bool **)

  let ltb n0 m =
    leb (S n0) m
 end

module Pos =
 struct
  type mask =
  | IsNul
  | IsPos of positive
  | IsNeg
 end

module Coq_Pos =
 struct
  (** val succ : positive -> positive **)

  let rec succ = function
  | XI p -> XO (succ p)
  | XO p -> XI p
  | XH -> XO XH

  (** val add : positive -> positive -> positive **)

  let rec add x y =
    match x with
    | XI p ->
      (match y with
       | XI q -> XO (add_carry p q)
       | XO q -> XI (add p q)
       | XH -> XO (succ p))
    | XO p ->
      (match y with
       | XI q -> XI (add p q)
       | XO q -> XO (add p q)
       | XH -> XI p)
    | XH -> (match y with
             | XI q -> XO (succ q)
             | XO q -> XI q
             | XH -> XO XH)

  (** val add_carry : positive -> positive -> positive **)

  and add_carry x y =
    match x with
    | XI p ->
      (match y with
       | XI q -> XI (add_carry p q)
       | XO q -> XO (add_carry p q)
       | XH -> XI (succ p))
    | XO p ->
      (match y with
       | XI q -> XO (add_carry p q)
       | XO q -> XI (add p q)
       | XH -> XO (succ p))
    | XH ->
      (match y with
       | XI q -> XI (succ q)
       | XO q -> XO (succ q)
       | XH -> XI XH)

  (** val pred_double : positive -> positive **)

  let rec pred_double = function
  | XI p -> XI (XO p)
  | XO p -> XI (pred_double p)
  | XH -> XH

  type mask = Pos.mask =
  | IsNul
  | IsPos of positive
  | IsNeg

  (** val succ_double_mask : mask -> mask **)

  let succ_double_mask = function
  | IsNul -> IsPos XH
  | IsPos p -> IsPos (XI p)
  | IsNeg -> IsNeg

  (** val double_mask : mask -> mask **)

  let double_mask = function
  | IsPos p -> IsPos (XO p)
  | x0 -> x0

  (** val double_pred_mask : positive -> mask **)

  let double_pred_mask = function
  | XI p -> IsPos (XO (XO p))
  | XO p -> IsPos (XO (pred_double p))
  | XH -> IsNul

  (** val sub_mask : positive -> positive -> mask **)

  let rec sub_mask x y =
    match x with
    | XI p ->
      (match y with
       | XI q -> double_mask (sub_mask p q)
       | XO q -> succ_double_mask (sub_mask p q)
       | XH -> IsPos (XO p))
    | XO p ->
      (match y with
       | XI q -> succ_double_mask (sub_mask_carry p q)
       | XO q -> double_mask (sub_mask p q)
       | XH -> IsPos (pred_double p))
    | XH -> (match y with
             | XH -> IsNul
             | _ -> IsNeg)

  (** val sub_mask_carry : positive -> positive -> mask **)

  and sub_mask_carry x y =
    match x with
    | XI p ->
      (match y with
       | XI q -> succ_double_mask (sub_mask_carry p q)
       | XO q -> double_mask (sub_mask p q)
       | XH -> IsPos (pred_double p))
    | XO p ->
      (match y with
       | XI q -> double_mask (sub_mask_carry p q)
       | XO q -> succ_double_mask (sub_mask_carry p q)
       | XH -> double_pred_mask p)
    | XH -> IsNeg

  (** val mul : positive -> positive -> positive **)

  let rec mul x y =
    match x with
    | XI p -> add y (XO (mul p y))
    | XO p -> XO (mul p y)
    | XH -> y

  (** val iter : ('a1 -> 'a1) -> 'a1 -> positive -> 'a1 **)

  let rec iter f x = function
  | XI n' -> f (iter f (iter f x n') n')
  | XO n' -> iter f (iter f x n') n'
  | XH -> f x

  (** val pow : positive -> positive -> positive **)

  let pow x =
    iter (mul x) XH

  (** val compare_cont : comparison -> positive -> positive -> comparison **)

  let rec compare_cont r x y =
    match x with
    | XI p ->
      (match y with
       | XI q -> compare_cont r p q
       | XO q -> compare_cont Gt p q
       | XH -> Gt)
    | XO p ->
      (match y with
       | XI q -> compare_cont Lt p q
       | XO q -> compare_cont r p q
       | XH -> Gt)
    | XH -> (match y with
             | XH -> r
             | _ -> Lt)

  (** val compare : positive -> positive -> comparison **)

  let compare =
    compare_cont Eq

  (** val eqb : positive -> positive -> bool **)

  let rec eqb p q =
    match p with
    | XI p0 -> (match q with
                | XI q0 -> eqb p0 q0
                | _ -> false)
    | XO p0 -> (match q with
                | XO q0 -> eqb p0 q0
                | _ -> false)
    | XH -> (match q with
             | XH -> true
             | _ -> false)

  (** val iter_op : ('a1 -> 'a1 -> 'a1) -> positive -> 'a1 -> 'a1 **)

  let rec iter_op op p a =
    match p with
    | XI p0 -> op a (iter_op op p0 (op a a))
    | XO p0 -> iter_op op p0 (op a a)
    | XH -> a

  (** val to_nat : positive -> nat **)

  let to_nat x =
    iter_op Coq__1.add x (S O)

  (** val of_succ_nat : nat -> positive **)

  let rec of_succ_nat = function
  | O -> XH
  | S x -> succ (of_succ_nat x)
 end

module N =
 struct
  (** val succ_double : n -> n **)

  let succ_double = function
  | N0 -> Npos XH
  | Npos p -> Npos (XI p)

  (** val double : n -> n **)

  let double = function
  | N0 -> N0
  | Npos p -> Npos (XO p)

  (** val add : n -> n -> n **)

  let add n0 m =
    match n0 with
    | N0 -> m
    | Npos p -> (match m with
                 | N0 -> n0
                 | Npos q -> Npos (Coq_Pos.add p q))

  (** val sub : n -> n -> n **)

  let sub n0 m =
    match n0 with
    | N0 -> N0
    | Npos n' ->
      (match m with
       | N0 -> n0
       | Npos m' ->
         (match Coq_Pos.sub_mask n' m' with
          | Coq_Pos.IsPos p -> Npos p
          | _ -> N0))

  (** val mul : n -> n -> n **)

  let mul n0 m =
    match n0 with
    | N0 -> N0
    | Npos p -> (match m with
                 | N0 -> N0
                 | Npos q -> Npos (Coq_Pos.mul p q))

  (** val compare : n -> n -> comparison **)

  let compare n0 m =
    match n0 with
    | N0 -> (match m with
             | N0 -> Eq
             | Npos _ -> Lt)
    | Npos n' -> (match m with
                  | N0 -> Gt
                  | Npos m' -> Coq_Pos.compare n' m')

  (** val eqb : n -> n -> bool **)

  let eqb n0 m =
    match n0 with
    | N0 -> (match m with
             | N0 -> true
             | Npos _ -> false)
    | Npos p -> (match m with
                 | N0 -> false
                 | Npos q -> Coq_Pos.eqb p q)

  (** val leb : n -> n -> bool **)

  let leb x y =
    match compare x y with
    | Gt -> false
    | _ -> true

  (** val ltb : n -> n -> bool **)

  let ltb x y =
    match compare x y with
    | Lt -> true
    | _ -> false

  (** val pow : n -> n -> n **)

  let pow n0 = function
  | N0 -> Npos XH
  | Npos p0 -> (match n0 with
                | N0 -> N0
                | Npos q -> Npos (Coq_Pos.pow q p0))

  (** val pos_div_eucl : positive -> n -> n * n **)

  let rec pos_div_eucl a b =
    match a with
    | XI a' ->
      let (q, r) = pos_div_eucl a' b in
      let r' = succ_double r in
      if leb b r' then ((succ_double q), (sub r' b)) else ((double q), r')
    | XO a' ->
      let (q, r) = pos_div_eucl a' b in
      let r' = double r in
      if leb b r' then ((succ_double q), (sub r' b)) else ((double q), r')
    | XH ->
      (match b with
       | N0 -> (N0, (Npos XH))
       | Npos p -> (match p with
                    | XH -> ((Npos XH), N0)
                    | _ -> (N0, (Npos XH))))

  (** val div_eucl : n -> n -> n * n **)

  let div_eucl a b =
    match a with
    | N0 -> (N0, N0)
    | Npos na -> (match b with
                  | N0 -> (N0, a)
                  | Npos _ -> pos_div_eucl na b)

  (** val div : n -> n -> n **)

  let div a b =
    fst (div_eucl a b)

  (** val modulo : n -> n -> n **)

  let modulo a b =
    snd (div_eucl a b)

  (** val to_nat : n -> nat **)

  let to_nat = function
  | N0 -> O
  | Npos p -> Coq_Pos.to_nat p

  (** val of_nat : nat -> n **)

  let of_nat = function
  | O -> N0
  | S n' -> Npos (Coq_Pos.of_succ_nat n')
 end

(** val nth_error : 'a1 list -> nat -> 'a1 option **)

let rec nth_error l = function
| O -> (match l with
        | [] -> None
        | x :: _ -> Some x)
| S n1 -> (match l with
           | [] -> None
           | _ :: l0 -> nth_error l0 n1)

(** val map : ('a1 -> 'a2) -> 'a1 list -> 'a2 list **)

let rec map f = function
| [] -> []
| a :: t -> (f a) :: (map f t)

(** val fold_left : ('a1 -> 'a2 -> 'a1) -> 'a2 list -> 'a1 -> 'a1 **)

let rec fold_left f l a0 =
  match l with
  | [] -> a0
  | b :: t -> fold_left f t (f a0 b)

(** val existsb : ('a1 -> bool) -> 'a1 list -> bool **)

let rec existsb f = function
| [] -> false
| a :: l0 -> (||) (f a) (existsb f l0)

(** val forallb : ('a1 -> bool) -> 'a1 list -> bool **)

let rec forallb f = function
| [] -> true
| a :: l0 -> (&&) (f a) (forallb f l0)

(** val firstn : nat -> 'a1 list -> 'a1 list **)

let rec firstn n0 l =
  match n0 with
  | O -> []
  | S n1 -> (match l with
             | [] -> []
             | a :: l0 -> a :: (firstn n1 l0))

(** val repeat : 'a1 -> nat -> 'a1 list **)

let rec repeat x = function
| O -> []
| S k -> x :: (repeat x k)

module Z =
 struct
  (** val double : z -> z **)

  let double = function
  | Z0 -> Z0
  | Zpos p -> Zpos (XO p)
  | Zneg p -> Zneg (XO p)

  (** val succ_double : z -> z **)

  let succ_double = function
  | Z0 -> Zpos XH
  | Zpos p -> Zpos (XI p)
  | Zneg p -> Zneg (Coq_Pos.pred_double p)

  (** val pred_double : z -> z **)

  let pred_double = function
  | Z0 -> Zneg XH
  | Zpos p -> Zpos (Coq_Pos.pred_double p)
  | Zneg p -> Zneg (XI p)

  (** val pos_sub : positive -> positive -> z **)

  let rec pos_sub x y =
    match x with
    | XI p ->
      (match y with
       | XI q -> double (pos_sub p q)
       | XO q -> succ_double (pos_sub p q)
       | XH -> Zpos (XO p))
    | XO p ->
      (match y with
       | XI q -> pred_double (pos_sub p q)
       | XO q -> double (pos_sub p q)
       | XH -> Zpos (Coq_Pos.pred_double p))
    | XH ->
      (match y with
       | XI q -> Zneg (XO q)
       | XO q -> Zneg (Coq_Pos.pred_double q)
       | XH -> Z0)

  (** val add : z -> z -> z **)

  let add x y =
    match x with
    | Z0 -> y
    | Zpos x' ->
      (match y with
       | Z0 -> x
       | Zpos y' -> Zpos (Coq_Pos.add x' y')
       | Zneg y' -> pos_sub x' y')
    | Zneg x' ->
      (match y with
       | Z0 -> x
       | Zpos y' -> pos_sub y' x'
       | Zneg y' -> Zneg (Coq_Pos.add x' y'))

  (** val opp : z -> z **)

  let opp = function
  | Z0 -> Z0
  | Zpos x0 -> Zneg x0
  | Zneg x0 -> Zpos x0

  (** val sub : z -> z -> z **)

  let sub m n0 =
    add m (opp n0)

  (** val compare : z -> z -> comparison **)

  let compare x y =
    match x with
    | Z0 -> (match y with
             | Z0 -> Eq
             | Zpos _ -> Lt
             | Zneg _ -> Gt)
    | Zpos x' -> (match y with
                  | Zpos y' -> Coq_Pos.compare x' y'
                  | _ -> Gt)
    | Zneg x' ->
      (match y with
       | Zneg y' -> compOpp (Coq_Pos.compare x' y')
       | _ -> Lt)

  (** val leb : z -> z -> bool **)

  let leb x y =
    match compare x y with
    | Gt -> false
    | _ -> true

  (** val ltb : z -> z -> bool **)

  let ltb x y =
    match compare x y with
    | Lt -> true
    | _ -> false

  (** val eqb : z -> z -> bool **)

  let eqb x y =
    match x with
    | Z0 -> (match y with
             | Z0 -> true
             | _ -> false)
    | Zpos p -> (match y with
                 | Zpos q -> Coq_Pos.eqb p q
                 | _ -> false)
    | Zneg p -> (match y with
                 | Zneg q -> Coq_Pos.eqb p q
                 | _ -> false)

  (** val to_nat : z -> nat **)

  let to_nat = function
  | Zpos p -> Coq_Pos.to_nat p
  | _ -> O
 end

(** val ch_dot : n **)

let ch_dot =
  Npos (XO (XI (XI (XI (XO XH)))))

(** val ch_colon : n **)

let ch_colon =
  Npos (XO (XI (XO (XI (XI XH)))))

(** val ch_plus : n **)

let ch_plus =
  Npos (XI (XI (XO (XI (XO XH)))))

(** val ch_minus : n **)

let ch_minus =
  Npos (XI (XO (XI (XI (XO XH)))))

(** val is_digit : n -> bool **)

let is_digit c =
  (&&) (N.leb (Npos (XO (XO (XO (XO (XI XH)))))) c)
    (N.leb c (Npos (XI (XO (XO (XI (XI XH)))))))

(** val is_space : n -> bool **)

let is_space c =
  (||) (N.eqb c (Npos (XO (XO (XO (XO (XO XH)))))))
    ((&&) (N.leb (Npos (XI (XO (XO XH)))) c)
      (N.leb c (Npos (XI (XO (XI XH))))))

(** val fmt_base : nat -> n -> (n -> n) -> n -> n list **)

let rec fmt_base fuel b dig n0 =
  match fuel with
  | O -> []
  | S f ->
    if N.ltb n0 b
    then (dig n0) :: []
    else app (fmt_base f b dig (N.div n0 b)) ((dig (N.modulo n0 b)) :: [])

(** val dec_digit : n -> n **)

let dec_digit d =
  N.add (Npos (XO (XO (XO (XO (XI XH)))))) d

(** val dec : n -> n list **)

let dec n0 =
  fmt_base (S (S (S O))) (Npos (XO (XI (XO XH)))) dec_digit n0

(** val dotted : n -> n -> n -> n -> n list **)

let dotted b0 b1 b2 b3 =
  app (dec b0)
    (ch_dot :: (app (dec b1) (ch_dot :: (app (dec b2) (ch_dot :: (dec b3))))))

(** val ipv4_text : n -> n list **)

let ipv4_text a =
  dotted
    (N.modulo (N.div a (N.pow (Npos (XO XH)) (Npos (XO (XO (XO (XI XH)))))))
      (Npos (XO (XO (XO (XO (XO (XO (XO (XO XH))))))))))
    (N.modulo (N.div a (N.pow (Npos (XO XH)) (Npos (XO (XO (XO (XO XH)))))))
      (Npos (XO (XO (XO (XO (XO (XO (XO (XO XH))))))))))
    (N.modulo (N.div a (N.pow (Npos (XO XH)) (Npos (XO (XO (XO XH)))))) (Npos
      (XO (XO (XO (XO (XO (XO (XO (XO XH))))))))))
    (N.modulo a (Npos (XO (XO (XO (XO (XO (XO (XO (XO XH))))))))))

(** val snprintf_store : n -> n list -> n list **)

let snprintf_store len text =
  if N.eqb len N0
  then []
  else if N.ltb (N.of_nat (length text)) len
       then app text (N0 :: [])
       else app (firstn (N.to_nat (N.sub len (Npos XH))) text) (N0 :: [])

(** val ipv4_to_str : n -> n -> z * n list **)

let ipv4_to_str a len =
  (Z0, (snprintf_store len (ipv4_text a)))

(** val ipv4_to_str_fixed : n -> n -> z * n list **)

let ipv4_to_str_fixed a len =
  ((if N.ltb (N.of_nat (length (ipv4_text a))) len then Z0 else Zneg XH),
    (snprintf_store len (ipv4_text a)))

(** val skip_ws : n list -> n list **)

let rec skip_ws s = match s with
| [] -> []
| c :: r -> if is_space c then skip_ws r else s

(** val scan_digits : nat -> n list -> nat -> n -> (nat * n) * n list **)

let rec scan_digits w s cnt acc =
  match w with
  | O -> ((cnt, acc), s)
  | S w' ->
    (match s with
     | [] -> ((cnt, acc), s)
     | c :: r ->
       if is_digit c
       then scan_digits w' r (S cnt)
              (N.add (N.mul acc (Npos (XO (XI (XO XH)))))
                (N.sub c (Npos (XO (XO (XO (XO (XI XH))))))))
       else ((cnt, acc), s))

(** val scan_hhu3 : n list -> (n * n list) option **)

let scan_hhu3 s =
  match skip_ws s with
  | [] -> None
  | c :: r ->
    if N.eqb c ch_minus
    then let p = (true, (S (S O))) in
         let (neg, w) = p in
         let (p0, s3) = scan_digits w r O N0 in
         let (cnt, v) = p0 in
         (match cnt with
          | O -> None
          | S _ ->
            Some
              ((if neg
                then N.modulo
                       (N.sub (Npos (XO (XO (XO (XO (XO (XO (XO (XO
                         XH)))))))))
                         (N.modulo v (Npos (XO (XO (XO (XO (XO (XO (XO (XO
                           XH))))))))))) (Npos (XO (XO (XO (XO (XO (XO (XO
                       (XO XH)))))))))
                else N.modulo v (Npos (XO (XO (XO (XO (XO (XO (XO (XO
                       XH)))))))))), s3))
    else if N.eqb c ch_plus
         then let p = (false, (S (S O))) in
              let (neg, w) = p in
              let (p0, s3) = scan_digits w r O N0 in
              let (cnt, v) = p0 in
              (match cnt with
               | O -> None
               | S _ ->
                 Some
                   ((if neg
                     then N.modulo
                            (N.sub (Npos (XO (XO (XO (XO (XO (XO (XO (XO
                              XH)))))))))
                              (N.modulo v (Npos (XO (XO (XO (XO (XO (XO (XO
                                (XO XH))))))))))) (Npos (XO (XO (XO (XO (XO
                            (XO (XO (XO XH)))))))))
                     else N.modulo v (Npos (XO (XO (XO (XO (XO (XO (XO (XO
                            XH)))))))))), s3))
         else let p = (false, (S (S (S O)))) in
              let s2 = c :: r in
              let (neg, w) = p in
              let (p0, s3) = scan_digits w s2 O N0 in
              let (cnt, v) = p0 in
              (match cnt with
               | O -> None
               | S _ ->
                 Some
                   ((if neg
                     then N.modulo
                            (N.sub (Npos (XO (XO (XO (XO (XO (XO (XO (XO
                              XH)))))))))
                              (N.modulo v (Npos (XO (XO (XO (XO (XO (XO (XO
                                (XO XH))))))))))) (Npos (XO (XO (XO (XO (XO
                            (XO (XO (XO XH)))))))))
                     else N.modulo v (Npos (XO (XO (XO (XO (XO (XO (XO (XO
                            XH)))))))))), s3))

(** val expect : n -> n list -> n list option **)

let expect ch = function
| [] -> None
| c :: r -> if N.eqb c ch then Some r else None

(** val sscanf_quad : n list -> (((n * n) * n) * n) option **)

let sscanf_quad s =
  match scan_hhu3 s with
  | Some p ->
    let (b0, s0) = p in
    (match expect ch_dot s0 with
     | Some s1 ->
       (match scan_hhu3 s1 with
        | Some p0 ->
          let (b1, s2) = p0 in
          (match expect ch_dot s2 with
           | Some s3 ->
             (match scan_hhu3 s3 with
              | Some p1 ->
                let (b2, s4) = p1 in
                (match expect ch_dot s4 with
                 | Some s5 ->
                   (match scan_hhu3 s5 with
                    | Some p2 -> let (b3, _) = p2 in Some (((b0, b1), b2), b3)
                    | None -> None)
                 | None -> None)
              | None -> None)
           | None -> None)
        | None -> None)
     | None -> None)
  | None -> None

(** val str_to_ipv4 : n list -> n option **)

let str_to_ipv4 s =
  match sscanf_quad s with
  | Some p ->
    let (p0, b3) = p in
    let (p1, b2) = p0 in
    let (b0, b1) = p1 in
    Some
    (N.add
      (N.add
        (N.add
          (N.mul b0 (N.pow (Npos (XO XH)) (Npos (XO (XO (XO (XI XH)))))))
          (N.mul b1 (N.pow (Npos (XO XH)) (Npos (XO (XO (XO (XO XH))))))))
        (N.mul b2 (N.pow (Npos (XO XH)) (Npos (XO (XO (XO XH))))))) b3)
  | None -> None

(** val hex_digit : n -> n **)

let hex_digit d =
  if N.ltb d (Npos (XO (XI (XO XH))))
  then N.add (Npos (XO (XO (XO (XO (XI XH)))))) d
  else N.add (Npos (XI (XI (XI (XO (XI (XO XH))))))) d

(** val hex : n -> n list **)

let hex w =
  fmt_base (S (S (S (S O)))) (Npos (XO (XO (XO (XO XH))))) hex_digit w

type runs = { bestpos : z; bestlen : z; curpos : z; curlen : z }

(** val run_step : runs -> z -> bool -> runs **)

let run_step st i = function
| true ->
  { bestpos = st.bestpos; bestlen = st.bestlen; curpos = st.curpos; curlen =
    Z0 }
| false ->
  let cp = if Z.eqb st.curlen Z0 then i else st.curpos in
  let cl = Z.add st.curlen (Zpos XH) in
  if Z.ltb st.bestlen cl
  then { bestpos = cp; bestlen = cl; curpos = cp; curlen = cl }
  else { bestpos = st.bestpos; bestlen = st.bestlen; curpos = cp; curlen =
         cl }

(** val scan_runs : bool list -> z -> runs -> runs **)

let rec scan_runs flags i st =
  match flags with
  | [] -> st
  | f :: r -> scan_runs r (Z.add i (Zpos XH)) (run_step st i f)

(** val runs0 : runs **)

let runs0 =
  { bestpos = Z0; bestlen = Z0; curpos = Z0; curlen = Z0 }

(** val best_run : n list -> z * z **)

let best_run ws =
  let r = scan_runs (map (fun w -> negb (N.eqb w N0)) ws) Z0 runs0 in
  ((if Z.ltb r.bestlen (Zpos (XO XH)) then Zneg XH else r.bestpos), r.bestlen)

(** val fmt6 : nat -> z -> z -> z -> n list -> n list option **)

let rec fmt6 fuel i bp bl ws =
  match fuel with
  | O -> None
  | S f ->
    if Z.leb (Zpos (XO (XO (XO XH)))) i
    then Some []
    else if Z.eqb i bp
         then let i' = Z.sub (Z.add i bl) (Zpos XH) in
              (match fmt6 f (Z.add i' (Zpos XH)) bp bl ws with
               | Some t ->
                 Some
                   (ch_colon :: (app
                                  (if Z.eqb i' (Zpos (XI (XI XH)))
                                   then ch_colon :: []
                                   else []) t))
               | None -> None)
         else (match if Z.ltb i Z0 then None else nth_error ws (Z.to_nat i) with
               | Some w ->
                 (match fmt6 f (Z.add i (Zpos XH)) bp bl ws with
                  | Some t ->
                    Some
                      (app (if Z.eqb i Z0 then [] else ch_colon :: [])
                        (app (hex w) t))
                  | None -> None)
               | None -> None)

(** val txt_ffff_colon : n list **)

let txt_ffff_colon =
  (Npos (XO (XI (XI (XO (XO (XI XH))))))) :: ((Npos (XO (XI (XI (XO (XO (XI
    XH))))))) :: ((Npos (XO (XI (XI (XO (XO (XI XH))))))) :: ((Npos (XO (XI
    (XI (XO (XO (XI XH))))))) :: ((Npos (XO (XI (XO (XI (XI XH)))))) :: []))))

(** val ipv6_text : n list -> n list option **)

let ipv6_text ws = match ws with
| [] -> None
| _ :: l ->
  (match l with
   | [] -> None
   | _ :: l0 ->
     (match l0 with
      | [] -> None
      | _ :: l1 ->
        (match l1 with
         | [] -> None
         | _ :: l2 ->
           (match l2 with
            | [] -> None
            | w4 :: l3 ->
              (match l3 with
               | [] -> None
               | w5 :: l4 ->
                 (match l4 with
                  | [] -> None
                  | w6 :: l5 ->
                    (match l5 with
                     | [] -> None
                     | w7 :: l6 ->
                       (match l6 with
                        | [] ->
                          let (bp, bl) = best_run ws in
                          let a2 =
                            N.add
                              (N.mul w4 (Npos (XO (XO (XO (XO (XO (XO (XO (XO
                                (XO (XO (XO (XO (XO (XO (XO (XO
                                XH)))))))))))))))))) w5
                          in
                          let a3 =
                            N.add
                              (N.mul w6 (Npos (XO (XO (XO (XO (XO (XO (XO (XO
                                (XO (XO (XO (XO (XO (XO (XO (XO
                                XH)))))))))))))))))) w7
                          in
                          if (&&) (Z.eqb bp Z0)
                               ((||)
                                 ((&&) (Z.eqb bl (Zpos (XI (XO XH))))
                                   (N.eqb a2 (Npos (XI (XI (XI (XI (XI (XI
                                     (XI (XI (XI (XI (XI (XI (XI (XI (XI
                                     XH))))))))))))))))))
                                 (Z.eqb bl (Zpos (XO (XI XH)))))
                          then Some
                                 (ch_colon :: (ch_colon :: (app
                                                             (if N.eqb a2 N0
                                                              then []
                                                              else txt_ffff_colon)
                                                             (ipv4_text a3))))
                          else fmt6 (S (S (S (S (S (S (S (S (S O))))))))) Z0
                                 bp bl ws
                        | _ :: _ -> None))))))))

(** val iNET6_ADDRSTRLEN : n **)

let iNET6_ADDRSTRLEN =
  Npos (XO (XI (XI (XI (XO XH)))))

(** val ipv6_to_str : n list -> n -> (z * n list) option **)

let ipv6_to_str ws len =
  if N.ltb len iNET6_ADDRSTRLEN
  then Some ((Zneg XH), [])
  else (match ipv6_text ws with
        | Some t -> Some (Z0, (app t (N0 :: [])))
        | None -> None)

(** val hexval_c : n -> n option **)

let hexval_c c =
  if is_digit c
  then Some (N.sub c (Npos (XO (XO (XO (XO (XI XH)))))))
  else if (&&) (N.leb (Npos (XI (XO (XO (XO (XO (XO XH))))))) c)
            (N.leb c (Npos (XO (XI (XI (XO (XO (XO XH))))))))
       then Some
              (N.add (N.sub c (Npos (XI (XO (XO (XO (XO (XO XH)))))))) (Npos
                (XO (XI (XO XH)))))
       else if (&&) (N.leb (Npos (XI (XO (XO (XO (XO (XI XH))))))) c)
                 (N.leb c (Npos (XO (XI (XI (XO (XO (XI XH))))))))
            then Some
                   (N.add (N.sub c (Npos (XI (XO (XO (XO (XO (XI XH))))))))
                     (Npos (XO (XI (XO XH)))))
            else None

(** val scan_hex : n list -> n -> nat -> (n * n list) option **)

let rec scan_hex a j l =
  match a with
  | [] -> Some (j, a)
  | c :: a' ->
    (match hexval_c c with
     | Some k ->
       let j' = N.add (N.mul j (Npos (XO (XO (XO (XO XH)))))) k in
       if (||)
            (N.leb (Npos (XO (XO (XO (XO (XO (XO (XO (XO (XO (XO (XO (XO (XO
              (XO (XO (XO XH))))))))))))))))) j')
            (Nat.ltb (S (S (S (S O)))) (S l))
       then None
       else scan_hex a' j' (S l)
     | None -> Some (j, a))

(** val upd : nat -> 'a1 -> 'a1 list -> 'a1 list **)

let rec upd n0 v = function
| [] -> []
| x :: r -> (match n0 with
             | O -> v :: r
             | S n' -> x :: (upd n' v r))

type words = n option list

(** val in_words : z -> bool **)

let in_words i =
  (&&) (Z.leb Z0 i) (Z.ltb i (Zpos (XO (XO (XO XH)))))

(** val wset : words -> z -> n option -> words option **)

let wset ws i v =
  if in_words i then Some (upd (Z.to_nat i) v ws) else None

(** val wget : words -> z -> n option option **)

let wget ws i =
  if in_words i then nth_error ws (Z.to_nat i) else None

type lres =
| LErr
| LStuck
| LDone of z * z * words

(** val group_loop : nat -> n list -> z -> z -> words -> lres **)

let rec group_loop fuel a i hfil ws =
  match fuel with
  | O -> LStuck
  | S f ->
    (match a with
     | [] -> LDone (i, hfil, ws)
     | c :: a1 ->
       if N.eqb c ch_colon
       then if Z.leb Z0 hfil then LErr else group_loop f a1 i i ws
       else (match scan_hex a N0 O with
             | Some p ->
               let (j, a2) = p in
               let store = fun a' ->
                 if Z.leb (Zpos (XO (XO (XO XH)))) i
                 then LErr
                 else (match wset ws i (Some j) with
                       | Some ws' ->
                         group_loop f a' (Z.add i (Zpos XH)) hfil ws'
                       | None -> LStuck)
               in
               (match a2 with
                | [] -> store []
                | c2 :: a3 ->
                  if (&&) (N.eqb c2 ch_colon)
                       (negb (match a3 with
                              | [] -> true
                              | _ :: _ -> false))
                  then store a3
                  else if (&&) (N.eqb c2 ch_dot)
                            ((||) (Z.eqb i (Zpos (XO (XI XH))))
                              ((&&) (Z.ltb i (Zpos (XO (XI XH))))
                                (Z.leb Z0 hfil)))
                       then (match str_to_ipv4 a with
                             | Some addr ->
                               (match wset ws i (Some
                                        (N.div addr (Npos (XO (XO (XO (XO (XO
                                          (XO (XO (XO (XO (XO (XO (XO (XO (XO
                                          (XO (XO XH))))))))))))))))))) with
                                | Some ws1 ->
                                  (match wset ws1 (Z.add i (Zpos XH)) (Some
                                           (N.modulo addr (Npos (XO (XO (XO
                                             (XO (XO (XO (XO (XO (XO (XO (XO
                                             (XO (XO (XO (XO (XO
                                             XH))))))))))))))))))) with
                                   | Some ws2 ->
                                     LDone ((Z.add i (Zpos (XO XH))), hfil,
                                       ws2)
                                   | None -> LStuck)
                                | None -> LStuck)
                             | None -> LErr)
                       else LErr)
             | None -> LErr))

(** val fill_move : nat -> z -> z -> z -> words -> (z * words) option **)

let rec fill_move fuel i j hfil ws =
  match fuel with
  | O -> None
  | S f ->
    if Z.leb hfil (Z.sub i j)
    then (match wget ws (Z.sub i j) with
          | Some v ->
            (match wset ws i v with
             | Some ws' -> fill_move f (Z.sub i (Zpos XH)) j hfil ws'
             | None -> None)
          | None -> None)
    else Some (i, ws)

(** val fill_zero : nat -> z -> z -> words -> words option **)

let rec fill_zero fuel i hfil ws =
  match fuel with
  | O -> None
  | S f ->
    if Z.leb hfil i
    then (match wset ws i (Some N0) with
          | Some ws' -> fill_zero f (Z.sub i (Zpos XH)) hfil ws'
          | None -> None)
    else Some ws

type pres =
| PErr
| PStuck
| POk of words

(** val words_init : words **)

let words_init =
  repeat None (S (S (S (S (S (S (S (S O))))))))

(** val start6 : n list -> n list option **)

let start6 a = match a with
| [] -> Some a
| c0 :: r ->
  if N.eqb c0 ch_colon
  then (match r with
        | [] -> None
        | c1 :: _ -> if N.eqb c1 ch_colon then Some r else None)
  else Some a

(** val finish : bool -> z -> z -> words -> pres **)

let finish strict i hfil ws =
  if (&&) ((&&) strict (Z.ltb hfil Z0)) (Z.ltb i (Zpos (XO (XO (XO XH)))))
  then PErr
  else if Z.leb Z0 hfil
       then (match fill_move (S (S (S (S (S (S (S (S (S O))))))))) (Zpos (XI
                     (XI XH))) (Z.sub (Zpos (XO (XO (XO XH)))) i) hfil ws with
             | Some p ->
               let (i', ws1) = p in
               (match fill_zero (S (S (S (S (S (S (S (S (S O))))))))) i' hfil
                        ws1 with
                | Some ws2 -> POk ws2
                | None -> PStuck)
             | None -> PStuck)
       else POk ws

(** val str_to_ipv6_gen : bool -> n list -> pres **)

let str_to_ipv6_gen strict a =
  match start6 a with
  | Some a' ->
    (match group_loop (S (length a')) a' Z0 (Zneg XH) words_init with
     | LErr -> PErr
     | LStuck -> PStuck
     | LDone (i, hfil, ws) -> finish strict i hfil ws)
  | None -> PErr

type ipres =
| IErr
| IStuck
| IV4 of n
| IV6 of words

(** val str_to_ip_gen : bool -> n list -> ipres **)

let str_to_ip_gen strict s =
  if existsb (N.eqb ch_colon) s
  then (match str_to_ipv6_gen strict s with
        | PErr -> IErr
        | PStuck -> IStuck
        | POk ws -> IV6 ws)
  else (match str_to_ipv4 s with
        | Some a -> IV4 a
        | None -> IErr)

(** val str_to_ip : n list -> ipres **)

let str_to_ip =
  str_to_ip_gen false

(** val str_to_ip_fixed : n list -> ipres **)

let str_to_ip_fixed =
  str_to_ip_gen true

(** val cstr : n list -> n list **)

let rec cstr = function
| [] -> []
| c :: r -> if N.eqb c N0 then [] else c :: (cstr r)

(** val dec_char : n -> bool **)

let dec_char c =
  (&&) (N.leb (Npos (XO (XO (XO (XO (XI XH)))))) c)
    (N.leb c (Npos (XI (XO (XO (XI (XI XH)))))))

(** val decval : n list -> n **)

let decval o =
  fold_left (fun acc c ->
    N.add (N.mul acc (Npos (XO (XI (XO XH)))))
      (N.sub c (Npos (XO (XO (XO (XO (XI XH)))))))) o N0

(** val hexdigit_val : n -> n option **)

let hexdigit_val c =
  if (&&) (N.leb (Npos (XO (XO (XO (XO (XI XH)))))) c)
       (N.leb c (Npos (XI (XO (XO (XI (XI XH)))))))
  then Some (N.sub c (Npos (XO (XO (XO (XO (XI XH)))))))
  else if (&&) (N.leb (Npos (XI (XO (XO (XO (XO (XI XH))))))) c)
            (N.leb c (Npos (XO (XI (XI (XO (XO (XI XH))))))))
       then Some (N.sub c (Npos (XI (XI (XI (XO (XI (XO XH))))))))
       else if (&&) (N.leb (Npos (XI (XO (XO (XO (XO (XO XH))))))) c)
                 (N.leb c (Npos (XO (XI (XI (XO (XO (XO XH))))))))
            then Some (N.sub c (Npos (XI (XI (XI (XO (XI XH)))))))
            else None

(** val hexstep : n option -> n -> n option **)

let hexstep acc c =
  match acc with
  | Some a ->
    (match hexdigit_val c with
     | Some d -> Some (N.add (N.mul (Npos (XO (XO (XO (XO XH))))) a) d)
     | None -> None)
  | None -> None

(** val hexvalue : n list -> n option **)

let hexvalue g =
  fold_left hexstep g (Some N0)

(** val split : n -> n list -> n list list **)

let rec split sep = function
| [] -> [] :: []
| c :: r ->
  if N.eqb c sep
  then [] :: (split sep r)
  else (match split sep r with
        | [] -> (c :: []) :: []
        | f :: fs -> (c :: f) :: fs)

(** val ref_octet : n list -> n option **)

let ref_octet o = match o with
| [] -> None
| c :: _ ->
  if (&&) ((&&) (forallb dec_char o) (leb (length o) (S (S (S O)))))
       ((||) (negb (N.eqb c (Npos (XO (XO (XO (XO (XI XH))))))))
         (eqb (length o) (S O)))
  then if N.leb (decval o) (Npos (XI (XI (XI (XI (XI (XI (XI XH))))))))
       then Some (decval o)
       else None
  else None

(** val ref_pton4 : n list -> n option **)

let ref_pton4 s =
  match split (Npos (XO (XI (XI (XI (XO XH)))))) s with
  | [] -> None
  | o0 :: l ->
    (match l with
     | [] -> None
     | o1 :: l0 ->
       (match l0 with
        | [] -> None
        | o2 :: l1 ->
          (match l1 with
           | [] -> None
           | o3 :: l2 ->
             (match l2 with
              | [] ->
                (match ref_octet o0 with
                 | Some b0 ->
                   (match ref_octet o1 with
                    | Some b1 ->
                      (match ref_octet o2 with
                       | Some b2 ->
                         (match ref_octet o3 with
                          | Some b3 ->
                            Some
                              (N.add
                                (N.add
                                  (N.add
                                    (N.mul b0
                                      (N.pow (Npos (XO XH)) (Npos (XO (XO (XO
                                        (XI XH)))))))
                                    (N.mul b1
                                      (N.pow (Npos (XO XH)) (Npos (XO (XO (XO
                                        (XO XH))))))))
                                  (N.mul b2
                                    (N.pow (Npos (XO XH)) (Npos (XO (XO (XO
                                      XH))))))) b3)
                          | None -> None)
                       | None -> None)
                    | None -> None)
                 | None -> None)
              | _ :: _ -> None))))

(** val ref_group : n list -> n option **)

let ref_group g =
  if (&&) (leb (S O) (length g)) (leb (length g) (S (S (S (S O)))))
  then hexvalue g
  else None

(** val parse_fields : n list list -> (n list * n option) option **)

let rec parse_fields = function
| [] -> None
| f :: r ->
  (match r with
   | [] ->
     (match ref_group f with
      | Some v -> Some ((v :: []), None)
      | None ->
        (match ref_pton4 f with
         | Some a -> Some ([], (Some a))
         | None -> None))
   | _ :: _ ->
     (match ref_group f with
      | Some v ->
        (match parse_fields r with
         | Some p -> let (vs, q) = p in Some ((v :: vs), q)
         | None -> None)
      | None -> None))

(** val parse_side : n list -> (n list * n option) option **)

let parse_side s = match s with
| [] -> Some ([], None)
| _ :: _ -> parse_fields (split (Npos (XO (XI (XO (XI (XI XH)))))) s)

(** val find_dcolon : n list -> (n list * n list) option **)

let rec find_dcolon = function
| [] -> None
| c1 :: t ->
  (match t with
   | [] -> None
   | c2 :: r ->
     if (&&) (N.eqb c1 (Npos (XO (XI (XO (XI (XI XH)))))))
          (N.eqb c2 (Npos (XO (XI (XO (XI (XI XH)))))))
     then Some ([], r)
     else (match find_dcolon t with
           | Some p -> let (b, a) = p in Some ((c1 :: b), a)
           | None -> None))

(** val ref_pton6 : n list -> n list option **)

let ref_pton6 s =
  match find_dcolon s with
  | Some p ->
    let (b, a) = p in
    (match parse_side b with
     | Some p0 ->
       let (vpre, o) = p0 in
       (match o with
        | Some _ -> None
        | None ->
          (match parse_side a with
           | Some p1 ->
             let (vpost, o0) = p1 in
             (match o0 with
              | Some q ->
                if leb (add (length vpre) (length vpost)) (S (S (S (S (S
                     O)))))
                then Some
                       (app vpre
                         (app
                           (repeat N0
                             (sub
                               (sub (S (S (S (S (S (S O)))))) (length vpre))
                               (length vpost)))
                           (app vpost
                             ((N.div q (Npos (XO (XO (XO (XO (XO (XO (XO (XO
                                (XO (XO (XO (XO (XO (XO (XO (XO
                                XH)))))))))))))))))) :: ((N.modulo q (Npos
                                                           (XO (XO (XO (XO
                                                           (XO (XO (XO (XO
                                                           (XO (XO (XO (XO
                                                           (XO (XO (XO (XO
                                                           XH)))))))))))))))))) :: [])))))
                else None
              | None ->
                if leb (add (length vpre) (length vpost)) (S (S (S (S (S (S
                     (S O)))))))
                then Some
                       (app vpre
                         (app
                           (repeat N0
                             (sub
                               (sub (S (S (S (S (S (S (S (S O))))))))
                                 (length vpre)) (length vpost))) vpost))
                else None)
           | None -> None))
     | None -> None)
  | None ->
    (match parse_side s with
     | Some p ->
       let (vs, o) = p in
       (match o with
        | Some a ->
          if eqb (length vs) (S (S (S (S (S (S O))))))
          then Some
                 (app vs
                   ((N.div a (Npos (XO (XO (XO (XO (XO (XO (XO (XO (XO (XO
                      (XO (XO (XO (XO (XO (XO XH)))))))))))))))))) :: (
                   (N.modulo a (Npos (XO (XO (XO (XO (XO (XO (XO (XO (XO (XO
                     (XO (XO (XO (XO (XO (XO XH)))))))))))))))))) :: [])))
          else None
        | None ->
          if eqb (length vs) (S (S (S (S (S (S (S (S O))))))))
          then Some vs
          else None)
     | None -> None)
