#!/bin/sh
# seedrun.sh <seeded/dir> [check ids...] - apply a stored seeded change to a scratch worktree of /repo's HEAD, run the checks
# against it (default: the property named by the directory), print one summary line per check, remove the worktree.
d=$(cd "$1" && pwd); shift
name=$(basename $d)
checks=${*:-$(echo $name | cut -c1-3)}
wt=/tmp/seedrun-$name
git -C /repo worktree remove --force $wt >/dev/null 2>&1
git -C /repo worktree add --detach $wt HEAD >/dev/null 2>&1 || { echo "$name: cannot create worktree"; exit 2; }
if ! git -C $wt apply $d/patch.diff 2>/dev/null; then echo "$name: patch does not apply to HEAD (obsolete)"; git -C /repo worktree remove --force $wt; exit 3; fi
for c in $checks; do
  out=$(cd /verif && VERIF_REPO=$wt VERIF_COV= timeout 3000 python3 tools/check.py $c quick 2>&1 | grep -E "VIOLATION|^\[C")
  nv=$(echo "$out" | grep -c VIOLATION)
  echo "$name: check $c -> $( [ $nv -gt 0 ] && echo CAUGHT || echo missed ) ($nv violation lines) $(echo "$out" | grep -m1 VIOLATION | sed 's/.*replay=//' | xargs -r basename)"
done
git -C /repo worktree remove --force $wt
rm -rf /verif/build/alt/$(basename $wt)
